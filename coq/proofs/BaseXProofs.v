(* BaseXProofs.v — lemmas about model/BaseX.v (one-shot codec).
   The statements marked (TARGET) are used verbatim by props/C10.v.
   Layout: general byte/list lemmas, then Section Aux (all auxiliary lemmas and
   the proofs of the targets under *_aux names, generic in the encoding so they
   can be instantiated at both [e] and [strict e]), then Section E with the
   TARGET statements. *)
From Coq Require Import List PeanoNat NArith Bool Lia ZifyN ZifyNat ZifyBool.
From Coq.Strings Require Import Byte.
From SP Require Import Bytes BaseX.
Import ListNotations.
Open Scope N_scope.

(* every lemma proved inside a section depends uniformly on all the section
   hypotheses (this is also what the TARGET lemmas' clients expect) *)
#[local] Set Default Proof Using "All".

(* ---------- bytes <-> numbers ---------- *)
Lemma b2n_lt b : b2n b < 256.
Proof. unfold b2n. pose proof (Byte.to_N_bounded b). lia. Qed.

Lemma n2b_b2n b : n2b (b2n b) = b.
Proof.
  unfold n2b. rewrite N.mod_small by apply b2n_lt.
  unfold b2n. rewrite Byte.of_to_N. reflexivity.
Qed.

Lemma b2n_n2b n : b2n (n2b n) = n mod 256.
Proof.
  unfold n2b, b2n. destruct (Byte.of_N (n mod 256)) eqn:E.
  - apply Byte.to_of_N; exact E.
  - apply Byte.of_N_None_iff in E. pose proof (N.mod_lt n 256). lia.
Qed.

Lemma n2b_mod n : n2b n = n2b (n mod 256).
Proof. unfold n2b. rewrite N.mod_mod by lia. reflexivity. Qed.

Lemma len_nil : len [] = 0.
Proof. reflexivity. Qed.
Lemma len_cons b l : len (b :: l) = len l + 1.
Proof. unfold len. cbn [length]. lia. Qed.
Lemma len_app l1 l2 : len (l1 ++ l2) = len l1 + len l2.
Proof. unfold len. rewrite app_length. lia. Qed.

Lemma be_val_acc_app l1 : forall acc l2,
  be_val_acc acc (l1 ++ l2) = be_val_acc (be_val_acc acc l1) l2.
Proof. induction l1 as [|b t IH]; intros acc l2; cbn [be_val_acc app]; auto. Qed.

Lemma be_val_acc_eq l : forall acc, be_val_acc acc l = acc * 256 ^ len l + be_val l.
Proof.
  unfold be_val. induction l as [|b t IH]; intro acc.
  - cbn [be_val_acc]. rewrite len_nil, N.pow_0_r. lia.
  - cbn [be_val_acc]. rewrite (IH (acc*256 + b2n b)), (IH (0*256 + b2n b)).
    rewrite len_cons, N.add_1_r, N.pow_succ_r'.
    set (P := 256 ^ len t). lia.
Qed.

Lemma be_val_app_one l b : be_val (l ++ [b]) = be_val l * 256 + b2n b.
Proof. unfold be_val. rewrite be_val_acc_app. reflexivity. Qed.

Lemma be_val_lt l : be_val l < 256 ^ len l.
Proof.
  induction l as [|b t IH].
  - rewrite len_nil, N.pow_0_r. unfold be_val. cbn [be_val_acc]. lia.
  - unfold be_val. cbn [be_val_acc]. rewrite be_val_acc_eq.
    rewrite len_cons, N.add_1_r, N.pow_succ_r'.
    pose proof (b2n_lt b). set (P := 256 ^ len t) in *. nia.
Qed.

Lemma be_bytes_acc_eq k : forall n acc, be_bytes_acc k n acc = be_bytes k n ++ acc.
Proof.
  unfold be_bytes. induction k as [|k IH]; intros n acc; cbn [be_bytes_acc].
  - reflexivity.
  - rewrite (IH (n/256) (n2b n :: acc)), (IH (n/256) [n2b n]).
    rewrite <- app_assoc. reflexivity.
Qed.

Lemma be_bytes_S k n : be_bytes (S k) n = be_bytes k (n/256) ++ [n2b n].
Proof. unfold be_bytes at 1. cbn [be_bytes_acc]. apply be_bytes_acc_eq. Qed.

Lemma be_bytes_length k : forall n, length (be_bytes k n) = k.
Proof.
  induction k as [|k IH]; intro n.
  - reflexivity.
  - rewrite be_bytes_S, app_length, IH. cbn [length]. lia.
Qed.

Lemma be_val_be_bytes k : forall v, v < 256 ^ N.of_nat k -> be_val (be_bytes k v) = v.
Proof.
  induction k as [|k IH]; intros v Hv.
  - change (N.of_nat 0) with 0 in Hv. rewrite N.pow_0_r in Hv.
    assert (v = 0) by lia. subst. reflexivity.
  - rewrite Nat2N.inj_succ, N.pow_succ_r' in Hv.
    rewrite be_bytes_S, be_val_app_one, b2n_n2b, IH.
    + pose proof (N.div_mod v 256). lia.
    + apply N.div_lt_upper_bound; lia.
Qed.

Lemma be_bytes_be_val l : be_bytes (length l) (be_val l) = l.
Proof.
  induction l as [|b l IH] using rev_ind.
  - reflexivity.
  - rewrite app_length. cbn [length]. rewrite Nat.add_1_r.
    rewrite be_bytes_S, be_val_app_one.
    pose proof (b2n_lt b) as Hb.
    assert (H1 : (be_val l * 256 + b2n b) / 256 = be_val l).
    { symmetry. apply N.div_unique with (b2n b); lia. }
    assert (H2 : (be_val l * 256 + b2n b) mod 256 = b2n b).
    { symmetry. apply N.mod_unique with (be_val l); lia. }
    rewrite H1, IH, n2b_mod, H2, n2b_b2n. reflexivity.
Qed.

Lemma split_at_acc_eq n : forall l acc,
  split_at_acc n l acc = (rev acc ++ firstn n l, skipn n l).
Proof.
  induction n as [|n IH]; intros l acc; destruct l as [|b t];
    cbn [split_at_acc firstn skipn]; rewrite ?rev_append_rev, ?app_nil_r; try reflexivity.
  rewrite IH. cbn [rev]. rewrite <- app_assoc. reflexivity.
Qed.

Lemma split_at_eq n l : split_at n l = (firstn n l, skipn n l).
Proof. unfold split_at. rewrite split_at_acc_eq. reflexivity. Qed.

Lemma index_of_spec b l : forall i j, index_of b l i = Some j ->
  i <= j /\ (N.to_nat (j - i) < length l)%nat /\ nth (N.to_nat (j - i)) l x00 = b.
Proof.
  induction l as [|a t IH]; intros i j H; cbn [index_of] in H.
  - discriminate.
  - destruct (Byte.eqb a b) eqn:E.
    + injection H as <-. apply Byte.byte_dec_bl in E. subst.
      split; [lia|]. rewrite N.sub_diag. cbn. split; [lia|reflexivity].
    + apply IH in H as (H1 & H2 & H3). split; [lia|].
      replace (N.to_nat (j - i)) with (S (N.to_nat (j - (i+1)))) by lia.
      cbn [length nth]. split; [lia|assumption].
Qed.

Lemma index_of_nth l : NoDup l -> forall k i, (k < length l)%nat ->
  index_of (nth k l x00) l i = Some (i + N.of_nat k).
Proof.
  induction 1 as [|a t Hin Hnd IH]; intros k i Hk.
  - cbn in Hk. lia.
  - destruct k as [|k]; cbn [nth index_of].
    + rewrite (Byte.byte_dec_lb (eq_refl a)). f_equal. lia.
    + cbn [length] in Hk. destruct (Byte.eqb a (nth k t x00)) eqn:E.
      * apply Byte.byte_dec_bl in E. exfalso. apply Hin. rewrite E. apply nth_In. lia.
      * rewrite IH by lia. f_equal. lia.
Qed.
Section Aux.
Variable e : encoding.
Hypothesis Hbase_lo : 2 <= base e.
Hypothesis Hbase_hi : base e <= 256.
Hypothesis Hnodup : NoDup (enc_alphabet e).
Hypothesis Hibl : 0 < enc_ibl e.

(* ---------- digits ---------- *)
Lemma to_digits_acc c : forall n acc, to_digits e c n acc = to_digits e c n [] ++ acc.
Proof.
  induction c as [|c IH]; intros n acc; cbn [to_digits].
  - reflexivity.
  - rewrite (IH (n / base e) (n mod base e :: acc)), (IH (n / base e) [n mod base e]).
    rewrite <- app_assoc. reflexivity.
Qed.

Lemma to_digits_S c n :
  to_digits e (S c) n [] = to_digits e c (n / base e) [] ++ [n mod base e].
Proof. cbn [to_digits]. apply to_digits_acc. Qed.

Lemma to_digits_length c : forall n, length (to_digits e c n []) = c.
Proof.
  induction c as [|c IH]; intro n.
  - reflexivity.
  - rewrite to_digits_S, app_length, IH. cbn [length]. lia.
Qed.

Lemma to_digits_bound c : forall n, Forall (fun d => d < base e) (to_digits e c n []).
Proof.
  induction c as [|c IH]; intro n.
  - constructor.
  - rewrite to_digits_S. apply Forall_app. split; [apply IH|].
    constructor; [apply N.mod_lt; lia|constructor].
Qed.

Lemma from_digits_app l1 : forall acc l2,
  from_digits e acc (l1 ++ l2) = from_digits e (from_digits e acc l1) l2.
Proof. induction l1 as [|d t IH]; intros acc l2; cbn [from_digits app]; auto. Qed.

Lemma from_to_digits c : forall n, n < base e ^ N.of_nat c ->
  from_digits e 0 (to_digits e c n []) = n.
Proof.
  induction c as [|c IH]; intros n Hn.
  - change (N.of_nat 0) with 0 in Hn. rewrite N.pow_0_r in Hn.
    assert (n = 0) by lia. subst. reflexivity.
  - rewrite Nat2N.inj_succ, N.pow_succ_r' in Hn.
    rewrite to_digits_S, from_digits_app, IH.
    + cbn [from_digits]. pose proof (N.div_mod n (base e)). lia.
    + apply N.div_lt_upper_bound; lia.
Qed.

Lemma to_from_digits ds : Forall (fun d => d < base e) ds ->
  to_digits e (length ds) (from_digits e 0 ds) [] = ds.
Proof.
  induction ds as [|d ds IH] using rev_ind; intro HF.
  - reflexivity.
  - apply Forall_app in HF as [HF1 HF2]. inversion HF2 as [|? ? Hd _]; subst.
    rewrite app_length. cbn [length]. rewrite Nat.add_1_r.
    rewrite to_digits_S, from_digits_app. cbn [from_digits].
    set (X := from_digits e 0 ds) in *.
    assert (H1 : (X * base e + d) / base e = X).
    { symmetry. apply N.div_unique with d; lia. }
    assert (H2 : (X * base e + d) mod base e = d).
    { symmetry. apply N.mod_unique with X; lia. }
    rewrite H1, H2, IH by assumption. reflexivity.
Qed.

(* ---------- alphabet ---------- *)
Lemma digit_of_char_of d : d < base e -> digit_of e (char_of e d) = Some d.
Proof.
  intro Hd. unfold digit_of, char_of. rewrite index_of_nth.
  - f_equal. lia.
  - exact Hnodup.
  - unfold base, len in Hd. lia.
Qed.

Lemma digit_of_inv b d : digit_of e b = Some d -> d < base e /\ char_of e d = b.
Proof.
  unfold digit_of, char_of, base, len. intro H.
  apply index_of_spec in H as (_ & H2 & H3). rewrite N.sub_0_r in *.
  split; [lia|assumption].
Qed.

(* ---------- min_chars / max_bytes ---------- *)
Lemma base_ne0 : base e <> 0.
Proof. lia. Qed.

Lemma bpow_pos c : 0 < base e ^ c.
Proof. pose proof (N.pow_nonzero (base e) c base_ne0). lia. Qed.

Lemma bpow_le_mono a b : a <= b -> base e ^ a <= base e ^ b.
Proof. apply N.pow_le_mono_r. exact base_ne0. Qed.

Lemma bpow_lt_inv a b : base e ^ a < base e ^ b -> a < b.
Proof. apply N.pow_lt_mono_r_iff. lia. Qed.

Lemma p256_lt_mono a b : a < b -> 256 ^ a < 256 ^ b.
Proof. apply N.pow_lt_mono_r. lia. Qed.

Lemma p256_le_mono a b : a <= b -> 256 ^ a <= 256 ^ b.
Proof. apply N.pow_le_mono_r. lia. Qed.

Lemma p256_lt_inv a b : 256 ^ a < 256 ^ b -> a < b.
Proof. apply N.pow_lt_mono_r_iff. lia. Qed.

Lemma bpow_le_256 c : base e ^ c <= 256 ^ c.
Proof. apply N.pow_le_mono_l. exact Hbase_hi. Qed.

Lemma min_chars_aux_spec fuel : forall c pw target,
  pw = base e ^ c -> (forall c', c' < c -> base e ^ c' < target) ->
  target <= base e ^ (c + N.of_nat fuel - 1) -> fuel <> O ->
  target <= base e ^ (min_chars_aux e fuel c pw target) /\
  forall c', c' < min_chars_aux e fuel c pw target -> base e ^ c' < target.
Proof.
  induction fuel as [|fuel IH]; intros c pw target Hpw Hlt Hub Hf; [congruence|].
  cbn [min_chars_aux]. destruct (target <=? pw) eqn:E.
  - apply N.leb_le in E. subst pw. split; assumption.
  - apply N.leb_gt in E. apply IH.
    + subst pw. rewrite N.add_1_r, N.pow_succ_r'; lia.
    + intros c' Hc'. destruct (N.eq_dec c' c) as [->|Hne]; [subst pw; assumption|apply Hlt; lia].
    + replace (c + 1 + N.of_nat fuel - 1) with (c + N.of_nat (S fuel) - 1) by lia. assumption.
    + intro; subst fuel. replace (c + N.of_nat 1 - 1) with c in Hub by lia. subst pw. lia.
Qed.

Lemma min_chars_spec_aux (r : N) :
  256 ^ r <= base e ^ min_chars e r /\
  (forall c, c < min_chars e r -> base e ^ c < 256 ^ r).
Proof.
  unfold min_chars. apply min_chars_aux_spec.
  - rewrite N.pow_0_r. reflexivity.
  - intros c' Hc'. lia.
  - replace (0 + N.of_nat (N.to_nat (8 * r + 1)) - 1) with (8 * r) by lia.
    assert (H : 256 ^ r = 2 ^ (8 * r)) by (rewrite N.pow_mul_r; reflexivity).
    rewrite H. apply N.pow_le_mono_l. exact Hbase_lo.
  - lia.
Qed.

Lemma max_bytes_aux_spec fuel : forall b pw target,
  pw = 256 ^ b -> pw <= target -> target < 256 ^ (b + N.of_nat fuel + 1) ->
  256 ^ (max_bytes_aux fuel b pw target) <= target /\
  target < 256 ^ (max_bytes_aux fuel b pw target + 1).
Proof.
  induction fuel as [|fuel IH]; intros b pw target Hpw Hle Hub; cbn [max_bytes_aux].
  - replace (b + N.of_nat 0 + 1) with (b + 1) in Hub by lia. subst pw. split; assumption.
  - destruct (pw * 256 <=? target) eqn:E.
    + apply N.leb_le in E. apply IH.
      * subst pw. rewrite N.add_1_r, N.pow_succ_r'; lia.
      * assumption.
      * replace (b + 1 + N.of_nat fuel + 1) with (b + N.of_nat (S fuel) + 1) by lia. assumption.
    + apply N.leb_gt in E. subst pw. split; [assumption|].
      rewrite N.add_1_r, N.pow_succ_r'; lia.
Qed.

Lemma max_bytes_spec_aux (c : N) :
  256 ^ max_bytes e c <= base e ^ c /\ base e ^ c < 256 ^ (max_bytes e c + 1).
Proof.
  unfold max_bytes. apply max_bytes_aux_spec.
  - rewrite N.pow_0_r. reflexivity.
  - pose proof (bpow_pos c). lia.
  - replace (0 + N.of_nat (N.to_nat c) + 1) with (c + 1) by lia.
    pose proof (bpow_le_256 c). pose proof (p256_lt_mono c (c+1)). lia.
Qed.

Lemma min_chars_unique r c :
  256 ^ r <= base e ^ c -> (c = 0 \/ base e ^ (c - 1) < 256 ^ r) -> min_chars e r = c.
Proof.
  intros H1 H2. destruct (min_chars_spec_aux r) as [S1 S2].
  destruct (N.lt_trichotomy (min_chars e r) c) as [L|[L|L]]; [|assumption|].
  - exfalso. destruct H2 as [->|H2]; [lia|].
    pose proof (bpow_le_mono (min_chars e r) (c - 1)). lia.
  - apply S2 in L. lia.
Qed.

Lemma max_bytes_unique c b :
  256 ^ b <= base e ^ c -> base e ^ c < 256 ^ (b + 1) -> max_bytes e c = b.
Proof.
  intros H1 H2. destruct (max_bytes_spec_aux c) as [S1 S2].
  assert (b < max_bytes e c + 1) by (apply p256_lt_inv; lia).
  assert (max_bytes e c < b + 1) by (apply p256_lt_inv; lia).
  lia.
Qed.

Lemma min_chars_pos r : 0 < r -> 0 < min_chars e r.
Proof.
  intro Hr. destruct (min_chars_spec_aux r) as [S1 _].
  destruct (N.eq_dec (min_chars e r) 0) as [E|]; [|lia].
  rewrite E, N.pow_0_r in S1. pose proof (p256_lt_mono 0 r Hr). rewrite N.pow_0_r in *. lia.
Qed.

Lemma min_chars_0 : min_chars e 0 = 0.
Proof. apply min_chars_unique; [rewrite !N.pow_0_r; lia | left; reflexivity]. Qed.

Lemma min_chars_strict r1 r2 : r1 < r2 -> min_chars e r1 < min_chars e r2.
Proof.
  intro Hr. destruct (min_chars_spec_aux r2) as [S1 _].
  destruct (min_chars_spec_aux r1) as [_ T2].
  assert (Hp : 0 < min_chars e r2) by (apply min_chars_pos; lia).
  set (c2 := min_chars e r2) in *.
  destruct (N.lt_ge_cases (c2 - 1) (min_chars e r1)) as [L|L]; [|lia].
  apply T2 in L. exfalso.
  replace c2 with (N.succ (c2 - 1)) in S1 by lia. rewrite N.pow_succ_r' in S1.
  pose proof (p256_le_mono (r1 + 1) r2 ltac:(lia)) as Hm.
  rewrite N.add_1_r, N.pow_succ_r' in Hm.
  set (P := base e ^ (c2 - 1)) in *. set (Q := 256 ^ r1) in *. nia.
Qed.

Lemma max_bytes_mono c1 c2 : c1 <= c2 -> max_bytes e c1 <= max_bytes e c2.
Proof.
  intro H. destruct (max_bytes_spec_aux c1) as [A1 _]. destruct (max_bytes_spec_aux c2) as [_ B2].
  pose proof (bpow_le_mono c1 c2 H).
  assert (max_bytes e c1 < max_bytes e c2 + 1) by (apply p256_lt_inv; lia). lia.
Qed.

Lemma max_bytes_min_chars r : 0 < r -> max_bytes e (min_chars e r) = r.
Proof.
  intro Hr. destruct (min_chars_spec_aux r) as [S1 S2].
  pose proof (min_chars_pos r Hr) as Hp. set (c := min_chars e r) in *.
  apply max_bytes_unique; [assumption|].
  specialize (S2 (c - 1) ltac:(lia)).
  replace c with (N.succ (c - 1)) by lia. rewrite N.pow_succ_r'.
  rewrite N.add_1_r, N.pow_succ_r'.
  set (P := base e ^ (c - 1)) in *. set (Q := 256 ^ r) in *. nia.
Qed.

Lemma max_bytes_pred_min_chars r : 0 < r -> max_bytes e (min_chars e r - 1) < r.
Proof.
  intro Hr. destruct (min_chars_spec_aux r) as [_ S2].
  pose proof (min_chars_pos r Hr) as Hp.
  specialize (S2 (min_chars e r - 1) ltac:(lia)).
  destruct (max_bytes_spec_aux (min_chars e r - 1)) as [M1 _].
  apply p256_lt_inv. lia.
Qed.

Lemma obl_pos : 0 < obl e.
Proof. apply min_chars_pos. exact Hibl. Qed.

(* a valid short block length n determines its byte count *)
Lemma short_len_canonical n :
  0 < n -> n < obl e -> max_bytes e n <> max_bytes e (n - 1) ->
  0 < max_bytes e n /\ max_bytes e n < ibl e /\ min_chars e (max_bytes e n) = n.
Proof.
  intros Hn Hlt Hne.
  pose proof (max_bytes_mono (n - 1) n ltac:(lia)) as Hm.
  destruct (max_bytes_spec_aux n) as [M1 M2].
  destruct (max_bytes_spec_aux (n - 1)) as [_ P2].
  destruct (min_chars_spec_aux (ibl e)) as [_ O2]. specialize (O2 n Hlt).
  split; [lia|]. split.
  - apply p256_lt_inv. lia.
  - apply min_chars_unique; [assumption|]. right.
    pose proof (p256_le_mono (max_bytes e (n - 1) + 1) (max_bytes e n) ltac:(lia)). lia.
Qed.
Lemma len_eq (l : bytes) : len l = N.of_nat (length l).
Proof. reflexivity. Qed.

Lemma encode_block_len src : len (encode_block e src) = min_chars e (len src).
Proof.
  unfold encode_block. rewrite len_eq, map_length, to_digits_length. lia.
Qed.

Lemma encode_block_base_conversion_aux (src : bytes) :
  let ds := to_digits e (N.to_nat (min_chars e (len src))) (be_val src) [] in
  encode_block e src = map (char_of e) ds /\
  len (encode_block e src) = min_chars e (len src) /\
  Forall (fun d => d < base e) ds /\
  from_digits e 0 ds = be_val src.
Proof.
  cbv zeta. split; [reflexivity|]. split; [apply encode_block_len|].
  split; [apply to_digits_bound|].
  apply from_to_digits. rewrite N2Nat.id.
  pose proof (be_val_lt src). destruct (min_chars_spec_aux (len src)) as [S1 _]. lia.
Qed.

(* ---------- encode ---------- *)
Lemma ibl_nat_pos : (1 <= N.to_nat (ibl e))%nat.
Proof. unfold ibl. lia. Qed.

Lemma encode_fuel_irrel f1 : forall f2 src, (length src <= f1)%nat -> (length src <= f2)%nat ->
  encode_fuel e f1 src = encode_fuel e f2 src.
Proof.
  induction f1 as [|f1 IH]; intros f2 src H1 H2.
  - destruct src; [|cbn in H1; lia]. destruct f2; reflexivity.
  - destruct src as [|b t]; [destruct f2; reflexivity|].
    destruct f2 as [|f2]; [cbn in H2; lia|]. cbn [encode_fuel].
    rewrite split_at_eq. f_equal.
    pose proof ibl_nat_pos. cbn [length] in H1, H2.
    apply IH; rewrite skipn_length; cbn [length]; lia.
Qed.

Lemma encode_nil : encode e [] = [].
Proof. reflexivity. Qed.

Lemma encode_cons_eq src : src <> [] ->
  encode e src = encode_block e (firstn (N.to_nat (ibl e)) src) ++
                 encode e (skipn (N.to_nat (ibl e)) src).
Proof.
  intro Hne. unfold encode. destruct src as [|b t]; [congruence|].
  cbn [length encode_fuel]. rewrite split_at_eq. f_equal.
  pose proof ibl_nat_pos.
  apply encode_fuel_irrel; rewrite ?skipn_length; cbn [length]; lia.
Qed.

Lemma encode_short src : src <> [] -> (length src <= N.to_nat (ibl e))%nat ->
  encode e src = encode_block e src.
Proof.
  intros Hne Hl. rewrite encode_cons_eq by assumption.
  rewrite firstn_all2, skipn_all2 by assumption. rewrite encode_nil, app_nil_r. reflexivity.
Qed.

Lemma encode_app_full blk r : length blk = N.to_nat (ibl e) ->
  encode e (blk ++ r) = encode_block e blk ++ encode e r.
Proof.
  intro Hl. pose proof ibl_nat_pos.
  assert (Hne : blk ++ r <> []).
  { destruct blk; [cbn in Hl; lia|discriminate]. }
  rewrite encode_cons_eq by assumption. rewrite <- Hl.
  rewrite firstn_app, skipn_app, Nat.sub_diag, firstn_all, skipn_all.
  cbn [firstn skipn app]. rewrite app_nil_r. reflexivity.
Qed.

Lemma encoded_len_0 : encoded_len e 0 = 0.
Proof.
  unfold encoded_len. rewrite N.div_0_l, N.mod_0_l by (unfold ibl; lia). reflexivity.
Qed.

Lemma encoded_len_short m : 0 < m -> m < ibl e -> encoded_len e m = min_chars e m.
Proof.
  intros H1 H2. unfold encoded_len. rewrite N.div_small, N.mod_small by assumption.
  destruct (m =? 0) eqn:E; [apply N.eqb_eq in E; lia|]. lia.
Qed.

Lemma encoded_len_add m : encoded_len e (m + ibl e) = obl e + encoded_len e m.
Proof.
  assert (Hi : ibl e <> 0) by (unfold ibl; lia).
  unfold encoded_len.
  replace (m + ibl e) with (m + 1 * ibl e) by lia.
  rewrite N.div_add, N.mod_add by assumption. lia.
Qed.

Lemma encode_length_gen : forall n src, (length src <= n)%nat ->
  len (encode e src) = encoded_len e (len src).
Proof.
  induction n as [|n IH]; intros src Hn.
  - destruct src; [|cbn in Hn; lia]. rewrite encode_nil, len_nil, encoded_len_0. reflexivity.
  - destruct (list_eq_dec Byte.byte_eq_dec src []) as [->|Hne].
    { rewrite encode_nil, len_nil, encoded_len_0. reflexivity. }
    pose proof ibl_nat_pos as Hk.
    assert (Hlen : (0 < length src)%nat) by (destruct src; [congruence|cbn; lia]).
    destruct (Nat.lt_ge_cases (length src) (N.to_nat (ibl e))) as [Hs|Hs].
    + rewrite encode_short by (assumption || lia). rewrite encode_block_len.
      rewrite encoded_len_short; [reflexivity|unfold len; lia|unfold len; lia].
    + rewrite encode_cons_eq by assumption. rewrite len_app, encode_block_len.
      set (k := N.to_nat (ibl e)) in *.
      assert (H1 : len (firstn k src) = ibl e).
      { unfold len. rewrite firstn_length_le by lia. unfold k. lia. }
      assert (H2 : len src = len (skipn k src) + ibl e).
      { unfold len. rewrite skipn_length. unfold k in *. lia. }
      rewrite IH by (rewrite skipn_length; lia).
      rewrite H1, H2, encoded_len_add. reflexivity.
Qed.

Lemma encode_length_aux (src : bytes) : len (encode e src) = encoded_len e (len src).
Proof. apply (encode_length_gen (length src)). lia. Qed.

(* ---------- scanning a run of digit characters ---------- *)
Lemma scan_digits ds : forall rest i ng acc off,
  Forall (fun d => d < base e) ds ->
  (ng + N.of_nat (length ds) = obl e /\ ds <> []) \/
  (ng + N.of_nat (length ds) < obl e /\ rest = []) ->
  scan_block e (map (char_of e) ds ++ rest) i ng acc off =
  inr (rev acc ++ ds, i + N.of_nat (length ds), rest).
Proof.
  induction ds as [|d t IH]; intros rest i ng acc off HF H.
  - destruct H as [[_ H]|[_ ->]]; [congruence|].
    cbn [map app scan_block length]. rewrite rev_append_rev, !app_nil_r.
    change (N.of_nat 0) with 0. rewrite N.add_0_r. reflexivity.
  - inversion HF as [|? ? Hd HF']; subst.
    cbn [map app scan_block]. rewrite digit_of_char_of by assumption.
    cbn [length] in H.
    destruct (ng + 1 =? obl e) eqn:E.
    + apply N.eqb_eq in E.
      assert (t = []) by (destruct t; [reflexivity|cbn [length] in H; lia]). subst t.
      cbn [map app length]. rewrite rev_append_rev. cbn [rev]. rewrite app_nil_r.
      reflexivity.
    + apply N.eqb_neq in E. rewrite IH.
      * cbn [rev length]. rewrite <- app_assoc. cbn [app].
        f_equal. f_equal. f_equal. lia.
      * assumption.
      * destruct H as [[H1 _]|[H1 H2]].
        -- left. split; [lia|]. destruct t; [cbn [length] in H1; lia|discriminate].
        -- right. split; [lia|assumption].
Qed.

(* ---------- decodeBlock ---------- *)
Definition finish (ds : list N) : bx_err + bytes :=
  let n := N.of_nat (length ds) in
  if negb (valid_len e n) then inl InvalidEncodingLength
  else
    let padded := decoded_len e n in
    let v := from_digits e 0 ds in
    if 256 ^ padded <=? v then inl InvalidEncodingLength
    else inr (be_bytes (N.to_nat padded) v).

Lemma decode_block_eq src off :
  decode_block e src off =
  match scan_block e src 0 0 [] off with
  | inl err => inl err
  | inr (ds, consumed, rest) =>
    match finish ds with
    | inl err => inl err
    | inr out => inr (out, rest, consumed)
    end
  end.
Proof.
  unfold decode_block, finish.
  destruct (scan_block e src 0 0 [] off) as [err|[[ds c] rest]]; [reflexivity|].
  cbv zeta. destruct (negb _); [reflexivity|]. destruct (_ <=? _); reflexivity.
Qed.

Lemma obl_ne0 : obl e <> 0.
Proof. pose proof obl_pos. lia. Qed.

Lemma decoded_len_obl : decoded_len e (obl e) = ibl e.
Proof.
  unfold decoded_len. rewrite N.div_same, N.mod_same by exact obl_ne0.
  rewrite N.eqb_refl. lia.
Qed.

Lemma decoded_len_short n : 0 < n -> n < obl e -> decoded_len e n = max_bytes e n.
Proof.
  intros H1 H2. unfold decoded_len. rewrite N.div_small, N.mod_small by assumption.
  destruct (n =? 0) eqn:E; [apply N.eqb_eq in E; lia|]. lia.
Qed.

Lemma valid_decoded r : 0 < r -> r <= ibl e ->
  valid_len e (min_chars e r) = true /\ decoded_len e (min_chars e r) = r.
Proof.
  intros H1 H2. destruct (N.eq_dec r (ibl e)) as [->|Hne].
  - fold (obl e). split; [|apply decoded_len_obl].
    unfold valid_len. rewrite N.eqb_refl. reflexivity.
  - assert (Hlt : min_chars e r < obl e) by (apply min_chars_strict; lia).
    pose proof (min_chars_pos r H1) as Hp.
    pose proof (max_bytes_min_chars r H1) as M1.
    pose proof (max_bytes_pred_min_chars r H1) as M2.
    split.
    + unfold valid_len. apply orb_true_iff. right. apply negb_true_iff, N.eqb_neq. lia.
    + rewrite decoded_len_short by assumption. assumption.
Qed.

Lemma finish_encode_block blk : 0 < len blk -> len blk <= ibl e ->
  finish (to_digits e (N.to_nat (min_chars e (len blk))) (be_val blk) []) = inr blk.
Proof.
  intros H1 H2. destruct (valid_decoded (len blk) H1 H2) as [V D].
  unfold finish. cbv zeta. rewrite to_digits_length, N2Nat.id, V, D. cbn [negb].
  destruct (encode_block_base_conversion_aux blk) as (_ & _ & _ & Hv). cbv zeta in Hv.
  rewrite Hv. pose proof (be_val_lt blk) as Hlt.
  destruct (256 ^ len blk <=? be_val blk) eqn:E; [apply N.leb_le in E; lia|].
  unfold len. rewrite Nat2N.id. rewrite be_bytes_be_val. reflexivity.
Qed.

Lemma decode_block_encode blk rest off :
  0 < len blk -> len blk <= ibl e -> (len blk = ibl e \/ rest = []) ->
  decode_block e (encode_block e blk ++ rest) off = inr (blk, rest, min_chars e (len blk)).
Proof.
  intros H1 H2 H3. rewrite decode_block_eq. unfold encode_block.
  pose proof (min_chars_pos (len blk) H1) as Hp.
  rewrite scan_digits.
  - cbn [rev app]. rewrite finish_encode_block by assumption.
    rewrite to_digits_length, N2Nat.id. reflexivity.
  - apply to_digits_bound.
  - rewrite to_digits_length, N2Nat.id.
    destruct (N.eq_dec (len blk) (ibl e)) as [E|E].
    + left. split; [rewrite E; reflexivity|].
      intro Hnil. apply (f_equal (@length N)) in Hnil. rewrite to_digits_length in Hnil.
      cbn [length] in Hnil. lia.
    + right. destruct H3 as [H3|H3]; [congruence|]. split; [|assumption].
      rewrite N.add_0_l. apply min_chars_strict. lia.
Qed.

Lemma decode_fuel_step f src off acc : src <> [] ->
  decode_fuel e (S f) src off acc =
  match decode_block e src off with
  | inl err => (rev_append acc [], Some err)
  | inr (out, rest, consumed) => decode_fuel e f rest (off + consumed) (rev_append out acc)
  end.
Proof. destruct src; [congruence|reflexivity]. Qed.

Lemma decode_fuel_nil f off acc : decode_fuel e f [] off acc = (rev_append acc [], None).
Proof. destruct f; reflexivity. Qed.

Lemma decode_encode_gen : forall n src, (length src <= n)%nat ->
  forall f off acc, (length (encode e src) <= f)%nat ->
  decode_fuel e f (encode e src) off acc = (rev acc ++ src, None).
Proof.
  induction n as [|n IH]; intros src Hn f off acc Hf.
  - destruct src; [|cbn in Hn; lia].
    rewrite encode_nil, decode_fuel_nil, rev_append_rev, !app_nil_r. reflexivity.
  - destruct (list_eq_dec Byte.byte_eq_dec src []) as [->|Hne].
    { rewrite encode_nil, decode_fuel_nil, rev_append_rev, !app_nil_r. reflexivity. }
    pose proof ibl_nat_pos as Hk.
    assert (Hlen : (0 < length src)%nat) by (destruct src; [congruence|cbn; lia]).
    rewrite encode_cons_eq in * by assumption.
    set (k := N.to_nat (ibl e)) in *.
    set (blk := firstn k src) in *. set (rest := skipn k src) in *.
    assert (Hsrc : src = blk ++ rest) by (symmetry; apply firstn_skipn).
    assert (Hbl : length blk = Nat.min k (length src)) by apply firstn_length.
    assert (Hrl : length rest = (length src - k)%nat) by apply skipn_length.
    assert (B1 : 0 < len blk) by (unfold len; lia).
    assert (B2 : len blk <= ibl e) by (unfold len, k in *; lia).
    assert (B3 : len blk = ibl e \/ encode e rest = []).
    { destruct (Nat.lt_ge_cases (length src) k) as [Hs|Hs].
      - right. assert (rest = []) as -> by (destruct rest; [reflexivity|cbn [length] in Hrl; lia]).
        apply encode_nil.
      - left. unfold len, k in *. lia. }
    pose proof (min_chars_pos (len blk) B1) as Hp.
    rewrite app_length in Hf. pose proof (encode_block_len blk) as Hel. unfold len at 1 in Hel.
    destruct f as [|f]; [lia|].
    rewrite decode_fuel_step.
    + rewrite decode_block_encode by assumption.
      rewrite IH by lia.
      rewrite rev_append_rev, rev_app_distr, rev_involutive, <- app_assoc, <- Hsrc. reflexivity.
    + intro Hnil. apply (f_equal (@length byte)) in Hnil. rewrite app_length in Hnil.
      cbn [length] in Hnil. lia.
Qed.

Lemma decode_encode_aux (src : bytes) : decode e (encode e src) = (src, None).
Proof.
  unfold decode. rewrite (decode_encode_gen (length src)) by lia. reflexivity.
Qed.
(* ---------- general scanning ---------- *)
Definition is_dig (b : byte) : bool :=
  match digit_of e b with Some _ => true | None => false end.
Definition dig_list (b : byte) : list N :=
  match digit_of e b with Some d => [d] | None => [] end.
Definition digits_of (l : bytes) : list N := flat_map dig_list l.

Lemma digits_of_cons_digit b d l : digit_of e b = Some d ->
  digits_of (b :: l) = d :: digits_of l.
Proof. intro H. unfold digits_of. cbn [flat_map]. unfold dig_list at 1. rewrite H. reflexivity. Qed.

Lemma digits_of_cons_nodigit b l : digit_of e b = None ->
  digits_of (b :: l) = digits_of l.
Proof. intro H. unfold digits_of. cbn [flat_map]. unfold dig_list at 1. rewrite H. reflexivity. Qed.

Lemma digits_of_filter pre : map (char_of e) (digits_of pre) = filter is_dig pre.
Proof.
  induction pre as [|b t IH]; [reflexivity|].
  cbn [filter]. unfold is_dig at 1. destruct (digit_of e b) as [d|] eqn:Ed.
  - rewrite (digits_of_cons_digit b d t Ed). cbn [map]. rewrite IH.
    apply digit_of_inv in Ed as [_ ->]. reflexivity.
  - rewrite (digits_of_cons_nodigit b t Ed). exact IH.
Qed.

Lemma digits_of_bound pre : Forall (fun d => d < base e) (digits_of pre).
Proof.
  induction pre as [|b t IH]; [constructor|].
  destruct (digit_of e b) as [d|] eqn:Ed.
  - rewrite (digits_of_cons_digit b d t Ed). constructor; [|exact IH].
    apply digit_of_inv in Ed as [H _]. exact H.
  - rewrite (digits_of_cons_nodigit b t Ed). exact IH.
Qed.

Lemma filter_all pre : (forall b, In b pre -> is_dig b = true) -> filter is_dig pre = pre.
Proof.
  induction pre as [|b t IH]; intro H; [reflexivity|].
  cbn [filter]. rewrite (H b (or_introl eq_refl)). f_equal. apply IH.
  intros b' Hb'. apply H. right. exact Hb'.
Qed.

Lemma scan_ok s : forall i ng acc off ds c rest,
  scan_block e s i ng acc off = inr (ds, c, rest) -> ng < obl e ->
  exists pre, s = pre ++ rest /\ c = i + len pre /\
    (forall b, In b pre -> is_dig b = true \/ is_skip e b = true) /\
    ds = rev acc ++ digits_of pre /\
    (ng + N.of_nat (length (digits_of pre)) = obl e \/
     (ng + N.of_nat (length (digits_of pre)) < obl e /\ rest = [])) /\
    (s <> [] -> pre <> []).
Proof.
  induction s as [|b t IH]; intros i ng acc off ds c rest H Hng.
  - cbn [scan_block] in H. injection H as <- <- <-. exists [].
    split; [reflexivity|]. split; [rewrite len_nil; lia|].
    split; [intros b []|]. split; [rewrite rev_append_rev; reflexivity|].
    split; [right; cbn; split; [lia|reflexivity]|congruence].
  - cbn [scan_block] in H. destruct (digit_of e b) as [d|] eqn:Ed.
    + destruct (ng + 1 =? obl e) eqn:E.
      * apply N.eqb_eq in E. injection H as <- <- <-. exists [b].
        split; [reflexivity|]. split; [reflexivity|].
        split. { intros b' [<-|[]]. left. unfold is_dig. rewrite Ed. reflexivity. }
        rewrite (digits_of_cons_digit b d [] Ed).
        split. { rewrite rev_append_rev. cbn [rev]. rewrite ?app_nil_r. reflexivity. }
        split; [left; cbn; lia|discriminate].
      * apply N.eqb_neq in E.
        apply IH in H as (pre & Hs & Hc & Hg & Hds & Hcnt & _); [|lia].
        exists (b :: pre). split; [cbn [app]; congruence|].
        split; [rewrite len_cons; lia|].
        split. { intros b' [<-|Hin]; [left; unfold is_dig; rewrite Ed; reflexivity|auto]. }
        rewrite (digits_of_cons_digit b d pre Ed).
        split. { rewrite Hds. cbn [rev]. rewrite <- app_assoc. reflexivity. }
        split; [|discriminate]. cbn [length].
        destruct Hcnt as [Hcnt|[Hcnt Hr]]; [left; lia|right; split; [lia|assumption]].
    + destruct (is_skip e b) eqn:Es; [|discriminate].
      apply IH in H as (pre & Hs & Hc & Hg & Hds & Hcnt & _); [|lia].
      exists (b :: pre). split; [cbn [app]; congruence|].
      split; [rewrite len_cons; lia|].
      split. { intros b' [<-|Hin]; [right; assumption|auto]. }
      rewrite (digits_of_cons_nodigit b pre Ed).
      split; [assumption|]. split; [assumption|discriminate].
Qed.

(* ---------- foreign characters ---------- *)
Lemma decode_foreign_gen : forall f s off acc, (length s <= f)%nat ->
  (exists b, In b s /\ is_dig b = false /\ is_skip e b = false) ->
  snd (decode_fuel e f s off acc) <> None.
Proof.
  induction f as [|f IH]; intros s off acc Hf (b & Hin & Hd & Hk).
  - destruct s; [destruct Hin|cbn in Hf; lia].
  - assert (Hne : s <> []) by (intros ->; destruct Hin).
    rewrite decode_fuel_step by assumption. rewrite decode_block_eq.
    destruct (scan_block e s 0 0 [] off) as [err|[[ds c] rest]] eqn:Es.
    { cbn [snd]. discriminate. }
    apply scan_ok in Es as (pre & Hs & Hc & Hg & Hds & Hcnt & Hpre); [|exact obl_pos].
    destruct (finish ds) as [err|out]; [cbn [snd]; discriminate|].
    apply IH.
    + specialize (Hpre Hne). subst s. rewrite app_length in Hf.
      destruct pre; [congruence|cbn [length] in Hf; lia].
    + exists b. split; [|split; assumption].
      subst s. apply in_app_or in Hin as [Hin|Hin]; [|assumption].
      destruct (Hg b Hin); congruence.
Qed.

(* ---------- canonical (strict) decoding ---------- *)
Lemma finish_canonical D out :
  Forall (fun d => d < base e) D -> D <> [] -> N.of_nat (length D) <= obl e ->
  finish D = inr out ->
  0 < len out /\ len out <= ibl e /\ (N.of_nat (length D) = obl e -> len out = ibl e) /\
  encode_block e out = map (char_of e) D.
Proof.
  intros HF Hne Hle H. unfold finish in H. cbv zeta in H.
  set (n := N.of_nat (length D)) in *.
  assert (Hn : 0 < n) by (destruct D; [congruence|unfold n; cbn [length]; lia]).
  destruct (valid_len e n) eqn:V; cbn [negb] in H; [|discriminate].
  destruct (256 ^ decoded_len e n <=? from_digits e 0 D) eqn:L; [discriminate|].
  apply N.leb_gt in L. injection H as <-.
  set (padded := decoded_len e n) in *.
  assert (Hp : 0 < padded /\ padded <= ibl e /\ (n = obl e -> padded = ibl e) /\
               min_chars e padded = n).
  { destruct (N.eq_dec n (obl e)) as [E|E].
    - assert (padded = ibl e) as -> by (unfold padded; rewrite E; apply decoded_len_obl).
      unfold ibl at 1. split; [assumption|]. split; [lia|]. split; [reflexivity|].
      symmetry; exact E.
    - assert (Hlt : n < obl e) by lia.
      unfold valid_len in V.
      destruct (n =? obl e) eqn:E1; [apply N.eqb_eq in E1; lia|].
      destruct (n =? 0) eqn:E2; [apply N.eqb_eq in E2; lia|].
      cbn [orb] in V. apply negb_true_iff, N.eqb_neq in V.
      destruct (short_len_canonical n Hn Hlt V) as (S1 & S2 & S3).
      unfold padded. rewrite decoded_len_short by assumption.
      split; [assumption|]. split; [lia|]. split; [intro; lia|assumption]. }
  destruct Hp as (P1 & P2 & P3 & P4).
  assert (Hlen : len (be_bytes (N.to_nat padded) (from_digits e 0 D)) = padded).
  { unfold len. rewrite be_bytes_length. lia. }
  rewrite Hlen. split; [assumption|]. split; [assumption|]. split; [assumption|].
  unfold encode_block. rewrite Hlen, P4.
  rewrite be_val_be_bytes by (rewrite N2Nat.id; assumption).
  unfold n. rewrite Nat2N.id. rewrite to_from_digits by assumption. reflexivity.
Qed.

Lemma no_skip : enc_skip e = [] -> forall b, is_skip e b = false.
Proof. intros H b. unfold is_skip. rewrite H. reflexivity. Qed.

Lemma decode_canonical_gen : enc_skip e = [] ->
  forall f s off acc b, (length s <= f)%nat ->
  decode_fuel e f s off acc = (b, None) ->
  exists b', b = rev acc ++ b' /\ encode e b' = s.
Proof.
  intro Hstrict.
  induction f as [|f IH]; intros s off acc b Hf H.
  - destruct s; [|cbn in Hf; lia]. rewrite decode_fuel_nil in H. injection H as <-.
    exists []. rewrite rev_append_rev, !app_nil_r. split; reflexivity.
  - destruct (list_eq_dec Byte.byte_eq_dec s []) as [->|Hne].
    { rewrite decode_fuel_nil in H. injection H as <-.
      exists []. rewrite rev_append_rev, !app_nil_r. split; reflexivity. }
    rewrite decode_fuel_step in H by assumption. rewrite decode_block_eq in H.
    destruct (scan_block e s 0 0 [] off) as [err|[[ds c] rest]] eqn:Es; [discriminate|].
    apply scan_ok in Es as (pre & Hs & Hc & Hg & Hds & Hcnt & Hpre); [|exact obl_pos].
    specialize (Hpre Hne).
    destruct (finish ds) as [err|out] eqn:Ef; [discriminate|].
    assert (Hall : forall b, In b pre -> is_dig b = true).
    { intros b' Hb'. destruct (Hg b' Hb') as [|Hk]; [assumption|].
      rewrite no_skip in Hk by assumption. discriminate. }
    pose proof (digits_of_filter pre) as Hmap. rewrite (filter_all pre Hall) in Hmap.
    cbn [rev app] in Hds. subst ds.
    set (D := digits_of pre) in *.
    assert (HDne : D <> []).
    { intro HD. rewrite HD in Hmap. cbn in Hmap. congruence. }
    rewrite N.add_0_l in Hcnt.
    destruct (finish_canonical D out (digits_of_bound pre) HDne ltac:(lia) Ef)
      as (F1 & F2 & F3 & F4).
    destruct Hcnt as [Hfull|[Hshort ->]].
    + apply IH in H as (b'' & Hb & Hrest).
      * exists (out ++ b''). split.
        -- rewrite Hb, rev_append_rev, rev_app_distr, rev_involutive, <- app_assoc. reflexivity.
        -- rewrite encode_app_full by (specialize (F3 Hfull); unfold len in F3; lia).
           rewrite F4, Hmap, Hrest. symmetry; assumption.
      * subst s. rewrite app_length in Hf. destruct pre; [congruence|cbn [length] in Hf; lia].
    + rewrite decode_fuel_nil in H. injection H as <-.
      exists out. split.
      * rewrite !rev_append_rev, rev_app_distr, rev_involutive, !app_nil_r. reflexivity.
      * rewrite encode_short.
        -- rewrite F4, Hmap, Hs, app_nil_r. reflexivity.
        -- intros ->. rewrite len_nil in F1. lia.
        -- unfold len in F2. lia.
Qed.

Lemma decode_canonical_aux (s b : bytes) :
  enc_skip e = [] -> decode e s = (b, None) -> encode e b = s.
Proof.
  intros Hstrict H. unfold decode in H.
  apply (decode_canonical_gen Hstrict) in H as (b' & Hb & He); [|lia].
  cbn [rev app] in Hb. subst b'. exact He.
Qed.

Lemma decode_foreign_aux (s : bytes) :
  (exists b, In b s /\ is_dig b = false /\ is_skip e b = false) ->
  snd (decode e s) <> None.
Proof. intro H. unfold decode. apply decode_foreign_gen; [lia|exact H]. Qed.
(* ---------- input made only of digits and skip characters ---------- *)
Lemma scan_good s : forall i ng acc off,
  (forall b, In b s -> is_dig b = true \/ is_skip e b = true) ->
  exists ds c rest, scan_block e s i ng acc off = inr (ds, c, rest).
Proof.
  induction s as [|b t IH]; intros i ng acc off Hg.
  - cbn [scan_block]. eauto.
  - cbn [scan_block].
    assert (Ht : forall b', In b' t -> is_dig b' = true \/ is_skip e b' = true)
      by (intros b' Hb'; apply Hg; right; exact Hb').
    destruct (digit_of e b) as [d|] eqn:Ed.
    + destruct (ng + 1 =? obl e); [eauto|apply IH; exact Ht].
    + destruct (Hg b (or_introl eq_refl)) as [Hd|Hk].
      * unfold is_dig in Hd. rewrite Ed in Hd. discriminate.
      * rewrite Hk. apply IH; exact Ht.
Qed.

Lemma finish_nil : finish [] = inr [].
Proof.
  unfold finish. cbv zeta. cbn [length]. change (N.of_nat 0) with 0.
  assert (V : valid_len e 0 = true).
  { unfold valid_len. rewrite (N.eqb_refl 0), orb_true_r. reflexivity. }
  assert (Dl : decoded_len e 0 = 0).
  { unfold decoded_len. rewrite N.div_0_l, N.mod_0_l by exact obl_ne0. reflexivity. }
  rewrite V, Dl. reflexivity.
Qed.
End Aux.

Section E.
Variable e : encoding.
Hypothesis Hbase_lo : 2 <= base e.
Hypothesis Hbase_hi : base e <= 256.
Hypothesis Hnodup : NoDup (enc_alphabet e).
Hypothesis Hibl : 0 < enc_ibl e.

(* (TARGET) min_chars r is the least c with base^c >= 256^r *)
Lemma min_chars_spec (r : N) :
  256 ^ r <= base e ^ min_chars e r /\
  (forall c, c < min_chars e r -> base e ^ c < 256 ^ r).
Proof. exact (min_chars_spec_aux e Hbase_lo Hbase_hi Hnodup Hibl r). Qed.

(* (TARGET) max_bytes c is the greatest b with 256^b <= base^c *)
Lemma max_bytes_spec (c : N) :
  256 ^ max_bytes e c <= base e ^ c /\ base e ^ c < 256 ^ (max_bytes e c + 1).
Proof. exact (max_bytes_spec_aux e Hbase_lo Hbase_hi Hnodup Hibl c). Qed.

(* (TARGET) encodeBlock is positional base conversion: fixed length C(len src),
   digits below the base, most significant first, value preserved
   (so leading zero digits are kept) *)
Lemma encode_block_base_conversion (src : bytes) :
  let ds := to_digits e (N.to_nat (min_chars e (len src))) (be_val src) [] in
  encode_block e src = map (char_of e) ds /\
  len (encode_block e src) = min_chars e (len src) /\
  Forall (fun d => d < base e) ds /\
  from_digits e 0 ds = be_val src.
Proof. exact (encode_block_base_conversion_aux e Hbase_lo Hbase_hi Hnodup Hibl src). Qed.

(* (TARGET) the length helper agrees with the encoder *)
Lemma encode_length (src : bytes) :
  len (encode e src) = encoded_len e (len src).
Proof. exact (encode_length_aux e Hbase_lo Hbase_hi Hnodup Hibl src). Qed.

(* (TARGET) round trip, any byte string, any number of blocks *)
Lemma decode_encode (src : bytes) :
  decode e (encode e src) = (src, None).
Proof. exact (decode_encode_aux e Hbase_lo Hbase_hi Hnodup Hibl src). Qed.

(* (TARGET) strict decoding accepts only canonical encodings *)
Lemma decode_canonical (s b : bytes) :
  enc_skip e = [] ->
  decode e s = (b, None) -> encode e b = s.
Proof. exact (decode_canonical_aux e Hbase_lo Hbase_hi Hnodup Hibl s b). Qed.

(* the strict variant of an encoding *)
Definition strict : encoding := mkEncoding (enc_alphabet e) (enc_ibl e) [].

Definition is_digit (b : byte) : bool :=
  match digit_of e b with Some _ => true | None => false end.

Lemma is_digit_eq : is_digit = is_dig e.
Proof. reflexivity. Qed.

Lemma scan_strict_digits D X off :
  Forall (fun d => d < base e) D ->
  (N.of_nat (length D) = obl e /\ D <> []) \/ (N.of_nat (length D) < obl e /\ X = []) ->
  scan_block strict (map (char_of e) D ++ X) 0 0 [] off = inr (D, N.of_nat (length D), X).
Proof.
  intros HF H.
  exact (scan_digits strict Hbase_lo Hbase_hi Hnodup Hibl D X 0 0 [] off HF H).
Qed.

Lemma decode_skip_gen : forall f1 s f2 o1 o2 acc,
  (length s <= f1)%nat -> (length (filter is_digit s) <= f2)%nat ->
  (forall b, In b s -> is_digit b = true \/ is_skip e b = true) ->
  fst (decode_fuel e f1 s o1 acc) =
    fst (decode_fuel strict f2 (filter is_digit s) o2 acc) /\
  (snd (decode_fuel e f1 s o1 acc) = None <->
   snd (decode_fuel strict f2 (filter is_digit s) o2 acc) = None).
Proof.
  pose proof (decode_fuel_nil e Hbase_lo Hbase_hi Hnodup Hibl) as nilE.
  pose proof (decode_fuel_nil strict Hbase_lo Hbase_hi Hnodup Hibl) as nilS.
  pose proof (decode_fuel_step e Hbase_lo Hbase_hi Hnodup Hibl) as stepE.
  pose proof (decode_fuel_step strict Hbase_lo Hbase_hi Hnodup Hibl) as stepS.
  pose proof (decode_block_eq e Hbase_lo Hbase_hi Hnodup Hibl) as dbE.
  pose proof (decode_block_eq strict Hbase_lo Hbase_hi Hnodup Hibl) as dbS.
  pose proof (obl_pos e Hbase_lo Hbase_hi Hnodup Hibl) as Hobl.
  induction f1 as [|f1 IH]; intros s f2 o1 o2 acc H1 H2 Hg.
  - destruct s; [|cbn in H1; lia]. cbn [filter]. rewrite nilE, nilS.
    split; [reflexivity|tauto].
  - destruct (list_eq_dec Byte.byte_eq_dec s []) as [->|Hne].
    { cbn [filter]. rewrite nilE, nilS. split; [reflexivity|tauto]. }
    rewrite stepE by assumption. rewrite dbE.
    destruct (scan_good e Hbase_lo Hbase_hi Hnodup Hibl s 0 0 [] o1 Hg)
      as (ds & c & rest & Es).
    rewrite Es.
    apply (scan_ok e Hbase_lo Hbase_hi Hnodup Hibl) in Es
      as (pre & Hs & Hc & Hgp & Hds & Hcnt & Hpre); [|assumption].
    specialize (Hpre Hne). cbn [rev app] in Hds. subst ds.
    rewrite N.add_0_l in Hcnt.
    assert (Hfil : filter is_digit s =
                   map (char_of e) (digits_of e pre) ++ filter is_digit rest).
    { rewrite Hs, filter_app. f_equal. symmetry.
      exact (digits_of_filter e Hbase_lo Hbase_hi Hnodup Hibl pre). }
    pose proof (digits_of_bound e Hbase_lo Hbase_hi Hnodup Hibl pre) as HDb.
    assert (Hrl : (length rest < length s)%nat).
    { rewrite Hs, app_length. destruct pre; [congruence|cbn [length]; lia]. }
    remember (digits_of e pre) as D eqn:HD.
    destruct D as [|d D'].
    + cbn [length] in Hcnt. change (N.of_nat 0) with 0 in Hcnt.
      destruct Hcnt as [Hcnt|[_ ->]]; [lia|].
      rewrite (finish_nil e Hbase_lo Hbase_hi Hnodup Hibl).
      rewrite Hfil. cbn [map app filter rev_append]. rewrite nilE, nilS.
      split; [reflexivity|tauto].
    + rewrite Hfil in H2 |- *.
      rewrite app_length, map_length in H2. cbn [length] in H2.
      destruct f2 as [|f2]; [lia|].
      rewrite stepS by (cbn [map app]; discriminate).
      rewrite dbS. rewrite scan_strict_digits.
      * change (finish strict (d :: D')) with (finish e (d :: D')).
        destruct (finish e (d :: D')) as [err|out].
        -- cbn [fst snd]. split; [reflexivity|]. split; discriminate.
        -- apply IH; [lia|lia|].
           intros b Hb. apply Hg. rewrite Hs. apply in_or_app. right. exact Hb.
      * assumption.
      * destruct Hcnt as [Hcnt|[Hcnt ->]].
        -- left. split; [assumption|discriminate].
        -- right. split; [assumption|reflexivity].
Qed.

(* (TARGET) skipping: when every character is a digit or a skip character,
   decoding equals strict decoding of the digits alone (same bytes, same
   success/failure) *)
Lemma decode_skip (s : bytes) :
  (forall b, In b s -> is_digit b = true \/ is_skip e b = true) ->
  fst (decode e s) = fst (decode strict (filter is_digit s)) /\
  (snd (decode e s) = None <-> snd (decode strict (filter is_digit s)) = None).
Proof.
  intro Hg. unfold decode. apply decode_skip_gen; [lia|lia|exact Hg].
Qed.

(* (TARGET) a character that is neither a digit nor skippable is never accepted *)
Lemma decode_foreign (s : bytes) :
  (exists b, In b s /\ is_digit b = false /\ is_skip e b = false) ->
  snd (decode e s) <> None.
Proof. exact (decode_foreign_aux e Hbase_lo Hbase_hi Hnodup Hibl s). Qed.

End E.
