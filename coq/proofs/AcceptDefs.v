(* AcceptDefs.v — shared definitions of the C09 acceptance theorems (no proofs). *)
From Coq Require Import List NArith ZArith.
From SP Require Import Bytes Params Msgpack Packets MsgpackProofs.
Import ListNotations.
Open Scope N_scope.

(* extra trailing elements are arbitrary well-formed MessagePack values *)
Definition extras_ok (l : list mval) : Prop := Forall wf l /\ N.of_nat (length l) < 1000.

(* a validator admitting the message's major version *)
Definition admits (vd : validator) (major minor : Z) : Prop :=
  vd = AnyKnownMajor \/ vd = Single (mkV major minor).
