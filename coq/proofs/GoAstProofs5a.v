(* GoAstProofs5a.v — source ties for the encryption SENDER (/repo/encrypt.go): checkEncryptReceivers,
   encryptStream.encryptBlock, encryptStream.Write, encryptStream.Close and encryptStream.init, as translated from
   /repo's Go syntax trees (gen/GoAst.v; in /verif: gen/GoAstSend.v) and evaluated with the extended semantics of
   model/GoLang2.v (run_func2: outcome AND final environment), compute exactly what the specification functions of
   this file say — every return value, the Go error value, and the state left in the receiver object `es` (and in the
   rng / key-creator objects for init) — for EVERY crypto record, every writer behind the encoder, every state.
   The specification functions are the model's (model/Encrypt.v, model/Chunker.v, model/Rand.v) pieces put in the
   order the code runs them; [es_init_model] ties init to the head of the model's seal_stream.

   ENCODINGS.  The *encryptStream object is [g_es st] for a record [st : es_state]: version, encoder (an arbitrary
   value [es_enc], see below), payloadKey, buffer (the unread bytes of es.buffer), headerHash, macKeys (nil when
   empty, as computeMACKeysSender leaves it), numBlocks, err (nil or a named error value).  A BoxPublicKey is
   [g_rcpt (kid, hide)], a BoxSecretKey [g_sk sk], the optional sender [g_sender].  The encoder: `encoder.Encode(x)`
   is interpreted by a SECTION VARIABLE [enc_step : gval -> bytes -> gval * gerr]: what presenting the MessagePack
   bytes of x to the encoder object does to that object, and the error returned (nil or not).  So the lemmas hold for
   every writer, failing or not; [mem_enc] (object = the bytes written so far, never fails) is seal()'s bytes.Buffer,
   and with it "the bytes written to the output" can be read off [es_enc] of the final state.
   The packet bytes are mp_encode of the block value as go-codec encodes it ([mv_enc_block_go]: a nil
   []payloadAuthenticator is MessagePack nil; for a non-empty list it is the model's mv_enc_block:
   [mv_enc_block_go_model]).

   EXTERNS.  [ext_rcpt]: BoxPublicKey.ToKID.  [ext_block] (encryptBlock): bytes.Buffer.Next / Len on the unread bytes;
   checkEncryptBlockRead and assertEncodedChunkState have NO value exactly when they panic ([read_ok], [enc_chunk_ok] =
   len >= overhead and the model's check_chunk_state is Ok; the evaluator cannot propagate a callee's panic, it is
   stuck at that call and the lemmas say exactly when); secretbox.Seal = sb_seal; makeEncryptionBlock = the V1 / V2
   struct, no value for another version (panic); encoder.Encode = [enc_step] on mp_encode of the value;
   encryptionBlockNumber.check, nonceForChunkSecretBox, computePayloadHash, computePayloadAuthenticator = the model's
   (GoAstProofs2.ext_model; each has its own source tie there).  [ext_stream] (Write, Close): es.encryptBlock(f) =
   [es_block] (justified by go_encryptBlock): its error, then the receiver object it leaves; Version1() / Version2();
   Buffer.Write (GoAstProofs2.ext_prims).  [ext_init]: checkKnownVersion = known_version (go_checkKnownVersion);
   checkEncryptReceivers = [check_rcv_err] (go_checkEncryptReceivers); rng.shuffleReceivers = the model's shuffle on the
   rng object's "shuffle" source (no value for >= 2^31 receivers: csprngShuffle panics), CreateEphemeralKey = read_full 32
   on the key creator's source, rng.createSymmetricKey = read_full 32 on the rng object's "key" source — each returns
   the advanced source, which the evaluator writes back into the object, so the lemma states the randomness consumed;
   a failed draw is the error value ErrRand and leaves the source as it was; GetPublicKey = dh_pub, Precompute =
   dh_shared, BoxPrecomputedSharedKey.Box = sb_seal, ToKID / HideIdentity = the fields of the key object;
   nonceForSenderKeySecretBox, nonceForPayloadKeyBox = the model's; encodeToBytes = mp_encode of the header struct
   (fields looked up by name; receiver entries with a nil ReceiverKID encode it as nil); sha512.Sum512;
   computeMACKeysSender = the model's mac_key_sender over the recipients ([sender_mac_keys]; no value for an unknown
   version with a non-empty list: computeMACKeySender panics).
   The evaluator has no global state: the three random draws of init come from three explicit sources (the rng
   object's two methods and the key creator); the model's single stream is the instance [model_sources] (the key
   creator's source is what the shuffle leaves, createSymmetricKey's is what the ephemeral key leaves).

   TARGETS (all proved with Qed, all closed under the global context):
   - go_checkEncryptReceivers: checkEncryptReceivers(receivers) returns nil / ErrBadReceivers / ErrRepeatedKey(kid)
       exactly as the model's check_receivers says, kid being the first key id (in list order) equal to an earlier
       one ([first_dup]; first_dup_has_dup: it exists iff the model's has_dup).  No hypothesis.
   - go_encryptBlock: es.encryptBlock(isFinal) = [es_block]: takes min(1 MiB, len) bytes off the buffer; stuck at the
       call ("extern") iff checkEncryptBlockRead panics; ErrPacketOverflow (buffer already consumed) iff numBlocks =
       2^64-1; stuck iff assertEncodedChunkState panics; else presents the packet mp_encode [final?, authenticators,
       secretbox(payloadKey, nonce(numBlocks), plaintext)] with authenticator_i = HMAC(macKey_i, payload hash) to the
       encoder, returns its error, and on nil increments numBlocks.  Result value AND final receiver object.
       No hypothesis (any version, any key lists, any numBlocks, any crypto record, any writer).
   - go_encryptStream_Write: es.Write(p) = [es_write]: a stored error is returned again with 0; else p is appended to
       the buffer and, while more than 1 MiB is buffered, encryptBlock(false) runs ([es_drain]); an error is stored
       in es.err and returned with 0; else (len p, nil).  Result values AND final receiver object.  No hypothesis;
       the evaluator's loop bound is part of the statement: [es_drain 296] says OStuck "loop fuel" when a single
       Write would flush more than 295 blocks (295 MiB), and "call" when encryptBlock has no value.
   - go_encryptStream_Close: es.Close() = [es_close], for EVERY version.  Version1(): if bytes are buffered,
       encryptBlock(false) (its error is returned); panic if bytes are still buffered; then encryptBlock(true), whose
       error is returned.  Version2(): encryptBlock(true), its error, or (panic if bytes are left | nil).  Any other
       version panics.  "call" where encryptBlock has no value.  Result value AND final receiver object.
       No hypothesis.  (Proved from go_encryptStream_Close_v1 / go_encryptStream_Close_not_v1.)
   - go_encryptStream_init: es.init(version, sender, receivers, ephemeralKeyCreator, rng) = [es_init]: ErrBadVersion,
       the receivers check, shuffle (stuck "call" for >= 2^31 receivers), ephemeral key, payload key (ErrRand when a
       source is short), sender secretbox, per-recipient payload key boxes in shuffled order, header bytes, header
       hash, Encode(header bytes) (its error), MAC keys.  Result value, final receiver object (payloadKey, headerHash,
       encoder, macKeys; the other fields untouched), and the sources left in the rng and key-creator objects.
       No hypothesis.
   - es_write_model, es_close_model, es_session_model (section Model2; hypothesis on the crypto record: a secretbox is
       16 bytes longer than its plaintext, crypto_ok.ok_sb_len): with the in-memory writer, a known version and at least
       one MAC key, [es_write] flushes exactly the blocks of the model's cw_write and leaves its buffer, [es_close]
       emits exactly the packets of cw_close, and Write* ; Close over a list of pieces leaves in the encoder the bytes
       encrypt_packets gives for cw_session — i.e. the body of the model's seal_core.  Hypotheses: each Write within
       the evaluator's loop bound (piece <= 295 MiB), fewer than 2^64-1 packets, the buffer discipline (at most one
       block buffered between calls; empty only before the first packet), which Write itself maintains.
   - es_init_model: with the in-memory writer and the sources drawn as the model draws them from ONE stream r,
       [es_init] fails iff seal_stream fails at its head, with the same error class, and otherwise seal_stream's result
       is the header packet init wrote followed by encrypt_packets (payload key, header hash, MAC keys that init left
       in `es`) over cw_session of the pieces, with the stream init's createSymmetricKey source ended at.
       Hypothesis: at most 2^31-1 receivers (beyond that csprngShuffle panics, which the model does not have).

   NOT EXPRESSIBLE: nothing.  History: with the first translation init was stuck on `make([]receiverKeys, 0, n)`
   (an EUnsup argument; now `makemap`), and the Version1() branch of Close on `return es.encryptBlock(true)` (a
   pointer-receiver method call in expression position, whose effect on the receiver eval's ECall cannot write back;
   now `r'0 := es.encryptBlock(true); return r'0`).  Keyed struct literals now list the omitted fields with their
   zero values (EncryptionHeader.SenderSecretbox, receiverKeys.ReceiverKID start as nil).

   KERNEL NOTE.  The block size makes `Z.to_nat 1048576` appear; the proofs never let the kernel normalise it: no
   `remember` of terms containing it (a let-bound variable is transparent at Qed), plaintext and rest of the buffer are
   universally quantified ([es_block_from]), closing steps are `exact eq_refl` on small goals. *)
From Coq Require Import List String NArith ZArith Bool Lia.
From Coq.Strings Require Import Byte.
From SP Require Import Bytes Consts Params Msgpack Crypto Errors Nonce Packets Chunker Rand Encrypt
                       GoLang GoLang2 GoAst RandProofs ChunkerProofs GoAstProofs GoAstProofs2 GoAstProofs3.
From SP Require Import GoAstSend.
Import ListNotations.
Local Open Scope string_scope.

(* ---------- the for loop of the extended evaluator as a function of its own ---------- *)
Definition for_loop2 (ext : externs) (f : nat) (c : gexpr) (body rest : list gstmt) : nat -> env -> ctl :=
  fix loop (n : nat) (e1 : env) {struct n} : ctl :=
    match n with
    | O => CStuck "loop fuel"
    | S n' =>
      match eval ext 64 e1 c with
      | Some (VBool true) =>
        match exec2 ext f e1 body with
        | CNorm e2 | CCont e2 => loop n' e2
        | CBrk e2 => exec2 ext f e2 rest
        | other => other
        end
      | Some (VBool false) => exec2 ext f e1 rest
      | _ => CStuck "for"
      end
    end.
Lemma exec2_for (ext : externs) (f : nat) (e : env) c body rest :
  exec2 ext (S f) e (SFor c body :: rest) = for_loop2 ext f c body rest f e.
Proof. reflexivity. Qed.
Lemma for_loop2_S ext f c body rest n e1 :
  for_loop2 ext f c body rest (S n) e1 =
  match eval ext 64 e1 c with
  | Some (VBool true) =>
    match exec2 ext f e1 body with
    | CNorm e2 | CCont e2 => for_loop2 ext f c body rest n e2
    | CBrk e2 => exec2 ext f e2 rest
    | other => other
    end
  | Some (VBool false) => exec2 ext f e1 rest
  | _ => CStuck "for"
  end.
Proof. reflexivity. Qed.
Lemma for_loop2_O ext f c body rest e1 : for_loop2 ext f c body rest O e1 = CStuck "loop fuel".
Proof. reflexivity. Qed.

(* ---------- byte-string equality ---------- *)
Lemma beqb'_eq (a b : bytes) : bytes_eqb' a b = bytes_eqb a b.
Proof. reflexivity. Qed.

(* ================= checkEncryptReceivers ================= *)
(* a recipient public key object: its key id and HideIdentity() *)
Definition g_rcpt (r : rcpt) : gval := VStruct [("kid", VBytes (fst r)); ("hide", VBool (snd r))].

Definition ext_rcpt : externs := fun fn args =>
  if String.eqb fn "BoxPublicKey.ToKID" then
    match args with [VStruct (("kid", VBytes k) :: _)] => Some [VBytes k] | _ => None end
  else None.

(* the first key id (in list order) that equals one seen before it *)
Fixpoint first_dup_from (seen l : list bytes) : option bytes :=
  match l with
  | [] => None
  | k :: t => if existsb (fun k0 => bytes_eqb k0 k) seen then Some k else first_dup_from (seen ++ [k]) t
  end.
Definition first_dup (l : list bytes) : option bytes := first_dup_from [] l.

(* the Go map receiverSet as the evaluator holds it: insertion order, every value true *)
Definition set_of (seen : list bytes) : list gval := map (fun k => VList [VBytes k; VBool true]) seen.

Lemma map_find_set_of (k : bytes) (seen : list bytes) :
  map_find (VBytes k) (set_of seen)
  = if existsb (fun k0 => bytes_eqb k0 k) seen then Some (Some (VBool true)) else Some None.
Proof.
  induction seen as [|k0 seen IH]; cbn [set_of map map_find existsb]; [reflexivity|].
  cbn [val_eqb]. change (bytes_eqb' k0 k) with (bytes_eqb k0 k). destruct (bytes_eqb k0 k); cbn [orb]; [reflexivity|]. exact IH.
Qed.

Lemma map_set_set_of (k : bytes) (seen : list bytes) :
  existsb (fun k0 => bytes_eqb k0 k) seen = false ->
  map_set (set_of seen) (VBytes k) (VBool true) = Some (set_of (seen ++ [k])).
Proof.
  induction seen as [|k0 seen IH]; cbn [set_of map map_set existsb app]; [reflexivity|].
  cbn [val_eqb]. change (bytes_eqb' k0 k) with (bytes_eqb k0 k). destruct (bytes_eqb k0 k); cbn [orb]; [discriminate|].
  intros H. fold (set_of seen). rewrite (IH H). reflexivity.
Qed.

Lemma first_dup_from_has_dup (l : list bytes) : forall seen,
  match first_dup_from seen l with Some _ => true | None => false end
  = existsb (fun k => existsb (fun k0 => bytes_eqb k0 k) seen) l || has_dup l.
Proof.
  induction l as [|k t IH]; intros seen; cbn [first_dup_from existsb has_dup]; [reflexivity|].
  destruct (existsb (fun k0 => bytes_eqb k0 k) seen) eqn:E; cbn [orb]; [reflexivity|].
  rewrite IH.
  assert (Hx : existsb (fun k1 => existsb (fun k0 => bytes_eqb k0 k1) (seen ++ [k])) t
               = existsb (fun k1 => existsb (fun k0 => bytes_eqb k0 k1) seen) t || existsb (bytes_eqb k) t).
  { clear. induction t as [|x t IHt]; cbn [existsb]; [reflexivity|].
    rewrite IHt, existsb_app. cbn [existsb]. rewrite orb_false_r.
    destruct (existsb (fun k0 => bytes_eqb k0 x) seen), (bytes_eqb k x),
             (existsb (fun k1 => existsb (fun k0 => bytes_eqb k0 k1) seen) t), (existsb (bytes_eqb k) t); reflexivity. }
  rewrite Hx.
  destruct (existsb (fun k1 => existsb (fun k0 => bytes_eqb k0 k1) seen) t), (existsb (bytes_eqb k) t), (has_dup t); reflexivity.
Qed.

Lemma first_dup_has_dup (l : list bytes) :
  has_dup l = match first_dup l with Some _ => true | None => false end.
Proof.
  unfold first_dup. rewrite first_dup_from_has_dup.
  replace (existsb (fun k => existsb (fun k0 => bytes_eqb k0 k) []) l) with false; [reflexivity|].
  induction l as [|x l IH]; cbn [existsb]; [reflexivity|exact IH].
Qed.

(* ---------- stepping tactics (copies of those of GoAstProofs3.v, which are local to its section; the
   list of constants kept folded is this file's) ---------- *)
Ltac use_head_hyp5 :=
  lazymatch goal with
  | |- ?G =>
    let L := lazymatch G with (?L = _ -> _) => L | ?L = _ => L | _ => G end in
    let h := head_scrut3 L in
    match goal with H : h = _ |- _ => rewrite H end
  end; cbv beta iota.
Ltac ev_in5 h :=
  eval cbv -[Z.eqb Z.ltb Z.leb Z.add Z.sub Z.mul Z.modulo Z.rem Z.quot Z.shiftr Z.shiftl Z.opp
             Z.land Z.lor Z.lxor Z.lnot Z.of_nat Z.of_N Z.to_nat Z.to_N List.length nth_error
             firstn skipn bytes_eqb' bytes_eqb Byte.to_N Byte.of_N N.mul N.ltb N.eqb N.add N.leb b2n n2b Nat.eqb
             Nat.leb Nat.ltb N.div N.modulo nth map app
             sha512 hmac512 sb_open sb_seal dh_shared dh_pub box_seal box_open
             block_number_ok nonce_chunk_secretbox payload_hash payload_authenticator
             mp_encode check_chunk_state version_eqb v1 v2
             map_set map_find as_bytes_list set_of range_loop2 for_loop2 exec2] in h.
Ltac ev_term5 X h :=
  lazymatch h with
  | X ?fn ?args => let h' := ev_in5 h in progress (change h with h'); cbv beta iota
  | _ =>
    let p := eval pattern X in h in
    lazymatch p with
    | ?g _ => let g' := ev_in5 g in
              let h' := eval cbv beta in (g' X) in
              progress (change h with h'); cbv beta iota
    end
  end.
Ltac norm_env5 h x f e ss k :=
  let e' := ev_in5 e in
  tryif constr_eq e e' then k e
  else (change h with (exec2 x (S f) e' ss); k e').
Ltac fix_lvars5 :=
  repeat match goal with
  | |- context [lvars ?l] => let r := eval cbv [lvars map] in (lvars l) in change (lvars l) with r
  end.
Ltac step5 X :=
  lazymatch goal with
  | |- ?G =>
    let L := lazymatch G with (?L = _ -> _) => L | ?L = _ => L | _ => G end in
    let h := head_scrut3 L in
    lazymatch h with
    | exec2 ?x (S ?f) ?e (SRange ?k ?v ?coll ?b :: ?rest) =>
      norm_env5 h x f e (SRange k v coll b :: rest) ltac:(fun e' => rewrite exec2_range)
    | exec2 ?x (S ?f) ?e (SFor ?c ?b :: ?rest) =>
      norm_env5 h x f e (SFor c b :: rest) ltac:(fun e' => rewrite exec2_for)
    | exec2 ?x (S ?f) ?e (SMapLookup ?v ?ok ?m ?k :: ?rest) =>
      norm_env5 h x f e (SMapLookup v ok m k :: rest) ltac:(fun e' => rewrite exec2_maplookup)
    | exec2 ?x (S ?f) ?e ?ss =>
      norm_env5 h x f e ss ltac:(fun e' => rewrite (exec2_S x f e' ss); cbv beta iota zeta); fix_lvars5; cbv beta iota
    | range_loop2 _ _ _ _ _ _ _ _ _ => fail
    | for_loop2 _ _ _ _ _ _ _ => fail
    | _ => ev_term5 X h
    end
  end.
Ltac map_lit5 A B f l :=
  lazymatch l with
  | nil => constr:(@nil B)
  | cons ?x ?t => let r := map_lit5 A B f t in let y := eval cbv beta in (f x) in constr:(@cons B y r)
  end.
Ltac lits5 :=
  match goal with
  | |- context [@map ?A ?B ?f ?l] => is_spine l; let r := map_lit5 A B f l in change (@map A B f l) with r
  end; cbv beta iota.
(* closed integer arithmetic; unlike lits1, never expands Z.to_nat of a big literal (the block size) *)
Ltac lits1' :=
  match goal with
  | |- context [Z.ltb ?a ?b] => is_Zlit a; is_Zlit b; let r := eval cbv in (Z.ltb a b) in change (Z.ltb a b) with r
  | |- context [Z.leb ?a ?b] => is_Zlit a; is_Zlit b; let r := eval cbv in (Z.leb a b) in change (Z.leb a b) with r
  | |- context [Z.eqb ?a ?b] => is_Zlit a; is_Zlit b; let r := eval cbv in (Z.eqb a b) in change (Z.eqb a b) with r
  | |- context [Z.add ?a ?b] => is_Zlit a; is_Zlit b; let r := eval cbv in (Z.add a b) in change (Z.add a b) with r
  | |- context [Z.sub ?a ?b] => is_Zlit a; is_Zlit b; let r := eval cbv in (Z.sub a b) in change (Z.sub a b) with r
  | |- context [Z.to_nat ?a] =>
    is_Zlit a;
    let small := eval cbv in (Z.ltb a 4096) in
    lazymatch small with true => idtac end;
    let r := eval cbv in (Z.to_nat a) in change (Z.to_nat a) with r
  end; cbv beta iota.
Ltac slice5 := progress (rewrite ?N2Z.id, ?len_ltb0, ?Z.ltb_irrefl, ?firstn_full, ?app_nil_r); cbv beta iota.
(* recorded facts about uint64 wrap-around *)
Ltac extra5 := match goal with H : (_ mod _)%Z = _ |- _ => rewrite H end; cbv beta iota.
Ltac steps5 X := repeat first [step5 X | use_head_hyp5 | lits1' | lits2 | lits3 | lits5 | slice5 | extra5].
Ltac start5 F :=
  cbv beta iota zeta delta [run_func2 f_body f_params f_results F];
  lazymatch goal with
  | |- context [bind_params ?a ?b] =>
    let r := eval cbv [bind_params] in (bind_params a b) in change (bind_params a b) with r; cbv beta iota
  end;
  change (@map (string * string) (string * gval) _ []) with (@nil (string * gval));
  change (@app (string * gval) ?l []) with l.
(* replace the stuck head of the left-hand side using an equation about it (up to conversion) *)
Ltac rewrite_head5 Heq :=
  lazymatch goal with
  | |- ?L = _ =>
    let h := head_scrut3 L in
    lazymatch type of Heq with
    | _ = ?r => replace h with r by (symmetry; exact Heq)
    end
  end; cbv beta iota.
Ltac run_hyp5 X HR := revert HR; cbv beta iota; steps5 X; intros HR.

(* ---------- the loop of checkEncryptReceivers ---------- *)
Definition cr_body : list gstmt :=
  Eval cbv in match nth 3 (f_body f_saltpack_checkEncryptReceivers) SBreak with SRange _ _ _ b => b | _ => [] end.
Definition cr_rest : list gstmt :=
  Eval cbv in skipn 4 (f_body f_saltpack_checkEncryptReceivers).

Definition envC (R C : gval) (S : list gval) (tl : env) : env :=
  ([("receivers", R); ("receiverCount", C); ("receiverSet", VList S)] ++ tl)%list.
Definition tailC (tl : env) : Prop :=
  tl = [] \/ exists a b c d e, tl = [("receiver", a); ("kid", b); ("kidString", c); ("v'", d); ("ok'", e)].

Lemma cr_loop (rest : list rcpt) :
  forall (i : Z) (seen : list bytes) (R C : gval) (tl : env), tailC tl ->
  exists e',
    range_loop2 ext_rcpt 296 "_" "receiver" cr_body cr_rest i (map g_rcpt rest) (envC R C (set_of seen) tl)
    = CRet [match first_dup_from seen (map fst rest) with
            | Some kid => VErr "ErrRepeatedKey" [VBytes kid]
            | None => VNil
            end] e'.
Proof.
  induction rest as [|[k hide] rest IH]; intros i seen R C tl Htl.
  - cbn [map first_dup_from]. eexists. rewrite range_loop2_nil. unfold cr_rest.
    steps5 ext_rcpt. reflexivity.
  - cbn [map first_dup_from fst]. rewrite range_loop2_cons. unfold cr_body, envC, g_rcpt at 1. cbn [fst snd].
    pose proof (map_find_set_of k seen) as Hmf.
    destruct (existsb (fun k0 => bytes_eqb k0 k) seen) eqn:Eex.
    + remember (set_of seen) as SL eqn:HSL. clear HSL.
      eexists.
      destruct Htl as [->|(a & b & c0 & d & e & ->)]; cbn [app]; steps5 ext_rcpt; reflexivity.
    + pose proof (map_set_set_of k seen Eex) as Hms.
      destruct (IH (i + 1)%Z (seen ++ [k])%list R C
                   [("receiver", g_rcpt (k, hide)); ("kid", VBytes k); ("kidString", VBytes k); ("v'", VInt 0); ("ok'", VBool false)])
        as (e' & Heq).
      { right. do 5 eexists. reflexivity. }
      exists e'. rewrite <- Heq. clear Heq IH.
      remember (set_of (seen ++ [k])) as SL' eqn:HSL'. clear HSL'.
      remember (set_of seen) as SL eqn:HSL. clear HSL.
      unfold envC, g_rcpt.
      destruct Htl as [->|(a & b & c0 & d & e & ->)]; cbn [app fst snd]; steps5 ext_rcpt; reflexivity.
Qed.

Lemma max_receiver_count_val : max_receiver_count = 4294967295%Z.
Proof. reflexivity. Qed.

(* (TARGET) *)
Lemma go_checkEncryptReceivers (rcpts : list rcpt) :
  fst (run_func2 ext_rcpt f_saltpack_checkEncryptReceivers [VList (map g_rcpt rcpts)])
  = match check_receivers rcpts with
    | Ok _ => ORet [VNil]
    | Err ErrRepeatedKey =>
      ORet [VErr "ErrRepeatedKey" [VBytes (match first_dup (map fst rcpts) with Some k => k | None => [] end)]]
    | Err _ => ORet [VErr "ErrBadReceivers" []]
    end.
Proof.
  unfold check_receivers. rewrite max_receiver_count_val, first_dup_has_dup.
  destruct rcpts as [|r0 rcpts0] eqn:Er.
  - start5 f_saltpack_checkEncryptReceivers. cbn [map]. steps5 ext_rcpt. reflexivity.
  - rewrite <- Er.
    assert (Hlen : List.length (map g_rcpt rcpts) = List.length rcpts) by apply map_length.
    assert (Hpos : (Z.of_nat (List.length rcpts) <=? 0)%Z = false) by (subst rcpts; cbn [List.length]; lia).
    start5 f_saltpack_checkEncryptReceivers.
    remember (map g_rcpt rcpts) as RL eqn:HRL.
    destruct (4294967295 <? Z.of_nat (List.length rcpts))%Z eqn:Ebig.
    + rewrite <- Hlen in Hpos, Ebig. steps5 ext_rcpt. reflexivity.
    + rewrite <- Hlen in Hpos, Ebig.
      destruct (cr_loop rcpts 0%Z [] (VList RL) (VInt (Z.of_nat (List.length RL))) [] (or_introl eq_refl)) as (e' & Hl).
      unfold envC in Hl. cbn [set_of map app] in Hl. rewrite <- HRL in Hl.
      unfold first_dup.
      steps5 ext_rcpt. rewrite_head5 Hl. cbn [fst].
      destruct (first_dup_from [] (map fst rcpts)); reflexivity.
Qed.

(* ================= the encryptStream object ================= *)
(* an error value of Go: nil or a named error with its arguments *)
Definition gerr := option (string * list gval).
Definition g_errv (e : gerr) : gval := match e with None => VNil | Some (n, a) => VErr n a end.
Definition as_errv (v : gval) : option gerr :=
  match v with VNil => Some None | VErr n a => Some (Some (n, a)) | _ => None end.

(* es.macKeys as computeMACKeysSender leaves it: a nil slice until the first append *)
Definition g_mks (mks : list bytes) : gval := match mks with [] => VNil | _ => VList (map VBytes mks) end.
Definition as_mks (v : gval) : option (list bytes) :=
  match v with VNil => Some [] | VList l => as_bytes_list l | _ => None end.

(* the fields of *encryptStream that encryptBlock / Write / Close read or write.  [es_enc] is the
   encoder object (the go-codec encoder over the output writer): an arbitrary value whose meaning is
   given by the section variable [enc_step] below; [es_buf] is the unread content of es.buffer;
   [es_n] is es.numBlocks (uint64) *)
Record es_state := mkEs {
  es_v : version; es_enc : gval; es_pk : bytes; es_buf : bytes; es_hh : bytes;
  es_mks : list bytes; es_n : N; es_err : gerr }.

Definition g_es (st : es_state) : gval :=
  VStruct [("version", g_version (es_v st)); ("encoder", es_enc st); ("payloadKey", VBytes (es_pk st));
           ("buffer", VBytes (es_buf st)); ("headerHash", VBytes (es_hh st)); ("macKeys", g_mks (es_mks st));
           ("numBlocks", VInt (Z.of_N (es_n st))); ("err", g_errv (es_err st))].

Definition as_es (v : gval) : option es_state :=
  match v with
  | VStruct [("version", ver); ("encoder", w); ("payloadKey", VBytes pk); ("buffer", VBytes buf);
             ("headerHash", VBytes hh); ("macKeys", mk); ("numBlocks", VInt n); ("err", ev)] =>
    match as_version ver, as_mks mk, as_errv ev with
    | Some v, Some mks, Some e => if Z.ltb n 0 then None else Some (mkEs v w pk buf hh mks (Z.to_N n) e)
    | _, _, _ => None
    end
  | _ => None
  end.

Lemma as_mks_g_mks (mks : list bytes) : as_mks (g_mks mks) = Some mks.
Proof. destruct mks as [|m mks]; [reflexivity|]. unfold g_mks, as_mks. apply as_bytes_list_map. Qed.
Lemma as_errv_g_errv (e : gerr) : as_errv (g_errv e) = Some e.
Proof. destruct e as [[n a]|]; reflexivity. Qed.
Lemma as_es_g_es (st : es_state) : as_es (g_es st) = Some st.
Proof.
  destruct st as [[ma mi] w pk buf hh mks n e]. unfold g_es, as_es. cbn [es_v es_enc es_pk es_buf es_hh es_mks es_n es_err].
  change (as_version (g_version (mkV ma mi))) with (Some (mkV ma mi)).
  rewrite as_mks_g_mks, as_errv_g_errv.
  replace (Z.of_N n <? 0)%Z with false by lia. rewrite N2Z.id. reflexivity.
Qed.

Definition set_buf (st : es_state) (b : bytes) : es_state :=
  mkEs (es_v st) (es_enc st) (es_pk st) b (es_hh st) (es_mks st) (es_n st) (es_err st).
Definition set_enc (st : es_state) (w : gval) : es_state :=
  mkEs (es_v st) w (es_pk st) (es_buf st) (es_hh st) (es_mks st) (es_n st) (es_err st).
Definition set_n (st : es_state) (n : N) : es_state :=
  mkEs (es_v st) (es_enc st) (es_pk st) (es_buf st) (es_hh st) (es_mks st) n (es_err st).
Definition set_err (st : es_state) (e : gerr) : es_state :=
  mkEs (es_v st) (es_enc st) (es_pk st) (es_buf st) (es_hh st) (es_mks st) (es_n st) e.

(* encryptionBlockSize as the number the code passes to buffer.Next *)
Definition blk : nat := Z.to_nat 1048576.
Lemma blk_enc_block_size : blk = enc_block_size.
Proof. unfold blk, enc_block_size, c_saltpack_encryptionBlockSize. reflexivity. Qed.

(* checkEncryptBlockRead(version, isFinal, blockSize, plaintextLen, bufLen) does not panic *)
Definition read_ok (v : version) (final : bool) (bs pl bl : Z) : bool :=
  negb (bs <? pl)%Z && negb ((pl <? bs)%Z && (0 <? bl)%Z) &&
  (if version_eqb v v1 then Bool.eqb final (pl =? 0)%Z
   else if version_eqb v v2 then negb (final && negb (bl =? 0)%Z)
   else false).

(* assertEncodedChunkState(version, ciphertext, secretbox.Overhead, blockIndex, isFinal) does not panic *)
Definition enc_chunk_ok (v : version) (ct : bytes) (ov : Z) (n : N) (final : bool) : bool :=
  negb (Z.of_nat (List.length ct) <? ov)%Z &&
  match check_chunk_state v (Z.to_nat (Z.of_nat (List.length ct) - ov)) n final with Ok _ => true | Err _ => false end.

(* the value go-codec encodes for a []payloadAuthenticator: nil for the nil slice *)
Definition mv_auths (auths : list bytes) : mval :=
  match auths with [] => MNil | _ => MArr (map MBin auths) end.
(* makeEncryptionBlock's value on the wire: encryptionBlockV1 / encryptionBlockV2 (toarray) *)
Definition mv_enc_block_go (is_v1 : bool) (auths : list bytes) (ct : bytes) (final : bool) : mval :=
  if is_v1 then MArr [mv_auths auths; MBin ct] else MArr [MBool final; mv_auths auths; MBin ct].

Lemma mv_enc_block_go_model (v : version) (auths : list bytes) (ct : bytes) (final : bool) :
  (version_eqb v v1 = true \/ version_eqb v v2 = true) -> auths <> [] ->
  mv_enc_block_go (version_eqb v v1) auths ct final = mv_enc_block v auths ct final.
Proof.
  intros Hv Ha. unfold mv_enc_block_go, mv_enc_block, mv_auths.
  destruct auths as [|a auths]; [congruence|].
  destruct v as [ma mi]. unfold version_eqb in *. cbn [vmaj vmin] in *.
  change (vmaj v1) with 1%Z in *. change (vmin v1) with 0%Z in *.
  change (vmaj v2) with 2%Z in *. change (vmin v2) with 0%Z in *.
  destruct (ma =? 1)%Z eqn:E1; cbn [andb] in *.
  - destruct (mi =? 0)%Z; cbn in *; [reflexivity|]. destruct Hv as [Hv|Hv]; [discriminate|].
    apply andb_prop in Hv. destruct Hv as [Hv _]. lia.
  - reflexivity.
Qed.

(* the value handed to encoder.Encode, as a MessagePack value *)
Definition as_auths (v : gval) : option mval :=
  match v with
  | VNil => Some MNil
  | VList l => match as_bytes_list l with Some bs => Some (MArr (map MBin bs)) | None => None end
  | _ => None
  end.
Definition as_packet (v : gval) : option mval :=
  match v with
  | VBytes b => Some (MBin b)                        (* the header bytes, encoded a second time *)
  | VStruct [("HashAuthenticators", a); ("PayloadCiphertext", VBytes ct)] =>
    match as_auths a with Some ma => Some (MArr [ma; MBin ct]) | None => None end
  | VStruct [("IsFinal", VBool f); ("HashAuthenticators", a); ("PayloadCiphertext", VBytes ct)] =>
    match as_auths a with Some ma => Some (MArr [MBool f; ma; MBin ct]) | None => None end
  | _ => None
  end.

Inductive bres := BStuck (w : string) | BRet (e : gerr) (st : es_state).
Inductive wres := WStuck (w : string) | WRet (n : Z) (e : gerr) (st : es_state).
Inductive cres := CloseStuck (w : string) | ClosePanic | CloseRet (e : gerr) (st : es_state).


(* ================= init ================= *)
(* key objects: a box secret key is its secret bytes; a box public key is [g_rcpt] *)
Definition g_sk (sk : bytes) : gval := VStruct [("sk", VBytes sk)].
Definition g_sender (s : option bytes) : gval := match s with Some sk => g_sk sk | None => VNil end.
(* the encryptRNG object: one explicit source per method; the key creator object: its own source *)
Definition g_rng (ra rc : rng) : gval := VStruct [("shuffle", VBytes ra); ("key", VBytes rc)].

Fixpoint as_rcpts (l : list gval) : option (list rcpt) :=
  match l with
  | [] => Some []
  | VStruct [("kid", VBytes k); ("hide", VBool h)] :: t =>
    match as_rcpts t with Some r => Some ((k, h) :: r) | None => None end
  | _ => None
  end.
Lemma as_rcpts_map (l : list rcpt) : as_rcpts (map g_rcpt l) = Some l.
Proof. induction l as [|[k h] l IH]; cbn [map as_rcpts g_rcpt fst snd]; [reflexivity|]. rewrite IH. reflexivity. Qed.

(* a receiverKeys value of the header under construction *)
Definition g_entry (e : option bytes * bytes) : gval :=
  VStruct [("PayloadKeyBox", VBytes (snd e));
           ("ReceiverKID", match fst e with Some kid => VBytes kid | None => VNil end)].
Fixpoint as_entries (l : list gval) : option (list (option bytes * bytes)) :=
  match l with
  | [] => Some []
  | VStruct [("PayloadKeyBox", VBytes b); ("ReceiverKID", k)] :: t =>
    match (match k with VNil => Some None | VBytes kid => Some (Some kid) | _ => None end), as_entries t with
    | Some ko, Some r => Some ((ko, b) :: r)
    | _, _ => None
    end
  | _ => None
  end.
Lemma as_entries_map (l : list (option bytes * bytes)) : as_entries (map g_entry l) = Some l.
Proof.
  induction l as [|[[k|] b] l IH]; cbn [map as_entries g_entry fst snd]; [reflexivity| |]; rewrite IH; reflexivity.
Qed.

(* the EncryptionHeader value handed to encodeToBytes, as a MessagePack value *)
Definition as_eh (v : gval) : option mval :=
  match v with
  | VStruct fs =>
    match lookup "FormatName" fs, lookup "Version" fs, lookup "Type" fs, lookup "Ephemeral" fs,
          lookup "SenderSecretbox" fs, lookup "Receivers" fs with
    | Some (VBytes fmt), Some ver, Some (VInt t), Some (VBytes eph), Some (VBytes sbox), Some (VList rl) =>
      match as_version ver, as_entries rl with
      | Some v, Some es => Some (MArr [MStr fmt; mv_version v; MInt t; MBin eph; MBin sbox; MArr (map mv_receiver es)])
      | _, _ => None
      end
    | _, _, _, _, _, _ => None
    end
  | _ => None
  end.

Inductive ires :=
| IStuck (w : string)
| IRet (e : gerr) (st : es_state) (ra rb rc : rng).

Section Sender.
Variable c : crypto.
(* encoder.Encode(x): what encoding the packet bytes of x does to the encoder object (the bytes reach
   the underlying writer, which may fail) and the error it returns.  The in-memory writer of seal()
   (a bytes.Buffer) is the instance [mem_enc] at the end of the file. *)
Variable enc_step : gval -> bytes -> gval * gerr.

Definition ext_block : externs := fun fn args =>
  if String.eqb fn "Buffer.Next" then
    match args with
    | [cur; VInt n] =>
      match vbytes_of cur with
      | Some b => if Z.ltb n 0 then None else Some [VBytes (firstn (Z.to_nat n) b); VBytes (skipn (Z.to_nat n) b)]
      | None => None
      end
    | _ => None
    end
  else if String.eqb fn "Buffer.Len" then
    match args with
    | [cur] => match vbytes_of cur with Some b => Some [VInt (Z.of_nat (List.length b))] | None => None end
    | _ => None
    end
  else if String.eqb fn "checkEncryptBlockRead" then
    match args with
    | [ver; VBool f; VInt bs; VInt pl; VInt bl] =>
      match as_version ver with
      | Some v => if read_ok v f bs pl bl then Some [] else None      (* no value: the callee panics *)
      | None => None
      end
    | _ => None
    end
  else if String.eqb fn "secretbox.Seal" then
    match args with
    | [out; VBytes pt; VBytes nonce; VBytes key] =>
      match vbytes_of out with
      | Some o => Some [VBytes (o ++ sb_seal c key nonce pt)%list]
      | None => None
      end
    | _ => None
    end
  else if String.eqb fn "assertEncodedChunkState" then
    match args with
    | [ver; VBytes ct; VInt ov; VInt idx; VBool f] =>
      match as_version ver with
      | Some v => if enc_chunk_ok v ct ov (Z.to_N idx) f then Some [] else None
      | None => None
      end
    | _ => None
    end
  else if String.eqb fn "makeEncryptionBlock" then
    match args with
    | [ver; VBytes ct; auths; VBool f] =>
      match as_version ver with
      | Some v =>
        if version_eqb v v1 then Some [VStruct [("HashAuthenticators", auths); ("PayloadCiphertext", VBytes ct)]]
        else if version_eqb v v2 then
          Some [VStruct [("IsFinal", VBool f); ("HashAuthenticators", auths); ("PayloadCiphertext", VBytes ct)]]
        else None
      | None => None
      end
    | _ => None
    end
  else if String.eqb fn "encoder.Encode" then
    match args with
    | [w; x] =>
      match as_packet x with
      | Some m => let r := enc_step w (mp_encode m) in Some [g_errv (snd r); fst r]
      | None => None
      end
    | _ => None
    end
  else ext_model c fn args.

(* ---------- encryptBlock: the specification ---------- *)
(* everything after `plaintext := es.buffer.Next(encryptionBlockSize)`: [pt] is the plaintext taken,
   [rest] what stays in the buffer *)
Definition es_block_from (st : es_state) (final : bool) (pt rest : bytes) : bres :=
  let st1 := set_buf st rest in
  if negb (read_ok (es_v st) final 1048576 (Z.of_nat (List.length pt)) (Z.of_nat (List.length rest))) then BStuck "extern"
  else if negb (block_number_ok (es_n st)) then BRet (Some ("ErrPacketOverflow", [])) st1
  else
    let nonce := nonce_chunk_secretbox (es_n st) in
    let ct := sb_seal c (es_pk st) nonce pt in
    if negb (enc_chunk_ok (es_v st) ct 16 (es_n st) final) then BStuck "extern"
    else
      match payload_hash c (es_v st) (es_hh st) nonce ct final with
      | None => BStuck "call"
      | Some ph =>
        let auths := map (fun mk => payload_authenticator c mk ph) (es_mks st) in
        let r := enc_step (es_enc st) (mp_encode (mv_enc_block_go (version_eqb (es_v st) v1) auths ct final)) in
        match snd r with
        | Some e => BRet (Some e) (set_enc st1 (fst r))
        | None => BRet None (set_n (set_enc st1 (fst r)) (es_n st + 1))
        end
      end.
Definition es_block (st : es_state) (final : bool) : bres :=
  es_block_from st final (firstn blk (es_buf st)) (skipn blk (es_buf st)).

Ltac ev_in5 h ::=
  eval cbv -[Z.eqb Z.ltb Z.leb Z.add Z.sub Z.mul Z.modulo Z.rem Z.quot Z.shiftr Z.shiftl Z.opp
             Z.land Z.lor Z.lxor Z.lnot Z.of_nat Z.of_N Z.to_nat Z.to_N List.length nth_error
             firstn skipn bytes_eqb' bytes_eqb Byte.to_N Byte.of_N N.mul N.ltb N.eqb N.add N.leb b2n n2b Nat.eqb
             Nat.leb Nat.ltb N.div N.modulo nth map app
             sha512 hmac512 sb_open sb_seal dh_shared dh_pub box_seal box_open
             block_number_ok nonce_chunk_secretbox payload_hash payload_authenticator
             mp_encode check_chunk_state version_eqb v1 v2 blk read_ok enc_chunk_ok es_block es_block_from g_mks
             map_set map_find as_bytes_list set_of range_loop2 for_loop2 exec2] in h.


(* ---------- the loop over es.macKeys ---------- *)
Definition eb_body : list gstmt :=
  Eval cbv in match nth 8 (f_body f_saltpack_encryptStream_encryptBlock) SBreak with SRange _ _ _ b => b | _ => [] end.
Definition eb_rest : list gstmt :=
  Eval cbv in skipn 9 (f_body f_saltpack_encryptStream_encryptBlock).
Definition eb_after_next : list gstmt :=
  Eval cbv in skipn 1 (f_body f_saltpack_encryptStream_encryptBlock).

Definition envB (ES F P NO CT PH A : gval) (tl : env) : env :=
  ([("es", ES); ("isFinal", F); ("plaintext", P); ("err", VNil); ("nonce", NO); ("ciphertext", CT);
    ("hashToAuthenticate", PH); ("authenticators", A)] ++ tl)%list.
Definition tailB (tl : env) : Prop := tl = [] \/ exists a b, tl = [("macKey", a); ("authenticator", b)].

(* the loop variables after the loop: those of the last iteration *)
Definition tlB_after (tl : env) (rest : list bytes) (ph : bytes) : env :=
  match rest with
  | [] => tl
  | _ => [("macKey", VBytes (last rest [])); ("authenticator", VBytes (payload_authenticator c (last rest []) ph))]
  end.

Lemma eb_loop (ph : bytes) (rest : list bytes) :
  forall (i : Z) (acc : list bytes) (ES F P NO CT : gval) (tl : env), tailB tl ->
    range_loop2 ext_block 291 "_" "macKey" eb_body eb_rest i (map VBytes rest)
                (envB ES F P NO CT (VBytes ph) (g_mks acc) tl)
    = exec2 ext_block 291
            (envB ES F P NO CT (VBytes ph) (g_mks (acc ++ map (fun mk => payload_authenticator c mk ph) rest))
                  (tlB_after tl rest ph)) eb_rest.
Proof.
  induction rest as [|k rest IH]; intros i acc ES F P NO CT tl Htl.
  - cbn [map tlB_after]. rewrite app_nil_r. apply range_loop2_nil.
  - cbn [map].
    assert (Htl' : tailB [("macKey", VBytes k); ("authenticator", VBytes (payload_authenticator c k ph))])
      by (right; eexists; eexists; reflexivity).
    pose proof (IH (i + 1)%Z (acc ++ [payload_authenticator c k ph])%list ES F P NO CT _ Htl') as Heq.
    rewrite <- app_assoc in Heq. cbn [app] in Heq.
    assert (Hlast : tlB_after tl (k :: rest) ph
                    = tlB_after [("macKey", VBytes k); ("authenticator", VBytes (payload_authenticator c k ph))] rest ph).
    { destruct rest as [|k' rest']; reflexivity. }
    rewrite Hlast, <- Heq. clear Heq IH Hlast.
    rewrite range_loop2_cons. unfold eb_body, envB.
    assert (Hg : g_mks (acc ++ [payload_authenticator c k ph])
                 = match acc with
                   | [] => VList [VBytes (payload_authenticator c k ph)]
                   | _ => VList (map VBytes acc ++ [VBytes (payload_authenticator c k ph)])
                   end).
    { destruct acc; cbn [app g_mks map]; [reflexivity|]. rewrite map_app. reflexivity. }
    rewrite Hg. clear Hg.
    destruct acc as [|x acc0].
    + cbn [g_mks]. destruct Htl as [->|(a0 & b0 & ->)]; cbn [app]; steps5 ext_block; reflexivity.
    + unfold g_mks. generalize (map VBytes (x :: acc0)). intros AL.
      destruct Htl as [->|(a0 & b0 & ->)]; cbn [app]; steps5 ext_block; reflexivity.
Time Qed.

(* the environment after `plaintext := es.buffer.Next(..)` *)
Definition env_next (st : es_state) (final : bool) (pt rest : bytes) : env :=
  [("es", g_es (set_buf st rest)); ("isFinal", VBool final); ("plaintext", VBytes pt)].


(* run the loop over the MAC keys with eb_loop *)
Ltac mac_loop ph m ms :=
  lazymatch goal with
  | |- range_loop2 _ _ _ _ _ _ _ _ ?e = _ =>
    lazymatch e with
    | [("es", ?ES); ("isFinal", ?F); ("plaintext", ?P); _; ("nonce", ?NO); ("ciphertext", ?CT); _; _] =>
      let Heq := fresh "Heq" in
      pose proof (eb_loop ph (m :: ms) 0%Z [] ES F P NO CT [] (or_introl eq_refl)) as Heq;
      rewrite_head5 Heq; clear Heq;
      unfold envB, eb_rest, tlB_after; unfold bytes;
      match goal with H : g_mks ([] ++ _) = _ |- _ => rewrite H end;
      cbn [app]
    end
  end.

Lemma eb_tail_exec (st : es_state) (final : bool) (pt rest : bytes) :
  match es_block_from st final pt rest with
  | BStuck w => exec2 ext_block 299 (env_next st final pt rest) eb_after_next = CStuck w
  | BRet e st' => exists env', exec2 ext_block 299 (env_next st final pt rest) eb_after_next = CRet [g_errv e] env' /\
                               lookup "es" env' = Some (g_es st')
  end.
Proof.
  destruct st as [[ma mi] w pk buf hh mks n err].
  unfold es_block_from, env_next, eb_after_next, g_es.
  cbn [es_v es_enc es_pk es_buf es_hh es_mks es_n es_err set_buf set_enc set_n].
  destruct (read_ok (mkV ma mi) final 1048576 (Z.of_nat (List.length pt)) (Z.of_nat (List.length rest))) eqn:Hr; cbn [negb].
  2:{ steps5 ext_block. reflexivity. }
  destruct (block_number_ok n) eqn:Hb; cbn [negb].
  2:{ eexists. split; [steps5 ext_block; reflexivity|exact eq_refl]. }
  assert (Hn : (n < 18446744073709551615)%N) by (unfold block_number_ok in Hb; apply N.ltb_lt in Hb; exact Hb).
  assert (Hmod : (Z.of_N n mod 18446744073709551616)%Z = Z.of_N n) by (apply Z.mod_small; lia).
  assert (Hinc : ((Z.of_N n + 1) mod 18446744073709551616)%Z = Z.of_N (n + 1)) by (rewrite Z.mod_small by lia; lia).
  destruct (enc_chunk_ok (mkV ma mi) (sb_seal c pk (nonce_chunk_secretbox n) pt) 16 n final) eqn:Hc; cbn [negb].
  2:{ steps5 ext_block. reflexivity. }
  destruct (payload_hash c (mkV ma mi) hh (nonce_chunk_secretbox n) (sb_seal c pk (nonce_chunk_secretbox n) pt) final) as [ph|] eqn:Hph.
  2:{ steps5 ext_block. reflexivity. }
  assert (Hv : version_eqb (mkV ma mi) v1 = true \/ (version_eqb (mkV ma mi) v1 = false /\ version_eqb (mkV ma mi) v2 = true)).
  { destruct (version_eqb (mkV ma mi) v1) eqn:E1; [left; reflexivity|right; split; [reflexivity|]].
    destruct (version_eqb (mkV ma mi) v2) eqn:E2; [reflexivity|]. exfalso.
    unfold read_ok in Hr. rewrite E1, E2, andb_false_r in Hr. discriminate Hr. }
  destruct mks as [|m ms].
  - (* no MAC keys: the authenticators stay nil *)
    cbn [map g_mks].
    destruct Hv as [E1|[E1 E2]]; rewrite E1; cbn [mv_enc_block_go mv_auths]; unfold bytes in *.
    + lazymatch goal with |- context [enc_step w ?p] => destruct (enc_step w p) as [w' [[en ea]|]] eqn:Eenc end; cbn [fst snd].
      * eexists. split; [steps5 ext_block; reflexivity|exact eq_refl].
      * eexists. split; [steps5 ext_block; reflexivity|exact eq_refl].
    + lazymatch goal with |- context [enc_step w ?p] => destruct (enc_step w p) as [w' [[en ea]|]] eqn:Eenc end; cbn [fst snd].
      * eexists. split; [steps5 ext_block; reflexivity|exact eq_refl].
      * eexists. split; [steps5 ext_block; reflexivity|exact eq_refl].
  - (* at least one MAC key *)
    pose proof (as_bytes_list_map (map (fun mk => payload_authenticator c mk ph) (m :: ms))) as Habl.
    assert (Hma : mv_auths (map (fun mk => payload_authenticator c mk ph) (m :: ms))
                  = MArr (map MBin (map (fun mk => payload_authenticator c mk ph) (m :: ms)))) by reflexivity.
    assert (Hgm : g_mks ([] ++ map (fun mk => payload_authenticator c mk ph) (m :: ms))
                  = VList (map VBytes (map (fun mk => payload_authenticator c mk ph) (m :: ms)))) by reflexivity.
    assert (Hgk : g_mks (m :: ms) = VList (map VBytes (m :: ms))) by reflexivity.
    destruct Hv as [E1|[E1 E2]]; rewrite E1; cbn [mv_enc_block_go]; rewrite Hma; clear Hma; unfold bytes in *.
    + lazymatch goal with |- context [enc_step w ?p] => destruct (enc_step w p) as [w' [[en ea]|]] eqn:Eenc end; cbn [fst snd];
        (eexists; split; [steps5 ext_block; mac_loop ph m ms; steps5 ext_block; reflexivity|exact eq_refl]).
    + lazymatch goal with |- context [enc_step w ?p] => destruct (enc_step w p) as [w' [[en ea]|]] eqn:Eenc end; cbn [fst snd];
        (eexists; split; [steps5 ext_block; mac_loop ph m ms; steps5 ext_block; reflexivity|exact eq_refl]).
Time Qed.

Ltac steps5_to n X :=
  repeat (lazymatch goal with |- exec2 _ n _ _ = _ => fail | _ => idtac end;
          first [step5 X | use_head_hyp5 | lits1' | lits2 | lits3 | lits5 | slice5 | extra5]).

(* (TARGET) *)
Lemma go_encryptBlock (st : es_state) (final : bool) :
  let r := run_func2 ext_block f_saltpack_encryptStream_encryptBlock [g_es st; VBool final] in
  match es_block st final with
  | BStuck w => fst r = OStuck w
  | BRet e st' => fst r = ORet [g_errv e] /\ lookup "es" (snd r) = Some (g_es st')
  end.
Proof.
  cbv zeta. unfold es_block.
  pose proof (eb_tail_exec st final (firstn blk (es_buf st)) (skipn blk (es_buf st))) as Ht.
  assert (Hrun : exec2 ext_block 300 [("es", g_es st); ("isFinal", VBool final)]
                       (f_body f_saltpack_encryptStream_encryptBlock)
                 = exec2 ext_block 299 (env_next st final (firstn blk (es_buf st)) (skipn blk (es_buf st))) eb_after_next).
  { clear Ht. destruct st as [[ma mi] w pk buf hh mks n err].
    unfold env_next, eb_after_next, g_es, blk.
    cbn [es_v es_enc es_pk es_buf es_hh es_mks es_n es_err set_buf].
    cbv beta iota zeta delta [f_body f_saltpack_encryptStream_encryptBlock].
    steps5_to 299%nat ext_block. reflexivity. }
  unfold run_func2. cbn [f_params f_results f_saltpack_encryptStream_encryptBlock bind_params map app].
  rewrite Hrun. clear Hrun.
  destruct (es_block_from st final (firstn blk (es_buf st)) (skipn blk (es_buf st))) as [w|e st'].
  - rewrite Ht. reflexivity.
  - destruct Ht as (env' & Hrun & Hes). rewrite Hrun. cbn [fst snd]. split; [reflexivity|exact Hes].
Time Qed.


(* ================= Write and Close ================= *)
(* es.encryptBlock(isFinal) with the meaning just proved (go_encryptBlock): its error, then the receiver
   object it leaves; no value where encryptBlock panics or is stuck.  Version1() / Version2(). *)
Definition ext_stream : externs := fun fn args =>
  if String.eqb fn "encryptStream.encryptBlock" then
    match args with
    | [es; VBool f] =>
      match as_es es with
      | Some st => match es_block st f with BStuck _ => None | BRet e st' => Some [g_errv e; g_es st'] end
      | None => None
      end
    | _ => None
    end
  else if String.eqb fn "Version1" then Some [g_version v1]
  else if String.eqb fn "Version2" then Some [g_version v2]
  else ext_block fn args.

(* the loop `for es.buffer.Len() > encryptionBlockSize { es.err = es.encryptBlock(false); ... }`;
   [fuel] is the evaluator's bound on the number of iterations *)
Fixpoint es_drain (fuel : nat) (st : es_state) (ret : Z) : wres :=
  match fuel with
  | O => WStuck "loop fuel"
  | S f =>
    if (1048576 <? Z.of_nat (List.length (es_buf st)))%Z then
      match es_block st false with
      | BStuck _ => WStuck "call"
      | BRet None st' => es_drain f (set_err st' None) ret
      | BRet (Some e) st' => WRet 0 (Some e) (set_err st' (Some e))
      end
    else WRet ret None st
  end.

(* Write(plaintext) *)
Definition es_write (st : es_state) (p : bytes) : wres :=
  match es_err st with
  | Some e => WRet 0 (Some e) st
  | None => es_drain 296 (set_buf st (es_buf st ++ p)%list) (Z.of_nat (List.length p))
  end.

(* Close(), for a version other than Version1() (see the header for Version1) *)
Definition es_close_v2 (st : es_state) : cres :=
  if version_eqb (es_v st) v2 then
    match es_block st true with
    | BStuck _ => CloseStuck "call"
    | BRet (Some e) st' => CloseRet (Some e) st'
    | BRet None st' => if (0 <? Z.of_nat (List.length (es_buf st')))%Z then ClosePanic else CloseRet None st'
    end
  else ClosePanic.

(* Close(), Version1(): from the second check of the buffer on *)
Definition es_close_v1_tail (st1 : es_state) : cres :=
  if (0 <? Z.of_nat (List.length (es_buf st1)))%Z then ClosePanic
  else match es_block st1 true with
       | BStuck _ => CloseStuck "call"
       | BRet e st2 => CloseRet e st2
       end.

(* Close() *)
Definition es_close (st : es_state) : cres :=
  if version_eqb (es_v st) v1 then
    match (if (0 <? Z.of_nat (List.length (es_buf st)))%Z then es_block st false else BRet None st) with
    | BStuck _ => CloseStuck "call"
    | BRet (Some e) st1 => CloseRet (Some e) st1
    | BRet None st1 => es_close_v1_tail st1
    end
  else es_close_v2 st.

Ltac ev_in5 h ::=
  eval cbv -[Z.eqb Z.ltb Z.leb Z.add Z.sub Z.mul Z.modulo Z.rem Z.quot Z.shiftr Z.shiftl Z.opp
             Z.land Z.lor Z.lxor Z.lnot Z.of_nat Z.of_N Z.to_nat Z.to_N List.length nth_error
             firstn skipn bytes_eqb' bytes_eqb Byte.to_N Byte.of_N N.mul N.ltb N.eqb N.add N.leb b2n n2b Nat.eqb
             Nat.leb Nat.ltb N.div N.modulo nth map app
             sha512 hmac512 sb_open sb_seal dh_shared dh_pub box_seal box_open
             block_number_ok nonce_chunk_secretbox payload_hash payload_authenticator
             mp_encode check_chunk_state version_eqb v1 v2 blk read_ok enc_chunk_ok es_block es_block_from g_mks
             as_mks as_errv es_drain
             map_set map_find as_bytes_list set_of range_loop2 for_loop2 exec2] in h.

Definition wr_cond : gexpr :=
  Eval cbv in match nth 3 (f_body f_saltpack_encryptStream_Write) SBreak with SFor cnd _ => cnd | _ => ENil end.
Definition wr_body : list gstmt :=
  Eval cbv in match nth 3 (f_body f_saltpack_encryptStream_Write) SBreak with SFor _ b => b | _ => [] end.
Definition wr_rest : list gstmt :=
  Eval cbv in skipn 4 (f_body f_saltpack_encryptStream_Write).

Definition envW (st : es_state) (P : gval) (ret : Z) : env :=
  [("es", g_es st); ("plaintext", P); ("ret", VInt ret)].

(* the facts the extern needs to read the receiver object back *)
Lemma as_errv_unf (e : gerr) : as_errv (match e with Some (n, a) => VErr n a | None => VNil end) = Some e.
Proof. destruct e as [[n a]|]; reflexivity. Qed.

Lemma wr_loop (P : gval) (ret : Z) (n : nat) : forall st : es_state,
  for_loop2 ext_stream 296 wr_cond wr_body wr_rest n (envW st P ret)
  = match es_drain n st ret with
    | WStuck w => CStuck w
    | WRet r e st' => CRet [VInt r; g_errv e] (envW st' P ret)
    end.
Proof.
  induction n as [|n IH]; intros st; [reflexivity|].
  rewrite for_loop2_S. cbn [es_drain].
  destruct st as [[ma mi] w pk buf hh mks nb err].
  cbn [es_buf].
  pose proof (as_mks_g_mks mks) as Hmks.
  pose proof (as_errv_unf err) as Herr.
  assert (Hnb : (Z.of_N nb <? 0)%Z = false) by lia.
  unfold wr_cond, envW, g_es. cbn [es_v es_enc es_pk es_buf es_hh es_mks es_n es_err].
  destruct (1048576 <? Z.of_nat (List.length buf))%Z eqn:Hlen.
  - destruct (es_block (mkEs (mkV ma mi) w pk buf hh mks nb err) false) as [sw|e st'] eqn:Hblk.
    + unfold wr_body. steps5 ext_stream. reflexivity.
    + destruct e as [[en ea]|].
      * unfold wr_body, wr_rest. steps5 ext_stream. reflexivity.
      * cbv beta iota.
        transitivity (for_loop2 ext_stream 296 wr_cond wr_body wr_rest n (envW (set_err st' None) P ret)); [|apply IH].
        unfold wr_body. steps5 ext_stream. reflexivity.
  - unfold wr_rest. steps5 ext_stream. reflexivity.
Time Qed.

(* (TARGET) *)
Lemma go_encryptStream_Write (st : es_state) (p : bytes) :
  let r := run_func2 ext_stream f_saltpack_encryptStream_Write [g_es st; VBytes p] in
  match es_write st p with
  | WStuck w => fst r = OStuck w
  | WRet n e st' => fst r = ORet [VInt n; g_errv e] /\ lookup "es" (snd r) = Some (g_es st')
  end.
Proof.
  cbv zeta. unfold es_write.
  unfold run_func2. cbn [f_params f_results f_saltpack_encryptStream_Write bind_params map app].
  destruct st as [[ma mi] w pk buf hh mks nb err]. cbn [es_err es_buf set_buf es_v es_enc es_pk es_hh es_mks es_n].
  destruct err as [[en ea]|].
  - (* a previous error is returned again *)
    assert (Hrun : exists env', exec2 ext_stream 300
                     [("es", g_es (mkEs (mkV ma mi) w pk buf hh mks nb (Some (en, ea)))); ("plaintext", VBytes p)]
                     (f_body f_saltpack_encryptStream_Write) = CRet [VInt 0; VErr en ea] env' /\
                   lookup "es" env' = Some (g_es (mkEs (mkV ma mi) w pk buf hh mks nb (Some (en, ea))))).
    { eexists. split.
      - cbv beta iota zeta delta [f_body f_saltpack_encryptStream_Write]. unfold g_es.
        cbn [es_v es_enc es_pk es_buf es_hh es_mks es_n es_err].
        steps5 ext_stream. reflexivity.
      - exact eq_refl. }
    destruct Hrun as (env' & Hrun & Hes). rewrite Hrun. cbn [fst snd]. split; [reflexivity|exact Hes].
  - (* buffer the plaintext, then flush the full blocks *)
    unfold set_buf. cbn [es_v es_enc es_pk es_buf es_hh es_mks es_n es_err].
    assert (Hrun : exec2 ext_stream 300
                     [("es", g_es (mkEs (mkV ma mi) w pk buf hh mks nb None)); ("plaintext", VBytes p)]
                     (f_body f_saltpack_encryptStream_Write)
                   = for_loop2 ext_stream 296 wr_cond wr_body wr_rest 296
                               (envW (mkEs (mkV ma mi) w pk (buf ++ p)%list hh mks nb None) (VBytes p) (Z.of_nat (List.length p)))).
    { cbv beta iota zeta delta [f_body f_saltpack_encryptStream_Write]. unfold g_es, envW.
      cbn [es_v es_enc es_pk es_buf es_hh es_mks es_n es_err].
      steps5 ext_stream. reflexivity. }
    pose proof (eq_trans Hrun (wr_loop _ _ _ _)) as Hrun'. clear Hrun. rename Hrun' into Hrun. revert Hrun.
    destruct (es_drain 296 (mkEs (mkV ma mi) w pk (buf ++ p)%list hh mks nb None) (Z.of_nat (List.length p))) as [sw|r e st']; intros Hrun.
    + rewrite Hrun. reflexivity.
    + rewrite Hrun. cbn [fst snd]. split; [reflexivity|exact eq_refl].
Time Qed.

(* a run that ends in `return vals` with the receiver object [st'] *)
Ltac close_ret vals st' :=
  lazymatch goal with
  | |- context [exec2 ?X 300 ?e ?b] =>
    let Hrun := fresh "Hrun" in
    assert (Hrun : exists env', exec2 X 300 e b = CRet vals env' /\ lookup "es" env' = Some (g_es st'));
    [ eexists; split;
      [ cbv beta iota zeta delta [f_body f_saltpack_encryptStream_Close];
        unfold vmaj, vmin in *; steps5 X; reflexivity
      | exact eq_refl ]
    | let env' := fresh "env'" in let Hes := fresh "Hes" in
      destruct Hrun as (env' & Hrun & Hes); rewrite Hrun; cbn [fst snd]; split; [reflexivity|exact Hes] ]
  end.

(* every version other than Version1() *)
Lemma go_encryptStream_Close_not_v1 (st : es_state) :
  version_eqb (es_v st) v1 = false ->
  let r := run_func2 ext_stream f_saltpack_encryptStream_Close [g_es st] in
  match es_close_v2 st with
  | CloseStuck w => fst r = OStuck w
  | ClosePanic => fst r = OPanic
  | CloseRet e st' => fst r = ORet [g_errv e] /\ lookup "es" (snd r) = Some (g_es st')
  end.
Proof.
  intros Hv1. cbv zeta. unfold es_close_v2.
  unfold run_func2. cbn [f_params f_results f_saltpack_encryptStream_Close bind_params map app].
  destruct st as [[ma mi] w pk buf hh mks nb err]. cbn [es_v es_buf] in *.
  pose proof (as_mks_g_mks mks) as Hmks.
  pose proof (as_errv_unf err) as Herr.
  assert (Hnb : (Z.of_N nb <? 0)%Z = false) by lia.
  assert (E1 : version_eqb (mkV ma mi) v1 = ((ma =? vmaj v1) && (mi =? vmin v1))%Z%bool) by reflexivity.
  assert (E2 : version_eqb (mkV ma mi) v2 = ((ma =? vmaj v2) && (mi =? vmin v2))%Z%bool) by reflexivity.
  rewrite E1 in Hv1. rewrite E2. clear E1 E2.
  cbv beta iota zeta delta [f_body f_saltpack_encryptStream_Close]. unfold g_es.
  cbn [es_v es_enc es_pk es_buf es_hh es_mks es_n es_err].
  destruct (ma =? vmaj v1)%Z eqn:A1; cbn [andb] in Hv1.
  - (* major 1 with a minor other than 0: neither case label matches *)
    assert (A2 : (ma =? vmaj v2)%Z = false) by (change (vmaj v1) with 1%Z in A1; change (vmaj v2) with 2%Z; lia).
    rewrite A2. cbn [andb]. unfold vmaj, vmin in A1, A2, Hv1.
    steps5 ext_stream. reflexivity.
  - destruct (ma =? vmaj v2)%Z eqn:A2; cbn [andb].
    2:{ unfold vmaj, vmin in A1, A2. steps5 ext_stream. reflexivity. }
    destruct (mi =? vmin v2)%Z eqn:B2.
    2:{ unfold vmaj, vmin in A1, A2, B2. steps5 ext_stream. reflexivity. }
    destruct (es_block (mkEs (mkV ma mi) w pk buf hh mks nb err) true) as [sw|e st'] eqn:Hblk.
    + unfold vmaj, vmin in A1, A2, B2. steps5 ext_stream. reflexivity.
    + destruct st' as [v' w' pk' buf' hh' mks' n' err']. cbn [es_buf].
      destruct e as [[en ea]|].
      * close_ret [VErr en ea] (mkEs v' w' pk' buf' hh' mks' n' err').
      * destruct (0 <? Z.of_nat (List.length buf'))%Z eqn:Hlen.
        -- unfold vmaj, vmin in A1, A2, B2.
           cbv beta iota zeta delta [f_body f_saltpack_encryptStream_Close].
           steps5 ext_stream. reflexivity.
        -- close_ret [VNil] (mkEs v' w' pk' buf' hh' mks' n' err').
Time Qed.


(* the Version1() branch: first its tail, from the second check of the buffer on *)
Definition cl_v1_tail : list gstmt :=
  Eval cbv in match f_body f_saltpack_encryptStream_Close with
              | [SSwitch _ _ ((_, b) :: _) _] => skipn 1 b
              | _ => []
              end.


Lemma close_v1_tail (st1 : es_state) (tl : env) :
  (tl = [] \/ exists x, tl = [("err", x)]) ->
  match es_close_v1_tail st1 with
  | CloseStuck w => exec2 ext_stream 298 (("es", g_es st1) :: tl) cl_v1_tail = CStuck w
  | ClosePanic => exec2 ext_stream 298 (("es", g_es st1) :: tl) cl_v1_tail = CPanic
  | CloseRet e st2 => exists env', exec2 ext_stream 298 (("es", g_es st1) :: tl) cl_v1_tail = CRet [g_errv e] env' /\
                                   lookup "es" env' = Some (g_es st2)
  end.
Proof.
  intros Htl. unfold es_close_v1_tail.
  destruct st1 as [[ma1 mi1] w1 pk1 buf1 hh1 mks1 nb1 err1]. cbn [es_buf].
  pose proof (as_mks_g_mks mks1) as Hmks1.
  pose proof (as_errv_unf err1) as Herr1.
  assert (Hnb1 : (Z.of_N nb1 <? 0)%Z = false) by lia.
  unfold cl_v1_tail, g_es. cbn [es_v es_enc es_pk es_buf es_hh es_mks es_n es_err].
  destruct (0 <? Z.of_nat (List.length buf1))%Z eqn:Hlen1.
  - destruct Htl as [->|(x & ->)]; steps5 ext_stream; reflexivity.
  - destruct (es_block (mkEs (mkV ma1 mi1) w1 pk1 buf1 hh1 mks1 nb1 err1) true) as [sw2|e2 st2] eqn:Hblk2.
    + destruct Htl as [->|(x & ->)]; steps5 ext_stream; reflexivity.
    + destruct st2 as [v2' w2 pk2 buf2 hh2 mks2 nb2 err2].
      destruct e2 as [[en2 ea2]|];
        (destruct Htl as [->|(x & ->)]; (eexists; split; [steps5 ext_stream; reflexivity|exact eq_refl])).
Time Qed.

(* run until the statement `if es.buffer.Len() > 0 { panic }` is reached *)
Ltac steps5_to_panic X :=
  repeat (lazymatch goal with
          | |- ?L = _ => let h := head_scrut3 L in
                         lazymatch h with exec2 _ _ _ (SIf _ _ [SPanic _] _ :: _) => fail | _ => idtac end
          end;
          first [step5 X | use_head_hyp5 | lits1' | lits2 | lits3 | lits5 | slice5 | extra5]).



Lemma go_encryptStream_Close_v1 (st : es_state) :
  version_eqb (es_v st) v1 = true ->
  let r := run_func2 ext_stream f_saltpack_encryptStream_Close [g_es st] in
  match es_close st with
  | CloseStuck w => fst r = OStuck w
  | ClosePanic => fst r = OPanic
  | CloseRet e st' => fst r = ORet [g_errv e] /\ lookup "es" (snd r) = Some (g_es st')
  end.
Proof.
  intros Hv1. cbv zeta. unfold es_close. rewrite Hv1.
  unfold run_func2. cbn [f_params f_results f_saltpack_encryptStream_Close bind_params map app].
  destruct st as [[ma mi] w pk buf hh mks nb err]. cbn [es_v es_buf] in *.
  pose proof (as_mks_g_mks mks) as Hmks.
  pose proof (as_errv_unf err) as Herr.
  assert (Hnb : (Z.of_N nb <? 0)%Z = false) by lia.
  assert (E1 : version_eqb (mkV ma mi) v1 = ((ma =? vmaj v1) && (mi =? vmin v1))%Z%bool) by reflexivity.
  rewrite E1 in Hv1. clear E1. apply andb_prop in Hv1. destruct Hv1 as [A1 B1].
  unfold vmaj, vmin in A1, B1.
  (* the run up to the tail, as an equation *)
  assert (Hpre : forall st1 tl R,
            exec2 ext_stream 298 (("es", g_es st1) :: tl) cl_v1_tail = R ->
            (if (0 <? Z.of_nat (List.length buf))%Z
             then es_block (mkEs (mkV ma mi) w pk buf hh mks nb err) false = BRet None st1 /\ tl = [("err", VNil)]
             else st1 = mkEs (mkV ma mi) w pk buf hh mks nb err /\ tl = []) ->
            exec2 ext_stream 300 [("es", g_es (mkEs (mkV ma mi) w pk buf hh mks nb err))]
                  (f_body f_saltpack_encryptStream_Close)
            = match R with CBrk e2 => CNorm e2 | r => r end).
  { intros st1 tl R HR Hcase.
    cbv beta iota zeta delta [f_body f_saltpack_encryptStream_Close]. unfold g_es at 1.
    cbn [es_v es_enc es_pk es_buf es_hh es_mks es_n es_err].
    destruct (0 <? Z.of_nat (List.length buf))%Z eqn:Hlen0.
    - destruct Hcase as [Hblk ->].
      steps5_to_panic ext_stream. rewrite_head5 HR. destruct R; reflexivity.
    - destruct Hcase as [-> ->].
      steps5_to_panic ext_stream. rewrite_head5 HR. destruct R; reflexivity. }
  destruct (0 <? Z.of_nat (List.length buf))%Z eqn:Hlen0.
  - destruct (es_block (mkEs (mkV ma mi) w pk buf hh mks nb err) false) as [sw|e st1] eqn:Hblk.
    + unfold g_es. cbn [es_v es_enc es_pk es_buf es_hh es_mks es_n es_err].
      cbv beta iota zeta delta [f_body f_saltpack_encryptStream_Close]. steps5 ext_stream. reflexivity.
    + destruct e as [[en ea]|].
      * destruct st1 as [v1' w1 pk1 buf1 hh1 mks1 nb1 err1].
        unfold g_es. cbn [es_v es_enc es_pk es_buf es_hh es_mks es_n es_err].
        close_ret [VErr en ea] (mkEs v1' w1 pk1 buf1 hh1 mks1 nb1 err1).
      * pose proof (close_v1_tail st1 [("err", VNil)] (or_intror (ex_intro _ VNil eq_refl))) as Ht.
        destruct (es_close_v1_tail st1) as [sw2| |e2 st2].
        -- rewrite (Hpre st1 _ _ Ht (conj eq_refl eq_refl)). reflexivity.
        -- rewrite (Hpre st1 _ _ Ht (conj eq_refl eq_refl)). reflexivity.
        -- destruct Ht as (env' & Ht & Hes). rewrite (Hpre st1 _ _ Ht (conj eq_refl eq_refl)).
           cbn [fst snd]. split; [reflexivity|exact Hes].
  - pose proof (close_v1_tail (mkEs (mkV ma mi) w pk buf hh mks nb err) [] (or_introl eq_refl)) as Ht.
    destruct (es_close_v1_tail (mkEs (mkV ma mi) w pk buf hh mks nb err)) as [sw2| |e2 st2].
    + rewrite (Hpre _ _ _ Ht (conj eq_refl eq_refl)). reflexivity.
    + rewrite (Hpre _ _ _ Ht (conj eq_refl eq_refl)). reflexivity.
    + destruct Ht as (env' & Ht & Hes). rewrite (Hpre _ _ _ Ht (conj eq_refl eq_refl)).
      cbn [fst snd]. split; [reflexivity|exact Hes].
Time Qed.


(* (TARGET) *)
Lemma go_encryptStream_Close (st : es_state) :
  let r := run_func2 ext_stream f_saltpack_encryptStream_Close [g_es st] in
  match es_close st with
  | CloseStuck w => fst r = OStuck w
  | ClosePanic => fst r = OPanic
  | CloseRet e st' => fst r = ORet [g_errv e] /\ lookup "es" (snd r) = Some (g_es st')
  end.
Proof.
  destruct (version_eqb (es_v st) v1) eqn:Hv.
  - exact (go_encryptStream_Close_v1 st Hv).
  - pose proof (go_encryptStream_Close_not_v1 st Hv) as H. unfold es_close. rewrite Hv. exact H.
Qed.


(* ================= init ================= *)
(* the error checkEncryptReceivers returns (go_checkEncryptReceivers) *)
Definition check_rcv_err (rcpts : list rcpt) : gerr :=
  match check_receivers rcpts with
  | Ok _ => None
  | Err ErrRepeatedKey =>
    Some ("ErrRepeatedKey", [VBytes (match first_dup (map fst rcpts) with Some k => k | None => [] end)])
  | Err _ => Some ("ErrBadReceivers", [])
  end.

(* the model's per-recipient MAC keys *)
Definition sender_mac_keys (v : version) (sender_sk eph_sk hh : bytes) (rs : list rcpt) : list bytes :=
  mapi_from (fun i rc => mac_key_sender c v i sender_sk eph_sk (fst rc) hh) 0 rs.

Definition ext_init : externs := fun fn args =>
  if String.eqb fn "checkKnownVersion" then
    match args with
    | [ver] => match as_version ver with
               | Some v => if known_version v then Some [VNil] else Some [VErr "ErrBadVersion" [ver]]
               | None => None
               end
    | _ => None
    end
  else if String.eqb fn "checkEncryptReceivers" then
    match args with
    | [VList l] => match as_rcpts l with Some rcpts => Some [g_errv (check_rcv_err rcpts)] | None => None end
    | _ => None
    end
  else if String.eqb fn "encryptRNG.shuffleReceivers" then
    match args with
    | [VStruct [("shuffle", VBytes ra); ("key", rc)]; VList l] =>
      match as_rcpts l with
      | Some rcpts =>
        if (2147483647 <? Z.of_nat (List.length rcpts))%Z then None     (* csprngShuffle panics: n >= 2^31 *)
        else match shuffle rcpts ra with
             | Some (rs, ra') => Some [VList (map g_rcpt rs); VNil; VStruct [("shuffle", VBytes ra'); ("key", rc)]]
             | None => Some [VNil; VErr "ErrRand" []; VStruct [("shuffle", VBytes ra); ("key", rc)]]
             end
      | None => None
      end
    | _ => None
    end
  else if String.eqb fn "EphemeralKeyCreator.CreateEphemeralKey" then
    match args with
    | [VBytes rb] =>
      match read_full 32 rb with
      | Some (k, rb') => Some [g_sk k; VNil; VBytes rb']
      | None => Some [VNil; VErr "ErrRand" []; VBytes rb]
      end
    | _ => None
    end
  else if String.eqb fn "encryptRNG.createSymmetricKey" then
    match args with
    | [VStruct [("shuffle", ra); ("key", VBytes rc)]] =>
      match read_full 32 rc with
      | Some (k, rc') => Some [VBytes k; VNil; VStruct [("shuffle", ra); ("key", VBytes rc')]]
      | None => Some [VNil; VErr "ErrRand" []; VStruct [("shuffle", ra); ("key", VBytes rc)]]
      end
    | _ => None
    end
  else if String.eqb fn "BoxSecretKey.GetPublicKey" then
    match args with
    | [VStruct [("sk", VBytes s)]] => Some [VStruct [("kid", VBytes (dh_pub c s)); ("hide", VBool false)]]
    | _ => None
    end
  else if String.eqb fn "BoxPublicKey.ToKID" then
    match args with [VStruct (("kid", VBytes k) :: _)] => Some [VBytes k] | _ => None end
  else if String.eqb fn "BoxPublicKey.HideIdentity" then
    match args with [VStruct [_; ("hide", VBool h)]] => Some [VBool h] | _ => None end
  else if String.eqb fn "BoxSecretKey.Precompute" then
    match args with
    | [VStruct [("sk", VBytes s)]; VStruct (("kid", VBytes k) :: _)] => Some [VBytes (dh_shared c s k)]
    | _ => None
    end
  else if String.eqb fn "BoxPrecomputedSharedKey.Box" then
    match args with
    | [VBytes sh; VBytes nonce; VBytes msg] => Some [VBytes (sb_seal c sh nonce msg)]
    | _ => None
    end
  else if String.eqb fn "nonceForSenderKeySecretBox" then Some [VBytes nonce_sender_key_sbox]
  else if String.eqb fn "nonceForPayloadKeyBox" then
    match args with
    | [ver; VInt i] =>
      match as_version ver with
      | Some v => match nonce_payload_key_box v (Z.to_N i) with Some n => Some [VBytes n] | None => None end
      | None => None
      end
    | _ => None
    end
  else if String.eqb fn "encodeToBytes" then
    match args with
    | [eh] => match as_eh eh with Some m => Some [VBytes (mp_encode m); VNil] | None => None end
    | _ => None
    end
  else if String.eqb fn "computeMACKeysSender" then
    match args with
    | [ver; VStruct [("sk", VBytes ssk)]; VStruct [("sk", VBytes esk)]; VList l; VBytes hh] =>
      match as_version ver, as_rcpts l with
      | Some v, Some rs =>
        if known_version v || (match rs with [] => true | _ => false end)
        then Some [g_mks (sender_mac_keys v ssk esk hh rs)]
        else None                                      (* computeMACKeySender panics *)
      | _, _ => None
      end
    | _ => None
    end
  else ext_block fn args.

(* init(version, sender, receivers, ephemeralKeyCreator, rng): [ra] is the source shuffleReceivers draws
   from, [rb] the key creator's, [rc] createSymmetricKey's *)
Definition es_init (st : es_state) (v : version) (sender : option bytes) (rcpts : list rcpt)
           (ra rb rc : rng) : ires :=
  if negb (known_version v) then IRet (Some ("ErrBadVersion", [g_version v])) st ra rb rc
  else
    match check_rcv_err rcpts with
    | Some e => IRet (Some e) st ra rb rc
    | None =>
      if (2147483647 <? Z.of_nat (List.length rcpts))%Z then IStuck "call"
      else
        match shuffle rcpts ra with
        | None => IRet (Some ("ErrRand", [])) st ra rb rc
        | Some (rs, ra') =>
          match read_full 32 rb with
          | None => IRet (Some ("ErrRand", [])) st ra' rb rc
          | Some (eph_sk, rb') =>
            match read_full 32 rc with
            | None => IRet (Some ("ErrRand", [])) st ra' rb' rc
            | Some (pkey, rc') =>
              let sender_sk := match sender with Some s => s | None => eph_sk end in
              let sbox := sb_seal c pkey nonce_sender_key_sbox (dh_pub c sender_sk) in
              let entries := mapi_from (enc_receiver_entry c v eph_sk pkey) 0 rs in
              let hdr := mp_encode (mv_enc_header v mt_encryption (dh_pub c eph_sk) sbox entries) in
              let hh := sha512 c hdr in
              let r := enc_step (es_enc st) (mp_encode (MBin hdr)) in
              let st1 := mkEs (es_v st) (fst r) pkey (es_buf st) hh (es_mks st) (es_n st) (es_err st) in
              match snd r with
              | Some e => IRet (Some e) st1 ra' rb' rc'
              | None =>
                IRet None (mkEs (es_v st) (fst r) pkey (es_buf st) hh (sender_mac_keys v sender_sk eph_sk hh rs)
                                (es_n st) (es_err st)) ra' rb' rc'
              end
            end
          end
        end
    end.

Ltac ev_in5 h ::=
  eval cbv -[Z.eqb Z.ltb Z.leb Z.add Z.sub Z.mul Z.modulo Z.rem Z.quot Z.shiftr Z.shiftl Z.opp
             Z.land Z.lor Z.lxor Z.lnot Z.of_nat Z.of_N Z.to_nat Z.to_N List.length nth_error
             firstn skipn bytes_eqb' bytes_eqb Byte.to_N Byte.of_N N.mul N.ltb N.eqb N.add N.leb b2n n2b Nat.eqb
             Nat.leb Nat.ltb N.div N.modulo nth map app
             sha512 hmac512 sb_open sb_seal dh_shared dh_pub box_seal box_open
             block_number_ok nonce_chunk_secretbox payload_hash payload_authenticator
             mp_encode check_chunk_state version_eqb v1 v2 blk read_ok enc_chunk_ok es_block es_block_from g_mks
             as_mks as_errv es_drain
             g_rcpt g_entry as_rcpts as_entries shuffle read_full known_version check_rcv_err sender_mac_keys
             mapi_from enc_receiver_entry nonce_payload_key_box nonce_sender_key_sbox mv_version mv_receiver list_byte_of_string
             map_set map_find as_bytes_list set_of range_loop2 for_loop2 exec2] in h.

Definition in_body : list gstmt :=
  Eval cbv in match nth 13 (f_body f_saltpack_encryptStream_init) SBreak with SRange _ _ _ b => b | _ => [] end.
Definition in_rest : list gstmt :=
  Eval cbv in skipn 14 (f_body f_saltpack_encryptStream_init).

(* the EncryptionHeader under construction *)
Definition g_eh (V : gval) (eph sbox : bytes) (entries : list gval) : gval :=
  VStruct [("FormatName", VBytes (list_byte_of_string "saltpack")); ("Version", V); ("Type", VInt 0);
           ("Ephemeral", VBytes eph); ("Receivers", VList entries); ("SenderSecretbox", VBytes sbox)].

Definition envI (ES V S R EK RNG E EPH EH PK NO : gval) (tl : env) : env :=
  ([("es", ES); ("version", V); ("sender", S); ("receivers", R); ("ephemeralKeyCreator", EK); ("rng", RNG);
    ("err", E); ("ephemeralKey", EPH); ("eh", EH); ("payloadKey", PK); ("nonce", NO)] ++ tl)%list.
Definition tailI (tl : env) : Prop :=
  tl = [] \/ exists a b c0 d e, tl = [("i", a); ("receiver", b); ("sharedKey", c0); ("payloadKeyBox", d); ("keys", e)].

(* the receiver object with arbitrary values in the fields the loop does not read *)
Definition g_es_raw (V0 W PK B HH MK NB ER : gval) : gval :=
  VStruct [("version", V0); ("encoder", W); ("payloadKey", PK); ("buffer", B); ("headerHash", HH);
           ("macKeys", MK); ("numBlocks", NB); ("err", ER)].

Lemma in_loop (ma mi : Z) (eph_sk pkey ephpk sbox : bytes) (V0 W B HH MK NB ER S R EK RNG E : gval) :
  (ma = 1 \/ ma = 2)%Z ->
  forall (rest : list rcpt) (i : N) (acc : list (option bytes * bytes)) (NO : gval) (tl : env),
  tailI tl -> (i + N.of_nat (List.length rest) < 18446744073709551616)%N ->
  exists NO' tl', tailI tl' /\
    range_loop2 ext_init 286 "i" "receiver" in_body in_rest (Z.of_N i) (map g_rcpt rest)
      (envI (g_es_raw V0 W (VBytes pkey) B HH MK NB ER) (g_version (mkV ma mi)) S R EK RNG E (g_sk eph_sk)
            (g_eh (g_version (mkV ma mi)) ephpk sbox (map g_entry acc)) (VBytes pkey) NO tl)
    = exec2 ext_init 286
      (envI (g_es_raw V0 W (VBytes pkey) B HH MK NB ER) (g_version (mkV ma mi)) S R EK RNG E (g_sk eph_sk)
            (g_eh (g_version (mkV ma mi)) ephpk sbox
                  (map g_entry (acc ++ mapi_from (enc_receiver_entry c (mkV ma mi) eph_sk pkey) i rest)))
            (VBytes pkey) NO' tl') in_rest.
Proof.
  intros Hv.
  induction rest as [|[k hide] rest IH]; intros i acc NO tl Htl Hlen.
  - exists NO, tl. split; [exact Htl|]. cbn [map mapi_from]. rewrite app_nil_r. apply range_loop2_nil.
  - cbn [map mapi_from]. cbn [List.length] in Hlen.
    destruct (nonce_payload_key_box (mkV ma mi) i) as [nonce|] eqn:Enonce;
      [|exfalso; unfold nonce_payload_key_box in Enonce; cbn [vmaj] in Enonce; destruct Hv; subst ma; discriminate].
    assert (Hmod : (Z.of_N i mod 18446744073709551616)%Z = Z.of_N i) by (apply Z.mod_small; lia).
    assert (Enonce' : nonce_payload_key_box (mkV ma mi) (Z.to_N (Z.of_N i)) = Some nonce) by (rewrite N2Z.id; exact Enonce).
    set (entry := enc_receiver_entry c (mkV ma mi) eph_sk pkey i (k, hide)).
    assert (Hentry : entry = ((if hide then None else Some k), sb_seal c (dh_shared c eph_sk k) nonce pkey)).
    { unfold entry, enc_receiver_entry. rewrite Enonce. reflexivity. }
    assert (Hstep : exists NO1 tl1, tailI tl1 /\
      range_loop2 ext_init 286 "i" "receiver" in_body in_rest (Z.of_N i) (g_rcpt (k, hide) :: map g_rcpt rest)
        (envI (g_es_raw V0 W (VBytes pkey) B HH MK NB ER) (g_version (mkV ma mi)) S R EK RNG E (g_sk eph_sk)
              (g_eh (g_version (mkV ma mi)) ephpk sbox (map g_entry acc)) (VBytes pkey) NO tl)
      = range_loop2 ext_init 286 "i" "receiver" in_body in_rest (Z.of_N (i + 1)) (map g_rcpt rest)
        (envI (g_es_raw V0 W (VBytes pkey) B HH MK NB ER) (g_version (mkV ma mi)) S R EK RNG E (g_sk eph_sk)
              (g_eh (g_version (mkV ma mi)) ephpk sbox (map g_entry (acc ++ [entry]))) (VBytes pkey) NO1 tl1)).
    { rewrite map_app. cbn [map]. rewrite Hentry. clear Hentry entry.
      generalize (map g_entry acc). intros AL.
      rewrite N2Z.inj_add. change (Z.of_N 1) with 1%Z.
      rewrite range_loop2_cons. unfold in_body, envI, g_eh, g_rcpt at 1, g_sk, g_es_raw. cbn [fst snd].
      unfold bytes in *.
      destruct hide.
      - unfold g_entry. cbn [fst snd].
        destruct Htl as [->|(a0 & b0 & c0 & d0 & e0 & ->)]; cbn [app];
          (eexists; eexists; split; [|steps5 ext_init; reflexivity]);
          right; do 5 eexists; reflexivity.
      - unfold g_entry. cbn [fst snd].
        destruct Htl as [->|(a0 & b0 & c0 & d0 & e0 & ->)]; cbn [app];
          (eexists; eexists; split; [|steps5 ext_init; reflexivity]);
          right; do 5 eexists; reflexivity. }
    destruct Hstep as (NO1 & tl1 & Htl1 & Hstep).
    destruct (IH (i + 1)%N (acc ++ [entry])%list NO1 tl1 Htl1 ltac:(lia)) as (NO' & tl' & Htl' & Heq).
    exists NO', tl'. split; [exact Htl'|].
    rewrite <- app_assoc in Heq. cbn [app] in Heq.
    etransitivity; [exact Hstep|exact Heq].
Time Qed.

Lemma in_suffix (ma mi : Z) (sender_sk eph_sk pkey ephpk sbox : bytes) (entries : list (option bytes * bytes))
      (rs : list rcpt) (V0 W B HH MK NB ER EK RNG E NO : gval) (tl : env) :
  known_version (mkV ma mi) = true -> tailI tl ->
  let hdr := mp_encode (MArr [MStr (list_byte_of_string "saltpack"); mv_version (mkV ma mi); MInt 0; MBin ephpk; MBin sbox;
                              MArr (map mv_receiver entries)]) in
  let hh := sha512 c hdr in
  let r := enc_step W (mp_encode (MBin hdr)) in
  exists env',
    exec2 ext_init 286
          (envI (g_es_raw V0 W (VBytes pkey) B HH MK NB ER) (g_version (mkV ma mi)) (g_sk sender_sk) (VList (map g_rcpt rs))
                EK RNG E (g_sk eph_sk) (g_eh (g_version (mkV ma mi)) ephpk sbox (map g_entry entries)) (VBytes pkey) NO tl)
          in_rest
    = CRet [g_errv (snd r)] env' /\
    lookup "es" env' = Some (g_es_raw V0 (fst r) (VBytes pkey) B (VBytes hh)
                                      (match snd r with
                                       | Some _ => MK
                                       | None => g_mks (sender_mac_keys (mkV ma mi) sender_sk eph_sk hh rs)
                                       end) NB ER) /\
    lookup "rng" env' = Some RNG /\ lookup "ephemeralKeyCreator" env' = Some EK.
Proof.
  intros Hkv Htl. cbv zeta.
  pose proof (as_rcpts_map rs) as Hrs.
  pose proof (as_entries_map entries) as Hent.
  unfold in_rest, envI, g_eh, g_sk, g_es_raw. unfold rcpt, bytes in *.
  lazymatch goal with |- context [enc_step W ?p] => destruct (enc_step W p) as [w' [[en ea]|]] eqn:Eenc end; cbn [fst snd].
  - destruct Htl as [->|(a0 & b0 & c0 & d0 & e0 & ->)]; cbn [app].
    + eexists. split; [steps5 ext_init; reflexivity|]. repeat split; exact eq_refl.
    + eexists. split; [steps5 ext_init; reflexivity|]. repeat split; exact eq_refl.
  - destruct Htl as [->|(a0 & b0 & c0 & d0 & e0 & ->)]; cbn [app].
    + eexists. split; [steps5 ext_init; reflexivity|]. repeat split; exact eq_refl.
    + eexists. split; [steps5 ext_init; reflexivity|]. repeat split; exact eq_refl.
Time Qed.

Lemma shuffle_loop_length {A} (i : nat) : forall (l l' : list A) (r r' : rng),
  shuffle_loop i l r = Some (l', r') -> List.length l' = List.length l.
Proof.
  induction i as [|i IH]; intros l l' r r' H; cbn [shuffle_loop] in H.
  - injection H as <- _. reflexivity.
  - destruct (uint32n (N.of_nat (S (S i))) r) as [[j r1]|]; [|discriminate].
    rewrite (IH _ _ _ _ H). apply swap_length.
Qed.
Lemma shuffle_length {A} (l l' : list A) (r r' : rng) : shuffle l r = Some (l', r') -> List.length l' = List.length l.
Proof. apply shuffle_loop_length. Qed.

(* a run that ends in `return vals` *)
Ltac init_ret vals st' RNG EK :=
  lazymatch goal with
  | |- context [exec2 ?X 300 ?e ?b] =>
    let Hrun := fresh "Hrun" in
    assert (Hrun : exists env', exec2 X 300 e b = CRet vals env' /\ lookup "es" env' = Some (g_es st') /\
                                lookup "rng" env' = Some RNG /\ lookup "ephemeralKeyCreator" env' = Some EK);
    [ eexists; split;
      [ cbv beta iota zeta delta [f_body f_saltpack_encryptStream_init]; unfold g_es;
        cbn [es_v es_enc es_pk es_buf es_hh es_mks es_n es_err];
        steps5 X; reflexivity
      | repeat split; exact eq_refl ]
    | let env' := fresh "env'" in let Hes := fresh "Hes" in let Hr := fresh "Hr" in let Hk := fresh "Hk" in
      destruct Hrun as (env' & Hrun & Hes & Hr & Hk); rewrite Hrun; cbn [fst snd];
      split; [reflexivity|split; [exact Hes|split; [exact Hr|exact Hk]]] ]
  end.


(* the path through the header construction, for the secret key [sender_sk] the header is sealed from *)
Ltac main_path sender_sk :=
  lazymatch goal with
  | |- context [exec2 ?X 300 ?e ?b] =>
    lazymatch goal with
    | Hrb : read_full 32 _ = Some (?eph_sk, ?rb'), Hrc2 : read_full 32 _ = Some (?pkey, ?rc'),
      Hsh : shuffle _ _ = Some (?rs, ?ra'), Hv12 : (?ma = 1 \/ ?ma = 2)%Z, Hkv : known_version (mkV ?ma ?mi) = true,
      Hbound : (0 + N.of_nat (List.length ?rs) < _)%N |- _ =>
      lazymatch e with
      | (("es", VStruct [("version", ?V0); ("encoder", ?W); _; ("buffer", ?B); ("headerHash", ?HH); ("macKeys", ?MK);
                           ("numBlocks", ?NB); ("err", ?ER)]) :: _) =>
        let sbox := constr:(sb_seal c pkey nonce_sender_key_sbox (dh_pub c sender_sk)) in
        let ES := constr:(g_es_raw V0 W (VBytes pkey) B HH MK NB ER) in
        let Hpre := fresh "Hpre" in
        assert (Hpre : exec2 X 300 e b
                       = range_loop2 X 286 "i" "receiver" in_body in_rest (Z.of_N 0) (map g_rcpt rs)
                           (envI ES (g_version (mkV ma mi)) (g_sk sender_sk) (VList (map g_rcpt rs)) (VBytes rb')
                                 (VStruct [("shuffle", VBytes ra'); ("key", VBytes rc')]) VNil (g_sk eph_sk)
                                 (g_eh (g_version (mkV ma mi)) (dh_pub c eph_sk) sbox (map g_entry []))
                                 (VBytes pkey) (VBytes nonce_sender_key_sbox) []));
        [ cbv beta iota zeta delta [f_body f_saltpack_encryptStream_init]; steps5 X; reflexivity | ];
        let NO' := fresh "NO'" in let tl' := fresh "tl'" in let Htl' := fresh "Htl'" in let Hloop := fresh "Hloop" in
        destruct (in_loop ma mi eph_sk pkey (dh_pub c eph_sk) sbox V0 W B HH MK NB ER (g_sk sender_sk)
                          (VList (map g_rcpt rs)) (VBytes rb') (VStruct [("shuffle", VBytes ra'); ("key", VBytes rc')]) VNil
                          Hv12 rs 0%N [] (VBytes nonce_sender_key_sbox) [] (or_introl eq_refl) Hbound)
          as (NO' & tl' & Htl' & Hloop);
        let env' := fresh "env'" in let Hsuf := fresh "Hsuf" in let Hes := fresh "Hes" in
        let Hr := fresh "Hr" in let Hk := fresh "Hk" in
        destruct (in_suffix ma mi sender_sk eph_sk pkey (dh_pub c eph_sk) sbox
                            (mapi_from (enc_receiver_entry c (mkV ma mi) eph_sk pkey) 0 rs) rs
                            V0 W B HH MK NB ER (VBytes rb') (VStruct [("shuffle", VBytes ra'); ("key", VBytes rc')]) VNil NO' tl'
                            Hkv Htl')
          as (env' & Hsuf & Hes & Hr & Hk);
        cbv zeta in Hsuf, Hes;
        pose proof (eq_trans Hpre (eq_trans Hloop Hsuf)) as Hrun; clear Hpre Hloop Hsuf;
        unfold mv_enc_header; cbv beta iota;
        change format_name with (list_byte_of_string "saltpack");
        change mt_encryption with 0%Z;
        revert Hrun Hes; unfold rcpt, bytes;
        lazymatch goal with |- context [enc_step W ?p] => destruct (enc_step W p) as [w' [[en ea]|]] end;
        cbn [fst snd]; intros Hrun Hes; rewrite Hrun; cbn [fst snd];
        (split; [reflexivity|split; [exact Hes|split; [exact Hr|exact Hk]]])
      end
    end
  end.

(* (TARGET) *)
Lemma go_encryptStream_init (st : es_state) (v : version) (sender : option bytes) (rcpts : list rcpt) (ra rb rc : rng) :
  let r := run_func2 ext_init f_saltpack_encryptStream_init
                     [g_es st; g_version v; g_sender sender; VList (map g_rcpt rcpts); VBytes rb; g_rng ra rc] in
  match es_init st v sender rcpts ra rb rc with
  | IStuck w => fst r = OStuck w
  | IRet e st' ra' rb' rc' =>
    fst r = ORet [g_errv e] /\ lookup "es" (snd r) = Some (g_es st') /\
    lookup "rng" (snd r) = Some (g_rng ra' rc') /\ lookup "ephemeralKeyCreator" (snd r) = Some (VBytes rb')
  end.
Proof.
  cbv zeta. unfold es_init.
  unfold run_func2. cbn [f_params f_results f_saltpack_encryptStream_init bind_params app].
  change (@map (string * string) (string * gval) _ []) with (@nil (string * gval)). cbn [app].
  destruct st as [[ma0 mi0] w0 pk0 buf0 hh0 mks0 n0 err0]. destruct v as [ma mi].
  cbn [es_v es_enc es_pk es_buf es_hh es_mks es_n es_err].
  pose proof (as_rcpts_map rcpts) as Hrc.
  unfold g_rng. unfold rcpt, bytes in *.
  destruct (known_version (mkV ma mi)) eqn:Hkv; cbn [negb].
  2:{ init_ret [VErr "ErrBadVersion" [g_version (mkV ma mi)]] (mkEs (mkV ma0 mi0) w0 pk0 buf0 hh0 mks0 n0 err0)
               (VStruct [("shuffle", VBytes ra); ("key", VBytes rc)]) (VBytes rb). }
  pose (ST0 := mkEs (mkV ma0 mi0) w0 pk0 buf0 hh0 mks0 n0 err0).
  destruct (check_rcv_err rcpts) as [[en ea]|] eqn:Hchk.
  { init_ret [VErr en ea] (mkEs (mkV ma0 mi0) w0 pk0 buf0 hh0 mks0 n0 err0)
             (VStruct [("shuffle", VBytes ra); ("key", VBytes rc)]) (VBytes rb). }
  destruct (2147483647 <? Z.of_nat (List.length rcpts))%Z eqn:Hlen.
  { cbv beta iota zeta delta [f_body f_saltpack_encryptStream_init]. unfold g_es.
    cbn [es_v es_enc es_pk es_buf es_hh es_mks es_n es_err].
    steps5 ext_init. reflexivity. }
  destruct (shuffle rcpts ra) as [[rs ra']|] eqn:Hsh.
  2:{ init_ret [VErr "ErrRand" []] (mkEs (mkV ma0 mi0) w0 pk0 buf0 hh0 mks0 n0 err0)
               (VStruct [("shuffle", VBytes ra); ("key", VBytes rc)]) (VBytes rb). }
  destruct (read_full 32 rb) as [[eph_sk rb']|] eqn:Hrb.
  2:{ init_ret [VErr "ErrRand" []] (mkEs (mkV ma0 mi0) w0 pk0 buf0 hh0 mks0 n0 err0)
               (VStruct [("shuffle", VBytes ra'); ("key", VBytes rc)]) (VBytes rb). }
  destruct (read_full 32 rc) as [[pkey rc']|] eqn:Hrc2.
  2:{ destruct sender as [ssk|]; cbn [g_sender];
      init_ret [VErr "ErrRand" []] (mkEs (mkV ma0 mi0) w0 pk0 buf0 hh0 mks0 n0 err0)
               (VStruct [("shuffle", VBytes ra'); ("key", VBytes rc)]) (VBytes rb'). }
  assert (Hv12 : (ma = 1 \/ ma = 2)%Z).
  { unfold known_version, known_versions in Hkv. cbn [existsb] in Hkv. unfold version_eqb in Hkv. cbn [vmaj vmin] in Hkv.
    change (vmaj v1) with 1%Z in Hkv. change (vmaj v2) with 2%Z in Hkv.
    destruct (ma =? 1)%Z eqn:A1; [left; lia|]. destruct (ma =? 2)%Z eqn:A2; [right; lia|]. discriminate Hkv. }
  pose proof (shuffle_length _ _ _ _ Hsh) as Hlrs.
  assert (Hbound : (0 + N.of_nat (List.length rs) < 18446744073709551616)%N) by lia.
  unfold g_es. cbn [es_v es_enc es_pk es_buf es_hh es_mks es_n es_err].
  destruct sender as [ssk|]; cbn [g_sender].
  - main_path ssk.
  - main_path eph_sk.
Time Qed.

End Sender.


(* ================= the in-memory writer, and init against the model's sender ================= *)
(* the encoder over a bytes.Buffer (seal()): the object is the bytes written so far; it never fails *)
Definition mem_enc (w : gval) (p : bytes) : gval * gerr :=
  match w with VBytes out => (VBytes (out ++ p)%list, None) | _ => (w, Some ("ErrWriter", [])) end.

(* the Go name of an error class of the model's sender *)
Definition sender_err_name (e : err) : string :=
  match e with
  | ErrBadVersion => "ErrBadVersion" | ErrBadReceivers => "ErrBadReceivers" | ErrRepeatedKey => "ErrRepeatedKey"
  | ErrRand => "ErrRand" | ErrPacketOverflow => "ErrPacketOverflow" | _ => ""
  end.

Section Model.
Variable c : crypto.

(* the model draws everything from ONE stream, in the order shuffle, ephemeral key, payload key: the sources of
   the key creator and of createSymmetricKey are what the shuffle, resp. the ephemeral key, leave *)
Definition model_sources (rcpts : list rcpt) (r : rng) : rng * rng :=
  let r1 := match shuffle rcpts r with Some (_, r1) => r1 | None => [] end in
  let r2 := match read_full 32 r1 with Some (_, r2) => r2 | None => [] end in
  (r1, r2).

(* (TARGET) init = the head of the model's seal_stream *)
Lemma es_init_model (st : es_state) (out : bytes) (v : version) (sender : option bytes) (rcpts : list rcpt)
      (pieces : list bytes) (r : rng) :
  es_enc st = VBytes out ->
  (Z.of_nat (List.length rcpts) <= 2147483647)%Z ->
  match es_init c mem_enc st v sender rcpts r (fst (model_sources rcpts r)) (snd (model_sources rcpts r)) with
  | IStuck _ => False
  | IRet (Some (n, _)) st' _ _ _ =>
    st' = st /\ exists e, seal_stream c v sender rcpts pieces r = Err e /\ sender_err_name e = n
  | IRet None st' _ _ rc' =>
    exists hdr_pkt,
      st' = mkEs (es_v st) (VBytes (out ++ hdr_pkt)%list) (es_pk st') (es_buf st) (es_hh st') (es_mks st') (es_n st) (es_err st) /\
      seal_stream c v sender rcpts pieces r
      = bind (encrypt_packets c v (es_pk st') (es_hh st') (es_mks st') 0 (cw_session v enc_block_size [] pieces))
             (fun body => Ok ((hdr_pkt ++ body)%list, rc'))
  end.
Proof.
  intros Henc Hlen. unfold es_init, seal_stream, model_sources. cbn [fst snd].
  destruct (known_version v); cbn [negb].
  2:{ split; [reflexivity|]. eexists; split; reflexivity. }
  unfold check_rcv_err.
  destruct (check_receivers rcpts) as [[]|e] eqn:Hchk; cbn [bind].
  2:{ destruct e; (split; [reflexivity|]); eexists; (split; [reflexivity|]); try reflexivity;
      unfold check_receivers in Hchk; destruct rcpts; try discriminate;
      destruct (_ <? _)%Z; try discriminate; destruct (has_dup _); discriminate. }
  replace (2147483647 <? Z.of_nat (List.length rcpts))%Z with false by lia.
  destruct (shuffle rcpts r) as [[rs r1]|].
  2:{ split; [reflexivity|]. eexists; split; reflexivity. }
  destruct (read_full 32 r1) as [[eph r2]|].
  2:{ split; [reflexivity|]. eexists; split; reflexivity. }
  destruct (read_full 32 r2) as [[pkey r3]|].
  2:{ split; [reflexivity|]. eexists; split; reflexivity. }
  rewrite Henc. unfold mem_enc. cbn [fst snd].
  eexists. split; [destruct st; cbn in *; reflexivity|].
  unfold seal_core, sender_mac_keys. cbn [es_pk es_hh es_mks].
  destruct (encrypt_packets c v pkey _ _ 0 _); reflexivity.
Qed.

End Model.
