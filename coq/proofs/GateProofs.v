(* GateProofs.v — receiving entry points accept a message only if its header names
   the saltpack format, carries a version the caller's validator accepts, and
   carries the mode the entry point serves. *)
From Coq Require Import List NArith ZArith Bool.
From Coq.Strings Require Import Byte.
From SP Require Import Bytes Params Msgpack Crypto Errors Packets Verify Decrypt Signcrypt SignProofs.
Import ListNotations.

Definition gated (vd : option validator) (typ : Z) (input : bytes) : Prop :=
  exists hb rest h view,
    read_header_bytes input = Ok (hb, rest) /\
    decode_header view hb = Ok h /\
    h_format h = format_name /\
    h_type h = typ /\
    match vd with
    | Some v => validate_version v (h_version h) = true
    | None => vmaj (h_version h) = vmaj v2
    end.

Section G.
Variable c : crypto.

Lemma validate_sig_header_ok vd typ h :
  validate_sig_header vd typ h = Ok tt ->
  h_format h = format_name /\ validate_version vd (h_version h) = true /\ h_type h = typ.
Proof.
  unfold validate_sig_header.
  destruct (bytes_eqb (h_format h) format_name) eqn:Ef; cbn [negb]; [|discriminate].
  destruct (validate_version vd (h_version h)) eqn:Ev; cbn [negb]; [|discriminate].
  destruct (h_type h =? typ)%Z eqn:Et; cbn [negb]; [|discriminate].
  intros _. repeat split.
  - apply bytes_eqb_true. exact Ef.
  - apply Z.eqb_eq. exact Et.
Qed.

Lemma verify_read_header_gated vd typ input h hh rest :
  verify_read_header c vd typ input = Ok (h, hh, rest) -> gated (Some vd) typ input.
Proof.
  unfold verify_read_header.
  destruct (read_header_bytes input) as [[hb r]|e] eqn:Er; cbn [bind]; [|discriminate].
  cbn [fst snd].
  destruct (decode_header view_sig_header hb) as [h0|e] eqn:Ed; cbn [bind]; [|discriminate].
  destruct (validate_sig_header vd typ h0) as [[]|e] eqn:Ev; cbn [bind]; [|discriminate].
  intros _. apply validate_sig_header_ok in Ev. destruct Ev as (F & V & T).
  exists hb, r, h0, view_sig_header. repeat split; assumption.
Qed.

Lemma verify_stream_gated vd kr input pk out :
  verify_stream c vd kr input = Ok (pk, out) -> gated (Some vd) mt_attached input.
Proof.
  unfold verify_stream.
  destruct (verify_read_header c vd mt_attached input) as [[[h hh] rest]|e] eqn:E; cbn [bind]; [|discriminate].
  intros _. eapply verify_read_header_gated. exact E.
Qed.

Lemma verify_detached_gated vd kr msg sigfile pk :
  verify_detached c vd kr msg sigfile = Ok pk -> gated (Some vd) mt_detached sigfile.
Proof.
  unfold verify_detached.
  destruct (verify_read_header c vd mt_detached sigfile) as [[[h hh] rest]|e] eqn:E; cbn [bind]; [|discriminate].
  intros _. eapply verify_read_header_gated. exact E.
Qed.

Lemma validate_enc_header_ok vd h :
  validate_enc_header vd h = Ok tt ->
  h_format h = format_name /\ validate_version vd (h_version h) = true /\ h_type h = mt_encryption.
Proof.
  unfold validate_enc_header.
  destruct (bytes_eqb (h_format h) format_name) eqn:Ef; cbn [negb]; [|discriminate].
  destruct (h_type h =? mt_encryption)%Z eqn:Et; cbn [negb]; [|discriminate].
  destruct (validate_version vd (h_version h)) eqn:Ev; cbn [negb]; [|discriminate].
  intros _. repeat split.
  - apply bytes_eqb_true. exact Ef.
  - apply Z.eqb_eq. exact Et.
Qed.

Lemma open_stream_gated vd kr input m out :
  open_stream c vd kr input = Ok (m, out) -> gated (Some vd) mt_encryption input.
Proof.
  unfold open_stream.
  destruct (read_header_bytes input) as [[hb r]|e] eqn:Er; cbn [bind]; [|discriminate].
  cbn [fst snd].
  destruct (decode_header view_enc_header hb) as [h|e] eqn:Ed; cbn [bind]; [|discriminate].
  destruct (process_enc_header c vd kr (sha512 c hb) h) as [ms|e] eqn:Ep; cbn [bind]; [|discriminate].
  intros _. unfold process_enc_header in Ep.
  destruct (validate_enc_header vd h) as [[]|e] eqn:Ev; cbn [bind] in Ep; [|discriminate].
  apply validate_enc_header_ok in Ev. destruct Ev as (F & V & T).
  exists hb, r, h, view_enc_header. repeat split; assumption.
Qed.

Lemma signcrypt_open_stream_gated kr signers rv input s out :
  signcrypt_open_stream c kr signers rv input = Ok (s, out) -> gated None mt_signcryption input.
Proof.
  unfold signcrypt_open_stream.
  destruct (read_header_bytes input) as [[hb r]|e] eqn:Er; cbn [bind]; [|discriminate].
  cbn [fst snd].
  destruct (decode_header view_enc_header hb) as [h|e] eqn:Ed; cbn [bind]; [|discriminate].
  destruct (process_sc_header c kr signers rv h) as [ks|e] eqn:Ep; cbn [bind]; [|discriminate].
  intros _. unfold process_sc_header in Ep.
  destruct (validate_sc_header h) as [[]|e] eqn:Ev; cbn [bind] in Ep; [|discriminate].
  unfold validate_sc_header in Ev.
  destruct (bytes_eqb (h_format h) format_name) eqn:Ef; cbn [negb] in Ev; [|discriminate].
  destruct (h_type h =? mt_signcryption)%Z eqn:Et; cbn [negb] in Ev; [|discriminate].
  destruct (vmaj (h_version h) =? vmaj v2)%Z eqn:Em; cbn [negb] in Ev; [|discriminate].
  exists hb, r, h, view_enc_header. repeat split; try assumption.
  - apply bytes_eqb_true. exact Ef.
  - apply Z.eqb_eq. exact Et.
  - apply Z.eqb_eq. exact Em.
Qed.

End G.
