(* EncAuthLocated.v — authenticity of encryption mode (C02) with LOCATED breaks.
   EncAuthProofs.open_authentic ends in "... \/ EncBreak", and EncBreak has the
   constructor [ShaCollisionE x y : x <> y -> sha512 c x = sha512 c y -> ...] with
   x, y unrestricted.  For the real SHA-512 such a pair exists by pigeonhole, so
   that disjunct carries no information.  Here every witness of a break is a
   member of a finite list computed by a fixed function:
     - [enc_recv_hashed vd kr input]: exactly the byte strings the receiver feeds
       to SHA-512 while processing THIS input (header bytes; for V2 the MAC-key
       derivation input; the payload-hash input of every packet it reaches);
     - [enc_hist_hashed s_sk L]: the byte strings the honest sender fed to
       SHA-512 while producing the messages of the history L.
   A collision must pair one member of the first list with one member of the
   second.  The MAC-forgery constructor is unchanged (it was already located by
   [receiver_state] / [checked_tags]).
   Statements marked (TARGET) are meant to be used verbatim by props/. *)
From Coq Require Import List NArith ZArith Bool Lia ZifyN ZifyNat ZifyBool.
From Coq.Strings Require Import Byte.
From SP Require Import Bytes Params Msgpack Crypto Errors Nonce Packets Chunker Rand Verify Encrypt Decrypt
     MsgpackProofs ChunkerProofs SignProofs SignAuthProofs EncryptProofs EncAuthProofs.
Import ListNotations.
Open Scope N_scope.

Section AuthL.
Variable c : crypto.
Variable s_sk : bytes.      (* the honest sender's long-term box secret key *)

(* ================================================================== *)
(* The located lists                                                   *)
(* ================================================================== *)

(* the string computePayloadHash feeds to SHA-512 (None = panic(ErrBadVersion)) *)
Definition payload_hash_input (v : version) (hh nonce ct : bytes) (final : bool) : option bytes :=
  if (vmaj v =? 1)%Z then Some (hh ++ nonce ++ ct)
  else if (vmaj v =? 2)%Z then Some (hh ++ nonce ++ final_byte final ++ ct)
  else None.

Lemma payload_hash_via_input (v : version) (hh nonce ct : bytes) (final : bool) :
  payload_hash c v hh nonce ct final = option_map (sha512 c) (payload_hash_input v hh nonce ct final).
Proof.
  unfold payload_hash, payload_hash_input.
  destruct (vmaj v =? 1)%Z; [reflexivity|]. destruct (vmaj v =? 2)%Z; reflexivity.
Qed.

(* ---------- receiver ---------- *)

(* the string computeMACKeyReceiver feeds to SHA-512 (V2 only: sum512_truncate256) *)
Definition mac_key_receiver_hashed (v : version) (index : N) (sk sender_pk eph_pk hh : bytes) : list bytes :=
  if (vmaj v =? 1)%Z then []
  else if (vmaj v =? 2)%Z then
    [mac_key_single c sk sender_pk (nonce_mac_key_box_v2 hh false index) ++
     mac_key_single c sk eph_pk (nonce_mac_key_box_v2 hh true index)]
  else [].

(* mirror of [process_enc_header]: what it hashes (nothing unless it reaches the
   MAC-key derivation of a V2 header) *)
Definition recv_mac_hashed (vd : validator) (kr : keyring) (hh : bytes) (h : header) : list bytes :=
  match validate_enc_header vd h with
  | Err _ => []
  | Ok _ =>
    if negb (Nat.eqb (length (h_a h)) 32) then []
    else
      match try_visible c kr (h_version h) (h_a h) (h_rcvs h) with
      | Err _ => []
      | Ok vis =>
        match (match vis with
               | Some x => Ok (Some x)
               | None => try_hidden c (kr_keys kr) (h_version h) (h_a h) (h_rcvs h)
               end) with
        | Err _ => []
        | Ok None => []
        | Ok (Some (k, payload_key, pos)) =>
          match sb_open c payload_key nonce_sender_key_sbox (h_b h) with
          | None => []
          | Some sender =>
            if negb (Nat.eqb (length sender) 32) then []
            else
              match (if bytes_eqb (h_a h) sender then Some (h_a h) else lookup_sender kr sender) with
              | None => []
              | Some s => mac_key_receiver_hashed (h_version h) pos (fst k) s (h_a h) hh
              end
          end
        end
      end
  end.

(* mirror of [decrypt_loop]: the payload-hash input of every packet the loop
   reaches; it continues exactly when the loop continues *)
Fixpoint recv_loop_hashed (fuel : nat) (st : dec_state) (n : N) (input : bytes) : list bytes :=
  match fuel with
  | O => []
  | S f =>
    match read_packet input with
    | Err _ => []
    | Ok (m, rest) =>
      if negb ((vmaj (ds_version st) =? 1)%Z || (vmaj (ds_version st) =? 2)%Z) then []
      else
      match of_dres (view_enc_block (ds_version st) m) with
      | Err _ => []
      | Ok (auths, ct, final) =>
        if negb (block_number_ok n) then []
        else
        match payload_hash_input (ds_version st) (ds_hh st) (nonce_chunk_secretbox n) ct final with
        | None => []
        | Some x =>
          x ::
          match nth_error auths (N.to_nat (ds_position st)) with
          | None => []
          | Some theirs =>
            if negb (bytes_eqb (payload_authenticator c (ds_mac_key st) (sha512 c x)) theirs) then []
            else
              match sb_open c (ds_payload_key st) (nonce_chunk_secretbox n) ct with
              | None => []
              | Some chunk =>
                match check_chunk_state (ds_version st) (length chunk) n final with
                | Err _ => []
                | Ok _ => if final then [] else recv_loop_hashed f st (n + 1) rest
                end
              end
          end
        end
      end
    end
  end.

(* every byte string the receiver feeds to SHA-512 while processing [input]
   (mirror of [open_stream]) *)
Definition enc_recv_hashed (vd : validator) (kr : keyring) (input : bytes) : list bytes :=
  match read_header_bytes input with
  | Err _ => []
  | Ok (hb, rest) =>
    hb ::
    match decode_header view_enc_header hb with
    | Err _ => []
    | Ok h =>
      recv_mac_hashed vd kr (sha512 c hb) h ++
      match process_enc_header c vd kr (sha512 c hb) h with
      | Err _ => []
      | Ok (_, st) => recv_loop_hashed (S (length rest)) st 0 rest
      end
    end
  end.

(* ---------- honest sender ---------- *)

(* the string computeMACKeySender feeds to SHA-512 (V2 only) *)
Definition mac_key_sender_hashed (v : version) (index : N) (sender_sk eph_sk pk hh : bytes) : list bytes :=
  if (vmaj v =? 1)%Z then []
  else [mac_key_single c sender_sk pk (nonce_mac_key_box_v2 hh false index) ++
        mac_key_single c eph_sk pk (nonce_mac_key_box_v2 hh true index)].

Definition em_mac_inputs (m : enc_msg) : list bytes :=
  concat (mapi_from (fun i (rc : rcpt) =>
                       mac_key_sender_hashed (em_v m) i s_sk (em_eph m) (fst rc) (sha512 c (em_header c s_sk m)))
                    0 (em_rs m)).

(* the payload-hash inputs of the packets of a message, by packet number from n
   (mirror of [em_hashes] / [encrypt_packets]) *)
Fixpoint em_payload_inputs (v : version) (pkey hh : bytes) (n : N) (ps : list (bytes * bool)) : list bytes :=
  match ps with
  | [] => []
  | (chunk, final) :: t =>
    let nonce := nonce_chunk_secretbox n in
    match payload_hash_input v hh nonce (sb_seal c pkey nonce chunk) final with
    | Some x => x :: em_payload_inputs v pkey hh (n + 1) t
    | None => em_payload_inputs v pkey hh (n + 1) t
    end
  end.

Definition em_hashed (m : enc_msg) : list bytes :=
  em_header c s_sk m ::
  em_mac_inputs m ++
  em_payload_inputs (em_v m) (em_pkey m) (sha512 c (em_header c s_sk m)) 0 (em_packets m).

End AuthL.

(* [enc_hist_hashed] takes the sender key as an explicit argument *)
Section AuthL2.
Variable c : crypto.
Hypothesis Hc : crypto_ok c.

(* every byte string the honest sender fed to SHA-512 when producing the messages of L *)
Definition enc_hist_hashed (s_sk : bytes) (L : list enc_msg) : list bytes :=
  flat_map (em_hashed c s_sk) L.

Variable s_sk : bytes.
Variable r_sk : bytes.
Let SPK := dh_pub c s_sk.
Let RPK := dh_pub c r_sk.

Inductive EncBreakL (vd : validator) (kr : keyring) (L : list enc_msg) (input : bytes) : Prop :=
| MacForgeryL (st : dec_state) (rest : bytes) (ph tag : bytes) :
    receiver_state c vd kr input = Some (st, rest) ->
    In (ph, tag) (checked_tags c (S (length rest)) st 0 rest) ->
    tag = payload_authenticator c (ds_mac_key st) ph ->
    ~ intended c s_sk r_sk L (ds_hh st) (ds_position st) ph ->
    EncBreakL vd kr L input
| ShaCollisionL (x y : bytes) :
    In x (enc_recv_hashed c vd kr input) -> In y (enc_hist_hashed s_sk L) ->
    x <> y -> sha512 c x = sha512 c y -> EncBreakL vd kr L input.

(* the located break is an instance of the old one *)
Lemma located_implies_old (vd : validator) (kr : keyring) (L : list enc_msg) (input : bytes) :
  EncBreakL vd kr L input -> EncBreak c s_sk r_sk vd kr L input.
Proof.
  intros [st rest ph tag H1 H2 H3 H4|x y _ _ Hne He].
  - exact (MacForgery c s_sk r_sk vd kr L input st rest ph tag H1 H2 H3 H4).
  - exact (ShaCollisionE c s_sk r_sk vd kr L input x y Hne He).
Qed.

(* ================================================================== *)
(* Membership lemmas                                                   *)
(* ================================================================== *)

Lemma hist_header_in (L : list enc_msg) (m : enc_msg) :
  In m L -> In (em_header c s_sk m) (enc_hist_hashed s_sk L).
Proof.
  intro H. unfold enc_hist_hashed. apply in_flat_map. exists m. split; [exact H|].
  unfold em_hashed. left. reflexivity.
Qed.

Lemma em_payload_inputs_nth (v : version) (pkey hh : bytes) : forall ps n k ch f x,
  nth_error ps k = Some (ch, f) ->
  payload_hash_input v hh (nonce_chunk_secretbox (n + N.of_nat k))
    (sb_seal c pkey (nonce_chunk_secretbox (n + N.of_nat k)) ch) f = Some x ->
  In x (em_payload_inputs c v pkey hh n ps).
Proof.
  induction ps as [|[ch0 f0] t IH]; intros n k ch f x Hn Hx; [destruct k; discriminate|].
  cbn [em_payload_inputs].
  destruct k as [|k]; cbn [nth_error] in Hn.
  - injection Hn as -> ->. cbn [N.of_nat] in Hx. rewrite N.add_0_r in Hx. rewrite Hx. left. reflexivity.
  - assert (Hrec : In x (em_payload_inputs c v pkey hh (n + 1) t)).
    { apply (IH (n + 1) k ch f x Hn).
      replace (n + 1 + N.of_nat k) with (n + N.of_nat (S k)) by (clear; lia). exact Hx. }
    destruct (payload_hash_input v hh (nonce_chunk_secretbox n)
                (sb_seal c pkey (nonce_chunk_secretbox n) ch0) f0); [right|]; exact Hrec.
Qed.

Lemma hist_payload_in (L : list enc_msg) (m : enc_msg) (k : nat) (ch : bytes) (f : bool) (x : bytes) :
  In m L -> nth_error (em_packets m) k = Some (ch, f) ->
  payload_hash_input (em_v m) (sha512 c (em_header c s_sk m)) (nonce_chunk_secretbox (N.of_nat k))
    (sb_seal c (em_pkey m) (nonce_chunk_secretbox (N.of_nat k)) ch) f = Some x ->
  In x (enc_hist_hashed s_sk L).
Proof.
  intros H Hn Hx. unfold enc_hist_hashed. apply in_flat_map. exists m. split; [exact H|].
  unfold em_hashed. right. apply in_or_app. right.
  apply (em_payload_inputs_nth _ _ _ _ 0 k ch f x Hn). rewrite N.add_0_l. exact Hx.
Qed.

(* sanity: [recv_mac_hashed] is the SHA-512 input of the MAC key [process_enc_header] derives *)
Lemma recv_mac_hashed_spec (vd : validator) (kr : keyring) (hh : bytes) (h : header) (m : mki) (st : dec_state) :
  process_enc_header c vd kr hh h = Ok (m, st) ->
  ((vmaj (ds_version st) = 1)%Z /\ recv_mac_hashed c vd kr hh h = []) \/
  ((vmaj (ds_version st) = 2)%Z /\
   exists x, recv_mac_hashed c vd kr hh h = [x] /\ ds_mac_key st = sum512_truncate256 c x).
Proof.
  unfold process_enc_header, recv_mac_hashed.
  destruct (validate_enc_header vd h) as [u|e]; cbv beta iota zeta delta [bind]; [|discriminate].
  destruct (negb (Nat.eqb (length (h_a h)) 32)); [discriminate|].
  assert (Tail : forall (k : bytes * bytes) (key : bytes) (pos : N) (ranon : bool) (nanon : N),
    match sb_open c key nonce_sender_key_sbox (h_b h) with
    | None => Err ErrBadSenderKeySecretbox
    | Some sender =>
      if negb (Nat.eqb (length sender) 32) then Err ErrBadBoxKey
      else
        match (if bytes_eqb (h_a h) sender then Ok (h_a h, true)
               else match lookup_sender kr sender with
                    | None => Err ErrNoSenderKey
                    | Some s => Ok (s, false)
                    end) with
        | Ok sa =>
          match mac_key_receiver c (h_version h) pos (fst k) (fst sa) (h_a h) hh with
          | None => Err (Panic 8)
          | Some mk =>
            Ok (mkMki (fst sa) (snd sa) (snd k) ranon (map snd (named_with_index (h_rcvs h) 0)) nanon,
                mkDec (h_version h) key mk pos hh)
          end
        | Err e => Err e
        end
    end = Ok (m, st) ->
    let l := match sb_open c key nonce_sender_key_sbox (h_b h) with
             | None => []
             | Some sender =>
               if negb (Nat.eqb (length sender) 32) then []
               else
                 match (if bytes_eqb (h_a h) sender then Some (h_a h) else lookup_sender kr sender) with
                 | None => []
                 | Some s => mac_key_receiver_hashed c (h_version h) pos (fst k) s (h_a h) hh
                 end
             end in
    ((vmaj (ds_version st) = 1)%Z /\ l = []) \/
    ((vmaj (ds_version st) = 2)%Z /\ exists x, l = [x] /\ ds_mac_key st = sum512_truncate256 c x)).
  { intros k key pos ranon nanon. cbv zeta.
    destruct (sb_open c key nonce_sender_key_sbox (h_b h)) as [sender|]; [|discriminate].
    destruct (negb (Nat.eqb (length sender) 32)); [discriminate|].
    assert (Fin : forall s b,
      match mac_key_receiver c (h_version h) pos (fst k) s (h_a h) hh with
      | None => Err (Panic 8)
      | Some mk =>
        Ok (mkMki s b (snd k) ranon (map snd (named_with_index (h_rcvs h) 0)) nanon,
            mkDec (h_version h) key mk pos hh)
      end = Ok (m, st) ->
      ((vmaj (ds_version st) = 1)%Z /\ mac_key_receiver_hashed c (h_version h) pos (fst k) s (h_a h) hh = []) \/
      ((vmaj (ds_version st) = 2)%Z /\
       exists x, mac_key_receiver_hashed c (h_version h) pos (fst k) s (h_a h) hh = [x] /\
                 ds_mac_key st = sum512_truncate256 c x)).
    { intros s b. unfold mac_key_receiver, mac_key_receiver_hashed.
      destruct (vmaj (h_version h) =? 1)%Z eqn:E1.
      - intro H. injection H as _ <-. cbn [ds_version ds_mac_key]. left.
        split; [apply Z.eqb_eq; exact E1|reflexivity].
      - destruct (vmaj (h_version h) =? 2)%Z eqn:E2; [|discriminate].
        intro H. injection H as _ <-. cbn [ds_version ds_mac_key]. right.
        split; [apply Z.eqb_eq; exact E2|]. eexists. split; reflexivity. }
    destruct (bytes_eqb (h_a h) sender).
    - cbn [fst snd]. apply Fin.
    - destruct (lookup_sender kr sender) as [s|]; [|discriminate]. cbn [fst snd]. apply Fin. }
  destruct (try_visible c kr (h_version h) (h_a h) (h_rcvs h)) as [[[[k key] pos]|]|e]; try discriminate.
  - exact (Tail k key pos false 0).
  - destruct (try_hidden c (kr_keys kr) (h_version h) (h_a h) (h_rcvs h))
      as [[[[k key] pos]|]|e]; try discriminate.
    exact (Tail k key pos true (count_anon (h_rcvs h))).
Qed.

(* ================================================================== *)
(* The receiver's loop, with the hashed string of every packet located *)
(* ================================================================== *)

(* as [e_pkt_ok], and the packet's payload-hash input is a member of [Hs] *)
Definition e_pkt_okL (st : dec_state) (T : list (bytes * bytes)) (Hs : list bytes)
           (n : N) (chunk : bytes) (final : bool) : Prop :=
  exists ct ph tag x,
    In (ph, tag) T /\ tag = payload_authenticator c (ds_mac_key st) ph /\
    payload_hash c (ds_version st) (ds_hh st) (nonce_chunk_secretbox n) ct final = Some ph /\
    sb_open c (ds_payload_key st) (nonce_chunk_secretbox n) ct = Some chunk /\
    n < 18446744073709551615 /\
    ((vmaj (ds_version st) = 1)%Z -> final = Nat.eqb (length ct) 16) /\
    payload_hash_input (ds_version st) (ds_hh st) (nonce_chunk_secretbox n) ct final = Some x /\
    In x Hs.

Fixpoint e_relL (st : dec_state) (T : list (bytes * bytes)) (Hs : list bytes) (n : N)
         (rs : list (bytes * bool)) : Prop :=
  match rs with
  | [] => True
  | (ch, f) :: t => e_pkt_okL st T Hs n ch f /\ e_relL st T Hs (n + 1) t
  end.

Lemma e_pkt_okL_incl (st : dec_state) (T T' : list (bytes * bytes)) (Hs Hs' : list bytes)
      (n : N) (ch : bytes) (f : bool) :
  incl T T' -> incl Hs Hs' -> e_pkt_okL st T Hs n ch f -> e_pkt_okL st T' Hs' n ch f.
Proof.
  intros Hi Hj (ct & ph & tag & x & Hin & H1 & H2 & H3 & H4 & H5 & H6 & H7).
  exists ct, ph, tag, x. split; [apply Hi; exact Hin|].
  repeat (split; [assumption|]). apply Hj. exact H7.
Qed.

Lemma e_relL_incl (st : dec_state) (T T' : list (bytes * bytes)) (Hs Hs' : list bytes) :
  incl T T' -> incl Hs Hs' ->
  forall rs n, e_relL st T Hs n rs -> e_relL st T' Hs' n rs.
Proof.
  intros Hi Hj. induction rs as [|[ch f] t IH]; intros n H; cbn [e_relL] in *; [exact I|].
  destruct H as [H1 H2]. split; [exact (e_pkt_okL_incl st T T' Hs Hs' n ch f Hi Hj H1)|exact (IH _ H2)].
Qed.

Lemma decrypt_loop_invL (st : dec_state) : forall fuel n input acc,
  exists rs,
    so_chunks (decrypt_loop c fuel st n input acc) = rev acc ++ map fst rs /\
    e_relL st (checked_tags c fuel st n input) (recv_loop_hashed c fuel st n input) n rs /\
    (so_end (decrypt_loop c fuel st n input acc) = EOF -> ends_final rs).
Proof.
  assert (Stop : forall (acc : list bytes) (e : err) (T : list (bytes * bytes)) (Hs : list bytes) n, e <> EOF ->
            exists rs, so_chunks (mkOut (rev_append acc []) e) = rev acc ++ map fst rs /\
                       e_relL st T Hs n rs /\ (so_end (mkOut (rev_append acc []) e) = EOF -> ends_final rs)).
  { intros acc e T Hs n He. exists []. cbn [so_chunks so_end map e_relL].
    rewrite rev_append_rev, !app_nil_r. split; [reflexivity|]. split; [exact I|].
    intro E. contradiction. }
  induction fuel as [|fuel IH]; intros n input acc; cbn [decrypt_loop checked_tags recv_loop_hashed].
  - apply Stop. discriminate.
  - destruct (read_packet input) as [[m rest]|e] eqn:Er.
    2:{ apply Stop. intros ->. exact (read_packet_not_eof input Er). }
    destruct (negb ((vmaj (ds_version st) =? 1)%Z || (vmaj (ds_version st) =? 2)%Z)) eqn:Evm;
      [apply Stop; discriminate|].
    destruct (of_dres (view_enc_block (ds_version st) m)) as [[[auths ct] f]|e] eqn:Ev.
    2:{ apply Stop. intros ->. exact (of_dres_not_eof _ Ev). }
    destruct (block_number_ok n) eqn:Eb; cbn [negb]; [|apply Stop; discriminate].
    rewrite (payload_hash_via_input c (ds_version st) (ds_hh st) (nonce_chunk_secretbox n) ct f).
    destruct (payload_hash_input (ds_version st) (ds_hh st) (nonce_chunk_secretbox n) ct f) as [x|] eqn:Ex;
      cbn [option_map]; [|apply Stop; discriminate].
    destruct (nth_error auths (N.to_nat (ds_position st))) as [theirs|] eqn:Eth; [|apply Stop; discriminate].
    destruct (bytes_eqb (payload_authenticator c (ds_mac_key st) (sha512 c x)) theirs) eqn:Etag; cbn [negb];
      [|apply Stop; discriminate].
    destruct (sb_open c (ds_payload_key st) (nonce_chunk_secretbox n) ct) as [chunk|] eqn:Eo;
      [|apply Stop; discriminate].
    destruct (check_chunk_state (ds_version st) (length chunk) n f) as [u|e] eqn:Ec.
    2:{ apply Stop. intros ->. exact (check_chunk_state_not_eof _ _ _ _ Ec). }
    assert (Hok : forall T Hs, e_pkt_okL st ((sha512 c x, theirs) :: T) (x :: Hs) n chunk f).
    { intros T Hs. exists ct, (sha512 c x), theirs, x. split; [left; reflexivity|].
      split; [symmetry; apply bytes_eqb_true; exact Etag|].
      split; [rewrite payload_hash_via_input, Ex; reflexivity|]. split; [exact Eo|].
      split; [unfold block_number_ok in Eb; apply N.ltb_lt in Eb; exact Eb|].
      split.
      - intro E1. destruct (view_enc_block (ds_version st) m) as [[[a k] b]| |] eqn:Evb;
          cbn [of_dres] in Ev; try discriminate.
        injection Ev as -> -> ->. exact (view_enc_block_v1 _ m auths ct f Evb E1).
      - split; [exact Ex|left; reflexivity]. }
    destruct f.
    + exists [(chunk, true)]. cbn [so_chunks so_end map fst e_relL].
      rewrite rev_append_rev, app_nil_r. cbn [rev]. split; [reflexivity|].
      split; [split; [apply Hok|exact I]|]. intros _. exists [], chunk. reflexivity.
    + destruct (IH (n + 1) rest (chunk :: acc)) as (rs & Hch & Hr & He).
      exists ((chunk, false) :: rs). rewrite Hch. cbn [rev map fst e_relL]. rewrite <- app_assoc.
      split; [reflexivity|]. split.
      * split; [apply Hok|].
        apply (e_relL_incl st (checked_tags c fuel st (n + 1) rest) _
                 (recv_loop_hashed c fuel st (n + 1) rest) _); [| |exact Hr].
        -- intros y Hy. right. exact Hy.
        -- intros y Hy. right. exact Hy.
      * intro E. destruct (He E) as (init & ch' & ->). exists ((chunk, false) :: init), ch'. reflexivity.
Qed.

(* ================================================================== *)
(* One packet                                                          *)
(* ================================================================== *)

Lemma sha_inj_or_eL (vd : validator) (kr : keyring) (L : list enc_msg) (input : bytes) (x y : bytes) :
  In x (enc_recv_hashed c vd kr input) -> In y (enc_hist_hashed s_sk L) ->
  sha512 c x = sha512 c y -> x = y \/ EncBreakL vd kr L input.
Proof.
  intros Hx Hy H. destruct (beq_dec x y) as [E|Hne]; [left; exact E|].
  right. exact (ShaCollisionL vd kr L input x y Hx Hy Hne H).
Qed.

Lemma e_packet_reductionL (vd : validator) (kr : keyring) (L : list enc_msg) (input : bytes)
      (st : dec_state) (rest hb : bytes) (h : header) (Hs : list bytes) (n : N) (ch : bytes) (f : bool) :
  Forall (em_ok c s_sk) L ->
  receiver_state c vd kr input = Some (st, rest) ->
  In hb (enc_recv_hashed c vd kr input) ->
  incl Hs (enc_recv_hashed c vd kr input) ->
  ds_hh st = sha512 c hb ->
  decode_header view_enc_header hb = Ok h ->
  ds_version st = h_version h ->
  key_opened c r_sk (h_version h) (h_a h) (h_rcvs h) (ds_position st) (ds_payload_key st) ->
  e_pkt_okL st (checked_tags c (S (length rest)) st 0 rest) Hs n ch f ->
  e_pkt_auth c s_sk r_sk L hb (ds_position st) n ch f \/ EncBreakL vd kr L input.
Proof.
  intros HL Hrs Hhb HHs Hhh Hdec Hver Hkey (ct & ph & tag & x & Hin & Htag & Hph & Hopen & Hn & Hv1 & Hx & HxIn).
  apply HHs in HxIn.
  destruct (intended_dec c s_sk r_sk L (ds_hh st) (ds_position st) ph) as [Hi|Hni];
    [|right; exact (MacForgeryL vd kr L input st rest ph tag Hrs Hin Htag Hni)].
  destruct Hi as (msg & hide & HinL & Ehh & Hnth & Hph').
  assert (Ehb : sha512 c hb = sha512 c (em_header c s_sk msg)) by (rewrite <- Hhh; exact Ehh).
  apply (sha_inj_or_eL vd kr L input hb (em_header c s_sk msg) Hhb (hist_header_in L msg HinL))
    in Ehb as [Ehb|B]; [|right; exact B].
  pose proof (proj1 (Forall_forall _ _) HL _ HinL) as Hok.
  destruct Hok as (Hv & Hpk & Hnr & Hlen & Hnd & Hse & Hnp & Hfl & Hv1').
  (* the decoded header is the genuine one *)
  assert (Eh : h = mkHeader format_name (em_v msg) mt_encryption (dh_pub c (em_eph msg))
                 (sb_seal c (em_pkey msg) nonce_sender_key_sbox (dh_pub c s_sk))
                 (mapi_from (rcv_of c (em_v msg) (em_eph msg) (em_pkey msg)) 0 (em_rs msg))).
  { rewrite Ehb in Hdec. unfold em_header in Hdec, Hlen.
    rewrite (header_roundtrip c Hc (em_v msg) (Some s_sk) (em_eph msg) (em_pkey msg) (em_rs msg)
               Hv Hpk Hnr Hlen) in Hdec.
    injection Hdec as <-. reflexivity. }
  rewrite Eh in Hver, Hkey. cbn [h_version h_a h_rcvs] in Hver, Hkey.
  (* the payload key *)
  assert (Ekey : ds_payload_key st = em_pkey msg).
  { destruct Hkey as (nonce & Hnonce & Hopen_k).
    rewrite <- (N2Nat.id (ds_position st)) in Hnonce.
    rewrite (rcv_box c (em_v msg) (em_eph msg) (em_pkey msg) (em_rs msg) _ _ Hnth) in Hopen_k.
    cbn [fst] in Hopen_k. unfold nonce_of in Hopen_k. rewrite Hnonce in Hopen_k.
    rewrite (ok_dh c Hc r_sk (em_eph msg)) in Hopen_k.
    rewrite (ok_sb c Hc) in Hopen_k. injection Hopen_k as <-. reflexivity. }
  apply em_hashes_in in Hph' as (k & ch' & f' & Hk & Hph').
  rewrite N.add_0_l in Hph'.
  assert (Hklt : (k < length (em_packets msg))%nat) by (apply nth_error_Some; congruence).
  rewrite Hver in Hph, Hv1, Hx. rewrite Ekey in Hopen.
  (* the sender's hashed string for packet k *)
  assert (HyIn : forall y,
    payload_hash_input (em_v msg) (ds_hh st) (nonce_chunk_secretbox (N.of_nat k))
      (sb_seal c (em_pkey msg) (nonce_chunk_secretbox (N.of_nat k)) ch') f' = Some y ->
    In y (enc_hist_hashed s_sk L)).
  { intros y Hy. rewrite Ehh in Hy. exact (hist_payload_in L msg k ch' f' y HinL Hk Hy). }
  set (ct' := sb_seal c (em_pkey msg) (nonce_chunk_secretbox (N.of_nat k)) ch') in *.
  (* conclusion from equality of nonces, ciphertexts and final flags *)
  assert (Fin : nonce_chunk_secretbox n = nonce_chunk_secretbox (N.of_nat k) -> ct = ct' -> f = f' ->
                e_pkt_auth c s_sk r_sk L hb (ds_position st) n ch f \/ EncBreakL vd kr L input).
  { intros En Ect Ef. left.
    assert (Ei : n = N.of_nat k) by (apply nonce_chunk_inj; [clear - Hn; lia|clear - Hklt Hnp; lia|exact En]).
    subst n f. exists msg, hide. split; [exact HinL|]. split; [symmetry; exact Ehb|].
    split; [exact Hnth|]. rewrite Nat2N.id, Hk.
    rewrite Ect in Hopen. unfold ct' in Hopen. rewrite (ok_sb c Hc) in Hopen.
    injection Hopen as <-. reflexivity. }
  unfold payload_hash in Hph, Hph'. unfold payload_hash_input in Hx, HyIn.
  destruct Hv as [Ev|Ev]; rewrite Ev in Hph, Hph', Hv1, Hx, HyIn.
  - (* V1 *)
    change (vmaj v1 =? 1)%Z with true in Hph, Hph', Hx, HyIn. cbv beta iota in Hph, Hph', Hx, HyIn.
    assert (Ex : x = ds_hh st ++ nonce_chunk_secretbox n ++ ct) by (injection Hx as <-; reflexivity).
    rewrite Ex in HxIn.
    assert (Esh : sha512 c (ds_hh st ++ nonce_chunk_secretbox n ++ ct) =
                  sha512 c (ds_hh st ++ nonce_chunk_secretbox (N.of_nat k) ++ ct')) by congruence.
    apply (sha_inj_or_eL vd kr L input _ _ HxIn (HyIn _ eq_refl)) in Esh as [Esh|B]; [|right; exact B].
    apply app_inv_head in Esh.
    apply app_len_inj in Esh as [En Ect]; [|rewrite !nonce_chunk_len; reflexivity].
    apply Fin; [exact En|exact Ect|].
    rewrite (Hv1 eq_refl), Ect. unfold ct'. rewrite (ok_sb_len c Hc).
    specialize (Hv1' Ev). rewrite Forall_forall in Hv1'.
    apply nth_error_In in Hk. apply Hv1' in Hk. cbn [fst snd] in Hk. rewrite Hk.
    destruct ch'; reflexivity.
  - (* V2 *)
    change (vmaj v2 =? 1)%Z with false in Hph, Hph', Hx, HyIn.
    change (vmaj v2 =? 2)%Z with true in Hph, Hph', Hx, HyIn.
    cbv beta iota in Hph, Hph', Hx, HyIn.
    assert (Ex : x = ds_hh st ++ nonce_chunk_secretbox n ++ final_byte f ++ ct) by (injection Hx as <-; reflexivity).
    rewrite Ex in HxIn.
    assert (Esh : sha512 c (ds_hh st ++ nonce_chunk_secretbox n ++ final_byte f ++ ct) =
                  sha512 c (ds_hh st ++ nonce_chunk_secretbox (N.of_nat k) ++ final_byte f' ++ ct')) by congruence.
    apply (sha_inj_or_eL vd kr L input _ _ HxIn (HyIn _ eq_refl)) in Esh as [Esh|B]; [|right; exact B].
    apply app_inv_head in Esh.
    apply app_len_inj in Esh as [En Eb]; [|rewrite !nonce_chunk_len; reflexivity].
    unfold final_byte in Eb. cbn [app] in Eb. injection Eb as Ef Ect.
    apply Fin; [exact En|exact Ect|].
    destruct f, f'; try discriminate; reflexivity.
Qed.

(* ================================================================== *)
(* Assembly                                                            *)
(* ================================================================== *)

Lemma e_rel_authL (vd : validator) (kr : keyring) (L : list enc_msg) (input : bytes)
      (st : dec_state) (rest hb : bytes) (h : header) (Hs : list bytes) :
  Forall (em_ok c s_sk) L ->
  receiver_state c vd kr input = Some (st, rest) ->
  In hb (enc_recv_hashed c vd kr input) ->
  incl Hs (enc_recv_hashed c vd kr input) ->
  ds_hh st = sha512 c hb ->
  decode_header view_enc_header hb = Ok h ->
  ds_version st = h_version h ->
  key_opened c r_sk (h_version h) (h_a h) (h_rcvs h) (ds_position st) (ds_payload_key st) ->
  forall rs n, e_relL st (checked_tags c (S (length rest)) st 0 rest) Hs n rs ->
    e_auth_from c s_sk r_sk L hb (ds_position st) n rs \/ EncBreakL vd kr L input.
Proof.
  intros HL Hrs Hhb HHs Hhh Hdec Hver Hkey.
  induction rs as [|[ch f] t IH]; intros n H; cbn [e_relL e_auth_from] in *.
  - left. exact I.
  - destruct H as [H1 H2].
    destruct (e_packet_reductionL vd kr L input st rest hb h Hs n ch f HL Hrs Hhb HHs Hhh Hdec Hver Hkey H1)
      as [A|B]; [|right; exact B].
    destruct (IH (n + 1) H2) as [A'|B]; [|right; exact B].
    left. split; assumption.
Qed.

(* (TARGET) C02, located *)
Theorem open_authentic_located (vd : validator) (senders : option (list bytes)) (input : bytes)
      (m : mki) (out : stream_out) (L : list enc_msg) :
  Forall (em_ok c s_sk) L -> em_headers_distinct c s_sk L ->
  N.of_nat (length input) < 18446744073709551616 ->
  let kr := mkRing [(r_sk, RPK)] senders in
  open_stream c vd kr input = Ok (m, out) ->
  mki_sender m = SPK -> mki_sender_anon m = false ->
  (so_chunks out = [] /\ so_end out <> EOF) \/
  (exists msg hide pos,
      In msg L /\ nth_error (em_rs msg) pos = Some (RPK, hide) /\
      list_prefix (so_chunks out) (map fst (em_packets msg)) /\
      (so_end out = EOF -> so_chunks out = map fst (em_packets msg)))
  \/ EncBreakL vd kr L input.
Proof.
  intros Hok Hd Hlen kr Hopen _ _.
  unfold open_stream in Hopen.
  destruct (read_header_bytes input) as [[hb rest]|e] eqn:Erh;
    cbv beta iota delta [bind fst snd] in Hopen; [|discriminate].
  destruct (decode_header view_enc_header hb) as [h|e] eqn:Edh;
    cbv beta iota delta [bind] in Hopen; [|discriminate].
  destruct (process_enc_header c vd kr (sha512 c hb) h) as [[m' st]|e] eqn:Eproc;
    cbv beta iota delta [bind fst snd] in Hopen; [|discriminate].
  remember (decrypt_loop c (S (length rest)) st 0 rest []) as lp eqn:Elp in Hopen.
  assert (Eout : out = lp) by (injection Hopen as _ <-; reflexivity).
  clear Hopen. subst out lp.
  assert (Hrs : receiver_state c vd kr input = Some (st, rest)).
  { unfold receiver_state. rewrite Erh, Edh, Eproc. reflexivity. }
  assert (Ehashed : enc_recv_hashed c vd kr input =
                    hb :: recv_mac_hashed c vd kr (sha512 c hb) h ++
                          recv_loop_hashed c (S (length rest)) st 0 rest).
  { unfold enc_recv_hashed. rewrite Erh, Edh, Eproc. reflexivity. }
  assert (Hhb : In hb (enc_recv_hashed c vd kr input)) by (rewrite Ehashed; left; reflexivity).
  assert (HHs : incl (recv_loop_hashed c (S (length rest)) st 0 rest) (enc_recv_hashed c vd kr input)).
  { intros y Hy. rewrite Ehashed. right. apply in_or_app. right. exact Hy. }
  unfold kr in Eproc. apply process_key in Eproc as (Hver & Hhh & Hkey).
  destruct (decrypt_loop_invL st (S (length rest)) 0 rest []) as (rs & Hch & Hrel & Heof).
  destruct (e_rel_authL vd kr L input st rest hb h _ Hok Hrs Hhb HHs Hhh Edh Hver Hkey rs 0 Hrel) as [Ha|B];
    [|right; right; exact B].
  destruct rs as [|r0 rs].
  - left. split; [rewrite Hch; reflexivity|].
    intro E. destruct (Heof E) as (init & ch & E'). destruct init; discriminate.
  - right. left.
    destruct (e_assemble c s_sk r_sk L hb (ds_position st) r0 rs Hd Hok Ha)
      as (msg & hide & t & Hin & Hr & Et & Hfin).
    exists msg, hide, (N.to_nat (ds_position st)). split; [exact Hin|]. split; [exact Hr|].
    rewrite Hch. cbn [rev app]. split.
    + rewrite Et, map_app. apply list_prefix_app.
    + intro E. rewrite (Hfin (Heof E)) in Et. rewrite app_nil_r in Et. rewrite Et. reflexivity.
Qed.

(* (TARGET) C02, located: the all-at-once form *)
Theorem open_authentic_all_located (vd : validator) (senders : option (list bytes)) (input : bytes)
      (m : mki) (pt : bytes) (L : list enc_msg) :
  Forall (em_ok c s_sk) L -> em_headers_distinct c s_sk L ->
  N.of_nat (length input) < 18446744073709551616 ->
  let kr := mkRing [(r_sk, RPK)] senders in
  open_all c vd kr input = Ok (m, pt) ->
  mki_sender m = SPK -> mki_sender_anon m = false ->
  (exists msg hide pos,
      In msg L /\ nth_error (em_rs msg) pos = Some (RPK, hide) /\ pt = concat (map fst (em_packets msg)))
  \/ EncBreakL vd kr L input.
Proof.
  intros Hok Hd Hlen kr Hopen Hs Ha. unfold open_all in Hopen.
  destruct (open_stream c vd kr input) as [[m' out]|e] eqn:Es; cbv beta iota delta [bind] in Hopen; [|discriminate].
  cbn [fst snd] in Hopen.
  destruct (so_end out) eqn:Ee; try discriminate.
  assert (Em : m' = m) by (injection Hopen as -> _; reflexivity).
  assert (Ept : pt = concat (so_chunks out)) by (injection Hopen as _ <-; reflexivity).
  clear Hopen. subst m' pt.
  destruct (open_authentic_located vd senders input m out L Hok Hd Hlen Es Hs Ha)
    as [[_ Hne]|[(msg & hide & pos & Hin & Hr & _ & Hall)|B]].
  - contradiction.
  - left. exists msg, hide, pos. split; [exact Hin|]. split; [exact Hr|]. rewrite (Hall Ee). reflexivity.
  - right. exact B.
Qed.

End AuthL2.

(* ================================================================== *)
(* Non-vacuity of the lists on the toy instance                        *)
(* ================================================================== *)
From SP Require Import ToyCrypto ToyCryptoProofs.

(* V1, genuine two-packet message (props/C02.v's example): the receiver hashes the
   header bytes and one payload-hash input per packet — 3 strings — and they are
   exactly the 3 strings the honest sender hashed, in the same order *)
Example enc_recv_hashed_ex_v1 :
  let sk := repeat x11 32 in
  let ssk := repeat x33 32 in
  let rs := [(dh_pub toy_crypto sk, false)] in
  match seal_core toy_crypto v1 (Some ssk) (repeat x44 32) (repeat x55 32) rs [[x68; x69]] with
  | Ok out =>
    let l := enc_recv_hashed toy_crypto (Single v1) (mkRing [(sk, dh_pub toy_crypto sk)] None) out in
    Some (length l,
          if list_eq_dec beq_dec l
               (enc_hist_hashed toy_crypto ssk
                  [mkEncMsg v1 (repeat x44 32) (repeat x55 32) rs [([x68; x69], false); ([], true)]])
          then true else false)
  | Err _ => None
  end = Some (3%nat, true).
Proof. vm_compute. reflexivity. Qed.

(* V2, genuine one-packet message: header bytes, the MAC-key derivation input, one
   payload-hash input — again exactly the sender's 3 strings *)
Example enc_recv_hashed_ex_v2 :
  let sk := repeat x11 32 in
  let ssk := repeat x33 32 in
  let rs := [(dh_pub toy_crypto sk, false)] in
  match seal_core toy_crypto v2 (Some ssk) (repeat x44 32) (repeat x55 32) rs [[x68; x69]] with
  | Ok out =>
    let l := enc_recv_hashed toy_crypto (Single v2) (mkRing [(sk, dh_pub toy_crypto sk)] None) out in
    Some (length l,
          if list_eq_dec beq_dec l
               (enc_hist_hashed toy_crypto ssk
                  [mkEncMsg v2 (repeat x44 32) (repeat x55 32) rs [([x68; x69], true)]])
          then true else false)
  | Err _ => None
  end = Some (3%nat, true).
Proof. vm_compute. reflexivity. Qed.

(* an input that is not even a header: nothing is hashed *)
Example enc_recv_hashed_ex_garbage :
  enc_recv_hashed toy_crypto AnyKnownMajor (mkRing [] None) [x00; x01] = [].
Proof. vm_compute. reflexivity. Qed.
