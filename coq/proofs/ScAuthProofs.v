(* ScAuthProofs.v — authenticity of signcryption as a reduction (insider-proof:
   nothing here assumes the payload key is secret).
   Whatever bytes are presented, the bytes released and attributed to a named
   signer are a prefix of one plaintext that signer really signcrypted in a single
   message (same header, hence same recipient entries), whole plaintext iff clean
   end — or the INPUT ITSELF carries, inside an accepted packet, a valid Ed25519
   signature on a string the signer never signed, or a SHA-512 collision is
   exhibited.  Statements marked (TARGET) are used verbatim by props/. *)
From Coq Require Import List NArith ZArith Bool Lia ZifyN ZifyNat ZifyBool.
From Coq.Strings Require Import Byte.
From SP Require Import Bytes Params Msgpack Crypto Errors Nonce Packets Chunker Rand Verify Encrypt Decrypt Signcrypt
     MsgpackProofs ChunkerProofs SignProofs SignAuthProofs.
Import ListNotations.
Open Scope N_scope.

Section Auth.
Variable c : crypto.
Hypothesis Hsha : forall x, length (sha512 c x) = 64%nat.

(* one signcrypted message of the honest signer: the header bytes it built (any
   recipients) and its packets with ANY spec-following chunking *)
Record sc_msg := mkScMsg { sm_header : bytes; sm_packets : list (bytes * bool) }.

Definition sm_ok (m : sc_msg) : Prop :=
  N.of_nat (length (sm_packets m)) < 18446744073709551616 /\
  exists init lastp, sm_packets m = init ++ [lastp] /\ snd lastp = true /\ Forall (fun p => snd p = false) init.

Fixpoint sm_inputs (hh : bytes) (n : N) (ps : list (bytes * bool)) : list bytes :=
  match ps with
  | [] => []
  | (chunk, final) :: t =>
    signcrypt_sig_input c hh (nonce_chunk_signcryption hh final n) final chunk :: sm_inputs hh (n + 1) t
  end.

(* everything the signing key ever signed: its signcrypted messages, plus
   attached/detached signatures (events of SignAuthProofs) *)
Definition sc_signed (pk : bytes) (M : list sc_msg) (others : list sign_event) : list bytes :=
  flat_map (fun m => sm_inputs (sha512 c (sm_header m)) 0 (sm_packets m)) M ++ signed_inputs c pk others.

Definition other_ok (e : sign_event) : Prop :=
  match e with EvSigncrypt _ _ _ _ => False | _ => True end.

Definition sm_headers_distinct (M : list sc_msg) : Prop :=
  forall i j m1 m2, nth_error M i = Some m1 -> nth_error M j = Some m2 ->
    sm_header m1 = sm_header m2 -> i = j.

(* the (signature input, presented signature) pairs of the packets the open loop
   examines on [input], extracted by a fixed function that mirrors the loop *)
Fixpoint checked_sigs (fuel : nat) (payload_key hh : bytes) (n : N) (input : bytes) : list (bytes * bytes) :=
  match fuel with
  | O => []
  | S f =>
    match read_packet input with
    | Err _ => []
    | Ok (m, rest) =>
      match of_dres (view_signcrypt_block m) with
      | Err _ => []
      | Ok (ct, final) =>
        let nonce := nonce_chunk_signcryption hh final n in
        match sb_open c payload_key nonce ct with
        | None => []
        | Some att =>
          if Nat.ltb (length att) 64 then []
          else (signcrypt_sig_input c hh nonce final (skipn 64 att), firstn 64 att)
                 :: checked_sigs f payload_key hh (n + 1) rest
        end
      end
    end
  end.

(* header hash, payload key and packet bytes as the receiver computes them from the input *)
Definition sc_receiver_state (kr : keyring) (signers : sigring) (rv : resolver) (input : bytes)
  : option (bytes * bytes * bytes) :=
  match read_header_bytes input with
  | Ok (hb, rest) =>
    match decode_header view_enc_header hb with
    | Ok h =>
      match process_sc_header c kr signers rv h with
      | Ok (pkey, _) => Some (sha512 c hb, pkey, rest)
      | Err _ => None
      end
    | Err _ => None
    end
  | Err _ => None
  end.

Inductive ScBreak (kr : keyring) (signers : sigring) (rv : resolver) (pk : bytes)
          (M : list sc_msg) (others : list sign_event) (input : bytes) : Prop :=
| ScSigForgery (hh pkey rest msg sig : bytes) :
    sc_receiver_state kr signers rv input = Some (hh, pkey, rest) ->
    In (msg, sig) (checked_sigs (S (length rest)) pkey hh 0 rest) ->
    ed_verify c pk msg sig = true ->
    ~ In msg (sc_signed pk M others) ->
    ScBreak kr signers rv pk M others input
| ScShaCollision (x y : bytes) :
    x <> y -> sha512 c x = sha512 c y -> ScBreak kr signers rv pk M others input.

(* ================================================================== *)
(* Reduction machinery (mirrors SignAuthProofs)                        *)
(* ================================================================== *)

Lemma sc_nonce_length (hh : bytes) (f : bool) (n : N) :
  length hh = 64%nat -> length (nonce_chunk_signcryption hh f n) = 24%nat.
Proof.
  intro H. unfold nonce_chunk_signcryption, hash16_flag_index.
  rewrite !app_length, firstn_length, be64_length, H. reflexivity.
Qed.

Lemma sc_input_length (hh : bytes) (f : bool) (n : N) (ch : bytes) :
  length hh = 64%nat ->
  length (signcrypt_sig_input c hh (nonce_chunk_signcryption hh f n) f ch) = 182%nat.
Proof.
  intro H. unfold signcrypt_sig_input, final_byte.
  rewrite !app_length, (sc_nonce_length hh f n H), len_enc_prefix, Hsha, H. reflexivity.
Qed.

(* attached / detached signature inputs are 92 bytes long *)
Lemma other_inputs_length (pk : bytes) (others : list sign_event) (x : bytes) :
  Forall other_ok others -> In x (signed_inputs c pk others) -> length x = 92%nat.
Proof.
  intros Hok Hin. unfold signed_inputs in Hin. apply in_flat_map in Hin as (e & He & Hin).
  pose proof (proj1 (Forall_forall _ _) Hok _ He) as Hev.
  destruct e as [v' nonce' ps'|v' nonce' msg'|hh' nonce' f' ch']; cbn [other_ok] in Hev; [| |contradiction].
  - cbn [ev_inputs] in Hin.
    apply (attached_inputs_in c Hsha) in Hin as (k & ch' & f' & Hn & Hi).
    apply attached_input_eq in Hi as [-> _].
    rewrite app_length, Hsha, len_att_prefix. reflexivity.
  - cbn [ev_inputs In] in Hin. destruct Hin as [<-|[]].
    unfold detached_sig_input, detached_sig_input_from_hash.
    rewrite app_length, Hsha, len_det_prefix. reflexivity.
Qed.

Lemma sm_inputs_in (hh x : bytes) : forall ps n,
  In x (sm_inputs hh n ps) ->
  exists k ch f, nth_error ps k = Some (ch, f) /\
                 x = signcrypt_sig_input c hh (nonce_chunk_signcryption hh f (n + N.of_nat k)) f ch.
Proof.
  induction ps as [|[ch f] t IH]; intros n H; cbn [sm_inputs] in H; [destruct H|].
  destruct H as [<-|H].
  - exists 0%nat, ch, f. split; [reflexivity|]. rewrite N.add_0_r. reflexivity.
  - apply IH in H as (k & ch' & f' & Hn & Hx). exists (S k), ch', f'.
    split; [exact Hn|]. replace (n + N.of_nat (S k)) with (n + 1 + N.of_nat k) by (clear; lia). exact Hx.
Qed.

Lemma final_byte_inj (f f' : bool) (a b : bytes) :
  final_byte f ++ a = final_byte f' ++ b -> f = f' /\ a = b.
Proof.
  unfold final_byte. cbn [app]. intro H. injection H as Hf ->.
  split; [|reflexivity]. destruct f, f'; try discriminate; reflexivity.
Qed.

(* two signcryption signature inputs with 64-byte header hashes coincide only
   componentwise *)
Lemma sc_input_inj (hh hh' : bytes) (f f' : bool) (n n' : N) (ch ch' : bytes) :
  length hh = 64%nat -> length hh' = 64%nat ->
  n < 18446744073709551616 -> n' < 18446744073709551616 ->
  signcrypt_sig_input c hh (nonce_chunk_signcryption hh f n) f ch =
  signcrypt_sig_input c hh' (nonce_chunk_signcryption hh' f' n') f' ch' ->
  hh = hh' /\ n = n' /\ f = f' /\ sha512 c ch = sha512 c ch'.
Proof.
  intros Hl Hl' Hn Hn' E. unfold signcrypt_sig_input in E.
  apply app_inv_head in E.
  apply app_len_inj in E as [Eh E]; [|rewrite Hl, Hl'; reflexivity]. subst hh'.
  apply app_len_inj in E as [En E]; [|rewrite !sc_nonce_length by assumption; reflexivity].
  apply final_byte_inj in E as [Ef Ec]. subst f'.
  unfold nonce_chunk_signcryption, hash16_flag_index in En.
  apply app_inv_head in En.
  apply app_len_inj in En as [_ En]; [|reflexivity].
  apply be64_inj in En; [|assumption|assumption].
  auto.
Qed.

Section Red.
Variables (kr : keyring) (signers : sigring) (rv : resolver) (pk : bytes)
          (M : list sc_msg) (others : list sign_event) (input : bytes).

Notation Brk := (ScBreak kr signers rv pk M others input).

Lemma sc_sha_inj_or (x y : bytes) : sha512 c x = sha512 c y -> x = y \/ Brk.
Proof.
  intro H. destruct (bytes_eq_dec x y) as [E|Hne]; [left; exact E|].
  right. exact (ScShaCollision kr signers rv pk M others input x y Hne H).
Qed.

(* packet [i] carried (chunk, final) and a signature, listed in CS, that verified under pk *)
Definition sc_verified (CS : list (bytes * bytes)) (hh : bytes) (i : N) (ch : bytes) (f : bool) : Prop :=
  exists sig,
    In (signcrypt_sig_input c hh (nonce_chunk_signcryption hh f i) f ch, sig) CS /\
    ed_verify c pk (signcrypt_sig_input c hh (nonce_chunk_signcryption hh f i) f ch) sig = true /\
    i < 18446744073709551616.

(* packet [i] of an honest signcrypted message with header bytes [hb] is (chunk, final) *)
Definition sc_pkt_auth (hb : bytes) (i : N) (ch : bytes) (f : bool) : Prop :=
  exists m, In m M /\ sm_header m = hb /\ nth_error (sm_packets m) (N.to_nat i) = Some (ch, f).

Fixpoint sc_rel (CS : list (bytes * bytes)) (hh : bytes) (n : N) (rs : list (bytes * bool)) : Prop :=
  match rs with
  | [] => True
  | (ch, f) :: t => sc_verified CS hh n ch f /\ sc_rel CS hh (n + 1) t
  end.

Lemma sc_rel_cons (x : bytes * bytes) (CS : list (bytes * bytes)) (hh : bytes) : forall rs n,
  sc_rel CS hh n rs -> sc_rel (x :: CS) hh n rs.
Proof.
  induction rs as [|[ch f] t IH]; intros n H; cbn [sc_rel] in *; [exact I|].
  destruct H as [(sig & Hin & Hv & Hlt) H2]. split; [|exact (IH _ H2)].
  exists sig. split; [right; exact Hin|]. split; assumption.
Qed.

(* ---------- the receiver's loop ---------- *)
Lemma sc_open_loop_inv (pkey hh : bytes) : forall fuel n inp acc,
  exists rs,
    so_chunks (sc_open_loop c fuel pkey (Some pk) hh n inp acc) = rev acc ++ map fst rs /\
    sc_rel (checked_sigs fuel pkey hh n inp) hh n rs /\
    (so_end (sc_open_loop c fuel pkey (Some pk) hh n inp acc) = EOF -> ends_final rs).
Proof.
  assert (Stop : forall (acc : list bytes) (e : err) CS n, e <> EOF ->
            exists rs, so_chunks (mkOut (rev_append acc []) e) = rev acc ++ map fst rs /\
                       sc_rel CS hh n rs /\ (so_end (mkOut (rev_append acc []) e) = EOF -> ends_final rs)).
  { intros acc e CS n He. exists []. cbn [so_chunks so_end map sc_rel].
    rewrite rev_append_rev, !app_nil_r. split; [reflexivity|]. split; [exact I|].
    intro E. contradiction. }
  induction fuel as [|fuel IH]; intros n inp acc; cbn [sc_open_loop checked_sigs].
  - apply Stop. discriminate.
  - destruct (read_packet inp) as [[m rest]|e] eqn:Er.
    2:{ apply Stop. intros ->. exact (read_packet_not_eof inp Er). }
    destruct (of_dres (view_signcrypt_block m)) as [[ct f]|e] eqn:Ev.
    2:{ apply Stop. intros ->. exact (of_dres_not_eof _ Ev). }
    destruct (block_number_ok n) eqn:Ebn; cbn [negb]; [|apply Stop; discriminate].
    cbv zeta.
    destruct (sb_open c pkey (nonce_chunk_signcryption hh f n) ct) as [att|] eqn:Esb; [|apply Stop; discriminate].
    destruct (Nat.ltb (length att) 64) eqn:Elt; [apply Stop; discriminate|].
    destruct (ed_verify c pk (signcrypt_sig_input c hh (nonce_chunk_signcryption hh f n) f (skipn 64 att))
                        (firstn 64 att)) eqn:Es; cbn [negb]; [|apply Stop; discriminate].
    destruct (check_chunk_state v2 (length (skipn 64 att)) n f) as [u|e] eqn:Ec.
    2:{ apply Stop. intros ->. exact (check_chunk_state_not_eof _ _ _ _ Ec). }
    assert (Hver : sc_verified
              ((signcrypt_sig_input c hh (nonce_chunk_signcryption hh f n) f (skipn 64 att), firstn 64 att)
                 :: checked_sigs fuel pkey hh (n + 1) rest) hh n (skipn 64 att) f).
    { exists (firstn 64 att). split; [left; reflexivity|]. split; [exact Es|].
      unfold block_number_ok in Ebn. apply N.ltb_lt in Ebn. clear - Ebn. lia. }
    destruct f.
    + exists [(skipn 64 att, true)]. cbn [so_chunks so_end map fst sc_rel].
      rewrite rev_append_rev, app_nil_r. cbn [rev]. split; [reflexivity|].
      split; [split; [exact Hver|exact I]|]. intros _. exists [], (skipn 64 att). reflexivity.
    + destruct (IH (n + 1) rest (skipn 64 att :: acc)) as (rs & Hc & Hr & He).
      exists ((skipn 64 att, false) :: rs). rewrite Hc. cbn [rev map fst sc_rel]. rewrite <- app_assoc.
      split; [reflexivity|]. split; [split; [exact Hver|apply sc_rel_cons; exact Hr]|].
      intro E. destruct (He E) as (init & ch' & ->). exists ((skipn 64 att, false) :: init), ch'. reflexivity.
Qed.

(* ---------- one packet ---------- *)
Variables (hb pkey rest : bytes).
Hypothesis Hst : sc_receiver_state kr signers rv input = Some (sha512 c hb, pkey, rest).

Notation CS0 := (checked_sigs (S (length rest)) pkey (sha512 c hb) 0 rest).

Lemma sc_packet_reduction (i : N) (ch : bytes) (f : bool) :
  Forall sm_ok M -> Forall other_ok others ->
  sc_verified CS0 (sha512 c hb) i ch f -> sc_pkt_auth hb i ch f \/ Brk.
Proof.
  intros Hok Hoth (sig & Hcs & Hv & Hlt).
  set (msg := signcrypt_sig_input c (sha512 c hb) (nonce_chunk_signcryption (sha512 c hb) f i) f ch) in *.
  destruct (in_dec bytes_eq_dec msg (sc_signed pk M others)) as [Hin|Hnin];
    [|right; exact (ScSigForgery kr signers rv pk M others input _ _ _ msg sig Hst Hcs Hv Hnin)].
  unfold sc_signed in Hin. apply in_app_or in Hin as [Hin|Hin].
  - apply in_flat_map in Hin as (m & Hm & Hin).
    apply sm_inputs_in in Hin as (k & ch' & f' & Hnth & Hx). rewrite N.add_0_l in Hx.
    pose proof (proj1 (Forall_forall _ _) Hok _ Hm) as [Hlen _].
    assert (Hk : (k < length (sm_packets m))%nat) by (apply nth_error_Some; congruence).
    unfold msg in Hx.
    apply sc_input_inj in Hx as (Hh & Hi & Hf & Hc);
      [|apply Hsha|apply Hsha|exact Hlt|clear - Hlen Hk; lia].
    apply sc_sha_inj_or in Hh as [Hh|B]; [|right; exact B].
    apply sc_sha_inj_or in Hc as [Hc|B]; [|right; exact B].
    subst i f' ch'. left. exists m. split; [exact Hm|]. split; [symmetry; exact Hh|].
    rewrite Nat2N.id. exact Hnth.
  - exfalso. apply (other_inputs_length pk others msg Hoth) in Hin.
    unfold msg in Hin. rewrite sc_input_length in Hin by apply Hsha. discriminate.
Qed.

(* ---------- assembly ---------- *)
Fixpoint sc_auth_from (n : N) (rs : list (bytes * bool)) : Prop :=
  match rs with
  | [] => True
  | (ch, f) :: t => sc_pkt_auth hb n ch f /\ sc_auth_from (n + 1) t
  end.

Lemma sc_rel_auth :
  Forall sm_ok M -> Forall other_ok others ->
  forall rs n, sc_rel CS0 (sha512 c hb) n rs -> sc_auth_from n rs \/ Brk.
Proof.
  intros Hok Hoth. induction rs as [|[ch f] t IH]; intros n H; cbn [sc_rel sc_auth_from] in *.
  - left. exact I.
  - destruct H as [H1 H2].
    destruct (sc_packet_reduction n ch f Hok Hoth H1) as [A|B]; [|right; exact B].
    destruct (IH (n + 1) H2) as [A'|B]; [|right; exact B].
    left. split; assumption.
Qed.

Lemma sc_auth_from_nth : forall rs n k ch f,
  sc_auth_from n rs -> nth_error rs k = Some (ch, f) -> sc_pkt_auth hb (n + N.of_nat k) ch f.
Proof.
  induction rs as [|[ch0 f0] t IH]; intros n k ch f H Hn; [destruct k; discriminate|].
  cbn [sc_auth_from] in H. destruct H as [H1 H2]. destruct k as [|k]; cbn [nth_error] in Hn.
  - injection Hn as <- <-. rewrite N.add_0_r. exact H1.
  - replace (n + N.of_nat (S k)) with (n + 1 + N.of_nat k) by (clear; lia). exact (IH _ _ _ _ H2 Hn).
Qed.

Lemma sc_assemble (r0 : bytes * bool) (rs : list (bytes * bool)) :
  sm_headers_distinct M -> Forall sm_ok M -> sc_auth_from 0 (r0 :: rs) ->
  exists m t,
    In m M /\ sm_header m = hb /\ sm_packets m = (r0 :: rs) ++ t /\ (ends_final (r0 :: rs) -> t = []).
Proof.
  intros Hd Hok Ha.
  destruct r0 as [ch0 f0].
  destruct (sc_auth_from_nth _ 0 0%nat ch0 f0 Ha eq_refl) as (m0 & Hin0 & Hh0 & _).
  assert (Hall : forall k x, nth_error ((ch0, f0) :: rs) k = Some x -> nth_error (sm_packets m0) k = Some x).
  { intros k [ch f] Hk.
    destruct (sc_auth_from_nth _ 0 k ch f Ha Hk) as (m & Hin & Hh & Hn).
    rewrite N.add_0_l, Nat2N.id in Hn.
    destruct (In_nth_error _ _ Hin0) as [a Ea]. destruct (In_nth_error _ _ Hin) as [b Eb].
    assert (a = b) by (apply (Hd a b _ _ Ea Eb); congruence).
    subst b. rewrite Ea in Eb. injection Eb as <-. exact Hn. }
  apply nth_prefix in Hall as [t Et].
  exists m0, t. split; [exact Hin0|]. split; [exact Hh0|]. split; [exact Et|].
  intros (init & ch & Ei).
  pose proof (proj1 (Forall_forall _ _) Hok _ Hin0) as [_ Hfl].
  rewrite Et, Ei in Hfl. exact (flags_ok_last _ _ _ Hfl).
Qed.

End Red.

(* (TARGET) C04 *)
Lemma signcrypt_authentic (kr : keyring) (signers : sigring) (rv : resolver) (input : bytes)
      (pk : bytes) (out : stream_out) (M : list sc_msg) (others : list sign_event) :
  Forall sm_ok M -> sm_headers_distinct M -> Forall other_ok others ->
  N.of_nat (length input) < 18446744073709551616 ->
  signcrypt_open_stream c kr signers rv input = Ok (Some pk, out) ->
  (so_chunks out = [] /\ so_end out <> EOF) \/
  (exists m hb rest,
      In m M /\ read_header_bytes input = Ok (hb, rest) /\ hb = sm_header m /\
      list_prefix (so_chunks out) (map fst (sm_packets m)) /\
      (so_end out = EOF -> so_chunks out = map fst (sm_packets m)))
  \/ ScBreak kr signers rv pk M others input.
Proof.
  intros Hok Hd Hoth _ Hv.
  unfold signcrypt_open_stream in Hv.
  destruct (read_header_bytes input) as [[hb rest]|e] eqn:Erh; cbv beta iota delta [bind fst snd] in Hv; [|discriminate].
  destruct (decode_header view_enc_header hb) as [h|e] eqn:Edh; cbv beta iota delta [bind] in Hv; [|discriminate].
  destruct (process_sc_header c kr signers rv h) as [[pkey sg]|e] eqn:Eph;
    cbv beta iota delta [bind fst snd] in Hv; [|discriminate].
  remember (sc_open_loop c _ _ _ _ _ _ _) as lp eqn:Elp in Hv.
  injection Hv as -> <-. subst lp.
  assert (Hst : sc_receiver_state kr signers rv input = Some (sha512 c hb, pkey, rest)).
  { unfold sc_receiver_state. rewrite Erh, Edh, Eph. reflexivity. }
  destruct (sc_open_loop_inv pk pkey (sha512 c hb) (S (length rest)) 0 rest [])
    as (rs & Hc & Hrel & Heof).
  destruct (sc_rel_auth kr signers rv pk M others input hb pkey rest Hst Hok Hoth rs 0 Hrel)
    as [Ha|B]; [|right; right; exact B].
  destruct rs as [|r0 rs].
  - left. split; [rewrite Hc; reflexivity|].
    intro E. destruct (Heof E) as (init & ch & E'). destruct init; discriminate.
  - right. left.
    destruct (sc_assemble M hb r0 rs Hd Hok Ha) as (m & t & Hin & Hh & Et & Hfin).
    exists m, hb, rest. split; [exact Hin|]. split; [reflexivity|]. split; [symmetry; exact Hh|].
    rewrite Hc. cbn [rev app]. split.
    + rewrite Et, map_app. apply list_prefix_app.
    + intro E. rewrite (Hfin (Heof E)) in Et. rewrite app_nil_r in Et. rewrite Et. reflexivity.
Qed.

(* (TARGET) C04: all-at-once form *)
Lemma signcrypt_authentic_all (kr : keyring) (signers : sigring) (rv : resolver) (input : bytes)
      (pk pt : bytes) (M : list sc_msg) (others : list sign_event) :
  Forall sm_ok M -> sm_headers_distinct M -> Forall other_ok others ->
  N.of_nat (length input) < 18446744073709551616 ->
  signcrypt_open_all c kr signers rv input = Ok (Some pk, pt) ->
  (exists m, In m M /\ pt = concat (map fst (sm_packets m)))
  \/ ScBreak kr signers rv pk M others input.
Proof.
  intros Hok Hd Hoth Hlen Hv. unfold signcrypt_open_all in Hv.
  destruct (signcrypt_open_stream c kr signers rv input) as [[sg out]|e] eqn:Es;
    cbv beta iota delta [bind fst snd] in Hv; [|discriminate].
  destruct (so_end out) eqn:Ee; try discriminate.
  injection Hv as -> <-.
  destruct (signcrypt_authentic kr signers rv input pk out M others Hok Hd Hoth Hlen Es)
    as [[_ Hne]|[(m & hb & rest & Hin & _ & _ & _ & Hall)|B]].
  - contradiction.
  - left. exists m. split; [exact Hin|]. rewrite (Hall Ee). reflexivity.
  - right. exact B.
Qed.

End Auth.
