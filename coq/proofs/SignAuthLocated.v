(* SignAuthLocated.v — the signature-authenticity reductions of SignAuthProofs.v
   with LOCATED breaks.

   SignAuthProofs proves  "released bytes are authentic  \/  CryptoBreak c pk L"
   where CryptoBreak is inhabited by ANY two different strings with the same
   SHA-512 hash, or ANY verifying (message, signature) pair outside the honest
   history.  For the real SHA-512 an unrestricted collision exists by
   pigeonhole, so that disjunct carries no information.

   Here every witness of a break is a member of a finite list computed by a
   fixed, explicit function:
     - a forged signature is one of the (signature input, presented signature)
       pairs the receiver actually checked while processing THIS input
       (checked_att_sigs: a mirror of verify_loop; for the detached form the
       single pair verify_detached checks);
     - a collision is between one string the receiver fed to SHA-512 while
       processing THIS input (att_recv_hashed / det_recv_hashed) and one string
       the honest signer fed to SHA-512 while producing the history L
       (hist_hashed), the two being different.
   Statements marked (TARGET) are meant to be used verbatim by props/. *)
From Coq Require Import List NArith ZArith Bool Lia ZifyN ZifyNat ZifyBool.
From Coq.Strings Require Import Byte.
From SP Require Import Bytes Params Msgpack Crypto Errors Nonce Packets Chunker Rand Sign Verify
     MsgpackProofs ChunkerProofs SignProofs SignAuthProofs.
Import ListNotations.
Open Scope N_scope.

(* header bytes, version, key id and remaining input, exactly as
   verify_read_header computes them (the header hash is sha512 c hb) *)
Definition sig_receiver_state (vd : validator) (typ : Z) (input : bytes)
  : option (bytes * version * bytes * bytes) :=
  match read_header_bytes input with
  | Ok (hb, rest) =>
    match decode_header view_sig_header hb with
    | Ok h =>
      match validate_sig_header vd typ h with
      | Ok _ => Some (hb, h_version h, h_a h, rest)
      | Err _ => None
      end
    | Err _ => None
    end
  | Err _ => None
  end.

Section Located.
Variable c : crypto.
Hypothesis Hsha : forall x, length (sha512 c x) = 64%nat.

(* ================================================================== *)
(* (1) the located lists                                               *)
(* ================================================================== *)

(* the (signature input, presented signature) pairs verify_loop examines: the
   same control flow as Verify.verify_loop (same fuel, same stops: read error,
   unknown major version, undecodable block, first bad signature, chunk-state
   error, final packet) *)
Fixpoint checked_att_sigs (fuel : nat) (v : version) (pk hh : bytes) (seqno : N) (input : bytes)
  : list (bytes * bytes) :=
  match fuel with
  | O => []
  | S fl =>
    match read_packet input with
    | Err _ => []
    | Ok (m, rest) =>
      if negb ((vmaj v =? 1)%Z || (vmaj v =? 2)%Z) then []
      else
      match of_dres (view_sig_block v m) with
      | Err _ => []
      | Ok (sig, chunk, final) =>
        match attached_sig_input c v hh chunk seqno final with
        | None => []
        | Some inp =>
          (inp, sig) ::
          (if negb (ed_verify c pk inp sig) then []
           else
             match check_chunk_state v (length chunk) seqno final with
             | Err _ => []
             | Ok _ => if final then [] else checked_att_sigs fl v pk hh (seqno + 1) rest
             end)
        end
      end
    end
  end.

(* the strings the same loop feeds to SHA-512: per examined packet
   hh ++ be64 seqno ++ [final byte for V2] ++ chunk *)
Fixpoint att_pkt_hashed (fuel : nat) (v : version) (pk hh : bytes) (seqno : N) (input : bytes)
  : list bytes :=
  match fuel with
  | O => []
  | S fl =>
    match read_packet input with
    | Err _ => []
    | Ok (m, rest) =>
      if negb ((vmaj v =? 1)%Z || (vmaj v =? 2)%Z) then []
      else
      match of_dres (view_sig_block v m) with
      | Err _ => []
      | Ok (sig, chunk, final) =>
        match attached_sig_input c v hh chunk seqno final with
        | None => []
        | Some inp =>
          (hh ++ att_body v seqno final chunk) ::
          (if negb (ed_verify c pk inp sig) then []
           else
             match check_chunk_state v (length chunk) seqno final with
             | Err _ => []
             | Ok _ => if final then [] else att_pkt_hashed fl v pk hh (seqno + 1) rest
             end)
        end
      end
    end
  end.

(* every byte string the receiver feeds to SHA-512 on this attached input: the
   header bytes, then the per-packet strings (the verifying key is the key id
   of the header: lookup_signer returns the key id itself) *)
Definition att_recv_hashed (vd : validator) (input : bytes) : list bytes :=
  match sig_receiver_state vd mt_attached input with
  | Some (hb, v, kid, rest) => hb :: att_pkt_hashed (S (length rest)) v kid (sha512 c hb) 0 rest
  | None => []
  end.

(* detached: the header bytes and  hh ++ msg *)
Definition det_recv_hashed (vd : validator) (msg sigfile : bytes) : list bytes :=
  match sig_receiver_state vd mt_detached sigfile with
  | Some (hb, v, kid, rest) => [hb; sha512 c hb ++ msg]
  | None => []
  end.

(* every byte string the honest signer fed to SHA-512 when producing the
   signature events of L: per attached message the header bytes and one string
   per packet, per detached signature the header bytes and hh ++ msg.  A
   signcryption event contributes nothing: the reduction never needs a string
   hashed there, so the collision disjunct stays as small as possible. *)
Fixpoint attached_hashed (v : version) (hh : bytes) (seqno : N) (ps : list (bytes * bool)) : list bytes :=
  match ps with
  | [] => []
  | (chunk, final) :: t =>
    if ((vmaj v =? 1)%Z || (vmaj v =? 2)%Z)%bool
    then (hh ++ att_body v seqno final chunk) :: attached_hashed v hh (seqno + 1) t
    else attached_hashed v hh (seqno + 1) t
  end.

Definition ev_hashed (pk : bytes) (e : sign_event) : list bytes :=
  match e with
  | EvAttached v nonce ps => ev_header pk e :: attached_hashed v (sha512 c (ev_header pk e)) 0 ps
  | EvDetached v nonce msg => [ev_header pk e; sha512 c (ev_header pk e) ++ msg]
  | EvSigncrypt hh nonce final chunk => []
  end.

Definition hist_hashed (pk : bytes) (L : list sign_event) : list bytes := flat_map (ev_hashed pk) L.

(* ================================================================== *)
(* (2) located breaks                                                  *)
(* ================================================================== *)

(* the header names pk as the signer (third component of the receiver state), a
   forged pair is one verify_loop checked under pk on this input, a collision
   is between a receiver-hashed and a signer-hashed string *)
Inductive AttBreak (vd : validator) (pk : bytes) (L : list sign_event) (input : bytes) : Prop :=
| AttForgery (hb : bytes) (v : version) (rest m s : bytes) :
    sig_receiver_state vd mt_attached input = Some (hb, v, pk, rest) ->
    In (m, s) (checked_att_sigs (S (length rest)) v pk (sha512 c hb) 0 rest) ->
    ed_verify c pk m s = true -> ~ In m (signed_inputs c pk L) -> AttBreak vd pk L input
| AttCollision (x y : bytes) :
    In x (att_recv_hashed vd input) -> In y (hist_hashed pk L) ->
    x <> y -> sha512 c x = sha512 c y -> AttBreak vd pk L input.

Inductive DetBreak (vd : validator) (pk : bytes) (L : list sign_event) (msg sigfile : bytes) : Prop :=
| DetForgery (hb : bytes) (v : version) (rest : bytes) (sigv : mval) (r sig : bytes) :
    sig_receiver_state vd mt_detached sigfile = Some (hb, v, pk, rest) ->
    mp_read rest = POk sigv r -> as_bytes sigv = DOk sig ->
    ed_verify c pk (detached_sig_input c (sha512 c hb) msg) sig = true ->
    ~ In (detached_sig_input c (sha512 c hb) msg) (signed_inputs c pk L) ->
    DetBreak vd pk L msg sigfile
| DetCollision (x y : bytes) :
    In x (det_recv_hashed vd msg sigfile) -> In y (hist_hashed pk L) ->
    x <> y -> sha512 c x = sha512 c y -> DetBreak vd pk L msg sigfile.

(* sanity: a located break is in particular a break in the old sense *)
Lemma located_implies_old (vd : validator) (pk : bytes) (L : list sign_event) (input : bytes) :
  AttBreak vd pk L input -> CryptoBreak c pk L.
Proof.
  intros [hb v rest m s _ _ Hv Hn|x y _ _ Hne He].
  - exact (SigForgery c pk L m s Hv Hn).
  - exact (ShaCollision c pk L x y Hne He).
Qed.

Lemma located_implies_old_det (vd : validator) (pk : bytes) (L : list sign_event) (msg sigfile : bytes) :
  DetBreak vd pk L msg sigfile -> CryptoBreak c pk L.
Proof.
  intros [hb v rest sigv r sig _ _ _ Hv Hn|x y _ _ Hne He].
  - exact (SigForgery c pk L _ sig Hv Hn).
  - exact (ShaCollision c pk L x y Hne He).
Qed.

(* ================================================================== *)
(* (3) what the honest signer hashed                                   *)
(* ================================================================== *)

Lemma attached_hashed_in (v : version) (hh : bytes) : forall ps n k ch f,
  (vmaj v = 1 \/ vmaj v = 2)%Z -> nth_error ps k = Some (ch, f) ->
  In (hh ++ att_body v (n + N.of_nat k) f ch) (attached_hashed v hh n ps).
Proof.
  intros ps n k ch f Hmaj. revert n k.
  assert (Eb : ((vmaj v =? 1)%Z || (vmaj v =? 2)%Z)%bool = true).
  { destruct Hmaj as [E|E]; rewrite E; reflexivity. }
  induction ps as [|[ch0 f0] t IH]; intros n k Hn; [destruct k; discriminate|].
  cbn [attached_hashed]. rewrite Eb. destruct k as [|k]; cbn [nth_error] in Hn.
  - injection Hn as -> ->. left. rewrite N.add_0_r. reflexivity.
  - right. replace (n + N.of_nat (S k)) with (n + 1 + N.of_nat k) by lia. apply IH. exact Hn.
Qed.

Lemma hist_attached_header (pk : bytes) (L : list sign_event) (v : version) (nonce : bytes)
      (ps : list (bytes * bool)) :
  In (EvAttached v nonce ps) L -> In (sig_header_bytes v mt_attached pk nonce) (hist_hashed pk L).
Proof.
  intro H. unfold hist_hashed. apply in_flat_map. exists (EvAttached v nonce ps).
  split; [exact H|]. cbn [ev_hashed ev_header]. left. reflexivity.
Qed.

Lemma hist_attached_packet (pk : bytes) (L : list sign_event) (v : version) (nonce : bytes)
      (ps : list (bytes * bool)) (k : nat) (ch : bytes) (f : bool) :
  In (EvAttached v nonce ps) L -> (vmaj v = 1 \/ vmaj v = 2)%Z -> nth_error ps k = Some (ch, f) ->
  In (sha512 c (sig_header_bytes v mt_attached pk nonce) ++ att_body v (N.of_nat k) f ch)
     (hist_hashed pk L).
Proof.
  intros H Hmaj Hn. unfold hist_hashed. apply in_flat_map. exists (EvAttached v nonce ps).
  split; [exact H|]. cbn [ev_hashed ev_header]. right.
  pose proof (attached_hashed_in v (sha512 c (sig_header_bytes v mt_attached pk nonce)) ps 0 k ch f Hmaj Hn) as X.
  rewrite N.add_0_l in X. exact X.
Qed.

Lemma hist_detached_header (pk : bytes) (L : list sign_event) (v : version) (nonce msg : bytes) :
  In (EvDetached v nonce msg) L -> In (sig_header_bytes v mt_detached pk nonce) (hist_hashed pk L).
Proof.
  intro H. unfold hist_hashed. apply in_flat_map. exists (EvDetached v nonce msg).
  split; [exact H|]. cbn [ev_hashed ev_header]. left. reflexivity.
Qed.

Lemma hist_detached_msg (pk : bytes) (L : list sign_event) (v : version) (nonce msg : bytes) :
  In (EvDetached v nonce msg) L ->
  In (sha512 c (sig_header_bytes v mt_detached pk nonce) ++ msg) (hist_hashed pk L).
Proof.
  intro H. unfold hist_hashed. apply in_flat_map. exists (EvDetached v nonce msg).
  split; [exact H|]. cbn [ev_hashed ev_header]. right. left. reflexivity.
Qed.

(* ================================================================== *)
(* (4) the reduction, relative to the lists SG (checked pairs) and RH  *)
(*     (receiver-hashed strings)                                       *)
(* ================================================================== *)
Section Red.
Variable pk : bytes.
Variable L : list sign_event.

Inductive LocBreak (SG : list (bytes * bytes)) (RH : list bytes) : Prop :=
| LForgery (m s : bytes) :
    In (m, s) SG -> ed_verify c pk m s = true -> ~ In m (signed_inputs c pk L) -> LocBreak SG RH
| LCollision (x y : bytes) :
    In x RH -> In y (hist_hashed pk L) -> x <> y -> sha512 c x = sha512 c y -> LocBreak SG RH.

Lemma sha_inj_loc (SG : list (bytes * bytes)) (RH : list bytes) (x y : bytes) :
  In x RH -> In y (hist_hashed pk L) -> sha512 c x = sha512 c y -> x = y \/ LocBreak SG RH.
Proof.
  intros Hx Hy H. destruct (bytes_eq_dec x y) as [E|Hne]; [left; exact E|].
  right. exact (LCollision SG RH x y Hx Hy Hne H).
Qed.

(* packet [i] carried (chunk, final) and a signature that verified under pk;
   the pair is in SG and the string hashed for it is in RH *)
Definition verifiedL (SG : list (bytes * bytes)) (RH : list bytes)
           (v : version) (hh : bytes) (i : N) (ch : bytes) (f : bool) : Prop :=
  exists inp sig,
    attached_sig_input c v hh ch i f = Some inp /\ ed_verify c pk inp sig = true /\
    i < 18446744073709551616 /\ ((vmaj v = 1)%Z -> f = is_nil ch) /\
    In (inp, sig) SG /\ In (hh ++ att_body v i f ch) RH.

Lemma packet_reduction_loc (SG : list (bytes * bytes)) (RH : list bytes)
      (v : version) (hb : bytes) (i : N) (ch : bytes) (f : bool) :
  Forall event_ok L -> hdr_version pk hb v -> In hb RH ->
  verifiedL SG RH v (sha512 c hb) i ch f -> pkt_auth pk L v hb i ch f \/ LocBreak SG RH.
Proof.
  intros Hok Hdec Hhb (inp & sig & Hi & Hv & Hlt & Hv1 & HinS & HinH).
  destruct (in_dec bytes_eq_dec inp (signed_inputs c pk L)) as [Hin|Hnin];
    [|right; exact (LForgery SG RH inp sig HinS Hv Hnin)].
  apply attached_input_eq in Hi as [-> Hmaj].
  apply (in_signed_attached c Hsha) in Hin; [|apply Hsha].
  destruct Hin as (v' & nonce' & ps' & k & ch' & f' & HinL & Hnth & Hd).
  pose proof (proj1 (Forall_forall _ _) Hok _ HinL) as Hev. cbn [event_ok] in Hev.
  destruct Hev as (Hmaj' & Hmin' & Hnl & Hpl & Hfl & Hv1').
  pose proof (hist_attached_header pk L v' nonce' ps' HinL) as Hy1.
  pose proof (hist_attached_packet pk L v' nonce' ps' k ch' f' HinL Hmaj' Hnth) as Hy2.
  destruct (sha_inj_loc SG RH _ _ HinH Hy2 Hd) as [Hd'|B]; [|right; exact B].
  apply app_len_inj in Hd' as [Hh Hb]; [|rewrite !Hsha; reflexivity].
  destruct (sha_inj_loc SG RH _ _ Hhb Hy1 Hh) as [Hh'|B]; [|right; exact B].
  assert (Ev : v' = v) by (apply (Hdec v' nonce'); assumption). subst v'.
  unfold att_body in Hb. apply app_len_inj in Hb as [Hbe Hb]; [|rewrite !be64_length; reflexivity].
  assert (Hk : (k < length ps')%nat) by (apply nth_error_Some; congruence).
  assert (Ei : i = N.of_nat k) by (apply be64_inj; [exact Hlt|clear - Hk Hpl; lia|exact Hbe]).
  subst i. left. exists nonce', ps'. split; [exact HinL|]. split; [symmetry; exact Hh'|].
  rewrite Nat2N.id, Hnth.
  destruct (Z.eqb_spec (vmaj v) 1) as [E|E].
  - cbn [app] in Hb. subst ch'. rewrite (Hv1 E).
    specialize (Hv1' E). rewrite Forall_forall in Hv1'.
    apply nth_error_In in Hnth. apply Hv1' in Hnth. cbn [fst snd] in Hnth. rewrite Hnth. reflexivity.
  - unfold final_byte in Hb. cbn [app] in Hb. injection Hb as Hf ->.
    destruct f, f'; try discriminate; reflexivity.
Qed.

(* ---------- the verifier's loop ---------- *)
Fixpoint relL (SG : list (bytes * bytes)) (RH : list bytes)
         (v : version) (hh : bytes) (n : N) (rs : list (bytes * bool)) : Prop :=
  match rs with
  | [] => True
  | (ch, f) :: t => verifiedL SG RH v hh n ch f /\ relL SG RH v hh (n + 1) t
  end.

Lemma relL_incl (SG SG' : list (bytes * bytes)) (RH RH' : list bytes) (v : version) (hh : bytes) :
  incl SG SG' -> incl RH RH' ->
  forall rs n, relL SG RH v hh n rs -> relL SG' RH' v hh n rs.
Proof.
  intros HS HR. induction rs as [|[ch f] t IH]; intros n H; cbn [relL] in *; [exact I|].
  destruct H as [(inp & sig & H1 & H2 & H3 & H4 & H5 & H6) Ht]. split; [|exact (IH _ Ht)].
  exists inp, sig. repeat split; try assumption; [exact (HS _ H5)|exact (HR _ H6)].
Qed.

Lemma verify_loop_invL (v : version) (hh : bytes) : forall fuel n input acc,
  N.of_nat (length input) + n < 18446744073709551616 ->
  exists rs,
    so_chunks (verify_loop c fuel v pk hh n input acc) = rev acc ++ map fst rs /\
    relL (checked_att_sigs fuel v pk hh n input) (att_pkt_hashed fuel v pk hh n input) v hh n rs /\
    (so_end (verify_loop c fuel v pk hh n input acc) = EOF -> ends_final rs).
Proof.
  assert (Stop : forall (acc : list bytes) (e : err) n SG RH, e <> EOF ->
            exists rs, so_chunks (mkOut (rev_append acc []) e) = rev acc ++ map fst rs /\
                       relL SG RH v hh n rs /\ (so_end (mkOut (rev_append acc []) e) = EOF -> ends_final rs)).
  { intros acc e n SG RH He. exists []. cbn [so_chunks so_end map relL].
    rewrite rev_append_rev, !app_nil_r. split; [reflexivity|]. split; [exact I|].
    intro E. contradiction. }
  induction fuel as [|fuel IH]; intros n input acc Hlen; cbn [verify_loop checked_att_sigs att_pkt_hashed].
  - apply Stop. discriminate.
  - destruct (read_packet input) as [[m rest]|e] eqn:Er.
    2:{ apply Stop. intros ->. exact (read_packet_not_eof input Er). }
    pose proof (read_packet_suffix input m rest Er) as Hrest.
    destruct (negb ((vmaj v =? 1)%Z || (vmaj v =? 2)%Z)) eqn:Evm; [apply Stop; discriminate|].
    destruct (of_dres (view_sig_block v m)) as [[[sig ch] f]|e] eqn:Ev.
    2:{ apply Stop. intros ->. exact (of_dres_not_eof _ Ev). }
    destruct (attached_sig_input c v hh ch n f) as [inp|] eqn:Ei; [|apply Stop; discriminate].
    destruct (ed_verify c pk inp sig) eqn:Es; cbn [negb]; [|apply Stop; discriminate].
    destruct (check_chunk_state v (length ch) n f) as [u|e] eqn:Ec.
    2:{ apply Stop. intros ->. exact (check_chunk_state_not_eof _ _ _ _ Ec). }
    assert (Hver : forall SG RH, verifiedL ((inp, sig) :: SG) ((hh ++ att_body v n f ch) :: RH) v hh n ch f).
    { intros SG RH. exists inp, sig. split; [exact Ei|]. split; [exact Es|]. split; [clear - Hlen; lia|].
      split; [|split; left; reflexivity].
      intro E1. destruct (view_sig_block v m) as [[[s k] b]| |] eqn:Evb; cbn [of_dres] in Ev; try discriminate.
      injection Ev as -> -> ->. exact (view_sig_block_v1 v m sig ch f Evb E1). }
    destruct f.
    + exists [(ch, true)]. cbn [so_chunks so_end map fst relL].
      rewrite rev_append_rev, app_nil_r. cbn [rev]. split; [reflexivity|].
      split; [split; [apply Hver|exact I]|]. intros _. exists [], ch. reflexivity.
    + destruct (IH (n + 1) rest (ch :: acc)) as (rs & Hc & Hr & He); [clear - Hlen Hrest; lia|].
      exists ((ch, false) :: rs). rewrite Hc. cbn [rev map fst relL]. rewrite <- app_assoc.
      split; [reflexivity|]. split.
      * split; [apply Hver|].
        refine (relL_incl _ _ _ _ v hh _ _ rs (n + 1) Hr); apply incl_tl; apply incl_refl.
      * intro E. destruct (He E) as (init & ch' & ->). exists ((ch, false) :: init), ch'. reflexivity.
Qed.

Lemma rel_auth_loc (SG : list (bytes * bytes)) (RH : list bytes) (v : version) (hb : bytes) :
  Forall event_ok L -> hdr_version pk hb v -> In hb RH ->
  forall rs n, relL SG RH v (sha512 c hb) n rs -> auth_from pk L v hb n rs \/ LocBreak SG RH.
Proof.
  intros Hok Hdec Hhb. induction rs as [|[ch f] t IH]; intros n H; cbn [relL auth_from] in *.
  - left. exact I.
  - destruct H as [H1 H2].
    destruct (packet_reduction_loc SG RH v hb n ch f Hok Hdec Hhb H1) as [A|B]; [|right; exact B].
    destruct (IH (n + 1) H2) as [A'|B]; [|right; exact B].
    left. split; assumption.
Qed.

End Red.

(* ================================================================== *)
(* (5) the theorems                                                    *)
(* ================================================================== *)

(* (TARGET) C06, located: whatever [input] is, if the attached-signature
   verifier returns signer key [pk] and releases chunks [so_chunks out], then
   EITHER the released chunks are the first chunks of one attached message of
   the key's honest history (all of them iff clean end), OR one of the pairs
   the verifier checked on this input is a forgery, OR one of the strings the
   verifier hashed on this input collides with a different string the honest
   signer hashed. *)
Theorem attached_authentic_located (vd : validator) (kr : sigring) (input : bytes) (pk : bytes)
        (out : stream_out) (L : list sign_event) :
  Forall event_ok L -> headers_distinct pk L ->
  N.of_nat (length input) < 18446744073709551616 -> len pk < 4294967296 ->
  verify_stream c vd kr input = Ok (pk, out) ->
  (so_chunks out = [] /\ so_end out <> EOF) \/
  (exists v nonce ps,
      In (EvAttached v nonce ps) L /\
      list_prefix (so_chunks out) (map fst ps) /\
      (so_end out = EOF -> so_chunks out = map fst ps))
  \/ AttBreak vd pk L input.
Proof.
  intros Hok Hd Hlen Hpk Hv.
  unfold verify_stream, verify_read_header in Hv.
  destruct (read_header_bytes input) as [[hb rest]|e] eqn:Erh; cbv beta iota delta [bind fst snd] in Hv; [|discriminate].
  destruct (decode_header view_sig_header hb) as [h|e] eqn:Edh; cbv beta iota delta [bind] in Hv; [|discriminate].
  destruct (validate_sig_header vd mt_attached h) as [u|e] eqn:Evh; cbv beta iota delta [bind] in Hv; [|discriminate].
  destruct (lookup_signer kr (h_a h)) as [pk'|] eqn:Elk; [|discriminate].
  remember (verify_loop c _ _ _ _ _ _ _) as lp eqn:Elp in Hv.
  injection Hv as -> <-. subst lp.
  pose proof (lookup_signer_some _ _ _ Elk) as Epk.
  assert (Hst : sig_receiver_state vd mt_attached input = Some (hb, h_version h, pk, rest)).
  { unfold sig_receiver_state. rewrite Erh, Edh, Evh, Epk. reflexivity. }
  pose proof (read_header_bytes_suffix _ _ _ Erh) as Hrest.
  assert (Hdec : hdr_version pk hb (h_version h)).
  { intros v' nonce' Hmaj Hmin Hn ->.
    apply decode_sig_header in Edh; try assumption; [|left; reflexivity].
    rewrite Edh. reflexivity. }
  set (SG := checked_att_sigs (S (length rest)) (h_version h) pk (sha512 c hb) 0 rest).
  set (PH := att_pkt_hashed (S (length rest)) (h_version h) pk (sha512 c hb) 0 rest).
  assert (Brk : LocBreak pk L SG (hb :: PH) -> AttBreak vd pk L input).
  { intros [m s Hin Hver Hnin|x y Hx Hy Hne He].
    - exact (AttForgery vd pk L input hb (h_version h) rest m s Hst Hin Hver Hnin).
    - apply (AttCollision vd pk L input x y); try assumption.
      unfold att_recv_hashed. rewrite Hst. exact Hx. }
  destruct (verify_loop_invL pk (h_version h) (sha512 c hb) (S (length rest)) 0 rest [])
    as (rs & Hc & Hrel & Heof); [clear - Hlen Hrest; lia|].
  fold SG PH in Hrel.
  assert (Hrel' : relL pk SG (hb :: PH) (h_version h) (sha512 c hb) 0 rs).
  { refine (relL_incl pk _ _ _ _ _ _ _ _ rs 0 Hrel); [apply incl_refl|apply incl_tl; apply incl_refl]. }
  destruct (rel_auth_loc pk L SG (hb :: PH) (h_version h) hb Hok Hdec (or_introl eq_refl) rs 0 Hrel')
    as [Ha|B]; [|right; right; exact (Brk B)].
  destruct rs as [|r0 rs].
  - left. split; [rewrite Hc; reflexivity|].
    intro E. destruct (Heof E) as (init & ch & E'). destruct init; discriminate.
  - right. left.
    destruct (assemble c Hsha pk L _ _ _ _ Hd Hok Ha) as (nonce & ps & t & Hin & Et & Hfin).
    exists (h_version h), nonce, ps. split; [exact Hin|]. rewrite Hc. cbn [rev app]. split.
    + rewrite Et, map_app. apply list_prefix_app.
    + intro E. rewrite (Hfin (Heof E)) in Et. rewrite app_nil_r in Et. rewrite Et. reflexivity.
Qed.

(* (TARGET) C06, located, all-at-once form *)
Theorem attached_authentic_all_located (vd : validator) (kr : sigring) (input : bytes) (pk msg : bytes)
        (L : list sign_event) :
  Forall event_ok L -> headers_distinct pk L ->
  N.of_nat (length input) < 18446744073709551616 -> len pk < 4294967296 ->
  verify_all c vd kr input = Ok (pk, msg) ->
  (exists v nonce ps, In (EvAttached v nonce ps) L /\ msg = concat (map fst ps))
  \/ AttBreak vd pk L input.
Proof.
  intros Hok Hd Hlen Hpk Hv. unfold verify_all in Hv.
  destruct (verify_stream c vd kr input) as [[pk' out]|e] eqn:Es; cbv beta iota delta [bind] in Hv; [|discriminate].
  destruct (so_end out) eqn:Ee; try discriminate.
  injection Hv as -> <-.
  destruct (attached_authentic_located vd kr input pk out L Hok Hd Hlen Hpk Es)
    as [[_ Hne]|[(v & nonce & ps & Hin & _ & Hall)|B]].
  - contradiction.
  - left. exists v, nonce, ps. split; [exact Hin|]. rewrite (Hall Ee). reflexivity.
  - right. exact B.
Qed.

(* (TARGET) C07, located: detached verification succeeds only for a (message,
   header) pair the key signed in detached mode under exactly that header, or
   the one pair the verifier checked is a forgery, or the header bytes / the
   hashed message string collide with a different string the signer hashed *)
Theorem detached_authentic_located (vd : validator) (kr : sigring) (msg sigfile : bytes) (pk : bytes)
        (L : list sign_event) :
  Forall event_ok L -> len pk < 4294967296 ->
  verify_detached c vd kr msg sigfile = Ok pk ->
  (exists v nonce hdr rest,
      In (EvDetached v nonce msg) L /\
      read_header_bytes sigfile = Ok (hdr, rest) /\ hdr = sig_header_bytes v mt_detached pk nonce)
  \/ DetBreak vd pk L msg sigfile.
Proof.
  intros Hok Hpk Hv.
  unfold verify_detached, verify_read_header in Hv.
  destruct (read_header_bytes sigfile) as [[hb rest]|e] eqn:Erh; cbv beta iota delta [bind fst snd] in Hv; [|discriminate].
  destruct (decode_header view_sig_header hb) as [h|e] eqn:Edh; cbv beta iota delta [bind] in Hv; [|discriminate].
  destruct (validate_sig_header vd mt_detached h) as [u|e] eqn:Evh; cbv beta iota delta [bind] in Hv; [|discriminate].
  destruct (mp_read rest) as [m r| | |] eqn:Emr; try discriminate.
  destruct (as_bytes m) as [sig| |] eqn:Eab; cbv beta iota delta [bind of_dres] in Hv; try discriminate.
  destruct (lookup_signer kr (h_a h)) as [pk'|] eqn:Elk; [|discriminate].
  destruct (ed_verify c pk' (detached_sig_input c (sha512 c hb) msg) sig) eqn:Es; [|discriminate].
  injection Hv as ->.
  pose proof (lookup_signer_some _ _ _ Elk) as Epk.
  assert (Hst : sig_receiver_state vd mt_detached sigfile = Some (hb, h_version h, pk, rest)).
  { unfold sig_receiver_state. rewrite Erh, Edh, Evh, Epk. reflexivity. }
  assert (Hrh : det_recv_hashed vd msg sigfile = [hb; sha512 c hb ++ msg]).
  { unfold det_recv_hashed. rewrite Hst. reflexivity. }
  destruct (in_dec bytes_eq_dec (detached_sig_input c (sha512 c hb) msg) (signed_inputs c pk L))
    as [Hin|Hnin];
    [|right; exact (DetForgery vd pk L msg sigfile hb (h_version h) rest m r sig Hst Emr Eab Es Hnin)].
  unfold detached_sig_input, detached_sig_input_from_hash in Hin.
  apply (in_signed_detached c Hsha) in Hin; [|apply Hsha].
  destruct Hin as (v' & nonce' & msg' & HinL & Hd).
  pose proof (hist_detached_header pk L v' nonce' msg' HinL) as Hy1.
  pose proof (hist_detached_msg pk L v' nonce' msg' HinL) as Hy2.
  destruct (bytes_eq_dec (sha512 c hb ++ msg) (sha512 c (sig_header_bytes v' mt_detached pk nonce') ++ msg'))
    as [Hd'|Hne].
  2:{ right. apply (DetCollision vd pk L msg sigfile _ _) with (3 := Hne) (4 := Hd); [|exact Hy2].
      rewrite Hrh. right. left. reflexivity. }
  apply app_len_inj in Hd' as [Hh ->]; [|rewrite !Hsha; reflexivity].
  destruct (bytes_eq_dec hb (sig_header_bytes v' mt_detached pk nonce')) as [Hh'|Hne].
  2:{ right. apply (DetCollision vd pk L _ sigfile _ _) with (3 := Hne) (4 := Hh); [|exact Hy1].
      rewrite Hrh. left. reflexivity. }
  left. exists v', nonce', hb, rest. auto.
Qed.

End Located.

(* ================================================================== *)
(* (6) non-vacuity of the lists on the toy instance                    *)
(* ================================================================== *)
From SP Require Import ToyCrypto.

(* a genuine V1 attached message with one 2-byte chunk has two packets (the
   chunk and the empty final packet): the verifier checks 2 pairs and hashes 3
   strings (header + 2 packets), and these are exactly the 2 signature inputs
   the signer signed and the 3 strings the signer hashed *)
Example located_lists_genuine :
  let sk := repeat x07 64 in
  let pk := ed_pub toy_crypto sk in
  let nonce := repeat x01 16 in
  let Lh := [EvAttached v1 nonce [([x68; x69], false); ([], true)]] in
  match sign_attached_stream toy_crypto v1 sk [[x68; x69]] nonce with
  | Ok (out, _) =>
    match sig_receiver_state AnyKnownMajor mt_attached out with
    | Some (hb, v, kid, rest) =>
      let sg := checked_att_sigs toy_crypto (S (length rest)) v pk (sha512 toy_crypto hb) 0 rest in
      let rh := att_recv_hashed toy_crypto AnyKnownMajor out in
      Some (length sg, length rh,
            bytes_eqb kid pk,
            if list_eq_dec bytes_eq_dec (map fst sg) (signed_inputs toy_crypto pk Lh) then true else false,
            if list_eq_dec bytes_eq_dec rh (hist_hashed toy_crypto pk Lh) then true else false)
    | None => None
    end
  | Err _ => None
  end = Some (2%nat, 3%nat, true, true, true).
Proof. vm_compute. reflexivity. Qed.

Example located_lists_genuine_detached :
  let sk := repeat x07 64 in
  let pk := ed_pub toy_crypto sk in
  let nonce := repeat x02 16 in
  let Lh := [EvDetached v2 nonce [x68; x69]] in
  match sign_detached toy_crypto v2 sk [x68; x69] nonce with
  | Ok (sigfile, _) =>
    let rh := det_recv_hashed toy_crypto AnyKnownMajor [x68; x69] sigfile in
    Some (length rh,
          if list_eq_dec bytes_eq_dec rh (hist_hashed toy_crypto pk Lh) then true else false)
  | Err _ => None
  end = Some (2%nat, true).
Proof. vm_compute. reflexivity. Qed.
