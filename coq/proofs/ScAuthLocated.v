(* ScAuthLocated.v — signcryption authenticity (C04) with LOCATED breaks.
   ScAuthProofs.v reduces "released bytes are authentic" to `ScBreak`, whose
   `ScShaCollision x y` constructor accepts ANY two colliding strings; for a real
   64-byte hash such a pair exists by pigeonhole, so that disjunct carries no
   information.  Here every collision witness is pinned down:
     x is one of the finitely many strings the RECEIVER fed to SHA-512 while
       processing THIS input (`sc_recv_hashed`: the header bytes and the plaintext
       chunk of each packet whose signature input it computed), and
     y is one of the finitely many strings the HONEST SIGNER fed to SHA-512 while
       producing its signcrypted messages M (`sc_hist_hashed`: each header and each
       plaintext chunk).
   Both lists are computed by fixed explicit functions.  The signature-forgery
   constructor is unchanged (it was already located through `sc_receiver_state` /
   `checked_sigs`).  `located_implies_old` shows the new break is at least as
   strong as the old one, so the (TARGET) theorems below imply the old ones. *)
From Coq Require Import List NArith ZArith Bool Lia ZifyN ZifyNat ZifyBool.
From Coq.Strings Require Import Byte.
From SP Require Import Bytes Params Msgpack Crypto Errors Nonce Packets Chunker Rand Verify Encrypt Decrypt Signcrypt
     MsgpackProofs ChunkerProofs SignProofs SignAuthProofs ScAuthProofs.
Import ListNotations.
Open Scope N_scope.

Section Loc.
Variable c : crypto.
Hypothesis Hsha : forall x, length (sha512 c x) = 64%nat.

(* the plaintext chunks the open loop hashes (inside signcrypt_sig_input) on
   [input]: an exact mirror of sc_open_loop.  A chunk is hashed as soon as the
   secretbox opened to >= 64 bytes and a signer is named; the loop then stops on a
   bad signature, a bad chunk state, or the final flag.  An anonymous sender
   (signer = None) makes the loop hash nothing. *)
Fixpoint sc_loop_hashed (fuel : nat) (payload_key : bytes) (signer : option bytes) (hh : bytes) (n : N)
         (input : bytes) : list bytes :=
  match fuel with
  | O => []
  | S f =>
    match read_packet input with
    | Err _ => []
    | Ok (m, rest) =>
      match of_dres (view_signcrypt_block m) with
      | Err _ => []
      | Ok (ct, final) =>
        if negb (block_number_ok n) then []
        else
        let nonce := nonce_chunk_signcryption hh final n in
        match sb_open c payload_key nonce ct with
        | None => []
        | Some att =>
          if Nat.ltb (length att) 64 then []
          else
            let sig := firstn 64 att in
            let chunk := skipn 64 att in
            match signer with
            | None => []
            | Some pk =>
              chunk ::
              (if negb (ed_verify c pk (signcrypt_sig_input c hh nonce final chunk) sig) then []
               else
                 match check_chunk_state v2 (length chunk) n final with
                 | Err _ => []
                 | Ok _ => if final then [] else sc_loop_hashed f payload_key signer hh (n + 1) rest
                 end)
            end
        end
      end
    end
  end.

(* every byte string the receiver feeds to SHA-512 while processing this input:
   the header bytes (hashed before the header is even decoded) and, per examined
   packet, the plaintext chunk *)
Definition sc_recv_hashed (kr : keyring) (signers : sigring) (rv : resolver) (input : bytes) : list bytes :=
  match read_header_bytes input with
  | Err _ => []
  | Ok (hb, rest) =>
    hb ::
    match decode_header view_enc_header hb with
    | Err _ => []
    | Ok h =>
      match process_sc_header c kr signers rv h with
      | Err _ => []
      | Ok (pkey, signer) => sc_loop_hashed (S (length rest)) pkey signer (sha512 c hb) 0 rest
      end
    end
  end.

(* every byte string the honest signer fed to SHA-512 when producing its
   signcrypted messages: per message the header bytes and each plaintext chunk.
   (The attached/detached events [others] of ScBreak contribute nothing: their
   signature inputs are separated from signcryption inputs by length alone, so no
   collision involving them is ever needed; leaving them out makes the located
   break strictly smaller.) *)
Definition sc_hist_hashed (M : list sc_msg) : list bytes :=
  flat_map (fun m => sm_header m :: map fst (sm_packets m)) M.

Inductive ScBreakL (kr : keyring) (signers : sigring) (rv : resolver) (pk : bytes)
          (M : list sc_msg) (others : list sign_event) (input : bytes) : Prop :=
| ScSigForgeryL (hh pkey rest msg sig : bytes) :
    sc_receiver_state c kr signers rv input = Some (hh, pkey, rest) ->
    In (msg, sig) (checked_sigs c (S (length rest)) pkey hh 0 rest) ->
    ed_verify c pk msg sig = true ->
    ~ In msg (sc_signed c pk M others) ->
    ScBreakL kr signers rv pk M others input
| ScShaCollisionL (x y : bytes) :
    In x (sc_recv_hashed kr signers rv input) ->
    In y (sc_hist_hashed M) ->
    x <> y -> sha512 c x = sha512 c y ->
    ScBreakL kr signers rv pk M others input.

(* (TARGET) the located break implies the old, unrestricted one *)
Theorem located_implies_old (kr : keyring) (signers : sigring) (rv : resolver) (pk : bytes)
        (M : list sc_msg) (others : list sign_event) (input : bytes) :
  ScBreakL kr signers rv pk M others input -> ScBreak c kr signers rv pk M others input.
Proof.
  intros [hh pkey rest msg sig Hst Hcs Hv Hnin|x y _ _ Hne He].
  - exact (ScSigForgery c kr signers rv pk M others input hh pkey rest msg sig Hst Hcs Hv Hnin).
  - exact (ScShaCollision c kr signers rv pk M others input x y Hne He).
Qed.

(* ---------- history side ---------- *)
Lemma hist_header_in (M : list sc_msg) (m : sc_msg) :
  In m M -> In (sm_header m) (sc_hist_hashed M).
Proof.
  intro H. unfold sc_hist_hashed. apply in_flat_map. exists m. split; [exact H|left; reflexivity].
Qed.

Lemma hist_chunk_in (M : list sc_msg) (m : sc_msg) (k : nat) (ch : bytes) (f : bool) :
  In m M -> nth_error (sm_packets m) k = Some (ch, f) -> In ch (sc_hist_hashed M).
Proof.
  intros H Hn. unfold sc_hist_hashed. apply in_flat_map. exists m. split; [exact H|]. right.
  apply nth_error_In in Hn. exact (in_map fst _ _ Hn).
Qed.

(* ---------- receiver side: released chunks were hashed ---------- *)
Lemma sc_loop_chunks_hashed (pk pkey hh : bytes) : forall fuel n inp acc,
  exists l,
    so_chunks (sc_open_loop c fuel pkey (Some pk) hh n inp acc) = rev acc ++ l /\
    incl l (sc_loop_hashed fuel pkey (Some pk) hh n inp).
Proof.
  assert (Stop : forall (acc : list bytes) (e : err) (H : list bytes),
            exists l, so_chunks (mkOut (rev_append acc []) e) = rev acc ++ l /\ incl l H).
  { intros acc e H. exists []. cbn [so_chunks]. rewrite rev_append_rev, !app_nil_r.
    split; [reflexivity|]. intros x []. }
  induction fuel as [|fuel IH]; intros n inp acc; cbn [sc_open_loop sc_loop_hashed].
  - apply Stop.
  - destruct (read_packet inp) as [[m rest]|e]; [|apply Stop].
    destruct (of_dres (view_signcrypt_block m)) as [[ct f]|e]; [|apply Stop].
    destruct (negb (block_number_ok n)); [apply Stop|].
    cbv zeta.
    destruct (sb_open c pkey (nonce_chunk_signcryption hh f n) ct) as [att|]; [|apply Stop].
    destruct (Nat.ltb (length att) 64); [apply Stop|].
    destruct (negb (ed_verify c pk (signcrypt_sig_input c hh (nonce_chunk_signcryption hh f n) f (skipn 64 att))
                              (firstn 64 att))); [apply Stop|].
    destruct (check_chunk_state v2 (length (skipn 64 att)) n f) as [u|e]; [|apply Stop].
    destruct f.
    + exists [skipn 64 att]. cbn [so_chunks]. rewrite rev_append_rev, app_nil_r. cbn [rev].
      split; [reflexivity|]. intros x [<-|[]]. left. reflexivity.
    + destruct (IH (n + 1) rest (skipn 64 att :: acc)) as (l & Hc & Hi).
      exists (skipn 64 att :: l). rewrite Hc. cbn [rev]. rewrite <- app_assoc.
      split; [reflexivity|]. intros x [<-|Hx]; [left; reflexivity|right; exact (Hi _ Hx)].
Qed.

Section Red.
Variables (kr : keyring) (signers : sigring) (rv : resolver) (pk : bytes)
          (M : list sc_msg) (others : list sign_event) (input : bytes).

Notation BrkL := (ScBreakL kr signers rv pk M others input).
Notation RH := (sc_recv_hashed kr signers rv input).

(* a collision between a receiver-hashed and a history-hashed string, or equality *)
Lemma sc_sha_inj_orL (x y : bytes) :
  In x RH -> In y (sc_hist_hashed M) -> sha512 c x = sha512 c y -> x = y \/ BrkL.
Proof.
  intros Hx Hy H. destruct (bytes_eq_dec x y) as [E|Hne]; [left; exact E|].
  right. exact (ScShaCollisionL kr signers rv pk M others input x y Hx Hy Hne H).
Qed.

Variables (hb pkey rest : bytes).
Hypothesis Hst : sc_receiver_state c kr signers rv input = Some (sha512 c hb, pkey, rest).
Hypothesis Hhb : In hb RH.

Notation CS0 := (checked_sigs c (S (length rest)) pkey (sha512 c hb) 0 rest).

(* ---------- one packet ---------- *)
Lemma sc_packet_reductionL (i : N) (ch : bytes) (f : bool) :
  Forall sm_ok M -> Forall other_ok others ->
  In ch RH ->
  sc_verified c pk CS0 (sha512 c hb) i ch f -> sc_pkt_auth M hb i ch f \/ BrkL.
Proof.
  intros Hok Hoth Hch (sig & Hcs & Hv & Hlt).
  set (msg := signcrypt_sig_input c (sha512 c hb) (nonce_chunk_signcryption (sha512 c hb) f i) f ch) in *.
  destruct (in_dec bytes_eq_dec msg (sc_signed c pk M others)) as [Hin|Hnin];
    [|right; exact (ScSigForgeryL kr signers rv pk M others input _ _ _ msg sig Hst Hcs Hv Hnin)].
  unfold sc_signed in Hin. apply in_app_or in Hin as [Hin|Hin].
  - apply in_flat_map in Hin as (m & Hm & Hin).
    apply sm_inputs_in in Hin as (k & ch' & f' & Hnth & Hx). rewrite N.add_0_l in Hx.
    pose proof (proj1 (Forall_forall _ _) Hok _ Hm) as [Hlen _].
    assert (Hk : (k < length (sm_packets m))%nat) by (apply nth_error_Some; congruence).
    unfold msg in Hx.
    apply sc_input_inj in Hx as (Hh & Hi & Hf & Hc);
      [|apply Hsha|apply Hsha|exact Hlt|clear - Hlen Hk; lia].
    apply (sc_sha_inj_orL hb (sm_header m) Hhb (hist_header_in M m Hm)) in Hh as [Hh|B]; [|right; exact B].
    subst f'.
    apply (sc_sha_inj_orL ch ch' Hch (hist_chunk_in M m k ch' f Hm Hnth)) in Hc as [Hc|B]; [|right; exact B].
    subst i ch'. left. exists m. split; [exact Hm|]. split; [symmetry; exact Hh|].
    rewrite Nat2N.id. exact Hnth.
  - exfalso. apply (other_inputs_length c Hsha pk others msg Hoth) in Hin.
    unfold msg in Hin. rewrite (sc_input_length c Hsha) in Hin by apply Hsha. discriminate.
Qed.

(* ---------- all examined packets ---------- *)
Lemma sc_rel_authL :
  Forall sm_ok M -> Forall other_ok others ->
  forall rs n, sc_rel c pk CS0 (sha512 c hb) n rs ->
               (forall r, In r rs -> In (fst r) RH) ->
               sc_auth_from M hb n rs \/ BrkL.
Proof.
  intros Hok Hoth. induction rs as [|[ch f] t IH]; intros n H Hall; cbn [sc_rel sc_auth_from] in *.
  - left. exact I.
  - destruct H as [H1 H2].
    destruct (sc_packet_reductionL n ch f Hok Hoth (Hall (ch, f) (or_introl eq_refl)) H1) as [A|B];
      [|right; exact B].
    destruct (IH (n + 1) H2 (fun r Hr => Hall r (or_intror Hr))) as [A'|B]; [|right; exact B].
    left. split; assumption.
Qed.

End Red.

(* (TARGET) C04, located *)
Theorem signcrypt_authentic_located (kr : keyring) (signers : sigring) (rv : resolver) (input : bytes)
      (pk : bytes) (out : stream_out) (M : list sc_msg) (others : list sign_event) :
  Forall sm_ok M -> sm_headers_distinct M -> Forall other_ok others ->
  N.of_nat (length input) < 18446744073709551616 ->
  signcrypt_open_stream c kr signers rv input = Ok (Some pk, out) ->
  (so_chunks out = [] /\ so_end out <> EOF) \/
  (exists m hb rest,
      In m M /\ read_header_bytes input = Ok (hb, rest) /\ hb = sm_header m /\
      list_prefix (so_chunks out) (map fst (sm_packets m)) /\
      (so_end out = EOF -> so_chunks out = map fst (sm_packets m)))
  \/ ScBreakL kr signers rv pk M others input.
Proof.
  intros Hok Hd Hoth _ Hv.
  unfold signcrypt_open_stream in Hv.
  destruct (read_header_bytes input) as [[hb rest]|e] eqn:Erh; cbv beta iota delta [bind fst snd] in Hv; [|discriminate].
  destruct (decode_header view_enc_header hb) as [h|e] eqn:Edh; cbv beta iota delta [bind] in Hv; [|discriminate].
  destruct (process_sc_header c kr signers rv h) as [[pkey sg]|e] eqn:Eph;
    cbv beta iota delta [bind fst snd] in Hv; [|discriminate].
  remember (sc_open_loop c _ _ _ _ _ _ _) as lp eqn:Elp in Hv.
  injection Hv as -> <-. subst lp.
  assert (Hst : sc_receiver_state c kr signers rv input = Some (sha512 c hb, pkey, rest)).
  { unfold sc_receiver_state. rewrite Erh, Edh, Eph. reflexivity. }
  assert (ERH : sc_recv_hashed kr signers rv input =
                hb :: sc_loop_hashed (S (length rest)) pkey (Some pk) (sha512 c hb) 0 rest).
  { unfold sc_recv_hashed. rewrite Erh, Edh, Eph. reflexivity. }
  assert (Hhb : In hb (sc_recv_hashed kr signers rv input)) by (rewrite ERH; left; reflexivity).
  destruct (sc_open_loop_inv c pk pkey (sha512 c hb) (S (length rest)) 0 rest [])
    as (rs & Hc & Hrel & Heof).
  destruct (sc_loop_chunks_hashed pk pkey (sha512 c hb) (S (length rest)) 0 rest [])
    as (l & Hc' & Hincl).
  assert (Hall : forall r, In r rs -> In (fst r) (sc_recv_hashed kr signers rv input)).
  { intros r Hr. rewrite ERH. right. apply Hincl.
    rewrite Hc in Hc'. cbn [rev app] in Hc'. rewrite <- Hc'. exact (in_map fst _ _ Hr). }
  destruct (sc_rel_authL kr signers rv pk M others input hb pkey rest Hst Hhb Hok Hoth rs 0 Hrel Hall)
    as [Ha|B]; [|right; right; exact B].
  destruct rs as [|r0 rs].
  - left. split; [rewrite Hc; reflexivity|].
    intro E. destruct (Heof E) as (init & ch & E'). destruct init; discriminate.
  - right. left.
    destruct (sc_assemble M hb r0 rs Hd Hok Ha) as (m & t & Hin & Hh & Et & Hfin).
    exists m, hb, rest. split; [exact Hin|]. split; [reflexivity|]. split; [symmetry; exact Hh|].
    rewrite Hc. cbn [rev app]. split.
    + rewrite Et, map_app. apply list_prefix_app.
    + intro E. rewrite (Hfin (Heof E)) in Et. rewrite app_nil_r in Et. rewrite Et. reflexivity.
Qed.

(* (TARGET) C04, located: all-at-once form *)
Theorem signcrypt_authentic_all_located (kr : keyring) (signers : sigring) (rv : resolver) (input : bytes)
      (pk pt : bytes) (M : list sc_msg) (others : list sign_event) :
  Forall sm_ok M -> sm_headers_distinct M -> Forall other_ok others ->
  N.of_nat (length input) < 18446744073709551616 ->
  signcrypt_open_all c kr signers rv input = Ok (Some pk, pt) ->
  (exists m, In m M /\ pt = concat (map fst (sm_packets m)))
  \/ ScBreakL kr signers rv pk M others input.
Proof.
  intros Hok Hd Hoth Hlen Hv. unfold signcrypt_open_all in Hv.
  destruct (signcrypt_open_stream c kr signers rv input) as [[sg out]|e] eqn:Es;
    cbv beta iota delta [bind fst snd] in Hv; [|discriminate].
  destruct (so_end out) eqn:Ee; try discriminate.
  injection Hv as -> <-.
  destruct (signcrypt_authentic_located kr signers rv input pk out M others Hok Hd Hoth Hlen Es)
    as [[_ Hne]|[(m & hb & rest & Hin & _ & _ & _ & Hall)|B]].
  - contradiction.
  - left. exists m. split; [exact Hin|]. rewrite (Hall Ee). reflexivity.
  - right. exact B.
Qed.

End Loc.

(* ---------- the lists on a genuine message (ToyCrypto, as in props/C04.v) ---------- *)
From SP Require Import ToyCrypto ToyCryptoProofs.

(* one-packet genuine message (the message of props/C04.v's example): the receiver
   hashes exactly two strings, the header bytes and the one plaintext chunk, and
   the signer's history list for that message is the same two strings *)
Example sc_recv_hashed_genuine :
  let sk := repeat x11 32 in let sig := repeat x07 64 in
  match signcrypt_core toy_crypto (Some sig) (repeat x44 32) (repeat x55 32) [BoxRcpt (dh_pub toy_crypto sk)] [[x68; x69]] with
  | Ok out =>
    let rh := sc_recv_hashed toy_crypto (mkRing [(sk, dh_pub toy_crypto sk)] None) [ed_pub toy_crypto sig] None out in
    match read_header_bytes out with
    | Ok (hb, _) => Some (length rh, bytes_eqb (hd [] rh) hb, tl rh,
                          tl (sc_hist_hashed [mkScMsg hb [([x68; x69], true)]]))
    | Err _ => None
    end
  | Err _ => None
  end = Some (2%nat, true, [[x68; x69]], [[x68; x69]]).
Proof. vm_compute. reflexivity. Qed.

(* a genuine two-packet message (explicit chunking [x68] / [x69]): header + 2 chunks *)
Example sc_recv_hashed_genuine2 :
  let sk := repeat x11 32 in let sig := repeat x07 64 in
  let eph_sk := repeat x44 32 in let pkey := repeat x55 32 in
  let eph_pk := dh_pub toy_crypto eph_sk in
  let sbox := sb_seal toy_crypto pkey nonce_sender_key_sbox (ed_pub toy_crypto sig) in
  let hdr := mp_encode (mv_enc_header v2 mt_signcryption eph_pk sbox
               (mapi_from (sc_receiver_entry toy_crypto eph_sk eph_pk pkey) 0 [BoxRcpt (dh_pub toy_crypto sk)])) in
  match signcrypt_packets toy_crypto (Some sig) pkey (sha512 toy_crypto hdr) 0 [([x68], false); ([x69], true)] with
  | Ok body =>
    let out := mp_encode (MBin hdr) ++ body in
    let rh := sc_recv_hashed toy_crypto (mkRing [(sk, dh_pub toy_crypto sk)] None) [ed_pub toy_crypto sig] None out in
    match signcrypt_open_stream toy_crypto (mkRing [(sk, dh_pub toy_crypto sk)] None) [ed_pub toy_crypto sig] None out with
    | Ok (s, o) => Some (so_chunks o, so_end o, length rh, bytes_eqb (hd [] rh) hdr, tl rh)
    | Err _ => None
    end
  | Err _ => None
  end = Some ([[x68]; [x69]], EOF, 3%nat, true, [[x68]; [x69]]).
Proof. vm_compute. reflexivity. Qed.
