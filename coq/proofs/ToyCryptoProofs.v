From Coq Require Import List PeanoNat NArith Lia.
From Coq.Strings Require Import Byte.
From SP Require Import Bytes Msgpack Crypto ToyCrypto.
Import ListNotations.

Lemma zeros_length k : length (zeros k) = k.
Proof. unfold zeros. apply repeat_length. Qed.

Lemma fit_length n b : length (fit n b) = n.
Proof. unfold fit. rewrite app_length, firstn_length, zeros_length. lia. Qed.

Lemma toy_crypto_ok : crypto_ok toy_crypto.
Proof.
  constructor; cbn [toy_crypto sha512 hmac512 sb_seal sb_open dh_pub dh_shared ed_pub ed_sign ed_verify]; intros.
  - rewrite app_length, zeros_length.
    replace (Nat.leb 16 (16 + length m)) with true by (symmetry; apply Nat.leb_le; lia).
    reflexivity.
  - rewrite app_length, zeros_length. reflexivity.
  - reflexivity.
  - reflexivity.
  - apply fit_length.
  - apply fit_length.
  - apply fit_length.
  - apply fit_length.
  - apply fit_length.
Qed.
