(* SignProofs.v — attached and detached signatures: round trip, unknown signer,
   write-split independence, mode gate, fail-closed behaviour.
   Statements marked (TARGET) are used verbatim by props/. *)
From Coq Require Import List NArith ZArith Bool Lia ZifyN ZifyNat ZifyBool.
From Coq.Strings Require Import Byte.
From SP Require Import Bytes Params Msgpack Crypto Errors Nonce Packets Chunker Rand Sign Verify
     MsgpackProofs ChunkerProofs.
Import ListNotations.
Open Scope N_scope.

Definition good_validator (vd : validator) (v : version) : Prop := vd = AnyKnownMajor \/ vd = Single v.

(* ================================================================== *)
(* General-purpose lemmas (no crypto involved)                         *)
(* ================================================================== *)

(* ---------- byte-string equality ---------- *)
Lemma byte_eqb_refl (b : byte) : Byte.eqb b b = true.
Proof. apply Byte.byte_dec_lb. reflexivity. Qed.

Lemma bytes_eqb_refl (a : bytes) : bytes_eqb a a = true.
Proof.
  induction a as [|x a IH]; cbn [bytes_eqb]; [reflexivity|].
  rewrite byte_eqb_refl, IH. reflexivity.
Qed.

Lemma bytes_eqb_true (a : bytes) : forall b, bytes_eqb a b = true -> a = b.
Proof.
  induction a as [|x a IH]; intros [|y b] H; cbn [bytes_eqb] in H;
    try discriminate; [reflexivity|].
  apply andb_true_iff in H as [H1 H2].
  apply Byte.byte_dec_bl in H1. apply IH in H2. congruence.
Qed.

Lemma bytes_eqb_eq (a b : bytes) : bytes_eqb a b = true <-> a = b.
Proof. split; [apply bytes_eqb_true|intros ->; apply bytes_eqb_refl]. Qed.

Lemma existsb_bytes_eqb_in (kid : bytes) (kr : list bytes) :
  In kid kr -> existsb (bytes_eqb kid) kr = true.
Proof.
  intro H. apply existsb_exists. exists kid. split; [exact H|apply bytes_eqb_refl].
Qed.

Lemma existsb_bytes_eqb_notin (kid : bytes) (kr : list bytes) :
  ~ In kid kr -> existsb (bytes_eqb kid) kr = false.
Proof.
  intro H. destruct (existsb (bytes_eqb kid) kr) eqn:E; [|reflexivity].
  apply existsb_exists in E as [x [Hx E]]. apply bytes_eqb_true in E. subst x. contradiction.
Qed.

Lemma lookup_signer_in (kr : sigring) (kid : bytes) : In kid kr -> lookup_signer kr kid = Some kid.
Proof. intro H. unfold lookup_signer. rewrite existsb_bytes_eqb_in by exact H. reflexivity. Qed.

Lemma lookup_signer_notin (kr : sigring) (kid : bytes) : ~ In kid kr -> lookup_signer kr kid = None.
Proof. intro H. unfold lookup_signer. rewrite existsb_bytes_eqb_notin by exact H. reflexivity. Qed.

(* ---------- the randomness source ---------- *)
Lemma read_full_ok (k : nat) (r : rng) :
  (k <= length r)%nat -> read_full k r = Some (firstn k r, skipn k r).
Proof.
  intro H. unfold read_full. destruct (Nat.leb_spec k (length r)); [reflexivity|lia].
Qed.

Lemma read_full_short (k : nat) (r : rng) : (length r < k)%nat -> read_full k r = None.
Proof.
  intro H. unfold read_full. destruct (Nat.leb_spec k (length r)); [lia|reflexivity].
Qed.

Lemma read_full_inv (k : nat) (r : rng) (a : bytes) (r' : rng) :
  read_full k r = Some (a, r') -> a = firstn k r /\ r' = skipn k r /\ (k <= length r)%nat.
Proof.
  unfold read_full. destruct (Nat.leb_spec k (length r)); [|discriminate].
  intro E. injection E as <- <-. auto.
Qed.

Lemma firstn_length_le' (k : nat) (r : bytes) : (k <= length r)%nat -> length (firstn k r) = k.
Proof. intro H. rewrite firstn_length. lia. Qed.

(* ---------- constants ---------- *)
Lemma sig_block_size_N : N.of_nat sig_block_size = 1048576.
Proof. unfold sig_block_size. rewrite Z_nat_N. reflexivity. Qed.

Lemma sig_block_size_pos : (0 < sig_block_size)%nat.
Proof. pose proof sig_block_size_N. lia. Qed.

Lemma sig_block_size_bound (x : bytes) : (length x <= sig_block_size)%nat -> len x < 4294967296.
Proof. intro H. unfold len. pose proof sig_block_size_N. lia. Qed.

#[local] Opaque sig_block_size.

Lemma known_version_v (v : version) : v = v1 \/ v = v2 -> known_version v = true.
Proof. intros [->| ->]; reflexivity. Qed.

Lemma vmaj_v (v : version) : v = v1 \/ v = v2 -> (vmaj v = 1 \/ vmaj v = 2)%Z.
Proof. intros [->| ->]; [left|right]; reflexivity. Qed.

Lemma validate_good (vd : validator) (v : version) :
  v = v1 \/ v = v2 -> good_validator vd v -> validate_version vd v = true.
Proof. intros Hv [->| ->]; destruct Hv as [->| ->]; reflexivity. Qed.

Lemma validate_other (v v' : version) :
  v = v1 \/ v = v2 -> v' = v1 \/ v' = v2 -> v <> v' -> validate_version (Single v') v = false.
Proof. intros [->| ->] [->| ->] H; try congruence; reflexivity. Qed.

Lemma mt_attached_detached : (mt_attached =? mt_detached)%Z = false.
Proof. reflexivity. Qed.

Lemma mt_detached_attached : (mt_detached =? mt_attached)%Z = false.
Proof. reflexivity. Qed.

Lemma vmaj_ok_b (v : version) :
  (vmaj v = 1 \/ vmaj v = 2)%Z -> negb ((vmaj v =? 1)%Z || (vmaj v =? 2)%Z) = false.
Proof. intros [E|E]; rewrite E; reflexivity. Qed.

(* ---------- upper bounds on encoding lengths ---------- *)
Local Ltac if_split :=
  repeat match goal with |- context[if ?c then _ else _] => destruct c end.

Lemma enc_uint_le (n : N) : (length (enc_uint n) <= 9)%nat.
Proof.
  unfold enc_uint, be16, be32, be64. if_split; cbn [length];
    rewrite ?mp_be_bytes_length; lia.
Qed.

Lemma enc_int_le (z : Z) : (length (enc_int z) <= 9)%nat.
Proof.
  unfold enc_int, be16, be32, be64. if_split; cbn [length];
    rewrite ?mp_be_bytes_length; try lia. apply enc_uint_le.
Qed.

Lemma enc_bin_hdr_le (n : N) : (length (enc_bin_hdr n) <= 5)%nat.
Proof.
  unfold enc_bin_hdr, be16, be32. if_split; cbn [length]; rewrite ?mp_be_bytes_length; lia.
Qed.

Lemma enc_str_hdr_le (n : N) : (length (enc_str_hdr n) <= 5)%nat.
Proof.
  unfold enc_str_hdr, be16, be32. if_split; cbn [length]; rewrite ?mp_be_bytes_length; lia.
Qed.

Lemma enc_arr_hdr_le (n : N) : (length (enc_arr_hdr n) <= 5)%nat.
Proof.
  unfold enc_arr_hdr, be16, be32. if_split; cbn [length]; rewrite ?mp_be_bytes_length; lia.
Qed.

(* ---------- reading back what the encoder wrote ---------- *)
Lemma read_header_bytes_enc (hb body : bytes) :
  len hb < 4294967296 -> read_header_bytes (mp_encode (MBin hb) ++ body) = Ok (hb, body).
Proof.
  intro H. unfold read_header_bytes. rewrite mp_read_encode by exact H. reflexivity.
Qed.

Lemma decode_header_enc (view : mval -> dres header) (m : mval) :
  wf m -> decode_header view (mp_encode m) = of_dres (view m).
Proof.
  intro H. unfold decode_header. rewrite <- (app_nil_r (mp_encode m)).
  rewrite mp_read_encode by exact H. reflexivity.
Qed.

Lemma read_packet_enc (m : mval) (rest : bytes) :
  wf m -> read_packet (mp_encode m ++ rest) = Ok (m, rest).
Proof. intro H. unfold read_packet. rewrite mp_read_encode by exact H. reflexivity. Qed.

Lemma assert_end_of_stream_nil : assert_end_of_stream [] = EOF.
Proof. unfold assert_end_of_stream. rewrite mp_read_nil. reflexivity. Qed.

(* ---------- the signature header ---------- *)
Definition sig_hdr (v : version) (typ : Z) (pk nonce : bytes) : header :=
  mkHeader format_name v typ pk nonce [].

Lemma sig_header_len (v : version) (typ : Z) (pk nonce : bytes) :
  (length (mp_encode (mv_sig_header v typ pk nonce)) <= 60 + length pk + length nonce)%nat.
Proof.
  unfold mv_sig_header, mv_version. rewrite mp_encode_arr.
  cbn [enc_list]. rewrite (mp_encode_arr [MInt (vmaj v); MInt (vmin v)]).
  cbn [enc_list mp_encode]. rewrite !app_length.
  pose proof (enc_arr_hdr_le (N.of_nat (length [MStr format_name; MArr [MInt (vmaj v); MInt (vmin v)]; MInt typ; MBin pk; MBin nonce]))).
  pose proof (enc_arr_hdr_le (N.of_nat (length [MInt (vmaj v); MInt (vmin v)]))).
  pose proof (enc_str_hdr_le (len format_name)).
  pose proof (enc_int_le (vmaj v)). pose proof (enc_int_le (vmin v)). pose proof (enc_int_le typ).
  pose proof (enc_bin_hdr_le (len pk)). pose proof (enc_bin_hdr_le (len nonce)).
  assert (length format_name = 8%nat) by reflexivity.
  cbn [length] in *. lia.
Qed.

Lemma wf_sig_header (v : version) (typ : Z) (pk nonce : bytes) :
  v = v1 \/ v = v2 -> typ = mt_attached \/ typ = mt_detached ->
  len pk < 4294967296 -> len nonce < 4294967296 ->
  wf (mv_sig_header v typ pk nonce).
Proof.
  intros Hv Ht Hp Hn. unfold mv_sig_header, mv_version. cbn [wf length].
  assert (len format_name < 4294967296) by (vm_compute; reflexivity).
  destruct Hv as [->| ->]; destruct Ht as [->| ->]; repeat split; try assumption;
    try (vm_compute; first [reflexivity | discriminate]).
Qed.

Lemma view_sig_header_mv (v : version) (typ : Z) (pk nonce : bytes) :
  v = v1 \/ v = v2 -> typ = mt_attached \/ typ = mt_detached ->
  view_sig_header (mv_sig_header v typ pk nonce) = DOk (sig_hdr v typ pk nonce).
Proof. intros [->| ->] [->| ->]; reflexivity. Qed.

Lemma validate_sig_header_eval (vd : validator) (typ' : Z) (v : version) (typ : Z) (pk nonce : bytes) :
  validate_sig_header vd typ' (sig_hdr v typ pk nonce) =
  if negb (validate_version vd v) then Err ErrBadVersion
  else if negb (typ =? typ')%Z then Err ErrWrongMessageType else Ok tt.
Proof.
  unfold validate_sig_header, sig_hdr. cbn [h_format h_version h_type].
  rewrite bytes_eqb_refl. reflexivity.
Qed.

(* ---------- signature blocks ---------- *)
Lemma wf_sig_block (v : version) (sig chunk : bytes) (final : bool) :
  len sig < 4294967296 -> len chunk < 4294967296 ->
  wf (mv_sig_block v sig (MBin chunk) final).
Proof.
  intros H1 H2. unfold mv_sig_block.
  destruct (vmaj v =? 1)%Z; cbn [wf length]; repeat split; try assumption; lia.
Qed.

Lemma view_sig_block_mv (v : version) (sig chunk : bytes) (final : bool) (n : N) :
  (vmaj v = 1 \/ vmaj v = 2)%Z ->
  check_chunk_state v (length chunk) n final = Ok tt ->
  view_sig_block v (mv_sig_block v sig (MBin chunk) final) = DOk (sig, chunk, final).
Proof.
  intros Hv Hs. unfold view_sig_block, mv_sig_block, check_chunk_state in *.
  destruct (vmaj v =? 1)%Z eqn:E.
  - cbn [as_array dbind field nth as_bytes].
    destruct chunk, final; cbn in Hs; try discriminate; reflexivity.
  - reflexivity.
Qed.

(* the packets of a session: every one passes the chunk-state check at its
   index and fits a bin32; exactly the last one is final *)
Fixpoint pk_ok (v : version) (n : N) (ps : list (bytes * bool)) : Prop :=
  match ps with
  | [] => False
  | (chunk, final) :: t =>
    check_chunk_state v (length chunk) n final = Ok tt /\
    len chunk < 4294967296 /\
    if final then t = [] else pk_ok v (n + 1) t
  end.

Lemma pk_ok_marked (v : version) (cs : list bytes) (y : bytes) : forall n,
  (forall i chunk final, nth_error (nonfinal cs ++ [(y, true)]) i = Some (chunk, final) ->
     check_chunk_state v (length chunk) (n + N.of_nat i) final = Ok tt) ->
  Forall (fun p : bytes * bool => len (fst p) < 4294967296) (nonfinal cs ++ [(y, true)]) ->
  pk_ok v n (nonfinal cs ++ [(y, true)]).
Proof.
  induction cs as [|x cs IH]; intros n Hs Hb.
  - change (nonfinal [] ++ [(y, true)]) with [(y, true)] in *. cbn [pk_ok].
    split; [|split].
    + specialize (Hs 0%nat y true eq_refl). rewrite N.add_0_r in Hs. exact Hs.
    + inversion Hb; assumption.
    + reflexivity.
  - change (nonfinal (x :: cs) ++ [(y, true)]) with ((x, false) :: (nonfinal cs ++ [(y, true)])) in *.
    cbn [pk_ok]. inversion Hb as [|p l Hp Hl]; subst. split; [|split].
    + specialize (Hs 0%nat x false eq_refl). rewrite N.add_0_r in Hs. exact Hs.
    + exact Hp.
    + apply IH; [|exact Hl]. intros i ch f H. specialize (Hs (S i) ch f H).
      replace (n + 1 + N.of_nat i) with (n + N.of_nat (S i)) by lia. exact Hs.
Qed.

Lemma plan_marked (v : version) (B : nat) (msg : bytes) : (0 < B)%nat ->
  exists cs y, plan v B msg = nonfinal cs ++ [(y, true)].
Proof.
  intro HB. unfold plan. destruct (vmaj v =? 1)%Z.
  - destruct (plan_v1_shape B msg HB) as (cs & E & _). exists cs, []. exact E.
  - destruct (plan_v2_shape B msg HB) as (init & lastc & E & _). exists init, lastc. exact E.
Qed.

Lemma plan_pk_ok (v : version) (msg : bytes) :
  (vmaj v = 1 \/ vmaj v = 2)%Z -> pk_ok v 0 (plan v sig_block_size msg).
Proof.
  intro Hv. pose proof sig_block_size_pos as HB.
  destruct (plan_marked v sig_block_size msg HB) as (cs & y & E).
  pose proof (plan_chunk_state v sig_block_size msg HB Hv) as Hs.
  pose proof (plan_chunk_bound v sig_block_size msg HB) as Hb.
  rewrite E in *. apply pk_ok_marked.
  - intros i ch f H. rewrite N.add_0_l. apply Hs. exact H.
  - eapply Forall_impl; [|exact Hb]. intros p Hp. apply sig_block_size_bound. exact Hp.
Qed.

(* ================================================================== *)

Section RT.
Variable c : crypto.
Hypothesis Hc : crypto_ok c.

Lemma attached_sig_input_some (v : version) (hh chunk : bytes) (n : N) (final : bool) :
  (vmaj v = 1 \/ vmaj v = 2)%Z -> exists inp, attached_sig_input c v hh chunk n final = Some inp.
Proof.
  intro Hv. unfold attached_sig_input.
  destruct (vmaj v =? 1)%Z eqn:E1; [eexists; reflexivity|].
  destruct (vmaj v =? 2)%Z eqn:E2; [eexists; reflexivity|]. lia.
Qed.

(* newVerifyStream on a header written by the signer *)
Lemma verify_read_header_sig (vd : validator) (typ' : Z) (v : version) (typ : Z)
      (pk nonce body : bytes) :
  v = v1 \/ v = v2 -> typ = mt_attached \/ typ = mt_detached ->
  length pk = 32%nat -> length nonce = 16%nat ->
  verify_read_header c vd typ'
    (mp_encode (MBin (mp_encode (mv_sig_header v typ pk nonce))) ++ body) =
  if negb (validate_version vd v) then Err ErrBadVersion
  else if negb (typ =? typ')%Z then Err ErrWrongMessageType
  else Ok (sig_hdr v typ pk nonce, sha512 c (mp_encode (mv_sig_header v typ pk nonce)), body).
Proof.
  intros Hv Ht Hp Hn. unfold verify_read_header.
  rewrite read_header_bytes_enc.
  2:{ pose proof (sig_header_len v typ pk nonce). unfold len. lia. }
  cbn [bind fst snd].
  rewrite decode_header_enc.
  2:{ apply wf_sig_header; trivial; unfold len; lia. }
  rewrite view_sig_header_mv by trivial. cbn [of_dres bind].
  rewrite validate_sig_header_eval.
  destruct (negb (validate_version vd v)); [reflexivity|].
  destruct (negb (typ =? typ')%Z); reflexivity.
Qed.

(* one turn of the verifier's loop on a packet written by the signer *)
Lemma verify_loop_step (f : nat) (v : version) (sk hh : bytes) (n : N) (chunk : bytes)
      (final : bool) (inp rest : bytes) (acc : list bytes) :
  (vmaj v = 1 \/ vmaj v = 2)%Z ->
  attached_sig_input c v hh chunk n final = Some inp ->
  check_chunk_state v (length chunk) n final = Ok tt ->
  len chunk < 4294967296 ->
  verify_loop c (S f) v (ed_pub c sk) hh n
    (mp_encode (mv_sig_block v (ed_sign c sk inp) (MBin chunk) final) ++ rest) acc =
  if final then mkOut (rev_append (chunk :: acc) []) (assert_end_of_stream rest)
  else verify_loop c f v (ed_pub c sk) hh (n + 1) rest (chunk :: acc).
Proof.
  intros Hv Hi Hs Hl. cbn [verify_loop].
  rewrite read_packet_enc.
  2:{ apply wf_sig_block; [|exact Hl]. unfold len. rewrite (ok_sig_len c Hc). lia. }
  rewrite vmaj_ok_b by exact Hv.
  rewrite (view_sig_block_mv v _ chunk final n Hv Hs). cbn [of_dres].
  rewrite Hi. rewrite (ok_ed c Hc). cbn [negb]. rewrite Hs. reflexivity.
Qed.

(* the signer's packets, read back by the verifier's loop *)
Lemma sign_verify_loop (v : version) (sk hh : bytes) :
  (vmaj v = 1 \/ vmaj v = 2)%Z ->
  forall (ps : list (bytes * bool)) (n : N), pk_ok v n ps ->
  exists body,
    sign_packets c v sk hh n ps = Ok body /\
    (length ps <= length body)%nat /\
    forall fuel acc, (length ps <= fuel)%nat ->
      verify_loop c fuel v (ed_pub c sk) hh n body acc = mkOut (rev acc ++ map fst ps) EOF.
Proof.
  intro Hv. induction ps as [|[chunk final] t IH]; intros n Hok; [destruct Hok|].
  cbn [pk_ok] in Hok. destruct Hok as (Hs & Hl & Ht).
  destruct (attached_sig_input_some v hh chunk n final Hv) as [inp Hi].
  cbn [sign_packets]. rewrite Hi, Hs.
  destruct final.
  - subst t. cbn [sign_packets bind]. eexists. split; [reflexivity|]. split.
    + rewrite app_length. pose proof (mp_encode_len (mv_sig_block v (ed_sign c sk inp) (MBin chunk) true)).
      cbn [length]. lia.
    + intros fuel acc Hf. destruct fuel as [|f]; [cbn [length] in Hf; lia|].
      rewrite (verify_loop_step f v sk hh n chunk true inp [] acc Hv Hi Hs Hl).
      rewrite assert_end_of_stream_nil, rev_append_rev, app_nil_r. reflexivity.
  - destruct (IH (n + 1) Ht) as (body' & Eb & Lb & Hloop). rewrite Eb. cbn [bind].
    eexists. split; [reflexivity|]. split.
    + rewrite app_length. pose proof (mp_encode_len (mv_sig_block v (ed_sign c sk inp) (MBin chunk) false)).
      cbn [length]. lia.
    + intros fuel acc Hf. destruct fuel as [|f]; [cbn [length] in Hf; lia|].
      rewrite (verify_loop_step f v sk hh n chunk false inp body' acc Hv Hi Hs Hl).
      rewrite Hloop by (cbn [length] in Hf; lia).
      cbn [rev map fst]. rewrite <- app_assoc. reflexivity.
Qed.

(* what an attached-signature session emits *)
Lemma sign_attached_stream_shape (v : version) (sk : bytes) (pieces : list bytes) (r r' : rng)
      (out : bytes) :
  sign_attached_stream c v sk pieces r = Ok (out, r') ->
  exists body,
    out = mp_encode (MBin (mp_encode (mv_sig_header v mt_attached (ed_pub c sk) (firstn 16 r)))) ++ body /\
    r' = skipn 16 r /\ (16 <= length r)%nat.
Proof.
  unfold sign_attached_stream, sig_header_bytes.
  destruct (negb (known_version v)); [discriminate|].
  destruct (read_full 16 r) as [[nonce r0]|] eqn:E; [|discriminate].
  apply read_full_inv in E as (-> & -> & L).
  destruct (sign_packets c v sk _ 0 _) as [body|e]; cbn [bind]; [|discriminate].
  intro H. injection H as <- <-. exists body. auto.
Qed.

Lemma sign_detached_shape (v : version) (sk msg : bytes) (r r' : rng) (out : bytes) :
  sign_detached c v sk msg r = Ok (out, r') ->
  exists body,
    out = mp_encode (MBin (mp_encode (mv_sig_header v mt_detached (ed_pub c sk) (firstn 16 r)))) ++ body /\
    r' = skipn 16 r /\ (16 <= length r)%nat.
Proof.
  unfold sign_detached, sig_header_bytes.
  destruct (negb (known_version v)); [discriminate|].
  destruct (read_full 16 r) as [[nonce r0]|] eqn:E; [|discriminate].
  apply read_full_inv in E as (-> & -> & L).
  intro H. injection H as <- <-. eexists. auto.
Qed.

(* (TARGET) C05: what the signer emits verifies, in streaming and all-at-once form,
   to exactly the message and the signer; the nonce is the first 16 bytes of the
   randomness stream and nothing else is consumed *)
Lemma sign_verify_roundtrip (v : version) (sk : bytes) (pieces : list bytes) (r : rng)
      (kr : sigring) (vd : validator) :
  v = v1 \/ v = v2 -> (16 <= length r)%nat -> In (ed_pub c sk) kr -> good_validator vd v ->
  exists out chunks,
    sign_attached_stream c v sk pieces r = Ok (out, skipn 16 r) /\
    verify_stream c vd kr out = Ok (ed_pub c sk, mkOut chunks EOF) /\
    concat chunks = concat pieces /\
    verify_all c vd kr out = Ok (ed_pub c sk, concat pieces).
Proof.
  intros Hv Hr Hin Hvd.
  pose proof (vmaj_v v Hv) as Hmaj.
  set (nonce := firstn 16 r).
  set (hdr := mp_encode (mv_sig_header v mt_attached (ed_pub c sk) nonce)).
  set (ps := plan v sig_block_size (concat pieces)).
  destruct (sign_verify_loop v sk (sha512 c hdr) Hmaj ps 0 (plan_pk_ok v (concat pieces) Hmaj))
    as (body & Eb & Lb & Hloop).
  assert (Hsign : sign_attached_stream c v sk pieces r = Ok (mp_encode (MBin hdr) ++ body, skipn 16 r)).
  { unfold sign_attached_stream, sig_header_bytes.
    rewrite known_version_v by exact Hv. cbn [negb].
    rewrite read_full_ok by exact Hr.
    rewrite cw_session_plan by exact sig_block_size_pos.
    fold nonce. fold hdr. fold ps. rewrite Eb. reflexivity. }
  assert (Hstream : verify_stream c vd kr (mp_encode (MBin hdr) ++ body) =
                    Ok (ed_pub c sk, mkOut (map fst ps) EOF)).
  { unfold verify_stream. unfold hdr.
    rewrite verify_read_header_sig; auto.
    2:{ apply (ok_ed_pub_len c Hc). }
    2:{ unfold nonce. apply firstn_length_le'. exact Hr. }
    rewrite validate_good by assumption. cbn [negb].
    rewrite Z.eqb_refl. cbn [negb bind].
    unfold sig_hdr. cbn [h_a h_version].
    rewrite lookup_signer_in by exact Hin.
    fold hdr. rewrite Hloop by lia. reflexivity. }
  exists (mp_encode (MBin hdr) ++ body), (map fst ps).
  split; [exact Hsign|]. split; [exact Hstream|]. split.
  - unfold ps. apply plan_concat. exact sig_block_size_pos.
  - unfold verify_all. rewrite Hstream. cbn [bind so_end so_chunks].
    unfold ps. rewrite plan_concat by exact sig_block_size_pos. reflexivity.
Qed.

(* (TARGET) C13/C05: the emitted bytes do not depend on how the message is split across Write calls *)
Lemma sign_stream_oneshot (v : version) (sk : bytes) (pieces : list bytes) (r : rng) :
  sign_attached_stream c v sk pieces r = sign_attached c v sk (concat pieces) r.
Proof.
  unfold sign_attached, sign_attached_stream.
  rewrite !cw_session_plan by exact sig_block_size_pos.
  cbn [concat]. rewrite app_nil_r. reflexivity.
Qed.

(* (TARGET) C05: a keyring that does not know the signer gets ErrNoSenderKey and no bytes *)
Lemma verify_unknown_signer (v : version) (sk : bytes) (pieces : list bytes) (r r' : rng)
      (kr : sigring) (vd : validator) (out : bytes) :
  v = v1 \/ v = v2 -> good_validator vd v ->
  sign_attached_stream c v sk pieces r = Ok (out, r') -> ~ In (ed_pub c sk) kr ->
  verify_stream c vd kr out = Err ErrNoSenderKey /\ verify_all c vd kr out = Err ErrNoSenderKey.
Proof.
  intros Hv Hvd Hs Hnin.
  apply sign_attached_stream_shape in Hs as (body & -> & _ & Hr).
  assert (E : verify_stream c vd kr
                (mp_encode (MBin (mp_encode (mv_sig_header v mt_attached (ed_pub c sk) (firstn 16 r)))) ++ body)
              = Err ErrNoSenderKey).
  { unfold verify_stream.
    rewrite verify_read_header_sig; auto.
    2:{ apply (ok_ed_pub_len c Hc). }
    2:{ apply firstn_length_le'. exact Hr. }
    rewrite validate_good by assumption. cbn [negb].
    rewrite Z.eqb_refl. cbn [negb bind].
    unfold sig_hdr. cbn [h_a h_version].
    rewrite lookup_signer_notin by exact Hnin. reflexivity. }
  split; [exact E|]. unfold verify_all. rewrite E. reflexivity.
Qed.

(* (TARGET) C07: detached round trip *)
Lemma detached_roundtrip (v : version) (sk msg : bytes) (r : rng) (kr : sigring) (vd : validator) :
  v = v1 \/ v = v2 -> (16 <= length r)%nat -> In (ed_pub c sk) kr -> good_validator vd v ->
  exists sig,
    sign_detached c v sk msg r = Ok (sig, skipn 16 r) /\
    verify_detached c vd kr msg sig = Ok (ed_pub c sk).
Proof.
  intros Hv Hr Hin Hvd.
  eexists. split.
  - unfold sign_detached, sig_header_bytes.
    rewrite known_version_v by exact Hv. cbn [negb].
    rewrite read_full_ok by exact Hr. reflexivity.
  - unfold verify_detached.
    rewrite verify_read_header_sig; auto.
    2:{ apply (ok_ed_pub_len c Hc). }
    2:{ apply firstn_length_le'. exact Hr. }
    rewrite validate_good by assumption. cbn [negb].
    rewrite Z.eqb_refl. cbn [negb bind].
    unfold sig_hdr. cbn [h_a h_version].
    match goal with |- context[mp_read (mp_encode ?m)] =>
      rewrite <- (app_nil_r (mp_encode m)); rewrite (mp_read_encode m [])
    end.
    2:{ cbn [wf]. unfold len. rewrite (ok_sig_len c Hc). lia. }
    cbn [as_bytes of_dres bind].
    rewrite lookup_signer_in by exact Hin.
    rewrite (ok_ed c Hc). reflexivity.
Qed.

(* (TARGET) C07/C17: the mode gate — an attached signature is refused by the detached
   verifier and a detached one by the attached verifier, whatever the keyring *)
Lemma detached_rejects_attached (v : version) (sk : bytes) (pieces : list bytes) (r r' : rng)
      (kr : sigring) (vd : validator) (msg out : bytes) :
  v = v1 \/ v = v2 -> good_validator vd v ->
  sign_attached_stream c v sk pieces r = Ok (out, r') ->
  verify_detached c vd kr msg out = Err ErrWrongMessageType.
Proof.
  intros Hv Hvd Hs.
  apply sign_attached_stream_shape in Hs as (body & -> & _ & Hr).
  unfold verify_detached.
  rewrite verify_read_header_sig; auto.
  2:{ apply (ok_ed_pub_len c Hc). }
  2:{ apply firstn_length_le'. exact Hr. }
  rewrite validate_good by assumption. cbn [negb].
  rewrite mt_attached_detached. reflexivity.
Qed.

Lemma attached_rejects_detached (v : version) (sk msg : bytes) (r r' : rng)
      (kr : sigring) (vd : validator) (out : bytes) :
  v = v1 \/ v = v2 -> good_validator vd v ->
  sign_detached c v sk msg r = Ok (out, r') ->
  verify_stream c vd kr out = Err ErrWrongMessageType.
Proof.
  intros Hv Hvd Hs.
  apply sign_detached_shape in Hs as (body & -> & _ & Hr).
  unfold verify_stream.
  rewrite verify_read_header_sig; auto.
  2:{ apply (ok_ed_pub_len c Hc). }
  2:{ apply firstn_length_le'. exact Hr. }
  rewrite validate_good by assumption. cbn [negb].
  rewrite mt_detached_attached. reflexivity.
Qed.

(* (TARGET) C17: a validator for the other version refuses the message *)
Lemma verify_other_version (v v' : version) (sk : bytes) (pieces : list bytes) (r r' : rng)
      (kr : sigring) (out : bytes) :
  v = v1 \/ v = v2 -> v' = v1 \/ v' = v2 -> v <> v' ->
  sign_attached_stream c v sk pieces r = Ok (out, r') ->
  verify_stream c (Single v') kr out = Err ErrBadVersion.
Proof.
  intros Hv Hv' Hne Hs.
  apply sign_attached_stream_shape in Hs as (body & -> & _ & Hr).
  unfold verify_stream.
  rewrite verify_read_header_sig; auto.
  2:{ apply (ok_ed_pub_len c Hc). }
  2:{ apply firstn_length_le'. exact Hr. }
  rewrite validate_other by assumption. reflexivity.
Qed.

End RT.

(* (TARGET) C17: versions the library does not implement are refused with
   ErrBadVersion; nothing is emitted and the model never panics there *)
Lemma sign_unknown_version (c : crypto) (v : version) (sk : bytes) (pieces : list bytes) (msg : bytes) (r : rng) :
  known_version v = false ->
  sign_attached_stream c v sk pieces r = Err ErrBadVersion /\
  sign_detached c v sk msg r = Err ErrBadVersion.
Proof.
  intro H. unfold sign_attached_stream, sign_detached. rewrite H. split; reflexivity.
Qed.

(* (TARGET) C18: a failing randomness source makes the signer fail *)
Lemma sign_rng_fail (c : crypto) (v : version) (sk : bytes) (pieces : list bytes) (msg : bytes) (r : rng) :
  (length r < 16)%nat -> known_version v = true ->
  sign_attached_stream c v sk pieces r = Err ErrRand /\
  sign_detached c v sk msg r = Err ErrRand.
Proof.
  intros Hr H. unfold sign_attached_stream, sign_detached.
  rewrite H, read_full_short by exact Hr. split; reflexivity.
Qed.

(* (TARGET) C18: the header nonce is exactly the 16 bytes drawn *)
Lemma sign_header_nonce (c : crypto) (v : version) (sk : bytes) (pieces : list bytes) (r r' : rng) (out : bytes) :
  sign_attached_stream c v sk pieces r = Ok (out, r') ->
  exists body,
    out = mp_encode (MBin (mp_encode (mv_sig_header v mt_attached (ed_pub c sk) (firstn 16 r)))) ++ body /\
    r' = skipn 16 r.
Proof.
  intro H. apply sign_attached_stream_shape in H as (body & E1 & E2 & _).
  exists body. auto.
Qed.
