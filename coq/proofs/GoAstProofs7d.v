(* GoAstProofs7d.v - source ties for the armor FRAMES: getStringForType, MakeArmorHeader, MakeArmorFooter,
   parseFrame (/repo/frame.go), CheckArmor62 and CheckArmor62Frame (/repo/armor62.go), as translated from /repo's
   Go syntax trees (gen/GoAstFrame.v) and run by the evaluator of model/GoLang2.v (run_func2), against
   type_string / make_frame / parse_frame / check_armor62 of model/Armor.v.

   Strings are byte lists.  A []string is [g_strs ws] = VList (map VBytes ws).  [run7 f args] is
   fst (run_func2 ext_frame f args).  An error value of the model is [g_err e] (GoAstProofs4c): here always
   VErr "ErrBadFrame" [] (makeErrBadFrame(...): the message and its arguments are not observed).

   EXTERNS (ext_frame) - what is NOT verified here:
   - regexp.MustCompile(p) is the pattern p itself; Regexp.ReplaceAllString(re, s, r) is defined ONLY for
     re = "[>\n\r\t ]+" and r = " " and is then the model's matcher collapse_ws s false (the documented trusted
     step: regexp replaced by a hand-written matcher, checked by the exhaustive small-alphabet campaign);
   - strings.TrimSpace = trim_space (model/Armor.v); strings.Split(s, sep) = str_split (one-byte separators:
     split_byte; split_byte_sp: for " " it is the model's split_sp); strings.Join = str_join (str_join_sp: with
     " " it is the model's join_sp); strings.ToUpper = map ascii_upper, defined on ASCII input only (it is only
     ever applied to the constant "saltpack");
   - getStringForType = type_string (go_getStringForType below is its tie);
   - makeFrame(which, typ, brand) = make_frame which typ brand: NO tie (makeFrame is not expressible, see below);
   - shift(&v, n) returns [v[0:n]; v[n:]] = [firstn n v; skipn n v], pop(&v, n) returns
     [v[len-n:]; v[0:len-n]] = [skipn (len-n) v; firstn (len-n) v]; in both the second value is written back
     into v through the argument &v (call_assign / write_back2); for n < 0 or n > len(v) (Go panics) the extern is
     undefined.  NO tie: pop and shift are not expressible, see below.  This is the only unverified step inside
     parseFrame besides the library functions.
   - parseFrame (in CheckArmor62) = (pf_go_brand, parse_frame), as proved by go_parseFrame;
     CheckArmor62 (in CheckArmor62Frame) = check_armor62 through g_brand_res, as proved by go_CheckArmor62;
   - Frame.GetHeader / Frame.GetFooter (CheckArmor62Frame): ARBITRARY functions get_header, get_footer from the
     state of the frame object to (string, error, state afterwards) (Section variables).

   TARGETS (all proved with Qed; Print Assumptions: closed under the global context)
   1. go_getStringForType: for every int typ, getStringForType(typ) returns type_string typ.
      No hypothesis.
   2. go_MakeArmorHeader / 3. go_MakeArmorFooter: for every typ and brand, MakeArmorHeader(typ, brand) returns
      make_frame header_marker typ brand (resp. footer_marker), makeFrame being interpreted by make_frame.
      No hypothesis.
   4. go_parseFrame: for EVERY string m, int typ and marker hof, parseFrame(m, typ, hof) returns
      (pf_go_brand m typ hof, error class of parse_frame m typ hof): err = nil exactly when the model accepts,
      ErrBadFrame otherwise, and the brand is the model's on success.  On failure Go's brand is the empty
      string EXCEPT when the failing check is the brand-length check, where Go returns the over-long brand
      together with the error; pf_go_brand says exactly that (pf_go_brand_ok: it is the model's brand when the
      model accepts; pf_go_brand_err: on an error it is empty or longer than maxBrandLength).
      No hypothesis.
   5. go_CheckArmor62: for every hdr, ftr, typ, CheckArmor62 returns (b, nil) when check_armor62 hdr ftr typ
      = Ok b and ("", ErrBadFrame) when it is an error (g_brand_res).  No hypothesis.
   6. go_CheckArmor62Frame: for EVERY implementation (get_header, get_footer) of the Frame interface, every
      state fr of the frame object and every typ: the results are those of check_frame_model (GetHeader first;
      its error returned with "" without calling GetFooter; then GetFooter, likewise; then check_armor62 on the
      two sentences) and the frame object is left in the state after the calls actually made.
      Hypotheses get_header_err / get_footer_err: the error component a getter returns is an error value
      (nil or a VErr): imposed by Go's type `error` of that result.

   NOT EXPRESSIBLE (the evaluator of GoLang.v is stuck on a construct of the translated term; no statement was
   weakened to get around it; the lemmas *_stuck at the end of the file are the machine-checked witnesses)
   - f_saltpack_pop, f_saltpack_shift: `ESlice (EVar "v") ..` where v is a []string: GoLang.eval slices only
     VBytes (a []string is a VList) -> None -> CStuck "assign", on every argument and with any externs
     (pop_stuck, shift_stuck).
   - f_saltpack_makeFrame: `ELit "[]string" [("0", EConv "string" (EVar "which"))]` evaluates to a VStruct
     (only "[]byte" and Err* literals are special-cased in GoLang.eval) and the builtin `append` rejects a
     VStruct first argument -> None -> CStuck "assign", for every type that has an armor string
     (makeFrame_stuck; for the other types the function returns "" before the literal).
   - f_saltpack_IsSaltpackArmoredPrefix: `strings.Join(append([]string{strs[0]}, strs[2:]...), " ")`:
     `ESlice (EVar "strs") (Some (EInt 2)) None` on a []string (same as pop/shift) and "append..." on the
     VStruct of the []string literal (it accepts only VBytes/VNil operands): every prefix of 3 to 5 words that
     the header regexp does not match and "^([a-zA-Z0-9]+ ?){0,5}$" matches is stuck there
     (IsSaltpackArmoredPrefix_stuck: the prefix "BEGIN SALTPACK ENC").

   TESTS made before proving (Eval vm_compute of both sides): getStringForType 2 and 7; MakeArmorHeader 0
   "KEYBASE", MakeArmorFooter 1 ""; parseFrame on a branded header with a newline, '>' and doubled blanks
   (type 0: accepted, brand KEYBASE; type 1: rejected), on an unbranded footer (accepted; wrong marker and
   unknown type 5: rejected), on a 167-character brand (rejected, the brand returned with the error) and on a
   frame of more than 512 bytes; CheckArmor62 with equal brands, different brands and a bad footer;
   CheckArmor62Frame with a frame object whose footer is available only after GetHeader (success, footer
   error, header sentence in the footer). *)
From Coq Require Import List String NArith ZArith Bool Lia.
From Coq.Strings Require Import Byte.
From SP Require Import Bytes Consts Params Errors Armor GoLang GoLang2 GoAstProofs GoAstProofs2 GoAstProofs3 GoAstProofs4c.
From SP Require Import GoAstFrame.
Import ListNotations.
Local Open Scope string_scope.

(* ---------- the standard-library string functions as executable definitions ---------- *)
(* strings.Split(s, sep) for a one-byte separator *)
Fixpoint split_byte (c : byte) (l cur : bytes) : list bytes :=
  match l with
  | [] => [rev cur]
  | b :: t => if Byte.eqb b c then rev cur :: split_byte c t [] else split_byte c t (b :: cur)
  end.
Definition str_split (s sep : bytes) : option (list bytes) :=
  match sep with [c] => Some (split_byte c s []) | _ => None end.
(* strings.Join(ws, sep) *)
Fixpoint str_join (ws : list bytes) (sep : bytes) : bytes :=
  match ws with
  | [] => []
  | [w] => w
  | w :: t => (w ++ sep ++ str_join t sep)%list
  end.
(* strings.ToUpper on ASCII input (on other input Go maps Unicode code points: not given a meaning) *)
Definition is_ascii (b : byte) : bool := (Byte.to_N b <? 128)%N.
Definition str_upper (s : bytes) : option bytes :=
  if forallb is_ascii s then Some (map ascii_upper s) else None.

Lemma split_byte_sp (l cur : bytes) : split_byte sp l cur = split_sp l cur.
Proof. revert cur. induction l as [|b t IH]; intros cur; cbn [split_byte split_sp]; [reflexivity|]. rewrite !IH. reflexivity. Qed.
Lemma str_join_sp (ws : list bytes) : str_join ws [sp] = join_sp ws.
Proof. induction ws as [|w t IH]; cbn [str_join join_sp]; [reflexivity|]. destruct t; [reflexivity|]. rewrite IH. reflexivity. Qed.

(* comparison of a constant argument (a regexp pattern, a replacement string) with the expected constant *)
Fixpoint const_eqb (a b : bytes) : bool :=
  match a, b with
  | [], [] => true
  | x :: a', y :: b' => Byte.eqb x y && const_eqb a' b'
  | _, _ => false
  end.

(* the pattern of the whitespace-run regexp, "[>\n\r\t ]+" *)
Definition ws_pattern : bytes := [x5b; x3e; x0a; x0d; x09; x20; x5d; x2b].

(* ---------- results as Go values ---------- *)
Definition g_res_err {A} (r : result A) : gval := match r with Ok _ => VNil | Err e => g_err e end.

(* the brand parseFrame returns: the model's on success; on failure the empty string, except that the
   over-long brand is returned together with the error of the brand-length check *)
Definition pf_go_brand (m : bytes) (typ : Z) (marker : bytes) : bytes :=
  match parse_frame m typ marker with
  | Ok b => b
  | Err _ =>
    if (max_frame_length <? len m)%N then []
    else match type_string typ with
         | [] => []
         | sffx =>
           let v := words (normalise m) in
           if Nat.eqb (List.length v) 5 && bytes_eqb (nth 0 v []) marker
              && bytes_eqb (join_sp [nth 3 v []; nth 4 v []]) sffx && bytes_eqb (nth 2 v []) format_upper
           then nth 1 v [] else []
         end
  end.

Fixpoint as_bytes_list7 (l : list gval) : option (list bytes) :=
  match l with
  | [] => Some []
  | VBytes b :: t => match as_bytes_list7 t with Some r => Some (b :: r) | None => None end
  | _ => None
  end.

(* a []string *)
Definition g_strs (ws : list bytes) : gval := VList (map VBytes ws).

(* ---------- externs ---------- *)
Definition ext_frame : externs := fun fn args =>
  if String.eqb fn "regexp.MustCompile" then
    match args with [VBytes p] => Some [VBytes p] | _ => None end            (* a compiled regexp is its pattern *)
  else if String.eqb fn "Regexp.ReplaceAllString" then
    match args with
    | [VBytes re; VBytes s; VBytes r] =>
      if const_eqb re ws_pattern && const_eqb r [sp] then Some [VBytes (collapse_ws s false)] else None
    | _ => None
    end
  else if String.eqb fn "strings.TrimSpace" then
    match args with [VBytes s] => Some [VBytes (trim_space s)] | _ => None end
  else if String.eqb fn "strings.Split" then
    match args with
    | [VBytes s; VBytes sep] => match str_split s sep with Some ws => Some [g_strs ws] | None => None end
    | _ => None
    end
  else if String.eqb fn "strings.Join" then
    match args with
    | [VList ws; VBytes sep] => match as_bytes_list7 ws with Some l => Some [VBytes (str_join l sep)] | None => None end
    | _ => None
    end
  else if String.eqb fn "strings.ToUpper" then
    match args with [VBytes s] => match str_upper s with Some u => Some [VBytes u] | None => None end | _ => None end
  else if String.eqb fn "makeErrBadFrame" then Some [VErr "ErrBadFrame" []]
  else if String.eqb fn "getStringForType" then
    match args with [VInt t] => Some [VBytes (type_string t)] | _ => None end
  else if String.eqb fn "makeFrame" then
    match args with [VBytes which; VInt t; VBytes brand] => Some [VBytes (make_frame which t brand)] | _ => None end
  else if String.eqb fn "shift" then
    (* shift(&v, n): ret = v[0:n]; v = v[n:]  (second result written back through &v); out of range: Go panics *)
    match args with
    | [VList ws; VInt n] =>
      if (Z.ltb n 0 || Z.ltb (Z.of_nat (List.length ws)) n)%bool then None
      else Some [VList (firstn (Z.to_nat n) ws); VList (skipn (Z.to_nat n) ws)]
    | _ => None
    end
  else if String.eqb fn "pop" then
    (* pop(&v, n): ret = v[len-n:]; v = v[0:len-n] *)
    match args with
    | [VList ws; VInt n] =>
      if (Z.ltb n 0 || Z.ltb (Z.of_nat (List.length ws)) n)%bool then None
      else Some [VList (skipn (Z.to_nat (Z.of_nat (List.length ws) - n)) ws);
                 VList (firstn (Z.to_nat (Z.of_nat (List.length ws) - n)) ws)]
    | _ => None
    end
  else if String.eqb fn "parseFrame" then
    match args with
    | [VBytes m; VInt t; VBytes hof] => Some [VBytes (pf_go_brand m t hof); g_res_err (parse_frame m t hof)]
    | _ => None
    end
  else if String.eqb fn "CheckArmor62" then
    match args with
    | [VBytes h; VBytes f; VInt t] =>
      match check_armor62 h f t with
      | Ok b => Some [VBytes b; VNil]
      | Err e => Some [VBytes []; g_err e]
      end
    | _ => None
    end
  else None.

Definition bs (s : string) := list_byte_of_string s.
Definition run7 (f : gfunc) args := fst (run_func2 ext_frame f args).

(* ---------- stepping tactics (copies of those of GoAstProofs3.v, which are local to its section) ---------- *)
Ltac use_head_hyp7 :=
  lazymatch goal with
  | |- ?G =>
    let L := lazymatch G with (?L = _ -> _) => L | ?L = _ => L | _ => G end in
    let h := head_scrut3 L in
    match goal with H : h = _ |- _ => rewrite H end
  end; cbv beta iota.
Ltac ev_in7 h :=
  eval cbv -[Z.eqb Z.ltb Z.leb Z.add Z.sub Z.of_nat Z.to_nat
             List.length nth_error firstn skipn app Nat.eqb
             bytes_eqb' bytes_eqb type_string collapse_ws trim_space split_byte g_strs
             make_frame parse_frame pf_go_brand check_armor62 g_res_err err_name err_args exec2] in h.
(* the externs are unfolded along with the evaluator: every call has a literal name and arguments of the right
   shape, so it reduces to its result (a stuck call inside an expression would otherwise leave the rest of
   [eval] unfolded around it) *)
Ltac ev_term7 X h := let h' := ev_in7 h in progress (change h with h'); cbv beta iota.
Ltac norm_env7 h x f e ss k :=
  let e' := ev_in7 e in
  tryif constr_eq e e' then k e
  else (change h with (exec2 x (S f) e' ss); k e').
Ltac fix_lvars7 :=
  repeat match goal with
  | |- context [lvars ?l] => let r := eval cbv [lvars map] in (lvars l) in change (lvars l) with r
  end.
Ltac step7 X :=
  lazymatch goal with
  | |- ?G =>
    let L := lazymatch G with (?L = _ -> _) => L | ?L = _ => L | _ => G end in
    let h := head_scrut3 L in
    lazymatch h with
    | exec2 ?x (S ?f) ?e ?ss =>
      norm_env7 h x f e ss ltac:(fun e' => rewrite (exec2_S x f e' ss); cbv beta iota zeta); fix_lvars7; cbv beta iota
    | g_strs _ => fail
    | _ => ev_term7 X h
    end
  end.
Ltac steps7 X := repeat first [step7 X | use_head_hyp7 | lits1 | lits2 | lits3].
Ltac start7 F :=
  cbv beta iota zeta delta [run7 run_func2 f_body f_params f_results F];
  lazymatch goal with
  | |- context [bind_params ?a ?b] =>
    let r := eval cbv [bind_params] in (bind_params a b) in change (bind_params a b) with r; cbv beta iota
  end;
  repeat match goal with
  | |- context [@map (string * string) (string * gval) ?f ?l] =>
    let r := eval cbv [map fst snd zero_of width String.eqb Ascii.eqb Bool.eqb orb] in (@map (string * string) (string * gval) f l) in
    change (@map (string * string) (string * gval) f l) with r
  end;
  repeat match goal with
  | |- context [@app (string * gval) ?l ?k] => is_spine l; let r := app_lit (string * gval)%type l k in change (@app (string * gval) l k) with r
  end.
Ltac show_head :=
  lazymatch goal with
  | |- ?G =>
    let L := lazymatch G with (?L = _ -> _) => L | ?L = _ => L | _ => G end in
    let h := head_scrut3 L in idtac h
  end.

(* ---------- getStringForType ---------- *)
(* (TARGET) *)
Lemma go_getStringForType (typ : Z) :
  run7 f_saltpack_getStringForType [VInt typ] = ORet [VBytes (type_string typ)].
Proof.
  start7 f_saltpack_getStringForType. unfold type_string.
  change mt_encryption with 0%Z; change mt_attached with 1%Z; change mt_detached with 2%Z.
  destruct (typ =? 0)%Z eqn:E0; [steps7 ext_frame; reflexivity|].
  destruct (typ =? 1)%Z eqn:E1; [steps7 ext_frame; reflexivity|].
  destruct (typ =? 2)%Z eqn:E2; steps7 ext_frame; reflexivity.
Qed.

(* ---------- MakeArmorHeader / MakeArmorFooter ---------- *)
(* (TARGET) *)
Lemma go_MakeArmorHeader (typ : Z) (brand : bytes) :
  run7 f_saltpack_MakeArmorHeader [VInt typ; VBytes brand] = ORet [VBytes (make_frame header_marker typ brand)].
Proof. start7 f_saltpack_MakeArmorHeader. steps7 ext_frame. reflexivity. Qed.
(* (TARGET) *)
Lemma go_MakeArmorFooter (typ : Z) (brand : bytes) :
  run7 f_saltpack_MakeArmorFooter [VInt typ; VBytes brand] = ORet [VBytes (make_frame footer_marker typ brand)].
Proof. start7 f_saltpack_MakeArmorFooter. steps7 ext_frame. reflexivity. Qed.
Lemma frame_len_cmp (m : bytes) : (512 <? Z.of_nat (List.length m))%Z = (max_frame_length <? len m)%N.
Proof. unfold len. change max_frame_length with 512%N. destruct (N.ltb_spec 512 (N.of_nat (List.length m))); lia. Qed.
Lemma brand_len_cmp (m : bytes) : (128 <? Z.of_nat (List.length m))%Z = (max_brand_length <? len m)%N.
Proof. unfold len. change max_brand_length with 128%N. destruct (N.ltb_spec 128 (N.of_nat (List.length m))); lia. Qed.
Lemma Zlen_S_eqb0 {A} (x : A) (l : list A) : (Z.of_nat (List.length (x :: l)) =? 0)%Z = false.
Proof. cbn [List.length]. lia. Qed.
Lemma Zlen_eqb {A} (l : list A) (n : nat) : (Z.of_nat (List.length l) =? Z.of_nat n)%Z = Nat.eqb (List.length l) n.
Proof. destruct (Nat.eqb_spec (List.length l) n); lia. Qed.

Ltac to_eqb' :=
  repeat match goal with |- context [bytes_eqb ?x ?y] => change (bytes_eqb x y) with (bytes_eqb' x y) end.
(* case analysis on a comparison of byte strings / lengths at the head *)
Ltac hd_cmp :=
  lazymatch goal with
  | |- ?G =>
    let L := lazymatch G with (?L = _ -> _) => L | ?L = _ => L | _ => G end in
    let h := head_scrut3 L in
    lazymatch h with
    | bytes_eqb' _ _ => idtac | Z.ltb _ _ => idtac
    end;
    destruct h eqn:?
  end; cbv beta iota.

Ltac rw_ts := match goal with H : type_string _ = _ |- context [type_string _] => rewrite H end; cbv beta iota.

Ltac pf_run := repeat first [step7 ext_frame | use_head_hyp7 | lits1 | lits2 | lits3 | rw_ts | hd_cmp].

(* (TARGET) *)
Lemma go_parseFrame (m : bytes) (typ : Z) (hof : bytes) :
  run7 f_saltpack_parseFrame [VBytes m; VInt typ; VBytes hof]
  = ORet [VBytes (pf_go_brand m typ hof); g_res_err (parse_frame m typ hof)].
Proof.
  start7 f_saltpack_parseFrame. unfold pf_go_brand, parse_frame. cbv zeta.
  rewrite <- (frame_len_cmp m).
  steps7 ext_frame.
  destruct (512 <? Z.of_nat (List.length m))%Z eqn:Elen.
  { steps7 ext_frame. reflexivity. }
  steps7 ext_frame.
  unfold normalise. set (s := trim_space (collapse_ws m false)). clearbody s.
  destruct (type_string typ) as [|c sf] eqn:Ets.
  { steps7 ext_frame. reflexivity. }
  rewrite Zlen_S_eqb0. cbv beta iota.
  steps7 ext_frame.
  change (split_byte " "%byte s []) with (split_byte sp s []). rewrite split_byte_sp. fold (words s).
  set (v := words s). clearbody v.
  rewrite <- (brand_len_cmp (nth 1 v [])).
  let x := eval vm_compute in format_upper in change format_upper with x.
  unfold sp. to_eqb'.
  unfold g_strs. cbv beta iota. rewrite !map_length.
  destruct (Nat.eqb (List.length v) 4) eqn:E4; cbv beta iota.
  - destruct v as [|w0 [|w1 [|w2 [|w3 [|w4 v]]]]]; try discriminate E4. clear E4.
    cbn [map List.length Nat.eqb orb negb andb nth Nat.sub join_sp]. unfold sp.
    pf_run; reflexivity.
  - destruct (Nat.eqb (List.length v) 5) eqn:E5; cbv beta iota.
    + destruct v as [|w0 [|w1 [|w2 [|w3 [|w4 [|w5 v]]]]]]; try discriminate E5. clear E4 E5.
      cbn [map List.length Nat.eqb orb negb andb nth Nat.sub join_sp]. unfold sp.
      pf_run; reflexivity.
    + cbn [orb negb andb]. apply Nat.eqb_neq in E4, E5.
      repeat match goal with |- context [@List.length ?A v] => progress change (@List.length A v) with (@List.length bytes v) end.
      repeat match goal with
      | |- context [(Z.of_nat ?n =? ?k)%Z] =>
        let H := fresh in assert (H : (Z.of_nat n =? k)%Z = false) by lia; rewrite H; clear H
      end.
      pf_run; reflexivity.
Qed.

(* what the brand returned by parseFrame is *)
Lemma pf_go_brand_ok (m : bytes) (typ : Z) (marker b : bytes) :
  parse_frame m typ marker = Ok b -> pf_go_brand m typ marker = b.
Proof. intros H. unfold pf_go_brand. rewrite H. reflexivity. Qed.
Lemma pf_go_brand_err (m : bytes) (typ : Z) (marker : bytes) (e : err) :
  parse_frame m typ marker = Err e ->
  pf_go_brand m typ marker = [] \/ (max_brand_length < len (pf_go_brand m typ marker))%N.
Proof.
  intros H. unfold pf_go_brand. rewrite H. unfold parse_frame in H.
  destruct (max_frame_length <? len m)%N; [left; reflexivity|].
  destruct (type_string typ) as [|c sf]; [left; reflexivity|].
  cbv zeta in *. set (v := words (normalise m)) in *.
  destruct (Nat.eqb (List.length v) 5) eqn:E5; [|left; reflexivity].
  apply Nat.eqb_eq in E5. rewrite E5 in H. cbn [Nat.eqb orb negb Nat.sub] in H.
  destruct (bytes_eqb (nth 0 v []) marker); [|left; reflexivity].
  destruct (bytes_eqb (join_sp [nth 3 v []; nth 4 v []]) (c :: sf)); [|left; reflexivity].
  destruct (bytes_eqb (nth 2 v []) format_upper); [|left; reflexivity].
  cbn [negb andb] in *.
  destruct (N.ltb_spec max_brand_length (len (nth 1 v []))); [right; assumption|discriminate].
Qed.

Lemma beqb'_sym (a : bytes) : forall b, bytes_eqb' a b = bytes_eqb' b a.
Proof.
  induction a as [|x a IH]; intros [|y b]; cbn [bytes_eqb']; try reflexivity.
  rewrite IH. f_equal. destruct (Byte.eqb x y) eqn:E, (Byte.eqb y x) eqn:E'; try reflexivity.
  - apply Byte.byte_dec_bl in E. subst. rewrite (Byte.byte_dec_lb eq_refl) in E'. discriminate.
  - apply Byte.byte_dec_bl in E'. subst. rewrite (Byte.byte_dec_lb eq_refl) in E. discriminate.
Qed.

(* ---------- CheckArmor62 ---------- *)
(* (brand, err) of CheckArmor62 / CheckArmor62Frame *)
Definition g_brand_res (r : result bytes) : list gval :=
  match r with Ok b => [VBytes b; VNil] | Err e => [VBytes []; g_err e] end.

(* (TARGET) *)
Lemma go_CheckArmor62 (hdr ftr : bytes) (typ : Z) :
  run7 f_saltpack_CheckArmor62 [VBytes hdr; VBytes ftr; VInt typ] = ORet (g_brand_res (check_armor62 hdr ftr typ)).
Proof.
  start7 f_saltpack_CheckArmor62. unfold check_armor62.
  let x := eval vm_compute in header_marker in change header_marker with x.
  let x := eval vm_compute in footer_marker in change footer_marker with x.
  steps7 ext_frame.
  destruct (parse_frame hdr typ _) as [b1|e1] eqn:E1; cbn [g_res_err bind]; unfold g_err.
  2:{ steps7 ext_frame. reflexivity. }
  steps7 ext_frame.
  destruct (parse_frame ftr typ _) as [b2|e2] eqn:E2; cbn [g_res_err bind]; unfold g_err.
  2:{ steps7 ext_frame. reflexivity. }
  steps7 ext_frame.
  rewrite (pf_go_brand_ok _ _ _ _ E1), (pf_go_brand_ok _ _ _ _ E2).
  to_eqb'. rewrite (beqb'_sym b2 b1).
  destruct (bytes_eqb' b1 b2); steps7 ext_frame; reflexivity.
Qed.

(* ---------- CheckArmor62Frame ---------- *)
(* The Frame argument is an interface value.  Its implementation is ARBITRARY here: two functions from the
   state of the frame object to (string, error, state afterwards) - the framedDecoderStream of armor.go loads the
   header on the first GetHeader, so the getters may change the object.  The externs written from them return
   the string and the error and write the new state back into the variable holding the object. *)
Definition is_errval (v : gval) : Prop := v = VNil \/ exists n a, v = VErr n a.

Section FrameObj.
Variable get_header get_footer : gval -> bytes * gval * gval.
Hypothesis get_header_err : forall fr, is_errval (snd (fst (get_header fr))).
Hypothesis get_footer_err : forall fr, is_errval (snd (fst (get_footer fr))).

Definition ext_frameobj : externs := fun fn args =>
  if String.eqb fn "Frame.GetHeader" then
    match args with [fr] => let '(s, e, fr') := get_header fr in Some [VBytes s; e; fr'] | _ => None end
  else if String.eqb fn "Frame.GetFooter" then
    match args with [fr] => let '(s, e, fr') := get_footer fr in Some [VBytes s; e; fr'] | _ => None end
  else ext_frame fn args.

(* results and final state of the frame object *)
Definition check_frame_model (fr : gval) (typ : Z) : list gval * gval :=
  let '(hs, he, fr1) := get_header fr in
  match he with
  | VNil =>
    let '(fs, fe, fr2) := get_footer fr1 in
    match fe with
    | VNil => (g_brand_res (check_armor62 hs fs typ), fr2)
    | _ => ([VBytes []; fe], fr2)
    end
  | _ => ([VBytes []; he], fr1)
  end.

Lemma go_CheckArmor62Frame_aux (fr : gval) (typ : Z) :
  (let '(o, e) := run_func2 ext_frameobj f_saltpack_CheckArmor62Frame [fr; VInt typ] in (o, lookup "frame" e))
  = (ORet (fst (check_frame_model fr typ)), Some (snd (check_frame_model fr typ))).
Proof.
  unfold check_frame_model.
  start7 f_saltpack_CheckArmor62Frame.
  steps7 ext_frameobj.
  pose proof (get_header_err fr) as Hh.
  destruct (get_header fr) as [[hs he] fr1]. cbn [fst snd] in Hh.
  destruct Hh as [-> | (n & a & ->)].
  2:{ steps7 ext_frameobj. reflexivity. }
  steps7 ext_frameobj.
  pose proof (get_footer_err fr1) as Hf.
  destruct (get_footer fr1) as [[fs fe] fr2]. cbn [fst snd] in Hf.
  destruct Hf as [-> | (n & a & ->)].
  2:{ steps7 ext_frameobj. reflexivity. }
  steps7 ext_frameobj.
  destruct (check_armor62 hs fs typ) as [b|e]; cbn [g_brand_res]; unfold g_err; steps7 ext_frameobj; reflexivity.
Qed.

(* (TARGET) *)
Lemma go_CheckArmor62Frame (fr : gval) (typ : Z) :
  let r := run_func2 ext_frameobj f_saltpack_CheckArmor62Frame [fr; VInt typ] in
  fst r = ORet (fst (check_frame_model fr typ)) /\ lookup "frame" (snd r) = Some (snd (check_frame_model fr typ)).
Proof.
  cbv zeta. pose proof (go_CheckArmor62Frame_aux fr typ) as H.
  destruct (run_func2 ext_frameobj f_saltpack_CheckArmor62Frame [fr; VInt typ]) as [o e].
  injection H as H1 H2. split; assumption.
Qed.
End FrameObj.


(* ---------- the four functions the evaluator cannot run: witnesses ---------- *)
(* pop and shift: on EVERY []string and count, with ANY externs, the first statement is stuck (ESlice of a VList) *)
Lemma pop_stuck (ext : externs) (ws : list gval) (n : Z) :
  fst (run_func2 ext f_saltpack_pop [VList ws; VInt n]) = OStuck "assign".
Proof. reflexivity. Qed.
Lemma shift_stuck (ext : externs) (ws : list gval) (n : Z) :
  fst (run_func2 ext f_saltpack_shift [VList ws; VInt n]) = OStuck "assign".
Proof. reflexivity. Qed.
(* makeFrame: for every message type that has an armor string, marker and brand (append to the value of the
   []string literal, a VStruct) *)
Lemma makeFrame_stuck (which brand : bytes) (typ : Z) :
  type_string typ <> [] -> run7 f_saltpack_makeFrame [VBytes which; VInt typ; VBytes brand] = OStuck "assign".
Proof.
  intros Hts. start7 f_saltpack_makeFrame. steps7 ext_frame.
  destruct (type_string typ) as [|c sf]; [congruence|].
  rewrite Zlen_S_eqb0. cbv beta iota. steps7 ext_frame.
  destruct brand as [|b0 brand]; cbn [List.length].
  - steps7 ext_frame. reflexivity.
  - replace (0 <? Z.of_nat (S (List.length brand)))%Z with true by (symmetry; lia). cbv beta iota.
    steps7 ext_frame. reflexivity.
Qed.
(* IsSaltpackArmoredPrefix: with the regexps given the model's matchers, a three-word prefix that the header
   regexp does not match reaches strings.Join(append([]string{strs[0]}, strs[2:]...), " ") and is stuck there *)
Definition ext_prefix : externs := fun fn args =>
  if String.eqb fn "Regexp.FindStringSubmatch" then
    match args with
    | [VBytes _; VBytes s] => match match_header s with None => Some [VList []] | Some _ => None end
    | _ => None
    end
  else if String.eqb fn "Regexp.MatchString" then
    match args with [VBytes _; VBytes s] => Some [VBool (partial_words_ok 5 s)] | _ => None end
  else ext_frame fn args.
Lemma IsSaltpackArmoredPrefix_stuck :
  fst (run_func2 ext_prefix f_saltpack_IsSaltpackArmoredPrefix [VBytes (bs "BEGIN SALTPACK ENC")]) = OStuck "call".
Proof. vm_compute. reflexivity. Qed.
