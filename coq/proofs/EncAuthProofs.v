(* EncAuthProofs.v — authenticity of encryption mode as a reduction.
   Whatever bytes are presented to an honest recipient R, the bytes released and
   attributed to an honest non-anonymous sender S are a prefix of one plaintext S
   really encrypted in a single message whose recipient list contains R, whole
   plaintext iff clean end — or the INPUT ITSELF contains, at the recipient's
   authenticator slot of an accepted packet, a valid HMAC tag under the pairwise
   S-R MAC key for a (header hash, index, payload hash) S never authenticated for
   R, or two different strings with equal SHA-512 are exhibited.
   Statements marked (TARGET) are used verbatim by props/. *)
From Coq Require Import List NArith ZArith Bool Lia ZifyN ZifyNat ZifyBool.
From Coq.Strings Require Import Byte.
From SP Require Import Bytes Params Msgpack Crypto Errors Nonce Packets Chunker Rand Verify Encrypt Decrypt
     MsgpackProofs ChunkerProofs SignProofs SignAuthProofs EncryptProofs.
Import ListNotations.
Open Scope N_scope.

Section Auth.
Variable c : crypto.
Hypothesis Hc : crypto_ok c.
Variable s_sk : bytes.      (* the honest sender's long-term box secret key *)
Variable r_sk : bytes.      (* the honest recipient's box secret key *)
Let SPK := dh_pub c s_sk.
Let RPK := dh_pub c r_sk.

(* one message the honest sender produced: any spec-following chunking *)
Record enc_msg := mkEncMsg {
  em_v : version; em_eph : bytes; em_pkey : bytes; em_rs : list rcpt; em_packets : list (bytes * bool)
}.

Definition em_header (m : enc_msg) : bytes :=
  enc_header_bytes c (em_v m) (Some s_sk) (em_eph m) (em_pkey m) (em_rs m).

Definition flags_ok_e (ps : list (bytes * bool)) : Prop :=
  exists init lastp, ps = init ++ [lastp] /\ snd lastp = true /\ Forall (fun p => snd p = false) init.

Definition em_ok (m : enc_msg) : Prop :=
  (em_v m = v1 \/ em_v m = v2) /\
  length (em_pkey m) = 32%nat /\
  N.of_nat (length (em_rs m)) < 4294967296 /\
  len (em_header m) < 4294967296 /\
  NoDup (map fst (em_rs m)) /\
  dh_pub c s_sk <> dh_pub c (em_eph m) /\
  N.of_nat (length (em_packets m)) < 18446744073709551615 /\
  flags_ok_e (em_packets m) /\
  (em_v m = v1 -> Forall (fun p => snd p = match fst p with [] => true | _ => false end) (em_packets m)).

(* the payload hashes S authenticated in message m, by packet number from n *)
Fixpoint em_hashes (v : version) (pkey hh : bytes) (n : N) (ps : list (bytes * bool)) : list bytes :=
  match ps with
  | [] => []
  | (chunk, final) :: t =>
    let nonce := nonce_chunk_secretbox n in
    match payload_hash c v hh nonce (sb_seal c pkey nonce chunk) final with
    | Some ph => ph :: em_hashes v pkey hh (n + 1) t
    | None => em_hashes v pkey hh (n + 1) t
    end
  end.

(* (header hash, recipient index, payload hash) triples S authenticated FOR R *)
Definition intended (L : list enc_msg) (hh : bytes) (pos : N) (ph : bytes) : Prop :=
  exists m hide, In m L /\ hh = sha512 c (em_header m) /\
    nth_error (em_rs m) (N.to_nat pos) = Some (RPK, hide) /\
    In ph (em_hashes (em_v m) (em_pkey m) hh 0 (em_packets m)).

Definition em_headers_distinct (L : list enc_msg) : Prop :=
  forall i j m1 m2, nth_error L i = Some m1 -> nth_error L j = Some m2 ->
    em_header m1 = em_header m2 -> i = j.

(* the (payload hash, presented authenticator) pairs of the packets the receiver's
   loop examines on [input], extracted by a fixed function that mirrors the loop *)
Fixpoint checked_tags (fuel : nat) (st : dec_state) (n : N) (input : bytes) : list (bytes * bytes) :=
  match fuel with
  | O => []
  | S f =>
    match read_packet input with
    | Err _ => []
    | Ok (m, rest) =>
      match of_dres (view_enc_block (ds_version st) m) with
      | Err _ => []
      | Ok (auths, ct, final) =>
        match payload_hash c (ds_version st) (ds_hh st) (nonce_chunk_secretbox n) ct final,
              nth_error auths (N.to_nat (ds_position st)) with
        | Some ph, Some theirs => (ph, theirs) :: checked_tags f st (n + 1) rest
        | _, _ => []
        end
      end
    end
  end.

(* the receiver state after the header, recomputed by a fixed function of the input *)
Definition receiver_state (vd : validator) (kr : keyring) (input : bytes) : option (dec_state * bytes) :=
  match read_header_bytes input with
  | Ok (hb, rest) =>
    match decode_header view_enc_header hb with
    | Ok h =>
      match process_enc_header c vd kr (sha512 c hb) h with
      | Ok (_, st) => Some (st, rest)
      | Err _ => None
      end
    | Err _ => None
    end
  | Err _ => None
  end.

Inductive EncBreak (vd : validator) (kr : keyring) (L : list enc_msg) (input : bytes) : Prop :=
| MacForgery (st : dec_state) (rest : bytes) (ph tag : bytes) :
    receiver_state vd kr input = Some (st, rest) ->
    In (ph, tag) (checked_tags (S (length rest)) st 0 rest) ->
    tag = payload_authenticator c (ds_mac_key st) ph ->
    ~ intended L (ds_hh st) (ds_position st) ph ->
    EncBreak vd kr L input
| ShaCollisionE (x y : bytes) :
    x <> y -> sha512 c x = sha512 c y -> EncBreak vd kr L input.

(* ================================================================== *)
(* Auxiliary development for the (TARGET) statements                   *)
(* ================================================================== *)

Definition beq_dec : forall a b : bytes, {a = b} + {a <> b} := list_eq_dec Byte.byte_eq_dec.

Definition is_nil_e (b : bytes) : bool := match b with [] => true | _ => false end.

(* ---------- the chunk nonce ---------- *)
Lemma nonce_chunk_len (n : N) : length (nonce_chunk_secretbox n) = 24%nat.
Proof. unfold nonce_chunk_secretbox. rewrite app_length, be64_length. reflexivity. Qed.

Lemma nonce_chunk_inj (i j : N) :
  i < 18446744073709551616 -> j < 18446744073709551616 ->
  nonce_chunk_secretbox i = nonce_chunk_secretbox j -> i = j.
Proof.
  intros Hi Hj E. unfold nonce_chunk_secretbox in E. apply app_inv_head in E.
  apply be64_inj; assumption.
Qed.

(* ---------- membership in the sender's authenticated hashes ---------- *)
Lemma em_hashes_in (v : version) (pkey hh x : bytes) : forall ps n,
  In x (em_hashes v pkey hh n ps) ->
  exists k ch f, nth_error ps k = Some (ch, f) /\
    payload_hash c v hh (nonce_chunk_secretbox (n + N.of_nat k))
      (sb_seal c pkey (nonce_chunk_secretbox (n + N.of_nat k)) ch) f = Some x.
Proof.
  induction ps as [|[ch f] t IH]; intros n H; cbn [em_hashes] in H; [destruct H|].
  assert (Hrec : In x (em_hashes v pkey hh (n + 1) t) ->
    exists k ch0 f0, nth_error ((ch, f) :: t) k = Some (ch0, f0) /\
      payload_hash c v hh (nonce_chunk_secretbox (n + N.of_nat k))
        (sb_seal c pkey (nonce_chunk_secretbox (n + N.of_nat k)) ch0) f0 = Some x).
  { intro H'. apply IH in H' as (k & ch' & f' & Hn & Hi). exists (S k), ch', f'.
    split; [exact Hn|]. replace (n + N.of_nat (S k)) with (n + 1 + N.of_nat k) by lia. exact Hi. }
  destruct (payload_hash c v hh (nonce_chunk_secretbox n)
              (sb_seal c pkey (nonce_chunk_secretbox n) ch) f) as [ph|] eqn:E.
  - destruct H as [<-|H]; [|exact (Hrec H)].
    exists 0%nat, ch, f. split; [reflexivity|]. cbn [N.of_nat]. rewrite N.add_0_r. exact E.
  - exact (Hrec H).
Qed.

(* ---------- [intended] is decidable (finite search, decidable byte equality) ---------- *)
Lemma intended_dec (L : list enc_msg) (hh : bytes) (pos : N) (ph : bytes) :
  intended L hh pos ph \/ ~ intended L hh pos ph.
Proof.
  unfold intended. induction L as [|m L IH].
  - right. intros (m & hide & [] & _).
  - destruct IH as [(m' & hide & Hin & H)|Hn].
    { left. exists m', hide. split; [right; exact Hin|exact H]. }
    destruct (beq_dec hh (sha512 c (em_header m))) as [E1|N1].
    2:{ right. intros (m' & hide & [<-|Hin] & H1 & H2 & H3); [contradiction|].
        apply Hn. exists m', hide. split; [exact Hin|]. split; [exact H1|]. split; [exact H2|exact H3]. }
    destruct (in_dec beq_dec ph (em_hashes (em_v m) (em_pkey m) hh 0 (em_packets m))) as [E3|N3].
    2:{ right. intros (m' & hide & [<-|Hin] & H1 & H2 & H3); [contradiction|].
        apply Hn. exists m', hide. split; [exact Hin|]. split; [exact H1|]. split; [exact H2|exact H3]. }
    destruct (nth_error (em_rs m) (N.to_nat pos)) as [[k hd]|] eqn:E2.
    2:{ right. intros (m' & hide & [<-|Hin] & H1 & H2 & H3); [rewrite E2 in H2; discriminate|].
        apply Hn. exists m', hide. split; [exact Hin|]. split; [exact H1|]. split; [exact H2|exact H3]. }
    destruct (beq_dec k RPK) as [Ek|Nk].
    + left. exists m, hd. rewrite Ek in E2. split; [left; reflexivity|]. split; [exact E1|]. split; [exact E2|exact E3].
    + right. intros (m' & hide & [<-|Hin] & H1 & H2 & H3).
      * rewrite E2 in H2. injection H2 as H2 _. contradiction.
      * apply Hn. exists m', hide. split; [exact Hin|]. split; [exact H1|]. split; [exact H2|exact H3].
Qed.

(* ---------- what [process_enc_header] guarantees about the payload key ---------- *)
Lemma sym_key_ok (b k : bytes) : sym_key b = Ok k -> k = b.
Proof.
  unfold sym_key. destruct (Nat.eqb (length b) 32); [|discriminate].
  intro H. injection H as <-. reflexivity.
Qed.

Lemma lbs_single (senders : option (list bytes)) (kids : list bytes) : forall i j k,
  lookup_box_secret (mkRing [(r_sk, RPK)] senders) kids i = Some (j, k) -> k = (r_sk, RPK).
Proof.
  induction kids as [|kid t IH]; intros i j k H; cbn [lookup_box_secret] in H; [discriminate|].
  destruct (find_key (mkRing [(r_sk, RPK)] senders) kid) as [k0|] eqn:E.
  - injection H as _ <-. unfold find_key in E. cbn [kr_keys find snd] in E.
    destruct (bytes_eqb RPK kid); [|discriminate]. injection E as <-. reflexivity.
  - exact (IH _ _ _ H).
Qed.

Definition key_opened (v : version) (eph : bytes) (rcvs : list (bytes * bytes)) (pos : N) (key : bytes) : Prop :=
  exists nonce, nonce_payload_key_box v pos = Some nonce /\
    sb_open c (dh_shared c r_sk eph) nonce (snd (nth (N.to_nat pos) rcvs ([], []))) = Some key.

Lemma try_visible_key (senders : option (list bytes)) (v : version) (eph : bytes)
      (rcvs : list (bytes * bytes)) (k : bytes * bytes) (key : bytes) (pos : N) :
  try_visible c (mkRing [(r_sk, RPK)] senders) v eph rcvs = Ok (Some (k, key, pos)) ->
  key_opened v eph rcvs pos key.
Proof.
  unfold try_visible.
  destruct (lookup_box_secret (mkRing [(r_sk, RPK)] senders) (map snd (named_with_index rcvs 0)) 0)
    as [[i k0]|] eqn:El; [|discriminate].
  apply lbs_single in El. subst k0.
  destruct (nth_error (named_with_index rcvs 0) i) as [[orig kid]|]; [|discriminate].
  destruct (nonce_payload_key_box v orig) as [nonce|] eqn:En; [|discriminate].
  unfold box_open. cbn [fst].
  destruct (sb_open c (dh_shared c r_sk eph) nonce (snd (nth (N.to_nat orig) rcvs ([], []))))
    as [pk|] eqn:Eo; [|discriminate].
  destruct (sym_key pk) as [key'|e] eqn:Es; cbv beta iota delta [bind]; [|discriminate].
  intro H. injection H as _ <- <-. apply sym_key_ok in Es. subst key'.
  exists nonce. split; assumption.
Qed.

Lemma thb_key (v : version) (shared : bytes) : forall rcvs s key i,
  try_hidden_boxes c v shared rcvs s = Ok (Some (key, i)) ->
  exists j nonce, i = s + N.of_nat j /\ nonce_payload_key_box v i = Some nonce /\
    sb_open c shared nonce (snd (nth j rcvs ([], []))) = Some key.
Proof.
  induction rcvs as [|[kid box] t IH]; intros s key i H; cbn [try_hidden_boxes] in H; [discriminate|].
  assert (Hrec : try_hidden_boxes c v shared t (s + 1) = Ok (Some (key, i)) ->
    exists j nonce, i = s + N.of_nat j /\ nonce_payload_key_box v i = Some nonce /\
      sb_open c shared nonce (snd (nth j ((kid, box) :: t) ([], []))) = Some key).
  { intro H'. apply IH in H' as (j & nonce & Ei & Hn & Ho). exists (S j), nonce.
    split; [lia|]. split; [exact Hn|exact Ho]. }
  destruct kid as [|b kid]; [|exact (Hrec H)].
  destruct (nonce_payload_key_box v s) as [nonce|] eqn:En; [|discriminate].
  destruct (sb_open c shared nonce box) as [pk|] eqn:Eo; [|exact (Hrec H)].
  destruct (sym_key pk) as [key'|e] eqn:Es; cbv beta iota delta [bind] in H; [|discriminate].
  injection H as <- <-. apply sym_key_ok in Es. subst key'.
  exists 0%nat, nonce. cbn [N.of_nat nth snd]. rewrite N.add_0_r. auto.
Qed.

Lemma try_hidden_key (v : version) (eph : bytes) (rcvs : list (bytes * bytes))
      (k : bytes * bytes) (key : bytes) (pos : N) :
  try_hidden c [(r_sk, RPK)] v eph rcvs = Ok (Some (k, key, pos)) ->
  key_opened v eph rcvs pos key.
Proof.
  cbn [try_hidden fst].
  destruct (try_hidden_boxes c v (dh_shared c r_sk eph) rcvs 0) as [[[key' i]|]|e] eqn:E; try discriminate.
  intro H. injection H as _ <- <-.
  apply thb_key in E as (j & nonce & Ei & Hn & Ho). rewrite N.add_0_l in Ei.
  exists nonce. split; [exact Hn|]. rewrite Ei, Nat2N.id. exact Ho.
Qed.

Lemma process_key (vd : validator) (senders : option (list bytes)) (hh : bytes) (h : header)
      (m : mki) (st : dec_state) :
  process_enc_header c vd (mkRing [(r_sk, RPK)] senders) hh h = Ok (m, st) ->
  ds_version st = h_version h /\ ds_hh st = hh /\
  key_opened (h_version h) (h_a h) (h_rcvs h) (ds_position st) (ds_payload_key st).
Proof.
  unfold process_enc_header.
  destruct (validate_enc_header vd h) as [u|e]; cbv beta iota zeta delta [bind]; [|discriminate].
  destruct (negb (Nat.eqb (length (h_a h)) 32)); [discriminate|].
  assert (Tail : forall (k : bytes * bytes) (key : bytes) (pos : N) (ranon : bool) (nanon : N),
    key_opened (h_version h) (h_a h) (h_rcvs h) pos key ->
    match sb_open c key nonce_sender_key_sbox (h_b h) with
    | None => Err ErrBadSenderKeySecretbox
    | Some sender =>
      if negb (Nat.eqb (length sender) 32) then Err ErrBadBoxKey
      else
        match (if bytes_eqb (h_a h) sender then Ok (h_a h, true)
               else match lookup_sender (mkRing [(r_sk, RPK)] senders) sender with
                    | None => Err ErrNoSenderKey
                    | Some s => Ok (s, false)
                    end) with
        | Ok sa =>
          match mac_key_receiver c (h_version h) pos (fst k) (fst sa) (h_a h) hh with
          | None => Err (Panic 8)
          | Some mk =>
            Ok (mkMki (fst sa) (snd sa) (snd k) ranon (map snd (named_with_index (h_rcvs h) 0)) nanon,
                mkDec (h_version h) key mk pos hh)
          end
        | Err e => Err e
        end
    end = Ok (m, st) ->
    ds_version st = h_version h /\ ds_hh st = hh /\
    key_opened (h_version h) (h_a h) (h_rcvs h) (ds_position st) (ds_payload_key st)).
  { intros k key pos ranon nanon Hk.
    destruct (sb_open c key nonce_sender_key_sbox (h_b h)) as [sender|]; [|discriminate].
    destruct (negb (Nat.eqb (length sender) 32)); [discriminate|].
    destruct (if bytes_eqb (h_a h) sender then Ok (h_a h, true)
              else match lookup_sender (mkRing [(r_sk, RPK)] senders) sender with
                   | None => Err ErrNoSenderKey
                   | Some s => Ok (s, false)
                   end) as [sa|e]; [|discriminate].
    destruct (mac_key_receiver c (h_version h) pos (fst k) (fst sa) (h_a h) hh) as [mk|]; [|discriminate].
    intro H. injection H as _ <-. cbn [ds_version ds_hh ds_position ds_payload_key].
    split; [reflexivity|]. split; [reflexivity|exact Hk]. }
  destruct (try_visible c (mkRing [(r_sk, RPK)] senders) (h_version h) (h_a h) (h_rcvs h))
    as [[[[k key] pos]|]|e] eqn:Ev; try discriminate.
  - apply try_visible_key in Ev. exact (Tail k key pos false 0 Ev).
  - cbn [kr_keys].
    destruct (try_hidden c [(r_sk, RPK)] (h_version h) (h_a h) (h_rcvs h))
      as [[[[k key] pos]|]|e] eqn:Eh; try discriminate.
    apply try_hidden_key in Eh. exact (Tail k key pos true (count_anon (h_rcvs h)) Eh).
Qed.

(* ---------- the receiver's loop ---------- *)

(* packet [n] carried ciphertext that opened to [chunk] with final flag [final], and
   its authenticator at our slot (a member of [T]) verified *)
Definition e_pkt_ok (st : dec_state) (T : list (bytes * bytes)) (n : N) (chunk : bytes) (final : bool) : Prop :=
  exists ct ph tag,
    In (ph, tag) T /\ tag = payload_authenticator c (ds_mac_key st) ph /\
    payload_hash c (ds_version st) (ds_hh st) (nonce_chunk_secretbox n) ct final = Some ph /\
    sb_open c (ds_payload_key st) (nonce_chunk_secretbox n) ct = Some chunk /\
    n < 18446744073709551615 /\
    ((vmaj (ds_version st) = 1)%Z -> final = Nat.eqb (length ct) 16).

Fixpoint e_rel (st : dec_state) (T : list (bytes * bytes)) (n : N) (rs : list (bytes * bool)) : Prop :=
  match rs with
  | [] => True
  | (ch, f) :: t => e_pkt_ok st T n ch f /\ e_rel st T (n + 1) t
  end.

Lemma e_pkt_ok_incl (st : dec_state) (T T' : list (bytes * bytes)) (n : N) (ch : bytes) (f : bool) :
  incl T T' -> e_pkt_ok st T n ch f -> e_pkt_ok st T' n ch f.
Proof.
  intros Hi (ct & ph & tag & Hin & H). exists ct, ph, tag. split; [apply Hi; exact Hin|exact H].
Qed.

Lemma e_rel_incl (st : dec_state) (T T' : list (bytes * bytes)) : incl T T' ->
  forall rs n, e_rel st T n rs -> e_rel st T' n rs.
Proof.
  intros Hi. induction rs as [|[ch f] t IH]; intros n H; cbn [e_rel] in *; [exact I|].
  destruct H as [H1 H2]. split; [exact (e_pkt_ok_incl st T T' n ch f Hi H1)|exact (IH _ H2)].
Qed.

Lemma view_enc_block_v1 (v : version) (m : mval) (auths : list bytes) (ct : bytes) (f : bool) :
  view_enc_block v m = DOk (auths, ct, f) -> (vmaj v = 1)%Z -> f = Nat.eqb (length ct) 16.
Proof.
  intros H E. unfold view_enc_block in H. rewrite E in H. change (1 =? 1)%Z with true in H.
  destruct (as_array m) as [l| |]; cbn [dbind] in H; try discriminate.
  destruct (as_array (field l 0)) as [al| |]; cbn [dbind] in H; try discriminate.
  destruct (view_list view_auth al) as [a| |]; cbn [dbind] in H; try discriminate.
  destruct (as_bytes (field l 1)) as [k| |]; cbn [dbind] in H; try discriminate.
  injection H as _ <- <-. reflexivity.
Qed.

Lemma decrypt_loop_inv (st : dec_state) : forall fuel n input acc,
  exists rs,
    so_chunks (decrypt_loop c fuel st n input acc) = rev acc ++ map fst rs /\
    e_rel st (checked_tags fuel st n input) n rs /\
    (so_end (decrypt_loop c fuel st n input acc) = EOF -> ends_final rs).
Proof.
  assert (Stop : forall (acc : list bytes) (e : err) (T : list (bytes * bytes)) n, e <> EOF ->
            exists rs, so_chunks (mkOut (rev_append acc []) e) = rev acc ++ map fst rs /\
                       e_rel st T n rs /\ (so_end (mkOut (rev_append acc []) e) = EOF -> ends_final rs)).
  { intros acc e T n He. exists []. cbn [so_chunks so_end map e_rel].
    rewrite rev_append_rev, !app_nil_r. split; [reflexivity|]. split; [exact I|].
    intro E. contradiction. }
  induction fuel as [|fuel IH]; intros n input acc; cbn [decrypt_loop checked_tags].
  - apply Stop. discriminate.
  - destruct (read_packet input) as [[m rest]|e] eqn:Er.
    2:{ apply Stop. intros ->. exact (read_packet_not_eof input Er). }
    destruct (negb ((vmaj (ds_version st) =? 1)%Z || (vmaj (ds_version st) =? 2)%Z)) eqn:Evm;
      [apply Stop; discriminate|].
    destruct (of_dres (view_enc_block (ds_version st) m)) as [[[auths ct] f]|e] eqn:Ev.
    2:{ apply Stop. intros ->. exact (of_dres_not_eof _ Ev). }
    destruct (block_number_ok n) eqn:Eb; cbn [negb]; [|apply Stop; discriminate].
    destruct (payload_hash c (ds_version st) (ds_hh st) (nonce_chunk_secretbox n) ct f) as [ph|] eqn:Eph;
      [|apply Stop; discriminate].
    destruct (nth_error auths (N.to_nat (ds_position st))) as [theirs|] eqn:Eth; [|apply Stop; discriminate].
    destruct (bytes_eqb (payload_authenticator c (ds_mac_key st) ph) theirs) eqn:Etag; cbn [negb];
      [|apply Stop; discriminate].
    destruct (sb_open c (ds_payload_key st) (nonce_chunk_secretbox n) ct) as [chunk|] eqn:Eo;
      [|apply Stop; discriminate].
    destruct (check_chunk_state (ds_version st) (length chunk) n f) as [u|e] eqn:Ec.
    2:{ apply Stop. intros ->. exact (check_chunk_state_not_eof _ _ _ _ Ec). }
    assert (Hok : e_pkt_ok st ((ph, theirs) :: checked_tags fuel st (n + 1) rest) n chunk f).
    { exists ct, ph, theirs. split; [left; reflexivity|].
      split; [symmetry; apply bytes_eqb_true; exact Etag|]. split; [exact Eph|]. split; [exact Eo|].
      split; [unfold block_number_ok in Eb; apply N.ltb_lt in Eb; exact Eb|].
      intro E1. destruct (view_enc_block (ds_version st) m) as [[[a k] b]| |] eqn:Evb;
        cbn [of_dres] in Ev; try discriminate.
      injection Ev as -> -> ->. exact (view_enc_block_v1 _ m auths ct f Evb E1). }
    destruct f.
    + exists [(chunk, true)]. cbn [so_chunks so_end map fst e_rel].
      rewrite rev_append_rev, app_nil_r. cbn [rev]. split; [reflexivity|].
      split; [split; [exact Hok|exact I]|]. intros _. exists [], chunk. reflexivity.
    + destruct (IH (n + 1) rest (chunk :: acc)) as (rs & Hch & Hr & He).
      exists ((chunk, false) :: rs). rewrite Hch. cbn [rev map fst e_rel]. rewrite <- app_assoc.
      split; [reflexivity|]. split.
      * split; [exact Hok|]. apply (e_rel_incl st (checked_tags fuel st (n + 1) rest)); [|exact Hr].
        intros x Hx. right. exact Hx.
      * intro E. destruct (He E) as (init & ch' & ->). exists ((chunk, false) :: init), ch'. reflexivity.
Qed.

(* ---------- one packet ---------- *)
Lemma sha_inj_or_e (vd : validator) (kr : keyring) (L : list enc_msg) (input : bytes) (x y : bytes) :
  sha512 c x = sha512 c y -> x = y \/ EncBreak vd kr L input.
Proof.
  intro H. destruct (beq_dec x y) as [E|Hne]; [left; exact E|].
  right. exact (ShaCollisionE vd kr L input x y Hne H).
Qed.

(* packet [n] of an honest message with header bytes [hb], whose recipient at position
   [pos] is R, is (chunk, final) *)
Definition e_pkt_auth (L : list enc_msg) (hb : bytes) (pos : N) (n : N) (ch : bytes) (f : bool) : Prop :=
  exists msg hide,
    In msg L /\ em_header msg = hb /\
    nth_error (em_rs msg) (N.to_nat pos) = Some (RPK, hide) /\
    nth_error (em_packets msg) (N.to_nat n) = Some (ch, f).

Lemma e_packet_reduction (vd : validator) (kr : keyring) (L : list enc_msg) (input : bytes)
      (st : dec_state) (rest hb : bytes) (h : header) (n : N) (ch : bytes) (f : bool) :
  Forall em_ok L ->
  receiver_state vd kr input = Some (st, rest) ->
  ds_hh st = sha512 c hb ->
  decode_header view_enc_header hb = Ok h ->
  ds_version st = h_version h ->
  key_opened (h_version h) (h_a h) (h_rcvs h) (ds_position st) (ds_payload_key st) ->
  e_pkt_ok st (checked_tags (S (length rest)) st 0 rest) n ch f ->
  e_pkt_auth L hb (ds_position st) n ch f \/ EncBreak vd kr L input.
Proof.
  intros HL Hrs Hhh Hdec Hver Hkey (ct & ph & tag & Hin & Htag & Hph & Hopen & Hn & Hv1).
  destruct (intended_dec L (ds_hh st) (ds_position st) ph) as [Hi|Hni];
    [|right; exact (MacForgery vd kr L input st rest ph tag Hrs Hin Htag Hni)].
  destruct Hi as (msg & hide & HinL & Ehh & Hnth & Hph').
  assert (Ehb : sha512 c hb = sha512 c (em_header msg)) by (rewrite <- Hhh; exact Ehh).
  apply (sha_inj_or_e vd kr L input) in Ehb as [Ehb|B]; [|right; exact B].
  pose proof (proj1 (Forall_forall _ _) HL _ HinL) as Hok.
  destruct Hok as (Hv & Hpk & Hnr & Hlen & Hnd & Hse & Hnp & Hfl & Hv1').
  (* the decoded header is the genuine one *)
  assert (Eh : h = mkHeader format_name (em_v msg) mt_encryption (dh_pub c (em_eph msg))
                 (sb_seal c (em_pkey msg) nonce_sender_key_sbox (dh_pub c s_sk))
                 (mapi_from (rcv_of c (em_v msg) (em_eph msg) (em_pkey msg)) 0 (em_rs msg))).
  { rewrite Ehb in Hdec. unfold em_header in Hdec, Hlen.
    rewrite (header_roundtrip c Hc (em_v msg) (Some s_sk) (em_eph msg) (em_pkey msg) (em_rs msg)
               Hv Hpk Hnr Hlen) in Hdec.
    injection Hdec as <-. reflexivity. }
  rewrite Eh in Hver, Hkey. cbn [h_version h_a h_rcvs] in Hver, Hkey.
  (* the payload key *)
  assert (Ekey : ds_payload_key st = em_pkey msg).
  { destruct Hkey as (nonce & Hnonce & Hopen_k).
    rewrite <- (N2Nat.id (ds_position st)) in Hnonce.
    rewrite (rcv_box c (em_v msg) (em_eph msg) (em_pkey msg) (em_rs msg) _ _ Hnth) in Hopen_k.
    cbn [fst] in Hopen_k. unfold nonce_of in Hopen_k. rewrite Hnonce in Hopen_k.
    rewrite (ok_dh c Hc r_sk (em_eph msg)) in Hopen_k. fold RPK in Hopen_k.
    rewrite (ok_sb c Hc) in Hopen_k. injection Hopen_k as <-. reflexivity. }
  apply em_hashes_in in Hph' as (k & ch' & f' & Hk & Hph').
  rewrite N.add_0_l in Hph'.
  assert (Hklt : (k < length (em_packets msg))%nat) by (apply nth_error_Some; congruence).
  rewrite Hver in Hph, Hv1. rewrite Ekey in Hopen.
  set (ct' := sb_seal c (em_pkey msg) (nonce_chunk_secretbox (N.of_nat k)) ch') in *.
  (* conclusion from equality of nonces, ciphertexts and final flags *)
  assert (Fin : nonce_chunk_secretbox n = nonce_chunk_secretbox (N.of_nat k) -> ct = ct' -> f = f' ->
                e_pkt_auth L hb (ds_position st) n ch f \/ EncBreak vd kr L input).
  { intros En Ect Ef. left.
    assert (Ei : n = N.of_nat k) by (apply nonce_chunk_inj; [lia|lia|exact En]).
    subst n f. exists msg, hide. split; [exact HinL|]. split; [symmetry; exact Ehb|].
    split; [exact Hnth|]. rewrite Nat2N.id, Hk.
    rewrite Ect in Hopen. unfold ct' in Hopen. rewrite (ok_sb c Hc) in Hopen.
    injection Hopen as <-. reflexivity. }
  unfold payload_hash in Hph, Hph'.
  destruct Hv as [Ev|Ev]; rewrite Ev in Hph, Hph', Hv1.
  - (* V1 *)
    change (vmaj v1 =? 1)%Z with true in Hph, Hph'. cbv beta iota in Hph, Hph'.
    assert (Esh : sha512 c (ds_hh st ++ nonce_chunk_secretbox n ++ ct) =
                  sha512 c (ds_hh st ++ nonce_chunk_secretbox (N.of_nat k) ++ ct')) by congruence.
    apply (sha_inj_or_e vd kr L input) in Esh as [Esh|B]; [|right; exact B].
    apply app_inv_head in Esh.
    apply app_len_inj in Esh as [En Ect]; [|rewrite !nonce_chunk_len; reflexivity].
    apply Fin; [exact En|exact Ect|].
    rewrite (Hv1 eq_refl), Ect. unfold ct'. rewrite (ok_sb_len c Hc).
    specialize (Hv1' Ev). rewrite Forall_forall in Hv1'.
    apply nth_error_In in Hk. apply Hv1' in Hk. cbn [fst snd] in Hk. rewrite Hk.
    destruct ch'; reflexivity.
  - (* V2 *)
    change (vmaj v2 =? 1)%Z with false in Hph, Hph'. change (vmaj v2 =? 2)%Z with true in Hph, Hph'.
    cbv beta iota in Hph, Hph'.
    assert (Esh : sha512 c (ds_hh st ++ nonce_chunk_secretbox n ++ final_byte f ++ ct) =
                  sha512 c (ds_hh st ++ nonce_chunk_secretbox (N.of_nat k) ++ final_byte f' ++ ct')) by congruence.
    apply (sha_inj_or_e vd kr L input) in Esh as [Esh|B]; [|right; exact B].
    apply app_inv_head in Esh.
    apply app_len_inj in Esh as [En Eb]; [|rewrite !nonce_chunk_len; reflexivity].
    unfold final_byte in Eb. cbn [app] in Eb. injection Eb as Ef Ect.
    apply Fin; [exact En|exact Ect|].
    destruct f, f'; try discriminate; reflexivity.
Qed.

(* ---------- assembly ---------- *)
Fixpoint e_auth_from (L : list enc_msg) (hb : bytes) (pos : N) (n : N) (rs : list (bytes * bool)) : Prop :=
  match rs with
  | [] => True
  | (ch, f) :: t => e_pkt_auth L hb pos n ch f /\ e_auth_from L hb pos (n + 1) t
  end.

Lemma e_rel_auth (vd : validator) (kr : keyring) (L : list enc_msg) (input : bytes)
      (st : dec_state) (rest hb : bytes) (h : header) :
  Forall em_ok L ->
  receiver_state vd kr input = Some (st, rest) ->
  ds_hh st = sha512 c hb ->
  decode_header view_enc_header hb = Ok h ->
  ds_version st = h_version h ->
  key_opened (h_version h) (h_a h) (h_rcvs h) (ds_position st) (ds_payload_key st) ->
  forall rs n, e_rel st (checked_tags (S (length rest)) st 0 rest) n rs ->
    e_auth_from L hb (ds_position st) n rs \/ EncBreak vd kr L input.
Proof.
  intros HL Hrs Hhh Hdec Hver Hkey.
  induction rs as [|[ch f] t IH]; intros n H; cbn [e_rel e_auth_from] in *.
  - left. exact I.
  - destruct H as [H1 H2].
    destruct (e_packet_reduction vd kr L input st rest hb h n ch f HL Hrs Hhh Hdec Hver Hkey H1) as [A|B];
      [|right; exact B].
    destruct (IH (n + 1) H2) as [A'|B]; [|right; exact B].
    left. split; assumption.
Qed.

Lemma e_auth_from_nth (L : list enc_msg) (hb : bytes) (pos : N) : forall rs n k ch f,
  e_auth_from L hb pos n rs -> nth_error rs k = Some (ch, f) -> e_pkt_auth L hb pos (n + N.of_nat k) ch f.
Proof.
  induction rs as [|[ch0 f0] t IH]; intros n k ch f H Hn; [destruct k; discriminate|].
  cbn [e_auth_from] in H. destruct H as [H1 H2]. destruct k as [|k]; cbn [nth_error] in Hn.
  - injection Hn as <- <-. cbn [N.of_nat]. rewrite N.add_0_r. exact H1.
  - replace (n + N.of_nat (S k)) with (n + 1 + N.of_nat k) by lia. exact (IH _ _ _ _ H2 Hn).
Qed.

Lemma e_assemble (L : list enc_msg) (hb : bytes) (pos : N) (r0 : bytes * bool) (rs : list (bytes * bool)) :
  em_headers_distinct L -> Forall em_ok L -> e_auth_from L hb pos 0 (r0 :: rs) ->
  exists msg hide t,
    In msg L /\ nth_error (em_rs msg) (N.to_nat pos) = Some (RPK, hide) /\
    em_packets msg = (r0 :: rs) ++ t /\ (ends_final (r0 :: rs) -> t = []).
Proof.
  intros Hd Hok Ha.
  destruct r0 as [ch0 f0].
  destruct (e_auth_from_nth L hb pos _ 0 0%nat ch0 f0 Ha eq_refl) as (msg0 & hide0 & Hin0 & Hh0 & Hr0 & _).
  assert (Hall : forall k x, nth_error ((ch0, f0) :: rs) k = Some x -> nth_error (em_packets msg0) k = Some x).
  { intros k [ch f] Hk.
    destruct (e_auth_from_nth L hb pos _ 0 k ch f Ha Hk) as (msg & hide & Hin & Hh & _ & Hn).
    rewrite N.add_0_l, Nat2N.id in Hn.
    destruct (In_nth_error _ _ Hin0) as [a Ea]. destruct (In_nth_error _ _ Hin) as [b Eb].
    assert (a = b) by (apply (Hd a b _ _ Ea Eb); congruence).
    subst b. rewrite Ea in Eb. injection Eb as <-. exact Hn. }
  apply nth_prefix in Hall as [t Et].
  exists msg0, hide0, t. split; [exact Hin0|]. split; [exact Hr0|]. split; [exact Et|].
  intros (init & ch & Ei).
  pose proof (proj1 (Forall_forall _ _) Hok _ Hin0) as Hev.
  destruct Hev as (_ & _ & _ & _ & _ & _ & _ & Hfl & _).
  rewrite Et, Ei in Hfl. exact (flags_ok_last _ _ _ Hfl).
Qed.

(* (TARGET) C02 *)
Lemma open_authentic (vd : validator) (senders : option (list bytes)) (input : bytes)
      (m : mki) (out : stream_out) (L : list enc_msg) :
  Forall em_ok L -> em_headers_distinct L ->
  N.of_nat (length input) < 18446744073709551616 ->
  let kr := mkRing [(r_sk, RPK)] senders in
  open_stream c vd kr input = Ok (m, out) ->
  mki_sender m = SPK -> mki_sender_anon m = false ->
  (so_chunks out = [] /\ so_end out <> EOF) \/
  (exists msg hide pos,
      In msg L /\ nth_error (em_rs msg) pos = Some (RPK, hide) /\
      list_prefix (so_chunks out) (map fst (em_packets msg)) /\
      (so_end out = EOF -> so_chunks out = map fst (em_packets msg)))
  \/ EncBreak vd kr L input.
Proof.
  intros Hok Hd Hlen kr Hopen _ _.
  unfold open_stream in Hopen.
  destruct (read_header_bytes input) as [[hb rest]|e] eqn:Erh;
    cbv beta iota delta [bind fst snd] in Hopen; [|discriminate].
  destruct (decode_header view_enc_header hb) as [h|e] eqn:Edh;
    cbv beta iota delta [bind] in Hopen; [|discriminate].
  destruct (process_enc_header c vd kr (sha512 c hb) h) as [[m' st]|e] eqn:Eproc;
    cbv beta iota delta [bind fst snd] in Hopen; [|discriminate].
  remember (decrypt_loop c (S (length rest)) st 0 rest []) as lp eqn:Elp in Hopen.
  assert (Eout : out = lp) by (injection Hopen as _ <-; reflexivity).
  clear Hopen. subst out lp.
  assert (Hrs : receiver_state vd kr input = Some (st, rest)).
  { unfold receiver_state. rewrite Erh, Edh, Eproc. reflexivity. }
  unfold kr in Eproc. apply process_key in Eproc as (Hver & Hhh & Hkey).
  destruct (decrypt_loop_inv st (S (length rest)) 0 rest []) as (rs & Hch & Hrel & Heof).
  destruct (e_rel_auth vd kr L input st rest hb h Hok Hrs Hhh Edh Hver Hkey rs 0 Hrel) as [Ha|B];
    [|right; right; exact B].
  destruct rs as [|r0 rs].
  - left. split; [rewrite Hch; reflexivity|].
    intro E. destruct (Heof E) as (init & ch & E'). destruct init; discriminate.
  - right. left.
    destruct (e_assemble L hb (ds_position st) r0 rs Hd Hok Ha) as (msg & hide & t & Hin & Hr & Et & Hfin).
    exists msg, hide, (N.to_nat (ds_position st)). split; [exact Hin|]. split; [exact Hr|].
    rewrite Hch. cbn [rev app]. split.
    + rewrite Et, map_app. apply list_prefix_app.
    + intro E. rewrite (Hfin (Heof E)) in Et. rewrite app_nil_r in Et. rewrite Et. reflexivity.
Qed.

(* (TARGET) C02: the all-at-once form returns plaintext only if it is the whole
   plaintext of one such message *)
Lemma open_authentic_all (vd : validator) (senders : option (list bytes)) (input : bytes)
      (m : mki) (pt : bytes) (L : list enc_msg) :
  Forall em_ok L -> em_headers_distinct L ->
  N.of_nat (length input) < 18446744073709551616 ->
  let kr := mkRing [(r_sk, RPK)] senders in
  open_all c vd kr input = Ok (m, pt) ->
  mki_sender m = SPK -> mki_sender_anon m = false ->
  (exists msg hide pos,
      In msg L /\ nth_error (em_rs msg) pos = Some (RPK, hide) /\ pt = concat (map fst (em_packets msg)))
  \/ EncBreak vd kr L input.
Proof.
  intros Hok Hd Hlen kr Hopen Hs Ha. unfold open_all in Hopen.
  destruct (open_stream c vd kr input) as [[m' out]|e] eqn:Es; cbv beta iota delta [bind] in Hopen; [|discriminate].
  cbn [fst snd] in Hopen.
  destruct (so_end out) eqn:Ee; try discriminate.
  assert (Em : m' = m) by (injection Hopen as -> _; reflexivity).
  assert (Ept : pt = concat (so_chunks out)) by (injection Hopen as _ <-; reflexivity).
  clear Hopen. subst m' pt.
  destruct (open_authentic vd senders input m out L Hok Hd Hlen Es Hs Ha)
    as [[_ Hne]|[(msg & hide & pos & Hin & Hr & _ & Hall)|B]].
  - contradiction.
  - left. exists msg, hide, pos. split; [exact Hin|]. split; [exact Hr|]. rewrite (Hall Ee). reflexivity.
  - right. exact B.
Qed.

End Auth.
