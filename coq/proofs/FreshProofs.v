(* FreshProofs.v — randomness consumption and nonce distinctness (C18). *)
From Coq Require Import List NArith ZArith Bool Lia ZifyN ZifyNat ZifyBool.
From Coq.Strings Require Import Byte.
From SP Require Import Bytes Params Nonce Rand RandProofs SignAuthProofs EncAuthProofs.
Import ListNotations.
Open Scope N_scope.

(* the shuffle consumes a prefix of the randomness stream and leaves the rest untouched *)
Lemma shuffle_loop_suffix {A} : forall (i : nat) (l l' : list A) (r r' : rng),
  shuffle_loop i l r = Some (l', r') -> exists pre, r = pre ++ r'.
Proof.
  induction i as [|i IH]; intros l l' r r' H; cbn [shuffle_loop] in H.
  - injection H as _ <-. exists []. reflexivity.
  - destruct (uint32n (N.of_nat (S (S i))) r) as [[j r1]|] eqn:E; [|discriminate].
    apply uint32n_first_accept in E; [|lia].
    destruct E as (rej & v & Er & _).
    apply IH in H. destruct H as (pre & Hp).
    exists (concat (map be32 rej) ++ be32 v ++ pre). rewrite Er, Hp. rewrite <- !app_assoc. reflexivity.
Qed.

Lemma shuffle_suffix {A} (l l' : list A) (r r' : rng) :
  shuffle l r = Some (l', r') -> exists pre, r = pre ++ r'.
Proof. unfold shuffle. apply shuffle_loop_suffix. Qed.

(* within one encrypted message no two chunks use the same secretbox nonce (the key is the one payload key) *)
Lemma enc_chunk_nonces_distinct (i j : N) :
  i < 18446744073709551615 -> j < 18446744073709551615 -> i <> j ->
  nonce_chunk_secretbox i <> nonce_chunk_secretbox j.
Proof. intros Hi Hj Hne E. apply Hne. apply (nonce_chunk_inj i j); [lia|lia|exact E]. Qed.

(* signcryption: the chunk nonce determines the chunk number (and the final flag) *)
Lemma sc_chunk_nonce_inj (hh : bytes) (f f' : bool) (i j : N) :
  i < 18446744073709551616 -> j < 18446744073709551616 ->
  nonce_chunk_signcryption hh f i = nonce_chunk_signcryption hh f' j -> i = j.
Proof.
  intros Hi Hj E. unfold nonce_chunk_signcryption, hash16_flag_index in E.
  apply app_inv_head in E.
  remember (be64 i) as bi eqn:Ebi. remember (be64 j) as bj eqn:Ebj.
  cbn [app] in E. injection E as _ E. subst bi bj.
  apply be64_inj; [exact Hi|exact Hj|exact E].
Qed.

Lemma sc_chunk_nonces_distinct (hh : bytes) (f f' : bool) (i j : N) :
  i < 18446744073709551615 -> j < 18446744073709551615 -> i <> j ->
  nonce_chunk_signcryption hh f i <> nonce_chunk_signcryption hh f' j.
Proof. intros Hi Hj Hne E. apply Hne. eapply sc_chunk_nonce_inj; [| |exact E]; lia. Qed.
