(* BxStreamProofs.v — the streaming base-X decoder (model/BxStream.v: filteringReader + decoder,
   compared call by call with basex.NewDecoder by the C13 campaign) denotes the one-shot decoder:
   whatever way the underlying reader fragments its data, delivers its terminating error (alone or
   with the last data, after skip-only deliveries ...) and whatever buffer sizes the caller uses,
   the bytes delivered are a prefix of the one-shot decoding of the source's bytes; a clean end
   (EOF) is reported exactly when the source ended with EOF and the one-shot decoding succeeds, and
   then ALL decoded bytes have been delivered.
   Statements marked (TARGET) are used verbatim by props/.

   Proof architecture: the one-shot decoder is shown equal (up to the error OFFSET, which the
   statements never mention) to an online automaton [run]/[afin] that eats one character at a
   time (current partial block, output so far, ok flag).  The automaton composes trivially over
   concatenation, ignores skip characters, and its output only grows.  The invariant of the
   streaming decoder says: the final result of the automaton on the whole input equals the
   automaton started from (no partial block, output = delivered ++ bd_out) and run over
   bd_buf ++ (what the source still denotes).
   All four TARGETs hold exactly as stated; the call bound of bd_drain_complete is generous
   (length out + 1 calls suffice: every non-final Read delivers at least one byte).  Hskip is
   never needed by the argument (filteringReader, decodeBlock and the automaton all give digits
   priority over skip characters); the TARGETs are closed `using All` so that their signatures
   keep every section hypothesis. *)
From Coq Require Import List NArith ZArith Bool Lia.
From Coq Require Import PeanoNat ZifyN ZifyNat ZifyBool.
From Coq.Strings Require Import Byte.
From SP Require Import Bytes Consts Params Errors BaseX Encodings Armor Streams BxStream BaseXProofs StreamProofs.
Import ListNotations.

Section E.
Variable e : encoding.
Hypothesis Hbase_lo : (2 <= base e)%N.
Hypothesis Hbase_hi : (base e <= 256)%N.
Hypothesis Hnodup : NoDup (enc_alphabet e).
Hypothesis Hibl : (0 < enc_ibl e)%N.
(* the input buffer of the decoder holds at least one block (8192*ibl >= obl; true of base 58/62) *)
Hypothesis Hcap : (N.to_nat (obl e) <= 8192 * N.to_nat (ibl e))%nat.
(* skip characters are not digits (true of the shipped encodings) *)
Hypothesis Hskip : forall b, is_skip e b = true -> digit_of e b = None.

(* is_prefix on byte strings *)
Definition bprefix (p l : bytes) : Prop := exists t, l = p ++ t.

(* every call of the caller asks for at least one byte *)
(* pos_sizes is StreamProofs.pos_sizes; src_wf is StreamProofs.src_wf *)

(* ---------- the online automaton ---------- *)
Local Notation obln := (N.to_nat (obl e)).
Local Notation ibln := (N.to_nat (ibl e)).
Local Notation fin := (BaseXProofs.finish e).

(* current partial block (digits, most recent first), output so far, no error so far *)
Record ast := mkA { a_cur : list N; a_out : bytes; a_ok : bool }.

Definition astep (st : ast) (b : byte) : ast :=
  if a_ok st then
    match digit_of e b with
    | Some d =>
      if (N.of_nat (length (a_cur st)) + 1 =? obl e)%N then
        match fin (rev (d :: a_cur st)) with
        | inl _ => mkA [] (a_out st) false
        | inr o => mkA [] (a_out st ++ o) true
        end
      else mkA (d :: a_cur st) (a_out st) true
    | None => if is_skip e b then st else mkA (a_cur st) (a_out st) false
    end
  else st.

Definition run (s : bytes) (st : ast) : ast := fold_left astep s st.

Definition afin (st : ast) : bytes * bool :=
  if a_ok st then
    match fin (rev (a_cur st)) with
    | inl _ => (a_out st, false)
    | inr o => (a_out st ++ o, true)
    end
  else (a_out st, false).

Definition a0 : ast := mkA [] [] true.

Lemma run_nil st : run [] st = st.
Proof. reflexivity. Qed.

Lemma run_cons b t st : run (b :: t) st = run t (astep st b).
Proof. reflexivity. Qed.

Lemma run_app s1 s2 st : run (s1 ++ s2) st = run s2 (run s1 st).
Proof. unfold run. apply fold_left_app. Qed.

Lemma astep_bad st b : a_ok st = false -> astep st b = st.
Proof. intro H. unfold astep. rewrite H. reflexivity. Qed.

Lemma run_bad s : forall st, a_ok st = false -> run s st = st.
Proof.
  induction s as [|b t IH]; intros st H; [reflexivity|].
  rewrite run_cons, astep_bad by exact H. apply IH. exact H.
Qed.

Lemma afin_bad st : a_ok st = false -> afin st = (a_out st, false).
Proof. intro H. unfold afin. rewrite H. reflexivity. Qed.

Lemma fin_nil : fin [] = inr [].
Proof. exact (finish_nil e Hbase_lo Hbase_hi Hnodup Hibl). Qed.

Lemma afin_fresh o : afin (mkA [] o true) = (o, true).
Proof. unfold afin. cbn [a_ok a_cur a_out rev]. rewrite fin_nil, app_nil_r. reflexivity. Qed.

Lemma obln_pos : (0 < obln)%nat.
Proof. pose proof (obl_pos e Hbase_lo Hbase_hi Hnodup Hibl). lia. Qed.

Lemma ibln_pos : (0 < ibln)%nat.
Proof. unfold ibl. lia. Qed.

(* ---------- the one-shot decoder is the automaton ---------- *)
Lemma scan_run s : forall i ng acc off out, ng = N.of_nat (length acc) ->
  match scan_block e s i ng acc off with
  | inl _ => afin (run s (mkA acc out true)) = (out, false)
  | inr (ds, c, rest) =>
    (length rest <= Nat.pred (length s))%nat /\
    match fin ds with
    | inl _ => afin (run s (mkA acc out true)) = (out, false)
    | inr o => afin (run s (mkA acc out true)) = afin (run rest (mkA [] (out ++ o) true))
    end
  end.
Proof.
  induction s as [|b t IH]; intros i ng acc off out Hng.
  - cbn [scan_block]. split; [cbn; lia|]. rewrite rev_append_rev, app_nil_r, !run_nil.
    destruct (fin (rev acc)) as [er|o] eqn:Ef.
    + unfold afin. cbn [a_ok a_cur a_out]. rewrite Ef. reflexivity.
    + rewrite run_nil, afin_fresh. unfold afin. cbn [a_ok a_cur a_out]. rewrite Ef. reflexivity.
  - cbn [scan_block]. rewrite run_cons. unfold astep. cbn [a_ok a_cur a_out].
    destruct (digit_of e b) as [d|] eqn:Ed.
    + rewrite <- Hng. destruct (ng + 1 =? obl e)%N eqn:E.
      * split; [cbn [length]; lia|]. rewrite rev_append_rev, app_nil_r.
        destruct (fin (rev (d :: acc))) as [er|o]; [|reflexivity].
        rewrite run_bad by reflexivity. apply afin_bad. reflexivity.
      * specialize (IH (i + 1)%N (ng + 1)%N (d :: acc) off out).
        assert (Hn : (ng + 1)%N = N.of_nat (length (d :: acc))) by (cbn [length]; lia).
        specialize (IH Hn).
        destruct (scan_block e t (i + 1) (ng + 1) (d :: acc) off) as [er|[[ds c] rest]]; [exact IH|].
        destruct IH as [IH1 IH2]. split; [cbn [length]; lia|exact IH2].
    + destruct (is_skip e b) eqn:Es.
      * specialize (IH (i + 1)%N ng acc off out Hng).
        destruct (scan_block e t (i + 1) ng acc off) as [er|[[ds c] rest]]; [exact IH|].
        destruct IH as [IH1 IH2]. split; [cbn [length]; lia|exact IH2].
      * rewrite run_bad by reflexivity. apply afin_bad. reflexivity.
Qed.

Lemma decode_fuel_run : forall f s off acc, (length s <= f)%nat ->
  fst (decode_fuel e f s off acc) = fst (afin (run s (mkA [] (rev acc) true))) /\
  (snd (decode_fuel e f s off acc) = None <-> snd (afin (run s (mkA [] (rev acc) true))) = true).
Proof.
  induction f as [|f IH]; intros s off acc Hf.
  - destruct s; [|cbn in Hf; lia]. cbn [decode_fuel]. rewrite run_nil, afin_fresh, rev_append_rev, app_nil_r.
    cbn [fst snd]. split; [reflexivity|tauto].
  - destruct s as [|b t].
    { cbn [decode_fuel]. rewrite run_nil, afin_fresh, rev_append_rev, app_nil_r.
      cbn [fst snd]. split; [reflexivity|tauto]. }
    rewrite (decode_fuel_step e Hbase_lo Hbase_hi Hnodup Hibl) by discriminate.
    rewrite (decode_block_eq e Hbase_lo Hbase_hi Hnodup Hibl).
    pose proof (scan_run (b :: t) 0%N 0%N [] off (rev acc) eq_refl) as Hs.
    destruct (scan_block e (b :: t) 0 0 [] off) as [er|[[ds c] rest]].
    + rewrite Hs, rev_append_rev, app_nil_r. cbn [fst snd]. split; [reflexivity|]. split; discriminate.
    + destruct Hs as [Hl Hs]. destruct (fin ds) as [er|o].
      * rewrite Hs, rev_append_rev, app_nil_r. cbn [fst snd]. split; [reflexivity|]. split; discriminate.
      * rewrite Hs. cbn [length Nat.pred] in Hl.
        specialize (IH rest (off + c)%N (rev_append o acc) ltac:(cbn [length] in Hf; lia)).
        assert (Hr : rev (rev_append o acc) = rev acc ++ o)
          by (rewrite rev_append_rev, rev_app_distr, rev_involutive; reflexivity).
        rewrite Hr in IH. exact IH.
Qed.

Lemma decode_run s :
  fst (decode e s) = fst (afin (run s a0)) /\
  (snd (decode e s) = None <-> snd (afin (run s a0)) = true).
Proof. unfold decode. exact (decode_fuel_run (length s) s 0%N [] (le_n _)). Qed.

(* ---------- algebra of the automaton ---------- *)
Definition shift (o : bytes) (st : ast) : ast := mkA (a_cur st) (o ++ a_out st) (a_ok st).

Lemma astep_shift o st b : astep (shift o st) b = shift o (astep st b).
Proof.
  destruct st as [c o' k]. unfold astep, shift. cbn [a_ok a_cur a_out]. destruct k; [|reflexivity].
  destruct (digit_of e b) as [d|].
  - destruct (N.of_nat (length c) + 1 =? obl e)%N; [|reflexivity].
    destruct (fin (rev (d :: c))); cbn [a_ok a_cur a_out]; rewrite ?app_assoc; reflexivity.
  - destruct (is_skip e b); reflexivity.
Qed.

Lemma run_shift o s : forall st, run s (shift o st) = shift o (run s st).
Proof.
  induction s as [|b t IH]; intro st; [reflexivity|].
  rewrite !run_cons, astep_shift. apply IH.
Qed.

Lemma afin_shift o st : afin (shift o st) = (o ++ fst (afin st), snd (afin st)).
Proof.
  destruct st as [c o' k]. unfold afin, shift. cbn [a_ok a_cur a_out]. destruct k; [|reflexivity].
  destruct (fin (rev c)); cbn [fst snd]; rewrite ?app_assoc; reflexivity.
Qed.

Lemma shift_fresh o st : a_cur st = [] -> a_ok st = true -> shift o st = mkA [] (o ++ a_out st) true.
Proof. intros H1 H2. unfold shift. rewrite H1, H2. reflexivity. Qed.

Lemma mkA_shift o : mkA [] o true = shift o a0.
Proof. unfold shift, a0. cbn [a_cur a_out a_ok]. rewrite app_nil_r. reflexivity. Qed.

(* the output only grows *)
Lemma astep_out st b : exists t, a_out (astep st b) = a_out st ++ t.
Proof.
  unfold astep. destruct (a_ok st); [|exists []; rewrite app_nil_r; reflexivity].
  destruct (digit_of e b) as [d|].
  - destruct (N.of_nat (length (a_cur st)) + 1 =? obl e)%N.
    + destruct (fin (rev (d :: a_cur st))) as [er|o]; cbn [a_out].
      * exists []. rewrite app_nil_r. reflexivity.
      * exists o. reflexivity.
    + exists []. cbn [a_out]. rewrite app_nil_r. reflexivity.
  - destruct (is_skip e b); exists []; cbn [a_out]; rewrite app_nil_r; reflexivity.
Qed.

Lemma run_out s : forall st, exists t, a_out (run s st) = a_out st ++ t.
Proof.
  induction s as [|b u IH]; intro st.
  - exists []. rewrite app_nil_r. reflexivity.
  - rewrite run_cons. destruct (IH (astep st b)) as [t1 H1]. destruct (astep_out st b) as [t2 H2].
    exists (t2 ++ t1). rewrite H1, H2, app_assoc. reflexivity.
Qed.

Lemma afin_out st : exists t, fst (afin st) = a_out st ++ t.
Proof.
  unfold afin. destruct (a_ok st); [|exists []; rewrite app_nil_r; reflexivity].
  destruct (fin (rev (a_cur st))) as [er|o]; cbn [fst].
  - exists []. rewrite app_nil_r. reflexivity.
  - exists o. reflexivity.
Qed.

Lemma afin_run_out s st : bprefix (a_out st) (fst (afin (run s st))).
Proof.
  destruct (afin_out (run s st)) as [t1 H1]. destruct (run_out s st) as [t2 H2].
  exists (t2 ++ t1). rewrite H1, H2, app_assoc. reflexivity.
Qed.

(* skip characters are invisible, foreign characters are fatal *)
Lemma astep_skip st b : is_dig e b = false -> is_skip e b = true -> astep st b = st.
Proof.
  intros Hd Hs. unfold astep. unfold is_dig in Hd. destruct (a_ok st); [|reflexivity].
  destruct (digit_of e b); [discriminate|]. rewrite Hs. reflexivity.
Qed.

Lemma astep_foreign st b : is_dig e b = false -> is_skip e b = false -> a_ok (astep st b) = false.
Proof.
  intros Hd Hs. unfold astep. unfold is_dig in Hd. destruct (a_ok st) eqn:Ho; [|exact Ho].
  destruct (digit_of e b); [discriminate|]. rewrite Hs. reflexivity.
Qed.

Lemma run_ok_inv s st : a_ok (run s st) = true -> a_ok st = true.
Proof.
  intro H. destruct (a_ok st) eqn:Ho; [reflexivity|]. rewrite run_bad in H by exact Ho. congruence.
Qed.

Lemma afin_ok_inv st : snd (afin st) = true -> a_ok st = true.
Proof.
  intro H. destruct (a_ok st) eqn:Ho; [reflexivity|]. rewrite afin_bad in H by exact Ho. discriminate.
Qed.

Lemma afin_run_bad s st : a_ok st = false -> snd (afin (run s st)) = false.
Proof. intro H. rewrite run_bad, afin_bad by exact H. reflexivity. Qed.

(* a full block yields ibl bytes *)
Lemma fin_full_len ds o : fin ds = inr o -> N.of_nat (length ds) = obl e -> length o = ibln.
Proof.
  intros H Hl. unfold finish in H. cbv zeta in H. rewrite Hl in H.
  rewrite (decoded_len_obl e Hbase_lo Hbase_hi Hnodup Hibl) in H.
  destruct (negb (valid_len e (obl e))); [discriminate|].
  destruct (256 ^ ibl e <=? from_digits e 0 ds)%N; [discriminate|].
  injection H as <-. apply be_bytes_length.
Qed.

(* no skip-only characters: every character is a digit or fatal *)
Definition nsk (l : bytes) : Prop := forall b, In b l -> is_dig e b = true \/ is_skip e b = false.

Lemma nsk_nil : nsk [].
Proof. intros b []. Qed.

Lemma nsk_app a b : nsk a -> nsk b -> nsk (a ++ b).
Proof. intros Ha Hb x Hx. apply in_app_or in Hx as [Hx|Hx]; auto. Qed.

Lemma nsk_firstn n a : nsk a -> nsk (firstn n a).
Proof. intros Ha x Hx. apply Ha. rewrite <- (firstn_skipn n a). apply in_or_app. left. exact Hx. Qed.

Lemma nsk_skipn n a : nsk a -> nsk (skipn n a).
Proof. intros Ha x Hx. apply Ha. rewrite <- (firstn_skipn n a). apply in_or_app. right. exact Hx. Qed.

(* counting blocks over a run that stays ok *)
Lemma run_digits s : forall st, nsk s -> a_ok (run s st) = true -> (length (a_cur st) < obln)%nat ->
  (length (a_cur (run s st)) < obln)%nat /\
  exists k, (length (a_cur st) + length s = k * obln + length (a_cur (run s st)))%nat /\
            (length (a_out st) + k <= length (a_out (run s st)))%nat.
Proof.
  induction s as [|b t IH]; intros st Hn Hok Hc.
  - rewrite run_nil. split; [exact Hc|]. exists 0%nat. cbn [length]. lia.
  - rewrite run_cons in *.
    pose proof (run_ok_inv _ _ Hok) as Hok1.
    assert (Hst : a_ok st = true).
    { destruct (a_ok st) eqn:Ho; [reflexivity|]. rewrite astep_bad in Hok1 by exact Ho. congruence. }
    assert (Hd : is_dig e b = true).
    { destruct (Hn b (or_introl eq_refl)) as [H|H]; [exact H|].
      destruct (is_dig e b) eqn:Hd; [reflexivity|].
      rewrite (astep_foreign st b Hd H) in Hok1. discriminate. }
    assert (Hnt : nsk t) by (intros x Hx; apply Hn; right; exact Hx).
    specialize (IH (astep st b) Hnt Hok).
    unfold astep in IH, Hok1 |- *. rewrite Hst in IH, Hok1 |- *. unfold is_dig in Hd.
    destruct (digit_of e b) as [d|]; [|discriminate].
    destruct (N.of_nat (length (a_cur st)) + 1 =? obl e)%N eqn:E.
    + apply N.eqb_eq in E.
      destruct (fin (rev (d :: a_cur st))) as [er|o] eqn:Ef; [cbn [a_ok] in Hok1; discriminate|].
      assert (Hlo : length o = ibln).
      { apply (fin_full_len _ _ Ef). rewrite rev_length. cbn [length]. lia. }
      pose proof ibln_pos as Hip.
      cbn [a_cur a_out length] in IH. specialize (IH obln_pos).
      destruct IH as [IH1 (k & IH2 & IH3)]. split; [exact IH1|].
      exists (S k). rewrite app_length in IH3. cbn [length]. split; [|lia].
      rewrite Nat.mul_succ_l. lia.
    + apply N.eqb_neq in E. cbn [a_cur a_out length] in IH.
      specialize (IH ltac:(lia)). destruct IH as [IH1 (k & IH2 & IH3)]. split; [exact IH1|].
      exists k. cbn [length]. split; lia.
Qed.

(* k >= 1 whole blocks of digits, decoded from a fresh state without error: no partial block
   is left and something was output *)
Lemma run_blocks s q : nsk s -> (length s = q * obln)%nat -> (1 <= q)%nat ->
  a_ok (run s a0) = true -> a_cur (run s a0) = [] /\ a_out (run s a0) <> [].
Proof.
  intros Hn Hl Hq Hok. pose proof obln_pos as Hop.
  destruct (run_digits s a0 Hn Hok) as [H1 (k & H2 & H3)]; [cbn [a0 a_cur length]; exact Hop|].
  cbn [a0 a_cur a_out length] in H2, H3. rewrite Hl in H2. cbn [plus] in H2.
  assert (Hc : length (a_cur (run s a0)) = 0%nat /\ k = q).
  { set (c := length (a_cur (run s a0))) in *. clearbody c.
    assert (Hm : ((k * obln + c) mod obln = c)%nat).
    { rewrite Nat.add_comm, Nat.mod_add by lia. apply Nat.mod_small. exact H1. }
    rewrite <- H2, Nat.mod_mul in Hm by lia. subst c. split; [reflexivity|].
    rewrite Nat.add_0_r in H2. apply Nat.mul_cancel_r in H2; lia. }
  destruct Hc as [Hc ->]. split.
  - destruct (a_cur (run s a0)); [reflexivity|discriminate].
  - intro Ho. rewrite Ho in H3. cbn [length] in H3. lia.
Qed.

(* ---------- the underlying reader ---------- *)
Definition rem (r : fr_state) : bytes := fst (src_denote (fr_src r)).
Definition eend (r : fr_state) : err := snd (src_denote (fr_src r)).

Lemma src_denote_nil s : src_segs s = [] -> src_denote s = ([], src_final s).
Proof. intro H. unfold src_denote. rewrite H. reflexivity. Qed.

Lemma src_fuel_ge s : (2 <= src_fuel s)%nat.
Proof. unfold src_fuel. lia. Qed.

Lemma src_read_fuel n s data s' : (0 < n)%nat ->
  src_read n s = ((data, None), s') -> (src_fuel s' < src_fuel s)%nat.
Proof.
  intros Hn H. destruct s as [segs fi]. unfold src_read in H. cbn [src_segs src_final] in H.
  destruct segs as [|[sd se] t]; [discriminate|]. cbn [seg_data seg_err] in H.
  unfold src_fuel. cbn [src_segs map concat seg_data length].
  destruct (Nat.leb (length sd) n) eqn:L.
  - destruct se; [discriminate|]. injection H as _ <-. cbn [src_segs]. rewrite app_length. lia.
  - apply Nat.leb_gt in L. injection H as _ <-. cbn [src_segs map concat seg_data length].
    rewrite !app_length, skipn_length. lia.
Qed.

(* what a read of the underlying reader (direct or filtered) guarantees *)
Definition ur_spec (r : fr_state) (kept : bytes) (oe : option err) (r' : fr_state) : Prop :=
  eend r' = eend r /\ src_wf (fr_src r') /\
  (oe = None -> (src_fuel (fr_src r') < src_fuel (fr_src r))%nat) /\
  (((forall st, run (rem r) st = run (kept ++ rem r') st) /\ nsk kept /\
    (oe = None -> kept <> []) /\ (forall x, oe = Some x -> rem r' = [] /\ eend r = x))
   \/ (kept = [] /\ (exists x, oe = Some x /\ x <> EOF) /\
       forall st, snd (afin (run (rem r) st)) = false)).

Lemma fr_filter_spec l : forall nread acc,
  match fr_filter e l nread acc with
  | inl (kept, _) => exists k, kept = rev acc ++ k /\ (forall b, In b k -> is_dig e b = true) /\
                               (forall st, run l st = run k st)
  | inr _ => forall st, a_ok (run l st) = false
  end.
Proof.
  induction l as [|b t IH]; intros nread acc.
  - cbn [fr_filter]. exists []. rewrite rev_append_rev. split; [reflexivity|]. split; [intros b []|reflexivity].
  - cbn [fr_filter]. destruct (digit_of e b) as [d|] eqn:Ed.
    + specialize (IH (nread + 1)%N (b :: acc)).
      destruct (fr_filter e t (nread + 1) (b :: acc)) as [[kept nr]|off].
      * destruct IH as (k & Hk & Hd & Hr). exists (b :: k). split.
        { rewrite Hk. cbn [rev]. rewrite <- app_assoc. reflexivity. } split.
        { intros x [<-|Hx]; [unfold is_dig; rewrite Ed; reflexivity|auto]. }
        intro st. rewrite !run_cons. apply Hr.
      * intro st. rewrite run_cons. apply IH.
    + assert (Hnd : is_dig e b = false) by (unfold is_dig; rewrite Ed; reflexivity).
      destruct (is_skip e b) eqn:Es.
      * specialize (IH (nread + 1)%N acc).
        destruct (fr_filter e t (nread + 1) acc) as [[kept nr]|off].
        -- destruct IH as (k & Hk & Hd & Hr). exists k. split; [exact Hk|]. split; [exact Hd|].
           intro st. rewrite run_cons, (astep_skip st b Hnd Es). apply Hr.
        -- intro st. rewrite run_cons. apply IH.
      * intro st. rewrite run_cons, run_bad; apply (astep_foreign st b Hnd Es).
Qed.

Lemma digits_nsk k : (forall b, In b k -> is_dig e b = true) -> nsk k.
Proof. intros H b Hb. left. apply H. exact Hb. Qed.

Lemma fr_read_spec : forall fuel n r, (0 < n)%nat -> src_wf (fr_src r) ->
  (src_fuel (fr_src r) <= fuel)%nat ->
  let '((kept, oe), r') := fr_read e fuel n r in ur_spec r kept oe r'.
Proof.
  induction fuel as [|f IH]; intros n r Hn Hwf Hf.
  { pose proof (src_fuel_ge (fr_src r)). lia. }
  cbn [fr_read].
  pose proof (src_read_spec n (fr_src r)) as Hs.
  pose proof (src_read_fuel n (fr_src r)) as Hfu.
  destruct (src_read n (fr_src r)) as [[data er] s'].
  destruct Hs as (Hs1 & Hs2 & Hs3 & Hs4). specialize (Hs4 Hn Hwf). destruct Hs4 as [Hwf' Hne].
  specialize (Hfu data s' Hn).
  assert (Herr : forall x, er = Some x -> fst (src_denote s') = [] /\ snd (src_denote (fr_src r)) = x).
  { intros x Hx. destruct (Hs3 x Hx) as [H1 H2]. rewrite Hs2, (src_denote_nil s' H1).
    cbn [fst snd]. split; [reflexivity|exact H2]. }
  assert (Hfu' : er = None -> (src_fuel s' < src_fuel (fr_src r))%nat).
  { intros ->. apply Hfu. reflexivity. }
  destruct data as [|b0 data'].
  - unfold ur_spec, eend, rem. cbn [fr_src]. split; [symmetry; exact Hs2|]. split; [exact Hwf'|].
    split; [exact Hfu'|]. left. split; [intro st; rewrite Hs1; reflexivity|]. split; [exact nsk_nil|].
    split; [exact Hne|exact Herr].
  - pose proof (fr_filter_spec (b0 :: data') (fr_nread r) []) as Hfl.
    set (data := b0 :: data') in *.
    destruct (fr_filter e data (fr_nread r) []) as [[kept nr]|off].
    + destruct Hfl as (k & Hk & Hd & Hr). cbn [rev app] in Hk. subst k.
      destruct kept as [|k0 kept'].
      * destruct er as [x|].
        -- unfold ur_spec, eend, rem. cbn [fr_src]. split; [symmetry; exact Hs2|]. split; [exact Hwf'|].
           split; [discriminate|]. left. split.
           { intro st. rewrite Hs1, !run_app, Hr. reflexivity. }
           split; [exact nsk_nil|]. split; [discriminate|exact Herr].
        -- specialize (Hfu' eq_refl).
           specialize (IH n (mkFr s' nr) Hn Hwf' ltac:(cbn [fr_src]; lia)).
           destruct (fr_read e f n (mkFr s' nr)) as [[kept2 oe2] r2].
           unfold ur_spec, eend, rem in IH |- *. cbn [fr_src] in IH.
           destruct IH as (I1 & I2 & I3 & I4).
           split; [rewrite I1; symmetry; exact Hs2|]. split; [exact I2|].
           split; [intro Ho; specialize (I3 Ho); lia|].
           destruct I4 as [(J1 & J2 & J3 & J4)|(J1 & J2 & J3)].
           ++ left. split.
              { intro st. rewrite Hs1, run_app, Hr, run_nil. apply J1. }
              split; [exact J2|]. split; [exact J3|].
              intros x Hx. destruct (J4 x Hx) as [K1 K2]. split; [exact K1|]. rewrite Hs2. exact K2.
           ++ right. split; [exact J1|]. split; [exact J2|].
              intro st. rewrite Hs1, run_app, Hr, run_nil. apply J3.
      * unfold ur_spec, eend, rem. cbn [fr_src]. split; [symmetry; exact Hs2|]. split; [exact Hwf'|].
        split; [exact Hfu'|]. left. split.
        { intro st. rewrite Hs1, !run_app, Hr. reflexivity. }
        split; [apply digits_nsk; exact Hd|]. split; [discriminate|exact Herr].
    + unfold ur_spec, eend, rem. cbn [fr_src]. split; [symmetry; exact Hs2|]. split; [exact Hwf'|].
      split; [discriminate|]. right. split; [reflexivity|]. split.
      { eexists. split; [reflexivity|discriminate]. }
      intro st. rewrite Hs1, run_app. apply afin_run_bad. apply Hfl.
Qed.

Lemma under_read_spec n r : (0 < n)%nat -> src_wf (fr_src r) ->
  let '((kept, oe), r') := under_read e n r in ur_spec r kept oe r'.
Proof.
  intros Hn Hwf. unfold under_read. destruct (enc_skip e) as [|k0 ks] eqn:Hsk.
  - pose proof (src_read_spec n (fr_src r)) as Hs.
    pose proof (src_read_fuel n (fr_src r)) as Hfu.
    destruct (src_read n (fr_src r)) as [[data er] s'].
    destruct Hs as (Hs1 & Hs2 & Hs3 & Hs4). specialize (Hs4 Hn Hwf). destruct Hs4 as [Hwf' Hne].
    specialize (Hfu data s' Hn).
    unfold ur_spec, eend, rem. cbn [fr_src]. split; [symmetry; exact Hs2|]. split; [exact Hwf'|].
    split; [intros ->; apply Hfu; reflexivity|]. left.
    split; [intro st; rewrite Hs1; reflexivity|]. split.
    { intros b _. right. unfold is_skip. rewrite Hsk. reflexivity. }
    split; [exact Hne|].
    intros x Hx. destruct (Hs3 x Hx) as [H1 H2]. rewrite Hs2, (src_denote_nil s' H1).
    cbn [fst snd]. split; [reflexivity|exact H2].
  - apply fr_read_spec; [exact Hn|exact Hwf|apply le_n].
Qed.

(* ---------- bd_fill ---------- *)
Lemma bd_fill_S f nn buf r :
  bd_fill e (S f) nn buf r =
  if Nat.ltb (length buf) obln then
    let '((data, er), r') := under_read e (nn - length buf) r in
    match er with
    | Some x => (buf ++ data, Some x, r')
    | None => bd_fill e f nn (buf ++ data) r'
    end
  else (buf, None, r).
Proof. reflexivity. Qed.

Lemma bd_fill_spec : forall fuel nn buf r, src_wf (fr_src r) ->
  (src_fuel (fr_src r) <= fuel)%nat -> (obln <= nn)%nat -> nsk buf ->
  let '(buf', oe, r') := bd_fill e fuel nn buf r in
  eend r' = eend r /\ src_wf (fr_src r') /\
  (((forall st, run (buf ++ rem r) st = run (buf' ++ rem r') st) /\ nsk buf' /\
    (oe = None -> (obln <= length buf')%nat) /\ (forall x, oe = Some x -> rem r' = [] /\ eend r = x))
   \/ ((exists x, oe = Some x /\ x <> EOF) /\ forall st, snd (afin (run (buf ++ rem r) st)) = false)).
Proof.
  induction fuel as [|f IH]; intros nn buf r Hwf Hf Hnn Hb.
  { pose proof (src_fuel_ge (fr_src r)). lia. }
  rewrite bd_fill_S. destruct (Nat.ltb (length buf) obln) eqn:L.
  - apply Nat.ltb_lt in L.
    pose proof (under_read_spec (nn - length buf) r ltac:(lia) Hwf) as Hu.
    destruct (under_read e (nn - length buf) r) as [[data er] r'].
    destruct Hu as (U1 & U2 & U3 & U4).
    destruct er as [x|].
    + split; [exact U1|]. split; [exact U2|].
      destruct U4 as [(J1 & J2 & J3 & J4)|(J1 & J2 & J3)].
      * left. split.
        { intro st. rewrite run_app, J1, <- run_app, app_assoc. reflexivity. }
        split; [apply nsk_app; assumption|]. split; [discriminate|exact J4].
      * right. split; [exact J2|]. intro st. rewrite run_app. apply J3.
    + specialize (U3 eq_refl).
      destruct U4 as [(J1 & J2 & J3 & J4)|(J1 & (x & Hx & _) & J3)]; [|discriminate].
      specialize (IH nn (buf ++ data) r' U2 ltac:(lia) Hnn (nsk_app _ _ Hb J2)).
      destruct (bd_fill e f nn (buf ++ data) r') as [[buf' oe] r''].
      destruct IH as (I1 & I2 & I3).
      split; [rewrite I1; exact U1|]. split; [exact I2|].
      assert (Hrun : forall st, run (buf ++ rem r) st = run ((buf ++ data) ++ rem r') st).
      { intro st. rewrite run_app, J1, <- run_app, app_assoc. reflexivity. }
      destruct I3 as [(K1 & K2 & K3 & K4)|(K1 & K2)].
      * left. split; [intro st; rewrite Hrun; apply K1|]. split; [exact K2|]. split; [exact K3|].
        intros x Hx. destruct (K4 x Hx) as [L1 L2]. split; [exact L1|]. rewrite <- U1. exact L2.
      * right. split; [exact K1|]. intro st. rewrite Hrun. apply K2.
  - apply Nat.ltb_ge in L. split; [reflexivity|]. split; [exact Hwf|]. left.
    split; [reflexivity|]. split; [exact Hb|]. split; [intros _; exact L|discriminate].
Qed.

(* ---------- bd_read, restructured ---------- *)
Definition bd_nn (np : nat) : nat :=
  let nn0 := (np / ibln * obln)%nat in
  let nn1 := if Nat.ltb nn0 obln then obln else nn0 in
  if Nat.ltb (input_cap e) nn1 then input_cap e else nn1.

Lemma bd_nn_ge np : (obln <= bd_nn np)%nat.
Proof.
  assert (Hc : (obln <= input_cap e)%nat) by exact Hcap.
  unfold bd_nn. cbv zeta. set (ic := input_cap e) in *. clearbody ic.
  set (nn0 := (np / ibln * obln)%nat). clearbody nn0.
  destruct (Nat.ltb nn0 obln) eqn:L1.
  - destruct (Nat.ltb ic obln); [exact Hc|apply le_n].
  - apply Nat.ltb_ge in L1. destruct (Nat.ltb ic nn0); [exact Hc|exact L1].
Qed.

Definition bd_emit (ret out rest : bytes) (r' : fr_state) (derr' : option err) : bd_result * bd_state :=
  match ret, derr' with
  | [], None => (BdErr [] EOF, mkBd None out rest r')
  | _, None => (BdData ret, mkBd None out rest r')
  | _, Some x => (BdErr ret x, mkBd (Some x) out rest r')
  end.

Definition bd_after (np : nat) (buf : bytes) (r' : fr_state) (eof : bool) : bd_result * bd_state :=
  let num := if eof then length buf else (length buf / obln * obln)%nat in
  let nout := N.to_nat (BaseX.decoded_len e (N.of_nat num)) in
  let (dec, derr) := BaseX.decode e (firstn num buf) in
  let derr' := match derr with Some b => Some (bx_to_err b) | None => None end in
  let rest := skipn num buf in
  if Nat.ltb np nout then bd_emit (firstn np dec) (skipn np dec) rest r' derr'
  else bd_emit dec [] rest r' derr'.

Definition is_eof (x : err) : bool := match x with EOF => true | _ => false end.

Lemma is_eof_true x : is_eof x = true -> x = EOF.
Proof. destruct x; (reflexivity || discriminate). Qed.

Lemma is_eof_false x : is_eof x = false -> x <> EOF.
Proof. intros H ->. discriminate. Qed.

Definition bd_read2 (fuel np : nat) (st : bd_state) : bd_result * bd_state :=
  match bd_err st with
  | Some x => (BdErr [] x, st)
  | None =>
    match bd_out st with
    | _ :: _ => (BdData (firstn np (bd_out st)), mkBd None (skipn np (bd_out st)) (bd_buf st) (bd_r st))
    | [] =>
      let '(buf, er, r') := bd_fill e fuel (bd_nn np) (bd_buf st) (bd_r st) in
      match er with
      | Some x =>
        if is_eof x then
          match buf with
          | [] => (BdErr [] EOF, mkBd (Some EOF) [] [] r')
          | _ => bd_after np buf r' true
          end
        else (BdErr [] x, mkBd (Some x) [] buf r')
      | None => bd_after np buf r' false
      end
    end
  end.

Lemma bd_read_eq fuel np st : bd_read e fuel np st = bd_read2 fuel np st.
Proof.
  unfold bd_read, bd_read2. cbv zeta.
  destruct (bd_err st); [reflexivity|]. destruct (bd_out st); [|reflexivity].
  fold (bd_nn np).
  destruct (bd_fill e fuel (bd_nn np) (bd_buf st) (bd_r st)) as [[buf er] r'].
  destruct er as [x|]; [|reflexivity].
  destruct x; reflexivity.
Qed.

(* ---------- the invariant of the decoder and one Read ---------- *)
(* Fin: the automaton's verdict on the whole input; EE: the error ending the source *)
Definition Inv (Fin : bytes * bool) (EE : err) (st : bd_state) (del : bytes) : Prop :=
  bd_err st = None /\ src_wf (fr_src (bd_r st)) /\ eend (bd_r st) = EE /\ nsk (bd_buf st) /\
  Fin = afin (run (bd_buf st ++ rem (bd_r st)) (mkA [] (del ++ bd_out st) true)).

Definition step_post (Fin : bytes * bool) (EE : err) (del : bytes) (res : bd_result * bd_state) : Prop :=
  match res with
  | (BdData d, st') => d <> [] /\ Inv Fin EE st' (del ++ d)
  | (BdErr d x, _) =>
    bprefix (del ++ d) (fst Fin) /\ (x = EOF -> EE = EOF /\ Fin = (del ++ d, true)) /\
    (EE = EOF -> snd Fin = true -> x = EOF)
  end.

Lemma emit_spec Fin EE del ret out rest r' derr' :
  src_wf (fr_src r') -> eend r' = EE -> nsk rest ->
  ((derr' = None /\ Fin = afin (run (rest ++ rem r') (mkA [] (del ++ ret ++ out) true)) /\
    (ret = [] -> EE = EOF /\ Fin = (del, true)))
   \/ (exists x, derr' = Some x /\ x <> EOF /\ bprefix (del ++ ret) (fst Fin) /\ snd Fin = false)) ->
  step_post Fin EE del (bd_emit ret out rest r' derr').
Proof.
  intros Hwf HE Hn [(-> & HF & Hnil)|(x & -> & Hx & Hp & Hs)].
  - destruct ret as [|b t].
    + destruct (Hnil eq_refl) as [H1 H2]. unfold bd_emit, step_post. rewrite app_nil_r.
      split; [exists []; rewrite H2, app_nil_r; reflexivity|]. split; [intros _; split; assumption|reflexivity].
    + unfold bd_emit, step_post. split; [discriminate|].
      unfold Inv. cbn [bd_err bd_r bd_buf bd_out]. split; [reflexivity|]. split; [exact Hwf|].
      split; [exact HE|]. split; [exact Hn|]. rewrite <- app_assoc. exact HF.
  - assert (G : step_post Fin EE del (BdErr ret x, mkBd (Some x) out rest r')).
    { unfold step_post. split; [exact Hp|]. split; [intro; contradiction|].
      intros _ H. rewrite Hs in H. discriminate. }
    unfold bd_emit. destruct ret; exact G.
Qed.

Lemma bx_to_err_not_eof b : bx_to_err b <> EOF.
Proof. destruct b; discriminate. Qed.

Lemma firstn_nil_inv (np : nat) (l : bytes) : (0 < np)%nat -> firstn np l = [] -> l = [].
Proof. intros Hn H. destruct np; [lia|]. destruct l; [reflexivity|discriminate]. Qed.

Lemma after_spec Fin EE del np buf r' (eof : bool) :
  (0 < np)%nat -> nsk buf -> src_wf (fr_src r') -> eend r' = EE ->
  Fin = afin (run (buf ++ rem r') (mkA [] del true)) ->
  (if eof then rem r' = [] /\ EE = EOF else (obln <= length buf)%nat) ->
  step_post Fin EE del (bd_after np buf r' eof).
Proof.
  intros Hnp Hn Hwf HE HF Heof. unfold bd_after. cbv zeta.
  pose proof obln_pos as Hop.
  set (num := if eof then length buf else (length buf / obln * obln)%nat).
  set (chunk := firstn num buf). set (rest := skipn num buf).
  assert (Hbuf : buf = chunk ++ rest) by (symmetry; apply firstn_skipn).
  pose proof (decode_run chunk) as [D1 D2].
  destruct (decode e chunk) as [dec derr]. cbn [fst snd] in D1, D2.
  set (S := run chunk a0) in *.
  assert (HF2 : Fin = afin (run (rest ++ rem r') (shift del S))).
  { rewrite HF. rewrite Hbuf at 1. rewrite <- app_assoc, run_app, mkA_shift, run_shift. reflexivity. }
  assert (Hblocks : eof = false -> a_ok S = true -> a_cur S = [] /\ a_out S <> []).
  { intros -> Hok. apply (run_blocks chunk (length buf / obln)%nat).
    - apply nsk_firstn. exact Hn.
    - unfold chunk. rewrite firstn_length. apply Nat.min_l. unfold num.
      rewrite Nat.mul_comm. apply Nat.mul_div_le. lia.
    - apply Nat.div_str_pos. lia.
    - exact Hok. }
  assert (Heofr : eof = true -> rest = [] /\ rem r' = [] /\ EE = EOF).
  { intros ->. destruct Heof as [H1 H2]. split; [|split; assumption].
    unfold rest, num. apply skipn_all. }
  assert (Key :
    (derr = None /\ Fin = afin (run (rest ++ rem r') (mkA [] (del ++ dec) true)) /\
     (dec = [] -> EE = EOF /\ Fin = (del, true)))
    \/ (derr <> None /\ fst Fin = del ++ dec /\ snd Fin = false)).
  { destruct derr as [b|].
    - right. split; [discriminate|].
      assert (Hs : snd (afin S) = false).
      { destruct (snd (afin S)); [|reflexivity]. destruct D2 as [_ D2]. specialize (D2 eq_refl). discriminate. }
      destruct eof.
      + destruct (Heofr eq_refl) as (R1 & R2 & R3). rewrite R1, R2 in HF2. cbn [app] in HF2.
        rewrite run_nil, afin_shift in HF2. rewrite HF2. cbn [fst snd]. rewrite D1. split; [reflexivity|exact Hs].
      + destruct (a_ok S) eqn:Hok.
        * exfalso. destruct (Hblocks eq_refl eq_refl) as [C1 C2].
          unfold afin in Hs. rewrite Hok, C1 in Hs. cbn [rev] in Hs. rewrite fin_nil in Hs. discriminate.
        * rewrite HF2, run_bad, afin_bad by (unfold shift; cbn [a_ok]; exact Hok).
          unfold shift. cbn [a_out fst snd]. rewrite D1, afin_bad by exact Hok. split; reflexivity.
    - left. split; [reflexivity|].
      assert (Hs : snd (afin S) = true) by (apply D2; reflexivity).
      pose proof (afin_ok_inv _ Hs) as Hok.
      destruct eof.
      + destruct (Heofr eq_refl) as (R1 & R2 & R3). rewrite R1, R2 in HF2 |- *. cbn [app] in HF2 |- *.
        rewrite run_nil, afin_shift, Hs, <- D1 in HF2. rewrite run_nil, afin_fresh.
        split; [exact HF2|]. intros ->. rewrite app_nil_r in HF2. split; assumption.
      + destruct (Hblocks eq_refl Hok) as [C1 C2].
        assert (Hd : dec = a_out S).
        { rewrite D1. unfold afin. rewrite Hok, C1. cbn [rev]. rewrite fin_nil, app_nil_r. reflexivity. }
        rewrite (shift_fresh del S C1 Hok), <- Hd in HF2. split; [exact HF2|].
        intros Hdn. rewrite Hd in Hdn. contradiction. }
  assert (Hnr : nsk rest) by (apply nsk_skipn; exact Hn).
  destruct (Nat.ltb np (N.to_nat (decoded_len e (N.of_nat num)))).
  - apply emit_spec; [exact Hwf|exact HE|exact Hnr|].
    destruct Key as [(-> & K2 & K3)|(K1 & K2 & K3)].
    + left. split; [reflexivity|]. rewrite firstn_skipn. split; [exact K2|].
      intro H. apply K3. apply (firstn_nil_inv np dec Hnp H).
    + right. destruct derr as [b|]; [|congruence]. exists (bx_to_err b). split; [reflexivity|].
      split; [apply bx_to_err_not_eof|]. split; [|exact K3].
      exists (skipn np dec). rewrite K2, <- app_assoc, firstn_skipn. reflexivity.
  - apply emit_spec; [exact Hwf|exact HE|exact Hnr|].
    destruct Key as [(-> & K2 & K3)|(K1 & K2 & K3)].
    + left. split; [reflexivity|]. rewrite app_nil_r. split; [exact K2|exact K3].
    + right. destruct derr as [b|]; [|congruence]. exists (bx_to_err b). split; [reflexivity|].
      split; [apply bx_to_err_not_eof|]. split; [|exact K3].
      exists []. rewrite K2, app_nil_r. reflexivity.
Qed.

Lemma bd_read_spec Fin EE st del fuel np :
  Inv Fin EE st del -> (0 < np)%nat -> (src_fuel (fr_src (bd_r st)) <= fuel)%nat ->
  step_post Fin EE del (bd_read e fuel np st).
Proof.
  intros (I1 & I2 & I3 & I4 & I5) Hnp Hf. rewrite bd_read_eq. unfold bd_read2. rewrite I1.
  destruct (bd_out st) as [|b0 o0] eqn:Ho.
  - rewrite app_nil_r in I5.
    pose proof (bd_fill_spec fuel (bd_nn np) (bd_buf st) (bd_r st) I2 Hf (bd_nn_ge np) I4) as HB.
    destruct (bd_fill e fuel (bd_nn np) (bd_buf st) (bd_r st)) as [[buf er] r'].
    destruct HB as (F1 & F2 & F3). rewrite I3 in F1.
    destruct er as [x|].
    + destruct (is_eof x) eqn:Hx.
      * apply is_eof_true in Hx. subst x.
        destruct F3 as [(K1 & K2 & K3 & K4)|((x & Hx1 & Hx2) & _)]; [|congruence].
        destruct (K4 EOF eq_refl) as [L1 L2]. rewrite I3 in L2.
        rewrite K1 in I5.
        destruct buf as [|b1 buf'].
        -- rewrite L1 in I5. cbn [app] in I5. rewrite run_nil, afin_fresh in I5.
           unfold step_post. rewrite app_nil_r. split; [exists []; rewrite I5, app_nil_r; reflexivity|].
           split; [intros _; split; assumption|reflexivity].
        -- apply after_spec; try assumption. split; assumption.
      * apply is_eof_false in Hx. unfold step_post. rewrite app_nil_r. split.
        { rewrite I5. apply (afin_run_out _ (mkA [] del true)). }
        split; [intro; contradiction|]. intros HEE HFs.
        destruct F3 as [(K1 & K2 & K3 & K4)|(_ & K)].
        -- destruct (K4 x eq_refl) as [_ L2]. rewrite I3 in L2. congruence.
        -- rewrite I5, K in HFs. discriminate.
    + destruct F3 as [(K1 & K2 & K3 & K4)|((x & Hx1 & Hx2) & _)]; [|discriminate].
      rewrite K1 in I5. apply after_spec; try assumption. apply K3. reflexivity.
  - unfold step_post. split.
    { destruct np; [lia|discriminate]. }
    unfold Inv. cbn [bd_err bd_r bd_buf bd_out]. split; [reflexivity|]. split; [exact I2|].
    split; [exact I3|]. split; [exact I4|]. rewrite <- app_assoc, firstn_skipn. exact I5.
Qed.

(* ---------- draining ---------- *)
Lemma bd_drain_gen Fin EE : forall sizes st acc, pos_sizes sizes -> Inv Fin EE st acc ->
  bprefix (fst (bd_drain e sizes st acc)) (fst Fin) /\
  (snd (bd_drain e sizes st acc) = Some EOF -> EE = EOF /\ Fin = (fst (bd_drain e sizes st acc), true)) /\
  (forall x, snd (bd_drain e sizes st acc) = Some x -> EE = EOF -> snd Fin = true -> x = EOF) /\
  (snd (bd_drain e sizes st acc) = None ->
   (length acc + length sizes <= length (fst (bd_drain e sizes st acc)))%nat).
Proof.
  induction sizes as [|n t IH]; intros st acc Hpos HI.
  - cbn [bd_drain fst snd]. split.
    { destruct HI as (_ & _ & _ & _ & I5). rewrite I5.
      destruct (afin_run_out (bd_buf st ++ rem (bd_r st)) (mkA [] (acc ++ bd_out st) true)) as [u Hu].
      cbn [a_out] in Hu. exists (bd_out st ++ u). rewrite Hu, app_assoc. reflexivity. }
    split; [discriminate|]. split; [discriminate|]. intros _. cbn [length]. lia.
  - inversion Hpos as [|? ? Hn Ht]; subst. cbn [bd_drain].
    pose proof (bd_read_spec Fin EE st acc (src_fuel (fr_src (bd_r st))) n HI Hn (le_n _)) as HS.
    destruct (bd_read e (src_fuel (fr_src (bd_r st))) n st) as [[d|d x] st'].
    + destruct HS as [Hd HI']. specialize (IH st' (acc ++ d) Ht HI').
      destruct IH as (A1 & A2 & A3 & A4). split; [exact A1|]. split; [exact A2|]. split; [exact A3|].
      intro Hnone. specialize (A4 Hnone). rewrite app_length in A4. cbn [length].
      assert (1 <= length d)%nat by (destruct d; [congruence|cbn [length]; lia]). lia.
    + destruct HS as (S1 & S2 & S3). cbn [fst snd]. split; [exact S1|].
      split; [intros [= ->]; apply S2; reflexivity|].
      split; [intros y [= <-]; exact S3|discriminate].
Qed.

Lemma Inv_init s : src_wf s ->
  Inv (afin (run (fst (src_denote s)) a0)) (snd (src_denote s)) (bd_init s) [].
Proof.
  intro Hwf. unfold Inv, bd_init, eend, rem. cbn [bd_err bd_r bd_buf bd_out fr_src app].
  split; [reflexivity|]. split; [exact Hwf|]. split; [reflexivity|]. split; [exact nsk_nil|reflexivity].
Qed.

(* (TARGET) safety: the decoder never delivers anything but a prefix of the one-shot decoding of
   the bytes of the source, under every fragmentation and every caller buffer sizes *)
Lemma bd_drain_prefix (s : source) (sizes : list nat) :
  src_wf s -> pos_sizes sizes ->
  bprefix (fst (bd_drain e sizes (bd_init s) [])) (fst (BaseX.decode e (fst (src_denote s)))).
Proof using All.
  intros Hwf Hpos.
  destruct (bd_drain_gen _ _ sizes (bd_init s) [] Hpos (Inv_init s Hwf)) as (A1 & _).
  rewrite (proj1 (decode_run (fst (src_denote s)))). exact A1.
Qed.

(* (TARGET) a clean end only on good input: if the drain ends with EOF, the source ended with EOF,
   the one-shot decoding of its bytes succeeds, and everything was delivered *)
Lemma bd_drain_clean_end (s : source) (sizes : list nat) (out : bytes) :
  src_wf s -> pos_sizes sizes ->
  bd_drain e sizes (bd_init s) [] = (out, Some EOF) ->
  snd (src_denote s) = EOF /\ BaseX.decode e (fst (src_denote s)) = (out, None).
Proof using All.
  intros Hwf Hpos H.
  destruct (bd_drain_gen _ _ sizes (bd_init s) [] Hpos (Inv_init s Hwf)) as (_ & A2 & _).
  rewrite H in A2. cbn [fst snd] in A2. destruct (A2 eq_refl) as [B1 B2].
  split; [exact B1|].
  destruct (decode_run (fst (src_denote s))) as [D1 D2]. rewrite B2 in D1, D2. cbn [fst snd] in D1, D2.
  destruct (decode e (fst (src_denote s))) as [a b]. cbn [fst snd] in D1, D2.
  rewrite D1, (proj2 D2 eq_refl). reflexivity.
Qed.

(* (TARGET) completeness: good input read to the end is decoded completely and ends with EOF,
   for every fragmentation and buffer sizes, given enough Read calls *)
Lemma bd_drain_complete (s : source) (sizes : list nat) (out : bytes) :
  src_wf s -> pos_sizes sizes ->
  snd (src_denote s) = EOF ->
  BaseX.decode e (fst (src_denote s)) = (out, None) ->
  (length out + length (fst (src_denote s)) + length (src_segs s) + 3 <= length sizes)%nat ->
  bd_drain e sizes (bd_init s) [] = (out, Some EOF).
Proof using All.
  intros Hwf Hpos HE Hdec Hlen.
  destruct (decode_run (fst (src_denote s))) as [D1 D2]. rewrite Hdec in D1, D2. cbn [fst snd] in D1, D2.
  pose proof (proj1 D2 eq_refl) as D3.
  destruct (bd_drain_gen _ _ sizes (bd_init s) [] Hpos (Inv_init s Hwf)) as (A1 & A2 & A3 & A4).
  destruct (bd_drain e sizes (bd_init s) []) as [o oe]. cbn [fst snd] in A1, A2, A3, A4.
  destruct A1 as [u Hu]. rewrite <- D1 in Hu.
  destruct oe as [x|].
  - pose proof (A3 x eq_refl HE D3) as ->. destruct (A2 eq_refl) as [_ B2].
    rewrite B2 in D1. cbn [fst] in D1. rewrite D1. reflexivity.
  - specialize (A4 eq_refl). cbn [length] in A4.
    apply (f_equal (@length byte)) in Hu. rewrite app_length in Hu. lia.
Qed.

(* (TARGET) an error of the source that is not EOF is what ends the stream *)
Lemma bd_drain_source_error (s : source) (sizes : list nat) (out : bytes) (x : err) :
  src_wf s -> pos_sizes sizes ->
  snd (src_denote s) <> EOF ->
  bd_drain e sizes (bd_init s) [] = (out, Some x) ->
  x <> EOF.
Proof using All.
  intros Hwf Hpos HE H Hx. subst x.
  destruct (bd_drain_gen _ _ sizes (bd_init s) [] Hpos (Inv_init s Hwf)) as (_ & A2 & _).
  rewrite H in A2. cbn [fst snd] in A2. destruct (A2 eq_refl) as [B1 _]. exact (HE B1).
Qed.

End E.
