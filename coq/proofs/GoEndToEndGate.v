(* GoEndToEndGate.v -- ACCEPTANCE (property C09) and GATING (property C17) AT THE LEVEL OF THE TRANSLATED GO CODE: the composition of
     (R) the receiver source ties of proofs/GoAstProofs7c.v (the bodies of /repo's Verify, NewVerifyStream, VerifyDetached,
         VerifyDetachedReader, Open, NewDecryptStream, SigncryptOpen, NewSigncryptOpenStream, translated on this run from the Go
         syntax trees (gen/GoAstOpen.v) and run by the evaluator of model/GoLang2.v, return for EVERY input the outcomes
         verify_outcome / nvs_outcome / vdet_outcome / open_outcome / nds_outcome / scopen_outcome / nsos_outcome, which are
         functions of the model's verify_stream / verify_read_header / verify_detached / open_stream / signcrypt_open_stream), with
     (M) the model's acceptance theorems for the GENERAL specification encoders of spec/Spec.v (proofs/AcceptSignProofs.v,
         AcceptEncProofs.v, AcceptScProofs.v, AcceptScSymProofs.v; restated in props/C09.v) and the model's gate theorems
         (proofs/GateProofs.v, SignProofs.v; restated in props/C17.v).
   Nothing of (M) or (R) is re-proved; the model is the bridge in the proofs.  The statements speak about
       fst (run_func2 ext f_saltpack_X args)      -- the value the EVALUATOR returns for the term generated from /repo,
   about the input bytes (for (a): the bytes S_encode_* of spec/Spec.v), and, for the gate, about the header decoded from the
   input by the model's read_header_bytes / decode_header (the vocabulary of GateProofs.gated).
   The meaning of the extern tables (ext_verify, ext_NVS, ext_vdet, ext_vdet2, ext_open, ext_nds, ext_scopen, ext_nsos), of the
   encodings (g_spk, g_mki, g_signer, g_rdr, rdr_bytes, g_cr_new, g_vs_key, g_ds_done, g_sos_done) and the LIMITS of (R) are those of
   GoAstProofs7c.v (its header): inside Verify / Open / SigncryptOpen the constructor New*Stream and io.ReadAll are externs with the
   model's meaning; a reader is an error-free reader over given bytes (rdr_bytes rd = Some input says WHICH bytes rd holds); pm
   (input -> value) is the MessageKeyInfo Open / NewDecryptStream return beside an error: every theorem holds for EVERY pm; VV, KR,
   RING, RV are opaque Go values (validator, keyring, resolver objects: their meaning is in the extern table's vd, kr, signers, rv).

   "THE OUTCOME IS NOT THE STUCK EVALUATOR" (hypothesis of verify_outcome_model / open_outcome_model / scopen_outcome_model) is
   NOT a hypothesis of any theorem below.  In (a) and in the refusal theorems the outcome VALUE is computed from the model's
   result (the outcome functions of 7c are case analyses on verify_stream / open_stream / ...; on a model success or a header-stage
   error they are an ORet by computation).  In (b), where the Go call's success is the hypothesis, it is discharged from that
   success: a class Ok _ is not the class of OStuck (GoEndToEndAuth.*_class_ok_not_stuck), an ORet [..; VNil] is not OStuck.

   SUCCESS of a Go call is phrased, as in GoEndToEndAuth.v, in two ways: (class form) verify_class / vd_class / open_class /
   scopen_class of the outcome is Ok _; (nil-error form) the outcome is ORet [x; body; VNil] (err == nil), for the constructors
   ORet [x; reader; VNil].

   TARGETS (all Qed; each prints "Closed under the global context" at the end of the file).  Reading, then ALL hypotheses.
   Everywhere c : crypto is ANY primitives record; "Hc" = crypto_ok c (functional correctness of the primitives, trusted base).

   (a) ACCEPTANCE (C09): every message a spec-following sender can produce is accepted by the translated entry points
   1. go_Verify_accepts_spec (attached signatures).  For every S_sig parameter record p (V1/V2, any fixnum minor version, any
      chunking into 1 byte..1 MiB chunks, extra trailing header / packet elements), keyring kr, validator vd, opaque VV KR:
        fst (run_func2 (ext_verify c vd kr) f_saltpack_Verify [VV; VBytes (S_encode_attached c p); KR])
        = ORet [g_spk (ed_pub c (ss_sk p)); VBytes (concat (ss_chunks p)); VNil]
      (the signer's key object, the whole message, nil), and its verify_class is Ok (signer's public key, message).
      Hypotheses: Hc; sig_params_ok p; len (encoded header) < 2^32 (the outer bin32; AcceptSignProofs shows it is not implied);
      admits vd (ss_major p) (ss_minor p) (vd = CheckKnownMajorVersion or SingleVersionValidator of exactly that version);
      In (ed_pub c (ss_sk p)) kr.
   2. go_NewVerifyStream_accepts_spec (attached, streaming).  Same hypotheses + rdr_bytes rd = Some (S_encode_attached c p).
      The translated NewVerifyStream returns (signer's key object, newChunkReader over the verifyStream object g_vs_key h hh key
      (stream at rest, counter 1), nil), (h, hh, rest) being the model's header stage on the message; the model's verify_loop
      from that state releases chunks ending with io.EOF; that object, in GoAstProofs4b's encoding (GoEndToEndSign.vs_recode:
      publicKey holds the key's bytes), DRAINED BY THE TRANSLATED verifyStream.getNextChunk run again and again by the evaluator
      (GoEndToEndSign.go_vs_drain, k = number of packets calls) yields exactly (chunks, io.EOF); concat chunks = concat
      (ss_chunks p); and (signer, chunks, io.EOF) is what the extern "NewVerifyStream" of ext_verify (the table Verify runs under
      in 1) returns on a reader over these bytes: on spec messages the meaning 7c gives that call inside Verify is what the
      translated constructor and per-packet code compute.
   3. go_VerifyDetached_accepts_spec (detached signatures).  The translated VerifyDetached on (VV, ss_msg p, S_encode_detached c p,
      KR) and the translated VerifyDetachedReader on a reader delivering ss_msg p and then io.EOF both return
      ORet [g_spk (ed_pub c (ss_sk p)); VNil]; vd_class = Ok (signer's public key).
      Hypotheses: Hc; ss_major p = 1 \/ 2; 0 <= ss_minor p <= 127; len (ss_nonce p) < 2^32; extras_ok (ss_extra_hdr p);
      len (encoded detached header) < 2^32; admits vd ..; In (ed_pub c (ss_sk p)) kr.   (exactly those of C09_accepts_detached)
   4. go_Open_accepts_spec (encryption).  For every S_enc record p, every recipient (dh_pub c sk, hide) of its list (position i),
      receiver ring kr = {(sk, dh_pub c sk)} without sender whitelist, every pm, VV, RING, reader rd over the message: EITHER
        the translated Open returns ORet [g_mki m (sk, dh_pub c sk); VBytes (concat (se_chunks p)); VNil] (class Ok (m, plaintext)),
        the translated NewDecryptStream returns the same MessageKeyInfo, newChunkReader over the decryptStream object in state st
        with the remaining input rest, nil, and the model's decrypt_loop from (st, rest) releases chunks with io.EOF whose
        concatenation is the plaintext; and the MessageKeyInfo m (the Go value g_mki encodes its fields) has
        mki_sender m = public key of the sender (of the ephemeral key for an anonymous sender), mki_sender_anon m = anonymous?,
        mki_receiver m = dh_pub c sk, mki_receiver_anon m = hide;
      OR S_foreign_box_opens c p sk (the explicit witness of the model theorem: ANOTHER recipient's payload-key box of this very
        message opens under this recipient's shared key -- a secretbox forgery, not excluded by functional correctness).
      Hypotheses: Hc; enc_params_ok c p (includes header < 2^32 and sender key <> ephemeral key); admits vd (se_major p)
      (se_minor p); nth_error (se_rcpts p) i = Some (dh_pub c sk, hide); rdr_bytes rd = Some (S_encode_encryption c p).
   5. go_SigncryptOpen_accepts_spec_box (signcryption, holder of a box key of the list; ring = that key, ANY resolver rv).
      EITHER the translated SigncryptOpen returns ORet [g_signer sg; VBytes (concat (sc_chunks p)); VNil] with
        sg = option_map (ed_pub c) (sc_signer p) (the signer's public key; nil for the anonymous sender), class Ok (sg, plaintext),
        and the translated NewSigncryptOpenStream returns (that signer, newChunkReader over the signcryptOpenStream object holding
        payload key, header hash, signer, remaining input; nil), the model's sc_open_loop from there releasing chunks with io.EOF
        whose concatenation is the plaintext;
      OR S_identifier_collision c p sk i (an identifier at ANOTHER position equals this key's HMAC-derived identifier there).
      Hypotheses: Hc; sc_params_ok c p; nth_error (sc_rcpts p) i = Some (S_BoxR (dh_pub c sk)); a named signer's public key is
      in `signers`; rdr_bytes rd = Some (S_encode_signcryption c p).
      go_SigncryptOpen_accepts_spec_sym (holder of a symmetric key: empty box ring, resolver Some rsl): the same conclusion
      without alternative.  Hypotheses: Hc; sc_params_ok c p; nth_error (sc_rcpts p) i = Some (S_SymR key ident);
      resolve rsl ident = Some key; S_resolver_genuine c rsl p (the resolver resolves only genuine (identifier, key) pairs of
      this message); named signer in `signers`; rdr_bytes.

   5b. STREAMING, THE READER OBJECT DRAINED BY THE TRANSLATED getNextChunk (GoEndToEndAuth.go_drain ext fn recv F obj: at most F
      calls of the translated decryptStream.getNextChunk / signcryptOpenStream.getNextChunk, each run by the evaluator on the
      object the previous call left in the receiver, stopping at the first non-nil error; the call returning the error returns
      a chunk value too, tl = [] or [[]] below).
      go_NewDecryptStream_drain_of_model, go_NewSigncryptOpenStream_drain_of_model: for EVERY input wire on which the model's
        open_stream / signcrypt_open_stream ends cleanly (Ok (_, chunks, EOF)): the translated constructor returns
        (MessageKeyInfo / signer, newChunkReader obj, nil) and for EVERY number of calls F with |wire| < F <= 2^64,
        go_drain F obj = (chunks ++ tl, Some io.EOF).  Hypotheses: the model's clean end; rdr_bytes rd = Some wire.
      go_NewDecryptStream_drain_accepts_spec, go_NewSigncryptOpenStream_drain_accepts_spec_box / _sym: on the spec encoders'
        bytes, under the hypotheses of 4 / 5: the constructor returns the MessageKeyInfo with the attribution of 4 / the signer
        of 5 and a reader object obj, and for every F with |message| < F <= 2^64 the concatenation of the chunks the F calls of
        the translated getNextChunk return is concat (se_chunks p) / concat (sc_chunks p) and the ending error is io.EOF
        (-- or the witness S_foreign_box_opens / S_identifier_collision).

   (b) GATING (C17).  [gated_view view vd typ input] is GateProofs.gated with the header view NAMED (gated_view_gated: it implies
   gated): the input starts with a bin object hb (read_header_bytes), hb decodes under the entry point's own view (view_sig_header
   for the signature receivers, view_enc_header for Open / SigncryptOpen) to a header h with h_format h = "saltpack"
   (format_name), h_type h = typ, and validate_version vd (h_version h) = true (vd = Some validator) resp. major version 2
   (vd = None: SigncryptOpen takes no validator).
   6. SUCCESS IMPLIES THE GATE.  For EVERY input, keyring, validator, opaque arguments:
      go_Verify_gated / _nil_error: class Ok (pk, msg) / ORet [sg; body; VNil] from the translated Verify
          -> gated_view view_sig_header (Some vd) mt_attached input.
      go_NewVerifyStream_gated_nil_error: ORet [sg; rdr; VNil] from the translated NewVerifyStream on a reader over input -> same.
      go_VerifyDetached_gated / _nil_error, go_VerifyDetachedReader_gated / _nil_error (reader delivering msg then io.EOF or ANY
          error): -> gated_view view_sig_header (Some vd) mt_detached sigfile.
      go_Open_gated / _nil_error, go_NewDecryptStream_gated_nil_error: -> gated_view view_enc_header (Some vd) mt_encryption input.
      go_SigncryptOpen_gated / _nil_error, go_NewSigncryptOpenStream_gated_nil_error:
          -> gated_view view_enc_header None mt_signcryption input.
      Hypotheses: only the success of the Go call (and rdr_bytes rd = Some input for the constructors).  No crypto hypothesis.
   7. THE GATE'S REFUSALS AS OUTCOMES, for EVERY input whose header decodes (read_header_bytes input = Ok (hb, rest),
      decode_header view hb = Ok h; hypotheses: these two, and rdr_bytes for the constructors).  [sig_gate vd typ h ret] /
      [enc_gate ok typ h ret] list the refusals in the order the code checks them (signature receivers: format, version, mode;
      Open / SigncryptOpen: format, mode, version), ret nm = "the call returns the error named nm":
      go_Verify_gate_refusals: h_format h <> "saltpack" -> Verify and NewVerifyStream return (nil, nil, ErrNotASaltpackMessage);
          format ok and version refused by the validator -> (nil, nil, ErrBadVersion); format and version ok, h_type h <>
          attached -> (nil, nil, ErrWrongMessageType).
      go_VerifyDetached_gate_refusals: the same for VerifyDetached and VerifyDetachedReader (ANY message, ANY reader ending):
          (nil, ErrNotASaltpackMessage / ErrBadVersion / ErrWrongMessageType).
      go_Open_gate_refusals: Open and NewDecryptStream return (pm input, nil, ErrNotASaltpackMessage) / h_type <> encryption ->
          ErrWrongMessageType / type ok, version refused -> ErrBadVersion.
      go_SigncryptOpen_gate_refusals: SigncryptOpen and NewSigncryptOpenStream: (nil, nil, ErrNotASaltpackMessage /
          ErrWrongMessageType / ErrBadVersion when the major version is not 2).
      (Error VALUES: 7c's g_herr gives header-stage errors by class name with the arguments dropped.)
   8. CROSS-MODE / CROSS-VERSION REFUSALS OF GENUINE MESSAGES.
      8a. every message of the MODEL's senders (generalising GoEndToEndSign.go_sign_refused_by_VerifyDetached /
      go_signDetached_refused_by_Verify from "the Go session's own output" to every output of the model's sender, with no
      evaluator-fuel or size hypothesis):
      go_VerifyDetached_refuses_attached: sign_attached_stream c v sk pieces r = Ok (out, r') -> VerifyDetached (any msg) and
          VerifyDetachedReader (any msg, any reader ending) on out return (nil, ErrWrongMessageType).
          Hypotheses: Hc; v = v1 \/ v = v2; good_validator vd v; the sender's success.     (C17_attached_not_detached)
      go_Verify_refuses_detached: sign_detached c v sk msg r = Ok (out, r') -> Verify and NewVerifyStream on out return
          (nil, nil, ErrWrongMessageType).  Hypotheses: Hc; v = v1 \/ v2; good_validator vd v; sender's success; rdr_bytes.
          (C17_detached_not_attached)
      go_Verify_refuses_other_version: an attached signature of version v under SingleVersionValidator(v'), v' the other known
          version: Verify and NewVerifyStream return (nil, nil, ErrBadVersion).  Hypotheses: Hc; v, v' in {v1, v2}; v <> v';
          sender's success; rdr_bytes.      (C17_other_version_refused)
      8b. every message of the GENERAL specification encoders:
      go_VerifyDetached_refuses_spec_attached: S_encode_attached c p -> (nil, ErrWrongMessageType) from VerifyDetached /
          VerifyDetachedReader.  Hypotheses: Hc; major 1 or 2; 0 <= minor <= 127; len nonce < 2^32; extras_ok (ss_extra_hdr p);
          header < 2^32; admits vd major minor.
      go_Verify_refuses_spec_detached: S_encode_detached c p -> (nil, nil, ErrWrongMessageType) from Verify / NewVerifyStream.
          Hypotheses: the same for the detached header; rdr_bytes.
      go_Verify_refuses_spec_other_version: S_encode_attached c p under SingleVersionValidator(v'), v' <> (major, minor) ->
          (nil, nil, ErrBadVersion).  Hypotheses: as above without admits; v' <> mkV major minor; rdr_bytes.
      go_SigncryptOpen_refuses_spec_encryption: S_encode_encryption c p -> SigncryptOpen / NewSigncryptOpenStream return
          (nil, nil, ErrWrongMessageType) for ANY keyring / signers / resolver.  Hypotheses: Hc; enc_params_ok c p; rdr_bytes.
      go_Open_refuses_spec_signcryption: S_encode_signcryption c p -> Open / NewDecryptStream return
          (pm input, nil, ErrWrongMessageType) for ANY validator / keyring.  Hypotheses: sc_params_ok c p; rdr_bytes (no Hc).
      8c. spec-following ENCRYPTION / SIGNCRYPTION messages given to the four signature entry points (their view reads the
      first five header fields by index and ignores the rest, so these headers decode there and the mode gate refuses them):
      go_signature_receivers_refuse_spec_encryption: Verify, NewVerifyStream return (nil, nil, ErrWrongMessageType),
          VerifyDetached, VerifyDetachedReader (any msg, any reader ending) return (nil, ErrWrongMessageType) on
          S_encode_encryption c p.  Hypotheses: Hc; enc_params_ok c p; admits vd (se_major p) (se_minor p); rdr_bytes.
      go_signature_receivers_refuse_spec_signcryption: the same on S_encode_signcryption c p.
          Hypotheses: sc_params_ok c p; admits vd 2 (sc_minor p); rdr_bytes (no Hc).
   EXAMPLES (Module Examples, model/ToyCrypto.v): the translated entry points RUN by vm_compute on spec-encoder bytes
   (foreign-looking attached / detached signature: 1- and 2-byte chunks, version 2.7, extras; V1 encryption with a hidden
   recipient; signcryption with a box and a symmetric recipient): acceptance with the expected values, the cross refusals; and
   instances of go_Verify_accepts_spec, go_VerifyDetached_accepts_spec, go_VerifyDetached_refuses_spec_attached,
   go_Open_accepts_spec, go_SigncryptOpen_accepts_spec_box with EVERY hypothesis discharged (the hypotheses are satisfiable).

   WHAT IS NOT COVERED.  (1) The limits of (R) listed above (externs inside Verify / Open / SigncryptOpen; error-free readers;
   opaque validator / keyring / resolver objects).  (2) Streaming: the reader objects are drained by the translated getNextChunk
   (2, 5b); chunkReader.Read, which re-slices the chunks into the caller's buffers (GoAstProofs4c.go_chunkReader_Read), is not
   composed (as in GoEndToEndAuth.v: WHAT IS NOT COMPOSED (1)); getNextChunk runs under GoAstProofs4b.ext_chunk (processBlock,
   read*Block, checkDecodedChunkState, assertEndOfStream = the model's functions, each with its own tie).  (3) The receiver's
   keyring in 4 / 5 is the single-key ring of the model theorems (C09 states them so).  (4) Signature-mode headers given to Open / SigncryptOpen (and encryption-mode headers given to the signature
   receivers) are decoded under ANOTHER view; whether that decoding succeeds is a MessagePack question, not a gate question: 7
   covers every input whose header decodes under the entry point's view, 8b / 8c the pairs where the spec headers do
   (signature-mode spec headers have no recipient list; Examples.ex_sig_into_enc_computes: on the example Open / SigncryptOpen
   return a decode error for them -- computed there, not proved in general). *)
From Coq Require Import List String NArith ZArith Bool Lia.
From Coq.Strings Require Import Byte.
From SP Require Import Bytes Consts Params Msgpack Crypto Errors Nonce Packets Chunker Rand Sign Verify Encrypt Decrypt Signcrypt Spec
     MsgpackProofs SignProofs EncryptProofs GateProofs AcceptDefs AcceptSignProofs AcceptEncProofs AcceptScProofs AcceptScSymProofs
     GoLang GoLang2 GoAst GoAstProofs GoAstProofs2 GoAstProofs3 GoAstProofs4a GoAstProofs4b GoAstProofs5a GoAstProofs7c.
From SP Require Import GoAstOpen GoAstRecv.
From SP Require GoEndToEndAuth GoEndToEndEnc GoEndToEndSign.
Import ListNotations.
Local Open Scope string_scope.

(* ====================================================================================================== *)
(* ================= (a) ACCEPTANCE (C09) at the level of the translated Go code ================= *)
(* ====================================================================================================== *)

(* ---------- small facts ---------- *)
Lemma S_flag_last_len (l : list bytes) : List.length (S_flag_last l) = List.length l.
Proof.
  induction l as [|a t IH]; [reflexivity|]. destruct t as [|b t]; [reflexivity|].
  change (S_flag_last (a :: b :: t)) with ((a, false) :: S_flag_last (b :: t)).
  cbn [List.length] in *. rewrite IH. reflexivity.
Qed.

Lemma S_packets_len (major : Z) (chunks : list bytes) :
  (List.length (S_packets major chunks) <= S (List.length chunks))%nat.
Proof.
  unfold S_packets. destruct (major =? 1)%Z.
  - rewrite app_length, map_length. cbn [List.length]. lia.
  - rewrite S_flag_last_len. lia.
Qed.

(* the class (as GoAstProofs7c.v reads outcomes back) of the successful outcomes *)
Lemma verify_class_ret (pk msg : bytes) : verify_class (ORet [g_spk pk; VBytes msg; VNil]) = Ok (pk, msg).
Proof. reflexivity. Qed.
Lemma vd_class_ret (pk : bytes) : vd_class (ORet [g_spk pk; VNil]) = Ok pk.
Proof. reflexivity. Qed.
Lemma open_class_ret (m : mki) (k : bytes * bytes) (msg : bytes) :
  snd k = mki_receiver m -> open_class (ORet [g_mki m k; VBytes msg; VNil]) = Ok (m, msg).
Proof. intros Hk. cbn [open_class]. rewrite (as_mki_g m k Hk). reflexivity. Qed.

(* ================= 1-2. attached signatures: Verify, NewVerifyStream, getNextChunk ================= *)
Section AcceptAttached.
Variable c : crypto.
Hypothesis Hc : crypto_ok c.

(* the model's acceptance with the receiver's state exposed: header stage and loop, at every sufficient fuel *)
Lemma spec_attached_state (p : S_sig) (vd : validator) :
  sig_params_ok p ->
  (len (mp_encode (S_sig_header_list c p S_mode_attached)) < 4294967296)%N ->
  admits vd (ss_major p) (ss_minor p) ->
  let hdr := mp_encode (S_sig_header_list c p S_mode_attached) in
  let ps := S_packets (ss_major p) (ss_chunks p) in
  let rest := S_sig_packets c p (sha512 c hdr) 0 ps in
  verify_read_header c vd mt_attached (S_encode_attached c p) = Ok (spec_hdr c p S_mode_attached, sha512 c hdr, rest) /\
  (List.length ps <= List.length rest)%nat /\
  (forall fuel, (List.length ps <= fuel)%nat ->
     verify_loop c fuel (mkV (ss_major p) (ss_minor p)) (ed_pub c (ss_sk p)) (sha512 c hdr) 0 rest [] = mkOut (map fst ps) EOF) /\
  List.concat (map fst ps) = List.concat (ss_chunks p).
Proof.
  intros (Hmaj & Hmin & Hn & Hexh & Hexp & Hch & _) Hlen Hvd hdr ps rest.
  pose proof (pk_ok_spec (ss_major p) (ss_minor p) (ss_chunks p) Hmaj Hch) as Hok. fold ps in Hok.
  destruct (spec_verify_loop c Hc p (sha512 c hdr) Hmaj Hexp ps 0%N Hok) as (Lb & Hloop).
  split; [|split; [exact Lb|split]].
  - unfold S_encode_attached. fold hdr. fold ps. fold rest. change mt_attached with S_mode_attached. unfold hdr.
    apply (verify_read_header_spec c Hc vd p S_mode_attached rest Hmaj Hmin (or_introl eq_refl) Hn Hexh Hlen Hvd).
  - intros fuel Hf. exact (Hloop fuel [] Hf).
  - unfold ps. apply concat_fst_packets.
Qed.

(* (TARGET) *)
Theorem go_Verify_accepts_spec (p : S_sig) (kr : sigring) (vd : validator) (VV KR : gval) :
  sig_params_ok p ->
  (len (mp_encode (S_sig_header_list c p S_mode_attached)) < 4294967296)%N ->
  admits vd (ss_major p) (ss_minor p) -> In (ed_pub c (ss_sk p)) kr ->
  fst (run_func2 (ext_verify c vd kr) f_saltpack_Verify [VV; VBytes (S_encode_attached c p); KR])
  = ORet [g_spk (ed_pub c (ss_sk p)); VBytes (List.concat (ss_chunks p)); VNil] /\
  verify_class (fst (run_func2 (ext_verify c vd kr) f_saltpack_Verify [VV; VBytes (S_encode_attached c p); KR]))
  = Ok (ed_pub c (ss_sk p), List.concat (ss_chunks p)).
Proof.
  intros Hp Hlen Hvd Hin.
  destruct (spec_attached_accepted c Hc p kr vd Hp Hlen Hvd Hin) as (chunks & Hvs & Hcc & _).
  assert (GO : fst (run_func2 (ext_verify c vd kr) f_saltpack_Verify [VV; VBytes (S_encode_attached c p); KR])
               = ORet [g_spk (ed_pub c (ss_sk p)); VBytes (List.concat (ss_chunks p)); VNil]).
  { rewrite go_Verify, (GoEndToEndSign.verify_outcome_ok c vd kr _ _ chunks Hvs), Hcc. reflexivity. }
  split; [exact GO|]. rewrite GO. apply verify_class_ret.
Qed.

(* (TARGET) the streaming receiver: the translated constructor, then the translated getNextChunk packet by packet *)
Theorem go_NewVerifyStream_accepts_spec (p : S_sig) (kr : sigring) (vd : validator) (VV KR rd : gval) :
  sig_params_ok p ->
  (len (mp_encode (S_sig_header_list c p S_mode_attached)) < 4294967296)%N ->
  admits vd (ss_major p) (ss_minor p) -> In (ed_pub c (ss_sk p)) kr ->
  rdr_bytes rd = Some (S_encode_attached c p) ->
  exists h hh rest chunks k,
    fst (run_func2 (ext_NVS c vd kr) f_saltpack_NewVerifyStream [VV; rd; KR])
    = ORet [g_spk (ed_pub c (ss_sk p)); g_cr_new (g_vs_key h hh (ed_pub c (ss_sk p)) (g_mps_raw rest 1)); VNil] /\
    verify_read_header c vd mt_attached (S_encode_attached c p) = Ok (h, hh, rest) /\
    verify_loop c (S (List.length rest)) (h_version h) (ed_pub c (ss_sk p)) hh 0 rest [] = mkOut chunks EOF /\
    GoEndToEndSign.vs_recode (g_vs_key h hh (ed_pub c (ss_sk p)) (g_mps_raw rest 1))
    = Some (g_vs h (ed_pub c (ss_sk p)) hh (g_mps rest 0)) /\
    GoEndToEndSign.go_vs_drain c k (g_vs h (ed_pub c (ss_sk p)) hh (g_mps rest 0)) [] = Some (chunks, VErr "io.EOF" []) /\
    List.concat chunks = List.concat (ss_chunks p) /\
    ext_verify c vd kr "NewVerifyStream" [VV; rd; KR]
    = Some [g_spk (ed_pub c (ss_sk p)); g_stream (mkOut chunks EOF); VNil].
Proof.
  intros Hp Hlen Hvd Hin Hrd.
  pose proof (spec_attached_state p vd Hp Hlen Hvd) as Hst. cbv zeta in Hst.
  set (hdr := mp_encode (S_sig_header_list c p S_mode_attached)) in *.
  set (ps := S_packets (ss_major p) (ss_chunks p)) in *.
  set (rest := S_sig_packets c p (sha512 c hdr) 0 ps) in *.
  destruct Hst as (Hh & Lb & Hloop & Hcc).
  destruct Hp as (Hmaj & _ & _ & _ & _ & _ & Hcnt).
  exists (spec_hdr c p S_mode_attached), (sha512 c hdr), rest, (map fst ps), (List.length ps).
  split; [|split; [exact Hh|split; [|split; [reflexivity|split; [|split; [exact Hcc|]]]]]].
  - rewrite (go_NewVerifyStream c vd kr VV rd KR _ Hrd). unfold nvs_outcome. rewrite Hh.
    unfold spec_hdr at 1. cbn [h_a]. rewrite (lookup_signer_in kr _ Hin). reflexivity.
  - unfold spec_hdr. cbn [h_version]. apply Hloop. lia.
  - apply (GoEndToEndSign.go_vs_drain_loop c (spec_hdr c p S_mode_attached) (ed_pub c (ss_sk p)) (sha512 c hdr)
             ltac:(unfold spec_hdr; cbn [h_version vmaj]; exact Hmaj) (List.length ps) 0%N rest [] (map fst ps) EOF).
    + pose proof (S_packets_len (ss_major p) (ss_chunks p)) as Hl. fold ps in Hl.
      unfold GoAstProofs6a.two64. clear - Hl Hcnt. lia.
    + unfold spec_hdr. cbn [h_version]. apply Hloop. lia.
    + reflexivity.
  - assert (Hvs : verify_stream c vd kr (S_encode_attached c p) = Ok (ed_pub c (ss_sk p), mkOut (map fst ps) EOF)).
    { unfold verify_stream. rewrite Hh. cbn [bind]. unfold spec_hdr. cbn [h_a h_version].
      rewrite (lookup_signer_in kr _ Hin). rewrite (Hloop (S (List.length rest)) ltac:(clear - Lb; lia)). reflexivity. }
    unfold ext_verify. cbv [String.eqb Ascii.eqb Bool.eqb]. rewrite Hrd, Hvs. reflexivity.
Qed.
End AcceptAttached.

(* ================= 3. detached signatures: VerifyDetached, VerifyDetachedReader ================= *)
Section AcceptDetached.
Variable c : crypto.
Hypothesis Hc : crypto_ok c.

(* (TARGET) *)
Theorem go_VerifyDetached_accepts_spec (p : S_sig) (kr : sigring) (vd : validator) (VV KR : gval) :
  (ss_major p = 1 \/ ss_major p = 2)%Z -> (0 <= ss_minor p <= 127)%Z ->
  (len (ss_nonce p) < 4294967296)%N -> extras_ok (ss_extra_hdr p) ->
  (len (mp_encode (S_sig_header_list c p S_mode_detached)) < 4294967296)%N ->
  admits vd (ss_major p) (ss_minor p) -> In (ed_pub c (ss_sk p)) kr ->
  fst (run_func2 (ext_vdet2 c vd kr) f_saltpack_VerifyDetached [VV; VBytes (ss_msg p); VBytes (S_encode_detached c p); KR])
  = ORet [g_spk (ed_pub c (ss_sk p)); VNil] /\
  fst (run_func2 (ext_vdet c vd kr) f_saltpack_VerifyDetachedReader
         [VV; g_rdr (ss_msg p) None; VBytes (S_encode_detached c p); KR])
  = ORet [g_spk (ed_pub c (ss_sk p)); VNil] /\
  vd_class (fst (run_func2 (ext_vdet2 c vd kr) f_saltpack_VerifyDetached
                   [VV; VBytes (ss_msg p); VBytes (S_encode_detached c p); KR]))
  = Ok (ed_pub c (ss_sk p)).
Proof.
  intros Hmaj Hmin Hn Hexh Hlen Hvd Hin.
  pose proof (spec_detached_accepted c Hc p kr vd Hmaj Hmin Hn Hexh Hlen Hvd Hin) as Hm.
  pose proof (GoEndToEndSign.vdet_outcome_ok c vd kr _ _ _ Hm) as Ho.
  assert (GO : fst (run_func2 (ext_vdet2 c vd kr) f_saltpack_VerifyDetached
                      [VV; VBytes (ss_msg p); VBytes (S_encode_detached c p); KR])
               = ORet [g_spk (ed_pub c (ss_sk p)); VNil]).
  { rewrite go_VerifyDetached. exact Ho. }
  split; [exact GO|]. split.
  - rewrite (go_VerifyDetachedReader c vd kr VV KR (ss_msg p) None (S_encode_detached c p)). exact Ho.
  - rewrite GO. apply vd_class_ret.
Qed.
End AcceptDetached.

(* ================= 4. encryption: Open, NewDecryptStream ================= *)
Section AcceptEncryption.
Variable c : crypto.
Hypothesis Hc : crypto_ok c.
Variable pm : bytes -> gval.

(* (TARGET) *)
Theorem go_Open_accepts_spec (p : S_enc) (sk : bytes) (hide : bool) (i : nat) (vd : validator) (VV RING rd : gval) :
  enc_params_ok c p -> admits vd (se_major p) (se_minor p) ->
  nth_error (se_rcpts p) i = Some (dh_pub c sk, hide) ->
  rdr_bytes rd = Some (S_encode_encryption c p) ->
  let kr := mkRing [(sk, dh_pub c sk)] None in
  (exists (m : mki) (chunks : list bytes) (st : dec_state) (rest : bytes),
      fst (run_func2 (ext_open c pm vd kr) f_saltpack_Open [VV; VBytes (S_encode_encryption c p); RING])
      = ORet [g_mki m (sk, dh_pub c sk); VBytes (List.concat (se_chunks p)); VNil] /\
      open_class (fst (run_func2 (ext_open c pm vd kr) f_saltpack_Open [VV; VBytes (S_encode_encryption c p); RING]))
      = Ok (m, List.concat (se_chunks p)) /\
      fst (run_func2 (ext_nds c pm vd kr) f_saltpack_NewDecryptStream [VV; rd; RING])
      = ORet [g_mki m (sk, dh_pub c sk);
              g_cr_new (g_ds_done VV RING (g_mps_raw rest 1) VNil m st (sk, dh_pub c sk)); VNil] /\
      decrypt_loop c (S (List.length rest)) st 0 rest [] = mkOut chunks EOF /\
      List.concat chunks = List.concat (se_chunks p) /\
      mki_sender m = dh_pub c (match se_sender p with Some s => s | None => se_eph p end) /\
      mki_sender_anon m = (match se_sender p with Some _ => false | None => true end) /\
      mki_receiver m = dh_pub c sk /\ mki_receiver_anon m = hide)
  \/ S_foreign_box_opens c p sk.
Proof.
  intros Hp Hvd Hi Hrd kr.
  destruct (spec_encryption_accepted c Hc p sk hide i vd Hp Hvd Hi) as [(m & chunks & Ho & Hcc & Hs & Hsa & Hr & Hra & _)|Hf];
    [left|right; exact Hf].
  fold kr in Ho.
  destruct (GoEndToEndEnc.go_Open_of_model c pm vd kr VV RING rd _ m chunks Ho Hrd)
    as (k & st & rest & Hkin & Hks & Hopen & Hnds & Hloop).
  assert (Hk : k = (sk, dh_pub c sk)).
  { cbn [kr kr_keys In] in Hkin. destruct Hkin as [<-|[]]. reflexivity. }
  subst k. exists m, chunks, st, rest.
  split; [rewrite Hopen, Hcc; reflexivity|].
  split; [rewrite Hopen, Hcc; apply open_class_ret; exact Hks|].
  split; [exact Hnds|]. split; [exact Hloop|]. split; [exact Hcc|].
  split; [exact Hs|]. split; [exact Hsa|]. split; [exact Hr|exact Hra].
Qed.
End AcceptEncryption.

(* ================= 5. signcryption: SigncryptOpen, NewSigncryptOpenStream ================= *)
Section AcceptSigncryption.
Variable c : crypto.
Hypothesis Hc : crypto_ok c.

(* (TARGET) the holder of a box key of the recipient list *)
Theorem go_SigncryptOpen_accepts_spec_box (p : S_sc) (sk : bytes) (i : nat) (signers : sigring) (rv : resolver)
        (KR RV rd : gval) :
  sc_params_ok c p ->
  nth_error (sc_rcpts p) i = Some (S_BoxR (dh_pub c sk)) ->
  (forall s, sc_signer p = Some s -> In (ed_pub c s) signers) ->
  rdr_bytes rd = Some (S_encode_signcryption c p) ->
  let kr := mkRing [(sk, dh_pub c sk)] None in
  let sg := option_map (ed_pub c) (sc_signer p) in
  (fst (run_func2 (ext_scopen c kr signers rv) f_saltpack_SigncryptOpen [VBytes (S_encode_signcryption c p); KR; RV])
   = ORet [g_signer sg; VBytes (List.concat (sc_chunks p)); VNil] /\
   scopen_class (fst (run_func2 (ext_scopen c kr signers rv) f_saltpack_SigncryptOpen
                        [VBytes (S_encode_signcryption c p); KR; RV]))
   = Ok (sg, List.concat (sc_chunks p)) /\
   exists (chunks : list bytes) (pkey hh rest : bytes),
     fst (run_func2 (ext_nsos c kr signers rv) f_saltpack_NewSigncryptOpenStream [rd; KR; RV])
     = ORet [g_signer sg; g_cr_new (g_sos_done (g_mps_raw rest 1) KR RV pkey hh sg); VNil] /\
     sc_open_loop c (S (List.length rest)) pkey sg hh 0 rest [] = mkOut chunks EOF /\
     List.concat chunks = List.concat (sc_chunks p))
  \/ S_identifier_collision c p sk i.
Proof.
  intros Hp Hi Hsg Hrd kr sg.
  destruct (spec_signcryption_accepted_box c Hc p sk i signers rv Hp Hi Hsg) as [(chunks & Ho & Hcc & _)|Hf];
    [left|right; exact Hf].
  fold kr in Ho. fold sg in Ho.
  destruct (GoEndToEndEnc.go_SigncryptOpen_of_model c kr signers rv KR RV rd _ sg chunks Ho Hrd)
    as (Hgo & Hcl & pkey & hh & rest & Hn & Hloop).
  split; [rewrite Hgo, Hcc; reflexivity|]. split; [rewrite Hcl, Hcc; reflexivity|].
  exists chunks, pkey, hh, rest. split; [exact Hn|]. split; [exact Hloop|exact Hcc].
Qed.

(* (TARGET) the holder of a symmetric key of the recipient list (no box key; a resolver knowing only genuine pairs) *)
Theorem go_SigncryptOpen_accepts_spec_sym (p : S_sc) (i : nat) (key ident : bytes) (rsl : list (bytes * bytes))
        (signers : sigring) (KR RV rd : gval) :
  sc_params_ok c p ->
  nth_error (sc_rcpts p) i = Some (S_SymR key ident) ->
  resolve rsl ident = Some key ->
  S_resolver_genuine c rsl p ->
  (forall s, sc_signer p = Some s -> In (ed_pub c s) signers) ->
  rdr_bytes rd = Some (S_encode_signcryption c p) ->
  let kr := mkRing [] None in
  let sg := option_map (ed_pub c) (sc_signer p) in
  fst (run_func2 (ext_scopen c kr signers (Some rsl)) f_saltpack_SigncryptOpen [VBytes (S_encode_signcryption c p); KR; RV])
  = ORet [g_signer sg; VBytes (List.concat (sc_chunks p)); VNil] /\
  scopen_class (fst (run_func2 (ext_scopen c kr signers (Some rsl)) f_saltpack_SigncryptOpen
                       [VBytes (S_encode_signcryption c p); KR; RV]))
  = Ok (sg, List.concat (sc_chunks p)) /\
  exists (chunks : list bytes) (pkey hh rest : bytes),
    fst (run_func2 (ext_nsos c kr signers (Some rsl)) f_saltpack_NewSigncryptOpenStream [rd; KR; RV])
    = ORet [g_signer sg; g_cr_new (g_sos_done (g_mps_raw rest 1) KR RV pkey hh sg); VNil] /\
    sc_open_loop c (S (List.length rest)) pkey sg hh 0 rest [] = mkOut chunks EOF /\
    List.concat chunks = List.concat (sc_chunks p).
Proof.
  intros Hp Hi Hres Hgen Hsg Hrd kr sg.
  destruct (spec_signcryption_accepted_sym c Hc p i key ident rsl signers Hp Hi Hres Hgen Hsg) as (chunks & Ho & Hcc & _).
  fold kr in Ho. fold sg in Ho.
  destruct (GoEndToEndEnc.go_SigncryptOpen_of_model c kr signers (Some rsl) KR RV rd _ sg chunks Ho Hrd)
    as (Hgo & Hcl & pkey & hh & rest & Hn & Hloop).
  split; [rewrite Hgo, Hcc; reflexivity|]. split; [rewrite Hcl, Hcc; reflexivity|].
  exists chunks, pkey, hh, rest. split; [exact Hn|]. split; [exact Hloop|exact Hcc].
Qed.
End AcceptSigncryption.

(* ================= 5b. the streaming receivers of Open / SigncryptOpen drained by the translated getNextChunk ================= *)
(* GoEndToEndAuth.go_drain ext fn recv F obj: at most F calls of the translated getNextChunk, each run by the evaluator on the
   object the previous call left in the receiver, stopping at the first non-nil error: the chunks returned (the call that
   returns the error returns a chunk value too: tl below) and that error. *)
Section DrainAccept.
Variable c : crypto.

(* when the model's loop ends cleanly, every sufficient number of calls returns exactly its chunks, then io.EOF *)
Lemma go_drain_clean (ext : externs) (fn : gfunc) (recv : string)
      (step : N -> bytes -> result (bytes * bool * bytes))
      (shrinks : forall n input ch final rest, step n input = Ok (ch, final, rest) -> (List.length rest < List.length input)%nat)
      (enc : bytes -> gval) (obj : N -> bytes -> gval)
      (enc_bytes : forall b, vbytes_of (enc b) = Some b)
      (Hspec : forall n input, (n < 18446744073709551616)%N ->
         chunk_spec recv enc (fun rest => obj (n + 1)%N rest) (step n input) (run_func2 ext fn [obj n input]))
      (Fc : nat) (rest : bytes) (chunks : list bytes) :
  GoEndToEndAuth.step_loop step Fc 0 rest = (chunks, EOF) ->
  forall F, (Fc <= F)%nat -> (N.of_nat F <= 18446744073709551616)%N ->
  exists tl, (tl = [] \/ tl = [[]]) /\
    GoEndToEndAuth.go_drain ext fn recv F (obj 0%N rest) = ((chunks ++ tl)%list, Some (VErr "io.EOF" [])).
Proof.
  intros Hl F HF HF64.
  assert (Hst : GoEndToEndAuth.step_loop step F 0 rest = (chunks, EOF)).
  { rewrite (GoEndToEndAuth.step_loop_stable step shrinks Fc F 0%N rest); [exact Hl| |exact HF]. rewrite Hl. discriminate. }
  pose proof (GoEndToEndAuth.go_drain_step_loop ext fn recv step shrinks enc obj enc_bytes Hspec F 0%N rest ltac:(lia)) as H.
  rewrite Hst in H. cbn [fst snd GoAstProofs4b.g_err] in H. exact H.
Qed.

(* (TARGET) for EVERY input on which the model's open_stream ends cleanly: NewDecryptStream's reader object, drained *)
Theorem go_NewDecryptStream_drain_of_model (pm : bytes -> gval) (vd : validator) (kr : keyring) (VV RING rd : gval)
        (wire : bytes) (m : mki) (chunks : list bytes) :
  open_stream c vd kr wire = Ok (m, mkOut chunks EOF) ->
  rdr_bytes rd = Some wire ->
  exists (k : bytes * bytes) (obj : gval),
    In k (kr_keys kr) /\ snd k = mki_receiver m /\
    fst (run_func2 (ext_nds c pm vd kr) f_saltpack_NewDecryptStream [VV; rd; RING]) = ORet [g_mki m k; g_cr_new obj; VNil] /\
    forall F, (List.length wire < F)%nat -> (N.of_nat F <= 18446744073709551616)%N ->
      exists tl, (tl = [] \/ tl = [[]]) /\
        GoEndToEndAuth.go_drain (ext_chunk c TBytes) f_saltpack_decryptStream_getNextChunk "ds" F obj
        = ((chunks ++ tl)%list, Some (VErr "io.EOF" [])).
Proof.
  intros Ho Hrd.
  pose proof (open_stream_header c vd kr wire) as Hh. rewrite Ho in Hh.
  destruct (dec_read_header c vd kr wire) as [[[m' st] rest]|e] eqn:Hd; cbn [bind fst snd] in Hh; [|discriminate].
  assert (Hm : m' = m) by congruence. subst m'.
  assert (Hl : decrypt_loop c (S (List.length rest)) st 0 rest [] = mkOut chunks EOF) by congruence.
  destruct (dec_header_key_some c vd kr wire m st rest Hd) as (_ & k & Hk & Hks).
  assert (Hver : (vmaj (ds_version st) = 1 \/ vmaj (ds_version st) = 2)%Z /\ (List.length rest <= List.length wire)%nat).
  { revert Hd. unfold dec_read_header.
    destruct (read_header_bytes wire) as [[hb rest0]|e] eqn:Erh; cbn [bind fst snd]; [|discriminate].
    destruct (decode_header view_enc_header hb) as [h|e]; cbn [bind]; [|discriminate].
    destruct (process_enc_header c vd kr (sha512 c hb) h) as [[m' st']|e] eqn:Hp; cbn [bind]; [|discriminate].
    intros H. injection H as _ <- <-. split; [exact (GoEndToEndAuth.process_enc_header_ver12 c vd kr _ h m' st' Hp)|].
    exact (SignAuthProofs.read_header_bytes_suffix _ _ _ Erh). }
  destruct Hver as [Hver Hrest].
  exists k, (g_ds_done VV RING (g_mps_raw rest 1) VNil m st k).
  split; [exact (GoEndToEndEnc.dec_header_key_in c kr wire k Hk)|]. split; [exact Hks|]. split.
  - rewrite (go_NewDecryptStream c pm vd kr VV rd RING wire Hrd). unfold nds_outcome. rewrite Hd, Hk. reflexivity.
  - intros F HF HF64.
    rewrite GoEndToEndAuth.decrypt_loop_step_loop in Hl. cbn [rev app] in Hl.
    assert (Hsl : GoEndToEndAuth.step_loop (dec_step c st) (S (List.length rest)) 0 rest = (chunks, EOF)).
    { destruct (GoEndToEndAuth.step_loop (dec_step c st) (S (List.length rest)) 0 rest) as [a b]. cbn [fst snd] in Hl.
      injection Hl as -> ->. reflexivity. }
    exact (go_drain_clean (ext_chunk c TBytes) f_saltpack_decryptStream_getNextChunk "ds" (dec_step c st)
             (GoEndToEndAuth.dec_step_shrinks c st) g_chunk_nil
             (fun n inp => g_ds_done VV RING (g_mps inp n) VNil m st k) GoEndToEndAuth.vbytes_of_chunk_nil
             (fun n inp Hn => GoEndToEndAuth.go_decrypt_getNextChunk_obj c VV RING VNil (g_mki m k) st n inp Hver Hn)
             (S (List.length rest)) rest chunks Hsl F ltac:(lia) HF64).
Qed.

(* (TARGET) the same for NewSigncryptOpenStream *)
Theorem go_NewSigncryptOpenStream_drain_of_model (kr : keyring) (signers : sigring) (rv : resolver) (KR RV rd : gval)
        (wire : bytes) (sg : option bytes) (chunks : list bytes) :
  signcrypt_open_stream c kr signers rv wire = Ok (sg, mkOut chunks EOF) ->
  rdr_bytes rd = Some wire ->
  exists obj : gval,
    fst (run_func2 (ext_nsos c kr signers rv) f_saltpack_NewSigncryptOpenStream [rd; KR; RV])
    = ORet [g_signer sg; g_cr_new obj; VNil] /\
    forall F, (List.length wire < F)%nat -> (N.of_nat F <= 18446744073709551616)%N ->
      exists tl, (tl = [] \/ tl = [[]]) /\
        GoEndToEndAuth.go_drain (ext_chunk c TSigncryptionBlock) f_saltpack_signcryptOpenStream_getNextChunk "sos" F obj
        = ((chunks ++ tl)%list, Some (VErr "io.EOF" [])).
Proof.
  intros Ho Hrd.
  pose proof (signcrypt_open_stream_header c kr signers rv wire) as Hh. rewrite Ho in Hh.
  destruct (sc_read_header c kr signers rv wire) as [[[[pkey sg'] hh] rest]|e] eqn:Hd; cbn [bind] in Hh; [|discriminate].
  assert (E1 : sg' = sg) by congruence. subst sg'.
  assert (Hl : sc_open_loop c (S (List.length rest)) pkey sg hh 0 rest [] = mkOut chunks EOF) by congruence.
  assert (Hrest : (List.length rest <= List.length wire)%nat).
  { revert Hd. unfold sc_read_header.
    destruct (read_header_bytes wire) as [[hb rest0]|e] eqn:Erh; cbn [bind fst snd]; [|discriminate].
    destruct (decode_header view_enc_header hb) as [h'|e]; cbn [bind]; [|discriminate].
    destruct (process_sc_header c kr signers rv h'); cbn [bind]; [|discriminate].
    intros H. injection H as _ _ _ <-. exact (SignAuthProofs.read_header_bytes_suffix _ _ _ Erh). }
  exists (g_sos_done (g_mps_raw rest 1) KR RV pkey hh sg). split.
  - rewrite (go_NewSigncryptOpenStream c kr signers rv rd KR RV wire Hrd). unfold nsos_outcome. rewrite Hd. reflexivity.
  - intros F HF HF64.
    rewrite GoEndToEndAuth.sc_open_loop_step_loop in Hl. cbn [rev app] in Hl.
    assert (Hsl : GoEndToEndAuth.step_loop (sc_step c pkey sg hh) (S (List.length rest)) 0 rest = (chunks, EOF)).
    { destruct (GoEndToEndAuth.step_loop (sc_step c pkey sg hh) (S (List.length rest)) 0 rest) as [a b]. cbn [fst snd] in Hl.
      injection Hl as -> ->. reflexivity. }
    exact (go_drain_clean (ext_chunk c TSigncryptionBlock) f_saltpack_signcryptOpenStream_getNextChunk "sos" (sc_step c pkey sg hh)
             (GoEndToEndAuth.sc_step_shrinks c pkey sg hh) VBytes
             (fun n inp => g_sos_done (g_mps inp n) KR RV pkey hh sg) GoEndToEndAuth.vbytes_of_VBytes
             (fun n inp Hn => GoEndToEndAuth.go_signcrypt_getNextChunk_obj c KR RV pkey hh sg n inp Hn)
             (S (List.length rest)) rest chunks Hsl F ltac:(lia) HF64).
Qed.

Lemma concat_app_tl (chunks tl : list bytes) : tl = [] \/ tl = [[]] -> List.concat (chunks ++ tl)%list = List.concat chunks.
Proof. intros [-> | ->]; rewrite concat_app; cbn [List.concat]; rewrite ?app_nil_r; reflexivity. Qed.

Hypothesis Hc : crypto_ok c.

(* (TARGET) spec-following ENCRYPTION messages, streamed: the translated constructor, then the translated getNextChunk *)
Theorem go_NewDecryptStream_drain_accepts_spec (pm : bytes -> gval) (p : S_enc) (sk : bytes) (hide : bool) (i : nat)
        (vd : validator) (VV RING rd : gval) :
  enc_params_ok c p -> admits vd (se_major p) (se_minor p) ->
  nth_error (se_rcpts p) i = Some (dh_pub c sk, hide) ->
  rdr_bytes rd = Some (S_encode_encryption c p) ->
  let kr := mkRing [(sk, dh_pub c sk)] None in
  (exists (m : mki) (obj : gval),
      fst (run_func2 (ext_nds c pm vd kr) f_saltpack_NewDecryptStream [VV; rd; RING])
      = ORet [g_mki m (sk, dh_pub c sk); g_cr_new obj; VNil] /\
      mki_sender m = dh_pub c (match se_sender p with Some s => s | None => se_eph p end) /\
      mki_sender_anon m = (match se_sender p with Some _ => false | None => true end) /\
      mki_receiver m = dh_pub c sk /\ mki_receiver_anon m = hide /\
      forall F, (List.length (S_encode_encryption c p) < F)%nat -> (N.of_nat F <= 18446744073709551616)%N ->
        let d := GoEndToEndAuth.go_drain (ext_chunk c TBytes) f_saltpack_decryptStream_getNextChunk "ds" F obj in
        List.concat (fst d) = List.concat (se_chunks p) /\ snd d = Some (VErr "io.EOF" []))
  \/ S_foreign_box_opens c p sk.
Proof.
  intros Hp Hvd Hi Hrd kr.
  destruct (spec_encryption_accepted c Hc p sk hide i vd Hp Hvd Hi) as [(m & chunks & Ho & Hcc & Hs & Hsa & Hr & Hra & _)|Hf];
    [left|right; exact Hf].
  fold kr in Ho.
  destruct (go_NewDecryptStream_drain_of_model pm vd kr VV RING rd _ m chunks Ho Hrd) as (k & obj & Hkin & Hks & Hnds & Hdr).
  assert (Hk : k = (sk, dh_pub c sk)).
  { cbn [kr kr_keys In] in Hkin. destruct Hkin as [<-|[]]. reflexivity. }
  subst k. exists m, obj. split; [exact Hnds|]. split; [exact Hs|]. split; [exact Hsa|]. split; [exact Hr|]. split; [exact Hra|].
  intros F HF HF64 d. destruct (Hdr F HF HF64) as (tl & Htl & Hd). subst d. rewrite Hd. cbn [fst snd].
  split; [|reflexivity]. rewrite (concat_app_tl chunks tl Htl). exact Hcc.
Qed.

(* (TARGET) spec-following SIGNCRYPTION messages, streamed (holder of a box key; holder of a symmetric key) *)
Theorem go_NewSigncryptOpenStream_drain_accepts_spec_box (p : S_sc) (sk : bytes) (i : nat) (signers : sigring) (rv : resolver)
        (KR RV rd : gval) :
  sc_params_ok c p ->
  nth_error (sc_rcpts p) i = Some (S_BoxR (dh_pub c sk)) ->
  (forall s, sc_signer p = Some s -> In (ed_pub c s) signers) ->
  rdr_bytes rd = Some (S_encode_signcryption c p) ->
  let kr := mkRing [(sk, dh_pub c sk)] None in
  let sg := option_map (ed_pub c) (sc_signer p) in
  (exists obj : gval,
      fst (run_func2 (ext_nsos c kr signers rv) f_saltpack_NewSigncryptOpenStream [rd; KR; RV])
      = ORet [g_signer sg; g_cr_new obj; VNil] /\
      forall F, (List.length (S_encode_signcryption c p) < F)%nat -> (N.of_nat F <= 18446744073709551616)%N ->
        let d := GoEndToEndAuth.go_drain (ext_chunk c TSigncryptionBlock) f_saltpack_signcryptOpenStream_getNextChunk "sos" F obj in
        List.concat (fst d) = List.concat (sc_chunks p) /\ snd d = Some (VErr "io.EOF" []))
  \/ S_identifier_collision c p sk i.
Proof.
  intros Hp Hi Hsg Hrd kr sg.
  destruct (spec_signcryption_accepted_box c Hc p sk i signers rv Hp Hi Hsg) as [(chunks & Ho & Hcc & _)|Hf];
    [left|right; exact Hf].
  fold kr in Ho. fold sg in Ho.
  destruct (go_NewSigncryptOpenStream_drain_of_model kr signers rv KR RV rd _ sg chunks Ho Hrd) as (obj & Hn & Hdr).
  exists obj. split; [exact Hn|].
  intros F HF HF64 d. destruct (Hdr F HF HF64) as (tl & Htl & Hd). subst d. rewrite Hd. cbn [fst snd].
  split; [|reflexivity]. rewrite (concat_app_tl chunks tl Htl). exact Hcc.
Qed.

(* (TARGET) *)
Theorem go_NewSigncryptOpenStream_drain_accepts_spec_sym (p : S_sc) (i : nat) (key ident : bytes) (rsl : list (bytes * bytes))
        (signers : sigring) (KR RV rd : gval) :
  sc_params_ok c p ->
  nth_error (sc_rcpts p) i = Some (S_SymR key ident) ->
  resolve rsl ident = Some key ->
  S_resolver_genuine c rsl p ->
  (forall s, sc_signer p = Some s -> In (ed_pub c s) signers) ->
  rdr_bytes rd = Some (S_encode_signcryption c p) ->
  let kr := mkRing [] None in
  let sg := option_map (ed_pub c) (sc_signer p) in
  exists obj : gval,
    fst (run_func2 (ext_nsos c kr signers (Some rsl)) f_saltpack_NewSigncryptOpenStream [rd; KR; RV])
    = ORet [g_signer sg; g_cr_new obj; VNil] /\
    forall F, (List.length (S_encode_signcryption c p) < F)%nat -> (N.of_nat F <= 18446744073709551616)%N ->
      let d := GoEndToEndAuth.go_drain (ext_chunk c TSigncryptionBlock) f_saltpack_signcryptOpenStream_getNextChunk "sos" F obj in
      List.concat (fst d) = List.concat (sc_chunks p) /\ snd d = Some (VErr "io.EOF" []).
Proof.
  intros Hp Hi Hres Hgen Hsg Hrd kr sg.
  destruct (spec_signcryption_accepted_sym c Hc p i key ident rsl signers Hp Hi Hres Hgen Hsg) as (chunks & Ho & Hcc & _).
  fold kr in Ho. fold sg in Ho.
  destruct (go_NewSigncryptOpenStream_drain_of_model kr signers (Some rsl) KR RV rd _ sg chunks Ho Hrd) as (obj & Hn & Hdr).
  exists obj. split; [exact Hn|].
  intros F HF HF64 d. destruct (Hdr F HF HF64) as (tl & Htl & Hd). subst d. rewrite Hd. cbn [fst snd].
  split; [|reflexivity]. rewrite (concat_app_tl chunks tl Htl). exact Hcc.
Qed.
End DrainAccept.

(* ====================================================================================================== *)
(* ================= (b) GATING (C17) at the level of the translated Go code ================= *)
(* ====================================================================================================== *)

(* [gated] of GateProofs.v with the header VIEW named: the four conditions on the header the entry point decoded
   with its own view (view_sig_header for the signature receivers, view_enc_header for Open and SigncryptOpen) *)
Definition gated_view (view : mval -> dres header) (vd : option validator) (typ : Z) (input : bytes) : Prop :=
  exists hb rest h,
    read_header_bytes input = Ok (hb, rest) /\
    decode_header view hb = Ok h /\
    h_format h = format_name /\
    h_type h = typ /\
    match vd with
    | Some v => validate_version v (h_version h) = true
    | None => vmaj (h_version h) = vmaj v2
    end.
Lemma gated_view_gated view vd typ input : gated_view view vd typ input -> gated vd typ input.
Proof. intros (hb & rest & h & H). exists hb, rest, h, view. exact H. Qed.

Section GateModel.
Variable c : crypto.

Lemma verify_read_header_gated_view vd typ input h hh rest :
  verify_read_header c vd typ input = Ok (h, hh, rest) -> gated_view view_sig_header (Some vd) typ input.
Proof.
  unfold verify_read_header.
  destruct (read_header_bytes input) as [[hb r]|e] eqn:Er; cbn [bind]; [|discriminate].
  cbn [fst snd].
  destruct (decode_header view_sig_header hb) as [h0|e] eqn:Ed; cbn [bind]; [|discriminate].
  destruct (validate_sig_header vd typ h0) as [[]|e] eqn:Ev; cbn [bind]; [|discriminate].
  intros _. apply validate_sig_header_ok in Ev. destruct Ev as (F & V & T).
  exists hb, r, h0. repeat split; assumption.
Qed.

Lemma verify_stream_gated_view vd kr input pk out :
  verify_stream c vd kr input = Ok (pk, out) -> gated_view view_sig_header (Some vd) mt_attached input.
Proof.
  unfold verify_stream.
  destruct (verify_read_header c vd mt_attached input) as [[[h hh] rest]|e] eqn:E; cbn [bind]; [|discriminate].
  intros _. eapply verify_read_header_gated_view. exact E.
Qed.

Lemma verify_detached_gated_view vd kr msg sigfile pk :
  verify_detached c vd kr msg sigfile = Ok pk -> gated_view view_sig_header (Some vd) mt_detached sigfile.
Proof.
  unfold verify_detached.
  destruct (verify_read_header c vd mt_detached sigfile) as [[[h hh] rest]|e] eqn:E; cbn [bind]; [|discriminate].
  intros _. eapply verify_read_header_gated_view. exact E.
Qed.

Lemma dec_read_header_gated_view vd kr input x :
  dec_read_header c vd kr input = Ok x -> gated_view view_enc_header (Some vd) mt_encryption input.
Proof.
  unfold dec_read_header.
  destruct (read_header_bytes input) as [[hb r]|e] eqn:Er; cbn [bind]; [|discriminate].
  cbn [fst snd].
  destruct (decode_header view_enc_header hb) as [h|e] eqn:Ed; cbn [bind]; [|discriminate].
  destruct (process_enc_header c vd kr (sha512 c hb) h) as [ms|e] eqn:Ep; cbn [bind]; [|discriminate].
  intros _. unfold process_enc_header in Ep.
  destruct (validate_enc_header vd h) as [[]|e] eqn:Ev; cbn [bind] in Ep; [|discriminate].
  apply validate_enc_header_ok in Ev. destruct Ev as (F & V & T).
  exists hb, r, h. repeat split; assumption.
Qed.

Lemma open_stream_gated_view vd kr input m out :
  open_stream c vd kr input = Ok (m, out) -> gated_view view_enc_header (Some vd) mt_encryption input.
Proof.
  rewrite (open_stream_header c vd kr input).
  destruct (dec_read_header c vd kr input) as [x|e] eqn:E; cbn [bind]; [|discriminate].
  intros _. exact (dec_read_header_gated_view vd kr input x E).
Qed.

Lemma sc_read_header_gated_view kr signers rv input x :
  sc_read_header c kr signers rv input = Ok x -> gated_view view_enc_header None mt_signcryption input.
Proof.
  unfold sc_read_header.
  destruct (read_header_bytes input) as [[hb r]|e] eqn:Er; cbn [bind]; [|discriminate].
  cbn [fst snd].
  destruct (decode_header view_enc_header hb) as [h|e] eqn:Ed; cbn [bind]; [|discriminate].
  destruct (process_sc_header c kr signers rv h) as [ks|e] eqn:Ep; cbn [bind]; [|discriminate].
  intros _. unfold process_sc_header in Ep.
  destruct (validate_sc_header h) as [[]|e] eqn:Ev; cbn [bind] in Ep; [|discriminate].
  unfold validate_sc_header in Ev.
  destruct (bytes_eqb (h_format h) format_name) eqn:Ef; cbn [negb] in Ev; [|discriminate].
  destruct (h_type h =? mt_signcryption)%Z eqn:Et; cbn [negb] in Ev; [|discriminate].
  destruct (vmaj (h_version h) =? vmaj v2)%Z eqn:Em; cbn [negb] in Ev; [|discriminate].
  exists hb, r, h. repeat split; try assumption.
  - apply bytes_eqb_true. exact Ef.
  - apply Z.eqb_eq. exact Et.
  - apply Z.eqb_eq. exact Em.
Qed.

Lemma signcrypt_open_stream_gated_view kr signers rv input s out :
  signcrypt_open_stream c kr signers rv input = Ok (s, out) -> gated_view view_enc_header None mt_signcryption input.
Proof.
  rewrite (signcrypt_open_stream_header c kr signers rv input).
  destruct (sc_read_header c kr signers rv input) as [x|e] eqn:E; cbn [bind]; [|discriminate].
  intros _. exact (sc_read_header_gated_view kr signers rv input x E).
Qed.

(* ---------- a nil error among the results of the outcomes of GoAstProofs7c.v: the model's header stage succeeded ---------- *)
Lemma verify_outcome_nil_stream vd kr input sg body :
  verify_outcome c vd kr input = ORet [sg; body; VNil] -> exists pk out, verify_stream c vd kr input = Ok (pk, out).
Proof.
  unfold verify_outcome. destruct (verify_stream c vd kr input) as [[pk out]|e]; [intros _; exists pk, out; reflexivity|].
  destruct (g_herr e) as [ev|] eqn:Hge; intros H; [|discriminate H].
  injection H as _ _ ->. exfalso. exact (GoEndToEndAuth.g_herr_not_nil e Hge).
Qed.
Lemma nvs_outcome_nil_header vd kr input sg rdr :
  nvs_outcome c vd kr input = ORet [sg; rdr; VNil] -> exists x, verify_read_header c vd mt_attached input = Ok x.
Proof.
  unfold nvs_outcome. destruct (verify_read_header c vd mt_attached input) as [x|e]; [intros _; exists x; reflexivity|].
  destruct (g_herr e) as [ev|] eqn:Hge; intros H; [|discriminate H].
  injection H as _ _ ->. exfalso. exact (GoEndToEndAuth.g_herr_not_nil e Hge).
Qed.
Lemma open_outcome_nil_stream pm vd kr input mk body :
  open_outcome c pm vd kr input = ORet [mk; body; VNil] -> exists m out, open_stream c vd kr input = Ok (m, out).
Proof.
  unfold open_outcome. destruct (open_stream c vd kr input) as [[m out]|e]; [intros _; exists m, out; reflexivity|].
  destruct (g_herr e) as [ev|] eqn:Hge; intros H; [|discriminate H].
  injection H as _ _ ->. exfalso. exact (GoEndToEndAuth.g_herr_not_nil e Hge).
Qed.
Lemma nds_outcome_nil_header pm vd kr VV RING input mk rdr :
  nds_outcome c pm vd kr VV RING input = ORet [mk; rdr; VNil] -> exists x, dec_read_header c vd kr input = Ok x.
Proof.
  unfold nds_outcome. destruct (dec_read_header c vd kr input) as [x|e]; [intros _; exists x; reflexivity|].
  destruct (g_herr e) as [ev|] eqn:Hge; intros H; [|discriminate H].
  injection H as _ _ ->. exfalso. exact (GoEndToEndAuth.g_herr_not_nil e Hge).
Qed.
Lemma scopen_outcome_nil_stream kr signers rv input sg body :
  scopen_outcome c kr signers rv input = ORet [sg; body; VNil] ->
  exists s out, signcrypt_open_stream c kr signers rv input = Ok (s, out).
Proof.
  unfold scopen_outcome. destruct (signcrypt_open_stream c kr signers rv input) as [[s out]|e]; [intros _; exists s, out; reflexivity|].
  destruct (g_herr e) as [ev|] eqn:Hge; intros H; [|discriminate H].
  injection H as _ _ ->. exfalso. exact (GoEndToEndAuth.g_herr_not_nil e Hge).
Qed.
Lemma nsos_outcome_nil_header kr signers rv KR RV input sg rdr :
  nsos_outcome c kr signers rv KR RV input = ORet [sg; rdr; VNil] -> exists x, sc_read_header c kr signers rv input = Ok x.
Proof.
  unfold nsos_outcome. destruct (sc_read_header c kr signers rv input) as [x|e]; [intros _; exists x; reflexivity|].
  destruct (g_herr e) as [ev|] eqn:Hge; intros H; [|discriminate H].
  injection H as _ _ ->. exfalso. exact (GoEndToEndAuth.g_herr_not_nil e Hge).
Qed.
End GateModel.

(* ================= 6. success of a translated entry point implies the gate ================= *)
Section GateGo.
Variable c : crypto.

(* ---------- Verify, NewVerifyStream ---------- *)
(* (TARGET) *)
Theorem go_Verify_gated (vd : validator) (kr : sigring) (VV KR : gval) (input pk msg : bytes) :
  verify_class (fst (run_func2 (ext_verify c vd kr) f_saltpack_Verify [VV; VBytes input; KR])) = Ok (pk, msg) ->
  gated_view view_sig_header (Some vd) mt_attached input.
Proof.
  intros Hgo. rewrite (go_Verify c vd kr VV KR input) in Hgo.
  rewrite (verify_outcome_model c vd kr input (GoEndToEndAuth.verify_class_ok_not_stuck _ _ Hgo)) in Hgo.
  unfold verify_all in Hgo.
  destruct (verify_stream c vd kr input) as [[pk' out]|e] eqn:Hvs; cbn [bind] in Hgo; [|discriminate Hgo].
  exact (verify_stream_gated_view c vd kr input pk' out Hvs).
Qed.

(* (TARGET) err == nil *)
Theorem go_Verify_gated_nil_error (vd : validator) (kr : sigring) (VV KR : gval) (input : bytes) (sg body : gval) :
  fst (run_func2 (ext_verify c vd kr) f_saltpack_Verify [VV; VBytes input; KR]) = ORet [sg; body; VNil] ->
  gated_view view_sig_header (Some vd) mt_attached input.
Proof.
  intros Hgo. rewrite (go_Verify c vd kr VV KR input) in Hgo.
  destruct (verify_outcome_nil_stream c vd kr input sg body Hgo) as (pk & out & Hvs).
  exact (verify_stream_gated_view c vd kr input pk out Hvs).
Qed.

(* (TARGET) the streaming constructor *)
Theorem go_NewVerifyStream_gated_nil_error (vd : validator) (kr : sigring) (VV rd KR : gval) (input : bytes) (sg rdr : gval) :
  rdr_bytes rd = Some input ->
  fst (run_func2 (ext_NVS c vd kr) f_saltpack_NewVerifyStream [VV; rd; KR]) = ORet [sg; rdr; VNil] ->
  gated_view view_sig_header (Some vd) mt_attached input.
Proof.
  intros Hrd Hgo. rewrite (go_NewVerifyStream c vd kr VV rd KR input Hrd) in Hgo.
  destruct (nvs_outcome_nil_header c vd kr input sg rdr Hgo) as ([[h hh] rest] & Hh).
  exact (verify_read_header_gated_view c vd mt_attached input h hh rest Hh).
Qed.

(* ---------- VerifyDetached, VerifyDetachedReader ---------- *)
(* (TARGET) *)
Theorem go_VerifyDetached_gated (vd : validator) (kr : sigring) (VV KR : gval) (msg sigfile pk : bytes) :
  vd_class (fst (run_func2 (ext_vdet2 c vd kr) f_saltpack_VerifyDetached [VV; VBytes msg; VBytes sigfile; KR])) = Ok pk ->
  gated_view view_sig_header (Some vd) mt_detached sigfile.
Proof.
  intros Hgo. rewrite (go_VerifyDetached_model c vd kr VV KR msg sigfile) in Hgo.
  exact (verify_detached_gated_view c vd kr msg sigfile pk Hgo).
Qed.

(* (TARGET) the reader form: whatever the message reader ends with *)
Theorem go_VerifyDetachedReader_gated (vd : validator) (kr : sigring) (VV KR : gval) (msg : bytes)
        (rerr : option (string * list gval)) (sigfile pk : bytes) :
  let rv := match rerr with Some (n, a) => Some (VErr n a) | None => None end in
  vd_class (fst (run_func2 (ext_vdet c vd kr) f_saltpack_VerifyDetachedReader [VV; g_rdr msg rv; VBytes sigfile; KR])) = Ok pk ->
  gated_view view_sig_header (Some vd) mt_detached sigfile.
Proof.
  intros rv Hgo.
  pose proof (go_VerifyDetachedReader c vd kr VV KR msg rerr sigfile) as Hr. cbv zeta in Hr. fold rv in Hr.
  rewrite Hr in Hgo.
  exact (verify_detached_gated_view c vd kr msg sigfile pk (GoEndToEndAuth.vdet_outcome_ok c vd kr msg rv sigfile pk Hgo)).
Qed.

(* (TARGET) err == nil, both forms *)
Theorem go_VerifyDetached_gated_nil_error (vd : validator) (kr : sigring) (VV KR : gval) (msg sigfile : bytes) (sg : gval) :
  fst (run_func2 (ext_vdet2 c vd kr) f_saltpack_VerifyDetached [VV; VBytes msg; VBytes sigfile; KR]) = ORet [sg; VNil] ->
  gated_view view_sig_header (Some vd) mt_detached sigfile.
Proof.
  intros Hgo. pose proof Hgo as Hgo'. rewrite (go_VerifyDetached c vd kr VV KR msg sigfile) in Hgo'.
  destruct (GoEndToEndAuth.vdet_outcome_nil_error c vd kr msg None sigfile sg Hgo') as (pk & _ & Hcl).
  apply (go_VerifyDetached_gated vd kr VV KR msg sigfile pk).
  rewrite (go_VerifyDetached c vd kr VV KR msg sigfile). exact Hcl.
Qed.

(* (TARGET) *)
Theorem go_VerifyDetachedReader_gated_nil_error (vd : validator) (kr : sigring) (VV KR : gval) (msg : bytes)
        (rerr : option (string * list gval)) (sigfile : bytes) (sg : gval) :
  let rv := match rerr with Some (n, a) => Some (VErr n a) | None => None end in
  fst (run_func2 (ext_vdet c vd kr) f_saltpack_VerifyDetachedReader [VV; g_rdr msg rv; VBytes sigfile; KR]) = ORet [sg; VNil] ->
  gated_view view_sig_header (Some vd) mt_detached sigfile.
Proof.
  intros rv Hgo.
  pose proof (go_VerifyDetachedReader c vd kr VV KR msg rerr sigfile) as Hr. cbv zeta in Hr. fold rv in Hr.
  pose proof Hgo as Hgo'. rewrite Hr in Hgo'.
  destruct (GoEndToEndAuth.vdet_outcome_nil_error c vd kr msg rerr sigfile sg Hgo') as (pk & _ & Hcl).
  apply (go_VerifyDetachedReader_gated vd kr VV KR msg rerr sigfile pk).
  fold rv. rewrite Hr. exact Hcl.
Qed.

(* ---------- Open, NewDecryptStream ---------- *)
Variable pm : bytes -> gval.

(* (TARGET) *)
Theorem go_Open_gated (vd : validator) (kr : keyring) (VV RING : gval) (input : bytes) (m : mki) (pt : bytes) :
  open_class (fst (run_func2 (ext_open c pm vd kr) f_saltpack_Open [VV; VBytes input; RING])) = Ok (m, pt) ->
  gated_view view_enc_header (Some vd) mt_encryption input.
Proof.
  intros Hgo. rewrite (go_Open c pm vd kr VV RING input) in Hgo.
  rewrite (open_outcome_model c pm vd kr input (GoEndToEndAuth.open_class_ok_not_stuck _ _ Hgo)) in Hgo.
  unfold open_all in Hgo.
  destruct (open_stream c vd kr input) as [[m' out]|e] eqn:Ho; cbn [bind] in Hgo; [|discriminate Hgo].
  exact (open_stream_gated_view c vd kr input m' out Ho).
Qed.

(* (TARGET) err == nil *)
Theorem go_Open_gated_nil_error (vd : validator) (kr : keyring) (VV RING : gval) (input : bytes) (mk body : gval) :
  fst (run_func2 (ext_open c pm vd kr) f_saltpack_Open [VV; VBytes input; RING]) = ORet [mk; body; VNil] ->
  gated_view view_enc_header (Some vd) mt_encryption input.
Proof.
  intros Hgo. rewrite (go_Open c pm vd kr VV RING input) in Hgo.
  destruct (open_outcome_nil_stream c pm vd kr input mk body Hgo) as (m & out & Ho).
  exact (open_stream_gated_view c vd kr input m out Ho).
Qed.

(* (TARGET) the streaming constructor *)
Theorem go_NewDecryptStream_gated_nil_error (vd : validator) (kr : keyring) (VV rd RING : gval) (input : bytes) (mk rdr : gval) :
  rdr_bytes rd = Some input ->
  fst (run_func2 (ext_nds c pm vd kr) f_saltpack_NewDecryptStream [VV; rd; RING]) = ORet [mk; rdr; VNil] ->
  gated_view view_enc_header (Some vd) mt_encryption input.
Proof.
  intros Hrd Hgo. rewrite (go_NewDecryptStream c pm vd kr VV rd RING input Hrd) in Hgo.
  destruct (nds_outcome_nil_header c pm vd kr VV RING input mk rdr Hgo) as (x & Hh).
  exact (dec_read_header_gated_view c vd kr input x Hh).
Qed.

(* ---------- SigncryptOpen, NewSigncryptOpenStream ---------- *)
(* (TARGET) *)
Theorem go_SigncryptOpen_gated (kr : keyring) (signers : sigring) (rv : resolver) (KR RV : gval) (input : bytes)
        (s : option bytes) (pt : bytes) :
  scopen_class (fst (run_func2 (ext_scopen c kr signers rv) f_saltpack_SigncryptOpen [VBytes input; KR; RV])) = Ok (s, pt) ->
  gated_view view_enc_header None mt_signcryption input.
Proof.
  intros Hgo. rewrite (go_SigncryptOpen c kr signers rv KR RV input) in Hgo.
  rewrite (scopen_outcome_model c kr signers rv input (GoEndToEndAuth.scopen_class_ok_not_stuck _ _ Hgo)) in Hgo.
  unfold signcrypt_open_all in Hgo.
  destruct (signcrypt_open_stream c kr signers rv input) as [[s' out]|e] eqn:Ho; cbn [bind] in Hgo; [|discriminate Hgo].
  exact (signcrypt_open_stream_gated_view c kr signers rv input s' out Ho).
Qed.

(* (TARGET) err == nil *)
Theorem go_SigncryptOpen_gated_nil_error (kr : keyring) (signers : sigring) (rv : resolver) (KR RV : gval) (input : bytes)
        (sg body : gval) :
  fst (run_func2 (ext_scopen c kr signers rv) f_saltpack_SigncryptOpen [VBytes input; KR; RV]) = ORet [sg; body; VNil] ->
  gated_view view_enc_header None mt_signcryption input.
Proof.
  intros Hgo. rewrite (go_SigncryptOpen c kr signers rv KR RV input) in Hgo.
  destruct (scopen_outcome_nil_stream c kr signers rv input sg body Hgo) as (s & out & Ho).
  exact (signcrypt_open_stream_gated_view c kr signers rv input s out Ho).
Qed.

(* (TARGET) the streaming constructor *)
Theorem go_NewSigncryptOpenStream_gated_nil_error (kr : keyring) (signers : sigring) (rv : resolver) (rd KR RV : gval)
        (input : bytes) (sg rdr : gval) :
  rdr_bytes rd = Some input ->
  fst (run_func2 (ext_nsos c kr signers rv) f_saltpack_NewSigncryptOpenStream [rd; KR; RV]) = ORet [sg; rdr; VNil] ->
  gated_view view_enc_header None mt_signcryption input.
Proof.
  intros Hrd Hgo. rewrite (go_NewSigncryptOpenStream c kr signers rv rd KR RV input Hrd) in Hgo.
  destruct (nsos_outcome_nil_header c kr signers rv KR RV input sg rdr Hgo) as (x & Hh).
  exact (sc_read_header_gated_view c kr signers rv input x Hh).
Qed.
End GateGo.

(* ================= 7. the gate's refusals as outcomes, for EVERY input whose header decodes ================= *)
(* which refusal, in the order the code checks: the signature receivers check format, version, mode
   (SignatureHeader.validate); Open and SigncryptOpen check format, mode, version (EncryptionHeader.validate,
   SigncryptionHeader.validate).  [ret nm]: "the call returns the error named nm" *)
Definition sig_gate (vd : validator) (typ : Z) (h : header) (ret : string -> Prop) : Prop :=
  (h_format h <> format_name -> ret "ErrNotASaltpackMessage") /\
  (h_format h = format_name -> validate_version vd (h_version h) = false -> ret "ErrBadVersion") /\
  (h_format h = format_name -> validate_version vd (h_version h) = true -> h_type h <> typ -> ret "ErrWrongMessageType").
Definition enc_gate (version_ok : bool) (typ : Z) (h : header) (ret : string -> Prop) : Prop :=
  (h_format h <> format_name -> ret "ErrNotASaltpackMessage") /\
  (h_format h = format_name -> h_type h <> typ -> ret "ErrWrongMessageType") /\
  (h_format h = format_name -> h_type h = typ -> version_ok = false -> ret "ErrBadVersion").

Lemma sig_gate_impl vd typ h (P Q : string -> Prop) : (forall nm, P nm -> Q nm) -> sig_gate vd typ h P -> sig_gate vd typ h Q.
Proof. intros HPQ (H1 & H2 & H3). repeat split; intros; apply HPQ; auto. Qed.
Lemma enc_gate_impl b typ h (P Q : string -> Prop) : (forall nm, P nm -> Q nm) -> enc_gate b typ h P -> enc_gate b typ h Q.
Proof. intros HPQ (H1 & H2 & H3). repeat split; intros; apply HPQ; auto. Qed.

Lemma Zeqb_neq_false (a b : Z) : a <> b -> (a =? b)%Z = false.
Proof. intros H. destruct (a =? b)%Z eqn:E; [apply Z.eqb_eq in E; contradiction|reflexivity]. Qed.

Lemma validate_sig_header_gate (vd : validator) (typ : Z) (h : header) :
  sig_gate vd typ h (fun nm => exists e, validate_sig_header vd typ h = Err e /\ g_herr e = Some (VErr nm [])).
Proof.
  unfold sig_gate, validate_sig_header. split; [|split].
  - intros Hf. rewrite (bytes_eqb_neq _ _ Hf). cbn [negb]. eexists. split; reflexivity.
  - intros Hf Hv. rewrite Hf, bytes_eqb_refl, Hv. cbn [negb]. eexists. split; reflexivity.
  - intros Hf Hv Ht. rewrite Hf, bytes_eqb_refl, Hv, (Zeqb_neq_false _ _ Ht). cbn [negb]. eexists. split; reflexivity.
Qed.
Lemma validate_enc_header_gate (vd : validator) (h : header) :
  enc_gate (validate_version vd (h_version h)) mt_encryption h
           (fun nm => exists e, validate_enc_header vd h = Err e /\ g_herr e = Some (VErr nm [])).
Proof.
  unfold enc_gate, validate_enc_header. split; [|split].
  - intros Hf. rewrite (bytes_eqb_neq _ _ Hf). cbn [negb]. eexists. split; reflexivity.
  - intros Hf Ht. rewrite Hf, bytes_eqb_refl, (Zeqb_neq_false _ _ Ht). cbn [negb]. eexists. split; reflexivity.
  - intros Hf Ht Hv. rewrite Hf, bytes_eqb_refl, Ht, Z.eqb_refl, Hv. cbn [negb]. eexists. split; reflexivity.
Qed.
Lemma validate_sc_header_gate (h : header) :
  enc_gate (vmaj (h_version h) =? vmaj v2)%Z mt_signcryption h
           (fun nm => exists e, validate_sc_header h = Err e /\ g_herr e = Some (VErr nm [])).
Proof.
  unfold enc_gate, validate_sc_header. split; [|split].
  - intros Hf. rewrite (bytes_eqb_neq _ _ Hf). cbn [negb]. eexists. split; reflexivity.
  - intros Hf Ht. rewrite Hf, bytes_eqb_refl, (Zeqb_neq_false _ _ Ht). cbn [negb]. eexists. split; reflexivity.
  - intros Hf Ht Hv. rewrite Hf, bytes_eqb_refl, Ht, Z.eqb_refl, Hv. cbn [negb]. eexists. split; reflexivity.
Qed.

Section RefuseModel.
Variable c : crypto.

Lemma verify_read_header_refused vd typ input hb rest h e :
  read_header_bytes input = Ok (hb, rest) -> decode_header view_sig_header hb = Ok h ->
  validate_sig_header vd typ h = Err e -> verify_read_header c vd typ input = Err e.
Proof.
  intros Hr Hd Hv. unfold verify_read_header. rewrite Hr. cbn [bind fst snd]. rewrite Hd. cbn [bind]. rewrite Hv. reflexivity.
Qed.

(* a header-stage error of the signature receivers, as the outcomes of GoAstProofs7c.v *)
Lemma verify_outcomes_header_err vd kr input e nm :
  verify_read_header c vd mt_attached input = Err e -> g_herr e = Some (VErr nm []) ->
  verify_outcome c vd kr input = ORet [VNil; VNil; VErr nm []] /\
  nvs_outcome c vd kr input = ORet [VNil; VNil; VErr nm []].
Proof.
  intros Hh Hg. unfold verify_outcome, verify_stream, nvs_outcome. rewrite Hh. cbn [bind]. rewrite Hg. split; reflexivity.
Qed.
Lemma vdet_outcome_header_err vd kr msg rv sigfile e nm :
  verify_read_header c vd mt_detached sigfile = Err e -> g_herr e = Some (VErr nm []) ->
  vdet_outcome c vd kr msg rv sigfile = ORet [VNil; VErr nm []].
Proof. intros Hh Hg. unfold vdet_outcome. rewrite Hh, Hg. reflexivity. Qed.

Lemma open_outcomes_header_err pm vd kr VV RING input hb rest h e ev :
  read_header_bytes input = Ok (hb, rest) -> decode_header view_enc_header hb = Ok h ->
  validate_enc_header vd h = Err e -> g_herr e = Some ev ->
  open_outcome c pm vd kr input = ORet [pm input; VNil; ev] /\
  nds_outcome c pm vd kr VV RING input = ORet [pm input; VNil; ev].
Proof.
  intros Hr Hd Hv Hg.
  assert (Hh : dec_read_header c vd kr input = Err e).
  { unfold dec_read_header. rewrite Hr. cbn [bind fst snd]. rewrite Hd. cbn [bind].
    unfold process_enc_header. rewrite Hv. reflexivity. }
  unfold open_outcome, nds_outcome. rewrite (open_stream_header c vd kr input), Hh. cbn [bind]. rewrite Hg.
  split; reflexivity.
Qed.
Lemma scopen_outcomes_header_err kr signers rv KR RV input hb rest h e ev :
  read_header_bytes input = Ok (hb, rest) -> decode_header view_enc_header hb = Ok h ->
  validate_sc_header h = Err e -> g_herr e = Some ev ->
  scopen_outcome c kr signers rv input = ORet [VNil; VNil; ev] /\
  nsos_outcome c kr signers rv KR RV input = ORet [VNil; VNil; ev].
Proof.
  intros Hr Hd Hv Hg.
  assert (Hh : sc_read_header c kr signers rv input = Err e).
  { unfold sc_read_header. rewrite Hr. cbn [bind fst snd]. rewrite Hd. cbn [bind].
    unfold process_sc_header. rewrite Hv. reflexivity. }
  unfold scopen_outcome, nsos_outcome. rewrite (signcrypt_open_stream_header c kr signers rv input), Hh. cbn [bind]. rewrite Hg.
  split; reflexivity.
Qed.

(* which header-stage error the model's receivers report is the header stage's own *)
Lemma verify_stream_header_err vd kr input e :
  verify_stream c vd kr input = Err e -> e <> ErrNoSenderKey -> verify_read_header c vd mt_attached input = Err e.
Proof.
  unfold verify_stream. destruct (verify_read_header c vd mt_attached input) as [[[h hh] rest]|e0]; cbn [bind].
  - destruct (lookup_signer kr (h_a h)); intros H Hn; [discriminate H|]. injection H as <-. contradiction.
  - intros H _. injection H as ->. reflexivity.
Qed.
Lemma verify_detached_wrong_type vd kr msg sigfile :
  verify_detached c vd kr msg sigfile = Err ErrWrongMessageType ->
  verify_read_header c vd mt_detached sigfile = Err ErrWrongMessageType.
Proof.
  unfold verify_detached. destruct (verify_read_header c vd mt_detached sigfile) as [[[h hh] rest]|e0]; cbn [bind].
  - destruct (mp_read rest) as [m r2| | |]; try (intros H; discriminate H).
    destruct (as_bytes m) as [sig| |]; cbn [of_dres bind]; try (intros H; discriminate H).
    destruct (lookup_signer kr (h_a h)) as [pk|]; [|intros H; discriminate H].
    destruct (ed_verify c pk (detached_sig_input c hh msg) sig); intros H; discriminate H.
  - intros H. injection H as ->. reflexivity.
Qed.
End RefuseModel.

Section RefuseGo.
Variable c : crypto.

(* (TARGET) Verify and NewVerifyStream *)
Theorem go_Verify_gate_refusals (vd : validator) (kr : sigring) (VV KR rd : gval) (input hb rest : bytes) (h : header) :
  read_header_bytes input = Ok (hb, rest) -> decode_header view_sig_header hb = Ok h ->
  rdr_bytes rd = Some input ->
  sig_gate vd mt_attached h (fun nm =>
    fst (run_func2 (ext_verify c vd kr) f_saltpack_Verify [VV; VBytes input; KR]) = ORet [VNil; VNil; VErr nm []] /\
    fst (run_func2 (ext_NVS c vd kr) f_saltpack_NewVerifyStream [VV; rd; KR]) = ORet [VNil; VNil; VErr nm []]).
Proof.
  intros Hr Hd Hrd. refine (sig_gate_impl _ _ _ _ _ _ (validate_sig_header_gate vd mt_attached h)).
  intros nm (e & Hv & Hg).
  rewrite (go_Verify c vd kr VV KR input), (go_NewVerifyStream c vd kr VV rd KR input Hrd).
  exact (verify_outcomes_header_err c vd kr input e nm (verify_read_header_refused c vd mt_attached input hb rest h e Hr Hd Hv) Hg).
Qed.

(* (TARGET) VerifyDetached and VerifyDetachedReader (whatever the message, whatever its reader ends with) *)
Theorem go_VerifyDetached_gate_refusals (vd : validator) (kr : sigring) (VV KR : gval) (msg : bytes)
        (rerr : option (string * list gval)) (sigfile hb rest : bytes) (h : header) :
  read_header_bytes sigfile = Ok (hb, rest) -> decode_header view_sig_header hb = Ok h ->
  let rv := match rerr with Some (n, a) => Some (VErr n a) | None => None end in
  sig_gate vd mt_detached h (fun nm =>
    fst (run_func2 (ext_vdet2 c vd kr) f_saltpack_VerifyDetached [VV; VBytes msg; VBytes sigfile; KR]) = ORet [VNil; VErr nm []] /\
    fst (run_func2 (ext_vdet c vd kr) f_saltpack_VerifyDetachedReader [VV; g_rdr msg rv; VBytes sigfile; KR])
    = ORet [VNil; VErr nm []]).
Proof.
  intros Hr Hd rv. refine (sig_gate_impl _ _ _ _ _ _ (validate_sig_header_gate vd mt_detached h)).
  intros nm (e & Hv & Hg).
  pose proof (go_VerifyDetachedReader c vd kr VV KR msg rerr sigfile) as Hrdr. cbv zeta in Hrdr. fold rv in Hrdr.
  rewrite (go_VerifyDetached c vd kr VV KR msg sigfile), Hrdr.
  pose proof (verify_read_header_refused c vd mt_detached sigfile hb rest h e Hr Hd Hv) as Hh.
  split; exact (vdet_outcome_header_err c vd kr msg _ sigfile e nm Hh Hg).
Qed.

(* (TARGET) Open and NewDecryptStream *)
Theorem go_Open_gate_refusals (pm : bytes -> gval) (vd : validator) (kr : keyring) (VV RING rd : gval)
        (input hb rest : bytes) (h : header) :
  read_header_bytes input = Ok (hb, rest) -> decode_header view_enc_header hb = Ok h ->
  rdr_bytes rd = Some input ->
  enc_gate (validate_version vd (h_version h)) mt_encryption h (fun nm =>
    fst (run_func2 (ext_open c pm vd kr) f_saltpack_Open [VV; VBytes input; RING]) = ORet [pm input; VNil; VErr nm []] /\
    fst (run_func2 (ext_nds c pm vd kr) f_saltpack_NewDecryptStream [VV; rd; RING]) = ORet [pm input; VNil; VErr nm []]).
Proof.
  intros Hr Hd Hrd. refine (enc_gate_impl _ _ _ _ _ _ (validate_enc_header_gate vd h)).
  intros nm (e & Hv & Hg).
  rewrite (go_Open c pm vd kr VV RING input), (go_NewDecryptStream c pm vd kr VV rd RING input Hrd).
  exact (open_outcomes_header_err c pm vd kr VV RING input hb rest h e _ Hr Hd Hv Hg).
Qed.

(* (TARGET) SigncryptOpen and NewSigncryptOpenStream *)
Theorem go_SigncryptOpen_gate_refusals (kr : keyring) (signers : sigring) (rv : resolver) (KR RV rd : gval)
        (input hb rest : bytes) (h : header) :
  read_header_bytes input = Ok (hb, rest) -> decode_header view_enc_header hb = Ok h ->
  rdr_bytes rd = Some input ->
  enc_gate (vmaj (h_version h) =? vmaj v2)%Z mt_signcryption h (fun nm =>
    fst (run_func2 (ext_scopen c kr signers rv) f_saltpack_SigncryptOpen [VBytes input; KR; RV]) = ORet [VNil; VNil; VErr nm []] /\
    fst (run_func2 (ext_nsos c kr signers rv) f_saltpack_NewSigncryptOpenStream [rd; KR; RV]) = ORet [VNil; VNil; VErr nm []]).
Proof.
  intros Hr Hd Hrd. refine (enc_gate_impl _ _ _ _ _ _ (validate_sc_header_gate h)).
  intros nm (e & Hv & Hg).
  rewrite (go_SigncryptOpen c kr signers rv KR RV input), (go_NewSigncryptOpenStream c kr signers rv rd KR RV input Hrd).
  exact (scopen_outcomes_header_err c kr signers rv KR RV input hb rest h e _ Hr Hd Hv Hg).
Qed.
End RefuseGo.

(* ================= 8. cross-mode and cross-version refusals of GENUINE messages ================= *)
(* ---------- 8a. every message of the model's senders (C17_attached_not_detached, C17_detached_not_attached,
   C17_other_version_refused composed with the receiver ties) ---------- *)
Section CrossModel.
Variable c : crypto.
Hypothesis Hc : crypto_ok c.

(* (TARGET) an attached signature given to the detached entry points *)
Theorem go_VerifyDetached_refuses_attached (v : version) (sk : bytes) (pieces : list bytes) (r r' : rng) (out : bytes)
        (kr : sigring) (vd : validator) (VV KR : gval) (msg : bytes) (rerr : option (string * list gval)) :
  v = v1 \/ v = v2 -> good_validator vd v ->
  sign_attached_stream c v sk pieces r = Ok (out, r') ->
  let rv := match rerr with Some (n, a) => Some (VErr n a) | None => None end in
  fst (run_func2 (ext_vdet2 c vd kr) f_saltpack_VerifyDetached [VV; VBytes msg; VBytes out; KR])
  = ORet [VNil; VErr "ErrWrongMessageType" []] /\
  fst (run_func2 (ext_vdet c vd kr) f_saltpack_VerifyDetachedReader [VV; g_rdr msg rv; VBytes out; KR])
  = ORet [VNil; VErr "ErrWrongMessageType" []].
Proof.
  intros Hv Hvd Hs rv.
  pose proof (verify_detached_wrong_type c vd kr msg out
                (detached_rejects_attached c Hc v sk pieces r r' kr vd msg out Hv Hvd Hs)) as Hh.
  pose proof (go_VerifyDetachedReader c vd kr VV KR msg rerr out) as Hrdr. cbv zeta in Hrdr. fold rv in Hrdr.
  rewrite (go_VerifyDetached c vd kr VV KR msg out), Hrdr.
  split; exact (vdet_outcome_header_err c vd kr msg _ out _ _ Hh eq_refl).
Qed.

(* (TARGET) a detached signature given to the attached entry points *)
Theorem go_Verify_refuses_detached (v : version) (sk msg : bytes) (r r' : rng) (out : bytes)
        (kr : sigring) (vd : validator) (VV KR rd : gval) :
  v = v1 \/ v = v2 -> good_validator vd v ->
  sign_detached c v sk msg r = Ok (out, r') ->
  rdr_bytes rd = Some out ->
  fst (run_func2 (ext_verify c vd kr) f_saltpack_Verify [VV; VBytes out; KR])
  = ORet [VNil; VNil; VErr "ErrWrongMessageType" []] /\
  fst (run_func2 (ext_NVS c vd kr) f_saltpack_NewVerifyStream [VV; rd; KR])
  = ORet [VNil; VNil; VErr "ErrWrongMessageType" []].
Proof.
  intros Hv Hvd Hs Hrd.
  pose proof (verify_stream_header_err c vd kr out _
                (attached_rejects_detached c Hc v sk msg r r' kr vd out Hv Hvd Hs) ltac:(discriminate)) as Hh.
  rewrite (go_Verify c vd kr VV KR out), (go_NewVerifyStream c vd kr VV rd KR out Hrd).
  exact (verify_outcomes_header_err c vd kr out _ _ Hh eq_refl).
Qed.

(* (TARGET) a message of one version given to a receiver that accepts only the other *)
Theorem go_Verify_refuses_other_version (v v' : version) (sk : bytes) (pieces : list bytes) (r r' : rng) (out : bytes)
        (kr : sigring) (VV KR rd : gval) :
  v = v1 \/ v = v2 -> v' = v1 \/ v' = v2 -> v <> v' ->
  sign_attached_stream c v sk pieces r = Ok (out, r') ->
  rdr_bytes rd = Some out ->
  fst (run_func2 (ext_verify c (Single v') kr) f_saltpack_Verify [VV; VBytes out; KR])
  = ORet [VNil; VNil; VErr "ErrBadVersion" []] /\
  fst (run_func2 (ext_NVS c (Single v') kr) f_saltpack_NewVerifyStream [VV; rd; KR])
  = ORet [VNil; VNil; VErr "ErrBadVersion" []].
Proof.
  intros Hv Hv' Hne Hs Hrd.
  pose proof (verify_stream_header_err c (Single v') kr out _
                (verify_other_version c Hc v v' sk pieces r r' kr out Hv Hv' Hne Hs) ltac:(discriminate)) as Hh.
  rewrite (go_Verify c (Single v') kr VV KR out), (go_NewVerifyStream c (Single v') kr VV rd KR out Hrd).
  exact (verify_outcomes_header_err c (Single v') kr out _ _ Hh eq_refl).
Qed.
End CrossModel.

(* ---------- 8b. every message of the GENERAL specification encoders (spec/Spec.v) ---------- *)
Section CrossSpec.
Variable c : crypto.
Hypothesis Hc : crypto_ok c.

(* the header a spec-following signer writes, as the receivers decode it *)
Lemma spec_sig_header_decodes (p : S_sig) (mode : Z) (body : bytes) :
  (ss_major p = 1 \/ ss_major p = 2)%Z -> (0 <= ss_minor p <= 127)%Z -> (mode = 1 \/ mode = 2)%Z ->
  (len (ss_nonce p) < 4294967296)%N -> extras_ok (ss_extra_hdr p) ->
  (len (mp_encode (S_sig_header_list c p mode)) < 4294967296)%N ->
  read_header_bytes (mp_encode (MBin (mp_encode (S_sig_header_list c p mode))) ++ body)%list
  = Ok (mp_encode (S_sig_header_list c p mode), body) /\
  decode_header view_sig_header (mp_encode (S_sig_header_list c p mode)) = Ok (spec_hdr c p mode).
Proof.
  intros Hmaj Hmin Hmode Hn Hex Hlen. split.
  - apply read_header_bytes_enc. exact Hlen.
  - rewrite decode_header_enc by (apply (wf_spec_sig_header c Hc); assumption).
    rewrite (view_spec_sig_header c p mode Hmaj Hmin Hmode). reflexivity.
Qed.

(* (TARGET) a spec-following ATTACHED signature is refused by the detached entry points *)
Theorem go_VerifyDetached_refuses_spec_attached (p : S_sig) (kr : sigring) (vd : validator) (VV KR : gval) (msg : bytes)
        (rerr : option (string * list gval)) :
  (ss_major p = 1 \/ ss_major p = 2)%Z -> (0 <= ss_minor p <= 127)%Z ->
  (len (ss_nonce p) < 4294967296)%N -> extras_ok (ss_extra_hdr p) ->
  (len (mp_encode (S_sig_header_list c p S_mode_attached)) < 4294967296)%N ->
  admits vd (ss_major p) (ss_minor p) ->
  let rv := match rerr with Some (n, a) => Some (VErr n a) | None => None end in
  fst (run_func2 (ext_vdet2 c vd kr) f_saltpack_VerifyDetached [VV; VBytes msg; VBytes (S_encode_attached c p); KR])
  = ORet [VNil; VErr "ErrWrongMessageType" []] /\
  fst (run_func2 (ext_vdet c vd kr) f_saltpack_VerifyDetachedReader [VV; g_rdr msg rv; VBytes (S_encode_attached c p); KR])
  = ORet [VNil; VErr "ErrWrongMessageType" []].
Proof.
  intros Hmaj Hmin Hn Hex Hlen Hvd rv.
  destruct (spec_sig_header_decodes p S_mode_attached
              (S_sig_packets c p (sha512 c (mp_encode (S_sig_header_list c p S_mode_attached))) 0
                             (S_packets (ss_major p) (ss_chunks p)))
              Hmaj Hmin (or_introl eq_refl) Hn Hex Hlen) as (Hr & Hd).
  destruct (go_VerifyDetached_gate_refusals c vd kr VV KR msg rerr (S_encode_attached c p) _ _ _ Hr Hd) as (_ & _ & H3).
  apply H3.
  - reflexivity.
  - exact (validate_admits vd _ _ Hmaj Hvd).
  - discriminate.
Qed.

(* (TARGET) a spec-following DETACHED signature is refused by the attached entry points *)
Theorem go_Verify_refuses_spec_detached (p : S_sig) (kr : sigring) (vd : validator) (VV KR rd : gval) :
  (ss_major p = 1 \/ ss_major p = 2)%Z -> (0 <= ss_minor p <= 127)%Z ->
  (len (ss_nonce p) < 4294967296)%N -> extras_ok (ss_extra_hdr p) ->
  (len (mp_encode (S_sig_header_list c p S_mode_detached)) < 4294967296)%N ->
  admits vd (ss_major p) (ss_minor p) ->
  rdr_bytes rd = Some (S_encode_detached c p) ->
  fst (run_func2 (ext_verify c vd kr) f_saltpack_Verify [VV; VBytes (S_encode_detached c p); KR])
  = ORet [VNil; VNil; VErr "ErrWrongMessageType" []] /\
  fst (run_func2 (ext_NVS c vd kr) f_saltpack_NewVerifyStream [VV; rd; KR])
  = ORet [VNil; VNil; VErr "ErrWrongMessageType" []].
Proof.
  intros Hmaj Hmin Hn Hex Hlen Hvd Hrd.
  destruct (spec_sig_header_decodes p S_mode_detached
              (mp_encode (MBin (ed_sign c (ss_sk p)
                 (S_detached_prefix ++ sha512 c (sha512 c (mp_encode (S_sig_header_list c p S_mode_detached)) ++ ss_msg p))%list)))
              Hmaj Hmin (or_intror eq_refl) Hn Hex Hlen) as (Hr & Hd).
  destruct (go_Verify_gate_refusals c vd kr VV KR rd (S_encode_detached c p) _ _ _ Hr Hd Hrd) as (_ & _ & H3).
  apply H3.
  - reflexivity.
  - exact (validate_admits vd _ _ Hmaj Hvd).
  - discriminate.
Qed.

(* (TARGET) a spec-following attached signature of one version is refused by a receiver accepting only another *)
Theorem go_Verify_refuses_spec_other_version (p : S_sig) (kr : sigring) (v' : version) (VV KR rd : gval) :
  (ss_major p = 1 \/ ss_major p = 2)%Z -> (0 <= ss_minor p <= 127)%Z ->
  (len (ss_nonce p) < 4294967296)%N -> extras_ok (ss_extra_hdr p) ->
  (len (mp_encode (S_sig_header_list c p S_mode_attached)) < 4294967296)%N ->
  v' <> mkV (ss_major p) (ss_minor p) ->
  rdr_bytes rd = Some (S_encode_attached c p) ->
  fst (run_func2 (ext_verify c (Single v') kr) f_saltpack_Verify [VV; VBytes (S_encode_attached c p); KR])
  = ORet [VNil; VNil; VErr "ErrBadVersion" []] /\
  fst (run_func2 (ext_NVS c (Single v') kr) f_saltpack_NewVerifyStream [VV; rd; KR])
  = ORet [VNil; VNil; VErr "ErrBadVersion" []].
Proof.
  intros Hmaj Hmin Hn Hex Hlen Hne Hrd.
  destruct (spec_sig_header_decodes p S_mode_attached
              (S_sig_packets c p (sha512 c (mp_encode (S_sig_header_list c p S_mode_attached))) 0
                             (S_packets (ss_major p) (ss_chunks p)))
              Hmaj Hmin (or_introl eq_refl) Hn Hex Hlen) as (Hr & Hd).
  destruct (go_Verify_gate_refusals c (Single v') kr VV KR rd (S_encode_attached c p) _ _ _ Hr Hd Hrd) as (_ & H2 & _).
  apply H2.
  - reflexivity.
  - unfold spec_hdr. cbn [h_version validate_version]. unfold version_eqb. cbn [vmaj vmin].
    destruct v' as [a b]. cbn [vmaj vmin].
    destruct (ss_major p =? a)%Z eqn:E1; [|reflexivity]. destruct (ss_minor p =? b)%Z eqn:E2; [|reflexivity].
    apply Z.eqb_eq in E1, E2. exfalso. apply Hne. rewrite E1, E2. reflexivity.
Qed.

(* (TARGET) a spec-following ENCRYPTION message is refused by the signcryption entry points *)
Theorem go_SigncryptOpen_refuses_spec_encryption (p : S_enc) (kr : keyring) (signers : sigring) (rv : resolver)
        (KR RV rd : gval) :
  enc_params_ok c p ->
  rdr_bytes rd = Some (S_encode_encryption c p) ->
  fst (run_func2 (ext_scopen c kr signers rv) f_saltpack_SigncryptOpen [VBytes (S_encode_encryption c p); KR; RV])
  = ORet [VNil; VNil; VErr "ErrWrongMessageType" []] /\
  fst (run_func2 (ext_nsos c kr signers rv) f_saltpack_NewSigncryptOpenStream [rd; KR; RV])
  = ORet [VNil; VNil; VErr "ErrWrongMessageType" []].
Proof.
  intros Hp Hrd.
  destruct p as [major minor sender eph pkey rcpts chunks xh xr xp].
  destruct Hp as (Hmaj & Hmin & Hpk & _ & _ & Hk32 & Hxh & Hxr & _ & Hlen & _).
  cbn [se_major se_minor se_pkey se_rcpts se_extra_hdr se_extra_rcpt] in *.
  pose proof (header_roundtrip_g c Hc major minor sender eph pkey rcpts chunks xh xr xp Hmaj Hmin Hpk Hk32 Hxh Hxr Hlen) as Hd.
  set (p := mkSEnc major minor sender eph pkey rcpts chunks xh xr xp) in *.
  assert (Hr : read_header_bytes (S_encode_encryption c p)
               = Ok (mp_encode (S_enc_header_list c p),
                     S_enc_packets c p (sha512 c (mp_encode (S_enc_header_list c p))) 0 (S_packets (se_major p) (se_chunks p)))).
  { unfold S_encode_encryption. apply read_header_bytes_enc. exact Hlen. }
  destruct (go_SigncryptOpen_gate_refusals c kr signers rv KR RV rd (S_encode_encryption c p) _ _ _ Hr Hd Hrd) as (_ & H2 & _).
  apply H2; [reflexivity|discriminate].
Qed.

(* (TARGET) a spec-following SIGNCRYPTION message is refused by the encryption entry points *)
Theorem go_Open_refuses_spec_signcryption (pm : bytes -> gval) (p : S_sc) (vd : validator) (kr : keyring) (VV RING rd : gval) :
  sc_params_ok c p ->
  rdr_bytes rd = Some (S_encode_signcryption c p) ->
  fst (run_func2 (ext_open c pm vd kr) f_saltpack_Open [VV; VBytes (S_encode_signcryption c p); RING])
  = ORet [pm (S_encode_signcryption c p); VNil; VErr "ErrWrongMessageType" []] /\
  fst (run_func2 (ext_nds c pm vd kr) f_saltpack_NewDecryptStream [VV; rd; RING])
  = ORet [pm (S_encode_signcryption c p); VNil; VErr "ErrWrongMessageType" []].
Proof.
  intros Hp Hrd.
  pose proof (sp_decode_header c p Hp) as Hd.
  assert (Hr : read_header_bytes (S_encode_signcryption c p)
               = Ok (sp_hdr c p, S_sc_packets c p (sha512 c (sp_hdr c p)) 0 (S_flag_last (sc_chunks p)))).
  { rewrite sp_encode_eq. apply read_header_bytes_enc. unfold sp_hdr. destruct Hp as (_ & _ & _ & _ & _ & _ & Hlen & _). exact Hlen. }
  destruct (go_Open_gate_refusals c pm vd kr VV RING rd (S_encode_signcryption c p) _ _ _ Hr Hd Hrd) as (_ & H2 & _).
  apply H2; [reflexivity|discriminate].
Qed.
End CrossSpec.

(* ---------- 8c. spec-following ENCRYPTION and SIGNCRYPTION messages given to the four signature entry points:
   the signature receivers decode the header under view_sig_header, which reads the first five fields by index (the sixth,
   the recipient list, and every extra element are ignored), so these headers DECODE there and the mode gate refuses them ---------- *)
Section CrossSpecSig.
Variable c : crypto.
Hypothesis Hc : crypto_ok c.

Lemma spec_enc_header_as_sig (p : S_enc) :
  enc_params_ok c p ->
  exists h, read_header_bytes (S_encode_encryption c p)
            = Ok (mp_encode (S_enc_header_list c p),
                  S_enc_packets c p (sha512 c (mp_encode (S_enc_header_list c p))) 0 (S_packets (se_major p) (se_chunks p))) /\
            decode_header view_sig_header (mp_encode (S_enc_header_list c p)) = Ok h /\
            h_format h = format_name /\ h_version h = mkV (se_major p) (se_minor p) /\ h_type h = mt_encryption.
Proof.
  intros Hp.
  destruct p as [major minor sender eph pkey rcpts chunks xh xr xp].
  destruct Hp as (Hmaj & Hmin & Hpk & _ & _ & Hk32 & Hxh & Hxr & _ & Hlen & _).
  cbn [se_major se_minor se_pkey se_rcpts se_extra_hdr se_extra_rcpt] in *.
  pose proof (rcpts_le_header c major minor sender eph pkey rcpts chunks xh xr xp Hpk) as Hle.
  assert (Hnr : (N.of_nat (List.length rcpts) < 4294967296)%N) by (unfold len in Hlen; lia).
  pose proof (wf_S_header c Hc major minor sender eph pkey rcpts chunks xh xr xp Hmaj Hmin Hpk Hk32 Hxh Hxr Hnr) as Hwf.
  set (p := mkSEnc major minor sender eph pkey rcpts chunks xh xr xp) in *.
  eexists. split; [|split].
  - unfold S_encode_encryption. apply read_header_bytes_enc. exact Hlen.
  - rewrite (decode_header_enc view_sig_header _ Hwf). unfold S_enc_header_list, p.
    cbn [se_major se_minor se_eph se_pkey se_sender se_rcpts se_extra_hdr se_extra_rcpt].
    match goal with |- context [MArr ([?a; ?b; ?c0; ?d; ?e; ?f] ++ ?x)] =>
      change (MArr ([a; b; c0; d; e; f] ++ x)) with (MArr ([a; b; c0; d; e] ++ (f :: x))) end.
    rewrite view_sig_header_ext; [reflexivity| | |].
    + destruct Hmaj as [-> | ->]; lia.
    + lia.
    + unfold S_mode_encryption. lia.
  - cbn [h_format h_version h_type]. repeat split.
Qed.

Lemma spec_sc_header_as_sig (p : S_sc) :
  sc_params_ok c p ->
  exists h, read_header_bytes (S_encode_signcryption c p)
            = Ok (sp_hdr c p, S_sc_packets c p (sha512 c (sp_hdr c p)) 0 (S_flag_last (sc_chunks p))) /\
            decode_header view_sig_header (sp_hdr c p) = Ok h /\
            h_format h = format_name /\ h_version h = mkV 2 (sc_minor p) /\ h_type h = mt_signcryption.
Proof.
  intros Hp. pose proof (sp_header_wf c p Hp) as Hwf.
  destruct Hp as (Hmin & _ & _ & _ & _ & _ & Hlen & _).
  eexists. split; [|split].
  - rewrite sp_encode_eq. apply read_header_bytes_enc. exact Hlen.
  - unfold sp_hdr. rewrite (decode_header_enc view_sig_header _ Hwf). unfold S_sc_header_list.
    match goal with |- context [MArr ([?a; ?b; ?c0; ?d; ?e; ?f] ++ ?x)] =>
      change (MArr ([a; b; c0; d; e; f] ++ x)) with (MArr ([a; b; c0; d; e] ++ (f :: x))) end.
    rewrite view_sig_header_ext; [reflexivity| | |].
    + lia.
    + lia.
    + unfold S_mode_signcryption. lia.
  - cbn [h_format h_version h_type]. repeat split.
Qed.

(* (TARGET) *)
Theorem go_signature_receivers_refuse_spec_encryption (p : S_enc) (kr : sigring) (vd : validator) (VV KR rd : gval)
        (msg : bytes) (rerr : option (string * list gval)) :
  enc_params_ok c p -> admits vd (se_major p) (se_minor p) ->
  rdr_bytes rd = Some (S_encode_encryption c p) ->
  let rv := match rerr with Some (n, a) => Some (VErr n a) | None => None end in
  fst (run_func2 (ext_verify c vd kr) f_saltpack_Verify [VV; VBytes (S_encode_encryption c p); KR])
  = ORet [VNil; VNil; VErr "ErrWrongMessageType" []] /\
  fst (run_func2 (ext_NVS c vd kr) f_saltpack_NewVerifyStream [VV; rd; KR])
  = ORet [VNil; VNil; VErr "ErrWrongMessageType" []] /\
  fst (run_func2 (ext_vdet2 c vd kr) f_saltpack_VerifyDetached [VV; VBytes msg; VBytes (S_encode_encryption c p); KR])
  = ORet [VNil; VErr "ErrWrongMessageType" []] /\
  fst (run_func2 (ext_vdet c vd kr) f_saltpack_VerifyDetachedReader [VV; g_rdr msg rv; VBytes (S_encode_encryption c p); KR])
  = ORet [VNil; VErr "ErrWrongMessageType" []].
Proof.
  intros Hp Hvd Hrd rv.
  destruct (spec_enc_header_as_sig p Hp) as (h & Hr & Hd & Hf & Hv & Ht).
  assert (Hval : validate_version vd (h_version h) = true).
  { rewrite Hv. apply validate_admits; [exact (proj1 Hp)|exact Hvd]. }
  destruct (go_Verify_gate_refusals c vd kr VV KR rd _ _ _ h Hr Hd Hrd) as (_ & _ & H3).
  destruct (go_VerifyDetached_gate_refusals c vd kr VV KR msg rerr _ _ _ h Hr Hd) as (_ & _ & H3').
  assert (Hta : h_type h <> mt_attached) by (rewrite Ht; discriminate).
  assert (Htd : h_type h <> mt_detached) by (rewrite Ht; discriminate).
  destruct (H3 Hf Hval Hta) as (G1 & G2). destruct (H3' Hf Hval Htd) as (G3 & G4).
  split; [exact G1|]. split; [exact G2|]. split; [exact G3|exact G4].
Qed.

(* (TARGET) *)
Theorem go_signature_receivers_refuse_spec_signcryption (p : S_sc) (kr : sigring) (vd : validator) (VV KR rd : gval)
        (msg : bytes) (rerr : option (string * list gval)) :
  sc_params_ok c p -> admits vd 2 (sc_minor p) ->
  rdr_bytes rd = Some (S_encode_signcryption c p) ->
  let rv := match rerr with Some (n, a) => Some (VErr n a) | None => None end in
  fst (run_func2 (ext_verify c vd kr) f_saltpack_Verify [VV; VBytes (S_encode_signcryption c p); KR])
  = ORet [VNil; VNil; VErr "ErrWrongMessageType" []] /\
  fst (run_func2 (ext_NVS c vd kr) f_saltpack_NewVerifyStream [VV; rd; KR])
  = ORet [VNil; VNil; VErr "ErrWrongMessageType" []] /\
  fst (run_func2 (ext_vdet2 c vd kr) f_saltpack_VerifyDetached [VV; VBytes msg; VBytes (S_encode_signcryption c p); KR])
  = ORet [VNil; VErr "ErrWrongMessageType" []] /\
  fst (run_func2 (ext_vdet c vd kr) f_saltpack_VerifyDetachedReader [VV; g_rdr msg rv; VBytes (S_encode_signcryption c p); KR])
  = ORet [VNil; VErr "ErrWrongMessageType" []].
Proof.
  intros Hp Hvd Hrd rv.
  destruct (spec_sc_header_as_sig p Hp) as (h & Hr & Hd & Hf & Hv & Ht).
  assert (Hval : validate_version vd (h_version h) = true).
  { rewrite Hv. apply validate_admits; [right; reflexivity|exact Hvd]. }
  destruct (go_Verify_gate_refusals c vd kr VV KR rd _ _ _ h Hr Hd Hrd) as (_ & _ & H3).
  destruct (go_VerifyDetached_gate_refusals c vd kr VV KR msg rerr _ _ _ h Hr Hd) as (_ & _ & H3').
  assert (Hta : h_type h <> mt_attached) by (rewrite Ht; discriminate).
  assert (Htd : h_type h <> mt_detached) by (rewrite Ht; discriminate).
  destruct (H3 Hf Hval Hta) as (G1 & G2). destruct (H3' Hf Hval Htd) as (G3 & G4).
  split; [exact G1|]. split; [exact G2|]. split; [exact G3|exact G4].
Qed.
End CrossSpecSig.


(* ====================================================================================================== *)
(* ================= EXAMPLES: the statements on concrete inputs (model/ToyCrypto.v) ================= *)
(* ====================================================================================================== *)
From SP Require Import ToyCrypto ToyCryptoProofs.
Module Examples.
(* a foreign-looking attached signature (C09_ex_foreign_attached): one-byte and two-byte chunks, minor version 7, extra
   trailing elements in the header and in every packet *)
Definition x_p : S_sig :=
  mkSSig 2 7 (repeat x07 64) (repeat x09 32) [[x68]; [x69; x21]] [x68; x69; x21] [MInt 5; MStr [x78]] [MNil].
Definition x_pk : bytes := ed_pub toy_crypto (repeat x07 64).

(* the translated entry points RUN by the evaluator (vm_compute) on the spec encoder's bytes: Verify accepts, VerifyDetached
   refuses the attached form and accepts the detached one, a validator for exactly 2.0 refuses version 2.7 *)
Example ex_sig_computes :
  fst (run_func2 (ext_verify toy_crypto AnyKnownMajor [x_pk]) f_saltpack_Verify [VNil; VBytes (S_encode_attached toy_crypto x_p); VNil])
  = ORet [g_spk x_pk; VBytes [x68; x69; x21]; VNil] /\
  fst (run_func2 (ext_vdet2 toy_crypto AnyKnownMajor [x_pk]) f_saltpack_VerifyDetached
         [VNil; VBytes [x68; x69; x21]; VBytes (S_encode_attached toy_crypto x_p); VNil])
  = ORet [VNil; VErr "ErrWrongMessageType" []] /\
  fst (run_func2 (ext_vdet2 toy_crypto AnyKnownMajor [x_pk]) f_saltpack_VerifyDetached
         [VNil; VBytes [x68; x69; x21]; VBytes (S_encode_detached toy_crypto x_p); VNil])
  = ORet [g_spk x_pk; VNil] /\
  fst (run_func2 (ext_verify toy_crypto AnyKnownMajor [x_pk]) f_saltpack_Verify [VNil; VBytes (S_encode_detached toy_crypto x_p); VNil])
  = ORet [VNil; VNil; VErr "ErrWrongMessageType" []] /\
  fst (run_func2 (ext_verify toy_crypto (Single v2) [x_pk]) f_saltpack_Verify [VNil; VBytes (S_encode_attached toy_crypto x_p); VNil])
  = ORet [VNil; VNil; VErr "ErrBadVersion" []].
Proof. vm_compute. repeat split. Qed.

(* the hypotheses of the acceptance theorems are satisfiable: their instances on x_p, every hypothesis discharged *)
Lemma x_extras_hdr : extras_ok (ss_extra_hdr x_p).
Proof.
  split; [|vm_compute; reflexivity].
  apply Forall_cons; [cbn [wf]; lia|]. apply Forall_cons; [cbn [wf]; vm_compute; reflexivity|]. apply Forall_nil.
Qed.
Lemma x_p_ok : sig_params_ok x_p.
Proof.
  unfold sig_params_ok. split; [right; reflexivity|]. split; [cbn [ss_minor x_p]; lia|]. split; [vm_compute; reflexivity|].
  split; [exact x_extras_hdr|].
  split; [split; [apply Forall_cons; [exact I|apply Forall_nil]|vm_compute; reflexivity]|].
  split; [right; split; [discriminate|repeat (apply Forall_cons; [cbn [List.length]; pose proof S_max_chunk_N; lia|]); apply Forall_nil]|].
  vm_compute. reflexivity.
Qed.
Example ex_attached_instance :
  fst (run_func2 (ext_verify toy_crypto AnyKnownMajor [x_pk]) f_saltpack_Verify [VNil; VBytes (S_encode_attached toy_crypto x_p); VNil])
  = ORet [g_spk x_pk; VBytes (List.concat (ss_chunks x_p)); VNil].
Proof.
  apply (go_Verify_accepts_spec toy_crypto toy_crypto_ok x_p [x_pk] AnyKnownMajor VNil VNil x_p_ok).
  - vm_compute. reflexivity.
  - left. reflexivity.
  - left. reflexivity.
Qed.
Example ex_detached_instance :
  fst (run_func2 (ext_vdet2 toy_crypto (Single (mkV 2 7)) [x_pk]) f_saltpack_VerifyDetached
         [VNil; VBytes (ss_msg x_p); VBytes (S_encode_detached toy_crypto x_p); VNil])
  = ORet [g_spk x_pk; VNil].
Proof.
  apply (go_VerifyDetached_accepts_spec toy_crypto toy_crypto_ok x_p [x_pk] (Single (mkV 2 7)) VNil VNil).
  - right. reflexivity.
  - cbn [ss_minor x_p]. lia.
  - vm_compute. reflexivity.
  - exact x_extras_hdr.
  - vm_compute. reflexivity.
  - right. reflexivity.
  - left. reflexivity.
Qed.
Example ex_cross_instance :
  fst (run_func2 (ext_vdet2 toy_crypto AnyKnownMajor []) f_saltpack_VerifyDetached
         [VNil; VBytes []; VBytes (S_encode_attached toy_crypto x_p); VNil])
  = ORet [VNil; VErr "ErrWrongMessageType" []].
Proof.
  apply (go_VerifyDetached_refuses_spec_attached toy_crypto toy_crypto_ok x_p [] AnyKnownMajor VNil VNil [] None).
  - right. reflexivity.
  - cbn [ss_minor x_p]. lia.
  - vm_compute. reflexivity.
  - exact x_extras_hdr.
  - vm_compute. reflexivity.
  - left. reflexivity.
Qed.

(* encryption (V1, two recipients, the second hidden; a named sender) and signcryption (one box recipient, one symmetric
   recipient; a named signer), with extras: the translated Open / SigncryptOpen accept, the other entry point refuses *)
Definition x_sk1 : bytes := repeat x11 32.
Definition x_sk2 : bytes := repeat x22 32.
Definition x_e : S_enc :=
  mkSEnc 1 3 (Some (repeat x33 32)) (repeat x44 32) (repeat x55 32)
         [(dh_pub toy_crypto x_sk1, false); (dh_pub toy_crypto x_sk2, true)] [[x68; x69]; [x21]] [MInt 1] [MNil] [MBool true].
Definition x_s : S_sc :=
  mkSSc 5 (Some (repeat x07 64)) (repeat x44 32) (repeat x55 32)
        [S_BoxR (dh_pub toy_crypto x_sk1); S_SymR (repeat x5a 32) [x69; x64]] [[x68; x69]; [x21]] [MInt 1] [MNil] [MBool true].
Definition x_kr (sk : bytes) : keyring := mkRing [(sk, dh_pub toy_crypto sk)] None.
Example ex_enc_computes :
  (match fst (run_func2 (ext_open toy_crypto (fun _ => VNil) AnyKnownMajor (x_kr x_sk2)) f_saltpack_Open
                [VNil; VBytes (S_encode_encryption toy_crypto x_e); VNil]) with
   | ORet [mk; body; e] => (as_mki mk, body, e)
   | _ => (None, VNil, VNil)
   end
   = (Some (mkMki (dh_pub toy_crypto (repeat x33 32)) false (dh_pub toy_crypto x_sk2) true [dh_pub toy_crypto x_sk1] 1),
      VBytes [x68; x69; x21], VNil)) /\
  fst (run_func2 (ext_scopen toy_crypto (x_kr x_sk2) [] None) f_saltpack_SigncryptOpen
         [VBytes (S_encode_encryption toy_crypto x_e); VNil; VNil])
  = ORet [VNil; VNil; VErr "ErrWrongMessageType" []] /\
  fst (run_func2 (ext_scopen toy_crypto (x_kr x_sk1) [x_pk] None) f_saltpack_SigncryptOpen
         [VBytes (S_encode_signcryption toy_crypto x_s); VNil; VNil])
  = ORet [VBytes x_pk; VBytes [x68; x69; x21]; VNil] /\
  fst (run_func2 (ext_scopen toy_crypto (mkRing [] None) [x_pk] (Some [([x69; x64], repeat x5a 32)])) f_saltpack_SigncryptOpen
         [VBytes (S_encode_signcryption toy_crypto x_s); VNil; VNil])
  = ORet [VBytes x_pk; VBytes [x68; x69; x21]; VNil] /\
  fst (run_func2 (ext_open toy_crypto (fun _ => VNil) AnyKnownMajor (x_kr x_sk1)) f_saltpack_Open
         [VNil; VBytes (S_encode_signcryption toy_crypto x_s); VNil])
  = ORet [VNil; VNil; VErr "ErrWrongMessageType" []].
Proof. vm_compute. repeat split. Qed.
(* the hypotheses of the encryption / signcryption acceptance theorems are satisfiable: instances on x_e, x_s *)
Lemma x_ex1 (m : mval) : wf m -> extras_ok [m].
Proof. intros H. split; [apply Forall_cons; [exact H|apply Forall_nil]|vm_compute; reflexivity]. Qed.
Lemma x_chunks_ok (major : Z) : S_chunks_ok major [[x68; x69]; [x21]].
Proof.
  assert (F : Forall (fun ch : bytes => (1 <= List.length ch <= S_max_chunk)%nat) [[x68; x69]; [x21]]).
  { repeat (apply Forall_cons; [cbn [List.length]; pose proof S_max_chunk_N; lia|]). apply Forall_nil. }
  unfold S_chunks_ok. destruct (major =? 1)%Z; [exact F|right; split; [discriminate|exact F]].
Qed.
Lemma x_e_ok : enc_params_ok toy_crypto x_e.
Proof.
  unfold enc_params_ok, x_e. cbn [se_major se_minor se_pkey se_rcpts se_extra_hdr se_extra_rcpt se_extra_pkt se_chunks se_sender se_eph].
  split; [left; reflexivity|]. split; [lia|]. split; [reflexivity|].
  split; [cbn [map fst]; apply NoDup_cons; [intros [H|[]]; vm_compute in H; discriminate H|apply NoDup_cons; [intros []|apply NoDup_nil]]|].
  split; [discriminate|].
  split; [apply Forall_cons; [vm_compute; reflexivity|apply Forall_cons; [vm_compute; reflexivity|apply Forall_nil]]|].
  split; [apply x_ex1; cbn [wf]; lia|]. split; [apply x_ex1; exact I|]. split; [apply x_ex1; exact I|].
  split; [vm_compute; reflexivity|]. split; [apply x_chunks_ok|]. split; [vm_compute; reflexivity|].
  intros s Hs. injection Hs as <-. vm_compute. discriminate.
Qed.
Example ex_enc_instance :
  (exists m,
     fst (run_func2 (ext_open toy_crypto (fun _ => VNil) AnyKnownMajor (x_kr x_sk2)) f_saltpack_Open
            [VNil; VBytes (S_encode_encryption toy_crypto x_e); VNil])
     = ORet [g_mki m (x_sk2, dh_pub toy_crypto x_sk2); VBytes (List.concat (se_chunks x_e)); VNil] /\
     mki_receiver_anon m = true)
  \/ S_foreign_box_opens toy_crypto x_e x_sk2.
Proof.
  destruct (go_Open_accepts_spec toy_crypto toy_crypto_ok (fun _ => VNil) x_e x_sk2 true 1 AnyKnownMajor VNil VNil
              (VBytes (S_encode_encryption toy_crypto x_e)) x_e_ok (or_introl eq_refl) eq_refl eq_refl)
    as [(m & chunks & st & rest & Hgo & _ & _ & _ & _ & _ & _ & _ & Hra)|Hf]; [left|right; exact Hf].
  exists m. split; [exact Hgo|exact Hra].
Qed.
Lemma x_s_ok : sc_params_ok toy_crypto x_s.
Proof.
  unfold sc_params_ok, x_s. cbn [sc_minor sc_pkey sc_rcpts sc_extra_hdr sc_extra_rcpt sc_extra_pkt sc_chunks sc_signer].
  split; [lia|]. split; [reflexivity|]. split; [discriminate|].
  split; [apply x_ex1; cbn [wf]; lia|]. split; [apply x_ex1; exact I|]. split; [apply x_ex1; exact I|].
  split; [vm_compute; reflexivity|]. split; [apply x_chunks_ok|]. split; [vm_compute; reflexivity|].
  intros s Hs. injection Hs as <-. vm_compute. reflexivity.
Qed.
Example ex_sc_instance :
  fst (run_func2 (ext_scopen toy_crypto (x_kr x_sk1) [x_pk] None) f_saltpack_SigncryptOpen
         [VBytes (S_encode_signcryption toy_crypto x_s); VNil; VNil])
  = ORet [VBytes x_pk; VBytes (List.concat (sc_chunks x_s)); VNil]
  \/ S_identifier_collision toy_crypto x_s x_sk1 0.
Proof.
  destruct (go_SigncryptOpen_accepts_spec_box toy_crypto toy_crypto_ok x_s x_sk1 0 [x_pk] None VNil VNil
              (VBytes (S_encode_signcryption toy_crypto x_s)) x_s_ok eq_refl
              ltac:(intros s Hs; injection Hs as <-; left; reflexivity) eq_refl)
    as [(Hgo & _)|Hf]; [left; exact Hgo|right; exact Hf].
Qed.
(* signature-mode messages given to Open / SigncryptOpen: their headers have no recipient list and do not decode under
   view_enc_header; on this example both calls return a decode error (computed; not a general theorem of this file) *)
Example ex_sig_into_enc_computes :
  fst (run_func2 (ext_open toy_crypto (fun _ => VNil) AnyKnownMajor (x_kr x_sk1)) f_saltpack_Open
         [VNil; VBytes (S_encode_attached toy_crypto x_p); VNil])
  = ORet [VNil; VNil; VErr "decode" []] /\
  fst (run_func2 (ext_scopen toy_crypto (x_kr x_sk1) [] None) f_saltpack_SigncryptOpen
         [VBytes (S_encode_detached toy_crypto x_p); VNil; VNil])
  = ORet [VNil; VNil; VErr "decode" []].
Proof. vm_compute. split; reflexivity. Qed.
End Examples.

(* ================= Print Assumptions: every TARGET is closed under the global context ================= *)
Print Assumptions go_Verify_accepts_spec.
Print Assumptions go_NewVerifyStream_accepts_spec.
Print Assumptions go_VerifyDetached_accepts_spec.
Print Assumptions go_Open_accepts_spec.
Print Assumptions go_SigncryptOpen_accepts_spec_box.
Print Assumptions go_SigncryptOpen_accepts_spec_sym.
Print Assumptions go_NewDecryptStream_drain_of_model.
Print Assumptions go_NewSigncryptOpenStream_drain_of_model.
Print Assumptions go_NewDecryptStream_drain_accepts_spec.
Print Assumptions go_NewSigncryptOpenStream_drain_accepts_spec_box.
Print Assumptions go_NewSigncryptOpenStream_drain_accepts_spec_sym.
Print Assumptions go_Verify_gated.
Print Assumptions go_Verify_gated_nil_error.
Print Assumptions go_NewVerifyStream_gated_nil_error.
Print Assumptions go_VerifyDetached_gated.
Print Assumptions go_VerifyDetachedReader_gated.
Print Assumptions go_VerifyDetached_gated_nil_error.
Print Assumptions go_VerifyDetachedReader_gated_nil_error.
Print Assumptions go_Open_gated.
Print Assumptions go_Open_gated_nil_error.
Print Assumptions go_NewDecryptStream_gated_nil_error.
Print Assumptions go_SigncryptOpen_gated.
Print Assumptions go_SigncryptOpen_gated_nil_error.
Print Assumptions go_NewSigncryptOpenStream_gated_nil_error.
Print Assumptions go_Verify_gate_refusals.
Print Assumptions go_VerifyDetached_gate_refusals.
Print Assumptions go_Open_gate_refusals.
Print Assumptions go_SigncryptOpen_gate_refusals.
Print Assumptions go_VerifyDetached_refuses_attached.
Print Assumptions go_Verify_refuses_detached.
Print Assumptions go_Verify_refuses_other_version.
Print Assumptions go_VerifyDetached_refuses_spec_attached.
Print Assumptions go_Verify_refuses_spec_detached.
Print Assumptions go_Verify_refuses_spec_other_version.
Print Assumptions go_SigncryptOpen_refuses_spec_encryption.
Print Assumptions go_Open_refuses_spec_signcryption.
Print Assumptions go_signature_receivers_refuse_spec_encryption.
Print Assumptions go_signature_receivers_refuse_spec_signcryption.

(* UNFINISHED STATEMENTS: none.  Everything listed under TARGETS is proved; what is not composed is under WHAT IS NOT COVERED. *)
