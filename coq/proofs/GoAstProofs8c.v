(* GoAstProofs8c.v -- chunkReader.Read (/repo/chunk_reader.go, translated term gen/GoAstStreams.f_saltpack_chunkReader_Read) COMPOSED
   WITH THE TRANSLATED getNextChunk of the three receivers (decryptStream, verifyStream, signcryptOpenStream), on the reader
   objects the translated constructors return, and with the end-to-end theorems (GoEndToEndAuth/Enc/Sign/Gate).  Closes the gap
   stated in GoEndToEndAuth.v ("WHAT IS NOT COMPOSED (1)") and GoAstProofs7c.v (LIMITS (4)): their TARGETs speak about the
   sequence of getNextChunk results; the TARGETs here speak about what Read returns to a caller, for ANY caller buffers.

   EXTERNS.  [ext_crx gnc]: `copy(dst, src)` returns min(len dst, len src) (as GoAstProofs4c.ext_cr); `chunker.getNextChunk(o)`
   is [gnc o] = [chunk; error; chunker object left], the third value being written back into r.chunker by GoLang2.call_assign.
   [gnc_of ext fn recv o] RUNS THE TRANSLATED METHOD: run_func2 ext fn [o]; when that returns two values the extern returns them
   and the object found in the receiver variable recv of the final environment; it has NO value (the evaluator is stuck at the
   call, OStuck "call") when the callee is stuck or panics.  gnc_dec / gnc_ver / gnc_sc are gnc_of for
   f_saltpack_decryptStream_getNextChunk / f_saltpack_verifyStream_getNextChunk / f_saltpack_signcryptOpenStream_getNextChunk
   under the externs of GoAstProofs4b.ext_chunk / GoEndToEndAuth.ext_chunk_key (processBlock, readEncryptionBlock ... with the
   model's meaning; each has its own tie in 4b / 7c).
   ENCODINGS.  The reader object is [g_crx o pv ev] = {chunker: o; prevChunk: pv; prevErr: ev}; newChunkReader(o) =
   GoAstProofs7c.g_cr_new o = g_crx o nil nil.  It REPRESENTS a state st of the model's reader (Streams.cr_state) when
   [cr_rep gnc st o pv ev]: pv is the bytes cr_prev st (nil may stand for the empty slice: [pv_rep]); ev is nil or the Go value
   (GoAstProofs4b.g_err) of cr_err st ([err_rep]); and, while no error is pending, the chunker object o will deliver exactly
   cr_pending st ([pend_rep]: calling gnc on o yields the head of the list -- chunk bytes up to nil/empty, nil error or the Go
   value of the error -- and leaves an object that delivers the tail; for an error with no Go value -- the model says Unmodelled
   or a panic of the chunker -- gnc has no value).
   THE BRIDGE.  [step_pending step F n input] is the model's pending list for a receiver whose model step is `step` (4b: dec_step,
   verify_step, sc_step), at packet number n with `input` still to read: (chunk, nil) per non-final packet; (chunk, the error of
   assertEndOfStream) for the final one; (nil, e) for a failing step.  pend_rep_step / cr_rep_new: the object the constructor
   returns (g_ds_done / g_vs_key / g_sos_done with the msgpack stream at (input, n)) delivers that list; step_pending_denote: its
   denotation (Streams.chunks_denote) is (concat of the chunks of GoEndToEndAuth.step_loop, its ending error) = the model's
   decrypt_loop / verify_loop / sc_open_loop; step_pending_wf: it is well-formed (StreamProofs.chunks_wf).
   go_drain_pending (TARGET): the results GoEndToEndAuth.go_drain observes on that object are map fst of that list and the Go value
   of its ending error (hypotheses: n + F <= 2^64, len input < F, the ending error has a Go value).
   WHAT IS OBSERVED (the caveat of GoAstProofs4c.v): the bytes copy(p[n:], r.prevChunk) writes into the caller's buffer are not
   observable in the evaluator (the destination is a slice EXPRESSION, not a place of GoLang2.expr_lval).  Observed are: the
   COUNT returned (= the length of the model's output of that Read), the ERROR returned, "p" unchanged, and the READER OBJECT
   left (prevChunk has lost exactly the copied prefix, prevErr, the chunker object advanced by the calls made).  A Read loop
   ([go_reads]: Read called with the caller's buffers in turn, each call run on the reader object the previous one left, until a
   non-nil error) observes the TOTAL of the counts and the ending error; [reads_spec res pt e]: a loop that ended with an error
   value returned exactly len pt and the Go value of e; one that ran out of buffers returned the length of a prefix of pt; a
   stuck loop (None) means e has no Go value.

   TARGETS (all Qed, all closed under the global context).
   - go_chunkReader_Read_gnc (and _gnc_300 at the fuel of run_func2): for EVERY gnc, state st and reader object representing it,
       and every caller buffer p, one Read returns (len out, Go value of e) and leaves a reader object representing st' where
       ((out, e), st') = cr_read _ (len p) st [] ([read_spec]); it PANICS exactly when the model reports Read's own panic
       (GoAstProofs4c.cr_go_panics: "empty chunk and nil error"); it is STUCK at the call (OStuck "call") exactly when this Read
       fetches a result whose error has no Go value ([cr_unrep]).  Hypotheses: 10 <= F and length (cr_pending st) < F, S F the
       evaluator's fuel (each turn of the `for` pops one pending result): bounds on the EVALUATOR, as in 4c; cr_rep (what the
       encoding means).  _300: length (cr_pending st) < 299.
   - go_chunkReader_Read_new (generic in the receiver), go_chunkReader_Read_decryptStream / _verifyStream / _signcryptOpenStream:
       the first Read on g_cr_new obj, obj the receiver object in its post-header state, against the bridged state
       mkCr [] None (step_pending step (S (len input)) n input).  Hypotheses: 10 <= F, S (len input) < F (evaluator fuel);
       n + len input < 2^64 (Go's uint64 packet counter: the 4b ties need n < 2^64 at every call); decrypt/verify: major
       version 1 or 2 (established by processHeader: process_enc_header_ver12; for verifyStream a Single validator can admit
       another major version: then the first call is stuck, see go_NewVerifyStream_reads_of_model).  Later Reads: read_spec
       returns cr_rep of the state left, so go_chunkReader_Read_gnc applies again.
   - go_reads_drain (lemma), go_reads_new, go_reads_decryptStream / _verifyStream / _signcryptOpenStream: for every list of
       NON-EMPTY caller buffers, reads_spec (go_reads ...) (concat of the model loop's chunks) (its ending error), and with
       at least len plaintext + len input + 2 buffers the loop has ended ([reads_done]).  Uses StreamProofs.cr_drain_sound /
       cr_drain_complete through go_reads_drain (go_reads = the model's cr_drain: count = length of its bytes, same error).
       Hypotheses: as above + Forall (<> []) bufs (pos_sizes of cr_drain_sound; Go's Read with an empty buffer is covered by the
       single-Read TARGET).
   - go_NewDecryptStream_reads_of_model, go_NewSigncryptOpenStream_reads_of_model, go_NewVerifyStream_reads_of_model: for EVERY
       wire on which the model's open_stream / signcrypt_open_stream / verify_stream passes the header stage with result
       (x, out): the translated constructor returns [x; g_cr_new obj; nil] and every Read loop over g_cr_new obj satisfies
       reads_spec _ (concat (so_chunks out)) (so_end out) and reads_done with enough buffers.  verifyStream with a major version
       other than 1, 2: every loop with at least one buffer is stuck (None).  Hypotheses: rdr_bytes rd = Some wire (which bytes
       the error-free reader holds), len wire < 2^64, 10 <= F, S (len wire) < F, buffers non-empty.
   - ROUND TRIP: go_NewDecryptStream_read_accepts_spec, go_NewSigncryptOpenStream_read_accepts_spec_box / _sym,
       go_NewVerifyStream_read_accepts_spec: for every spec-following message (Spec.v) the reader the translated constructor
       returns, read with any non-empty buffers, delivers a prefix of the plaintext and, with enough buffers, returns exactly
       (len plaintext, io.EOF).  Hypotheses: those of GoEndToEndGate's *_drain_accepts_spec (crypto_ok c, *_params_ok, ...) +
       len wire < 2^64 + evaluator fuel.
   - AUTHENTICITY: go_NewDecryptStream_read_authentic (C02), go_NewVerifyStream_read_authentic (C06),
       go_NewSigncryptOpenStream_read_authentic / _read_anonymous_authentic (C04): if the translated constructor returns
       [x; rdr; nil] then rdr = g_cr_new obj and every Read loop result is [reads_auth_shape]: nothing delivered and no io.EOF;
       or the count is the length of a prefix d of the plaintext of ONE honest message (all of it if the loop ended with
       io.EOF); or the located break.  Hypotheses: those of GoEndToEndAuth's go_New*Stream_authentic + evaluator fuel + buffers
       non-empty.
   - ex_reads, ex_reads_model, ex_read_single: the statements on concrete inputs (toy primitives), success and error paths.
   NOT EXPRESSIBLE: nothing got stuck.  LIMITS: the bytes written through p[n:] (above); the limits of GoAstProofs7c.v
   (error-free reader over given bytes; newChunkReader(ds) and &ds.mki are value copies; opaque validator / keyring / resolver). *)
From Coq Require Import List String NArith ZArith Bool Lia.
From Coq.Strings Require Import Byte.
From SP Require Import Bytes Consts Params Msgpack Crypto Errors Nonce Packets Chunker Rand Sign Verify Encrypt Decrypt Signcrypt Spec Armor Streams StreamProofs
     MsgpackProofs SignProofs EncryptProofs GateProofs AcceptDefs AcceptSignProofs AcceptEncProofs AcceptScProofs AcceptScSymProofs SignAuthProofs
     EncAuthProofs EncAuthLocated ScAuthProofs ScAuthLocated ScAnonLocated SignAuthLocated
     GoLang GoLang2 GoAst GoAstProofs GoAstProofs2 GoAstProofs3 GoAstProofs4a GoAstProofs4b GoAstProofs4c GoAstProofs5a GoAstProofs7c.
From SP Require Import GoAstStreams GoAstOpen GoAstRecv GoEndToEndAuth.
From SP Require GoEndToEndEnc GoEndToEndSign GoEndToEndGate.
Import GoAstProofs4c.   (* its names (envC, cr_body, F9, the stepping tactics ...) in front of the homonyms of the later files *)
Import ListNotations.
Local Open Scope string_scope.

Notation g_err4b := GoAstProofs4b.g_err.

(* ================= the reader object and the extern table ================= *)
Definition g_crx (o pv ev : gval) : gval := VStruct [("chunker", o); ("prevChunk", pv); ("prevErr", ev)].

(* [gnc o]: what one call of the chunker's getNextChunk on the chunker object o returns: [chunk; error; object left] *)
Definition ext_crx (gnc : gval -> option (list gval)) : externs := fun fn args =>
  if String.eqb fn "copy" then
    match args with
    | [VBytes dst; VBytes src] => Some [VInt (Z.of_nat (Nat.min (List.length dst) (List.length src)))]
    | _ => None
    end
  else if String.eqb fn "chunker.getNextChunk" then
    match args with
    | [o] => gnc o
    | _ => None
    end
  else None.

(* a byte slice as a Go value: nil may stand for the empty one *)
Definition pv_rep (pv : gval) (b : bytes) : Prop := pv = VBytes b \/ (pv = VNil /\ b = []).
Definition err_rep (evv : gval) (e : option err) : Prop :=
  match e with None => evv = VNil | Some e' => g_err4b e' = Some evv end.
Definition unrep (e : option err) : bool :=
  match e with Some e' => match g_err4b e' with None => true | Some _ => false end | None => false end.

Lemma g_err4b_verr (e : err) (ev : gval) : g_err4b e = Some ev -> exists nm ar, ev = VErr nm ar.
Proof. destruct e; cbn [GoAstProofs4b.g_err]; intros H; try discriminate H; injection H as <-; eexists; eexists; reflexivity. Qed.

Section CRX.
Variable gnc : gval -> option (list gval).

Lemma crx_rest_err (f : nat) (p : bytes) (n : Z) (o pv : gval) (nm : string) (ar : list gval) (tl : env) :
  cr_tail tl -> (pv = VNil \/ pv = VBytes []) ->
  exec2 (ext_crx gnc) (F9 f) (envC (g_crx o pv (VErr nm ar)) p n tl) cr_rest
  = CRet [VInt n; VErr nm ar] (envC (g_crx o pv (VErr nm ar)) p n tl).
Proof.
  intros Htl Hpv. unfold F9, cr_rest, envC, g_crx.
  destruct Htl as [->|(x & ->)]; destruct Hpv as [->| ->]; cbn [app]; steps4c (ext_crx gnc); reflexivity.
Qed.

Lemma crx_rest_stuck (f : nat) (p : bytes) (n : Z) (o pv : gval) (tl : env) :
  cr_tail tl -> (pv = VNil \/ pv = VBytes []) -> gnc o = None ->
  exec2 (ext_crx gnc) (F9 f) (envC (g_crx o pv VNil) p n tl) cr_rest = CStuck "call".
Proof.
  intros Htl Hpv Hg. unfold F9, cr_rest, envC, g_crx.
  destruct Htl as [->|(x & ->)]; destruct Hpv as [->| ->]; cbn [app]; steps4c (ext_crx gnc); reflexivity.
Qed.

Definition empty_val (v : gval) : bool := match v with VNil => true | VBytes [] => true | _ => false end.
Definition nil_val (v : gval) : bool := match v with VNil => true | _ => false end.

Lemma crx_rest_next (f : nat) (p : bytes) (n : Z) (o pv chv ev' o' : gval) (tl : env) :
  cr_tail tl -> (pv = VNil \/ pv = VBytes []) -> gnc o = Some [chv; ev'; o'] ->
  (chv = VNil \/ exists l, chv = VBytes l) -> (ev' = VNil \/ exists nm ar, ev' = VErr nm ar) ->
  exec2 (ext_crx gnc) (F9 f) (envC (g_crx o pv VNil) p n tl) cr_rest
  = if empty_val chv && nil_val ev' then CPanic else CNorm (envC (g_crx o' chv ev') p n tl).
Proof.
  intros Htl Hpv Hg Hch Hev. unfold F9, cr_rest, envC, g_crx.
  destruct Hch as [->|(l & ->)]; [|destruct l as [|c0 l];
      [|assert (Hc : (Z.of_nat (List.length (c0 :: l)) =? 0)%Z = false) by (cbn [List.length]; lia)]];
    (destruct Hev as [->|(nm & ar & ->)]);
    (destruct Htl as [->|(x & ->)]); (destruct Hpv as [->| ->]); cbn [app empty_val nil_val andb];
    steps4c (ext_crx gnc); reflexivity.
Qed.

Lemma crx_first_nil (f : nat) (rest : list gstmt) (p : bytes) (n : Z) (o pv ev : gval) (tl : env) :
  cr_tail tl -> (pv = VNil \/ pv = VBytes []) ->
  exec2 (ext_crx gnc) (S (F9 f)) (envC (g_crx o pv ev) p n tl) (cr_first :: rest)
  = exec2 (ext_crx gnc) (F9 f) (envC (g_crx o pv ev) p n tl) rest.
Proof.
  intros Htl Hpv. unfold F9, cr_first, envC, g_crx.
  destruct Htl as [->|(x & ->)]; destruct Hpv as [->| ->]; cbn [app]; steps4c (ext_crx gnc); reflexivity.
Qed.

Lemma crx_first_copy (f : nat) (rst : list gstmt) (p : bytes) (k : nat) (b : byte) (prev' : bytes) (o ev : gval) (tl : env) :
  cr_tail tl -> (k <= List.length p)%nat ->
  let room := (List.length p - k)%nat in
  let c := Nat.min room (List.length (b :: prev')) in
  exec2 (ext_crx gnc) (S (F9 f)) (envC (g_crx o (VBytes (b :: prev')) ev) p (Z.of_nat k) tl) (cr_first :: rst)
  = match skipn room (b :: prev') with
    | [] => exec2 (ext_crx gnc) (F9 f) (envC (g_crx o (VBytes []) ev) p (Z.of_nat (k + c)) [("copied", VInt (Z.of_nat c))]) rst
    | rest => CRet [VInt (Z.of_nat (k + c)); VNil] (envC (g_crx o (VBytes rest) ev) p (Z.of_nat (k + c)) [("copied", VInt (Z.of_nat c))])
    end.
Proof.
  intros Htl Ho room c. unfold F9, cr_first, envC, g_crx.
  assert (H0 : (0 <? Z.of_nat (List.length (b :: prev')))%Z = true) by (cbn [List.length]; lia).
  assert (H2 : (Z.of_nat (List.length p) <? Z.of_nat k)%Z = false) by lia.
  destruct Htl as [->|(x & ->)]; cbn [app]; steps4c (ext_crx gnc);
    rewrite (slice_len p k Ho), slice_rest by (apply Nat.le_min_r);
    rewrite skipn_min, <- Nat2Z.inj_add; fold room; fold c;
    (destruct (skipn room (b :: prev')) as [|r0 rest] eqn:Erest;
     [|assert (H3 : (0 <? Z.of_nat (List.length (r0 :: rest)))%Z = true) by (cbn [List.length]; lia)];
     steps4c (ext_crx gnc); reflexivity).
Qed.
End CRX.

(* ================= the chunker object and the model's pending list ================= *)
Fixpoint pend_rep (gnc : gval -> option (list gval)) (o : gval) (pend : list (bytes * option err)) : Prop :=
  match pend with
  | [] => False
  | (ch, None) :: t => exists chv o', gnc o = Some [chv; VNil; o'] /\ pv_rep chv ch /\ pend_rep gnc o' t
  | (ch, Some e) :: _ =>
    match g_err4b e with
    | Some ev => exists chv o', gnc o = Some [chv; ev; o'] /\ pv_rep chv ch
    | None => gnc o = None
    end
  end.
Definition cr_rep (gnc : gval -> option (list gval)) (st : cr_state) (o pv evv : gval) : Prop :=
  pv_rep pv (cr_prev st) /\ err_rep evv (cr_err st) /\ (cr_err st = None -> pend_rep gnc o (cr_pending st)).

(* does this Read fetch a result whose error has no Go value (the model says Unmodelled or a panic of the chunker)? *)
Fixpoint cr_unrep (fuel : nat) (n : nat) (st : cr_state) (out : bytes) : bool :=
  match fuel with
  | O => false
  | S f =>
    let room := (n - List.length out)%nat in
    let copied := firstn room (cr_prev st) in
    let rest := skipn room (cr_prev st) in
    let out' := (out ++ copied)%list in
    match rest with
    | _ :: _ => false
    | [] =>
      match cr_err st with
      | Some e => false
      | None =>
        match cr_pending st with
        | [] => false
        | (ch, e) :: t =>
          if unrep e then true else
          match ch, e with
          | [], None => false
          | _, _ => cr_unrep f n (mkCr ch e t) out'
          end
        end
      end
    end
  end.
Lemma cr_unrep_S (f n : nat) (st : cr_state) (out : bytes) :
  cr_unrep (S f) n st out =
    let room := (n - List.length out)%nat in
    let copied := firstn room (cr_prev st) in
    let rest := skipn room (cr_prev st) in
    let out' := (out ++ copied)%list in
    match rest with
    | _ :: _ => false
    | [] =>
      match cr_err st with
      | Some e => false
      | None =>
        match cr_pending st with
        | [] => false
        | (ch, e) :: t =>
          if unrep e then true else
          match ch, e with
          | [], None => false
          | _, _ => cr_unrep f n (mkCr ch e t) out'
          end
        end
      end
    end.
Proof. reflexivity. Qed.

Definition crx_post (gnc : gval -> option (list gval)) (p : bytes) (res : ctl) (un : bool) (m : (bytes * option err) * cr_state) : Prop :=
  if un then res = CStuck "call" else
  if cr_go_panics m then res = CPanic else
  exists ev tl' o' pv' evv',
    err_rep ev (snd (fst m)) /\
    res = CRet [VInt (Z.of_nat (List.length (fst (fst m)))); ev]
               (envC (g_crx o' pv' evv') p (Z.of_nat (List.length (fst (fst m)))) tl') /\
    cr_tail tl' /\ cr_rep gnc (snd m) o' pv' evv'.

Section CRXLoop.
Variable gnc : gval -> option (list gval).
Variables (p : bytes) (f : nat).

Definition loop_at (k : nat) (e : env) : ctl := for_loop2 (ext_crx gnc) (S (F9 f)) (EBool true) cr_body [] k e.

Lemma pv_rep_nil (pv : gval) : pv_rep pv [] -> pv = VNil \/ pv = VBytes [].
Proof. intros [->|[-> _]]; [right|left]; reflexivity. Qed.
Lemma pv_rep_cons (pv : gval) (b : byte) (l : bytes) : pv_rep pv (b :: l) -> pv = VBytes (b :: l).
Proof. intros [->|[_ H]]; [reflexivity|discriminate H]. Qed.
Lemma pv_rep_shape (pv : gval) (l : bytes) : pv_rep pv l -> pv = VNil \/ exists l', pv = VBytes l'.
Proof. intros [->|[-> _]]; [right; eexists; reflexivity|left; reflexivity]. Qed.

Lemma crx_loop_rest (k : nat)
  (IH : forall (st : cr_state) (out : bytes) (tl : env) (o pv evv : gval), cr_tail tl ->
        (List.length out <= List.length p)%nat -> (List.length (cr_pending st) < k)%nat -> cr_rep gnc st o pv evv ->
        crx_post gnc p (loop_at k (envC (g_crx o pv evv) p (Z.of_nat (List.length out)) tl))
                 (cr_unrep k (List.length p) st out) (cr_read k (List.length p) st out)) :
  forall (er : option err) (pend : list (bytes * option err)) (out' : bytes) (tl1 : env) (o pv1 evv : gval),
  cr_tail tl1 -> (List.length out' <= List.length p)%nat -> (List.length pend <= k)%nat ->
  (pv1 = VNil \/ pv1 = VBytes []) -> err_rep evv er -> (er = None -> pend_rep gnc o pend) ->
  crx_post gnc p
    (match exec2 (ext_crx gnc) (F9 f) (envC (g_crx o pv1 evv) p (Z.of_nat (List.length out')) tl1) cr_rest with
     | CNorm e2 | CCont e2 => loop_at k e2
     | CBrk e2 => exec2 (ext_crx gnc) (S (F9 f)) e2 []
     | other => other
     end)
    (match er with
     | Some e => false
     | None =>
       match pend with
       | [] => false
       | (ch, e) :: t =>
         if unrep e then true else
         match ch, e with
         | [], None => false
         | _, _ => cr_unrep k (List.length p) (mkCr ch e t) out'
         end
       end
     end)
    (match er with
     | Some e => ((out', Some e), mkCr [] (Some e) pend)
     | None =>
       match pend with
       | [] => ((out', Some (Panic 11)), mkCr [] None [])
       | (ch, e) :: t =>
         match ch, e with
         | [], None => ((out', Some (Panic 12)), mkCr [] None t)
         | _, _ => cr_read k (List.length p) (mkCr ch e t) out'
         end
       end
     end).
Proof.
  intros er pend out' tl1 o pv1 evv Htl Hout Hk Hpv Her Hpend.
  destruct er as [e|].
  - cbn [err_rep] in Her. destruct (g_err4b_verr _ _ Her) as (nm & ar & ->).
    rewrite (crx_rest_err gnc f p _ o pv1 nm ar tl1 Htl Hpv).
    unfold crx_post. rewrite cr_go_panics_err. cbn [fst snd].
    exists (VErr nm ar), tl1, o, pv1, (VErr nm ar). split; [exact Her|]. split; [reflexivity|]. split; [exact Htl|].
    split; [|split; [exact Her|intros H; discriminate H]].
    cbn [cr_prev]. destruct Hpv as [->| ->]; [right; split; reflexivity|left; reflexivity].
  - cbn [err_rep] in Her. subst evv. specialize (Hpend eq_refl).
    destruct pend as [|[ch e] t]; [destruct Hpend|]. cbn [List.length] in Hk.
    cbn [pend_rep] in Hpend.
    destruct e as [e|].
    + cbn [unrep]. destruct (g_err4b e) as [ev|] eqn:Hge.
      * destruct Hpend as (chv & o' & Hg & Hchv).
        destruct (g_err4b_verr _ _ Hge) as (nm & ar & ->).
        rewrite (crx_rest_next gnc f p _ o pv1 chv (VErr nm ar) o' tl1 Htl Hpv Hg (pv_rep_shape _ _ Hchv)
                   (or_intror (ex_intro _ nm (ex_intro _ ar eq_refl)))).
        replace (empty_val chv && nil_val (VErr nm ar)) with false by (destruct (empty_val chv); reflexivity).
        assert (Hrep : cr_rep gnc (mkCr ch (Some e) t) o' chv (VErr nm ar)).
        { split; [exact Hchv|]. split; [exact Hge|]. cbn [cr_err]. intros H; discriminate H. }
        assert (HI := IH (mkCr ch (Some e) t) out' tl1 o' chv (VErr nm ar) Htl Hout ltac:(cbn [cr_pending]; lia) Hrep).
        destruct ch; exact HI.
      * rewrite (crx_rest_stuck gnc f p _ o pv1 tl1 Htl Hpv Hpend). reflexivity.
    + cbn [unrep]. destruct Hpend as (chv & o' & Hg & Hchv & Ht).
      rewrite (crx_rest_next gnc f p _ o pv1 chv VNil o' tl1 Htl Hpv Hg (pv_rep_shape _ _ Hchv) (or_introl eq_refl)).
      destruct ch as [|c0 ch'].
      * destruct (pv_rep_nil _ Hchv) as [->| ->]; reflexivity.
      * rewrite (pv_rep_cons _ _ _ Hchv). cbn [empty_val andb].
        rewrite <- (pv_rep_cons _ _ _ Hchv).
        exact (IH (mkCr (c0 :: ch') None t) out' tl1 o' chv VNil Htl Hout ltac:(cbn [cr_pending]; lia)
                  (conj Hchv (conj eq_refl (fun _ => Ht)))).
Qed.
End CRXLoop.
Section CRXLoop2.
Variable gnc : gval -> option (list gval).
Variables (p : bytes) (f : nat).

Lemma crx_loop (k : nat) :
  forall (st : cr_state) (out : bytes) (tl : env) (o pv evv : gval), cr_tail tl ->
  (List.length out <= List.length p)%nat -> (List.length (cr_pending st) < k)%nat -> cr_rep gnc st o pv evv ->
  crx_post gnc p (loop_at gnc f k (envC (g_crx o pv evv) p (Z.of_nat (List.length out)) tl))
           (cr_unrep k (List.length p) st out) (cr_read k (List.length p) st out).
Proof.
  induction k as [|k IH]; intros st out tl o pv evv Htl Hout Hk Hrep; [lia|].
  unfold loop_at. rewrite for_loop2_S, cr_read_S, cr_unrep_S. cbv zeta.
  change (eval (ext_crx gnc) 64 (envC (g_crx o pv evv) p (Z.of_nat (List.length out)) tl) (EBool true)) with (Some (VBool true)).
  cbv beta iota. change cr_body with (cr_first :: cr_rest) at 1.
  destruct st as [prev er pend]. destruct Hrep as (Hpv & Her & Hpend). cbn [cr_prev cr_err cr_pending] in *.
  fold (loop_at gnc f k).
  destruct prev as [|b prev'].
  - rewrite firstn_nil, skipn_nil, app_nil_r.
    rewrite (crx_first_nil gnc f cr_rest p _ o pv evv tl Htl (pv_rep_nil _ Hpv)).
    apply (crx_loop_rest gnc p f k IH er pend out tl o pv evv Htl Hout ltac:(lia) (pv_rep_nil _ Hpv) Her Hpend).
  - rewrite (pv_rep_cons _ _ _ Hpv).
    rewrite (crx_first_copy gnc f cr_rest p (List.length out) b prev' o evv tl Htl Hout). cbv zeta.
    set (room := (List.length p - List.length out)%nat).
    assert (Hlen : List.length (out ++ firstn room (b :: prev')) = (List.length out + Nat.min room (List.length (b :: prev')))%nat)
      by (rewrite app_length, firstn_length; reflexivity).
    rewrite <- Hlen.
    destruct (skipn room (b :: prev')) as [|r0 rest] eqn:Erest.
    + apply (crx_loop_rest gnc p f k IH er pend _ _ o (VBytes []) evv); [right; eexists; reflexivity| |lia|right; reflexivity|exact Her|exact Hpend].
      rewrite Hlen. unfold room. lia.
    + unfold crx_post. cbn [cr_go_panics fst snd].
      exists VNil, [("copied", VInt (Z.of_nat (Nat.min room (List.length (b :: prev')))))], o, (VBytes (r0 :: rest)), evv.
      split; [reflexivity|]. split; [reflexivity|]. split; [right; eexists; reflexivity|].
      split; [left; reflexivity|]. split; [exact Her|exact Hpend].
Qed.
End CRXLoop2.

Lemma cr_unrep_fuel (k1 : nat) : forall (k2 n : nat) (st : cr_state) (out : bytes),
  (List.length (cr_pending st) < k1)%nat -> (List.length (cr_pending st) < k2)%nat ->
  cr_unrep k1 n st out = cr_unrep k2 n st out.
Proof.
  induction k1 as [|k1 IH]; intros k2 n st out H1 H2; [lia|].
  destruct k2 as [|k2]; [lia|]. rewrite !cr_unrep_S. cbv zeta.
  destruct (skipn (n - List.length out) (cr_prev st)); [|reflexivity].
  destruct (cr_err st); [reflexivity|].
  destruct (cr_pending st) as [|[ch e] t] eqn:Ep; [reflexivity|]. cbn [List.length] in H1, H2.
  destruct (unrep e); [reflexivity|].
  destruct ch; [destruct e; [|reflexivity]|]; apply IH; cbn [cr_pending]; lia.
Qed.

(* what one Read call does, against the model's cr_read *)
Definition read_spec (gnc : gval -> option (list gval)) (st : cr_state) (p : bytes) (r : outcome * env) : Prop :=
  let k := S (S (List.length (cr_pending st))) in
  let m := cr_read k (List.length p) st [] in
  if cr_unrep k (List.length p) st [] then r = (OStuck "call", [])
  else if cr_go_panics m then r = (OPanic, [])
  else exists ev o' pv' evv',
     err_rep ev (snd (fst m)) /\ fst r = ORet [VInt (Z.of_nat (List.length (fst (fst m)))); ev] /\
     lookup "r" (snd r) = Some (g_crx o' pv' evv') /\ lookup "p" (snd r) = Some (VBytes p) /\
     cr_rep gnc (snd m) o' pv' evv'.

(* (TARGET) *)
Theorem go_chunkReader_Read_gnc (gnc : gval -> option (list gval)) (F : nat) (st : cr_state) (o pv evv : gval) (p : bytes) :
  (10 <= F)%nat -> (List.length (cr_pending st) < F)%nat -> cr_rep gnc st o pv evv ->
  read_spec gnc st p (run_func2_at (S F) (ext_crx gnc) f_saltpack_chunkReader_Read [g_crx o pv evv; VBytes p]).
Proof.
  intros HF Hk Hrep. unfold read_spec. cbv zeta.
  rewrite (cr_read_fuel _ F), (cr_unrep_fuel _ F) by lia.
  assert (HF' : exists f, F = S (F9 f)) by (exists (F - 10)%nat; unfold F9; lia).
  destruct HF' as [f ->].
  pose proof (crx_loop gnc p f (S (F9 f)) st [] [] o pv evv (or_introl eq_refl) ltac:(cbn; lia) Hk Hrep) as Hl.
  cbn [List.length] in Hl. change (Z.of_nat 0) with 0%Z in Hl. unfold loop_at in Hl.
  unfold run_func2_at. cbn [f_params f_results f_body f_saltpack_chunkReader_Read bind_params map app fst snd zero_of].
  change (zero_of "int") with (VInt 0). change (zero_of "error") with VNil.
  fold cr_body. rewrite exec2_for.
  change [("r", g_crx o pv evv); ("p", VBytes p); ("n", VInt 0); ("err", VNil)] with (envC (g_crx o pv evv) p 0 []).
  unfold crx_post in Hl.
  destruct (cr_unrep (S (F9 f)) (List.length p) st []); [rewrite Hl; reflexivity|].
  destruct (cr_go_panics (cr_read (S (F9 f)) (List.length p) st [])); [rewrite Hl; reflexivity|].
  destruct Hl as (ev & tl' & o' & pv' & evv' & He & Hres & Htl' & Hrep'). rewrite Hres.
  exists ev, o', pv', evv'. cbn [fst snd]. split; [exact He|]. split; [reflexivity|].
  split; [reflexivity|]. split; [reflexivity|exact Hrep'].
Qed.

(* ================= a caller's Read loop ================= *)
(* Read called with the buffers bufs in turn, each call run by the evaluator on the reader object the previous call left,
   until a call returns a non-nil error.  Result: the total of the counts returned and the ending error (nil: the buffers
   ran out); None: a call was stuck or panicked *)
Fixpoint go_reads (gnc : gval -> option (list gval)) (F : nat) (bufs : list bytes) (R : gval) (acc : Z) : option (Z * gval) :=
  match bufs with
  | [] => Some (acc, VNil)
  | p :: t =>
    let r := run_func2_at (S F) (ext_crx gnc) f_saltpack_chunkReader_Read [R; VBytes p] in
    match fst r, lookup "r" (snd r) with
    | ORet [VInt k; VNil], Some R' => go_reads gnc F t R' (acc + k)
    | ORet [VInt k; VErr nm ar], _ => Some ((acc + k)%Z, VErr nm ar)
    | _, _ => None
    end
  end.

Lemma cr_read_pending_le (k : nat) : forall (n : nat) (st : cr_state) (out : bytes),
  (List.length (cr_pending (snd (cr_read k n st out))) <= List.length (cr_pending st))%nat.
Proof.
  induction k as [|k IH]; intros n st out; [cbn [cr_read snd]; lia|].
  rewrite cr_read_S. cbv zeta.
  destruct (skipn (n - List.length out) (cr_prev st)); [|cbn [snd cr_pending]; lia].
  destruct (cr_err st); [cbn [snd cr_pending]; lia|].
  destruct (cr_pending st) as [|[ch e] t]; [cbn [snd cr_pending List.length]; lia|].
  cbn [List.length].
  destruct ch; [destruct e; [|cbn [snd cr_pending]; lia]|];
    (etransitivity; [apply IH|cbn [cr_pending]; lia]).
Qed.

Lemma unrep_panic (s : N) : unrep (Some (Panic s)) = true. Proof. reflexivity. Qed.

(* a Read is stuck only if the error the stream ends with has no Go value *)
Lemma cr_unrep_rem (k : nat) : forall (n : nat) (st : cr_state) (out : bytes),
  cr_unrep k n st out = true -> unrep (snd (cr_rem st)) = true.
Proof.
  induction k as [|k IH]; intros n st out H; [discriminate H|].
  rewrite cr_unrep_S in H. cbv zeta in H.
  destruct (skipn (n - List.length out) (cr_prev st)); [|discriminate H].
  destruct (cr_err st) eqn:He; [discriminate H|].
  destruct (cr_pending st) as [|[ch e] t] eqn:Hp; [discriminate H|].
  assert (Hrem : snd (cr_rem st) = snd (chunks_denote ((ch, e) :: t))).
  { unfold cr_rem. rewrite He, Hp. destruct (chunks_denote ((ch, e) :: t)). reflexivity. }
  rewrite Hrem.
  destruct (unrep e) eqn:Hu.
  - destruct e as [e|]; [|discriminate Hu]. exact Hu.
  - rewrite <- cr_rem_pop. destruct ch; [destruct e; [|discriminate H]|]; exact (IH _ _ _ H).
Qed.

Lemma cr_go_panics_inv (m : (bytes * option err) * cr_state) :
  cr_go_panics m = true -> exists s, snd (fst m) = Some (Panic s).
Proof.
  destruct m as [[o e] st]. cbn [cr_go_panics fst snd]. destruct e as [e|]; [|discriminate].
  destruct e; try discriminate. intros _. eexists; reflexivity.
Qed.

(* (TARGET) the Read loop is the model's cr_drain: for every reader object representing st and every list of non-empty
   buffers, the total count is the length of the bytes cr_drain delivers and the ending error is the Go value of its error;
   a stuck or panicking loop (None) only when the error the stream ends with has no Go value *)
Lemma go_reads_drain (gnc : gval -> option (list gval)) (F : nat) (HF : (10 <= F)%nat) (bufs : list bytes) :
  forall (st : cr_state) (o pv evv : gval) (accb : bytes),
  pos_sizes (map (@List.length byte) bufs) -> cr_inv st -> (List.length (cr_pending st) < F)%nat -> cr_rep gnc st o pv evv ->
  match go_reads gnc F bufs (g_crx o pv evv) (Z.of_nat (List.length accb)) with
  | Some (cnt, ev) =>
    err_rep ev (snd (cr_drain (map (@List.length byte) bufs) st accb)) /\
    cnt = Z.of_nat (List.length (fst (cr_drain (map (@List.length byte) bufs) st accb)))
  | None => unrep (snd (cr_rem st)) = true
  end.
Proof.
  induction bufs as [|p t IH]; intros st o pv evv accb Hpos Hinv Hk Hrep.
  - cbn [go_reads map cr_drain fst snd err_rep]. split; reflexivity.
  - cbn [map] in Hpos. inversion Hpos as [|? ? Hn Ht]; subst.
    pose proof (go_chunkReader_Read_gnc gnc F st o pv evv p HF Hk Hrep) as Hr.
    pose proof (cr_read_spec (List.length p) (S (S (List.length (cr_pending st)))) st [] Hinv ltac:(lia) ltac:(cbn [List.length]; lia)) as Hs.
    pose proof (cr_read_pending_le (S (S (List.length (cr_pending st)))) (List.length p) st []) as Hle.
    unfold read_spec in Hr. cbv zeta in Hr.
    cbn [go_reads map cr_drain]. cbv zeta.
    destruct (cr_unrep (S (S (List.length (cr_pending st)))) (List.length p) st []) eqn:Hu.
    { rewrite Hr. cbn [fst snd]. exact (cr_unrep_rem _ _ _ _ Hu). }
    destruct (cr_go_panics (cr_read (S (S (List.length (cr_pending st)))) (List.length p) st [])) eqn:Hg.
    { rewrite Hr. cbn [fst snd]. destruct (cr_go_panics_inv _ Hg) as (s & Hgs).
      destruct (cr_read (S (S (List.length (cr_pending st)))) (List.length p) st []) as [[d oe] st'].
      cbn [fst snd] in Hgs. subst oe. destruct Hs as [_ <-]. reflexivity. }
    destruct Hr as (ev & o' & pv' & evv' & He & Hf & Hl & _ & Hrep').
    destruct (cr_read (S (S (List.length (cr_pending st)))) (List.length p) st []) as [[d oe] st'].
    cbn [fst snd] in *. rewrite Hf, Hl.
    destruct oe as [e|].
    + cbn [err_rep] in He. destruct (g_err4b_verr _ _ He) as (nm & ar & ->).
      cbn [fst snd err_rep]. split; [exact He|]. rewrite app_length. lia.
    + cbn [err_rep] in He. subst ev. destruct Hs as (d' & Hd' & Hlen & Hinv' & H1 & H2). cbn [app] in Hd'. subst d'.
      replace (Z.of_nat (List.length accb) + Z.of_nat (List.length d))%Z with (Z.of_nat (List.length (accb ++ d)))
        by (rewrite app_length; lia).
      specialize (IH st' o' pv' evv' (accb ++ d)%list Ht Hinv' ltac:(lia) Hrep').
      destruct (go_reads gnc F t (g_crx o' pv' evv') (Z.of_nat (List.length (accb ++ d)))) as [[cnt ev]|].
      * exact IH.
      * rewrite H2. exact IH.
Qed.

(* ================= the chunker is the translated getNextChunk ================= *)
(* chunker.getNextChunk(o) RUNS the translated method fn (receiver variable recv) on the chunker object o under the externs
   ext: the two results, then the object the call left in the receiver (written back into r.chunker).  No value (the
   evaluator is stuck at the call) when the callee is stuck or panics. *)
Definition gnc_of (ext : externs) (fn : gfunc) (recv : string) : gval -> option (list gval) := fun o =>
  let r := run_func2 ext fn [o] in
  match fst r with
  | ORet [ch; ev] => Some [ch; ev; match lookup recv (snd r) with Some o' => o' | None => o end]
  | _ => None
  end.

Lemma vbytes_pv_rep (v : gval) (b : bytes) : vbytes_of v = Some b -> pv_rep v b.
Proof.
  destruct v; cbn [vbytes_of]; intros H; try discriminate H; injection H as <-; [left; reflexivity|right; split; reflexivity].
Qed.

Lemma g_cr_new_crx (o : gval) : g_cr_new o = g_crx o VNil VNil. Proof. reflexivity. Qed.

Section StepPending.
Variable step : N -> bytes -> result (bytes * bool * bytes).

(* the results the chunker will deliver, as the model's pending list: THE BRIDGE.  One entry per call of getNextChunk:
   (chunk, nil) for a non-final packet; (chunk, the error of assertEndOfStream) for the final one; (nil, e) for a failing step *)
Fixpoint step_pending (fuel : nat) (n : N) (input : bytes) : list (bytes * option err) :=
  match fuel with
  | O => []
  | S f =>
    match step n input with
    | Err e => [([], Some e)]
    | Ok (ch, true, rest) => [(ch, Some (assert_end_of_stream rest))]
    | Ok (ch, false, rest) => (ch, None) :: step_pending f (n + 1) rest
    end
  end.

Hypothesis step_shrinks : forall n input ch final rest,
  step n input = Ok (ch, final, rest) -> (List.length rest < List.length input)%nat.

Lemma step_pending_denote : forall F n input, (List.length input < F)%nat ->
  chunks_denote (step_pending F n input)
  = (List.concat (fst (step_loop step F n input)), Some (snd (step_loop step F n input))).
Proof.
  induction F as [|F IH]; intros n input H; [lia|]. cbn [step_pending step_loop].
  destruct (step n input) as [[[ch final] rest]|e] eqn:Es; [|reflexivity].
  destruct final.
  - cbn [chunks_denote fst snd List.concat]. rewrite app_nil_r. reflexivity.
  - pose proof (step_shrinks _ _ _ _ _ Es) as Hs.
    cbn [chunks_denote]. rewrite IH by lia. cbn [fst snd List.concat]. reflexivity.
Qed.

Lemma step_pending_length : forall F n input, (List.length (step_pending F n input) <= S (List.length input))%nat.
Proof.
  induction F as [|F IH]; intros n input; [cbn; lia|]. cbn [step_pending].
  destruct (step n input) as [[[ch final] rest]|e] eqn:Es; [|cbn; lia].
  destruct final; [cbn; lia|].
  pose proof (step_shrinks _ _ _ _ _ Es) as Hs. cbn [List.length]. specialize (IH (n + 1)%N rest). lia.
Qed.

Variables (ext : externs) (fn : gfunc) (recv : string).
Variables (enc : bytes -> gval) (obj : N -> bytes -> gval).
Hypothesis enc_bytes : forall b, vbytes_of (enc b) = Some b.
Hypothesis Hspec : forall n input, (n < 18446744073709551616)%N ->
  chunk_spec recv enc (fun rest => obj (n + 1)%N rest) (step n input) (run_func2 ext fn [obj n input]).

(* the chunker object obj n input delivers exactly the model's pending list *)
Lemma pend_rep_step : forall F n input, (List.length input < F)%nat ->
  (n + N.of_nat (List.length input) < 18446744073709551616)%N ->
  pend_rep (gnc_of ext fn recv) (obj n input) (step_pending F n input).
Proof.
  induction F as [|F IH]; intros n input HF Hn; [lia|].
  pose proof (Hspec n input ltac:(lia)) as Hs. unfold chunk_spec in Hs.
  cbn [step_pending].
  destruct (step n input) as [[[ch final] rest]|e] eqn:Es.
  - destruct final.
    + cbn [pend_rep]. destruct (g_err4b (assert_end_of_stream rest)) as [ev|].
      * eexists (enc ch), _. unfold gnc_of. cbv zeta. rewrite Hs. split; [reflexivity|].
        apply vbytes_pv_rep, enc_bytes.
      * unfold gnc_of. cbv zeta. rewrite Hs. reflexivity.
    + destruct Hs as [Hs1 Hs2]. pose proof (step_shrinks _ _ _ _ _ Es) as Hsh.
      cbn [pend_rep]. exists (enc ch), (obj (n + 1)%N rest). unfold gnc_of. cbv zeta. rewrite Hs1, Hs2.
      split; [reflexivity|]. split; [apply vbytes_pv_rep, enc_bytes|].
      apply IH; lia.
  - cbn [pend_rep]. destruct (g_err4b e) as [ev|].
    + eexists VNil, _. unfold gnc_of. cbv zeta. rewrite Hs. split; [reflexivity|]. right; split; reflexivity.
    + unfold gnc_of. cbv zeta. rewrite Hs. reflexivity.
Qed.

(* (TARGET) the bridge, seen from GoEndToEndAuth.go_drain: the (chunk, error) results a caller of the translated getNextChunk
   observes on obj n input ARE the model's pending list (chunk by chunk, the nil chunk returned with a failing step included),
   whenever the ending error has a Go value *)
Lemma go_drain_pending : forall F n input (ev : gval),
  (n + N.of_nat F <= 18446744073709551616)%N -> (List.length input < F)%nat ->
  g_err4b (snd (step_loop step F n input)) = Some ev ->
  go_drain ext fn recv F (obj n input) = (map fst (step_pending F n input), Some ev).
Proof.
  induction F as [|F IH]; intros n input ev Hn Hlen Hev; [lia|].
  pose proof (Hspec n input ltac:(lia)) as Hs. unfold chunk_spec in Hs.
  cbn [step_loop step_pending go_drain] in *. cbv zeta.
  destruct (step n input) as [[[ch final] rest]|e] eqn:Es.
  - destruct final.
    + cbn [fst snd] in Hev. rewrite Hev in Hs. destruct (g_err4b_verr _ _ Hev) as (nm & ar & ->).
      rewrite Hs, (enc_bytes ch). reflexivity.
    + destruct Hs as [Hs1 Hs2]. pose proof (step_shrinks _ _ _ _ _ Es) as Hsh.
      rewrite Hs1, Hs2, (enc_bytes ch). cbn [fst snd] in Hev |- *.
      rewrite (IH (n + 1)%N rest ev ltac:(lia) ltac:(lia) Hev). reflexivity.
  - cbn [fst snd] in Hev. rewrite Hev in Hs. destruct (g_err4b_verr _ _ Hev) as (nm & ar & ->).
    rewrite Hs. reflexivity.
Qed.

(* the reader the constructor returns, newChunkReader(obj), is in the state the model's reader starts in *)
Lemma cr_rep_new (n : N) (input : bytes) :
  (n + N.of_nat (List.length input) < 18446744073709551616)%N ->
  cr_rep (gnc_of ext fn recv) (mkCr [] None (step_pending (S (List.length input)) n input)) (obj n input) VNil VNil.
Proof.
  intros Hn. split; [right; split; reflexivity|]. split; [reflexivity|]. intros _.
  cbn [cr_pending]. apply pend_rep_step; [lia|exact Hn].
Qed.

(* (TARGET) the first Read on the reader the constructor returns *)
Theorem go_chunkReader_Read_new (F : nat) (n : N) (input p : bytes) :
  (10 <= F)%nat -> (S (List.length input) < F)%nat ->
  (n + N.of_nat (List.length input) < 18446744073709551616)%N ->
  read_spec (gnc_of ext fn recv) (mkCr [] None (step_pending (S (List.length input)) n input)) p
    (run_func2_at (S F) (ext_crx (gnc_of ext fn recv)) f_saltpack_chunkReader_Read [g_cr_new (obj n input); VBytes p]).
Proof.
  intros HF Hk Hn. rewrite g_cr_new_crx.
  apply go_chunkReader_Read_gnc; [exact HF| |exact (cr_rep_new n input Hn)].
  cbn [cr_pending]. pose proof (step_pending_length (S (List.length input)) n input). lia.
Qed.

Hypothesis step_nonempty : forall n input ch rest, step n input = Ok (ch, false, rest) -> ch <> [].

Lemma step_pending_wf : forall F n input, (List.length input < F)%nat -> chunks_wf (step_pending F n input).
Proof.
  induction F as [|F IH]; intros n input H; [lia|]. cbn [step_pending].
  destruct (step n input) as [[[ch final] rest]|e] eqn:Es.
  - destruct final.
    + split; [constructor; [right; discriminate|constructor]|].
      exists [], ch, (assert_end_of_stream rest). split; [reflexivity|constructor].
    + pose proof (step_shrinks _ _ _ _ _ Es) as Hs.
      destruct (IH (n + 1)%N rest ltac:(lia)) as (HF & init & ch' & e' & Heq & Hinit).
      split; [constructor; [left; exact (step_nonempty _ _ _ _ Es)|exact HF]|].
      exists ((ch, None) :: init), ch', e'. split; [rewrite Heq; reflexivity|constructor; [reflexivity|exact Hinit]].
  - split; [constructor; [right; discriminate|constructor]|].
    exists [], [], e. split; [reflexivity|constructor].
Qed.

(* (TARGET) a Read loop over the reader the constructor returns, whatever the caller's buffers *)
Theorem go_reads_new (F : nat) (n : N) (input : bytes) (bufs : list bytes) :
  (10 <= F)%nat -> (S (List.length input) < F)%nat ->
  (n + N.of_nat (List.length input) < 18446744073709551616)%N ->
  Forall (fun p => p <> []) bufs ->
  let sl := step_loop step (S (List.length input)) n input in
  match go_reads (gnc_of ext fn recv) F bufs (g_cr_new (obj n input)) 0 with
  | Some (cnt, ev) =>
    if nil_val ev
    then exists d, Bytes.is_prefix d (List.concat (fst sl)) = true /\ cnt = Z.of_nat (List.length d)
    else cnt = Z.of_nat (List.length (List.concat (fst sl))) /\ g_err4b (snd sl) = Some ev
  | None => g_err4b (snd sl) = None
  end /\
  ((List.length (List.concat (fst sl)) + List.length input + 2 <= List.length bufs)%nat ->
   forall cnt, go_reads (gnc_of ext fn recv) F bufs (g_cr_new (obj n input)) 0 <> Some (cnt, VNil)).
Proof.
  intros HF Hk Hn Hbufs sl.
  set (l := step_pending (S (List.length input)) n input).
  assert (Hwf : chunks_wf l) by (apply step_pending_wf; lia).
  assert (Hpos : pos_sizes (map (@List.length byte) bufs)).
  { unfold pos_sizes. rewrite Forall_map. revert Hbufs. apply Forall_impl. intros a Ha. destruct a; [congruence|cbn; lia]. }
  assert (Hinv : cr_inv (mkCr [] None l)) by (intros _; apply chunks_wf_pend; exact Hwf).
  assert (Hlen : (List.length l <= S (List.length input))%nat) by apply step_pending_length.
  assert (Hlt : (List.length (cr_pending (mkCr [] None l)) < F)%nat) by (cbn [cr_pending]; lia).
  pose proof (go_reads_drain (gnc_of ext fn recv) F HF bufs (mkCr [] None l) (obj n input) VNil VNil [] Hpos Hinv
                Hlt (cr_rep_new n input Hn)) as Hd.
  cbn [List.length] in Hd. change (Z.of_nat 0) with 0%Z in Hd. rewrite <- g_cr_new_crx in Hd.
  pose proof (cr_drain_sound l (map (@List.length byte) bufs) Hwf Hpos) as Hsound.
  pose proof (cr_drain_complete l (map (@List.length byte) bufs) Hwf Hpos) as Hcompl.
  rewrite cr_init_rem in Hd.
  assert (Hden : chunks_denote l = (List.concat (fst sl), Some (snd sl))) by (apply step_pending_denote; lia).
  rewrite Hden in Hsound, Hd, Hcompl. cbn [fst snd] in Hd, Hcompl.
  destruct (cr_drain (map (@List.length byte) bufs) (mkCr [] None l) []) as [d oe].
  cbn [fst snd] in Hd, Hcompl.
  split.
  - destruct (go_reads (gnc_of ext fn recv) F bufs (g_cr_new (obj n input)) 0) as [[cnt ev]|].
    + destruct Hd as [He ->]. destruct oe as [e|].
      * destruct Hsound as [-> Hee]. injection Hee as ->. cbn [err_rep] in He.
        destruct (g_err4b_verr _ _ He) as (nm & ar & ->). cbn [nil_val]. split; [reflexivity|exact He].
      * cbn [err_rep] in He. subst ev. cbn [nil_val]. exists d. split; [exact Hsound|reflexivity].
    + cbn [unrep] in Hd. destruct (g_err4b (snd sl)); [discriminate Hd|reflexivity].
  - intros Hl cnt Heq. rewrite Heq in Hd. destruct Hd as [He _].
    apply Hcompl; [rewrite map_length; unfold bytes in *; lia|].
    destruct oe as [e|]; [|reflexivity]. cbn [err_rep] in He.
    destruct (g_err4b_verr _ _ He) as (nm & ar & Hx). discriminate Hx.
Qed.
End StepPending.

(* what a Read loop returned (total count, ending error), against the plaintext pt the model releases and the error e it ends with *)
Definition reads_spec (res : option (Z * gval)) (pt : bytes) (e : err) : Prop :=
  match res with
  | Some (cnt, ev) =>
    if nil_val ev
    then exists d, Bytes.is_prefix d pt = true /\ cnt = Z.of_nat (List.length d)
    else cnt = Z.of_nat (List.length pt) /\ g_err4b e = Some ev
  | None => g_err4b e = None
  end.
(* enough non-empty buffers: the loop has ended (with an error value, or stuck) *)
Definition reads_done (res : option (Z * gval)) : Prop := forall cnt, res <> Some (cnt, VNil).

(* ================= the three receivers ================= *)
Section Receivers.
Variable c : crypto.

Lemma ccs_nonempty (v : version) (l : nat) (n : N) (u : unit) : check_chunk_state v l n false = Ok u -> l <> 0%nat.
Proof.
  unfold check_chunk_state. destruct (vmaj v =? 1)%Z.
  - destruct (Nat.eqb l 0) eqn:E; cbn [Bool.eqb]; [discriminate|]. intros _. apply Nat.eqb_neq. exact E.
  - destruct (vmaj v =? 2)%Z; [|discriminate].
    destruct (Nat.eqb l 0) eqn:E; [rewrite orb_true_r; cbn [andb negb]; discriminate|]. intros _. apply Nat.eqb_neq. exact E.
Qed.
Lemma len_nonempty (ch : bytes) : List.length ch <> 0%nat -> ch <> [].
Proof. destruct ch; [intros H; exfalso; apply H; reflexivity|discriminate]. Qed.

Lemma dec_step_nonempty (st : dec_state) n input ch rest : dec_step c st n input = Ok (ch, false, rest) -> ch <> [].
Proof.
  unfold dec_step. destruct (read_packet input) as [[m r]|e]; [|discriminate]. cbv zeta. intros H.
  destruct (negb _); [discriminate H|]. destruct (of_dres _) as [[[a b] f]|]; [|discriminate H].
  destruct (dec_block_step _ _ _ _ _ _); [|discriminate H]. destruct (check_chunk_state _ _ _ _) eqn:Ec; [|discriminate H].
  injection H as -> -> _. exact (len_nonempty _ (ccs_nonempty _ _ _ _ Ec)).
Qed.
Lemma verify_step_nonempty v pk hh n input ch rest : verify_step c v pk hh n input = Ok (ch, false, rest) -> ch <> [].
Proof.
  unfold verify_step. destruct (read_packet input) as [[m r]|e]; [|discriminate]. intros H.
  destruct (negb _); [discriminate H|]. destruct (of_dres _) as [[[a b] f]|]; [|discriminate H].
  destruct (attached_sig_input _ _ _ _ _ _); [|discriminate H]. destruct (negb _); [discriminate H|].
  destruct (check_chunk_state _ _ _ _) eqn:Ec; [|discriminate H].
  injection H as -> -> _. exact (len_nonempty _ (ccs_nonempty _ _ _ _ Ec)).
Qed.
Lemma sc_step_nonempty pkey signer hh n input ch rest : sc_step c pkey signer hh n input = Ok (ch, false, rest) -> ch <> [].
Proof.
  unfold sc_step. destruct (read_packet input) as [[m r]|e]; [|discriminate]. intros H.
  destruct (of_dres _) as [[a f]|]; [|discriminate H].
  destruct (sc_block_step _ _ _ _ _ _ _); [|discriminate H]. destruct (check_chunk_state _ _ _ _) eqn:Ec; [|discriminate H].
  injection H as -> -> _. exact (len_nonempty _ (ccs_nonempty _ _ _ _ Ec)).
Qed.

(* r.chunker.getNextChunk() for the three receivers: the translated method run on the chunker object *)
Definition gnc_dec : gval -> option (list gval) := gnc_of (ext_chunk c TBytes) f_saltpack_decryptStream_getNextChunk "ds".
Definition gnc_ver : gval -> option (list gval) := gnc_of (ext_chunk_key c TBytes) f_saltpack_verifyStream_getNextChunk "v".
Definition gnc_sc : gval -> option (list gval) := gnc_of (ext_chunk c TSigncryptionBlock) f_saltpack_signcryptOpenStream_getNextChunk "sos".

(* the decryptStream object (all the fields of the struct, as readHeader leaves them; g_ds_done is an instance) *)
Definition ds_obj (VV RING SK MK : gval) (st : dec_state) (mps : gval) : gval :=
  VStruct [("versionValidator", VV); ("ring", RING); ("mps", mps); ("version", g_version (ds_version st));
           ("payloadKey", VBytes (ds_payload_key st)); ("senderKey", SK); ("headerHash", VBytes (ds_hh st)); ("macKey", VBytes (ds_mac_key st));
           ("position", VInt (Z.of_N (ds_position st))); ("mki", MK)].

(* (TARGET) *)
Theorem go_chunkReader_Read_decryptStream (VV RING SK MK : gval) (st : dec_state) (F : nat) (n : N) (input p : bytes) :
  (vmaj (ds_version st) = 1 \/ vmaj (ds_version st) = 2)%Z ->
  (10 <= F)%nat -> (S (List.length input) < F)%nat ->
  (n + N.of_nat (List.length input) < 18446744073709551616)%N ->
  read_spec gnc_dec (mkCr [] None (step_pending (dec_step c st) (S (List.length input)) n input)) p
    (run_func2_at (S F) (ext_crx gnc_dec) f_saltpack_chunkReader_Read
                  [g_cr_new (ds_obj VV RING SK MK st (g_mps input n)); VBytes p]).
Proof.
  intros Hver HF Hk Hn.
  exact (go_chunkReader_Read_new (dec_step c st) (dec_step_shrinks c st)
           (ext_chunk c TBytes) f_saltpack_decryptStream_getNextChunk "ds" g_chunk_nil
           (fun n inp => ds_obj VV RING SK MK st (g_mps inp n)) vbytes_of_chunk_nil
           (fun n inp Hn => go_decrypt_getNextChunk_obj c VV RING SK MK st n inp Hver Hn) F n input p HF Hk Hn).
Qed.

(* (TARGET) *)
Theorem go_chunkReader_Read_verifyStream (h : header) (pk hh : bytes) (F : nat) (n : N) (input p : bytes) :
  (vmaj (h_version h) = 1 \/ vmaj (h_version h) = 2)%Z ->
  (10 <= F)%nat -> (S (List.length input) < F)%nat ->
  (n + N.of_nat (List.length input) < 18446744073709551616)%N ->
  read_spec gnc_ver (mkCr [] None (step_pending (verify_step c (h_version h) pk hh) (S (List.length input)) n input)) p
    (run_func2_at (S F) (ext_crx gnc_ver) f_saltpack_chunkReader_Read
                  [g_cr_new (g_vs_key h hh pk (g_mps input n)); VBytes p]).
Proof.
  intros Hver HF Hk Hn.
  exact (go_chunkReader_Read_new (verify_step c (h_version h) pk hh) (verify_step_shrinks c (h_version h) pk hh)
           (ext_chunk_key c TBytes) f_saltpack_verifyStream_getNextChunk "v" VBytes
           (fun n inp => g_vs_key h hh pk (g_mps inp n)) vbytes_of_VBytes
           (fun n inp Hn => go_verify_getNextChunk_obj c h pk hh n inp Hver Hn) F n input p HF Hk Hn).
Qed.

(* (TARGET) *)
Theorem go_chunkReader_Read_signcryptOpenStream (KR RV : gval) (pkey hh : bytes) (signer : option bytes) (F : nat) (n : N) (input p : bytes) :
  (10 <= F)%nat -> (S (List.length input) < F)%nat ->
  (n + N.of_nat (List.length input) < 18446744073709551616)%N ->
  read_spec gnc_sc (mkCr [] None (step_pending (sc_step c pkey signer hh) (S (List.length input)) n input)) p
    (run_func2_at (S F) (ext_crx gnc_sc) f_saltpack_chunkReader_Read
                  [g_cr_new (g_sos_done (g_mps input n) KR RV pkey hh signer); VBytes p]).
Proof.
  intros HF Hk Hn.
  exact (go_chunkReader_Read_new (sc_step c pkey signer hh) (sc_step_shrinks c pkey signer hh)
           (ext_chunk c TSigncryptionBlock) f_saltpack_signcryptOpenStream_getNextChunk "sos" VBytes
           (fun n inp => g_sos_done (g_mps inp n) KR RV pkey hh signer) vbytes_of_VBytes
           (fun n inp Hn => go_signcrypt_getNextChunk_obj c KR RV pkey hh signer n inp Hn) F n input p HF Hk Hn).
Qed.

(* ---------- the Read loops ---------- *)
(* (TARGET) *)
Theorem go_reads_decryptStream (VV RING SK MK : gval) (st : dec_state) (F : nat) (n : N) (input : bytes) (bufs : list bytes) :
  (vmaj (ds_version st) = 1 \/ vmaj (ds_version st) = 2)%Z ->
  (10 <= F)%nat -> (S (List.length input) < F)%nat ->
  (n + N.of_nat (List.length input) < 18446744073709551616)%N ->
  Forall (fun p => p <> []) bufs ->
  let sl := step_loop (dec_step c st) (S (List.length input)) n input in
  let res := go_reads gnc_dec F bufs (g_cr_new (ds_obj VV RING SK MK st (g_mps input n))) 0 in
  reads_spec res (List.concat (fst sl)) (snd sl) /\
  ((List.length (List.concat (fst sl)) + List.length input + 2 <= List.length bufs)%nat -> reads_done res).
Proof.
  intros Hver HF Hk Hn Hb.
  exact (go_reads_new (dec_step c st) (dec_step_shrinks c st)
           (ext_chunk c TBytes) f_saltpack_decryptStream_getNextChunk "ds" g_chunk_nil
           (fun n inp => ds_obj VV RING SK MK st (g_mps inp n)) vbytes_of_chunk_nil
           (fun n inp Hn => go_decrypt_getNextChunk_obj c VV RING SK MK st n inp Hver Hn) (dec_step_nonempty st) F n input bufs HF Hk Hn Hb).
Qed.

(* (TARGET) *)
Theorem go_reads_verifyStream (h : header) (pk hh : bytes) (F : nat) (n : N) (input : bytes) (bufs : list bytes) :
  (vmaj (h_version h) = 1 \/ vmaj (h_version h) = 2)%Z ->
  (10 <= F)%nat -> (S (List.length input) < F)%nat ->
  (n + N.of_nat (List.length input) < 18446744073709551616)%N ->
  Forall (fun p => p <> []) bufs ->
  let sl := step_loop (verify_step c (h_version h) pk hh) (S (List.length input)) n input in
  let res := go_reads gnc_ver F bufs (g_cr_new (g_vs_key h hh pk (g_mps input n))) 0 in
  reads_spec res (List.concat (fst sl)) (snd sl) /\
  ((List.length (List.concat (fst sl)) + List.length input + 2 <= List.length bufs)%nat -> reads_done res).
Proof.
  intros Hver HF Hk Hn Hb.
  exact (go_reads_new (verify_step c (h_version h) pk hh) (verify_step_shrinks c (h_version h) pk hh)
           (ext_chunk_key c TBytes) f_saltpack_verifyStream_getNextChunk "v" VBytes
           (fun n inp => g_vs_key h hh pk (g_mps inp n)) vbytes_of_VBytes
           (fun n inp Hn => go_verify_getNextChunk_obj c h pk hh n inp Hver Hn) (verify_step_nonempty (h_version h) pk hh) F n input bufs HF Hk Hn Hb).
Qed.

(* (TARGET) *)
Theorem go_reads_signcryptOpenStream (KR RV : gval) (pkey hh : bytes) (signer : option bytes) (F : nat) (n : N) (input : bytes) (bufs : list bytes) :
  (10 <= F)%nat -> (S (List.length input) < F)%nat ->
  (n + N.of_nat (List.length input) < 18446744073709551616)%N ->
  Forall (fun p => p <> []) bufs ->
  let sl := step_loop (sc_step c pkey signer hh) (S (List.length input)) n input in
  let res := go_reads gnc_sc F bufs (g_cr_new (g_sos_done (g_mps input n) KR RV pkey hh signer)) 0 in
  reads_spec res (List.concat (fst sl)) (snd sl) /\
  ((List.length (List.concat (fst sl)) + List.length input + 2 <= List.length bufs)%nat -> reads_done res).
Proof.
  intros HF Hk Hn Hb.
  exact (go_reads_new (sc_step c pkey signer hh) (sc_step_shrinks c pkey signer hh)
           (ext_chunk c TSigncryptionBlock) f_saltpack_signcryptOpenStream_getNextChunk "sos" VBytes
           (fun n inp => g_sos_done (g_mps inp n) KR RV pkey hh signer) vbytes_of_VBytes
           (fun n inp Hn => go_signcrypt_getNextChunk_obj c KR RV pkey hh signer n inp Hn) (sc_step_nonempty pkey signer hh) F n input bufs HF Hk Hn Hb).
Qed.
End Receivers.

(* ================= composed with the constructors: reading the plaintext stream the constructor returns ================= *)
Section ReadsOfModel.
Variable c : crypto.

(* (TARGET) for EVERY input on which the model's open_stream passes the header: the reader NewDecryptStream returns, read with
   any buffers, delivers the model's plaintext (a prefix while no error) and ends with the model's error *)
Theorem go_NewDecryptStream_reads_of_model (pm : bytes -> gval) (vd : validator) (kr : keyring) (VV RING rd : gval)
        (wire : bytes) (m : mki) (out : stream_out) :
  open_stream c vd kr wire = Ok (m, out) ->
  rdr_bytes rd = Some wire ->
  (N.of_nat (List.length wire) < 18446744073709551616)%N ->
  exists (k : bytes * bytes) (obj : gval),
    In k (kr_keys kr) /\ snd k = mki_receiver m /\
    fst (run_func2 (ext_nds c pm vd kr) f_saltpack_NewDecryptStream [VV; rd; RING]) = ORet [g_mki m k; g_cr_new obj; VNil] /\
    forall F bufs, (10 <= F)%nat -> (S (List.length wire) < F)%nat -> Forall (fun p : bytes => p <> []) bufs ->
      let res := go_reads (gnc_dec c) F bufs (g_cr_new obj) 0 in
      reads_spec res (List.concat (so_chunks out)) (so_end out) /\
      ((List.length (List.concat (so_chunks out)) + List.length wire + 2 <= List.length bufs)%nat -> reads_done res).
Proof.
  intros Ho Hrd Hlen.
  pose proof (open_stream_header c vd kr wire) as Hh. rewrite Ho in Hh.
  destruct (dec_read_header c vd kr wire) as [[[m' st] rest]|e] eqn:Hd; cbn [bind fst snd] in Hh; [|discriminate].
  assert (Hm : m' = m) by congruence. subst m'.
  assert (Hl : decrypt_loop c (S (List.length rest)) st 0 rest [] = out) by congruence.
  destruct (dec_header_key_some c vd kr wire m st rest Hd) as (_ & k & Hk & Hks).
  assert (Hver : (vmaj (ds_version st) = 1 \/ vmaj (ds_version st) = 2)%Z /\ (List.length rest <= List.length wire)%nat).
  { revert Hd. unfold dec_read_header.
    destruct (read_header_bytes wire) as [[hb rest0]|e] eqn:Erh; cbn [bind fst snd]; [|discriminate].
    destruct (decode_header view_enc_header hb) as [h|e]; cbn [bind]; [|discriminate].
    destruct (process_enc_header c vd kr (sha512 c hb) h) as [[m' st']|e] eqn:Hp; cbn [bind]; [|discriminate].
    intros H. injection H as _ <- <-. split; [exact (GoEndToEndAuth.process_enc_header_ver12 c vd kr _ h m' st' Hp)|].
    exact (SignAuthProofs.read_header_bytes_suffix _ _ _ Erh). }
  destruct Hver as [Hver Hrest].
  exists k, (g_ds_done VV RING (g_mps_raw rest 1) VNil m st k).
  split; [exact (GoEndToEndEnc.dec_header_key_in c kr wire k Hk)|]. split; [exact Hks|]. split.
  - rewrite (go_NewDecryptStream c pm vd kr VV rd RING wire Hrd). unfold nds_outcome. rewrite Hd, Hk. reflexivity.
  - intros F bufs HF HFw Hb res.
    rewrite GoEndToEndAuth.decrypt_loop_step_loop in Hl. cbn [rev app] in Hl. subst out. cbn [so_chunks so_end].
    destruct (go_reads_decryptStream c VV RING VNil (g_mki m k) st F 0%N rest bufs Hver HF ltac:(lia) ltac:(lia) Hb) as [H1 H2].
    split; [exact H1|]. intros Hn. apply H2. lia.
Qed.

(* (TARGET) the same for NewSigncryptOpenStream *)
Theorem go_NewSigncryptOpenStream_reads_of_model (kr : keyring) (signers : sigring) (rv : resolver) (KR RV rd : gval)
        (wire : bytes) (sg : option bytes) (out : stream_out) :
  signcrypt_open_stream c kr signers rv wire = Ok (sg, out) ->
  rdr_bytes rd = Some wire ->
  (N.of_nat (List.length wire) < 18446744073709551616)%N ->
  exists obj : gval,
    fst (run_func2 (ext_nsos c kr signers rv) f_saltpack_NewSigncryptOpenStream [rd; KR; RV])
    = ORet [g_signer sg; g_cr_new obj; VNil] /\
    forall F bufs, (10 <= F)%nat -> (S (List.length wire) < F)%nat -> Forall (fun p : bytes => p <> []) bufs ->
      let res := go_reads (gnc_sc c) F bufs (g_cr_new obj) 0 in
      reads_spec res (List.concat (so_chunks out)) (so_end out) /\
      ((List.length (List.concat (so_chunks out)) + List.length wire + 2 <= List.length bufs)%nat -> reads_done res).
Proof.
  intros Ho Hrd Hlen.
  pose proof (signcrypt_open_stream_header c kr signers rv wire) as Hh. rewrite Ho in Hh.
  destruct (sc_read_header c kr signers rv wire) as [[[[pkey sg'] hh] rest]|e] eqn:Hd; cbn [bind] in Hh; [|discriminate].
  assert (E1 : sg' = sg) by congruence. subst sg'.
  assert (Hl : sc_open_loop c (S (List.length rest)) pkey sg hh 0 rest [] = out) by congruence.
  assert (Hrest : (List.length rest <= List.length wire)%nat).
  { revert Hd. unfold sc_read_header.
    destruct (read_header_bytes wire) as [[hb rest0]|e] eqn:Erh; cbn [bind fst snd]; [|discriminate].
    destruct (decode_header view_enc_header hb) as [h'|e]; cbn [bind]; [|discriminate].
    destruct (process_sc_header c kr signers rv h'); cbn [bind]; [|discriminate].
    intros H. injection H as _ _ _ <-. exact (SignAuthProofs.read_header_bytes_suffix _ _ _ Erh). }
  exists (g_sos_done (g_mps_raw rest 1) KR RV pkey hh sg). split.
  - rewrite (go_NewSigncryptOpenStream c kr signers rv rd KR RV wire Hrd). unfold nsos_outcome. rewrite Hd. reflexivity.
  - intros F bufs HF HFw Hb res.
    rewrite GoEndToEndAuth.sc_open_loop_step_loop in Hl. cbn [rev app] in Hl. subst out. cbn [so_chunks so_end].
    destruct (go_reads_signcryptOpenStream c KR RV pkey hh sg F 0%N rest bufs HF ltac:(lia) ltac:(lia) Hb) as [H1 H2].
    split; [exact H1|]. intros Hn. apply H2. lia.
Qed.

(* a chunker whose first call is stuck: the first Read is stuck *)
Lemma go_reads_stuck_first (gnc : gval -> option (list gval)) (o : gval) (F : nat) (p : bytes) (t : list bytes) :
  (10 <= F)%nat -> gnc o = None -> go_reads gnc F (p :: t) (g_cr_new o) 0 = None.
Proof.
  intros HF Hg.
  assert (Hrep : cr_rep gnc (mkCr [] None [([], Some (Panic 5))]) o VNil VNil).
  { split; [right; split; reflexivity|]. split; [reflexivity|]. intros _. exact Hg. }
  assert (Hlt : (List.length (cr_pending (mkCr [] None [([], Some (Panic 5))])) < F)%nat) by (cbn; lia).
  pose proof (go_chunkReader_Read_gnc gnc F _ o VNil VNil p HF Hlt Hrep) as Hr.
  unfold read_spec in Hr. cbv zeta in Hr. cbn [cr_pending List.length] in Hr.
  rewrite cr_unrep_S in Hr. cbn [cr_prev cr_err cr_pending] in Hr. cbv zeta in Hr. rewrite skipn_nil in Hr.
  cbn [unrep GoAstProofs4b.g_err] in Hr.
  rewrite g_cr_new_crx. cbn [go_reads]. cbv zeta. rewrite Hr. reflexivity.
Qed.

(* (TARGET) the same for NewVerifyStream.  For a major version other than 1, 2 (a Single validator can accept one) the first
   call of getNextChunk is stuck (readSignatureBlock panics) and so is the first Read. *)
Theorem go_NewVerifyStream_reads_of_model (vd : validator) (kr : sigring) (VV KR rd : gval)
        (wire : bytes) (pk : bytes) (out : stream_out) :
  verify_stream c vd kr wire = Ok (pk, out) ->
  rdr_bytes rd = Some wire ->
  (N.of_nat (List.length wire) < 18446744073709551616)%N ->
  exists (h : header) (hh rest : bytes) (obj : gval),
    verify_read_header c vd mt_attached wire = Ok (h, hh, rest) /\
    fst (run_func2 (ext_NVS c vd kr) f_saltpack_NewVerifyStream [VV; rd; KR]) = ORet [g_spk pk; g_cr_new obj; VNil] /\
    forall F bufs, (10 <= F)%nat -> (S (List.length wire) < F)%nat -> Forall (fun p : bytes => p <> []) bufs ->
      let res := go_reads (gnc_ver c) F bufs (g_cr_new obj) 0 in
      if ver12 (h_version h)
      then reads_spec res (List.concat (so_chunks out)) (so_end out) /\
           ((List.length (List.concat (so_chunks out)) + List.length wire + 2 <= List.length bufs)%nat -> reads_done res)
      else bufs <> [] -> res = None.
Proof.
  intros Ho Hrd Hlen.
  assert (Hvs : verify_stream c vd kr wire =
                bind (verify_read_header c vd mt_attached wire) (fun x =>
                  let '(h, hh, rest) := x in
                  match lookup_signer kr (h_a h) with
                  | None => Err ErrNoSenderKey
                  | Some pk => Ok (pk, verify_loop c (S (List.length rest)) (h_version h) pk hh 0 rest [])
                  end)) by reflexivity.
  rewrite Ho in Hvs.
  destruct (verify_read_header c vd mt_attached wire) as [[[h hh] rest]|e] eqn:Hh; cbn [bind] in Hvs; [|discriminate].
  destruct (lookup_signer kr (h_a h)) as [pk'|] eqn:Hls; [|discriminate].
  assert (E1 : pk' = pk) by congruence. subst pk'.
  assert (Hl : verify_loop c (S (List.length rest)) (h_version h) pk hh 0 rest [] = out) by congruence.
  assert (Hrest : (List.length rest <= List.length wire)%nat).
  { revert Hh. unfold verify_read_header.
    destruct (read_header_bytes wire) as [[hb rest0]|e] eqn:Erh; cbn [bind fst snd]; [|discriminate].
    destruct (decode_header view_sig_header hb) as [h'|e]; cbn [bind]; [|discriminate].
    destruct (validate_sig_header vd mt_attached h'); cbn [bind]; [|discriminate].
    intros H. injection H as _ _ <-. exact (SignAuthProofs.read_header_bytes_suffix _ _ _ Erh). }
  exists h, hh, rest, (g_vs_key h hh pk (g_mps_raw rest 1)). split; [reflexivity|]. split.
  - rewrite (go_NewVerifyStream c vd kr VV rd KR wire Hrd). unfold nvs_outcome. rewrite Hh, Hls. reflexivity.
  - intros F bufs HF HFw Hb res.
    destruct (ver12 (h_version h)) eqn:Hvb.
    + assert (Hver : (vmaj (h_version h) = 1 \/ vmaj (h_version h) = 2)%Z).
      { unfold ver12 in Hvb. apply orb_true_iff in Hvb. destruct Hvb as [E|E]; apply Z.eqb_eq in E; auto. }
      rewrite GoEndToEndAuth.verify_loop_step_loop in Hl. cbn [rev app] in Hl. subst out. cbn [so_chunks so_end].
      destruct (go_reads_verifyStream c h pk hh F 0%N rest bufs Hver HF ltac:(lia) ltac:(lia) Hb) as [H1 H2].
      split; [exact H1|]. intros Hn. apply H2. lia.
    + intros Hne. destruct bufs as [|p t]; [congruence|]. subst res.
      apply go_reads_stuck_first; [exact HF|].
      unfold gnc_ver, gnc_of. cbv zeta.
      rewrite (go_verify_getNextChunk_obj_bad_version c h pk hh _ Hvb). reflexivity.
Qed.
End ReadsOfModel.

(* ================= round trip: spec-following messages read through chunkReader.Read ================= *)
(* a clean end and enough buffers: the loop returned the whole plaintext's length and io.EOF *)
Lemma reads_spec_eof_done (res : option (Z * gval)) (pt : bytes) :
  reads_spec res pt EOF -> reads_done res -> res = Some (Z.of_nat (List.length pt), VErr "io.EOF" []).
Proof.
  unfold reads_spec, reads_done. destruct res as [[cnt ev]|]; [|discriminate].
  intros H Hd. destruct (nil_val ev) eqn:En.
  - destruct ev; try discriminate En. exfalso. exact (Hd cnt eq_refl).
  - destruct H as [-> H]. cbn [GoAstProofs4b.g_err] in H. injection H as <-. reflexivity.
Qed.

Section ReadRoundTrip.
Variable c : crypto.
Hypothesis Hc : crypto_ok c.

(* (TARGET) *)
Theorem go_NewDecryptStream_read_accepts_spec (pm : bytes -> gval) (p : S_enc) (sk : bytes) (hide : bool) (i : nat)
        (vd : validator) (VV RING rd : gval) :
  enc_params_ok c p -> admits vd (se_major p) (se_minor p) ->
  nth_error (se_rcpts p) i = Some (dh_pub c sk, hide) ->
  rdr_bytes rd = Some (S_encode_encryption c p) ->
  (N.of_nat (List.length (S_encode_encryption c p)) < 18446744073709551616)%N ->
  let kr := mkRing [(sk, dh_pub c sk)] None in
  (exists (m : mki) (obj : gval),
      fst (run_func2 (ext_nds c pm vd kr) f_saltpack_NewDecryptStream [VV; rd; RING])
      = ORet [g_mki m (sk, dh_pub c sk); g_cr_new obj; VNil] /\
      forall F bufs, (10 <= F)%nat -> (S (List.length (S_encode_encryption c p)) < F)%nat -> Forall (fun b : bytes => b <> []) bufs ->
        let res := go_reads (gnc_dec c) F bufs (g_cr_new obj) 0 in
        reads_spec res (List.concat (se_chunks p)) EOF /\
        ((List.length (List.concat (se_chunks p)) + List.length (S_encode_encryption c p) + 2 <= List.length bufs)%nat ->
         res = Some (Z.of_nat (List.length (List.concat (se_chunks p))), VErr "io.EOF" [])))
  \/ S_foreign_box_opens c p sk.
Proof.
  intros Hp Hvd Hi Hrd Hlen kr.
  destruct (spec_encryption_accepted c Hc p sk hide i vd Hp Hvd Hi) as [(m & chunks & Ho & Hcc & _)|Hf];
    [left|right; exact Hf].
  fold kr in Ho.
  destruct (go_NewDecryptStream_reads_of_model c pm vd kr VV RING rd _ m _ Ho Hrd Hlen) as (k & obj & Hkin & Hks & Hnds & Hr).
  assert (Hk : k = (sk, dh_pub c sk)).
  { cbn [kr kr_keys In] in Hkin. destruct Hkin as [<-|[]]. reflexivity. }
  subst k. exists m, obj. split; [exact Hnds|].
  intros F bufs HF HFw Hb res. destruct (Hr F bufs HF HFw Hb) as [H1 H2]. cbn [so_chunks so_end] in H1, H2.
  rewrite Hcc in H1, H2. fold res in H1, H2. split; [exact H1|].
  intros Hn. exact (reads_spec_eof_done _ _ H1 (H2 Hn)).
Qed.

(* (TARGET) *)
Theorem go_NewSigncryptOpenStream_read_accepts_spec_box (p : S_sc) (sk : bytes) (i : nat) (signers : sigring) (rv : resolver)
        (KR RV rd : gval) :
  sc_params_ok c p ->
  nth_error (sc_rcpts p) i = Some (S_BoxR (dh_pub c sk)) ->
  (forall s, sc_signer p = Some s -> In (ed_pub c s) signers) ->
  rdr_bytes rd = Some (S_encode_signcryption c p) ->
  (N.of_nat (List.length (S_encode_signcryption c p)) < 18446744073709551616)%N ->
  let kr := mkRing [(sk, dh_pub c sk)] None in
  let sg := option_map (ed_pub c) (sc_signer p) in
  (exists obj : gval,
      fst (run_func2 (ext_nsos c kr signers rv) f_saltpack_NewSigncryptOpenStream [rd; KR; RV])
      = ORet [g_signer sg; g_cr_new obj; VNil] /\
      forall F bufs, (10 <= F)%nat -> (S (List.length (S_encode_signcryption c p)) < F)%nat -> Forall (fun b : bytes => b <> []) bufs ->
        let res := go_reads (gnc_sc c) F bufs (g_cr_new obj) 0 in
        reads_spec res (List.concat (sc_chunks p)) EOF /\
        ((List.length (List.concat (sc_chunks p)) + List.length (S_encode_signcryption c p) + 2 <= List.length bufs)%nat ->
         res = Some (Z.of_nat (List.length (List.concat (sc_chunks p))), VErr "io.EOF" [])))
  \/ S_identifier_collision c p sk i.
Proof.
  intros Hp Hi Hsg Hrd Hlen kr sg.
  destruct (spec_signcryption_accepted_box c Hc p sk i signers rv Hp Hi Hsg) as [(chunks & Ho & Hcc & _)|Hf];
    [left|right; exact Hf].
  fold kr in Ho. fold sg in Ho.
  destruct (go_NewSigncryptOpenStream_reads_of_model c kr signers rv KR RV rd _ sg _ Ho Hrd Hlen) as (obj & Hn & Hr).
  exists obj. split; [exact Hn|].
  intros F bufs HF HFw Hb res. destruct (Hr F bufs HF HFw Hb) as [H1 H2]. cbn [so_chunks so_end] in H1, H2.
  rewrite Hcc in H1, H2. fold res in H1, H2. split; [exact H1|].
  intros Hn'. exact (reads_spec_eof_done _ _ H1 (H2 Hn')).
Qed.

(* (TARGET) *)
Theorem go_NewSigncryptOpenStream_read_accepts_spec_sym (p : S_sc) (i : nat) (key ident : bytes) (rsl : list (bytes * bytes))
        (signers : sigring) (KR RV rd : gval) :
  sc_params_ok c p ->
  nth_error (sc_rcpts p) i = Some (S_SymR key ident) ->
  resolve rsl ident = Some key ->
  S_resolver_genuine c rsl p ->
  (forall s, sc_signer p = Some s -> In (ed_pub c s) signers) ->
  rdr_bytes rd = Some (S_encode_signcryption c p) ->
  (N.of_nat (List.length (S_encode_signcryption c p)) < 18446744073709551616)%N ->
  let kr := mkRing [] None in
  let sg := option_map (ed_pub c) (sc_signer p) in
  exists obj : gval,
    fst (run_func2 (ext_nsos c kr signers (Some rsl)) f_saltpack_NewSigncryptOpenStream [rd; KR; RV])
    = ORet [g_signer sg; g_cr_new obj; VNil] /\
    forall F bufs, (10 <= F)%nat -> (S (List.length (S_encode_signcryption c p)) < F)%nat -> Forall (fun b : bytes => b <> []) bufs ->
      let res := go_reads (gnc_sc c) F bufs (g_cr_new obj) 0 in
      reads_spec res (List.concat (sc_chunks p)) EOF /\
      ((List.length (List.concat (sc_chunks p)) + List.length (S_encode_signcryption c p) + 2 <= List.length bufs)%nat ->
       res = Some (Z.of_nat (List.length (List.concat (sc_chunks p))), VErr "io.EOF" [])).
Proof.
  intros Hp Hi Hres Hgen Hsg Hrd Hlen kr sg.
  destruct (spec_signcryption_accepted_sym c Hc p i key ident rsl signers Hp Hi Hres Hgen Hsg) as (chunks & Ho & Hcc & _).
  fold kr in Ho. fold sg in Ho.
  destruct (go_NewSigncryptOpenStream_reads_of_model c kr signers (Some rsl) KR RV rd _ sg _ Ho Hrd Hlen) as (obj & Hn & Hr).
  exists obj. split; [exact Hn|].
  intros F bufs HF HFw Hb res. destruct (Hr F bufs HF HFw Hb) as [H1 H2]. cbn [so_chunks so_end] in H1, H2.
  rewrite Hcc in H1, H2. fold res in H1, H2. split; [exact H1|].
  intros Hn'. exact (reads_spec_eof_done _ _ H1 (H2 Hn')).
Qed.

(* (TARGET) *)
Theorem go_NewVerifyStream_read_accepts_spec (p : S_sig) (kr : sigring) (vd : validator) (VV KR rd : gval) :
  sig_params_ok p ->
  (len (mp_encode (S_sig_header_list c p S_mode_attached)) < 4294967296)%N ->
  admits vd (ss_major p) (ss_minor p) -> In (ed_pub c (ss_sk p)) kr ->
  rdr_bytes rd = Some (S_encode_attached c p) ->
  (N.of_nat (List.length (S_encode_attached c p)) < 18446744073709551616)%N ->
  exists obj : gval,
    fst (run_func2 (ext_NVS c vd kr) f_saltpack_NewVerifyStream [VV; rd; KR]) = ORet [g_spk (ed_pub c (ss_sk p)); g_cr_new obj; VNil] /\
    forall F bufs, (10 <= F)%nat -> (S (List.length (S_encode_attached c p)) < F)%nat -> Forall (fun b : bytes => b <> []) bufs ->
      let res := go_reads (gnc_ver c) F bufs (g_cr_new obj) 0 in
      reads_spec res (List.concat (ss_chunks p)) EOF /\
      ((List.length (List.concat (ss_chunks p)) + List.length (S_encode_attached c p) + 2 <= List.length bufs)%nat ->
       res = Some (Z.of_nat (List.length (List.concat (ss_chunks p))), VErr "io.EOF" [])).
Proof.
  intros Hp Hlenh Hvd Hin Hrd Hlen.
  pose proof (GoEndToEndGate.spec_attached_state c Hc p vd Hp Hlenh Hvd) as Hst. cbv zeta in Hst.
  set (hdr := mp_encode (S_sig_header_list c p S_mode_attached)) in *.
  set (ps := S_packets (ss_major p) (ss_chunks p)) in *.
  set (rest := S_sig_packets c p (sha512 c hdr) 0 ps) in *.
  destruct Hst as (Hh & Lb & Hloop & Hcc).
  destruct Hp as (Hmaj & _).
  assert (Hvs : verify_stream c vd kr (S_encode_attached c p) = Ok (ed_pub c (ss_sk p), mkOut (map fst ps) EOF)).
  { unfold verify_stream. rewrite Hh. cbn [bind]. unfold spec_hdr. cbn [h_a h_version].
    rewrite (lookup_signer_in kr _ Hin). rewrite (Hloop (S (List.length rest)) ltac:(clear - Lb; lia)). reflexivity. }
  destruct (go_NewVerifyStream_reads_of_model c vd kr VV KR rd _ _ _ Hvs Hrd Hlen) as (h & hh & rest' & obj & Hh' & Hn & Hr).
  rewrite Hh in Hh'. injection Hh' as <- _ _.
  exists obj. split; [exact Hn|].
  intros F bufs HF HFw Hb res. specialize (Hr F bufs HF HFw Hb). cbv zeta in Hr. fold res in Hr.
  assert (Hv12 : ver12 (h_version (spec_hdr c p S_mode_attached)) = true).
  { unfold ver12, spec_hdr. cbn [h_version vmaj]. destruct Hmaj as [-> | ->]; reflexivity. }
  rewrite Hv12 in Hr. destruct Hr as [H1 H2]. cbn [so_chunks so_end] in H1, H2. rewrite Hcc in H1, H2.
  split; [exact H1|]. intros Hn'. exact (reads_spec_eof_done _ _ H1 (H2 Hn')).
Qed.
End ReadRoundTrip.

(* ================= authenticity of what a Read loop delivers ================= *)
(* the shape of the model's streaming authenticity statements, for the result of a Read loop: nothing delivered and no clean
   end; or the count delivered is the length of a prefix d of the plaintext of ONE candidate message, all of it if the loop
   ended with io.EOF; or the break.  (A stuck loop has delivered nothing to a caller: the evaluator has no result.) *)
Definition reads_auth_shape (Cand : list bytes -> Prop) (B : Prop) (res : option (Z * gval)) : Prop :=
  match res with
  | None => True
  | Some (cnt, ev) =>
    (cnt = 0%Z /\ ev <> VErr "io.EOF" []) \/
    (exists full d, Cand full /\ Bytes.is_prefix d (List.concat full) = true /\ cnt = Z.of_nat (List.length d) /\
                    (ev = VErr "io.EOF" [] -> d = List.concat full)) \/ B
  end.

Lemma is_prefix_nil_r (d : bytes) : Bytes.is_prefix d [] = true -> d = [].
Proof. destruct d; [reflexivity|discriminate]. Qed.
Lemma is_prefix_app_r (d a t : bytes) : Bytes.is_prefix d a = true -> Bytes.is_prefix d (a ++ t)%list = true.
Proof.
  revert a. induction d as [|x d IH]; intros a H; [reflexivity|].
  destruct a as [|y a]; [discriminate H|]. cbn [Bytes.is_prefix app] in *.
  apply andb_true_iff in H. destruct H as [H1 H2]. rewrite H1, (IH a H2). reflexivity.
Qed.
Lemma list_prefix_concat (cs full : list bytes) : list_prefix cs full -> exists t, List.concat full = (List.concat cs ++ t)%list.
Proof.
  revert full. induction cs as [|x cs IH]; intros full H.
  - exists (List.concat full). reflexivity.
  - destruct full as [|y full]; [destruct H|]. cbn [list_prefix] in H. destruct H as [-> H].
    destruct (IH full H) as (t & Ht). exists t. cbn [List.concat]. rewrite Ht, app_assoc. reflexivity.
Qed.

Lemma reads_auth (Cand : list bytes -> Prop) (B : Prop) (res : option (Z * gval)) (chunks : list bytes) (e : err) :
  reads_spec res (List.concat chunks) e ->
  ((chunks = [] /\ e <> EOF) \/
   (exists full, Cand full /\ list_prefix chunks full /\ (e = EOF -> chunks = full)) \/ B) ->
  reads_auth_shape Cand B res.
Proof.
  unfold reads_spec, reads_auth_shape. destruct res as [[cnt ev]|]; [|intros; exact I].
  intros Hs [[H0 Hne]|[(full & Hc & Hp & Hall)|Hb]]; [| |right; right; exact Hb].
  - left. subst chunks. cbn [List.concat] in Hs. destruct (nil_val ev) eqn:En.
    + destruct Hs as (d & Hd & ->). rewrite (is_prefix_nil_r _ Hd). split; [reflexivity|].
      destruct ev; try discriminate En. discriminate.
    + destruct Hs as [-> Hg]. split; [reflexivity|]. intros ->. exact (Hne (g_err4b_eof_inv _ Hg)).
  - right; left. destruct (list_prefix_concat _ _ Hp) as (t & Ht). destruct (nil_val ev) eqn:En.
    + destruct Hs as (d & Hd & ->). exists full, d. split; [exact Hc|]. split; [rewrite Ht; apply is_prefix_app_r; exact Hd|].
      split; [reflexivity|]. intros ->. discriminate En.
    + destruct Hs as [-> Hg]. exists full, (List.concat chunks). split; [exact Hc|].
      split; [rewrite Ht; apply is_prefix_app|]. split; [reflexivity|].
      intros ->. rewrite (Hall (g_err4b_eof_inv _ Hg)). reflexivity.
Qed.

Section ReadAuthDec.
Variable c : crypto.
Hypothesis Hc : crypto_ok c.
Variable pm : bytes -> gval.
Variables s_sk r_sk : bytes.

(* (TARGET) C02, streaming, through chunkReader.Read *)
Theorem go_NewDecryptStream_read_authentic (vd : validator) (senders : option (list bytes)) (VV r RING : gval) (input : bytes)
        (mk rdr : gval) (L : list enc_msg) :
  Forall (em_ok c s_sk) L -> em_headers_distinct c s_sk L ->
  (N.of_nat (List.length input) < 18446744073709551616)%N ->
  rdr_bytes r = Some input ->
  let kr := mkRing [(r_sk, dh_pub c r_sk)] senders in
  fst (run_func2 (ext_nds c pm vd kr) f_saltpack_NewDecryptStream [VV; r; RING]) = ORet [mk; rdr; VNil] ->
  exists m k obj,
    mk = g_mki m k /\ snd k = mki_receiver m /\ rdr = g_cr_new obj /\
    (mki_sender m = dh_pub c s_sk -> mki_sender_anon m = false ->
     forall F bufs, (10 <= F)%nat -> (S (List.length input) < F)%nat -> Forall (fun b : bytes => b <> []) bufs ->
       reads_auth_shape
         (fun full => exists msg hide pos,
              In msg L /\ nth_error (em_rs msg) pos = Some (dh_pub c r_sk, hide) /\ full = map fst (em_packets msg))
         (EncBreakL c s_sk r_sk vd kr L input)
         (go_reads (gnc_dec c) F bufs rdr 0)).
Proof.
  intros HL Hd Hlen Hr kr Hgo.
  assert (Hm : exists m out, open_stream c vd kr input = Ok (m, out)).
  { rewrite (go_NewDecryptStream c pm vd kr VV r RING input Hr) in Hgo. unfold nds_outcome in Hgo.
    pose proof (open_stream_header c vd kr input) as Hos.
    destruct (dec_read_header c vd kr input) as [[[m st] rest]|e] eqn:Hh; cbn [bind fst snd] in Hos.
    - eexists _, _. exact Hos.
    - destruct (g_herr e) as [ev|] eqn:Hge; [|discriminate Hgo].
      injection Hgo as _ _ ->. exfalso. exact (g_herr_not_nil e Hge). }
  destruct Hm as (m & out & Hos).
  destruct (go_NewDecryptStream_reads_of_model c pm vd kr VV RING r input m out Hos Hr Hlen) as (k & obj & _ & Hks & Hnds & Hreads).
  rewrite Hnds in Hgo. injection Hgo as <- <-.
  exists m, k, obj. split; [reflexivity|]. split; [exact Hks|]. split; [reflexivity|].
  intros Hs Ha F bufs HF HFw Hb.
  pose proof (open_authentic_located c Hc s_sk r_sk vd senders input m out L HL Hd Hlen Hos Hs Ha) as HA.
  apply (reads_auth _ _ _ (so_chunks out) (so_end out) (proj1 (Hreads F bufs HF HFw Hb))).
  destruct HA as [H0|[(msg & hide & pos & Hin & Hn & Hp & Hall)|Hbk]].
  - left. exact H0.
  - right; left. exists (map fst (em_packets msg)). split; [exists msg, hide, pos; repeat split; assumption|]. split; assumption.
  - right; right. exact Hbk.
Qed.
End ReadAuthDec.

Section ReadAuthVer.
Variable c : crypto.
Hypothesis Hsha : forall x, List.length (sha512 c x) = 64%nat.

(* (TARGET) C06, streaming, through chunkReader.Read *)
Theorem go_NewVerifyStream_read_authentic (vd : validator) (kr : sigring) (VV r KR : gval) (input : bytes)
        (sg rdr : gval) (L : list sign_event) :
  Forall event_ok L ->
  (N.of_nat (List.length input) < 18446744073709551616)%N ->
  rdr_bytes r = Some input ->
  fst (run_func2 (ext_NVS c vd kr) f_saltpack_NewVerifyStream [VV; r; KR]) = ORet [sg; rdr; VNil] ->
  exists pk obj,
    sg = g_spk pk /\ rdr = g_cr_new obj /\
    (headers_distinct pk L -> (len pk < 4294967296)%N ->
     forall F bufs, (10 <= F)%nat -> (S (List.length input) < F)%nat -> Forall (fun b : bytes => b <> []) bufs ->
       reads_auth_shape
         (fun full => exists v nonce ps, In (EvAttached v nonce ps) L /\ full = map fst ps)
         (AttBreak c vd pk L input)
         (go_reads (gnc_ver c) F bufs rdr 0)).
Proof.
  intros HL Hlen Hr Hgo.
  assert (Hm : exists pk out, verify_stream c vd kr input = Ok (pk, out)).
  { rewrite (go_NewVerifyStream c vd kr VV r KR input Hr) in Hgo. unfold nvs_outcome in Hgo.
    assert (Hvs : verify_stream c vd kr input =
                  bind (verify_read_header c vd mt_attached input) (fun x =>
                    let '(h, hh, rest) := x in
                    match lookup_signer kr (h_a h) with
                    | None => Err ErrNoSenderKey
                    | Some pk => Ok (pk, verify_loop c (S (List.length rest)) (h_version h) pk hh 0 rest [])
                    end)) by reflexivity.
    destruct (verify_read_header c vd mt_attached input) as [[[h hh] rest]|e] eqn:Hh; cbn [bind] in Hvs.
    - destruct (lookup_signer kr (h_a h)) as [pk|] eqn:Hls; [|discriminate Hgo]. eexists _, _. exact Hvs.
    - destruct (g_herr e) as [ev|] eqn:Hge; [|discriminate Hgo].
      injection Hgo as _ _ ->. exfalso. exact (g_herr_not_nil e Hge). }
  destruct Hm as (pk & out & Hvs).
  destruct (go_NewVerifyStream_reads_of_model c vd kr VV KR r input pk out Hvs Hr Hlen) as (h & hh & rest & obj & Hh & Hnvs & Hreads).
  rewrite Hnvs in Hgo. injection Hgo as <- <-.
  exists pk, obj. split; [reflexivity|]. split; [reflexivity|].
  intros Hd Hpk F bufs HF HFw Hb.
  specialize (Hreads F bufs HF HFw Hb). cbv zeta in Hreads.
  destruct (ver12 (h_version h)).
  - pose proof (attached_authentic_located c Hsha vd kr input pk out L HL Hd Hlen Hpk Hvs) as HA.
    apply (reads_auth _ _ _ (so_chunks out) (so_end out) (proj1 Hreads)).
    destruct HA as [H0|[(v & nonce & ps & Hin & Hp & Hall)|Hbk]].
    + left. exact H0.
    + right; left. exists (map fst ps). split; [exists v, nonce, ps; split; [assumption|reflexivity]|]. split; assumption.
    + right; right. exact Hbk.
  - destruct bufs as [|p t].
    + cbn [go_reads reads_auth_shape]. left. split; [reflexivity|discriminate].
    + rewrite (Hreads ltac:(discriminate)). exact I.
Qed.
End ReadAuthVer.

Section ReadAuthSc.
Variable c : crypto.
Hypothesis Hsha : forall x, List.length (sha512 c x) = 64%nat.

Lemma nsos_model_of_go (kr : keyring) (signers : sigring) (rv : resolver) (r KR RV : gval) (input : bytes) (sgv rdr : gval) :
  rdr_bytes r = Some input ->
  fst (run_func2 (ext_nsos c kr signers rv) f_saltpack_NewSigncryptOpenStream [r; KR; RV]) = ORet [sgv; rdr; VNil] ->
  exists sg out, signcrypt_open_stream c kr signers rv input = Ok (sg, out).
Proof.
  intros Hr Hgo.
  rewrite (go_NewSigncryptOpenStream c kr signers rv r KR RV input Hr) in Hgo. unfold nsos_outcome in Hgo.
  pose proof (signcrypt_open_stream_header c kr signers rv input) as Hos.
  destruct (sc_read_header c kr signers rv input) as [[[[pkey signer] hh] rest]|e] eqn:Hh; cbn [bind] in Hos.
  - eexists _, _. exact Hos.
  - destruct (g_herr e) as [ev|] eqn:Hge; [|discriminate Hgo].
    injection Hgo as _ _ ->. exfalso. exact (g_herr_not_nil e Hge).
Qed.

(* (TARGET) C04, streaming, named sender, through chunkReader.Read *)
Theorem go_NewSigncryptOpenStream_read_authentic (kr : keyring) (signers : sigring) (rv : resolver) (r KR RV : gval) (input pk : bytes)
        (rdr : gval) (M : list sc_msg) (others : list sign_event) :
  Forall sm_ok M -> sm_headers_distinct M -> Forall other_ok others ->
  (N.of_nat (List.length input) < 18446744073709551616)%N ->
  rdr_bytes r = Some input ->
  fst (run_func2 (ext_nsos c kr signers rv) f_saltpack_NewSigncryptOpenStream [r; KR; RV]) = ORet [VBytes pk; rdr; VNil] ->
  exists obj,
    rdr = g_cr_new obj /\
    forall F bufs, (10 <= F)%nat -> (S (List.length input) < F)%nat -> Forall (fun b : bytes => b <> []) bufs ->
      reads_auth_shape
        (fun full => exists m hb rest,
             In m M /\ read_header_bytes input = Ok (hb, rest) /\ hb = sm_header m /\ full = map fst (sm_packets m))
        (ScBreakL c kr signers rv pk M others input)
        (go_reads (gnc_sc c) F bufs rdr 0).
Proof.
  intros HM Hd Ho Hlen Hr Hgo.
  destruct (nsos_model_of_go kr signers rv r KR RV input _ _ Hr Hgo) as (sg & out & Hos).
  destruct (go_NewSigncryptOpenStream_reads_of_model c kr signers rv KR RV r input sg out Hos Hr Hlen) as (obj & Hn & Hreads).
  rewrite Hn in Hgo. injection Hgo as Hsg <-.
  assert (Esg : sg = Some pk) by (destruct sg as [pk'|]; cbn [g_signer] in Hsg; [injection Hsg as ->; reflexivity|discriminate Hsg]).
  subst sg.
  exists obj. split; [reflexivity|].
  intros F bufs HF HFw Hb.
  pose proof (signcrypt_authentic_located c Hsha kr signers rv input pk out M others HM Hd Ho Hlen Hos) as HA.
  apply (reads_auth _ _ _ (so_chunks out) (so_end out) (proj1 (Hreads F bufs HF HFw Hb))).
  destruct HA as [H0|[(m & hb & rest' & Hin & Hrh & Hhb & Hp & Hall)|Hbk]].
  - left. exact H0.
  - right; left. exists (map fst (sm_packets m)). split; [exists m, hb, rest'; repeat split; assumption|]. split; assumption.
  - right; right. exact Hbk.
Qed.

Hypothesis Hsb : forall k n m, sb_open c k n (sb_seal c k n m) = Some m.

(* (TARGET) C04, streaming, anonymous sender, through chunkReader.Read *)
Theorem go_NewSigncryptOpenStream_read_anonymous_authentic (kr : keyring) (signers : sigring) (rv : resolver) (r KR RV : gval)
        (input : bytes) (rdr : gval) (M : list sc_anon_msg) :
  Forall sam_ok M -> sam_headers_distinct M ->
  (N.of_nat (List.length input) < 18446744073709551616)%N ->
  rdr_bytes r = Some input ->
  fst (run_func2 (ext_nsos c kr signers rv) f_saltpack_NewSigncryptOpenStream [r; KR; RV]) = ORet [VNil; rdr; VNil] ->
  exists obj,
    rdr = g_cr_new obj /\
    forall F bufs, (10 <= F)%nat -> (S (List.length input) < F)%nat -> Forall (fun b : bytes => b <> []) bufs ->
      reads_auth_shape
        (fun full => exists m hb rest,
             In m M /\ read_header_bytes input = Ok (hb, rest) /\ hb = sam_header m /\
             sc_receiver_state c kr signers rv input = Some (sha512 c hb, sam_pkey m, rest) /\
             full = map fst (sam_packets m))
        (ScAnonBreakL c kr signers rv M input)
        (go_reads (gnc_sc c) F bufs rdr 0).
Proof.
  intros HM Hd Hlen Hr Hgo.
  destruct (nsos_model_of_go kr signers rv r KR RV input _ _ Hr Hgo) as (sg & out & Hos).
  destruct (go_NewSigncryptOpenStream_reads_of_model c kr signers rv KR RV r input sg out Hos Hr Hlen) as (obj & Hn & Hreads).
  rewrite Hn in Hgo. injection Hgo as Hsg <-.
  assert (Esg : sg = None) by (destruct sg as [pk'|]; cbn [g_signer] in Hsg; [discriminate Hsg|reflexivity]).
  subst sg.
  exists obj. split; [reflexivity|].
  intros F bufs HF HFw Hb.
  pose proof (signcrypt_anon_authentic_located c Hsha Hsb kr signers rv input out M HM Hd Hos) as HA.
  apply (reads_auth _ _ _ (so_chunks out) (so_end out) (proj1 (Hreads F bufs HF HFw Hb))).
  destruct HA as [H0|[(m & hb & rest' & Hin & Hrh & Hhb & Hst & Hp & Hall)|Hbk]].
  - left. exact H0.
  - right; left. exists (map fst (sam_packets m)). split; [exists m, hb, rest'; repeat split; assumption|]. split; assumption.
  - right; right. exact Hbk.
Qed.
End ReadAuthSc.

(* (TARGET) the single Read at the fuel of run_func2 *)
Corollary go_chunkReader_Read_gnc_300 (gnc : gval -> option (list gval)) (st : cr_state) (o pv evv : gval) (p : bytes) :
  (List.length (cr_pending st) < 299)%nat -> cr_rep gnc st o pv evv ->
  read_spec gnc st p (run_func2 (ext_crx gnc) f_saltpack_chunkReader_Read [g_crx o pv evv; VBytes p]).
Proof. intros H Hrep. rewrite run_func2_at_300. apply (go_chunkReader_Read_gnc gnc 299 st o pv evv p); [lia|exact H|exact Hrep]. Qed.

(* ================= the statements on concrete inputs (toy primitives of GoAstProofs7c.v) ================= *)
(* run a constructor, then a Read loop with the given buffers over the reader it returns *)
Definition go_stream_reads (ext_ctor : externs) (ctor : gfunc) (args : list gval) (gnc : gval -> option (list gval)) (F : nat)
           (bufs : list bytes) : option (option (Z * gval)) :=
  match fst (run_func2 ext_ctor ctor args) with
  | ORet [x; R; VNil] => Some (go_reads gnc F bufs R 0)
  | _ => None
  end.
(* the genuine attached signature over "hi" read with three 1-byte buffers, one 1-byte buffer, one 10-byte buffer; a truncated
   one; the genuine encrypted message; a signcrypted message followed by garbage (three buffers, two buffers) *)
Example ex_reads :
  let b1 := [x00] in
  go_stream_reads (ext_NVS toy7c AnyKnownMajor [x7c_spk]) f_saltpack_NewVerifyStream [VNil; VBytes x7c_att; VNil]
                  (gnc_ver toy7c) 299 [b1; b1; b1] = Some (Some (2%Z, VErr "io.EOF" []))
  /\ go_stream_reads (ext_NVS toy7c AnyKnownMajor [x7c_spk]) f_saltpack_NewVerifyStream [VNil; VBytes x7c_att; VNil]
                  (gnc_ver toy7c) 299 [b1] = Some (Some (1%Z, VNil))
  /\ go_stream_reads (ext_NVS toy7c AnyKnownMajor [x7c_spk]) f_saltpack_NewVerifyStream [VNil; VBytes x7c_att; VNil]
                  (gnc_ver toy7c) 299 [repeat x00 10] = Some (Some (2%Z, VErr "io.EOF" []))
  /\ go_stream_reads (ext_NVS toy7c AnyKnownMajor [x7c_spk]) f_saltpack_NewVerifyStream [VNil; VBytes (firstn 130 x7c_att); VNil]
                  (gnc_ver toy7c) 299 [b1; b1; b1] = Some (Some (0%Z, VErr "io.ErrUnexpectedEOF" []))
  /\ go_stream_reads (ext_nds toy7c (fun _ => VNil) AnyKnownMajor x7c_kr) f_saltpack_NewDecryptStream [VNil; VBytes x7c_ct; VNil]
                  (gnc_dec toy7c) 299 [b1; b1; b1] = Some (Some (2%Z, VErr "io.EOF" []))
  /\ go_stream_reads (ext_nsos toy7c x7c_kr [x7c_spk] None) f_saltpack_NewSigncryptOpenStream [VBytes (x7c_sc ++ [x01])%list; VNil; VNil]
                  (gnc_sc toy7c) 299 [b1; b1; b1] = Some (Some (2%Z, VErr "ErrTrailingGarbage" []))
  /\ go_stream_reads (ext_nsos toy7c x7c_kr [x7c_spk] None) f_saltpack_NewSigncryptOpenStream [VBytes (x7c_sc ++ [x01])%list; VNil; VNil]
                  (gnc_sc toy7c) 299 [b1; b1] = Some (Some (2%Z, VErr "ErrTrailingGarbage" [])).
Proof. vm_compute. repeat split. Qed.
(* ... and what the model says for the same inputs: the chunks and the ending error; the pending list (THE BRIDGE) *)
Example ex_reads_model :
  match verify_read_header toy7c AnyKnownMajor mt_attached x7c_att with
  | Ok (h, hh, rest) => Some (step_loop (verify_step toy7c (h_version h) x7c_spk hh) (S (List.length rest)) 0 rest,
                              step_pending (verify_step toy7c (h_version h) x7c_spk hh) (S (List.length rest)) 0 rest)
  | _ => None
  end = Some (([[x68; x69]], EOF), [([x68; x69], Some EOF)])
  /\ match verify_read_header toy7c AnyKnownMajor mt_attached (firstn 130 x7c_att) with
     | Ok (h, hh, rest) => Some (step_loop (verify_step toy7c (h_version h) x7c_spk hh) (S (List.length rest)) 0 rest)
     | _ => None
     end = Some ([], ErrUnexpectedEOF).
Proof. vm_compute. repeat split. Qed.
(* one Read with a 1-byte buffer on the reader NewVerifyStream returns: count 1, nil; prevChunk and prevErr left in the reader;
   and the model's cr_read from the bridged state *)
Example ex_read_single :
  match fst (run_func2 (ext_NVS toy7c AnyKnownMajor [x7c_spk]) f_saltpack_NewVerifyStream [VNil; VBytes x7c_att; VNil]) with
  | ORet [x; R; VNil] =>
    let r := run_func2 (ext_crx (gnc_ver toy7c)) f_saltpack_chunkReader_Read [R; VBytes [x00]] in
    Some (fst r, match lookup "r" (snd r) with Some (VStruct [_; pc; pe]) => Some (pc, pe) | _ => None end)
  | _ => None
  end = Some (ORet [VInt 1; VNil], Some (("prevChunk", VBytes [x69]), ("prevErr", VErr "io.EOF" [])))
  /\ match verify_read_header toy7c AnyKnownMajor mt_attached x7c_att with
     | Ok (h, hh, rest) =>
       Some (cr_read 3 1 (mkCr [] None (step_pending (verify_step toy7c (h_version h) x7c_spk hh) (S (List.length rest)) 0 rest)) [])
     | _ => None
     end = Some (([x68], None), mkCr [x69] (Some EOF) []).
Proof. vm_compute. repeat split. Qed.

(* Print Assumptions on every TARGET (run in a throw-away file: ~3 s each, the closure includes GoEndToEndGate): all
   "Closed under the global context". *)
