(* GoAstProofs5b.v — source ties for the WRITE side of the armor layer: the streaming base-X encoder
   (/repo/encoding/basex/stream.go: encoder.Write, encoder.Close) and the armor encoder stream
   (/repo/armor.go: armorEncoderStream.Write, .spaceAndOutputBuffer, .Close), as translated from /repo's Go
   syntax trees (gen/GoAst.v) and run by the extended evaluator of model/GoLang2.v, against the state
   machines bxe_write / bxe_close / ae_space / ae_write / ae_close of model/Streams.v.

   HOW THE UNDERLYING io.Writer IS MODELLED.  A writer object is [g_wr w], w = {| w_log; w_sched |}: the
   extern "Writer.Write" appends the byte string it is handed to w_log (so the log is the list of Write calls, in
   order, whether they fail or not) and returns the head of the schedule w_sched as its error (None = nil; an
   exhausted schedule never fails).  The count it returns is ignored by all five functions.  [run_calls calls w]
   hands a list of byte strings to such a writer until one call fails: (calls made, error, writer afterwards);
   [run_calls_log] says what that does to the log and the schedule.  The model functions bxe_*/ae_* have no
   failing writer; every theorem below says that the Go code makes exactly the model's writes, in order, up to
   and including the first one that fails, and gives the returned count, the returned / sticky error and the
   state in both cases.

   FUEL.  run_func2 runs with fuel 300 and a `for` loop may iterate at most as often as the fuel left where it
   starts, so run_func2 itself is stuck ("loop fuel") on inputs that need more iterations (Write of the encoder:
   one iteration per 128 blocks = 4096 bytes of input for base62, plus up to 31 for the leading fringe;
   spaceAndOutputBuffer: one per 15 characters).  [run2] is run_func2 with the fuel as a parameter
   ([run_func2_run2]: run_func2 = run2 .. 300, by reflexivity); the theorems are stated for run2 and EVERY
   fuel above an explicit bound that grows with the input, hence for every input; the _300 corollaries are the
   instances for run_func2.

   TARGETS (all proved with Qed; Print Assumptions: closed under the global context).
   Hypotheses common to the encoder lemmas: [gobj_ok en K o] = the invariants NewEncoder establishes and
   Write/Close keep: len(e.buf) = base256BlockLen, len(e.out) = K * baseXBlockLen (K = 128 in NewEncoder),
   and nbuf < base256BlockLen while e.err = nil; 0 < base256BlockLen and 1 <= K (with len(out) < obl, or a zero
   block length, the Go loop `for len(p) >= ibl` would not terminate).  The encoding en is otherwise arbitrary
   (no hypothesis on the alphabet).

   - go_encoder_Write_run      encoder.Write(p) computes exactly [gw_write] (the Go-level specification in this
       file: count, error, the whole receiver object including the scratch buffers, and the final value of the
       local p), for every object, every p and every writer schedule.  Hypotheses: gobj_ok; fuel bound.
   - gw_write_model            gw_write against bxe_write: with (ws, buf') = bxe_write en buf p, the writer ends
       as [run_calls (go_calls en K ws)] leaves it — go_calls re-cuts every model write into the pieces of at most
       K blocks that Go's interior loop hands to the writer — the error returned and stored in e.err is that of
       the first failing call; without a failure n = len(p), nbuf = |buf'| and the buffered bytes are buf' ONCE THE
       TRAILING COPY IS PERFORMED ([pending_copy], see NOT EXPRESSIBLE below); with a failure n is the number of
       input bytes consumed before it (formula in the statement).  Hypotheses: gobj_ok, e.err = nil.
   - go_encoder_Write          the two combined: the translated Write against bxe_write.  Same hypotheses + fuel.
   - go_encoder_Write_sticky   with e.err <> nil Write returns (0, e.err) and changes nothing.
   - go_encoder_Write_300      go_encoder_Write for run_func2 (hypothesis: 30 + ibl + len(p)/(K*ibl) <= 300).
   - go_encoder_Close_run      encoder.Close() computes exactly [gw_close]; hypotheses gobj_ok, fuel >= 12.
   - gw_close_model            gw_close against bxe_close: writer = run_calls (bxe_close en buf), error, nbuf = 0.
   - go_encoder_Close, go_encoder_Close_sticky, go_encoder_Close_300   as for Write (no size hypothesis at all).
   - go_spaceAndOutputBuffer_run   armorEncoderStream.spaceAndOutputBuffer computes exactly [ga_space]: error,
       pending characters, word count and writer, for every state and schedule (Armor62Params: 15-character
       words, 200 words per line).  Hypothesis: fuel >= 14 + len(chars)/15.  (nWords is a Go int; the
       evaluator's int does not wrap, Go's would after 2^63 words.)
   - ga_space_model            ga_space against ae_space: the calls are word, separator, word, separator ...
       ([sp_calls]), their concatenation is ae_space's output, and without a failure the rest and the word count
       are ae_space's.  No hypothesis.
   - go_armor_Write_glue       armorEncoderStream.Write for EVERY behaviour (W, SP) of its two callees
       s.encoder.Write(b) and s.spaceAndOutputBuffer(): it returns the encoder's count with the first error of
       the two, and the receiver is what the callees left.  Hypothesis: fuel >= 12.
   - go_armor_Close_glue       the same for Close, and after the two calls: one Write of the remaining characters,
       then one Fprintf of padding + ". " + footer + ".\n" ([ga_close_tail]); every writer schedule.
   - ga_close_tail_model       those two writes are the tail of ae_close.  No hypothesis.
   - ga_write_model, ga_close_model     [ga_write] / [ga_close] — the compositions encoder.Write; (shared
       buffer); spaceAndOutputBuffer and encoder.Close; (shared buffer); spaceAndOutputBuffer; tail — against
       ae_write / ae_close: bytes written (in order, up to the first failure), count, new ae_state.
       Hypotheses: gobj_ok base62 128, e.err = nil, and the encoder's own writer (the bytes.Buffer) never fails.
   - go_armor_Write_aliased, go_armor_Close_aliased     the translated Write / Close against ae_write / ae_close
       WHEN the two method calls are read as: s.encoder.Write = the base-X Write of this file with its trailing
       copy performed, s.spaceAndOutputBuffer = the translated method run after the encoder's output has appeared
       in s.buf.  These two readings are hypotheses of the theorems (they state the sharing of the
       bytes.Buffer, which the evaluator cannot express); everything else is as in the glue lemmas.

   NOT EXPRESSIBLE in model/GoLang2.v (reported, not worked around):
   1. f_basex_encoder_Write, statement `copy(e.buf[0:len(p)], p)` (the trailing fringe), translated to
      SExpr (ECall "copy" [ESlice (ESel (EVar "e") "buf") (Some 0) (Some (len p)); EVar "p"]).  exec2 writes the
      results of a call statement back to [mutable_places args]; [expr_lval] knows EVar/EAddr/ESel only, so a
      slice of a field is not a place and the only place here is the local p ([encoder_Write_copy_places]).
      SSliceCall (the form that fills a window) exists for a VARIABLE target x[lo:hi] only.  Missing: a window
      place (LSlice l lo hi) in glval / expr_lval, or SSliceCall with a glval target, or `copy` as a builtin of
      exec2.  Consequence: the extern "copy" is given no effect, the evaluator leaves e.buf[0:len(p)] stale, and
      every statement about Write gives the object BEFORE that copy together with the final local p;
      [pending_copy o' p'] is the object after it.  Everything else in Write (both loops, both early returns,
      the sticky error, counts, nbuf, the scratch buffer, the writer) is tied.  When the input ends on a block
      boundary p' = [] and pending_copy is the identity.
   2. f_saltpack_armorEncoderStream_Write (`n, err = s.encoder.Write(b)`) and _Close (`s.encoder.Close()`):
      the field w of the basex encoder behind s.encoder and s.buf are the same *bytes.Buffer.  Values of the evaluator are trees
      without references and call_assign writes extern results back only to the argument places
      ([armor_Write_call_places]: s.encoder and b), so the bytes the encoder writes cannot appear in s.buf,
      which the next call s.spaceAndOutputBuffer() (and `s.buf.Bytes()` in Close) reads.  Missing: reference
      values / a heap, or a translator convention passing the aliased field as a further place.  What is
      expressible is proved: the control flow of both methods for arbitrary callees (glue lemmas), the tail of
      Close, spaceAndOutputBuffer in full, and the composition against ae_write / ae_close with the sharing
      stated explicitly (the _aliased theorems).
   Meaning of the other externs.  "Encoding.Encode"(enc, dst, src): dst with its first |encode src| bytes replaced
   by BaseX.encode en src (stuck if it does not fit; the lemmas show it fits); "Encoding.EncodedLen" =
   encoded_len; "Buffer.Len/Next/Bytes" on a buffer represented by its unread bytes; "fmt.Fprintf" with the
   format "%s%c %s%c\n" = ONE Write of pad ++ [punct; ' '] ++ footer ++ [punct; '\n'] (fmt formats into its own
   buffer and calls Write once). *)
From Coq Require Import List String NArith ZArith Bool Lia.
From Coq.Strings Require Import Byte.
From SP Require Import Bytes Consts Params Errors BaseX Encodings Armor Streams StreamProofs GoLang GoLang2 GoAst GoAstProofs GoAstProofs2 GoAstProofs3.
From SP Require Import GoAstEnc.
Import ListNotations.
Local Open Scope string_scope.
Local Open Scope list_scope.
Local Open Scope nat_scope.

(* ---------- the underlying io.Writer ---------- *)
Record wr := mkWr { w_log : list bytes; w_sched : list (option string) }.
Definition wr_write (w : wr) (b : bytes) : option string * wr :=
  match w_sched w with
  | [] => (None, mkWr (w_log w ++ [b]) [])
  | er :: t => (er, mkWr (w_log w ++ [b]) t)
  end.

Definition put_out (out o : bytes) : bytes := o ++ skipn (List.length o) out.

Definition ibl_nat (en : encoding) : nat := N.to_nat (enc_ibl en).
Definition obl_nat (en : encoding) : nat := N.to_nat (obl en).

Section BxGo.
Variable en : encoding.
Variable K : nat.
Local Notation I := (ibl_nat en).
Local Notation O := (obl_nat en).

Record gobj := mkGo { go_err : option string; go_buf : bytes; go_nbuf : nat; go_out : bytes; go_w : wr }.

(* the interior loop of Write *)
Fixpoint gw_loop (fuel : nat) (p : bytes) (n : nat) (out : bytes) (w : wr)
  : (nat * string * bytes * wr * bytes) + (bytes * nat * bytes * wr) :=
  match fuel with
  | 0%nat => inr (p, n, out, w)
  | S f =>
    if Nat.leb I (List.length p) then
      let nn := Nat.min (K * I) (List.length p - List.length p mod I) in
      let o := BaseX.encode en (firstn nn p) in
      let out' := put_out out o in
      let (er, w') := wr_write w o in
      match er with
      | Some x => inl (n, x, out', w', p)
      | None => gw_loop f (skipn nn p) (n + nn)%nat out' w'
      end
    else inr (p, n, out, w)
  end.

(* Write: (n, err, the object afterwards, the final value of the local p) *)
Definition tail_res (buf : bytes) (nb : nat)
  (r : (nat * string * bytes * wr * bytes) + (bytes * nat * bytes * wr)) : nat * option string * gobj * bytes :=
  match r with
  | inl (n, x, out', w', p') => (n, Some x, mkGo (Some x) buf nb out' w', p')
  | inr (p', n, out', w') =>
    (* copy(e.buf[0:len(p)], p) is NOT performed (see the header): buf keeps its old contents *)
    ((n + List.length p')%nat, None, mkGo None buf (List.length p') out' w', p')
  end.
Definition gw_tail (n1 : nat) (o1 : gobj) (p1 : bytes) : nat * option string * gobj * bytes :=
  tail_res (go_buf o1) (go_nbuf o1) (gw_loop (S (List.length p1)) p1 n1 (go_out o1) (go_w o1)).

Definition gw_write (o : gobj) (p : bytes) : nat * option string * gobj * bytes :=
  match go_err o with
  | Some er => (0%nat, Some er, o, p)
  | None =>
    if Nat.ltb 0 (go_nbuf o) then
      let k := Nat.min (List.length p) (I - go_nbuf o) in
      let buf' := firstn (go_nbuf o) (go_buf o) ++ firstn k p ++ skipn (go_nbuf o + k) (go_buf o) in
      let nb' := (go_nbuf o + k)%nat in
      let p' := skipn k p in
      if Nat.ltb nb' I then (k, None, mkGo None buf' nb' (go_out o) (go_w o), p')
      else
        let enc := BaseX.encode en buf' in
        let out' := put_out (go_out o) enc in
        let (er, w') := wr_write (go_w o) enc in
        match er with
        | Some x => (k, Some x, mkGo (Some x) buf' nb' out' w', p')
        | None => gw_tail k (mkGo None buf' 0 out' w') p'
        end
    else gw_tail 0 o p
  end.

Definition gw_close (o : gobj) : option string * gobj :=
  match go_err o with
  | Some er => (Some er, o)
  | None =>
    if Nat.ltb 0 (go_nbuf o) then
      let enc := BaseX.encode en (firstn (go_nbuf o) (go_buf o)) in
      let out' := put_out (go_out o) enc in
      let (er, w') := wr_write (go_w o) enc in
      (er, mkGo er (go_buf o) 0 out' w')
    else (None, o)
  end.

(* the one statement of Write the evaluator cannot perform *)
Definition pending_copy (o : gobj) (p : bytes) : gobj :=
  mkGo (go_err o) (p ++ skipn (List.length p) (go_buf o)) (go_nbuf o) (go_out o) (go_w o).

(* ---------- encodings ---------- *)
Definition g_enc : gval := VStruct [("base256BlockLen", VInt (Z.of_nat I)); ("baseXBlockLen", VInt (Z.of_nat O))].
Definition g_werr (o : option string) : gval := match o with None => VNil | Some n => VErr n [] end.
Definition g_wr (w : wr) : gval :=
  VStruct [("log", VList (map VBytes (w_log w))); ("sched", VList (map g_werr (w_sched w)))].
Definition g_obj (o : gobj) : gval :=
  VStruct [("err", g_werr (go_err o)); ("enc", g_enc); ("w", g_wr (go_w o)); ("buf", VBytes (go_buf o));
           ("nbuf", VInt (Z.of_nat (go_nbuf o))); ("out", VBytes (go_out o))].

Definition ext_bx : externs := fun fn args =>
  if String.eqb fn "Encoding.Encode" then
    match args with
    | [encv; VBytes dst; VBytes src] =>
      let o := BaseX.encode en src in
      if Nat.leb (List.length o) (List.length dst) then Some [encv; VBytes (put_out dst o)] else None
    | _ => None
    end
  else if String.eqb fn "Encoding.EncodedLen" then
    match args with
    | [_; VInt n] => if Z.ltb n 0 then None else Some [VInt (Z.of_N (encoded_len en (Z.to_N n)))]
    | _ => None
    end
  else if String.eqb fn "Writer.Write" then
    match args with
    | [VStruct [("log", VList l); ("sched", VList s)]; VBytes b] =>
      match s with
      | [] => Some [VInt (Z.of_nat (List.length b)); VNil; VStruct [("log", VList (l ++ [VBytes b])); ("sched", VList [])]]
      | er :: t => Some [VInt (match er with VNil => Z.of_nat (List.length b) | _ => 0%Z end); er;
                         VStruct [("log", VList (l ++ [VBytes b])); ("sched", VList t)]]
      end
    | _ => None
    end
  else if String.eqb fn "copy" then Some []
  else None.

(* the model side: the Write calls the Go code makes for the model's writes *)
Fixpoint chunks (fuel : nat) (m : nat) (l : bytes) : list bytes :=
  match fuel with
  | 0%nat => []
  | S f => match l with [] => [] | _ => firstn m l :: chunks f m (skipn m l) end
  end.
Definition go_calls (ws : list bytes) : list bytes := flat_map (fun w => chunks (List.length w) (K * O) w) ws.

End BxGo.

Definition run2 (ext : externs) (fuel : nat) (fn : gfunc) (args : list gval) : outcome * env :=
  match bind_params (f_params fn) args with
  | None => (OStuck "arity", [])
  | Some e0 =>
    let e := (e0 ++ map (fun r => (fst r, zero_of (snd r))) (f_results fn))%list in
    match exec2 ext fuel e (f_body fn) with
    | CRet vs e' => (ORet vs, e')
    | CPanic => (OPanic, [])
    | CStuck w => (OStuck w, [])
    | CBrk e' | CCont e' => (OStuck "break/continue outside a loop", e')
    | CNorm e' =>
      match (fix rs (l : list (string * string)) : option (list gval) :=
               match l with
               | [] => Some []
               | r :: t => match lookup (fst r) e', rs t with Some v, Some vs => Some (v :: vs) | _, _ => None end
               end) (f_results fn) with
      | Some vs => (ORet vs, e')
      | None => (OStuck "fell off the end", e')
      end
    end
  end.
Lemma run_func2_run2 ext fn args : run_func2 ext fn args = run2 ext 300 fn args.
Proof. reflexivity. Qed.


(* ---------- the for loop of the extended evaluator as a function of its own counter ---------- *)
Definition for_loop2 (ext : externs) (f : nat) (c : gexpr) (body rest : list gstmt) : nat -> env -> ctl :=
  fix loop (n : nat) (e1 : env) : ctl :=
    match n with
    | 0 => CStuck "loop fuel"
    | S n' =>
      match eval ext 64 e1 c with
      | Some (VBool true) =>
        match exec2 ext f e1 body with
        | CNorm e2 | CCont e2 => loop n' e2
        | CBrk e2 => exec2 ext f e2 rest
        | other => other
        end
      | Some (VBool false) => exec2 ext f e1 rest
      | _ => CStuck "for"
      end
    end.
Lemma exec2_for (ext : externs) (f : nat) (e : env) c body rest :
  exec2 ext (S f) e (SFor c body :: rest) = for_loop2 ext f c body rest f e.
Proof. reflexivity. Qed.
Lemma for_loop2_S (ext : externs) (f : nat) c body rest n e1 :
  for_loop2 ext f c body rest (S n) e1 =
  match eval ext 64 e1 c with
  | Some (VBool true) =>
    match exec2 ext f e1 body with
    | CNorm e2 | CCont e2 => for_loop2 ext f c body rest n e2
    | CBrk e2 => exec2 ext f e2 rest
    | other => other
    end
  | Some (VBool false) => exec2 ext f e1 rest
  | _ => CStuck "for"
  end.
Proof. reflexivity. Qed.

(* ---------- stepping tactics (copies of those of GoAstProofs3.v, which are local to its section) ---------- *)
Ltac use_head_hyp5 :=
  lazymatch goal with
  | |- ?G =>
    let L := lazymatch G with (?L = _ -> _) => L | ?L = _ => L | _ => G end in
    let h := head_scrut3 L in
    match goal with H : h = _ |- _ => rewrite H end
  end; cbv beta iota.
Ltac ev_in5 h :=
  eval cbv -[Z.eqb Z.ltb Z.leb Z.add Z.sub Z.mul Z.modulo Z.rem Z.quot Z.opp Z.of_nat Z.of_N Z.to_nat Z.to_N
             List.length nth_error firstn skipn app map concat
             Byte.to_N Byte.of_N Nat.eqb Nat.leb Nat.ltb Nat.min Nat.sub Nat.add Nat.mul Nat.div Nat.modulo
             BaseX.encode encoded_len ibl_nat obl_nat put_out g_werr
             range_loop2 for_loop2 exec2] in h.
Ltac ev_term5 X h :=
  lazymatch h with
  | X ?fn ?args => let h' := ev_in5 h in progress (change h with h'); cbv beta iota
  | _ =>
    let p := eval pattern X in h in
    lazymatch p with
    | ?g _ => let g' := ev_in5 g in
              let h' := eval cbv beta in (g' X) in
              progress (change h with h'); cbv beta iota
    end
  end.
Ltac norm_env5 h x f e ss k :=
  let e' := ev_in5 e in
  tryif constr_eq e e' then k e
  else (change h with (exec2 x (S f) e' ss); k e').
Ltac fix_lvars5 :=
  repeat match goal with
  | |- context [lvars ?l] => let r := eval cbv [lvars map] in (lvars l) in change (lvars l) with r
  end.
Ltac step5 X :=
  lazymatch goal with
  | |- ?G =>
    let L := lazymatch G with (?L = _ -> _) => L | ?L = _ => L | _ => G end in
    let h := head_scrut3 L in
    lazymatch h with
    | exec2 ?x (S ?f) ?e (SFor ?c ?b :: ?rest) =>
      norm_env5 h x f e (SFor c b :: rest) ltac:(fun e' => rewrite exec2_for)
    | exec2 ?x (S ?f) ?e ?ss =>
      norm_env5 h x f e ss ltac:(fun e' => rewrite (exec2_S x f e' ss); cbv beta iota zeta); fix_lvars5; cbv beta iota
    | for_loop2 _ _ _ _ _ _ _ => fail
    | _ => ev_term5 X h
    end
  end.
(* a comparison of integers at the head, decided by lia from the context *)
Ltac zdec :=
  lazymatch goal with
  | |- ?G =>
    let L := lazymatch G with (?L = _ -> _) => L | ?L = _ => L | _ => G end in
    let h := head_scrut3 L in
    lazymatch h with
    | Z.ltb _ _ => idtac | Z.leb _ _ => idtac | Z.eqb _ _ => idtac
    end;
    first [ replace h with true by (symmetry; lia) | replace h with false by (symmetry; lia) ]
  end; cbv beta iota.
Ltac steps5 X := repeat first [step5 X | use_head_hyp5 | lits1 | lits2 | lits3 | zdec].
Ltac start5 F :=
  cbv beta iota zeta delta [run2 f_body f_params f_results F];
  lazymatch goal with
  | |- context [bind_params ?a ?b] =>
    let r := eval cbv [bind_params] in (bind_params a b) in change (bind_params a b) with r; cbv beta iota
  end;
  repeat match goal with
  | |- context [@map (string * string) (string * gval) ?f ?l] =>
    let r := eval cbv [map fst snd zero_of width String.eqb Ascii.eqb Bool.eqb orb] in (@map (string * string) (string * gval) f l) in
    change (@map (string * string) (string * gval) f l) with r
  end;
  repeat match goal with
  | |- context [@app (string * gval) ?l ?k] => is_spine l; let r := app_lit (string * gval)%type l k in change (@app (string * gval) l k) with r
  end.
(* show the head of the goal (debugging) *)
Ltac show_head :=
  lazymatch goal with
  | |- ?G =>
    let L := lazymatch G with (?L = _ -> _) => L | ?L = _ => L | _ => G end in
    let h := head_scrut3 L in idtac h
  end.
Ltac run_hyp5 X HR := revert HR; cbv beta iota; steps5 X; intros HR.
(* name the run of the evaluator in the goal: R, with HR : exec2 ... = R *)
Ltac name_run R HR :=
  match goal with
  | |- context [exec2 ?x ?f ?e ?b] => remember (exec2 x f e b) as R eqn:HR; symmetry in HR
  end.
Ltac show_hyp HR :=
  lazymatch type of HR with
  | ?L = _ => let h := head_scrut3 L in idtac h
  end.

(* ---------- lengths of the one-shot encoding (only a positive block length is needed) ---------- *)
Lemma to_digits_len (e : encoding) (c : nat) : forall (n : N) (acc : list N),
  List.length (to_digits e c n acc) = (c + List.length acc)%nat.
Proof.
  induction c as [|c IH]; intros n acc; cbn [to_digits]; [reflexivity|].
  rewrite IH. cbn [List.length]. lia.
Qed.
Lemma encode_block_length (e : encoding) (src : bytes) :
  List.length (encode_block e src) = N.to_nat (min_chars e (len src)).
Proof. unfold encode_block. rewrite map_length, to_digits_len. cbn [List.length]. lia. Qed.

Lemma min_chars_aux_ge (e : encoding) (fuel : nat) : forall c pw t, (c <= min_chars_aux e fuel c pw t)%N.
Proof.
  induction fuel as [|f IH]; intros c pw t; cbn [min_chars_aux]; [lia|].
  destruct (t <=? pw)%N; [lia|]. specialize (IH (c + 1)%N (pw * base e)%N t). lia.
Qed.
Lemma min_chars_aux_mono (e : encoding) (f1 : nat) : forall f2 c pw t1 t2, (f1 <= f2)%nat -> (t1 <= t2)%N ->
  (min_chars_aux e f1 c pw t1 <= min_chars_aux e f2 c pw t2)%N.
Proof.
  induction f1 as [|f1 IH]; intros f2 c pw t1 t2 Hf Ht; cbn [min_chars_aux].
  - apply min_chars_aux_ge.
  - destruct f2 as [|f2]; [lia|]. cbn [min_chars_aux].
    destruct (t1 <=? pw)%N eqn:E1.
    + destruct (t2 <=? pw)%N; [lia|].
      pose proof (min_chars_aux_ge e f2 (c + 1)%N (pw * base e)%N t2). lia.
    + destruct (t2 <=? pw)%N eqn:E2.
      * apply N.leb_le in E2. apply N.leb_gt in E1. lia.
      * apply IH; lia.
Qed.
Lemma min_chars_mono (e : encoding) (r1 r2 : N) : (r1 <= r2)%N -> (min_chars e r1 <= min_chars e r2)%N.
Proof.
  intros H. unfold min_chars. apply min_chars_aux_mono; [lia|].
  apply N.pow_le_mono_r; lia.
Qed.
Lemma min_chars_ge1 (e : encoding) (r : N) : (0 < r)%N -> (1 <= min_chars e r)%N.
Proof.
  intros H. unfold min_chars.
  destruct (N.to_nat (8 * r + 1)) as [|f] eqn:Ef; [lia|]. cbn [min_chars_aux].
  assert (H1 : (1 < 256 ^ r)%N) by (apply N.pow_gt_1; lia).
  destruct (256 ^ r <=? 1)%N eqn:E; [apply N.leb_le in E; lia|].
  pose proof (min_chars_aux_ge e f (0 + 1)%N (1 * base e)%N (256 ^ r)%N). lia.
Qed.

Section Lens.
Variable en : encoding.
Hypothesis Hibl : (0 < ibl_nat en)%nat.
Local Notation I := (ibl_nat en).
Local Notation O := (obl_nat en).

Lemma Hibl_N : (0 < enc_ibl en)%N.
Proof. unfold ibl_nat in Hibl. lia. Qed.

Lemma obl_nat_pos : (0 < O)%nat.
Proof.
  unfold obl_nat, obl, ibl. pose proof (min_chars_ge1 en (enc_ibl en) Hibl_N). lia.
Qed.

Lemma encode_short_block (src : bytes) : src <> [] -> (List.length src <= I)%nat ->
  BaseX.encode en src = encode_block en src.
Proof.
  intros Hne Hl. rewrite (enc_cons en src Hibl_N Hne).
  fold I. rewrite firstn_all2 by exact Hl. rewrite skipn_all2 by exact Hl.
  rewrite enc_nil. apply app_nil_r.
Qed.

Lemma encode_whole_length (k : nat) : forall src, List.length src = (k * I)%nat ->
  List.length (BaseX.encode en src) = (k * O)%nat.
Proof.
  induction k as [|k IH]; intros src Hl.
  - destruct src; [reflexivity|cbn in Hl; lia].
  - assert (Hne : src <> []) by (intros ->; cbn in Hl; clear IH; lia).
    rewrite (enc_cons en src Hibl_N Hne). fold I.
    rewrite app_length, encode_block_length, IH by (rewrite skipn_length; clear IH; lia).
    unfold len. rewrite firstn_length. replace (Nat.min I (List.length src)) with I by (clear IH; lia).
    unfold obl_nat, obl, ibl, ibl_nat. rewrite N2Nat.id. clear IH. lia.
Qed.

Lemma encode_short_length (src : bytes) : src <> [] -> (List.length src <= I)%nat ->
  List.length (BaseX.encode en src) = N.to_nat (min_chars en (len src)) /\
  (List.length (BaseX.encode en src) <= O)%nat.
Proof.
  intros Hne Hl. rewrite encode_short_block, encode_block_length by assumption. split; [reflexivity|].
  unfold obl_nat, obl, ibl.
  assert (H : (min_chars en (len src) <= min_chars en (enc_ibl en))%N).
  { apply min_chars_mono. unfold len. unfold ibl_nat in Hl. lia. }
  lia.
Qed.

Lemma encoded_len_short_nat (n : nat) : (0 < n)%nat -> (n < I)%nat ->
  encoded_len en (N.of_nat n) = min_chars en (N.of_nat n).
Proof.
  intros H0 H1. unfold encoded_len, ibl. unfold ibl_nat in H1.
  rewrite N.div_small, N.mod_small by lia.
  destruct (N.of_nat n =? 0)%N eqn:E; [apply N.eqb_eq in E; lia|]. lia.
Qed.
End Lens.

Lemma put_out_length (out o : bytes) : (List.length o <= List.length out)%nat ->
  List.length (put_out out o) = List.length out.
Proof. intros H. unfold put_out. rewrite app_length, skipn_length. lia. Qed.
Lemma put_out_firstn (out o : bytes) : firstn (List.length o) (put_out out o) = o.
Proof.
  unfold put_out. rewrite firstn_app, Nat.sub_diag. cbn [firstn]. rewrite app_nil_r. apply firstn_all.
Qed.

Lemma g_werr_none : g_werr None = VNil.
Proof. reflexivity. Qed.
Lemma g_werr_some (x : string) : g_werr (Some x) = VErr x [].
Proof. reflexivity. Qed.
Lemma map_nil_eq {A B} (f : A -> B) : map f [] = [].
Proof. reflexivity. Qed.
(* simplifications of the hypothesis that holds the run: by rewriting, never by conversion (a conversion that
   unblocks the evaluator inside the hypothesis makes the kernel re-run the rest of the function at Qed) *)
Ltac hr_simpl HR := rewrite ?map_cons, ?map_nil_eq, ?g_werr_none, ?g_werr_some in HR.

Section BxProofs.
Variable en : encoding.
Variable K : nat.
Local Notation I := (ibl_nat en).
Local Notation O := (obl_nat en).
Hypothesis Hibl : (0 < I)%nat.
Hypothesis HK : (1 <= K)%nat.

Definition gobj_ok (o : gobj) : Prop :=
  List.length (go_buf o) = I /\ List.length (go_out o) = (K * O)%nat /\ (go_err o = None -> (go_nbuf o < I)%nat).

(* (TARGET) *)
Lemma go_encoder_Close_run (o : gobj) (F : nat) : gobj_ok o -> (12 <= F)%nat ->
  let r := run2 (ext_bx en) F f_basex_encoder_Close [g_obj en o] in
  fst r = ORet [g_werr (fst (gw_close en o))] /\ lookup "e" (snd r) = Some (g_obj en (snd (gw_close en o))).
Proof.
  intros (Hbuf & Hout & Hnb) HF. do 12 (destruct F as [|F]; [lia|]). clear HF.
  destruct o as [er buf nb out [log sched]]. cbn [go_err go_buf go_nbuf go_out go_w] in *.
  cbv zeta. start5 f_basex_encoder_Close.
  unfold g_obj, gw_close. cbn [go_err go_buf go_nbuf go_out go_w].
  name_run R HR. run_hyp5 (ext_bx en) HR.
  destruct er as [x|].
  { hr_simpl HR. run_hyp5 (ext_bx en) HR. subst R. cbn. split; reflexivity. }
  hr_simpl HR. run_hyp5 (ext_bx en) HR.
  specialize (Hnb eq_refl).
  destruct (Nat.ltb 0 nb) eqn:Enb.
  2:{ apply Nat.ltb_ge in Enb. assert (Hz : (0 <? Z.of_nat nb)%Z = false) by lia.
      run_hyp5 (ext_bx en) HR. subst R. cbn. split; reflexivity. }
  apply Nat.ltb_lt in Enb. assert (Hz : (0 <? Z.of_nat nb)%Z = true) by lia.
  run_hyp5 (ext_bx en) HR.
  rewrite Z.sub_0_r, Nat2Z.id, skipn_O in HR.
  remember (firstn nb buf) as src eqn:Hsrc.
  assert (Hsl : List.length src = nb) by (subst src; rewrite firstn_length; lia).
  assert (Hsne : src <> []) by (intros E; rewrite E in Hsl; cbn in Hsl; lia).
  destruct (encode_short_length en Hibl src Hsne ltac:(lia)) as [Hel Hle].
  assert (Hfit : Nat.leb (List.length (BaseX.encode en src)) (List.length out) = true) by (apply Nat.leb_le; nia).
  pose proof (put_out_length out _ (proj1 (Nat.leb_le _ _) Hfit)) as Hpl.
  assert (Hel2 : Z.of_N (encoded_len en (Z.to_N (Z.of_nat nb))) = Z.of_nat (List.length (BaseX.encode en src))).
  { replace (Z.to_N (Z.of_nat nb)) with (N.of_nat nb) by lia. rewrite encoded_len_short_nat by lia.
    rewrite Hel. unfold len. rewrite Hsl. lia. }
  run_hyp5 (ext_bx en) HR. rewrite Hel2 in HR. run_hyp5 (ext_bx en) HR.
  rewrite Z.sub_0_r, Nat2Z.id, skipn_O, put_out_firstn in HR.
  destruct sched as [|e1 sched]; hr_simpl HR; run_hyp5 (ext_bx en) HR.
  - subst R. cbn. unfold g_wr. cbn [w_log w_sched map]. rewrite map_app. split; reflexivity.
  - destruct e1 as [x|]; hr_simpl HR; run_hyp5 (ext_bx en) HR; subst R; cbn; unfold g_wr; cbn [w_log w_sched map];
      rewrite map_app; split; reflexivity.
Qed.


Lemma byte_roundtrip (c : byte) :
  match Byte.of_N (Z.to_N (Z.of_N (Byte.to_N c) mod 256)) with Some c' => c' | None => x00 end = c.
Proof. destruct c; reflexivity. Qed.

(* ----- the leading-fringe loop of Write ----- *)
Fixpoint gw_fill (m : nat) (buf : bytes) (nb i : nat) (p : bytes) : bytes * nat * nat :=
  match m with
  | 0 => (buf, nb, i)
  | S m' =>
    if (Nat.ltb i (List.length p) && Nat.ltb nb I)%bool then
      match nth_error p i with
      | Some c => gw_fill m' (firstn nb buf ++ c :: skipn (S nb) buf) (S nb) (S i) p
      | None => (buf, nb, i)
      end
    else (buf, nb, i)
  end.

Definition env_fr (wv : gval) (out p : bytes) (buf : bytes) (nb i : nat) : env :=
  [("e", VStruct [("err", VNil); ("enc", g_enc en); ("w", wv); ("buf", VBytes buf); ("nbuf", VInt (Z.of_nat nb)); ("out", VBytes out)]);
   ("p", VBytes p); ("n", VInt 0); ("err", VNil); ("ibl", VInt (Z.of_nat I)); ("obl", VInt (Z.of_nat O)); ("i", VInt (Z.of_nat i))].

Definition fr_cond : gexpr :=
  EBin OAnd "bool" (EBin OLt "bool" (EVar "i") (ELen (EVar "p"))) (EBin OLt "bool" (ESel (EVar "e") "nbuf") (EVar "ibl")).
Definition fr_body : list gstmt :=
  [SAssignL [LIndex (LField (LVar "e") "buf") (ESel (EVar "e") "nbuf")] [EIdx (EVar "p") (EVar "i")];
   SOpAssignL (LField (LVar "e") "nbuf") OAdd "int" (EInt 1);
   SOpAssign "i" OAdd "int" (EInt 1)].

Lemma fringe_loop (wv : gval) (out p : bytes) (f : nat) (rest : list gstmt) :
  forall (m : nat) (buf : bytes) (nb i n : nat),
  (I - nb <= m)%nat -> (m < n)%nat -> List.length buf = I ->
  for_loop2 (ext_bx en) (S (S (S (S f)))) fr_cond fr_body rest n (env_fr wv out p buf nb i) =
  (let '(buf', nb', i') := gw_fill m buf nb i p in
   exec2 (ext_bx en) (S (S (S (S f)))) (env_fr wv out p buf' nb' i') rest).
Proof.
  induction m as [|m IH]; intros buf nb i n Hm Hn Hbuf.
  - destruct n as [|n]; [lia|]. cbn [gw_fill]. rewrite for_loop2_S. unfold fr_cond, env_fr.
    steps5 (ext_bx en).
    destruct (Z.ltb (Z.of_nat i) (Z.of_nat (List.length p))); steps5 (ext_bx en); reflexivity.
  - destruct n as [|n]; [lia|]. cbn [gw_fill]. rewrite for_loop2_S. unfold fr_cond, env_fr.
    steps5 (ext_bx en).
    destruct (Nat.ltb i (List.length p)) eqn:Ei.
    2:{ apply Nat.ltb_ge in Ei. cbn [andb]. steps5 (ext_bx en). reflexivity. }
    apply Nat.ltb_lt in Ei. cbn [andb].
    destruct (Nat.ltb nb I) eqn:Enb.
    2:{ apply Nat.ltb_ge in Enb. steps5 (ext_bx en). reflexivity. }
    apply Nat.ltb_lt in Enb.
    steps5 (ext_bx en). unfold fr_body. steps5 (ext_bx en).
    rewrite Nat2Z.id.
    destruct (nth_error p i) as [c|] eqn:Ec; [|apply nth_error_None in Ec; lia].
    steps5 (ext_bx en).
    rewrite byte_roundtrip, !Nat2Z.id.
    replace (Z.of_nat nb + 1)%Z with (Z.of_nat (S nb)) by lia.
    replace (Z.of_nat i + 1)%Z with (Z.of_nat (S i)) by lia.
    apply (IH _ (S nb) (S i) n); [lia|lia|].
    rewrite app_length, firstn_length. cbn [List.length]. rewrite skipn_length. lia.
Qed.
End BxProofs.


Lemma skipn_add {A} (a b : nat) (l : list A) : skipn a (skipn b l) = skipn (a + b) l.
Proof.
  revert l. induction b as [|b IH]; intros l.
  - rewrite Nat.add_0_r. reflexivity.
  - rewrite Nat.add_succ_r. destruct l as [|x l]; [rewrite !skipn_nil; reflexivity|]. cbn [skipn]. apply IH.
Qed.

Section BxProofs2.
Variable en : encoding.
Variable K : nat.
Local Notation I := (ibl_nat en).
Local Notation O := (obl_nat en).
Hypothesis Hibl : (0 < I)%nat.
Hypothesis HK : (1 <= K)%nat.

(* closed form of the leading-fringe loop *)
Lemma gw_fill_closed (p : bytes) : forall (m : nat) (buf : bytes) (nb i : nat),
  I - nb <= m -> List.length buf = I -> i <= List.length p ->
  gw_fill en m buf nb i p =
  (let k := Nat.min (List.length p - i) (I - nb) in
   (firstn nb buf ++ firstn k (skipn i p) ++ skipn (nb + k) buf, nb + k, i + k)).
Proof.
  induction m as [|m IH]; intros buf nb i Hm Hbuf Hi; cbv zeta.
  - cbn [gw_fill]. replace (I - nb) with 0 by lia. rewrite Nat.min_0_r, !Nat.add_0_r. cbn [firstn app].
    rewrite firstn_skipn. reflexivity.
  - cbn [gw_fill].
    destruct (Nat.ltb i (List.length p)) eqn:Ei; cbn [andb].
    2:{ apply Nat.ltb_ge in Ei. replace (List.length p - i) with 0 by lia. cbn [Nat.min firstn app].
        rewrite !Nat.add_0_r, firstn_skipn. reflexivity. }
    apply Nat.ltb_lt in Ei.
    destruct (Nat.ltb nb I) eqn:Enb.
    2:{ apply Nat.ltb_ge in Enb. replace (I - nb) with 0 by lia. rewrite Nat.min_0_r, !Nat.add_0_r. cbn [firstn app].
        rewrite firstn_skipn. reflexivity. }
    apply Nat.ltb_lt in Enb.
    destruct (nth_error p i) as [c|] eqn:Ec; [|apply nth_error_None in Ec; lia].
    rewrite IH; [|lia| |lia].
    2:{ rewrite app_length, firstn_length. cbn [List.length]. rewrite skipn_length. lia. }
    cbv zeta.
    set (k' := Nat.min (List.length p - S i) (I - S nb)).
    replace (Nat.min (List.length p - i) (I - nb)) with (S k') by (unfold k'; lia).
    f_equal; [f_equal|]; try lia.
    assert (Hsk : skipn i p = c :: skipn (S i) p).
    { rewrite <- (firstn_skipn i p) in Ec at 1. rewrite nth_error_app2 in Ec by (rewrite firstn_length; lia).
      rewrite firstn_length in Ec. replace (i - Nat.min i (List.length p)) with 0 in Ec by lia.
      destruct (skipn i p) as [|c' t] eqn:Es; [discriminate|]. cbn in Ec. injection Ec as ->.
      f_equal. replace (S i) with (1 + i) by lia. rewrite <- skipn_add, Es. reflexivity. }
    rewrite Hsk. change (firstn (S k') (c :: skipn (S i) p)) with (c :: firstn k' (skipn (S i) p)).
    assert (Hf : firstn (S nb) (firstn nb buf ++ c :: skipn (S nb) buf) = firstn nb buf ++ [c]).
    { rewrite firstn_app, firstn_length. replace (S nb - Nat.min nb (List.length buf)) with 1 by lia.
      rewrite (firstn_all2 (n := S nb)) by (rewrite firstn_length; lia). reflexivity. }
    rewrite Hf, <- app_assoc. cbn [app]. f_equal. f_equal. f_equal.
    rewrite skipn_app, firstn_length.
    replace (S nb + k' - Nat.min nb (List.length buf)) with (S k') by lia.
    rewrite skipn_all2 by (rewrite firstn_length; lia). cbn [app].
    change (skipn (S k') (c :: skipn (S nb) buf)) with (skipn k' (skipn (S nb) buf)).
    rewrite skipn_add. f_equal. lia.
Qed.

(* ----- the interior loop of Write, followed by the trailing statements ----- *)
Local Notation S10 f := (S (S (S (S (S (S (S (S (S (S f)))))))))).
Definition wr_for : gstmt := Eval cbv in nth 4 (f_body f_basex_encoder_Write) (SUnsup "").
Definition in_cond : gexpr := Eval cbv in match wr_for with SFor c _ => c | _ => ENil end.
Definition in_body : list gstmt := Eval cbv in match wr_for with SFor _ b => b | _ => [] end.
Definition in_tail : list gstmt := Eval cbv in skipn 5 (f_body f_basex_encoder_Write).

Definition tl_of (oi onn : option Z) : env :=
  (match oi with Some z => [("i", VInt z)] | None => [] end) ++ (match onn with Some z => [("nn", VInt z)] | None => [] end).
Definition env_in (buf : bytes) (nb : nat) (out : bytes) (w : wr) (p : bytes) (n : nat) (oi onn : option Z) : env :=
  [("e", VStruct [("err", VNil); ("enc", g_enc en); ("w", g_wr w); ("buf", VBytes buf); ("nbuf", VInt (Z.of_nat nb)); ("out", VBytes out)]);
   ("p", VBytes p); ("n", VInt (Z.of_nat n)); ("err", VNil); ("ibl", VInt (Z.of_nat I)); ("obl", VInt (Z.of_nat O))] ++ tl_of oi onn.

Lemma interior_loop (buf : bytes) (nb : nat) (oi : option Z) (f : nat) : List.length buf = I ->
  forall (fuel n : nat) (p : bytes) (nacc : nat) (out : bytes) (w : wr) (onn : option Z),
  List.length p / I < fuel -> 1 <= n -> List.length p / I <= (n - 1) * K -> List.length out = K * O ->
  let '(n', er, o', p') := tail_res buf nb (gw_loop en K fuel p nacc out w) in
  exists env',
    for_loop2 (ext_bx en) (S10 f) in_cond in_body in_tail n (env_in buf nb out w p nacc oi onn)
    = CRet [VInt (Z.of_nat n'); g_werr er] env' /\
    lookup "e" env' = Some (g_obj en o') /\ lookup "p" env' = Some (VBytes p').
Proof.
  intros Hbuf. pose proof (obl_nat_pos en Hibl) as HO.
  induction fuel as [|fuel IH]; intros n p nacc out w onn Hfuel Hn1 Hn Hout; [inversion Hfuel|].
  destruct n as [|n]; [lia|].
  cbn [gw_loop].
  destruct w as [log sched].
  unfold in_cond, in_body, in_tail, env_in, tl_of, g_wr. cbn [w_log w_sched].
  match goal with
  | |- context [for_loop2 ?x ?ff ?c ?b ?r ?n0 ?e0] => remember (for_loop2 x ff c b r n0 e0) as R eqn:HR
  end.
  symmetry in HR. rewrite for_loop2_S in HR.
  destruct (Nat.leb I (List.length p)) eqn:Ege.
  2:{ apply Nat.leb_gt in Ege. cbn [tail_res].
      destruct oi as [iz|], onn as [nz|]; run_hyp5 (ext_bx en) HR; subst R; rewrite ?Nat2Z.inj_add; eexists; (split; [reflexivity|split; reflexivity]). }
  apply Nat.leb_le in Ege.
  remember (Nat.min (K * I) (List.length p - List.length p mod I)) as nn eqn:Hnn.
  pose proof (Nat.mod_upper_bound (List.length p) I ltac:(lia)) as Hmod.
  pose proof (Nat.div_mod (List.length p) I ltac:(lia)) as Hdm.
  assert (Hnn_le : nn <= List.length p) by lia.
  assert (Hnn_mul : nn = Nat.min K (List.length p / I) * I).
  { rewrite Hnn. replace (List.length p - List.length p mod I) with (List.length p / I * I) by lia.
    rewrite Nat.mul_min_distr_r. reflexivity. }
  assert (Hnn_pos : 0 < nn).
  { rewrite Hnn_mul. assert (1 <= List.length p / I) by (apply Nat.div_le_lower_bound; lia). nia. }
  assert (Hq : (Z.quot (Z.of_nat (List.length out)) (Z.of_nat O) * Z.of_nat I)%Z = Z.of_nat (K * I)).
  { rewrite Hout, Nat2Z.inj_mul, Z.quot_mul by lia. lia. }
  assert (HvalA : (Z.of_nat (List.length p) - Z.rem (Z.of_nat (List.length p)) (Z.of_nat I))%Z
                  = Z.of_nat (List.length p - List.length p mod I)).
  { rewrite Z.rem_mod_nonneg by lia. rewrite <- Nat2Z.inj_mod. lia. }
  remember (BaseX.encode en (firstn nn p)) as enc eqn:Henc.
  assert (Hencl : List.length enc = Nat.min K (List.length p / I) * O).
  { subst enc. apply (encode_whole_length en Hibl). rewrite firstn_length. lia. }
  assert (Hfit : Nat.leb (List.length enc) (List.length out) = true) by (apply Nat.leb_le; nia).
  pose proof (put_out_length out enc (proj1 (Nat.leb_le _ _) Hfit)) as Hpl.
  assert (Hq2 : (Z.quot (Z.of_nat nn) (Z.of_nat I) * Z.of_nat O)%Z = Z.of_nat (List.length enc)).
  { rewrite Hencl, Hnn_mul, Nat2Z.inj_mul, Z.quot_mul by lia. lia. }
  assert (Hstep : match wr_write (mkWr log sched) enc with
    | (Some x, w') =>
      exists env', R = CRet [VInt (Z.of_nat nacc); VErr x []] env' /\
        lookup "e" env' = Some (g_obj en (mkGo (Some x) buf nb (put_out out enc) w')) /\ lookup "p" env' = Some (VBytes p)
    | (None, w') =>
      exists nz' : Z,
        for_loop2 (ext_bx en) (S10 f) in_cond in_body in_tail n
          (env_in buf nb (put_out out enc) w' (skipn nn p) (nacc + nn) oi (Some nz')) = R
    end).
  { destruct (Nat.ltb (List.length p) (K * I)) eqn:Elt.
    - apply Nat.ltb_lt in Elt.
      destruct oi as [iz|], onn as [nz|]; run_hyp5 (ext_bx en) HR; rewrite ?Hq in HR; run_hyp5 (ext_bx en) HR;
        rewrite HvalA in HR; replace (List.length p - List.length p mod I) with nn in HR by lia;
        run_hyp5 (ext_bx en) HR;
        rewrite Z.sub_0_r, Nat2Z.id, skipn_O, <- Henc in HR; run_hyp5 (ext_bx en) HR;
        rewrite Hq2 in HR; run_hyp5 (ext_bx en) HR;
        rewrite Z.sub_0_r, Nat2Z.id, skipn_O, put_out_firstn in HR;
        (destruct sched as [|[x|] sched]; hr_simpl HR; run_hyp5 (ext_bx en) HR; cbn [wr_write w_sched w_log];
        [ exists (Z.of_nat nn); rewrite Nat2Z.id, firstn_rest in HR by lia; rewrite <- Nat2Z.inj_add in HR;
          unfold env_in, tl_of, g_wr; cbn [w_log w_sched map]; rewrite map_app; exact HR
        | subst R; eexists; split; [reflexivity|]; split; [|reflexivity];
          unfold g_obj, g_wr; cbn [go_err go_buf go_nbuf go_out go_w w_log w_sched g_werr map]; rewrite map_app; reflexivity
        | exists (Z.of_nat nn); rewrite Nat2Z.id, firstn_rest in HR by lia; rewrite <- Nat2Z.inj_add in HR;
          unfold env_in, tl_of, g_wr; cbn [w_log w_sched map]; rewrite map_app; exact HR ]).
    - apply Nat.ltb_ge in Elt.
      assert (HnnK : K * I = nn).
      { rewrite Hnn_mul. rewrite Nat.min_l; [reflexivity|]. apply Nat.div_le_lower_bound; lia. }
      destruct oi as [iz|], onn as [nz|]; run_hyp5 (ext_bx en) HR; rewrite ?Hq in HR;
        rewrite HnnK in HR;
        run_hyp5 (ext_bx en) HR;
        rewrite Z.sub_0_r, Nat2Z.id, skipn_O, <- Henc in HR; run_hyp5 (ext_bx en) HR;
        rewrite Hq2 in HR; run_hyp5 (ext_bx en) HR;
        rewrite Z.sub_0_r, Nat2Z.id, skipn_O, put_out_firstn in HR;
        (destruct sched as [|[x|] sched]; hr_simpl HR; run_hyp5 (ext_bx en) HR; cbn [wr_write w_sched w_log];
        [ exists (Z.of_nat nn); rewrite Nat2Z.id, firstn_rest in HR by lia; rewrite <- Nat2Z.inj_add in HR;
          unfold env_in, tl_of, g_wr; cbn [w_log w_sched map]; rewrite map_app; exact HR
        | subst R; eexists; split; [reflexivity|]; split; [|reflexivity];
          unfold g_obj, g_wr; cbn [go_err go_buf go_nbuf go_out go_w w_log w_sched g_werr map]; rewrite map_app; reflexivity
        | exists (Z.of_nat nn); rewrite Nat2Z.id, firstn_rest in HR by lia; rewrite <- Nat2Z.inj_add in HR;
          unfold env_in, tl_of, g_wr; cbn [w_log w_sched map]; rewrite map_app; exact HR ]). }
  clear HR.
  replace (Nat.leb I (List.length p)) with true by (symmetry; apply Nat.leb_le; exact Ege).
  cbv zeta.
  destruct (wr_write (mkWr log sched) enc) as [[x|] w'].
  - cbn [tail_res]. destruct Hstep as (env' & -> & H1 & H2). exists env'. cbn [g_werr]. auto.
  - destruct Hstep as (nz' & Hs).
    assert (Hdiv : List.length (skipn nn p) / I = List.length p / I - Nat.min K (List.length p / I)).
    { rewrite skipn_length. replace (List.length p - nn) with (List.length p mod I + (List.length p / I - Nat.min K (List.length p / I)) * I) by nia.
      rewrite Nat.div_add by lia. rewrite Nat.div_small by lia. lia. }
    assert (Hb1 : 1 <= List.length p / I) by (apply Nat.div_le_lower_bound; lia).
    specialize (IH n (skipn nn p) (nacc + nn) (put_out out enc) w' (Some nz')).
    destruct (tail_res buf nb (gw_loop en K fuel (skipn nn p) (nacc + nn) (put_out out enc) w')) as [[[n' er'] o'] p'].
    rewrite Hs in IH. apply IH; [lia|nia|nia|lia].
Qed.

End BxProofs2.


Section BxProofs3.
Variable en : encoding.
Variable K : nat.
Local Notation I := (ibl_nat en).
Local Notation O := (obl_nat en).
Hypothesis Hibl : (0 < I)%nat.
Hypothesis HK : (1 <= K)%nat.

Lemma div_bound (a b m : nat) : 0 < b -> a / b <= m -> a <= (m + 1) * b.
Proof. intros Hb H. pose proof (Nat.div_mod a b ltac:(lia)). pose proof (Nat.mod_upper_bound a b ltac:(lia)). nia. Qed.

(* (TARGET) *)
Lemma go_encoder_Write_run (o : gobj) (p : bytes) (F : nat) :
  gobj_ok en K o -> (30 + I + List.length p / (K * I) <= F)%nat ->
  let r := run2 (ext_bx en) F f_basex_encoder_Write [g_obj en o; VBytes p] in
  let '(n, er, o', p') := gw_write en K o p in
  fst r = ORet [VInt (Z.of_nat n); g_werr er] /\ lookup "e" (snd r) = Some (g_obj en o') /\ lookup "p" (snd r) = Some (VBytes p').
Proof.
  intros (Hbuf & Hout & Hnb) HF.
  remember (List.length p / (K * I)) as q eqn:Hq.
  do 30 (destruct F as [|F]; [lia|]).
  assert (HF1 : I <= F) by lia.
  assert (HF2 : List.length p / I <= (F + 1) * K).
  { assert (H : List.length p / I / K <= F) by (rewrite Nat.div_div by lia; rewrite (Nat.mul_comm I K); lia).
    apply div_bound in H; lia. }
  clear HF Hq q.
  destruct o as [er buf nb out [log sched]]. cbn [go_err go_buf go_nbuf go_out go_w] in *.
  cbv zeta. start5 f_basex_encoder_Write.
  unfold g_obj, gw_write. cbn [go_err go_buf go_nbuf go_out go_w].
  name_run R HR. run_hyp5 (ext_bx en) HR.
  destruct er as [x|].
  { hr_simpl HR. run_hyp5 (ext_bx en) HR. subst R. cbn. repeat split; reflexivity. }
  hr_simpl HR. run_hyp5 (ext_bx en) HR.
  specialize (Hnb eq_refl).
  destruct (Nat.ltb 0 nb) eqn:Enb.
  2:{ apply Nat.ltb_ge in Enb. assert (nb = 0) by lia. subst nb. 
      run_hyp5 (ext_bx en) HR.
      unfold gw_tail. cbn [go_out go_w go_buf go_nbuf].
      lazymatch type of HR with
      | for_loop2 _ (S (S (S (S (S (S (S (S (S (S ?f0)))))))))) _ _ _ ?n0 _ = _ =>
        pose proof (interior_loop en K Hibl HK buf 0 None f0 Hbuf (S (List.length p)) n0 p 0 out (mkWr log sched) None
                    ltac:(apply Nat.lt_succ_r, Nat.div_le_upper_bound; nia) ltac:(lia) ltac:(cbn [Nat.sub]; nia) Hout) as HL
      end.
      destruct (tail_res buf 0 (gw_loop en K (S (List.length p)) p 0 out (mkWr log sched))) as [[[n' er'] o'] p'] eqn:Etr.
      destruct HL as (env' & HL & H1 & H2).
      assert (HR' : R = CRet [VInt (Z.of_nat n'); g_werr er'] env') by (rewrite <- HR; exact HL).
      clear HR. subst R. cbn [fst snd]. repeat split; assumption. }
  apply Nat.ltb_lt in Enb. assert (Hz : (0 <? Z.of_nat nb)%Z = true) by lia.
  run_hyp5 (ext_bx en) HR.
  (* the leading-fringe loop *)
  remember (Nat.min (List.length p) (I - nb)) as k eqn:Hk.
  remember (firstn nb buf ++ firstn k p ++ skipn (nb + k) buf) as buf' eqn:Hbuf'.
  assert (Hbl : List.length buf' = I).
  { subst buf'. rewrite !app_length, !firstn_length, skipn_length. lia. }
  lazymatch type of HR with
  | context [for_loop2 ?x ?ff ?c ?b ?rest ?n0 ?e0] =>
    lazymatch ff with
    | S (S (S (S ?f0))) =>
      let envx := eval cbv [env_fr g_wr w_log w_sched g_enc] in (env_fr en (g_wr (mkWr log sched)) out p buf' (nb + k) k) in
      assert (E : for_loop2 x ff c b rest n0 e0 = exec2 (ext_bx en) (S (S (S (S f0)))) envx [])
        by (etransitivity;
            [exact (fringe_loop en K Hibl HK (g_wr (mkWr log sched)) out p f0 [] (I - nb) buf nb 0 n0 ltac:(lia) ltac:(lia) Hbuf)|];
            rewrite (gw_fill_closed en K Hibl HK p (I - nb) buf nb 0 ltac:(lia) Hbuf ltac:(lia)); cbv beta iota zeta;
            rewrite Nat.sub_0_r, skipn_O, Nat.add_0_l, <- Hk, <- Hbuf'; reflexivity);
      rewrite E in HR; clear E
    end
  end.
  run_hyp5 (ext_bx en) HR.
  assert (Hkp : k <= List.length p) by lia.
  rewrite Nat2Z.id, (firstn_rest p k Hkp) in HR.
  destruct (Nat.ltb (nb + k) I) eqn:Efull.
  { apply Nat.ltb_lt in Efull. run_hyp5 (ext_bx en) HR. subst R. cbn. repeat split; reflexivity. }
  apply Nat.ltb_ge in Efull. run_hyp5 (ext_bx en) HR.
  pose proof (obl_nat_pos en Hibl) as HO.
  remember (BaseX.encode en buf') as enc eqn:Henc.
  assert (Hencl : List.length enc = O).
  { subst enc. rewrite (encode_whole_length en Hibl 1 buf') by lia. lia. }
  assert (Hfit : Nat.leb (List.length enc) (List.length out) = true) by (apply Nat.leb_le; nia).
  pose proof (put_out_length out enc (proj1 (Nat.leb_le _ _) Hfit)) as Hpl.
  run_hyp5 (ext_bx en) HR.
  assert (Hsl : firstn (Z.to_nat (Z.of_nat O - 0)) (skipn 0 (put_out out enc)) = enc)
    by (rewrite Z.sub_0_r, Nat2Z.id, skipn_O, <- Hencl; apply put_out_firstn).
  rewrite Hsl in HR.
  destruct sched as [|[x|] sched]; hr_simpl HR; run_hyp5 (ext_bx en) HR; cbn [wr_write w_sched w_log].
  2:{ subst R. cbn. unfold g_wr. cbn [w_log w_sched map]. rewrite map_app. repeat split; reflexivity. }
  all: assert (Hma : map VBytes log ++ [VBytes enc] = map VBytes (log ++ [enc])) by (rewrite map_app; reflexivity).
  all: rewrite Z.add_0_l, Hma in HR.
  all: unfold gw_tail; cbn [go_out go_w go_buf go_nbuf].
  all: assert (Hdl : List.length (skipn k p) / I <= List.length p / I) by (apply Nat.div_le_mono; [lia|rewrite skipn_length; lia]).
  all: lazymatch type of HR with
      | for_loop2 _ (S (S (S (S (S (S (S (S (S (S ?f0)))))))))) _ _ _ ?n0 _ = _ =>
        lazymatch goal with
        | |- context [gw_loop en K _ _ _ _ ?w0] =>
          pose proof (interior_loop en K Hibl HK buf' 0 (Some (Z.of_nat k)) f0 Hbl (S (List.length (skipn k p))) n0 (skipn k p) k
                        (put_out out enc) w0 None
                        ltac:(apply Nat.lt_succ_r, Nat.div_le_upper_bound; nia) ltac:(lia) ltac:(cbn [Nat.sub]; nia) ltac:(lia)) as HL
        end
      end.
  all: destruct (tail_res buf' 0 _) as [[[n' er'] o'] p'] eqn:Etr.
  all: destruct HL as (env' & HL & H1 & H2).
  all: assert (HR' : R = CRet [VInt (Z.of_nat n'); g_werr er'] env') by (rewrite <- HR; exact HL).
  all: clear HR; subst R; cbn [fst snd]; repeat split; assumption.
Qed.
End BxProofs3.


(* hand the calls to the writer, in order, until one fails: (calls made, error, writer afterwards) *)
Fixpoint run_calls (calls : list bytes) (w : wr) : nat * option string * wr :=
  match calls with
  | [] => (0, None, w)
  | c :: t =>
    let (er, w') := wr_write w c in
    match er with
    | Some x => (1, Some x, w')
    | None => let '(j, e, w'') := run_calls t w' in (S j, e, w'')
    end
  end.

Lemma chunks_nil (f m : nat) : chunks f m [] = [].
Proof. destruct f; reflexivity. Qed.
Lemma chunks_irrel (m : nat) : 0 < m -> forall f1 f2 l, List.length l <= f1 -> List.length l <= f2 -> chunks f1 m l = chunks f2 m l.
Proof.
  intros Hm. induction f1 as [|f1 IH]; intros f2 l H1 H2.
  - destruct l; [|cbn in H1; lia]. rewrite !chunks_nil. reflexivity.
  - destruct l as [|b l]; [rewrite !chunks_nil; reflexivity|].
    destruct f2 as [|f2]; [cbn in H2; lia|]. cbn [chunks]. f_equal.
    apply IH; rewrite skipn_length; cbn [List.length] in *; lia.
Qed.
Lemma chunks_cons (m : nat) (a b : bytes) : 0 < m -> a <> [] -> (List.length a = m \/ (List.length a <= m /\ b = [])) ->
  chunks (List.length (a ++ b)) m (a ++ b) = a :: chunks (List.length b) m b.
Proof.
  intros Hm Ha Hl.
  destruct (a ++ b) as [|c t] eqn:Eab; [destruct a; [congruence|discriminate]|].
  cbn [List.length chunks]. rewrite <- Eab.
  assert (Hf : firstn m (a ++ b) = a).
  { destruct Hl as [Hl|[Hl ->]].
    - rewrite firstn_app, Hl, Nat.sub_diag. cbn [firstn]. rewrite app_nil_r. rewrite <- Hl. apply firstn_all.
    - rewrite app_nil_r. apply firstn_all2. exact Hl. }
  assert (Hs : skipn m (a ++ b) = b).
  { destruct Hl as [Hl|[Hl ->]].
    - rewrite skipn_app, Hl, Nat.sub_diag. cbn [skipn]. rewrite <- Hl, skipn_all. reflexivity.
    - rewrite app_nil_r. apply skipn_all2. exact Hl. }
  rewrite Hf, Hs. f_equal.
  apply chunks_irrel; [exact Hm| |lia].
  assert (List.length (c :: t) = List.length a + List.length b) by (rewrite <- Eab; apply app_length).
  cbn [List.length] in H. destruct a; [congruence|]. cbn [List.length] in H. lia.
Qed.

Lemma firstn_add_split {A} (a b : nat) (l : list A) : firstn (a + b) l = firstn a l ++ firstn b (skipn a l).
Proof.
  revert l. induction a as [|a IH]; intros l; [reflexivity|].
  destruct l as [|x l]; [rewrite firstn_nil; destruct b; reflexivity|].
  cbn [Nat.add firstn skipn app]. f_equal. apply IH.
Qed.

Section BxModel.
Variable en : encoding.
Variable K : nat.
Local Notation I := (ibl_nat en).
Local Notation O := (obl_nat en).
Hypothesis Hibl : (0 < I)%nat.
Hypothesis HK : (1 <= K)%nat.

Definition whole_of (p : bytes) : nat := List.length p / I * I.
Definition calls_of (l : bytes) : list bytes := chunks (List.length l) (K * O) l.

Lemma gw_loop_calls : forall (fuel : nat) (p : bytes) (nacc : nat) (out : bytes) (w : wr),
  List.length p / I < fuel -> List.length out = K * O ->
  let calls := calls_of (BaseX.encode en (firstn (whole_of p) p)) in
  let '(j, erm, wm) := run_calls calls w in
  match gw_loop en K fuel p nacc out w with
  | inl (n, x, out', w', p') => erm = Some x /\ w' = wm /\ n = nacc + (j - 1) * (K * I) /\ List.length out' = K * O /\ 1 <= j
  | inr (p', n, out', w') => erm = None /\ w' = wm /\ n = nacc + whole_of p /\ p' = skipn (whole_of p) p /\ List.length out' = K * O
  end.
Proof.
  pose proof (obl_nat_pos en Hibl) as HO.
  induction fuel as [|fuel IH]; intros p nacc out w Hfuel Hout; [inversion Hfuel|].
  cbv zeta. cbn [gw_loop].
  pose proof (Nat.mod_upper_bound (List.length p) I ltac:(lia)) as Hmod.
  pose proof (Nat.div_mod (List.length p) I ltac:(lia)) as Hdm.
  destruct (Nat.leb I (List.length p)) eqn:Ege.
  2:{ apply Nat.leb_gt in Ege. assert (Hb0 : List.length p / I = 0) by (apply Nat.div_small; lia).
      unfold whole_of. rewrite Hb0. cbn [Nat.mul firstn skipn]. rewrite enc_nil. unfold calls_of. cbn [List.length chunks run_calls].
      repeat split; try reflexivity; try lia. }
  apply Nat.leb_le in Ege.
  assert (Hb1 : 1 <= List.length p / I) by (apply Nat.div_le_lower_bound; lia).
  remember (Nat.min (K * I) (List.length p - List.length p mod I)) as nn eqn:Hnn.
  assert (Hnn_mul : nn = Nat.min K (List.length p / I) * I).
  { rewrite Hnn. replace (List.length p - List.length p mod I) with (List.length p / I * I) by lia.
    rewrite Nat.mul_min_distr_r. reflexivity. }
  set (m := Nat.min K (List.length p / I)) in *.
  assert (Hm1 : 1 <= m) by (unfold m; lia).
  assert (Hnn_le : nn <= List.length p) by nia.
  remember (BaseX.encode en (firstn nn p)) as enc eqn:Henc.
  assert (Hencl : List.length enc = m * O).
  { subst enc. apply (encode_whole_length en Hibl). rewrite firstn_length. lia. }
  assert (Hdiv : List.length (skipn nn p) / I = List.length p / I - m).
  { rewrite skipn_length. replace (List.length p - nn) with (List.length p mod I + (List.length p / I - m) * I) by nia.
    rewrite Nat.div_add by lia. rewrite Nat.div_small by lia. lia. }
  assert (Hwh : whole_of p = nn + whole_of (skipn nn p)).
  { unfold whole_of. rewrite Hdiv. nia. }
  assert (HE : BaseX.encode en (firstn (whole_of p) p) = enc ++ BaseX.encode en (firstn (whole_of (skipn nn p)) (skipn nn p))).
  { rewrite Hwh, firstn_add_split. subst enc. apply (encode_app_aligned en (Hibl_N en Hibl) m). rewrite firstn_length, Nat.min_l by exact Hnn_le. exact Hnn_mul. }
  assert (Hcalls : calls_of (BaseX.encode en (firstn (whole_of p) p))
                   = enc :: calls_of (BaseX.encode en (firstn (whole_of (skipn nn p)) (skipn nn p)))).
  { rewrite HE. unfold calls_of. apply chunks_cons; [nia| |].
    - intros E. rewrite E in Hencl. cbn in Hencl. nia.
    - destruct (Nat.leb K (List.length p / I)) eqn:EK.
      + apply Nat.leb_le in EK. left. rewrite Hencl. unfold m. rewrite Nat.min_l by lia. reflexivity.
      + apply Nat.leb_gt in EK. right. split; [rewrite Hencl; nia|].
        assert (Hw0 : whole_of (skipn nn p) = 0) by (unfold whole_of; rewrite Hdiv; unfold m; rewrite Nat.min_r by lia; lia).
        rewrite Hw0. cbn [firstn]. apply enc_nil. }
  rewrite Hcalls. cbn [run_calls].
  destruct (wr_write w enc) as [[x|] w'] eqn:Ew.
  - repeat split; try reflexivity; try lia. rewrite put_out_length; [exact Hout|nia].
  - specialize (IH (skipn nn p) (nacc + nn) (put_out out enc) w' ltac:(lia) ltac:(rewrite put_out_length; [exact Hout|nia])).
    cbv zeta in IH.
    destruct (run_calls (calls_of (BaseX.encode en (firstn (whole_of (skipn nn p)) (skipn nn p)))) w') as [[j erm] wm].
    destruct (gw_loop en K fuel (skipn nn p) (nacc + nn) (put_out out enc) w') as [[[[[n x] out'] w''] p']|[[[p' n] out'] w'']] eqn:Eg.
    + destruct IH as (H1 & H2 & H3 & H4 & H5). repeat split; try assumption; try lia.
      (* the failing call was made by a later iteration: this one wrote a full K-block chunk *)
      assert (Hfull : nn = K * I).
      { destruct fuel as [|fuel']; [cbn in Eg; discriminate|]. cbn [gw_loop] in Eg.
        destruct (Nat.leb I (List.length (skipn nn p))) eqn:E2; [|discriminate].
        apply Nat.leb_le in E2.
        assert (1 <= List.length (skipn nn p) / I) by (apply Nat.div_le_lower_bound; lia).
        rewrite Hnn_mul. unfold m. rewrite Nat.min_l by lia. reflexivity. }
      rewrite H3, Hfull. cbn [Nat.sub]. rewrite Nat.sub_0_r. destruct j as [|j]; [lia|]. cbn [Nat.sub]. rewrite Nat.sub_0_r. lia.
    + destruct IH as (H1 & H2 & H3 & H4 & H5). repeat split; try assumption.
      * rewrite H3, Hwh. lia.
      * rewrite H4, Hwh, skipn_add. f_equal. lia.
Qed.

Lemma calls_of_small (a : bytes) : a <> [] -> List.length a <= K * O -> calls_of a = [a].
Proof.
  intros Ha Hl. pose proof (obl_nat_pos en Hibl) as HO.
  unfold calls_of. rewrite <- (app_nil_r a) at 1 2.
  rewrite chunks_cons; [reflexivity|nia|exact Ha|right; split; [exact Hl|reflexivity]].
Qed.
Lemma calls_of_nil : calls_of [] = [].
Proof. reflexivity. Qed.
Lemma go_calls_app (a b : list bytes) : go_calls en K (a ++ b) = go_calls en K a ++ go_calls en K b.
Proof. unfold go_calls. apply flat_map_app. Qed.
Lemma go_calls_one (a : bytes) : go_calls en K [a] = calls_of a.
Proof. unfold go_calls, calls_of. cbn [flat_map]. apply app_nil_r. Qed.

Lemma stage2_calls (w1 : list bytes) (p1 : bytes) :
  go_calls en K (fst (bx_stage2 en w1 p1)) = go_calls en K w1 ++ calls_of (BaseX.encode en (firstn (whole_of p1) p1)) /\
  snd (bx_stage2 en w1 p1) = skipn (whole_of p1) p1.
Proof.
  unfold bx_stage2, whole_of. cbv zeta. change (N.to_nat (enc_ibl en)) with I.
  destruct (List.length p1 / I * I) as [|n] eqn:E; cbn [fst snd].
  - cbn [firstn skipn]. rewrite enc_nil, calls_of_nil, app_nil_r. split; reflexivity.
  - rewrite go_calls_app, go_calls_one. split; reflexivity.
Qed.

Lemma run_calls_app (a b : list bytes) : forall w,
  run_calls (a ++ b) w =
  (let '(j, e, w') := run_calls a w in
   match e with
   | Some _ => (j, e, w')
   | None => let '(j2, e2, w2) := run_calls b w' in (j + j2, e2, w2)
   end).
Proof.
  induction a as [|c a IH]; intros w; cbn [app run_calls].
  - destruct (run_calls b w) as [[j2 e2] w2]. reflexivity.
  - destruct (wr_write w c) as [[x|] w1]; [reflexivity|].
    rewrite IH. destruct (run_calls a w1) as [[j e] w']. destruct e; [reflexivity|].
    destruct (run_calls b w') as [[j2 e2] w2]. reflexivity.
Qed.

(* what run_calls does to the writer: the calls made are appended to the log, as many schedule entries are used *)
Lemma run_calls_log (calls : list bytes) : forall w,
  let '(j, e, w') := run_calls calls w in
  w_log w' = w_log w ++ firstn j calls /\ w_sched w' = skipn j (w_sched w) /\ j <= List.length calls /\
  (e = None -> j = List.length calls).
Proof.
  induction calls as [|c t IH]; intros w; cbn [run_calls].
  - cbn [firstn skipn List.length]. rewrite app_nil_r. auto.
  - unfold wr_write. destruct (w_sched w) as [|er s] eqn:Es.
    + specialize (IH (mkWr (w_log w ++ [c]) [])).
      destruct (run_calls t (mkWr (w_log w ++ [c]) [])) as [[j e] w']. cbn [w_log w_sched] in IH.
      destruct IH as (H1 & H2 & H3 & H4). cbn [firstn skipn List.length]. rewrite H1, H2, <- app_assoc.
      repeat split; try reflexivity; try lia; try (rewrite ?Es, ?skipn_nil; reflexivity); try (intros He; rewrite (H4 He); reflexivity).
    + destruct er as [x|].
      * cbn [w_log w_sched firstn skipn List.length]. repeat split; try reflexivity; try lia; try (rewrite ?Es; reflexivity); try discriminate.
      * specialize (IH (mkWr (w_log w ++ [c]) s)).
        destruct (run_calls t (mkWr (w_log w ++ [c]) s)) as [[j e] w']. cbn [w_log w_sched] in IH.
        destruct IH as (H1 & H2 & H3 & H4). cbn [firstn skipn List.length]. rewrite H1, H2, <- app_assoc.
        repeat split; try reflexivity; try lia; try (rewrite ?Es; reflexivity); try (intros He; rewrite (H4 He); reflexivity).
Qed.

(* (TARGET) *)
Lemma gw_write_model (o : gobj) (p : bytes) : gobj_ok en K o -> go_err o = None ->
  let mb := firstn (go_nbuf o) (go_buf o) in
  let '(ws, mb') := bxe_write en mb p in
  let '(j, erm, wm) := run_calls (go_calls en K ws) (go_w o) in
  let '(n, er, o', p') := gw_write en K o p in
  er = erm /\ go_w o' = wm /\ go_err o' = er /\
  match er with
  | None => n = List.length p /\ go_nbuf o' = List.length mb' /\
            firstn (go_nbuf o') (go_buf (pending_copy o' p')) = mb' /\ gobj_ok en K (pending_copy o' p')
  | Some _ => n = (if Nat.ltb 0 (go_nbuf o) then I - go_nbuf o else 0)
                  + (j - 1 - (if Nat.ltb 0 (go_nbuf o) then 1 else 0)) * (K * I)
  end.
Proof.
  intros (Hbuf & Hout & Hnb) Herr. specialize (Hnb Herr).
  pose proof (obl_nat_pos en Hibl) as HO.
  destruct o as [er buf nb out w]. cbn [go_err go_buf go_nbuf go_out go_w] in *. subst er.
  cbv zeta. unfold gw_write. cbn [go_err go_buf go_nbuf go_out go_w].
  destruct (Nat.ltb 0 nb) eqn:Enb.
  2:{ apply Nat.ltb_ge in Enb. assert (nb = 0) by lia. subst nb. cbn [firstn].
      rewrite bxe_write_nil.
      destruct (stage2_calls [] p) as [Hc Hs].
      destruct (bx_stage2 en [] p) as [ws mb']. cbn [fst snd] in Hc, Hs. rewrite Hc. cbn [go_calls flat_map app].
      unfold gw_tail. cbn [go_err go_buf go_nbuf go_out go_w].
      pose proof (gw_loop_calls (S (List.length p)) p 0 out w ltac:(apply Nat.lt_succ_r, Nat.div_le_upper_bound; nia) Hout) as HL.
      cbv zeta in HL.
      destruct (run_calls (calls_of (BaseX.encode en (firstn (whole_of p) p))) w) as [[j erm] wm].
      destruct (gw_loop en K (S (List.length p)) p 0 out w) as [[[[[n x] out'] w''] p']|[[[p' n] out'] w'']]; cbn [tail_res].
      - destruct HL as (H1 & H2 & H3 & H4 & H5). cbn [go_err go_w]. split; [congruence|]. split; [congruence|]. split; [reflexivity|]. rewrite H3. lia.
      - destruct HL as (H1 & H2 & H3 & H4 & H5). unfold pending_copy. cbn [go_err go_w go_nbuf go_buf go_out].
        assert (Hlp : List.length p' < I).
        { rewrite H4, skipn_length. unfold whole_of.
          pose proof (Nat.mod_upper_bound (List.length p) I ltac:(lia)). pose proof (Nat.div_mod (List.length p) I ltac:(lia)). nia. }
        split; [congruence|]. split; [congruence|]. split; [reflexivity|].
        split; [|split; [|split]].
        + rewrite H3, H4, skipn_length. unfold whole_of. pose proof (Nat.div_mod (List.length p) I ltac:(lia)). nia.
        + rewrite Hs, H4. reflexivity.
        + rewrite firstn_app, Nat.sub_diag, firstn_all. cbn [firstn]. rewrite app_nil_r. rewrite Hs, H4. reflexivity.
        + unfold gobj_ok. cbn [go_buf go_out go_err go_nbuf]. split; [|split].
          * rewrite app_length, skipn_length. lia.
          * exact H5.
          * intros _. exact Hlp. }
  apply Nat.ltb_lt in Enb.
  remember (firstn nb buf) as mb eqn:Hmb.
  assert (Hmbl : List.length mb = nb) by (subst mb; rewrite firstn_length; lia).
  destruct mb as [|b0 mb0]; [cbn in Hmbl; lia|].
  rewrite bxe_write_cons. cbv zeta. change (N.to_nat (enc_ibl en)) with I. rewrite Hmbl.
  remember (Nat.min (List.length p) (I - nb)) as k eqn:Hk.
  assert (Hfk : firstn (I - nb) p = firstn k p).
  { destruct (Nat.leb (List.length p) (I - nb)) eqn:E.
    - apply Nat.leb_le in E. rewrite !firstn_all2 by lia. reflexivity.
    - apply Nat.leb_gt in E. f_equal. lia. }
  rewrite Hfk.
  remember ((b0 :: mb0) ++ firstn k p) as filled eqn:Hfilled.
  assert (Hfl : List.length filled = nb + k).
  { subst filled. rewrite app_length, firstn_length, Hmbl. lia. }
  replace ((b0 :: mb0) ++ firstn k p ++ skipn (nb + k) buf) with (filled ++ skipn (nb + k) buf)
    by (subst filled; rewrite <- app_assoc; reflexivity).
  rewrite Hfl.
  destruct (Nat.ltb (nb + k) I) eqn:Efull.
  { apply Nat.ltb_lt in Efull. cbn [go_calls flat_map run_calls].
    assert (Hkp : k = List.length p) by lia.
    assert (Hsk : skipn k p = []) by (apply skipn_all2; lia).
    rewrite Hsk. unfold pending_copy. cbn [go_err go_buf go_nbuf go_out go_w app List.length skipn].
    split; [reflexivity|]. split; [reflexivity|]. split; [reflexivity|].
    split; [exact Hkp|]. split; [symmetry; exact Hfl|]. split.
    - rewrite <- Hfl, firstn_app, Nat.sub_diag, firstn_all. cbn [firstn]. apply app_nil_r.
    - unfold gobj_ok. cbn [go_buf go_out go_err go_nbuf]. split; [|split; [exact Hout|intros _; exact Efull]].
      rewrite app_length, skipn_length. lia. }
  apply Nat.ltb_ge in Efull.
  assert (HkI : k = I - nb) by lia.
  assert (Hsk0 : skipn (nb + k) buf = []) by (apply skipn_all2; lia).
  rewrite Hsk0, app_nil_r. rewrite <- HkI.
  remember (BaseX.encode en filled) as enc eqn:Henc.
  assert (Hencl : List.length enc = O).
  { subst enc. rewrite (encode_whole_length en Hibl 1 filled) by lia. lia. }
  destruct (stage2_calls [enc] (skipn k p)) as [Hc Hs].
  destruct (bx_stage2 en [enc] (skipn k p)) as [ws mb']. cbn [fst snd] in Hc, Hs. rewrite Hc.
  rewrite go_calls_one, calls_of_small by (try (intros E; rewrite E in Hencl; cbn in Hencl; lia); nia).
  cbn [app run_calls].
  destruct (wr_write w enc) as [[x|] w1].
  { cbn [go_err go_w]. split; [reflexivity|]. split; [reflexivity|]. split; [reflexivity|]. cbn [Nat.sub Nat.mul]. lia. }
  unfold gw_tail. cbn [go_err go_buf go_nbuf go_out go_w].
  assert (Hout1 : List.length (put_out out enc) = K * O) by (rewrite put_out_length; [exact Hout|nia]).
  pose proof (gw_loop_calls (S (List.length (skipn k p))) (skipn k p) k (put_out out enc) w1
                ltac:(apply Nat.lt_succ_r, Nat.div_le_upper_bound; nia) Hout1) as HL.
  cbv zeta in HL.
  destruct (run_calls (calls_of (BaseX.encode en (firstn (whole_of (skipn k p)) (skipn k p)))) w1) as [[j erm] wm].
  assert (Hlsk : List.length (skipn k p) = List.length p - k) by apply skipn_length.
  assert (Hkp : k <= List.length p) by lia.
  destruct (gw_loop en K (S (List.length (skipn k p))) (skipn k p) k (put_out out enc) w1)
    as [[[[[n x] out'] w''] p']|[[[p' n] out'] w'']]; cbn [tail_res].
  - destruct HL as (H1 & H2 & H3 & H4 & H5). cbn [go_err go_w].
    split; [congruence|]. split; [congruence|]. split; [reflexivity|]. rewrite H3. destruct j as [|j]; [lia|]. cbn [Nat.sub]. lia.
  - destruct HL as (H1 & H2 & H3 & H4 & H5). unfold pending_copy. cbn [go_err go_w go_nbuf go_buf go_out].
    assert (Hlp : List.length p' < I).
    { rewrite H4, skipn_length. unfold whole_of.
      pose proof (Nat.mod_upper_bound (List.length (skipn k p)) I ltac:(lia)).
      pose proof (Nat.div_mod (List.length (skipn k p)) I ltac:(lia)). nia. }
    split; [congruence|]. split; [congruence|]. split; [reflexivity|].
    split; [|split; [|split]].
    + rewrite H3, H4, skipn_length. unfold whole_of. pose proof (Nat.div_mod (List.length (skipn k p)) I ltac:(lia)). nia.
    + rewrite Hs, H4. reflexivity.
    + rewrite firstn_app, Nat.sub_diag, firstn_all. cbn [firstn]. rewrite app_nil_r. rewrite Hs, H4. reflexivity.
    + unfold gobj_ok. cbn [go_buf go_out go_err go_nbuf]. split; [|split].
      * rewrite app_length, skipn_length. lia.
      * exact H5.
      * intros _. exact Hlp.
Qed.


(* (TARGET) *)
Lemma gw_close_model (o : gobj) : gobj_ok en K o -> go_err o = None ->
  let mb := firstn (go_nbuf o) (go_buf o) in
  let '(j, erm, wm) := run_calls (bxe_close en mb) (go_w o) in
  let (er, o') := gw_close en o in
  er = erm /\ go_w o' = wm /\ go_err o' = er /\ go_nbuf o' = 0 /\ go_buf o' = go_buf o /\ List.length (go_out o') = K * O.
Proof.
  intros (Hbuf & Hout & Hnb) Herr. specialize (Hnb Herr).
  pose proof (obl_nat_pos en Hibl) as HO.
  destruct o as [er buf nb out w]. cbn [go_err go_buf go_nbuf go_out go_w] in *. subst er.
  cbv zeta. unfold gw_close. cbn [go_err go_buf go_nbuf go_out go_w].
  destruct (Nat.ltb 0 nb) eqn:Enb.
  2:{ apply Nat.ltb_ge in Enb. assert (nb = 0) by lia. subst nb. cbn [firstn bxe_close run_calls go_err go_w go_nbuf go_buf go_out].
      repeat split; try reflexivity. exact Hout. }
  apply Nat.ltb_lt in Enb.
  remember (firstn nb buf) as mb eqn:Hmb.
  assert (Hmbl : List.length mb = nb) by (subst mb; rewrite firstn_length; lia).
  destruct mb as [|b0 mb0]; [cbn in Hmbl; lia|].
  cbn [bxe_close run_calls].
  destruct (encode_short_length en Hibl (b0 :: mb0) ltac:(discriminate) ltac:(lia)) as [_ Hle].
  destruct (wr_write w (BaseX.encode en (b0 :: mb0))) as [[x|] w1]; cbn [go_err go_w go_nbuf go_buf go_out];
    (repeat split; try reflexivity; rewrite put_out_length; [exact Hout|nia]).
Qed.

End BxModel.

(* ---------- the source ties in terms of the model ---------- *)
Section BxTargets.
Variable en : encoding.
Variable K : nat.
Local Notation I := (ibl_nat en).
Local Notation O := (obl_nat en).
Hypothesis Hibl : (0 < I)%nat.
Hypothesis HK : (1 <= K)%nat.

(* (TARGET) *)
Theorem go_encoder_Write (o : gobj) (p : bytes) (F : nat) :
  gobj_ok en K o -> go_err o = None -> (30 + I + List.length p / (K * I) <= F)%nat ->
  let r := run2 (ext_bx en) F f_basex_encoder_Write [g_obj en o; VBytes p] in
  let '(ws, mb') := bxe_write en (firstn (go_nbuf o) (go_buf o)) p in
  let '(j, erm, wm) := run_calls (go_calls en K ws) (go_w o) in
  exists (n : nat) (o' : gobj) (p' : bytes),
    fst r = ORet [VInt (Z.of_nat n); g_werr erm] /\
    lookup "e" (snd r) = Some (g_obj en o') /\ lookup "p" (snd r) = Some (VBytes p') /\
    go_w o' = wm /\ go_err o' = erm /\
    match erm with
    | None => n = List.length p /\ go_nbuf o' = List.length mb' /\
              firstn (go_nbuf o') (go_buf (pending_copy o' p')) = mb' /\ gobj_ok en K (pending_copy o' p')
    | Some _ => n = (if Nat.ltb 0 (go_nbuf o) then I - go_nbuf o else 0)
                    + (j - 1 - (if Nat.ltb 0 (go_nbuf o) then 1 else 0)) * (K * I)
    end.
Proof.
  intros Hok Herr HF. cbv zeta.
  pose proof (go_encoder_Write_run en K Hibl HK o p F Hok HF) as H1. cbv zeta in H1.
  pose proof (gw_write_model en K Hibl HK o p Hok Herr) as H2. cbv zeta in H2.
  destruct (bxe_write en (firstn (go_nbuf o) (go_buf o)) p) as [ws mb'].
  destruct (run_calls (go_calls en K ws) (go_w o)) as [[j erm] wm].
  destruct (gw_write en K o p) as [[[n er] o'] p'].
  destruct H1 as (A1 & A2 & A3). destruct H2 as (B1 & B2 & B3 & B4).
  exists n, o', p'. subst er. repeat split; try assumption.
Qed.

(* (TARGET) the sticky error *)
Theorem go_encoder_Write_sticky (o : gobj) (p : bytes) (x : string) (F : nat) :
  gobj_ok en K o -> go_err o = Some x -> (30 + I + List.length p / (K * I) <= F)%nat ->
  let r := run2 (ext_bx en) F f_basex_encoder_Write [g_obj en o; VBytes p] in
  fst r = ORet [VInt 0; VErr x []] /\ lookup "e" (snd r) = Some (g_obj en o).
Proof.
  intros Hok Herr HF. cbv zeta.
  pose proof (go_encoder_Write_run en K Hibl HK o p F Hok HF) as H1. cbv zeta in H1.
  unfold gw_write in H1. rewrite Herr in H1. destruct H1 as (A1 & A2 & A3). split; assumption.
Qed.

(* (TARGET) *)
Theorem go_encoder_Close (o : gobj) (F : nat) :
  gobj_ok en K o -> go_err o = None -> (12 <= F)%nat ->
  let r := run2 (ext_bx en) F f_basex_encoder_Close [g_obj en o] in
  let '(j, erm, wm) := run_calls (bxe_close en (firstn (go_nbuf o) (go_buf o))) (go_w o) in
  exists o' : gobj,
    fst r = ORet [g_werr erm] /\ lookup "e" (snd r) = Some (g_obj en o') /\
    go_w o' = wm /\ go_err o' = erm /\ go_nbuf o' = 0 /\ go_buf o' = go_buf o /\ List.length (go_out o') = K * O.
Proof.
  intros Hok Herr HF. cbv zeta.
  pose proof (go_encoder_Close_run en K Hibl HK o F Hok HF) as H1. cbv zeta in H1.
  pose proof (gw_close_model en K Hibl HK o Hok Herr) as H2. cbv zeta in H2.
  destruct (run_calls (bxe_close en (firstn (go_nbuf o) (go_buf o))) (go_w o)) as [[j erm] wm].
  destruct (gw_close en o) as [er o'].
  destruct H1 as (A1 & A2). destruct H2 as (B1 & B2 & B3 & B4 & B5 & B6). cbn [fst snd] in *.
  exists o'. subst er. repeat split; assumption.
Qed.

(* (TARGET) Close after an error: returns it, nothing is written *)
Theorem go_encoder_Close_sticky (o : gobj) (x : string) (F : nat) :
  gobj_ok en K o -> go_err o = Some x -> (12 <= F)%nat ->
  let r := run2 (ext_bx en) F f_basex_encoder_Close [g_obj en o] in
  fst r = ORet [VErr x []] /\ lookup "e" (snd r) = Some (g_obj en o).
Proof.
  intros Hok Herr HF. cbv zeta.
  pose proof (go_encoder_Close_run en K Hibl HK o F Hok HF) as H1. cbv zeta in H1.
  unfold gw_close in H1. rewrite Herr in H1. cbn [fst snd] in H1. exact H1.
Qed.

End BxTargets.

(* the statements for run_func2 itself (its fuel is 300) and base62 with the 128-block output buffer of NewEncoder *)
(* (TARGET) *)
Corollary go_encoder_Write_300 (en : encoding) (K : nat) (o : gobj) (p : bytes) :
  (0 < ibl_nat en)%nat -> (1 <= K)%nat -> gobj_ok en K o -> go_err o = None ->
  (30 + ibl_nat en + List.length p / (K * ibl_nat en) <= 300)%nat ->
  let r := run_func2 (ext_bx en) f_basex_encoder_Write [g_obj en o; VBytes p] in
  let '(ws, mb') := bxe_write en (firstn (go_nbuf o) (go_buf o)) p in
  let '(j, erm, wm) := run_calls (go_calls en K ws) (go_w o) in
  exists (n : nat) (o' : gobj) (p' : bytes),
    fst r = ORet [VInt (Z.of_nat n); g_werr erm] /\
    lookup "e" (snd r) = Some (g_obj en o') /\ lookup "p" (snd r) = Some (VBytes p') /\
    go_w o' = wm /\ go_err o' = erm /\
    match erm with
    | None => n = List.length p /\ go_nbuf o' = List.length mb' /\
              firstn (go_nbuf o') (go_buf (pending_copy o' p')) = mb' /\ gobj_ok en K (pending_copy o' p')
    | Some _ => n = (if Nat.ltb 0 (go_nbuf o) then ibl_nat en - go_nbuf o else 0)
                    + (j - 1 - (if Nat.ltb 0 (go_nbuf o) then 1 else 0)) * (K * ibl_nat en)
    end.
Proof.
  intros Hibl HK Hok Herr HF. rewrite run_func2_run2. exact (go_encoder_Write en K Hibl HK o p 300 Hok Herr HF).
Qed.

(* (TARGET) *)
Corollary go_encoder_Close_300 (en : encoding) (K : nat) (o : gobj) :
  (0 < ibl_nat en)%nat -> (1 <= K)%nat -> gobj_ok en K o -> go_err o = None ->
  let r := run_func2 (ext_bx en) f_basex_encoder_Close [g_obj en o] in
  let '(j, erm, wm) := run_calls (bxe_close en (firstn (go_nbuf o) (go_buf o))) (go_w o) in
  exists o' : gobj,
    fst r = ORet [g_werr erm] /\ lookup "e" (snd r) = Some (g_obj en o') /\
    go_w o' = wm /\ go_err o' = erm /\ go_nbuf o' = 0 /\ go_buf o' = go_buf o /\ List.length (go_out o') = K * obl_nat en.
Proof.
  intros Hibl HK Hok Herr. rewrite run_func2_run2. exact (go_encoder_Close en K Hibl HK o 300 Hok Herr ltac:(lia)).
Qed.



