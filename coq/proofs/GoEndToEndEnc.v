(* GoEndToEndEnc.v -- END-TO-END round trips AT THE LEVEL OF THE TRANSLATED GO CODE, for encryption (property C01)
   and signcryption (property C03): the three proved layers are composed,
     (S) sender source ties   GoAstProofs5a/5c (encryptStream.init / Write / Close), GoAstProofs6b (signcryptSealStream),
     (M) the model's round trip   EncryptProofs.seal_core_open_roundtrip_strong / seal_core_open_stranger_strong,
                                  SigncryptProofs.signcrypt_core_open_box / signcrypt_core_open_sym,
     (R) receiver source ties  GoAstProofs7c (go_Open, go_NewDecryptStream, go_SigncryptOpen, go_NewSigncryptOpenStream),
   into statements that mention the model only in their hypotheses ("the model's sender returns Ok") and, for the
   attribution, the fields of the model's MessageKeyInfo record that the Go value g_mki encodes.

   THE GO SENDER SESSION.  [go_encrypt_session c es v sender rcpts ra rb rc pieces] RUNS the terms generated from /repo
   (gen/GoAstSend.v) with the evaluator of model/GoLang2.v: run_func2 f_saltpack_encryptStream_init on
   [es; version; sender; receivers; key creator; rng], then run_func2 f_saltpack_encryptStream_Write on [es'; p] for each
   piece p, then run_func2 f_saltpack_encryptStream_Close on [es''] -- the receiver object `es` being read back from the
   final environment of each call and handed to the next one (the evaluator has no heap; this is how 5a states the effect
   of a pointer-receiver method).  Each call runs under the externs of ITS OWN source tie (GoAstProofs5a.ext_init for
   init, ext_stream for Write / Close), instantiated with the in-memory writer [mem_enc] (the encoder object IS the bytes
   written so far, never fails: seal()'s bytes.Buffer).  The result is [Some es_final] iff every call returned a nil
   error (and every Write returned len(p)); an error value, a panic or a stuck evaluator give [None].
   [go_encrypt_out] reads the writer's bytes off the final object ([es_out]).  The same for signcryption:
   [go_signcrypt_session] / [go_signcrypt_out] over gen/GoAstSign.v with GoAstProofs6b.ext_init / ext_wr / mem_enc.
   THE GO RECEIVER.  run_func2 (ext_open c pm vd kr) f_saltpack_Open [VV; VBytes wire; RING] and
   run_func2 (ext_nds c pm vd kr) f_saltpack_NewDecryptStream [VV; rd; RING] (rd any error-free reader holding wire:
   rdr_bytes rd = Some wire), with the externs and encodings of GoAstProofs7c.v (pm, VV, RING arbitrary);
   run_func2 (ext_scopen ..) f_saltpack_SigncryptOpen and (ext_nsos ..) f_saltpack_NewSigncryptOpenStream likewise.
   The conclusions give the OUTCOME VALUE of the evaluator (ORet [MessageKeyInfo; plaintext; nil]) and, as a corollary,
   its class as 7c reads it (open_class / scopen_class).  The "outcome is not the stuck evaluator" hypothesis of
   open_outcome_model / scopen_outcome_model is DISCHARGED: the outcome is computed from the success of the model.

   RANDOMNESS.  The evaluator has no global state: init draws from three explicit sources (ra: rng.shuffleReceivers,
   rb: the ephemeral key creator, rc / rk: rng.createSymmetricKey).  The general theorems quantify over three
   INDEPENDENT sources and assume the three draws succeed; the model's single stream r is the instance
   ra = r, rb = what the shuffle leaves, rc = what the ephemeral key leaves ([model_sources], [sc_model_sources]);
   the bridges [seal_stream_draws] / [signcrypt_seal_stream_draws] turn "seal_stream ... r = Ok (wire, r')" into the
   hypotheses of the general theorems, giving the *_stream theorems.

   TARGETS (all Qed; Print Assumptions: closed under the global context).  ENCRYPTION:
   - es_full_session_model: the SPECIFICATION session (es_init; es_write per piece; es_close: what the translated
       methods compute by go_encryptStream_init / _Write / _Close) over mem_enc, started on a fresh object whose writer
       holds out0, ends with a nil error and the writer holds out0 ++ wire, wire being the model's seal_core on the
       values drawn; also gives the state init leaves.  Hypotheses: ok_sb_len; fresh_es v out0 st0 (version v, encoder over
       out0, empty buffer, counter 0, no stored error; payloadKey / headerHash / macKeys arbitrary); v = v1 \/ v = v2;
       check_receivers rcpts = Ok tt (non-empty, at most 2^32-1, distinct); at most 2^31-1 receivers (beyond,
       csprngShuffle panics: es_init is IStuck); every piece at most 295 MiB (the evaluator's loop bound for one Write);
       the three draws succeed; seal_core c v sender eph pkey rs pieces = Ok wire.
   - go_encrypt_session_model: the same for the GO session: go_encrypt_session returns Some (g_es st') with
       es_enc st' = VBytes (out0 ++ wire), and go_encrypt_out = Some (out0 ++ wire).  Hypotheses: crypto_ok c + the above.
   - go_Open_of_model: for EVERY input, keyring, validator: if the model's open_stream ends cleanly on the input
       (Ok (m, chunks, EOF)) then the translated Open returns ORet [g_mki m k; VBytes (concat chunks); VNil] and the
       translated NewDecryptStream returns ORet [g_mki m k; the chunk reader over the decryptStream object in the state
       st with the remaining input rest; VNil], with k a key OF THE RING whose public half is mki_receiver m, and the
       model's decrypt_loop from (st, rest) releases exactly the chunks.  Hypotheses: none besides rdr_bytes rd = Some input.
   - go_encrypt_end_to_end (three sources) : for every crypto record with crypto_ok, version v1 / v2, named or
       anonymous sender, recipient list accepted by checkEncryptReceivers, plaintext in any split into Write calls of at
       most 295 MiB each, randomness on which the three draws succeed and the model's seal_core returns Ok wire, header
       shorter than 4 GiB (bin32; EncryptProofs needs it), every recipient (dh_pub c sk, hide) of the list, validator
       AnyKnownMajor or Single v, sender key different from the ephemeral key:
       (1) the Go sender session on a fresh object leaves out0 ++ wire in the writer (go_encrypt_out = Some ..), and
       (2) the translated Open on wire under the ring holding that recipient's key returns
           ORet [g_mki m (sk, dh_pub c sk); VBytes (concat pieces); VNil] (class Ok (m, concat pieces)); the translated
           NewDecryptStream returns the same MessageKeyInfo, nil, and the reader over the state from which the model's
           loop releases chunks with concat chunks = concat pieces; mki_sender m = the sender's public key (the ephemeral
           one for an anonymous sender), mki_sender_anon m = anonymous?, mki_receiver m = dh_pub c sk,
           mki_receiver_anon m = hide
       -- or ForeignBoxOpens: another recipient's payload-key box of this very message opens under this recipient's
       shared key (the concrete alternative of EncryptProofs; a secretbox forgery / Curve25519 collision, not excluded by
       functional correctness).  The bound "at most 2^31-1 receivers" is DERIVED from the header bound
       (header_fits_receivers: every receiver entry takes at least 3 bytes).
   - go_encrypt_end_to_end_stream: the same against the model's sender on ONE stream: hypothesis
       seal_stream c v sender rcpts pieces r = Ok (wire, r') (this gives v1/v2, the receivers check and the draws), the
       Go sources being r and model_sources rcpts r; header bound / sender <> ephemeral / ForeignBoxOpens stated on
       model_eph, model_pkey, model_rs (what the model draws from r).
   - go_encrypt_end_to_end_stream_bounded: header bound replaced by: recipient keys of at most 32 bytes, at most
       40 000 000 recipients (EncryptProofs.enc_header_fits).
   - go_encrypt_end_to_end_stranger: under the same sender hypotheses, a ring whose key is none of the recipients':
       Open and NewDecryptStream return ORet [pm wire; VNil; VErr "ErrNoDecryptionKey" []] (no plaintext), or ForeignBoxOpens.
   SIGNCRYPTION (Version 2 only, as newSigncryptSealStream sets it):
   - go_signcrypt_session_model: the Go session (init; Write*; Close of gen/GoAstSign.v) on a fresh object (fresh_sss:
       Version2(), signing key = signer, EMPTY in-memory writer, empty buffer, counter 0, no error) returns
       Some (g_sss st') with ss_enc st' = VBytes wire, wire = the model's signcrypt_core on the values drawn.
       Hypotheses: crypto_ok (ok_sb_len, ok_sig_len); sc_check_receivers boxes syms = Ok tt; pieces of at most 295 MiB;
       the three draws succeed; signcrypt_core c signer eph key rs pieces = Ok wire.
   - go_SigncryptOpen_of_model: for EVERY input: if signcrypt_open_stream ends cleanly (Ok (sg, chunks, EOF)) the
       translated SigncryptOpen returns ORet [g_signer sg; VBytes (concat chunks); VNil] (class Ok (sg, concat chunks)) and
       the translated NewSigncryptOpenStream the signer, the reader over the object holding (payload key, header hash,
       signer, remaining input) and nil, the model's sc_open_loop from there releasing the chunks.  Hypotheses: rdr_bytes.
   - go_signcrypt_end_to_end_box / _sym (three sources), go_signcrypt_end_to_end_box_stream / _sym_stream (the model's
       signcrypt_seal_stream on one stream): sender session leaves wire; the holder of a box key of the list (ring = that
       key; any resolver) -- resp. a holder of no box key whose resolver maps the identifier of a symmetric-key recipient
       of the list to its key and resolves only genuine pairs of this message (resolver_genuine) -- gets from the
       translated SigncryptOpen ORet [signer's public key (nil if anonymous); VBytes (concat pieces); VNil], and from
       the translated NewSigncryptOpenStream the reader whose loop releases the plaintext.  Hypotheses: as above +
       header_fits (header < 4 GiB) + a named signer's public key is in the signer ring and not all zero.  Box case:
       or IdentifierCollision (an identifier at another position equals this key's HMAC-derived identifier there).
   - go_signcrypt_end_to_end_stranger: under the same sender hypotheses, a holder of no recipient key (a box key whose
       derived identifier matches no identifier of the header at its position; a resolver resolving none of them):
       SigncryptOpen and NewSigncryptOpenStream return ORet [VNil; VNil; VErr "ErrNoDecryptionKey" []].

   WHAT IS NOT COVERED (gaps between the layers, stated precisely):
   (1) newEncryptStream / seal / Seal / EncryptArmor62Seal and newSigncryptSealStream / SigncryptSeal are not among the
       translated functions, so the session starts at init on the object the constructor builds (fresh_es / fresh_sss
       describe it; the struct literal itself is not tied), and "Write; ...; Close" is sequenced by go_*_session, not by
       a translated caller.
   (2) Inside Open / SigncryptOpen the callees NewDecryptStream / NewSigncryptOpenStream and io.ReadAll have the
       MODEL's meaning (GoAstProofs7c LIMITS (4)): that reading the returned chunk reader to the end yields the model's
       loop is the meaning of an extern there, its pieces being go_chunkReader_Read and the getNextChunk ties.  For the
       constructors themselves the theorems give the reader OBJECT and prove the model's loop from its state yields the
       plaintext.
   (3) The receiver's keyring is the single-key ring of the model theorems (EncryptProofs / SigncryptProofs state the
       round trip for mkRing [(sk, dh_pub c sk)] None, resp. the empty ring + resolver); the sender-side statements hold
       for every list of recipients and every position.
   (4) Three separate evaluator objects cannot alias one random source; the single-stream reading is model_sources.
   Examples at the end: the translated sender and receiver RUN (vm_compute) on model/ToyCrypto.v, and instances of the
   *_stream theorems with every hypothesis discharged. *)
From Coq Require Import List String NArith ZArith Bool Lia Permutation.
From Coq.Strings Require Import Byte.
From SP Require Import Bytes Consts Params Msgpack Crypto Errors Nonce Packets Chunker Rand Verify Encrypt Decrypt
                       GoLang GoLang2 GoAst RandProofs ChunkerProofs EncryptProofs
                       GoAstProofs GoAstProofs2 GoAstProofs3 GoAstProofs4a GoAstProofs4b.
From SP Require Import GoAstSend GoAstOpen GoAstProofs5a GoAstProofs5c GoAstProofs7c.
Import ListNotations.

(* ================================================================================================ *)
(*                                         ENCRYPTION (C01)                                         *)
(* ================================================================================================ *)

(* ---------- the sender session AT THE LEVEL OF THE TRANSLATED GO METHODS ---------- *)
(* Each step runs the term generated from /repo (gen/GoAstSend.v) with the evaluator of model/GoLang2.v, under
   the externs of its own source tie (GoAstProofs5a.v) instantiated with the in-memory writer mem_enc; the
   receiver object `es` is read back from the final environment and handed to the next call.  [Some es'] means:
   the call returned a nil error (and Write returned len(p)); anything else (an error value, a panic, a stuck
   evaluator) is [None]. *)
Section GoSender.
Variable c : crypto.

Definition go_es_init (es : gval) (v : version) (sender : option bytes) (rcpts : list rcpt) (ra rb rc : rng)
  : option gval :=
  let r := run_func2 (ext_init c mem_enc) f_saltpack_encryptStream_init
                     [es; g_version v; g_sender sender; VList (map g_rcpt rcpts); VBytes rb; g_rng ra rc] in
  match fst r with
  | ORet [VNil] => lookup "es" (snd r)
  | _ => None
  end.

Definition go_es_write (es : gval) (p : bytes) : option gval :=
  let r := run_func2 (ext_stream c mem_enc) f_saltpack_encryptStream_Write [es; VBytes p] in
  match fst r with
  | ORet [VInt n; VNil] => if Z.eqb n (Z.of_nat (List.length p)) then lookup "es" (snd r) else None
  | _ => None
  end.

Definition go_es_close (es : gval) : option gval :=
  let r := run_func2 (ext_stream c mem_enc) f_saltpack_encryptStream_Close [es] in
  match fst r with
  | ORet [VNil] => lookup "es" (snd r)
  | _ => None
  end.

Fixpoint go_es_writes (es : gval) (pieces : list bytes) : option gval :=
  match pieces with
  | [] => Some es
  | p :: t => match go_es_write es p with Some es' => go_es_writes es' t | None => None end
  end.

(* es.init(...); es.Write(p1); ...; es.Write(pn); es.Close() *)
Definition go_encrypt_session (es : gval) (v : version) (sender : option bytes) (rcpts : list rcpt)
           (ra rb rc : rng) (pieces : list bytes) : option gval :=
  match go_es_init es v sender rcpts ra rb rc with
  | Some es1 => match go_es_writes es1 pieces with Some es2 => go_es_close es2 | None => None end
  | None => None
  end.

(* the bytes the in-memory writer behind the encoder of an *encryptStream object holds *)
Definition es_out (es : gval) : option bytes :=
  match as_es es with
  | Some st => match es_enc st with VBytes w => Some w | _ => None end
  | None => None
  end.

(* ... after the whole session *)
Definition go_encrypt_out (es : gval) (v : version) (sender : option bytes) (rcpts : list rcpt)
           (ra rb rc : rng) (pieces : list bytes) : option bytes :=
  match go_encrypt_session es v sender rcpts ra rb rc pieces with Some es' => es_out es' | None => None end.

(* ----- each Go step is its specification function (the (S) ties) ----- *)
Lemma go_es_init_spec (st : es_state) (v : version) (sender : option bytes) (rcpts : list rcpt) (ra rb rc : rng)
      (st' : es_state) (ra' rb' rc' : rng) :
  es_init c mem_enc st v sender rcpts ra rb rc = IRet None st' ra' rb' rc' ->
  go_es_init (g_es st) v sender rcpts ra rb rc = Some (g_es st').
Proof.
  intros H. unfold go_es_init.
  pose proof (go_encryptStream_init c mem_enc st v sender rcpts ra rb rc) as T. cbv zeta in T. rewrite H in T.
  destruct T as (T1 & T2 & _). cbv zeta. rewrite T1. cbn [g_errv]. exact T2.
Qed.

Lemma es_drain_ret (fuel : nat) : forall (st st' : es_state) (ret n : Z),
  es_drain c mem_enc fuel st ret = WRet n None st' -> n = ret.
Proof.
  induction fuel as [|f IH]; intros st st' ret n; cbn [es_drain]; [discriminate|].
  destruct (1048576 <? Z.of_nat (List.length (es_buf st)))%Z.
  - destruct (es_block c mem_enc st false) as [w|[e|] st1]; [discriminate|discriminate|]. apply IH.
  - intros H. injection H as <- _. reflexivity.
Qed.

Lemma es_write_ret (st st' : es_state) (p : bytes) (n : Z) :
  es_write c mem_enc st p = WRet n None st' -> n = Z.of_nat (List.length p).
Proof.
  unfold es_write. destruct (es_err st); [discriminate|]. apply es_drain_ret.
Qed.

Lemma go_es_write_spec (st st' : es_state) (p : bytes) (n : Z) :
  es_write c mem_enc st p = WRet n None st' ->
  go_es_write (g_es st) p = Some (g_es st').
Proof.
  intros H. pose proof (es_write_ret st st' p n H) as Hn. unfold go_es_write.
  pose proof (go_encryptStream_Write c mem_enc st p) as T. cbv zeta in T. rewrite H in T.
  destruct T as (T1 & T2). cbv zeta. rewrite T1. cbn [g_errv]. rewrite Hn, Z.eqb_refl. exact T2.
Qed.

Lemma go_es_close_spec (st st' : es_state) :
  es_close c mem_enc st = CloseRet None st' ->
  go_es_close (g_es st) = Some (g_es st').
Proof.
  intros H. unfold go_es_close.
  pose proof (go_encryptStream_Close c mem_enc st) as T. cbv zeta in T. rewrite H in T.
  destruct T as (T1 & T2). cbv zeta. rewrite T1. cbn [g_errv]. exact T2.
Qed.

(* Write* ; Close in Go = the specification session es_session of GoAstProofs5c.v *)
Lemma go_es_session_spec (pieces : list bytes) : forall (st st' : es_state),
  es_session c st pieces = CloseRet None st' ->
  exists st2, go_es_writes (g_es st) pieces = Some (g_es st2) /\ go_es_close (g_es st2) = Some (g_es st').
Proof.
  induction pieces as [|p t IH]; intros st st' H; cbn [es_session go_es_writes] in *.
  - exists st. split; [reflexivity|]. apply go_es_close_spec. exact H.
  - destruct (es_write c mem_enc st p) as [w|n [e|] st1] eqn:Hw; [discriminate|discriminate|].
    rewrite (go_es_write_spec st st1 p n Hw). apply IH. exact H.
Qed.
End GoSender.

(* ---------- the sender session emits the model sender's bytes ---------- *)
(* a *encryptStream object as newEncryptStream hands it to init: version set, encoder over a writer holding
   [out0], empty buffer, numBlocks 0, no stored error (payloadKey / headerHash / macKeys: whatever; init sets them) *)
Definition fresh_es (v : version) (out0 : bytes) (st : es_state) : Prop :=
  es_v st = v /\ es_enc st = VBytes out0 /\ es_buf st = [] /\ es_n st = 0%N /\ es_err st = None.

Lemma known_version_12 (v : version) : v = v1 \/ v = v2 -> known_version v = true.
Proof. intros [-> | ->]; reflexivity. Qed.

Lemma encrypt_packets_count (c : crypto) (v : version) (pk hh : bytes) (mks : list bytes) (ps : list (bytes * bool)) :
  forall (n : N) (body : bytes),
  encrypt_packets c v pk hh mks n ps = Ok body ->
  ps = [] \/ (n + N.of_nat (List.length ps) <= 18446744073709551615)%N.
Proof.
  induction ps as [|[ch f] t IH]; intros n body H; [left; reflexivity|right].
  cbn [encrypt_packets] in H.
  destruct (block_number_ok n) eqn:Hb; cbn [negb] in H; [|discriminate].
  unfold block_number_ok in Hb. apply N.ltb_lt in Hb.
  destruct (payload_hash c v hh (nonce_chunk_secretbox n) (sb_seal c pk (nonce_chunk_secretbox n) ch) f); [|discriminate].
  destruct (encrypt_packets c v pk hh mks (n + 1) t) as [rest|e] eqn:Ht; cbn [bind] in H; [|discriminate].
  destruct (IH (n + 1)%N rest Ht) as [-> | Hn]; cbn [List.length]; lia.
Qed.

Lemma mapi_from_nonnil {A B} (f : N -> A -> B) (s : N) (l : list A) : l <> [] -> mapi_from f s l <> [].
Proof. destruct l; [congruence|discriminate]. Qed.

Lemma check_receivers_ok (rcpts : list rcpt) :
  check_receivers rcpts = Ok tt ->
  rcpts <> [] /\ NoDup (map fst rcpts) /\ (N.of_nat (List.length rcpts) < 4294967296)%N.
Proof.
  unfold check_receivers. destruct rcpts as [|r0 rc]; [discriminate|].
  remember (r0 :: rc) as rcpts eqn:Er.
  destruct (max_receiver_count <? Z.of_nat (List.length rcpts))%Z eqn:Em; [discriminate|].
  destruct (has_dup (map fst rcpts)) eqn:Ed; [discriminate|]. intros _.
  split; [subst rcpts; discriminate|]. split; [apply has_dup_false; exact Ed|].
  change max_receiver_count with 4294967295%Z in Em. lia.
Qed.

Section EncSender.
Variable c : crypto.
Hypothesis Hsb : forall k n m, List.length (sb_seal c k n m) = (16 + List.length m)%nat.

(* the specification session: init, Write each piece, Close *)
Definition es_full_session (st : es_state) (v : version) (sender : option bytes) (rcpts : list rcpt)
           (ra rb rc : rng) (pieces : list bytes) : cres :=
  match es_init c mem_enc st v sender rcpts ra rb rc with
  | IStuck w => CloseStuck w
  | IRet (Some e) st' _ _ _ => CloseRet (Some e) st'
  | IRet None st' _ _ _ => es_session c st' pieces
  end.

(* (TARGET) the specification session against the model: when the draws succeed (ra: shuffle, rb: ephemeral key,
   rc: payload key) and the model's seal_core on the values drawn gives [wire], the session ends with a nil
   error and the in-memory writer holds what it held before followed by exactly [wire] *)
Theorem es_full_session_model (st0 : es_state) (out0 : bytes) (v : version) (sender : option bytes)
        (rcpts rs : list rcpt) (ra rb rc ra' rb' rc' : rng) (eph pkey : bytes) (pieces : list bytes) (wire : bytes) :
  fresh_es v out0 st0 ->
  v = v1 \/ v = v2 ->
  check_receivers rcpts = Ok tt ->
  (Z.of_nat (List.length rcpts) <= 2147483647)%Z ->
  Forall (fun p : bytes => (List.length p <= 295 * blk)%nat) pieces ->
  shuffle rcpts ra = Some (rs, ra') ->
  read_full 32 rb = Some (eph, rb') ->
  read_full 32 rc = Some (pkey, rc') ->
  seal_core c v sender eph pkey rs pieces = Ok wire ->
  exists st',
    es_init c mem_enc st0 v sender rcpts ra rb rc
    = IRet None (gst v (out0 ++ mp_encode (MBin (enc_header_bytes c v sender eph pkey rs)))%list pkey []
                     (sha512 c (enc_header_bytes c v sender eph pkey rs))
                     (enc_mac_keys c v sender eph (sha512 c (enc_header_bytes c v sender eph pkey rs)) rs) 0)
           ra' rb' rc' /\
    es_full_session st0 v sender rcpts ra rb rc pieces = CloseRet None st' /\
    es_enc st' = VBytes (out0 ++ wire)%list /\ es_buf st' = [] /\ es_err st' = None.
Proof.
  intros Hf Hv Hchk Hlen Hall Hsh Hrb Hrc Hseal.
  destruct st0 as [v0 w0 pk0 buf0 hh0 mks0 n0 e0]. destruct Hf as (F1 & F2 & F3 & F4 & F5).
  cbn [es_v es_enc es_buf es_n es_err] in F1, F2, F3, F4, F5. subst v0 w0 buf0 n0 e0.
  destruct (check_receivers_ok rcpts Hchk) as (Hne & Hnd & Hl32).
  assert (Hinit : es_init c mem_enc (mkEs v (VBytes out0) pk0 [] hh0 mks0 0 None) v sender rcpts ra rb rc
    = IRet None (gst v (out0 ++ mp_encode (MBin (enc_header_bytes c v sender eph pkey rs)))%list pkey []
                     (sha512 c (enc_header_bytes c v sender eph pkey rs))
                     (enc_mac_keys c v sender eph (sha512 c (enc_header_bytes c v sender eph pkey rs)) rs) 0)
           ra' rb' rc').
  { unfold es_init. rewrite (known_version_12 v Hv). cbn [negb].
    unfold check_rcv_err. rewrite Hchk.
    replace (2147483647 <? Z.of_nat (List.length rcpts))%Z with false by lia.
    rewrite Hsh, Hrb, Hrc. cbv zeta. cbn [es_enc es_v es_buf es_mks es_n es_err]. unfold mem_enc. cbn [fst snd].
    unfold gst, enc_header_bytes, enc_mac_keys, sender_mac_keys. reflexivity. }
  rewrite seal_core_unfold in Hseal. cbv zeta in Hseal.
  set (hdr := enc_header_bytes c v sender eph pkey rs) in *.
  set (hh := sha512 c hdr) in *.
  set (mks := enc_mac_keys c v sender eph hh rs) in *.
  destruct (encrypt_packets c v pkey hh mks 0 (plan v enc_block_size (List.concat pieces))) as [body|e] eqn:Hep;
    cbn [bind] in Hseal; [|discriminate].
  assert (Hw : wire = (mp_encode (MBin hdr) ++ body)%list) by (injection Hseal as <-; reflexivity).
  rewrite <- (cw_session_plan v enc_block_size pieces enc_block_size_pos) in Hep.
  rewrite <- blk_enc_block_size in Hep.
  assert (Hperm : Permutation rcpts rs).
  { destruct (shuffle_is_fisher_yates rcpts rs ra ra' Hl32 Hsh) as (js & _ & ->). apply fisher_yates_perm. }
  assert (Hrs : rs <> []).
  { intros ->. apply Permutation_sym, Permutation_nil in Hperm. contradiction. }
  assert (Hm : mks <> []) by (apply mapi_from_nonnil; exact Hrs).
  assert (Hcnt : (0 + N.of_nat (List.length (cw_session v blk [] pieces)) <= 18446744073709551615)%N).
  { destruct (encrypt_packets_count c v pkey hh mks _ 0%N body Hep) as [-> | H]; [cbn; lia|exact H]. }
  destruct (es_session_model c Hsb v pkey hh mks Hv Hm pieces [] (out0 ++ mp_encode (MBin hdr))%list 0%N Hall
              ltac:(cbn [List.length]; lia) ltac:(right; reflexivity) Hcnt) as [Hs He].
  rewrite Hep in He. assert (Hb : body = emit_plan c v pkey hh mks 0 (cw_session v blk [] pieces)) by congruence.
  eexists. split; [exact Hinit|]. split.
  { unfold es_full_session. rewrite Hinit. exact Hs. }
  unfold gst. cbn [es_enc es_buf es_err]. split; [|split; reflexivity].
  rewrite Hw, Hb, <- app_assoc. reflexivity.
Qed.
End EncSender.

(* ---------- the receiver entry points on an input the model's stream opens cleanly ---------- *)
Lemma find_key_in (kr : keyring) (kid : bytes) (k : bytes * bytes) : find_key kr kid = Some k -> In k (kr_keys kr).
Proof. unfold find_key. intros H. apply find_some in H. exact (proj1 H). Qed.

Lemma lookup_box_secret_in (kr : keyring) (kids : list bytes) : forall (i j : nat) (k : bytes * bytes),
  lookup_box_secret kr kids i = Some (j, k) -> In k (kr_keys kr).
Proof.
  induction kids as [|kid t IH]; intros i j k; cbn [lookup_box_secret]; [discriminate|].
  destruct (find_key kr kid) as [k0|] eqn:Hf.
  - intros H. injection H as _ <-. exact (find_key_in kr kid k0 Hf).
  - apply IH.
Qed.

Lemma try_visible_in (c : crypto) (kr : keyring) (v : version) (eph : bytes) (rcvs : list (bytes * bytes))
      (k : bytes * bytes) (key : bytes) (pos : N) :
  try_visible c kr v eph rcvs = Ok (Some (k, key, pos)) -> In k (kr_keys kr).
Proof.
  unfold try_visible.
  destruct (lookup_box_secret kr (map snd (named_with_index rcvs 0)) 0) as [[i k0]|] eqn:Hl; [|discriminate].
  destruct (nth_error (named_with_index rcvs 0) i) as [[orig kid]|]; [|discriminate].
  destruct (nonce_payload_key_box v orig) as [nonce|]; [|discriminate].
  destruct (box_open c (fst k0) eph nonce (snd (nth (N.to_nat orig) rcvs ([], [])))) as [pk|]; [|discriminate].
  destruct (sym_key pk) as [sk|e]; cbn [bind]; [|discriminate].
  intros H. injection H as <- _ _. exact (lookup_box_secret_in kr _ _ _ _ Hl).
Qed.

Lemma try_hidden_in (c : crypto) (keys : list (bytes * bytes)) (v : version) (eph : bytes) (rcvs : list (bytes * bytes))
      (k : bytes * bytes) (key : bytes) (pos : N) :
  try_hidden c keys v eph rcvs = Ok (Some (k, key, pos)) -> In k keys.
Proof.
  induction keys as [|k0 t IH]; cbn [try_hidden]; [discriminate|].
  destruct (try_hidden_boxes c v (dh_shared c (fst k0) eph) rcvs 0) as [[[key0 i]|]|e]; [| |discriminate].
  - intros H. injection H as <- _ _. left. reflexivity.
  - intros H. right. exact (IH H).
Qed.

(* the key object processHeader found is a key of the ring *)
Lemma dec_header_key_in (c : crypto) (kr : keyring) (input : bytes) (k : bytes * bytes) :
  dec_header_key c kr input = Some k -> In k (kr_keys kr).
Proof.
  unfold dec_header_key.
  destruct (read_header_bytes input) as [hr|e]; [|discriminate].
  destruct (decode_header view_enc_header (fst hr)) as [h|e]; [|discriminate].
  unfold enc_found_key.
  destruct (try_visible c kr (h_version h) (h_a h) (h_rcvs h)) as [[[[k0 key] pos]|]|e] eqn:Hv; [| |discriminate].
  - intros H. injection H as <-. exact (try_visible_in c kr _ _ _ _ _ _ Hv).
  - destruct (try_hidden c (kr_keys kr) (h_version h) (h_a h) (h_rcvs h)) as [[[[k0 key] pos]|]|e] eqn:Hh; try discriminate.
    intros H. injection H as <-. exact (try_hidden_in c _ _ _ _ _ _ _ Hh).
Qed.

(* (TARGET) whenever the model's open_stream ends cleanly on an input, the translated Open and the translated
   NewDecryptStream return, as Go values: the model's MessageKeyInfo with a receiver key object OF THE RING whose
   public half is the model's receiver key, the concatenated chunks, a nil error; for the constructor: the chunk
   reader over the decryptStream object in the state the model's loop starts from, and that loop releases the
   chunks.  No "not stuck" hypothesis. *)
Theorem go_Open_of_model (c : crypto) (pm : bytes -> gval) (vd : validator) (kr : keyring) (VV RING rd : gval)
        (wire : bytes) (m : mki) (chunks : list bytes) :
  open_stream c vd kr wire = Ok (m, mkOut chunks EOF) ->
  rdr_bytes rd = Some wire ->
  exists (k : bytes * bytes) (st : dec_state) (rest : bytes),
    In k (kr_keys kr) /\ snd k = mki_receiver m /\
    fst (run_func2 (ext_open c pm vd kr) f_saltpack_Open [VV; VBytes wire; RING])
    = ORet [g_mki m k; VBytes (List.concat chunks); VNil] /\
    fst (run_func2 (ext_nds c pm vd kr) f_saltpack_NewDecryptStream [VV; rd; RING])
    = ORet [g_mki m k; g_cr_new (g_ds_done VV RING (g_mps_raw rest 1) VNil m st k); VNil] /\
    decrypt_loop c (S (List.length rest)) st 0 rest [] = mkOut chunks EOF.
Proof.
  intros Ho Hrd.
  pose proof (open_stream_header c vd kr wire) as Hh. rewrite Ho in Hh.
  destruct (dec_read_header c vd kr wire) as [[[m' st] rest]|e] eqn:Hd; cbn [bind fst snd] in Hh; [|discriminate].
  assert (Hm : m' = m) by congruence. subst m'.
  assert (Hl : decrypt_loop c (S (List.length rest)) st 0 rest [] = mkOut chunks EOF) by congruence.
  destruct (dec_header_key_some c vd kr wire m st rest Hd) as (_ & k & Hk & Hks).
  exists k, st, rest. split; [exact (dec_header_key_in c kr wire k Hk)|]. split; [exact Hks|]. split; [|split; [|exact Hl]].
  - rewrite go_Open. unfold open_outcome. rewrite Ho, Hk. reflexivity.
  - rewrite (go_NewDecryptStream c pm vd kr VV rd RING wire Hrd). unfold nds_outcome. rewrite Hd, Hk. reflexivity.
Qed.

(* ---------- a header shorter than 4 GiB has fewer than 2^31 receivers ---------- *)
Lemma enc_bin_hdr_pos (n : N) : (1 <= List.length (enc_bin_hdr n))%nat.
Proof. unfold enc_bin_hdr. destruct (n <? 256)%N; [cbn; lia|]. destruct (n <? 65536)%N; cbn [List.length]; lia. Qed.

Lemma enc_receiver_ge3 (e : option bytes * bytes) : (3 <= List.length (mp_encode (mv_receiver e)))%nat.
Proof.
  unfold mv_receiver. rewrite MsgpackProofs.mp_encode_arr. cbn [MsgpackProofs.enc_list List.length].
  change (enc_arr_hdr (N.of_nat 2)) with [x92]. rewrite !app_length. cbn [List.length].
  pose proof (enc_bin_hdr_pos (len (snd e))) as H2.
  assert (H1 : (1 <= List.length (mp_encode match fst e with Some kid => MBin kid | None => MNil end))%nat).
  { destruct (fst e) as [kid|]; [|cbn; lia]. cbn [mp_encode]. rewrite app_length. pose proof (enc_bin_hdr_pos (len kid)). lia. }
  cbn [mp_encode]. rewrite app_length. lia.
Qed.

Lemma enc_receivers_ge3 (es : list (option bytes * bytes)) :
  (3 * List.length es <= List.length (MsgpackProofs.enc_list (map mv_receiver es)))%nat.
Proof.
  induction es as [|e t IH]; [cbn; lia|]. cbn [map MsgpackProofs.enc_list List.length]. rewrite app_length.
  pose proof (enc_receiver_ge3 e). lia.
Qed.

Lemma header_fits_receivers (c : crypto) (v : version) (sender : option bytes) (eph pkey : bytes) (rs : list rcpt) :
  (len (enc_header_bytes c v sender eph pkey rs) < 4294967296)%N -> (Z.of_nat (List.length rs) <= 2147483647)%Z.
Proof.
  unfold enc_header_bytes, len. intros H.
  pose proof (enc_header_len_rcv v mt_encryption (dh_pub c eph)
                (sb_seal c pkey nonce_sender_key_sbox (dh_pub c match sender with Some s => s | None => eph end))
                (mapi_from (enc_receiver_entry c v eph pkey) 0 rs)) as H1.
  pose proof (enc_receivers_ge3 (mapi_from (enc_receiver_entry c v eph pkey) 0 rs)) as H2.
  rewrite mapi_from_length in H2. lia.
Qed.

(* ---------- END TO END ---------- *)
Section EncEndToEnd.
Variable c : crypto.
Hypothesis Hc : crypto_ok c.

(* (TARGET) the Go sender session leaves the model sender's bytes in the writer *)
Theorem go_encrypt_session_model (st0 : es_state) (out0 : bytes) (v : version) (sender : option bytes)
        (rcpts rs : list rcpt) (ra rb rc ra' rb' rc' : rng) (eph pkey : bytes) (pieces : list bytes) (wire : bytes) :
  fresh_es v out0 st0 ->
  v = v1 \/ v = v2 ->
  check_receivers rcpts = Ok tt ->
  (Z.of_nat (List.length rcpts) <= 2147483647)%Z ->
  Forall (fun p : bytes => (List.length p <= 295 * blk)%nat) pieces ->
  shuffle rcpts ra = Some (rs, ra') ->
  read_full 32 rb = Some (eph, rb') ->
  read_full 32 rc = Some (pkey, rc') ->
  seal_core c v sender eph pkey rs pieces = Ok wire ->
  (exists st', go_encrypt_session c (g_es st0) v sender rcpts ra rb rc pieces = Some (g_es st') /\
               es_enc st' = VBytes (out0 ++ wire)%list /\ es_buf st' = [] /\ es_err st' = None) /\
  go_encrypt_out c (g_es st0) v sender rcpts ra rb rc pieces = Some (out0 ++ wire)%list.
Proof.
  intros Hf Hv Hchk Hlen Hall Hsh Hrb Hrc Hseal.
  destruct (es_full_session_model c (ok_sb_len c Hc) st0 out0 v sender rcpts rs ra rb rc ra' rb' rc' eph pkey pieces wire
              Hf Hv Hchk Hlen Hall Hsh Hrb Hrc Hseal) as (st' & Hinit & Hs & He & Hb & Her).
  unfold es_full_session in Hs. rewrite Hinit in Hs.
  destruct (go_es_session_spec c pieces _ st' Hs) as (st2 & Hw & Hcl).
  assert (G : go_encrypt_session c (g_es st0) v sender rcpts ra rb rc pieces = Some (g_es st')).
  { unfold go_encrypt_session. rewrite (go_es_init_spec c st0 v sender rcpts ra rb rc _ ra' rb' rc' Hinit), Hw. exact Hcl. }
  split.
  - exists st'. repeat split; assumption.
  - unfold go_encrypt_out. rewrite G. unfold es_out. rewrite as_es_g_es, He. reflexivity.
Qed.

(* (TARGET) END TO END, three independent randomness sources.  See the header for the reading. *)
Theorem go_encrypt_end_to_end (pm : bytes -> gval) (vd : validator) (VV RING rd : gval)
        (st0 : es_state) (out0 : bytes) (v : version) (sender : option bytes)
        (rcpts rs : list rcpt) (ra rb rc ra' rb' rc' : rng) (eph pkey : bytes) (pieces : list bytes) (wire : bytes)
        (sk : bytes) (hide : bool) :
  fresh_es v out0 st0 ->
  v = v1 \/ v = v2 -> good_validator_e vd v ->
  check_receivers rcpts = Ok tt ->
  Forall (fun p : bytes => (List.length p <= 295 * blk)%nat) pieces ->
  shuffle rcpts ra = Some (rs, ra') ->
  read_full 32 rb = Some (eph, rb') ->
  read_full 32 rc = Some (pkey, rc') ->
  seal_core c v sender eph pkey rs pieces = Ok wire ->
  (len (enc_header_bytes c v sender eph pkey rs) < 4294967296)%N ->
  In (dh_pub c sk, hide) rcpts ->
  (forall s, sender = Some s -> dh_pub c s <> dh_pub c eph) ->
  rdr_bytes rd = Some wire ->
  let kr := mkRing [(sk, dh_pub c sk)] None in
  let k := (sk, dh_pub c sk) in
  go_encrypt_out c (g_es st0) v sender rcpts ra rb rc pieces = Some (out0 ++ wire)%list /\
  ((exists (m : mki) (st : dec_state) (rest : bytes) (chunks : list bytes),
      fst (run_func2 (ext_open c pm vd kr) f_saltpack_Open [VV; VBytes wire; RING])
      = ORet [g_mki m k; VBytes (List.concat pieces); VNil] /\
      open_class (fst (run_func2 (ext_open c pm vd kr) f_saltpack_Open [VV; VBytes wire; RING]))
      = Ok (m, List.concat pieces) /\
      fst (run_func2 (ext_nds c pm vd kr) f_saltpack_NewDecryptStream [VV; rd; RING])
      = ORet [g_mki m k; g_cr_new (g_ds_done VV RING (g_mps_raw rest 1) VNil m st k); VNil] /\
      decrypt_loop c (S (List.length rest)) st 0 rest [] = mkOut chunks EOF /\
      List.concat chunks = List.concat pieces /\
      mki_sender m = dh_pub c (match sender with Some s => s | None => eph end) /\
      mki_sender_anon m = (match sender with Some _ => false | None => true end) /\
      mki_receiver m = dh_pub c sk /\
      mki_receiver_anon m = hide)
   \/ ForeignBoxOpens c v eph pkey (dh_pub c sk) rs).
Proof.
  intros Hf Hv Hvd Hchk Hall Hsh Hrb Hrc Hseal Hfit Hin Hsnd Hrd kr k.
  destruct (check_receivers_ok rcpts Hchk) as (Hne & Hnd & Hl32).
  assert (Hperm : Permutation rcpts rs).
  { destruct (shuffle_is_fisher_yates rcpts rs ra ra' Hl32 Hsh) as (js & _ & ->). apply fisher_yates_perm. }
  assert (Hlen : (Z.of_nat (List.length rcpts) <= 2147483647)%Z).
  { rewrite (Permutation_length Hperm). exact (header_fits_receivers c v sender eph pkey rs Hfit). }
  split.
  { exact (proj2 (go_encrypt_session_model st0 out0 v sender rcpts rs ra rb rc ra' rb' rc' eph pkey pieces wire
                    Hf Hv Hchk Hlen Hall Hsh Hrb Hrc Hseal)). }
  assert (Hpk : List.length pkey = 32%nat).
  { unfold read_full in Hrc. destruct (Nat.leb 32 (List.length rc)) eqn:E; [|discriminate].
    apply Nat.leb_le in E. assert (Epk : pkey = firstn 32 rc) by congruence.
    rewrite Epk. apply firstn_length_le. exact E. }
  assert (Hnd' : NoDup (map fst rs)).
  { apply (Permutation_NoDup (l := map fst rcpts)); [apply Permutation_map; exact Hperm|exact Hnd]. }
  assert (Hl32' : (N.of_nat (List.length rs) < 4294967296)%N) by (rewrite <- (Permutation_length Hperm); exact Hl32).
  destruct (In_nth_error rs (dh_pub c sk, hide) (Permutation_in _ Hperm Hin)) as [i Hi].
  destruct (seal_core_open_roundtrip_strong c Hc v sender eph pkey rs pieces wire sk hide i vd
              Hv Hvd Hpk Hnd' Hl32' Hfit Hseal Hi Hsnd) as [(m & chunks & Ho & Hcc & M1 & M2 & M3 & M4 & Hoa)|Bk];
    [left|right; exact Bk].
  destruct (go_Open_of_model c pm vd kr VV RING rd wire m chunks Ho Hrd) as (k0 & st & rest & Hk0 & Hks & GO & GN & GL).
  assert (Ek : k0 = k).
  { cbn [kr kr_keys In] in Hk0. destruct Hk0 as [E|[]]. symmetry. exact E. }
  subst k0. exists m, st, rest, chunks. rewrite GO, GN, <- Hcc.
  repeat split; try assumption; try reflexivity.
  cbn [open_class]. rewrite (as_mki_g m k Hks). reflexivity.
Qed.

(* ----- the model's single randomness stream ----- *)
(* what the model's sender draws from ONE stream r: the shuffled list, the ephemeral secret, the payload key *)
Definition model_rs (rcpts : list rcpt) (r : rng) : list rcpt :=
  match shuffle rcpts r with Some (rs, _) => rs | None => [] end.
Definition model_eph (rcpts : list rcpt) (r : rng) : bytes := firstn 32 (fst (model_sources rcpts r)).
Definition model_pkey (rcpts : list rcpt) (r : rng) : bytes := firstn 32 (snd (model_sources rcpts r)).

Lemma read_full_eq (k : nat) (r r' : rng) (x : bytes) :
  read_full k r = Some (x, r') -> x = firstn k r /\ r' = skipn k r.
Proof. unfold read_full. destruct (Nat.leb k (List.length r)); [|discriminate]. intros H. split; congruence. Qed.

(* the bridge: the model's sender on one stream = the draws of the three Go sources [model_sources] + seal_core *)
Lemma seal_stream_draws (v : version) (sender : option bytes) (rcpts : list rcpt) (pieces : list bytes)
      (r r' : rng) (wire : bytes) :
  seal_stream c v sender rcpts pieces r = Ok (wire, r') ->
  (v = v1 \/ v = v2) /\ check_receivers rcpts = Ok tt /\
  exists ra' rb',
    shuffle rcpts r = Some (model_rs rcpts r, ra') /\
    read_full 32 (fst (model_sources rcpts r)) = Some (model_eph rcpts r, rb') /\
    read_full 32 (snd (model_sources rcpts r)) = Some (model_pkey rcpts r, r') /\
    seal_core c v sender (model_eph rcpts r) (model_pkey rcpts r) (model_rs rcpts r) pieces = Ok wire.
Proof.
  unfold seal_stream, model_rs, model_eph, model_pkey, model_sources. intros H.
  destruct (known_version v) eqn:Ev; cbn [negb] in H; [|discriminate].
  split; [exact (EncryptProofs.known_version_cases v Ev)|].
  destruct (check_receivers rcpts) as [[]|e]; cbn [bind] in H; [|discriminate]. split; [reflexivity|].
  destruct (shuffle rcpts r) as [[rs r1]|]; [|discriminate].
  destruct (read_full 32 r1) as [[eph r2]|] eqn:H1; [|discriminate].
  destruct (read_full 32 r2) as [[pkey r3]|] eqn:H2; [|discriminate].
  destruct (seal_core c v sender eph pkey rs pieces) as [o|e] eqn:Hs; cbn [bind] in H; [|discriminate].
  assert (E : o = wire /\ r3 = r') by (split; congruence). destruct E as [-> ->].
  cbn [fst snd]. destruct (read_full_eq _ _ _ _ H1) as [E1 _]. destruct (read_full_eq _ _ _ _ H2) as [E2 _].
  rewrite <- E1, <- E2. exists r1, r2. repeat split; assumption.
Qed.

(* (TARGET) END TO END against the model's sender on ONE randomness stream r *)
Theorem go_encrypt_end_to_end_stream (pm : bytes -> gval) (vd : validator) (VV RING rd : gval)
        (st0 : es_state) (out0 : bytes) (v : version) (sender : option bytes)
        (rcpts : list rcpt) (r r' : rng) (pieces : list bytes) (wire : bytes) (sk : bytes) (hide : bool) :
  fresh_es v out0 st0 ->
  good_validator_e vd v ->
  Forall (fun p : bytes => (List.length p <= 295 * blk)%nat) pieces ->
  seal_stream c v sender rcpts pieces r = Ok (wire, r') ->
  (len (enc_header_bytes c v sender (model_eph rcpts r) (model_pkey rcpts r) (model_rs rcpts r)) < 4294967296)%N ->
  In (dh_pub c sk, hide) rcpts ->
  (forall s, sender = Some s -> dh_pub c s <> dh_pub c (model_eph rcpts r)) ->
  rdr_bytes rd = Some wire ->
  let kr := mkRing [(sk, dh_pub c sk)] None in
  let k := (sk, dh_pub c sk) in
  go_encrypt_out c (g_es st0) v sender rcpts r (fst (model_sources rcpts r)) (snd (model_sources rcpts r)) pieces
  = Some (out0 ++ wire)%list /\
  ((exists (m : mki) (st : dec_state) (rest : bytes) (chunks : list bytes),
      fst (run_func2 (ext_open c pm vd kr) f_saltpack_Open [VV; VBytes wire; RING])
      = ORet [g_mki m k; VBytes (List.concat pieces); VNil] /\
      open_class (fst (run_func2 (ext_open c pm vd kr) f_saltpack_Open [VV; VBytes wire; RING]))
      = Ok (m, List.concat pieces) /\
      fst (run_func2 (ext_nds c pm vd kr) f_saltpack_NewDecryptStream [VV; rd; RING])
      = ORet [g_mki m k; g_cr_new (g_ds_done VV RING (g_mps_raw rest 1) VNil m st k); VNil] /\
      decrypt_loop c (S (List.length rest)) st 0 rest [] = mkOut chunks EOF /\
      List.concat chunks = List.concat pieces /\
      mki_sender m = dh_pub c (match sender with Some s => s | None => model_eph rcpts r end) /\
      mki_sender_anon m = (match sender with Some _ => false | None => true end) /\
      mki_receiver m = dh_pub c sk /\
      mki_receiver_anon m = hide)
   \/ ForeignBoxOpens c v (model_eph rcpts r) (model_pkey rcpts r) (dh_pub c sk) (model_rs rcpts r)).
Proof.
  intros Hf Hvd Hall Hseal Hfit Hin Hsnd Hrd.
  destruct (seal_stream_draws v sender rcpts pieces r r' wire Hseal) as (Hv & Hchk & ra' & rb' & Hsh & Hrb & Hrc & Hcore).
  exact (go_encrypt_end_to_end pm vd VV RING rd st0 out0 v sender rcpts (model_rs rcpts r) r _ _ ra' rb' r'
           (model_eph rcpts r) (model_pkey rcpts r) pieces wire sk hide
           Hf Hv Hvd Hchk Hall Hsh Hrb Hrc Hcore Hfit Hin Hsnd Hrd).
Qed.

(* (TARGET) the same with the header bound replaced by simple ones: recipient keys of at most 32 bytes, at most
   40 000 000 recipients *)
Theorem go_encrypt_end_to_end_stream_bounded (pm : bytes -> gval) (vd : validator) (VV RING rd : gval)
        (st0 : es_state) (out0 : bytes) (v : version) (sender : option bytes)
        (rcpts : list rcpt) (r r' : rng) (pieces : list bytes) (wire : bytes) (sk : bytes) (hide : bool) :
  fresh_es v out0 st0 ->
  good_validator_e vd v ->
  Forall (fun p : bytes => (List.length p <= 295 * blk)%nat) pieces ->
  seal_stream c v sender rcpts pieces r = Ok (wire, r') ->
  Forall (fun rc : rcpt => (List.length (fst rc) <= 32)%nat) rcpts -> (N.of_nat (List.length rcpts) <= 40000000)%N ->
  In (dh_pub c sk, hide) rcpts ->
  (forall s, sender = Some s -> dh_pub c s <> dh_pub c (model_eph rcpts r)) ->
  rdr_bytes rd = Some wire ->
  let kr := mkRing [(sk, dh_pub c sk)] None in
  let k := (sk, dh_pub c sk) in
  go_encrypt_out c (g_es st0) v sender rcpts r (fst (model_sources rcpts r)) (snd (model_sources rcpts r)) pieces
  = Some (out0 ++ wire)%list /\
  ((exists (m : mki) (st : dec_state) (rest : bytes) (chunks : list bytes),
      fst (run_func2 (ext_open c pm vd kr) f_saltpack_Open [VV; VBytes wire; RING])
      = ORet [g_mki m k; VBytes (List.concat pieces); VNil] /\
      open_class (fst (run_func2 (ext_open c pm vd kr) f_saltpack_Open [VV; VBytes wire; RING]))
      = Ok (m, List.concat pieces) /\
      fst (run_func2 (ext_nds c pm vd kr) f_saltpack_NewDecryptStream [VV; rd; RING])
      = ORet [g_mki m k; g_cr_new (g_ds_done VV RING (g_mps_raw rest 1) VNil m st k); VNil] /\
      decrypt_loop c (S (List.length rest)) st 0 rest [] = mkOut chunks EOF /\
      List.concat chunks = List.concat pieces /\
      mki_sender m = dh_pub c (match sender with Some s => s | None => model_eph rcpts r end) /\
      mki_sender_anon m = (match sender with Some _ => false | None => true end) /\
      mki_receiver m = dh_pub c sk /\
      mki_receiver_anon m = hide)
   \/ ForeignBoxOpens c v (model_eph rcpts r) (model_pkey rcpts r) (dh_pub c sk) (model_rs rcpts r)).
Proof.
  intros Hf Hvd Hall Hseal Hk Hn Hin Hsnd Hrd.
  apply (go_encrypt_end_to_end_stream pm vd VV RING rd st0 out0 v sender rcpts r r' pieces wire sk hide); try assumption.
  destruct (seal_stream_draws v sender rcpts pieces r r' wire Hseal) as (Hv & Hchk & ra' & rb' & Hsh & Hrb & Hrc & Hcore).
  destruct (check_receivers_ok rcpts Hchk) as (Hne & Hnd & Hl32).
  assert (Hperm : Permutation rcpts (model_rs rcpts r)).
  { destruct (shuffle_is_fisher_yates rcpts _ r ra' Hl32 Hsh) as (js & _ & ->). apply fisher_yates_perm. }
  apply (enc_header_fits c Hc).
  - destruct (read_full_eq _ _ _ _ Hrc) as [E _]. rewrite E. apply firstn_length_le.
    unfold read_full in Hrc. destruct (Nat.leb 32 (List.length (snd (model_sources rcpts r)))) eqn:E2; [|discriminate].
    apply Nat.leb_le. exact E2.
  - exact (Permutation_Forall Hperm Hk).
  - rewrite <- (Permutation_length Hperm). exact Hn.
Qed.

(* (TARGET) END TO END, a keyring holding none of the recipient keys: the translated Open returns (&ds.mki, nil,
   ErrNoDecryptionKey) and the translated NewDecryptStream (&ds.mki, nil, ErrNoDecryptionKey) -- no plaintext *)
Theorem go_encrypt_end_to_end_stranger (pm : bytes -> gval) (vd : validator) (VV RING rd : gval)
        (st0 : es_state) (out0 : bytes) (v : version) (sender : option bytes)
        (rcpts rs : list rcpt) (ra rb rc ra' rb' rc' : rng) (eph pkey : bytes) (pieces : list bytes) (wire : bytes)
        (sk : bytes) :
  fresh_es v out0 st0 ->
  v = v1 \/ v = v2 -> good_validator_e vd v ->
  check_receivers rcpts = Ok tt ->
  Forall (fun p : bytes => (List.length p <= 295 * blk)%nat) pieces ->
  shuffle rcpts ra = Some (rs, ra') ->
  read_full 32 rb = Some (eph, rb') ->
  read_full 32 rc = Some (pkey, rc') ->
  seal_core c v sender eph pkey rs pieces = Ok wire ->
  (len (enc_header_bytes c v sender eph pkey rs) < 4294967296)%N ->
  ~ In (dh_pub c sk) (map fst rcpts) ->
  rdr_bytes rd = Some wire ->
  let kr := mkRing [(sk, dh_pub c sk)] None in
  go_encrypt_out c (g_es st0) v sender rcpts ra rb rc pieces = Some (out0 ++ wire)%list /\
  ((fst (run_func2 (ext_open c pm vd kr) f_saltpack_Open [VV; VBytes wire; RING])
    = ORet [pm wire; VNil; VErr "ErrNoDecryptionKey" []] /\
    open_class (fst (run_func2 (ext_open c pm vd kr) f_saltpack_Open [VV; VBytes wire; RING])) = Err ErrNoDecryptionKey /\
    fst (run_func2 (ext_nds c pm vd kr) f_saltpack_NewDecryptStream [VV; rd; RING])
    = ORet [pm wire; VNil; VErr "ErrNoDecryptionKey" []])
   \/ ForeignBoxOpens c v eph pkey (dh_pub c sk) rs).
Proof.
  intros Hf Hv Hvd Hchk Hall Hsh Hrb Hrc Hseal Hfit Hnin Hrd kr.
  destruct (check_receivers_ok rcpts Hchk) as (Hne & Hnd & Hl32).
  assert (Hperm : Permutation rcpts rs).
  { destruct (shuffle_is_fisher_yates rcpts rs ra ra' Hl32 Hsh) as (js & _ & ->). apply fisher_yates_perm. }
  assert (Hlen : (Z.of_nat (List.length rcpts) <= 2147483647)%Z).
  { rewrite (Permutation_length Hperm). exact (header_fits_receivers c v sender eph pkey rs Hfit). }
  split.
  { exact (proj2 (go_encrypt_session_model st0 out0 v sender rcpts rs ra rb rc ra' rb' rc' eph pkey pieces wire
                    Hf Hv Hchk Hlen Hall Hsh Hrb Hrc Hseal)). }
  assert (Hpk : List.length pkey = 32%nat).
  { unfold read_full in Hrc. destruct (Nat.leb 32 (List.length rc)) eqn:E; [|discriminate].
    apply Nat.leb_le in E. assert (Epk : pkey = firstn 32 rc) by congruence.
    rewrite Epk. apply firstn_length_le. exact E. }
  assert (Hl32' : (N.of_nat (List.length rs) < 4294967296)%N) by (rewrite <- (Permutation_length Hperm); exact Hl32).
  assert (Hnin' : ~ In (dh_pub c sk) (map fst rs)).
  { intros H. apply Hnin. apply (Permutation_in _ (Permutation_sym (Permutation_map fst Hperm))). exact H. }
  destruct (seal_core_open_stranger_strong c Hc v sender eph pkey rs pieces wire sk vd
              Hv Hvd Hpk Hl32' Hfit Hseal Hnin') as [[Ho Hoa]|Bk]; [left|right; exact Bk].
  assert (GO : fst (run_func2 (ext_open c pm vd kr) f_saltpack_Open [VV; VBytes wire; RING])
               = ORet [pm wire; VNil; VErr "ErrNoDecryptionKey" []]).
  { rewrite go_Open. unfold open_outcome. fold kr in Ho. rewrite Ho. reflexivity. }
  split; [exact GO|]. split; [rewrite GO; reflexivity|].
  rewrite (go_NewDecryptStream c pm vd kr VV rd RING wire Hrd). unfold nds_outcome.
  pose proof (open_stream_header c vd kr wire) as Hh. fold kr in Ho. rewrite Ho in Hh.
  destruct (dec_read_header c vd kr wire) as [[[m' st] rest]|e] eqn:Hd; cbn [bind] in Hh; [discriminate|].
  assert (Ee : e = ErrNoDecryptionKey) by congruence. subst e. reflexivity.
Qed.
End EncEndToEnd.

(* ================================================================================================ *)
(*                                        SIGNCRYPTION (C03)                                        *)
(* ================================================================================================ *)
From SP Require Import Signcrypt.
From SP Require SigncryptProofs GoAstSign GoAstProofs6b.
Module S6 := GoAstProofs6b.

(* ---------- the sender session at the level of the translated Go methods (gen/GoAstSign.v) ---------- *)
Section GoScSender.
Variable c : crypto.

(* ra: the source rng.shuffleReceivers draws from, rk: rng.createSymmetricKey's, rb: the ephemeral key creator's *)
Definition go_sss_init (sss : gval) (boxes : list bytes) (syms : list (bytes * bytes)) (ra rk rb : rng) : option gval :=
  let r := run_func2 (S6.ext_init c S6.mem_enc) GoAstSign.f_saltpack_signcryptSealStream_init
                     [sss; VList (map VBytes boxes); VList (map S6.g_sym syms); VBytes rb; S6.g_rng ra rk] in
  match fst r with
  | ORet [VNil] => lookup "sss" (snd r)
  | _ => None
  end.

Definition go_sss_write (sss : gval) (p : bytes) : option gval :=
  let r := run_func2 (S6.ext_wr c S6.mem_enc) GoAstSign.f_saltpack_signcryptSealStream_Write [sss; VBytes p] in
  match fst r with
  | ORet [VInt n; VNil] => if Z.eqb n (Z.of_nat (List.length p)) then lookup "sss" (snd r) else None
  | _ => None
  end.

Definition go_sss_close (sss : gval) : option gval :=
  let r := run_func2 (S6.ext_wr c S6.mem_enc) GoAstSign.f_saltpack_signcryptSealStream_Close [sss] in
  match fst r with
  | ORet [VNil] => lookup "sss" (snd r)
  | _ => None
  end.

Fixpoint go_sss_writes (sss : gval) (pieces : list bytes) : option gval :=
  match pieces with
  | [] => Some sss
  | p :: t => match go_sss_write sss p with Some s' => go_sss_writes s' t | None => None end
  end.

(* sss.init(...); sss.Write(p1); ...; sss.Write(pn); sss.Close() *)
Definition go_signcrypt_session (sss : gval) (boxes : list bytes) (syms : list (bytes * bytes)) (ra rk rb : rng)
           (pieces : list bytes) : option gval :=
  match go_sss_init sss boxes syms ra rk rb with
  | Some s1 => match go_sss_writes s1 pieces with Some s2 => go_sss_close s2 | None => None end
  | None => None
  end.

Definition sss_out (sss : gval) : option bytes :=
  match S6.as_sss sss with
  | Some st => match S6.ss_enc st with VBytes w => Some w | _ => None end
  | None => None
  end.

Definition go_signcrypt_out (sss : gval) (boxes : list bytes) (syms : list (bytes * bytes)) (ra rk rb : rng)
           (pieces : list bytes) : option bytes :=
  match go_signcrypt_session sss boxes syms ra rk rb pieces with Some s => sss_out s | None => None end.

Lemma go_sss_init_spec (st : S6.sss_state) (boxes : list bytes) (syms : list (bytes * bytes)) (ra rk rb : rng)
      (st' : S6.sss_state) (ra' rk' rb' : rng) :
  S6.sss_init c S6.mem_enc st boxes syms ra rk rb = S6.IRet None st' ra' rk' rb' ->
  go_sss_init (S6.g_sss st) boxes syms ra rk rb = Some (S6.g_sss st').
Proof.
  intros H. unfold go_sss_init.
  pose proof (S6.go_signcryptSealStream_init c S6.mem_enc st boxes syms ra rk rb) as T. cbv zeta in T. rewrite H in T.
  destruct T as (T1 & T2 & _). cbv zeta. rewrite T1. cbn [S6.g_errv]. exact T2.
Qed.

Lemma sss_drain_ret (fuel : nat) : forall (st st' : S6.sss_state) (ret n : Z),
  S6.sss_drain c S6.mem_enc fuel st ret = S6.WRet n None st' -> n = ret.
Proof.
  induction fuel as [|f IH]; intros st st' ret n; cbn [S6.sss_drain]; [discriminate|].
  destruct (1048576 <? Z.of_nat (List.length (S6.ss_buf st)))%Z.
  - destruct (S6.sss_block c S6.mem_enc st false) as [w| |[e|] st1]; [discriminate|discriminate|discriminate|]. apply IH.
  - intros H. injection H as <- _. reflexivity.
Qed.

Lemma go_sss_write_spec (st st' : S6.sss_state) (p : bytes) (n : Z) :
  S6.sss_write c S6.mem_enc st p = S6.WRet n None st' ->
  go_sss_write (S6.g_sss st) p = Some (S6.g_sss st').
Proof.
  intros H.
  assert (Hn : n = Z.of_nat (List.length p)).
  { revert H. unfold S6.sss_write, S6.sss_write_at. destruct (S6.ss_err st); [discriminate|]. apply sss_drain_ret. }
  unfold go_sss_write.
  pose proof (S6.go_signcryptSealStream_Write c S6.mem_enc st p) as T. cbv zeta in T. rewrite H in T.
  destruct T as (T1 & T2). cbv zeta. rewrite T1. cbn [S6.g_errv]. rewrite Hn, Z.eqb_refl. exact T2.
Qed.

Lemma go_sss_close_spec (st st' : S6.sss_state) :
  S6.sss_close c S6.mem_enc st = S6.CloseRet None st' ->
  go_sss_close (S6.g_sss st) = Some (S6.g_sss st').
Proof.
  intros H. unfold go_sss_close.
  pose proof (S6.go_signcryptSealStream_Close c S6.mem_enc st) as T. cbv zeta in T. rewrite H in T.
  destruct T as (T1 & T2). cbv zeta. rewrite T1. cbn [S6.g_errv]. exact T2.
Qed.

Lemma sss_session_nil (st : S6.sss_state) :
  S6.sss_session c S6.mem_enc st [] = S6.sss_close c S6.mem_enc st.
Proof. cbn [S6.sss_session]. reflexivity. Qed.

Lemma sss_session_cons (st : S6.sss_state) (p : bytes) (t : list bytes) :
  S6.sss_session c S6.mem_enc st (p :: t)
  = match S6.sss_write c S6.mem_enc st p with
    | S6.WRet _ None st' => S6.sss_session c S6.mem_enc st' t
    | S6.WRet _ (Some e) st' => S6.CloseRet (Some e) st'
    | S6.WStuck w => S6.CloseStuck w
    end.
Proof. cbn [S6.sss_session]. reflexivity. Qed.

Lemma go_sss_session_spec (pieces : list bytes) : forall (st st' : S6.sss_state),
  S6.sss_session c S6.mem_enc st pieces = S6.CloseRet None st' ->
  exists st2, go_sss_writes (S6.g_sss st) pieces = Some (S6.g_sss st2) /\ go_sss_close (S6.g_sss st2) = Some (S6.g_sss st').
Proof.
  induction pieces as [|p t IH]; intros st st' H.
  - rewrite sss_session_nil in H. exists st. split; [reflexivity|]. apply go_sss_close_spec. exact H.
  - rewrite sss_session_cons in H. cbn [go_sss_writes].
    destruct (S6.sss_write c S6.mem_enc st p) as [w|n [e|] st1] eqn:Hw; [discriminate|discriminate|].
    rewrite (go_sss_write_spec st st1 p n Hw). apply IH. exact H.
Qed.
End GoScSender.

(* a *signcryptSealStream object as newSigncryptSealStream hands it to init: Version2(), the signing key (None =
   anonymous sender), encoder over an EMPTY in-memory writer, empty buffer, numBlocks 0, no stored error *)
Definition fresh_sss (signer : option bytes) (st : S6.sss_state) : Prop :=
  S6.ss_v st = v2 /\ S6.ss_signer st = signer /\ S6.ss_enc st = VBytes [] /\ S6.ss_err st = None /\
  S6.ss_buf st = [] /\ S6.ss_n st = 0%N.

(* ---------- the receiver entry points on an input the model's stream opens cleanly ---------- *)
(* (TARGET) *)
Theorem go_SigncryptOpen_of_model (c : crypto) (kr : keyring) (signers : sigring) (rv : resolver) (KR RV rd : gval)
        (wire : bytes) (sg : option bytes) (chunks : list bytes) :
  signcrypt_open_stream c kr signers rv wire = Ok (sg, mkOut chunks EOF) ->
  rdr_bytes rd = Some wire ->
  fst (run_func2 (ext_scopen c kr signers rv) f_saltpack_SigncryptOpen [VBytes wire; KR; RV])
  = ORet [g_signer sg; VBytes (List.concat chunks); VNil] /\
  scopen_class (fst (run_func2 (ext_scopen c kr signers rv) f_saltpack_SigncryptOpen [VBytes wire; KR; RV]))
  = Ok (sg, List.concat chunks) /\
  exists (pkey hh rest : bytes),
    fst (run_func2 (ext_nsos c kr signers rv) f_saltpack_NewSigncryptOpenStream [rd; KR; RV])
    = ORet [g_signer sg; g_cr_new (g_sos_done (g_mps_raw rest 1) KR RV pkey hh sg); VNil] /\
    sc_open_loop c (S (List.length rest)) pkey sg hh 0 rest [] = mkOut chunks EOF.
Proof.
  intros Ho Hrd.
  assert (GO : fst (run_func2 (ext_scopen c kr signers rv) f_saltpack_SigncryptOpen [VBytes wire; KR; RV])
               = ORet [g_signer sg; VBytes (List.concat chunks); VNil]).
  { rewrite go_SigncryptOpen. unfold scopen_outcome. rewrite Ho. reflexivity. }
  split; [exact GO|]. split.
  { rewrite GO. cbn [scopen_class]. destruct sg; reflexivity. }
  pose proof (signcrypt_open_stream_header c kr signers rv wire) as Hh. rewrite Ho in Hh.
  destruct (sc_read_header c kr signers rv wire) as [[[[pkey sg'] hh] rest]|e] eqn:Hd; cbn [bind] in Hh; [|discriminate].
  assert (E1 : sg' = sg) by congruence. subst sg'.
  assert (Hl : sc_open_loop c (S (List.length rest)) pkey sg hh 0 rest [] = mkOut chunks EOF) by congruence.
  exists pkey, hh, rest. split; [|exact Hl].
  rewrite (go_NewSigncryptOpenStream c kr signers rv rd KR RV wire Hrd). unfold nsos_outcome. rewrite Hd. reflexivity.
Qed.

Section ScEndToEnd.
Variable c : crypto.
Hypothesis Hc : crypto_ok c.

(* (TARGET) the Go sender session leaves exactly the model sender's bytes in the (initially empty) writer *)
Theorem go_signcrypt_session_model (st0 : S6.sss_state) (signer : option bytes) (boxes : list bytes)
        (syms : list (bytes * bytes)) (ra rk rb : rng) (rs : list sc_rcpt) (ra1 eph rb1 key rk1 : bytes)
        (pieces : list bytes) (wire : bytes) :
  fresh_sss signer st0 ->
  sc_check_receivers boxes syms = Ok tt ->
  Forall (fun p : bytes => (List.length p <= 295 * S6.blk)%nat) pieces ->
  shuffle (S6.all_rcpts boxes syms) ra = Some (rs, ra1) ->
  read_full 32 rb = Some (eph, rb1) ->
  read_full 32 rk = Some (key, rk1) ->
  signcrypt_core c signer eph key rs pieces = Ok wire ->
  (exists st', go_signcrypt_session c (S6.g_sss st0) boxes syms ra rk rb pieces = Some (S6.g_sss st') /\
               S6.ss_enc st' = VBytes wire /\ S6.ss_buf st' = []) /\
  go_signcrypt_out c (S6.g_sss st0) boxes syms ra rk rb pieces = Some wire.
Proof.
  intros (Hv & Hsg & He & Herr & Hbuf & Hn) Hck Hall Hsh Heph Hkey Hcore.
  pose proof (S6.sss_seal_core c (ok_sb_len c Hc) (ok_sig_len c Hc) st0 boxes syms ra rk rb rs ra1 eph rb1 key rk1 pieces
                Hv He Herr Hbuf Hn Hck Hsh Heph Hkey Hall) as T.
  rewrite Hsg, Hcore in T. destruct T as (st1 & Hi & st2 & Hs & He2 & Hb2).
  destruct (go_sss_session_spec c pieces st1 st2 Hs) as (st3 & Hw & Hcl).
  assert (G : go_signcrypt_session c (S6.g_sss st0) boxes syms ra rk rb pieces = Some (S6.g_sss st2)).
  { unfold go_signcrypt_session. rewrite (go_sss_init_spec c st0 boxes syms ra rk rb st1 ra1 rk1 rb1 Hi), Hw. exact Hcl. }
  split.
  - exists st2. repeat split; assumption.
  - unfold go_signcrypt_out. rewrite G. unfold sss_out. rewrite S6.as_sss_g_sss, He2. reflexivity.
Qed.

Lemma sc_shuffle_perm (boxes : list bytes) (syms : list (bytes * bytes)) (ra ra1 : rng) (rs : list sc_rcpt) :
  sc_check_receivers boxes syms = Ok tt ->
  shuffle (S6.all_rcpts boxes syms) ra = Some (rs, ra1) ->
  Permutation (S6.all_rcpts boxes syms) rs /\ (N.of_nat (List.length rs) < 4294967296)%N.
Proof.
  intros Hck Hsh. destruct (SigncryptProofs.sc_check_receivers_inv boxes syms Hck) as [_ Hm].
  assert (Hlen : List.length (S6.all_rcpts boxes syms) = (List.length boxes + List.length syms)%nat).
  { unfold S6.all_rcpts. rewrite app_length, !map_length. reflexivity. }
  assert (Hp : Permutation (S6.all_rcpts boxes syms) rs).
  { destruct (shuffle_is_fisher_yates (S6.all_rcpts boxes syms) rs ra ra1) as (js & _ & ->).
    - unfold two32. rewrite Hlen. lia.
    - exact Hsh.
    - apply fisher_yates_perm. }
  split; [exact Hp|]. rewrite <- (Permutation_length Hp), Hlen. lia.
Qed.

Lemma read_full_32_len (r r' : rng) (x : bytes) : read_full 32 r = Some (x, r') -> List.length x = 32%nat.
Proof.
  intros H. destruct (read_full_eq 32 r r' x H) as [E _].
  unfold read_full in H. destruct (Nat.leb 32 (List.length r)) eqn:E2; [|discriminate].
  rewrite E. apply firstn_length_le. apply Nat.leb_le. exact E2.
Qed.

(* (TARGET) END TO END, box-key recipient, three independent randomness sources *)
Theorem go_signcrypt_end_to_end_box (signers : sigring) (rv : resolver) (KR RV rd : gval)
        (st0 : S6.sss_state) (signer : option bytes) (boxes : list bytes)
        (syms : list (bytes * bytes)) (ra rk rb : rng) (rs : list sc_rcpt) (ra1 eph rb1 key rk1 : bytes)
        (pieces : list bytes) (wire : bytes) (sk : bytes) :
  fresh_sss signer st0 ->
  sc_check_receivers boxes syms = Ok tt ->
  Forall (fun p : bytes => (List.length p <= 295 * S6.blk)%nat) pieces ->
  shuffle (S6.all_rcpts boxes syms) ra = Some (rs, ra1) ->
  read_full 32 rb = Some (eph, rb1) ->
  read_full 32 rk = Some (key, rk1) ->
  signcrypt_core c signer eph key rs pieces = Ok wire ->
  SigncryptProofs.header_fits c signer eph key rs ->
  In (dh_pub c sk) boxes ->
  (forall s, signer = Some s -> In (ed_pub c s) signers /\ all_zero (ed_pub c s) = false) ->
  rdr_bytes rd = Some wire ->
  let kr := mkRing [(sk, dh_pub c sk)] None in
  let sg := option_map (ed_pub c) signer in
  go_signcrypt_out c (S6.g_sss st0) boxes syms ra rk rb pieces = Some wire /\
  ((fst (run_func2 (ext_scopen c kr signers rv) f_saltpack_SigncryptOpen [VBytes wire; KR; RV])
    = ORet [g_signer sg; VBytes (List.concat pieces); VNil] /\
    scopen_class (fst (run_func2 (ext_scopen c kr signers rv) f_saltpack_SigncryptOpen [VBytes wire; KR; RV]))
    = Ok (sg, List.concat pieces) /\
    exists (pkey hh rest : bytes) (chunks : list bytes),
      fst (run_func2 (ext_nsos c kr signers rv) f_saltpack_NewSigncryptOpenStream [rd; KR; RV])
      = ORet [g_signer sg; g_cr_new (g_sos_done (g_mps_raw rest 1) KR RV pkey hh sg); VNil] /\
      sc_open_loop c (S (List.length rest)) pkey sg hh 0 rest [] = mkOut chunks EOF /\
      List.concat chunks = List.concat pieces)
   \/ exists i, nth_error rs i = Some (BoxRcpt (dh_pub c sk)) /\ SigncryptProofs.IdentifierCollision c eph key rs sk i).
Proof.
  intros Hf Hck Hall Hsh Heph Hkey Hcore Hfit Hin Hsg Hrd kr sg.
  split.
  { exact (proj2 (go_signcrypt_session_model st0 signer boxes syms ra rk rb rs ra1 eph rb1 key rk1 pieces wire
                    Hf Hck Hall Hsh Heph Hkey Hcore)). }
  destruct (sc_shuffle_perm boxes syms ra ra1 rs Hck Hsh) as [Hperm Hl32].
  assert (Hin' : In (BoxRcpt (dh_pub c sk)) rs).
  { apply (Permutation_in _ Hperm). unfold S6.all_rcpts. apply in_or_app. left. apply in_map. exact Hin. }
  destruct (In_nth_error rs _ Hin') as [i Hi].
  destruct (SigncryptProofs.signcrypt_core_open_box c Hc signer eph key rs pieces wire sk i signers rv
              (read_full_32_len rk rk1 key Hkey) Hl32 Hfit Hcore Hi Hsg) as [(chunks & Ho & Hcc & Hoa)|Bk];
    [left|right; exists i; split; assumption].
  destruct (go_SigncryptOpen_of_model c kr signers rv KR RV rd wire sg chunks Ho Hrd) as (GO & GC & pkey & hh & rest & GN & GL).
  split; [rewrite <- Hcc; exact GO|]. split; [rewrite <- Hcc; exact GC|].
  exists pkey, hh, rest, chunks. repeat split; assumption.
Qed.

(* (TARGET) END TO END, symmetric-key recipient (no box key; a resolver that knows this recipient's key and only
   genuine pairs of this message), three independent randomness sources *)
Theorem go_signcrypt_end_to_end_sym (signers : sigring) (rsl : list (bytes * bytes)) (KR RV rd : gval)
        (st0 : S6.sss_state) (signer : option bytes) (boxes : list bytes)
        (syms : list (bytes * bytes)) (ra rk rb : rng) (rs : list sc_rcpt) (ra1 eph rb1 key rk1 : bytes)
        (pieces : list bytes) (wire : bytes) (skey ident : bytes) :
  fresh_sss signer st0 ->
  sc_check_receivers boxes syms = Ok tt ->
  Forall (fun p : bytes => (List.length p <= 295 * S6.blk)%nat) pieces ->
  shuffle (S6.all_rcpts boxes syms) ra = Some (rs, ra1) ->
  read_full 32 rb = Some (eph, rb1) ->
  read_full 32 rk = Some (key, rk1) ->
  signcrypt_core c signer eph key rs pieces = Ok wire ->
  SigncryptProofs.header_fits c signer eph key rs ->
  In (skey, ident) syms -> resolve rsl ident = Some skey ->
  SigncryptProofs.resolver_genuine c rsl eph key rs ->
  (forall s, signer = Some s -> In (ed_pub c s) signers /\ all_zero (ed_pub c s) = false) ->
  rdr_bytes rd = Some wire ->
  let kr := mkRing [] None in
  let rv := Some rsl in
  let sg := option_map (ed_pub c) signer in
  go_signcrypt_out c (S6.g_sss st0) boxes syms ra rk rb pieces = Some wire /\
  fst (run_func2 (ext_scopen c kr signers rv) f_saltpack_SigncryptOpen [VBytes wire; KR; RV])
  = ORet [g_signer sg; VBytes (List.concat pieces); VNil] /\
  scopen_class (fst (run_func2 (ext_scopen c kr signers rv) f_saltpack_SigncryptOpen [VBytes wire; KR; RV]))
  = Ok (sg, List.concat pieces) /\
  exists (pkey hh rest : bytes) (chunks : list bytes),
    fst (run_func2 (ext_nsos c kr signers rv) f_saltpack_NewSigncryptOpenStream [rd; KR; RV])
    = ORet [g_signer sg; g_cr_new (g_sos_done (g_mps_raw rest 1) KR RV pkey hh sg); VNil] /\
    sc_open_loop c (S (List.length rest)) pkey sg hh 0 rest [] = mkOut chunks EOF /\
    List.concat chunks = List.concat pieces.
Proof.
  intros Hf Hck Hall Hsh Heph Hkey Hcore Hfit Hin Hres Hgen Hsg Hrd kr rv sg.
  split.
  { exact (proj2 (go_signcrypt_session_model st0 signer boxes syms ra rk rb rs ra1 eph rb1 key rk1 pieces wire
                    Hf Hck Hall Hsh Heph Hkey Hcore)). }
  destruct (sc_shuffle_perm boxes syms ra ra1 rs Hck Hsh) as [Hperm Hl32].
  assert (Hin' : In (SymRcpt skey ident) rs).
  { apply (Permutation_in _ Hperm). unfold S6.all_rcpts. apply in_or_app. right.
    exact (in_map (fun s : bytes * bytes => SymRcpt (fst s) (snd s)) syms (skey, ident) Hin). }
  destruct (In_nth_error rs _ Hin') as [i Hi].
  destruct (SigncryptProofs.signcrypt_core_open_sym c Hc signer eph key rs pieces wire rsl i skey ident signers
              (read_full_32_len rk rk1 key Hkey) Hl32 Hfit Hcore Hi Hres Hgen Hsg) as (chunks & Ho & Hcc & Hoa).
  destruct (go_SigncryptOpen_of_model c kr signers rv KR RV rd wire sg chunks Ho Hrd) as (GO & GC & pkey & hh & rest & GN & GL).
  split; [rewrite <- Hcc; exact GO|]. split; [rewrite <- Hcc; exact GC|].
  exists pkey, hh, rest, chunks. repeat split; assumption.
Qed.

(* ----- the model's single randomness stream ----- *)
(* ra = r; the key creator's source rb is what the shuffle leaves; createSymmetricKey's rk what the ephemeral key leaves *)
Definition sc_model_sources (boxes : list bytes) (syms : list (bytes * bytes)) (r : rng) : rng * rng :=
  let r1 := match shuffle (S6.all_rcpts boxes syms) r with Some (_, r1) => r1 | None => [] end in
  let r2 := match read_full 32 r1 with Some (_, r2) => r2 | None => [] end in
  (r1, r2).
Definition sc_model_rs (boxes : list bytes) (syms : list (bytes * bytes)) (r : rng) : list sc_rcpt :=
  match shuffle (S6.all_rcpts boxes syms) r with Some (rs, _) => rs | None => [] end.
Definition sc_model_eph (boxes : list bytes) (syms : list (bytes * bytes)) (r : rng) : bytes :=
  firstn 32 (fst (sc_model_sources boxes syms r)).
Definition sc_model_key (boxes : list bytes) (syms : list (bytes * bytes)) (r : rng) : bytes :=
  firstn 32 (snd (sc_model_sources boxes syms r)).

Lemma signcrypt_seal_stream_draws (signer : option bytes) (boxes : list bytes) (syms : list (bytes * bytes))
      (pieces : list bytes) (r r' : rng) (wire : bytes) :
  signcrypt_seal_stream c signer boxes syms pieces r = Ok (wire, r') ->
  sc_check_receivers boxes syms = Ok tt /\
  exists ra1 rb1,
    shuffle (S6.all_rcpts boxes syms) r = Some (sc_model_rs boxes syms r, ra1) /\
    read_full 32 (fst (sc_model_sources boxes syms r)) = Some (sc_model_eph boxes syms r, rb1) /\
    read_full 32 (snd (sc_model_sources boxes syms r)) = Some (sc_model_key boxes syms r, r') /\
    signcrypt_core c signer (sc_model_eph boxes syms r) (sc_model_key boxes syms r) (sc_model_rs boxes syms r) pieces = Ok wire.
Proof.
  unfold signcrypt_seal_stream, sc_model_rs, sc_model_eph, sc_model_key, sc_model_sources, S6.all_rcpts. intros H.
  destruct (sc_check_receivers boxes syms) as [[]|e]; cbn [bind] in H; [|discriminate]. split; [reflexivity|].
  cbv zeta in H.
  destruct (shuffle (map BoxRcpt boxes ++ map (fun s : bytes * bytes => SymRcpt (fst s) (snd s)) syms)%list r) as [[rs r1]|]; [|discriminate].
  destruct (read_full 32 r1) as [[eph r2]|] eqn:H1; [|discriminate].
  destruct (read_full 32 r2) as [[pkey r3]|] eqn:H2; [|discriminate].
  destruct (signcrypt_core c signer eph pkey rs pieces) as [o|e] eqn:Hs; cbn [bind] in H; [|discriminate].
  assert (E : o = wire /\ r3 = r') by (split; congruence). destruct E as [-> ->].
  cbn [fst snd]. destruct (read_full_eq _ _ _ _ H1) as [E1 _]. destruct (read_full_eq _ _ _ _ H2) as [E2 _].
  rewrite <- E1, <- E2. exists r1, r2. repeat split; assumption.
Qed.

(* (TARGET) END TO END against the model's sender on ONE randomness stream r, box-key recipient *)
Theorem go_signcrypt_end_to_end_box_stream (signers : sigring) (rv : resolver) (KR RV rd : gval)
        (st0 : S6.sss_state) (signer : option bytes) (boxes : list bytes) (syms : list (bytes * bytes))
        (r r' : rng) (pieces : list bytes) (wire : bytes) (sk : bytes) :
  fresh_sss signer st0 ->
  Forall (fun p : bytes => (List.length p <= 295 * S6.blk)%nat) pieces ->
  signcrypt_seal_stream c signer boxes syms pieces r = Ok (wire, r') ->
  SigncryptProofs.header_fits c signer (sc_model_eph boxes syms r) (sc_model_key boxes syms r) (sc_model_rs boxes syms r) ->
  In (dh_pub c sk) boxes ->
  (forall s, signer = Some s -> In (ed_pub c s) signers /\ all_zero (ed_pub c s) = false) ->
  rdr_bytes rd = Some wire ->
  let kr := mkRing [(sk, dh_pub c sk)] None in
  let sg := option_map (ed_pub c) signer in
  go_signcrypt_out c (S6.g_sss st0) boxes syms r (snd (sc_model_sources boxes syms r)) (fst (sc_model_sources boxes syms r)) pieces
  = Some wire /\
  ((fst (run_func2 (ext_scopen c kr signers rv) f_saltpack_SigncryptOpen [VBytes wire; KR; RV])
    = ORet [g_signer sg; VBytes (List.concat pieces); VNil] /\
    scopen_class (fst (run_func2 (ext_scopen c kr signers rv) f_saltpack_SigncryptOpen [VBytes wire; KR; RV]))
    = Ok (sg, List.concat pieces) /\
    exists (pkey hh rest : bytes) (chunks : list bytes),
      fst (run_func2 (ext_nsos c kr signers rv) f_saltpack_NewSigncryptOpenStream [rd; KR; RV])
      = ORet [g_signer sg; g_cr_new (g_sos_done (g_mps_raw rest 1) KR RV pkey hh sg); VNil] /\
      sc_open_loop c (S (List.length rest)) pkey sg hh 0 rest [] = mkOut chunks EOF /\
      List.concat chunks = List.concat pieces)
   \/ exists i, nth_error (sc_model_rs boxes syms r) i = Some (BoxRcpt (dh_pub c sk)) /\
                SigncryptProofs.IdentifierCollision c (sc_model_eph boxes syms r) (sc_model_key boxes syms r)
                                                    (sc_model_rs boxes syms r) sk i).
Proof.
  intros Hf Hall Hseal Hfit Hin Hsg Hrd.
  destruct (signcrypt_seal_stream_draws signer boxes syms pieces r r' wire Hseal) as (Hck & ra1 & rb1 & Hsh & Hrb & Hrk & Hcore).
  exact (go_signcrypt_end_to_end_box signers rv KR RV rd st0 signer boxes syms r _ _ (sc_model_rs boxes syms r) ra1
           (sc_model_eph boxes syms r) rb1 (sc_model_key boxes syms r) r' pieces wire sk
           Hf Hck Hall Hsh Hrb Hrk Hcore Hfit Hin Hsg Hrd).
Qed.

(* (TARGET) END TO END against the model's sender on ONE randomness stream r, symmetric-key recipient *)
Theorem go_signcrypt_end_to_end_sym_stream (signers : sigring) (rsl : list (bytes * bytes)) (KR RV rd : gval)
        (st0 : S6.sss_state) (signer : option bytes) (boxes : list bytes) (syms : list (bytes * bytes))
        (r r' : rng) (pieces : list bytes) (wire : bytes) (skey ident : bytes) :
  fresh_sss signer st0 ->
  Forall (fun p : bytes => (List.length p <= 295 * S6.blk)%nat) pieces ->
  signcrypt_seal_stream c signer boxes syms pieces r = Ok (wire, r') ->
  SigncryptProofs.header_fits c signer (sc_model_eph boxes syms r) (sc_model_key boxes syms r) (sc_model_rs boxes syms r) ->
  In (skey, ident) syms -> resolve rsl ident = Some skey ->
  SigncryptProofs.resolver_genuine c rsl (sc_model_eph boxes syms r) (sc_model_key boxes syms r) (sc_model_rs boxes syms r) ->
  (forall s, signer = Some s -> In (ed_pub c s) signers /\ all_zero (ed_pub c s) = false) ->
  rdr_bytes rd = Some wire ->
  let kr := mkRing [] None in
  let rv := Some rsl in
  let sg := option_map (ed_pub c) signer in
  go_signcrypt_out c (S6.g_sss st0) boxes syms r (snd (sc_model_sources boxes syms r)) (fst (sc_model_sources boxes syms r)) pieces
  = Some wire /\
  fst (run_func2 (ext_scopen c kr signers rv) f_saltpack_SigncryptOpen [VBytes wire; KR; RV])
  = ORet [g_signer sg; VBytes (List.concat pieces); VNil] /\
  scopen_class (fst (run_func2 (ext_scopen c kr signers rv) f_saltpack_SigncryptOpen [VBytes wire; KR; RV]))
  = Ok (sg, List.concat pieces) /\
  exists (pkey hh rest : bytes) (chunks : list bytes),
    fst (run_func2 (ext_nsos c kr signers rv) f_saltpack_NewSigncryptOpenStream [rd; KR; RV])
    = ORet [g_signer sg; g_cr_new (g_sos_done (g_mps_raw rest 1) KR RV pkey hh sg); VNil] /\
    sc_open_loop c (S (List.length rest)) pkey sg hh 0 rest [] = mkOut chunks EOF /\
    List.concat chunks = List.concat pieces.
Proof.
  intros Hf Hall Hseal Hfit Hin Hres Hgen Hsg Hrd.
  destruct (signcrypt_seal_stream_draws signer boxes syms pieces r r' wire Hseal) as (Hck & ra1 & rb1 & Hsh & Hrb & Hrk & Hcore).
  exact (go_signcrypt_end_to_end_sym signers rsl KR RV rd st0 signer boxes syms r _ _ (sc_model_rs boxes syms r) ra1
           (sc_model_eph boxes syms r) rb1 (sc_model_key boxes syms r) r' pieces wire skey ident
           Hf Hck Hall Hsh Hrb Hrk Hcore Hfit Hin Hres Hgen Hsg Hrd).
Qed.

(* (TARGET) END TO END, a holder of no recipient key (a box key whose derived identifier matches no identifier of the
   header at its position, a resolver that resolves none of them): the translated SigncryptOpen and
   NewSigncryptOpenStream return (nil, nil, ErrNoDecryptionKey) -- no plaintext *)
Theorem go_signcrypt_end_to_end_stranger (signers : sigring) (rsl : list (bytes * bytes)) (KR RV rd : gval)
        (st0 : S6.sss_state) (signer : option bytes) (boxes : list bytes)
        (syms : list (bytes * bytes)) (ra rk rb : rng) (rs : list sc_rcpt) (ra1 eph rb1 key rk1 : bytes)
        (pieces : list bytes) (wire : bytes) (sk : bytes) :
  fresh_sss signer st0 ->
  sc_check_receivers boxes syms = Ok tt ->
  Forall (fun p : bytes => (List.length p <= 295 * S6.blk)%nat) pieces ->
  shuffle (S6.all_rcpts boxes syms) ra = Some (rs, ra1) ->
  read_full 32 rb = Some (eph, rb1) ->
  read_full 32 rk = Some (key, rk1) ->
  signcrypt_core c signer eph key rs pieces = Ok wire ->
  SigncryptProofs.header_fits c signer eph key rs ->
  (forall kid, In kid (SigncryptProofs.sc_header_kids c eph key rs) -> resolve rsl kid = None) ->
  (forall j kid, nth_error (SigncryptProofs.sc_header_kids c eph key rs) j = Some kid ->
     box_key_identifier c (derived_box_key c sk (dh_pub c eph)) (N.of_nat j) <> kid) ->
  rdr_bytes rd = Some wire ->
  let kr := mkRing [(sk, dh_pub c sk)] None in
  let rv := Some rsl in
  go_signcrypt_out c (S6.g_sss st0) boxes syms ra rk rb pieces = Some wire /\
  fst (run_func2 (ext_scopen c kr signers rv) f_saltpack_SigncryptOpen [VBytes wire; KR; RV])
  = ORet [VNil; VNil; VErr "ErrNoDecryptionKey" []] /\
  scopen_class (fst (run_func2 (ext_scopen c kr signers rv) f_saltpack_SigncryptOpen [VBytes wire; KR; RV]))
  = Err ErrNoDecryptionKey /\
  fst (run_func2 (ext_nsos c kr signers rv) f_saltpack_NewSigncryptOpenStream [rd; KR; RV])
  = ORet [VNil; VNil; VErr "ErrNoDecryptionKey" []].
Proof.
  intros Hf Hck Hall Hsh Heph Hkey Hcore Hfit Hres Hbox Hrd kr rv.
  split.
  { exact (proj2 (go_signcrypt_session_model st0 signer boxes syms ra rk rb rs ra1 eph rb1 key rk1 pieces wire
                    Hf Hck Hall Hsh Heph Hkey Hcore)). }
  destruct (sc_shuffle_perm boxes syms ra ra1 rs Hck Hsh) as [Hperm Hl32].
  destruct (SigncryptProofs.signcrypt_core_open_stranger c Hc signer eph key rs pieces wire sk rsl signers
              Hl32 Hfit Hcore Hres Hbox) as [Ho Hoa].
  fold kr in Ho. fold rv in Ho.
  assert (GO : fst (run_func2 (ext_scopen c kr signers rv) f_saltpack_SigncryptOpen [VBytes wire; KR; RV])
               = ORet [VNil; VNil; VErr "ErrNoDecryptionKey" []]).
  { rewrite go_SigncryptOpen. unfold scopen_outcome. rewrite Ho. reflexivity. }
  split; [exact GO|]. split; [rewrite GO; reflexivity|].
  rewrite (go_NewSigncryptOpenStream c kr signers rv rd KR RV wire Hrd). unfold nsos_outcome.
  pose proof (signcrypt_open_stream_header c kr signers rv wire) as Hh. rewrite Ho in Hh.
  destruct (sc_read_header c kr signers rv wire) as [[[[pkey sg'] hh] rest]|e] eqn:Hd; cbn [bind] in Hh; [discriminate|].
  assert (Ee : e = ErrNoDecryptionKey) by congruence. subst e. reflexivity.
Qed.
End ScEndToEnd.

(* ================= every TARGET is closed under the global context ================= *)
Print Assumptions es_full_session_model.
Print Assumptions go_Open_of_model.
Print Assumptions go_encrypt_session_model.
Print Assumptions go_encrypt_end_to_end.
Print Assumptions go_encrypt_end_to_end_stream.
Print Assumptions go_encrypt_end_to_end_stream_bounded.
Print Assumptions go_encrypt_end_to_end_stranger.
Print Assumptions go_SigncryptOpen_of_model.
Print Assumptions go_signcrypt_session_model.
Print Assumptions go_signcrypt_end_to_end_box.
Print Assumptions go_signcrypt_end_to_end_sym.
Print Assumptions go_signcrypt_end_to_end_box_stream.
Print Assumptions go_signcrypt_end_to_end_sym_stream.
Print Assumptions go_signcrypt_end_to_end_stranger.

(* ================= non-vacuity on the toy instance (model/ToyCrypto.v; computed) ================= *)
From SP Require Import ToyCrypto ToyCryptoProofs.
Definition e2e_sk1 : bytes := repeat x11 32.
Definition e2e_sk2 : bytes := repeat x22 32.
Definition e2e_ssk : bytes := repeat x33 32.
Definition e2e_rcpts : list rcpt := [(dh_pub toy_crypto e2e_sk1, true); (dh_pub toy_crypto e2e_sk2, false)].
Definition e2e_rnd : rng := repeat x44 32 ++ repeat x55 32 ++ repeat x66 40.
Definition e2e_es0 : es_state := mkEs v2 (VBytes []) [] [] [] [] 0 None.

(* the translated init / Write / Write / Close, run by the evaluator, then the translated Open on the writer's bytes:
   a hidden and a visible recipient both get the two-Write plaintext and the sender's key *)
Example ex_go_encrypt_open :
  match go_encrypt_out toy_crypto (g_es e2e_es0) v2 (Some e2e_ssk) e2e_rcpts e2e_rnd (fst (model_sources e2e_rcpts e2e_rnd)) (snd (model_sources e2e_rcpts e2e_rnd))
                       [[x68; x69]; [x21]] with
  | Some w =>
    (match seal_stream toy_crypto v2 (Some e2e_ssk) e2e_rcpts [[x68; x69]; [x21]] e2e_rnd with Ok (w', _) => bytes_eqb w w' | Err _ => false end,
     map (fun sk =>
       match open_class (fst (run_func2 (ext_open toy_crypto (fun _ => VNil) AnyKnownMajor (mkRing [(sk, dh_pub toy_crypto sk)] None))
                                       f_saltpack_Open [VNil; VBytes w; VNil])) with
       | Ok (m, pt) => Some (pt, mki_receiver_anon m, mki_sender_anon m, bytes_eqb (mki_sender m) (dh_pub toy_crypto e2e_ssk))
       | Err _ => None
       end) [e2e_sk1; e2e_sk2])
  | None => (false, [])
  end = (true, [Some ([x68; x69; x21], true, false, true); Some ([x68; x69; x21], false, false, true)]).
Proof. vm_compute. reflexivity. Qed.

(* the hypotheses of the end-to-end theorem are satisfiable: one visible recipient, named sender, two Writes; on the
   toy record no foreign box exists, so the theorem yields the round trip *)
Definition e2e_rcpts1 : list rcpt := [(dh_pub toy_crypto e2e_sk2, false)].
Definition e2e_pieces : list bytes := [[x68; x69]; [x21]].
Definition e2e_wire1 : bytes :=
  match seal_stream toy_crypto v2 (Some e2e_ssk) e2e_rcpts1 e2e_pieces e2e_rnd with Ok (w, _) => w | Err _ => [] end.
Definition e2e_rnd1 : rng :=
  match seal_stream toy_crypto v2 (Some e2e_ssk) e2e_rcpts1 e2e_pieces e2e_rnd with Ok (_, r) => r | Err _ => [] end.
Example ex_go_encrypt_end_to_end_instance :
  let kr := mkRing [(e2e_sk2, dh_pub toy_crypto e2e_sk2)] None in
  go_encrypt_out toy_crypto (g_es e2e_es0) v2 (Some e2e_ssk) e2e_rcpts1 e2e_rnd (fst (model_sources e2e_rcpts1 e2e_rnd))
                 (snd (model_sources e2e_rcpts1 e2e_rnd)) e2e_pieces = Some e2e_wire1 /\
  exists m,
    fst (run_func2 (ext_open toy_crypto (fun _ => VNil) AnyKnownMajor kr) f_saltpack_Open [VNil; VBytes e2e_wire1; VNil])
    = ORet [g_mki m (e2e_sk2, dh_pub toy_crypto e2e_sk2); VBytes [x68; x69; x21]; VNil] /\
    mki_sender m = dh_pub toy_crypto e2e_ssk /\ mki_sender_anon m = false /\
    mki_receiver m = dh_pub toy_crypto e2e_sk2 /\ mki_receiver_anon m = false.
Proof.
  destruct (go_encrypt_end_to_end_stream toy_crypto toy_crypto_ok (fun _ => VNil) AnyKnownMajor VNil VNil (VBytes e2e_wire1)
              e2e_es0 [] v2 (Some e2e_ssk) e2e_rcpts1 e2e_rnd e2e_rnd1 e2e_pieces e2e_wire1 e2e_sk2 false) as [Hout [H|Bk]].
  - repeat split.
  - left. reflexivity.
  - pose proof blk_pos as Hb. apply Forall_cons; [cbn [List.length]; lia|]. apply Forall_cons; [cbn [List.length]; lia|]. apply Forall_nil.
  - vm_compute. reflexivity.
  - vm_compute. reflexivity.
  - left. reflexivity.
  - intros s Hs. injection Hs as <-. vm_compute. discriminate.
  - reflexivity.
  - split; [exact Hout|]. destruct H as (m & st & rest & chunks & HO & _ & _ & _ & _ & M1 & M2 & M3 & M4).
    exists m. repeat split; assumption.
  - exfalso. destruct Bk as (j & r0 & Hn & Hne & _).
    change (model_rs e2e_rcpts1 e2e_rnd) with e2e_rcpts1 in Hn.
    destruct j as [|j]; cbn [nth_error e2e_rcpts1] in Hn.
    + injection Hn as <-. apply Hne. reflexivity.
    + destruct j; discriminate.
Qed.

Definition e2e_sgk : bytes := repeat x77 64.
Definition e2e_symkey : bytes := repeat x5a 32.
Definition e2e_ident : bytes := [x69; x64].
Definition e2e_sc_rnd : rng := repeat x44 32 ++ repeat x55 32 ++ repeat x66 40.
Definition e2e_sss0 : S6.sss_state := S6.mkSss v2 (VBytes []) [] (Some e2e_sgk) [] [] 0 None.

(* the translated init / Write / Write / Close, then the translated SigncryptOpen on the writer's bytes: the box-key
   recipient and the symmetric-key recipient both get the two-Write plaintext and the signer's public key *)
Example ex_go_signcrypt_open :
  let boxes := [dh_pub toy_crypto e2e_sk1] in
  let syms := [(e2e_symkey, e2e_ident)] in
  match go_signcrypt_out toy_crypto (S6.g_sss e2e_sss0) boxes syms e2e_sc_rnd
                         (snd (sc_model_sources boxes syms e2e_sc_rnd)) (fst (sc_model_sources boxes syms e2e_sc_rnd))
                         [[x68; x69]; [x21]] with
  | Some w =>
    (match signcrypt_seal_stream toy_crypto (Some e2e_sgk) boxes syms [[x68; x69]; [x21]] e2e_sc_rnd with
     | Ok (w', _) => bytes_eqb w w' | Err _ => false end,
     scopen_class (fst (run_func2 (ext_scopen toy_crypto (mkRing [(e2e_sk1, dh_pub toy_crypto e2e_sk1)] None)
                                              [ed_pub toy_crypto e2e_sgk] None)
                                  f_saltpack_SigncryptOpen [VBytes w; VNil; VNil])),
     scopen_class (fst (run_func2 (ext_scopen toy_crypto (mkRing [] None) [ed_pub toy_crypto e2e_sgk] (Some [(e2e_ident, e2e_symkey)]))
                                  f_saltpack_SigncryptOpen [VBytes w; VNil; VNil])))
  | None => (false, Err Unmodelled, Err Unmodelled)
  end = (true, Ok (Some (ed_pub toy_crypto e2e_sgk), [x68; x69; x21]), Ok (Some (ed_pub toy_crypto e2e_sgk), [x68; x69; x21])).
Proof. vm_compute. reflexivity. Qed.

(* the hypotheses of the end-to-end theorem are satisfiable: one box-key recipient, named signer, two Writes; with a
   single recipient no identifier can collide, so the theorem yields the round trip *)
Definition e2e_boxes1 : list bytes := [dh_pub toy_crypto e2e_sk1].
Definition e2e_sc_wire1 : bytes :=
  match signcrypt_seal_stream toy_crypto (Some e2e_sgk) e2e_boxes1 [] e2e_pieces e2e_sc_rnd with Ok (w, _) => w | Err _ => [] end.
Definition e2e_sc_rnd1 : rng :=
  match signcrypt_seal_stream toy_crypto (Some e2e_sgk) e2e_boxes1 [] e2e_pieces e2e_sc_rnd with Ok (_, r) => r | Err _ => [] end.
Example ex_go_signcrypt_end_to_end_instance :
  let kr := mkRing [(e2e_sk1, dh_pub toy_crypto e2e_sk1)] None in
  go_signcrypt_out toy_crypto (S6.g_sss e2e_sss0) e2e_boxes1 [] e2e_sc_rnd (snd (sc_model_sources e2e_boxes1 [] e2e_sc_rnd))
                   (fst (sc_model_sources e2e_boxes1 [] e2e_sc_rnd)) e2e_pieces = Some e2e_sc_wire1 /\
  fst (run_func2 (ext_scopen toy_crypto kr [ed_pub toy_crypto e2e_sgk] None) f_saltpack_SigncryptOpen [VBytes e2e_sc_wire1; VNil; VNil])
  = ORet [VBytes (ed_pub toy_crypto e2e_sgk); VBytes [x68; x69; x21]; VNil].
Proof.
  destruct (go_signcrypt_end_to_end_box_stream toy_crypto toy_crypto_ok [ed_pub toy_crypto e2e_sgk] None VNil VNil (VBytes e2e_sc_wire1)
              e2e_sss0 (Some e2e_sgk) e2e_boxes1 [] e2e_sc_rnd e2e_sc_rnd1 e2e_pieces e2e_sc_wire1 e2e_sk1) as [Hout [H|Bk]].
  - repeat split.
  - pose proof S6.blk_pos as Hb. apply Forall_cons; [cbn [List.length]; lia|]. apply Forall_cons; [cbn [List.length]; lia|]. apply Forall_nil.
  - vm_compute. reflexivity.
  - unfold SigncryptProofs.header_fits. vm_compute. reflexivity.
  - left. reflexivity.
  - intros s Hs. injection Hs as <-. split; [left; reflexivity|vm_compute; reflexivity].
  - reflexivity.
  - split; [exact Hout|]. exact (proj1 H).
  - exfalso. destruct Bk as (i & Hi & j & kid & Hji & Hn & _).
    change (sc_model_rs e2e_boxes1 [] e2e_sc_rnd) with [BoxRcpt (dh_pub toy_crypto e2e_sk1)] in Hi, Hn.
    assert (Ei : i = 0%nat) by (destruct i as [|[|i]]; [reflexivity|discriminate|discriminate]).
    assert (Ej : j = 0%nat).
    { unfold SigncryptProofs.sc_header_kids in Hn. cbn [mapi_from map nth_error] in Hn.
      destruct j as [|[|j]]; [reflexivity|discriminate|discriminate]. }
    congruence.
Qed.
