(* KeyTraceProofs.v — C12: whatever bytes a receiver is given, its long-term box
   secret key is used to open a box only under the fixed saltpack payload-key
   nonces and otherwise only to box 32 zero bytes; a signing key only signs
   domain-separated fixed-length hash material.
   Statements marked (TARGET) are used verbatim by props/. *)
From Coq Require Import List NArith ZArith Bool Lia ZifyN ZifyNat ZifyBool.
From Coq.Strings Require Import Byte.
From SP Require Import Bytes Params Msgpack Crypto Errors Nonce Packets Chunker Rand Verify Encrypt Decrypt Signcrypt Sign KeyTrace.
Import ListNotations.
Open Scope N_scope.

(* ---- auxiliary lemmas ---- *)

Lemma kt_be_bytes_acc_length k : forall n acc, length (be_bytes_acc k n acc) = (k + length acc)%nat.
Proof.
  induction k as [|k IH]; intros n acc; simpl; [reflexivity|].
  rewrite IH. simpl. lia.
Qed.

Lemma kt_be64_length n : length (be64 n) = 8%nat.
Proof. unfold be64, be_bytes. rewrite kt_be_bytes_acc_length. reflexivity. Qed.

Lemma kt_payload_nonce_ok v i n :
  nonce_payload_key_box v i = Some n -> payload_key_nonce_ok n.
Proof.
  unfold nonce_payload_key_box, payload_key_nonce_ok.
  destruct (vmaj v =? 1)%Z.
  - intros H; inversion H; subst. left. reflexivity.
  - destruct (vmaj v =? 2)%Z; [|discriminate].
    intros H; inversion H; subst. right. eexists; reflexivity.
Qed.

Lemma kt_mapi_from_Forall {A B} (P : B -> Prop) (f : N -> A -> B) :
  (forall i x, P (f i x)) -> forall l s, Forall P (mapi_from f s l).
Proof.
  intros Hf l; induction l as [|x t IH]; intros s; simpl; constructor; auto.
Qed.

Section T.
Variable c : crypto.

Lemma kt_hidden_box_events_ok v k eph rcvs : forall i,
  Forall receiver_event_ok (fst (hidden_box_events c v k eph rcvs i)).
Proof.
  induction rcvs as [|[kid box] t IH]; intros i; simpl; [constructor|].
  destruct kid as [|b kid']; [|apply IH].
  destruct (nonce_payload_key_box v i) as [nonce|] eqn:En; [|constructor].
  apply kt_payload_nonce_ok in En.
  destruct (sb_open c (dh_shared c (fst k) eph) nonce box).
  - simpl. constructor; [exact En|constructor].
  - specialize (IH (i + 1)).
    destruct (hidden_box_events c v k eph t (i + 1)) as [r s]. simpl in *.
    constructor; [exact En|exact IH].
Qed.

Lemma kt_hidden_events_ok keys v eph rcvs :
  Forall receiver_event_ok (hidden_events c keys v eph rcvs).
Proof.
  induction keys as [|k t IH]; simpl; [constructor|].
  pose proof (kt_hidden_box_events_ok v k eph rcvs 0) as H.
  destruct (hidden_box_events c v k eph rcvs 0) as [evs stop]. simpl in H.
  destruct stop; [exact H|].
  apply Forall_app; split; assumption.
Qed.

Lemma kt_mac_key_events_ok v index k spk epk hh :
  Forall receiver_event_ok (mac_key_events v index k spk epk hh).
Proof.
  unfold mac_key_events.
  destruct (vmaj v =? 1)%Z; [repeat constructor|].
  destruct (vmaj v =? 2)%Z; repeat constructor.
Qed.

Lemma kt_open_header_events_ok vd kr hh h :
  Forall receiver_event_ok (open_header_events c vd kr hh h).
Proof.
  unfold open_header_events.
  destruct (validate_enc_header vd h); [|constructor].
  destruct (negb (Nat.eqb (length (h_a h)) 32)); [constructor|].
  set (first := match match lookup_box_secret kr (map snd (named_with_index (h_rcvs h) 0)) 0 with
                      | Some (i, k) => _ | None => None end with
                | Some e => e | None => _ end).
  assert (Hfirst : Forall receiver_event_ok first).
  { subst first.
    destruct (lookup_box_secret kr (map snd (named_with_index (h_rcvs h) 0)) 0) as [[i k]|];
      [|apply kt_hidden_events_ok].
    destruct (nth_error (named_with_index (h_rcvs h) 0) i) as [[orig x]|]; [|constructor].
    destruct (nonce_payload_key_box (h_version h) orig) as [nonce|] eqn:En; [|constructor].
    constructor; [|constructor]. simpl. eapply kt_payload_nonce_ok; exact En. }
  clearbody first.
  destruct (process_enc_header c vd kr hh h) as [[m st]|]; [|exact Hfirst].
  destruct (find _ (kr_keys kr)); [|exact Hfirst].
  apply Forall_app; split; [exact Hfirst|apply kt_mac_key_events_ok].
Qed.

(* (TARGET) encryption receiver, for EVERY input, validator and keyring *)
Lemma open_events_ok (vd : validator) (kr : keyring) (input : bytes) :
  Forall receiver_event_ok (open_events c vd kr input).
Proof.
  unfold open_events.
  destruct (read_header_bytes input) as [[hb rest]|]; [|constructor].
  destruct (decode_header view_enc_header hb); [|constructor].
  apply kt_open_header_events_ok.
Qed.

(* (TARGET) signcryption receiver: only Box(32 zero bytes) under the fixed derived-key nonce *)
Lemma sc_open_events_ok (kr : keyring) (input : bytes) :
  Forall (fun e => match e with
                   | KBox _ _ nonce msg => nonce = nonce_derived_shared_key /\ msg = zeros 32
                   | _ => False
                   end) (sc_open_events kr input).
Proof.
  unfold sc_open_events.
  destruct (read_header_bytes input) as [[hb rest]|]; [|constructor].
  destruct (decode_header view_enc_header hb) as [h|]; [|constructor].
  destruct (validate_sc_header h); [|constructor].
  destruct (negb (Nat.eqb (length (h_a h)) 32)); [constructor|].
  apply Forall_forall. intros e He. apply in_map_iff in He.
  destruct He as [k [<- _]]. split; reflexivity.
Qed.

(* (TARGET) encryption sender: the long-term key only boxes 32 zero bytes *)
Lemma seal_sender_events_ok (v : version) (sender_sk eph_sk pkey : bytes) (rs : list rcpt) :
  Forall (fun e => match e with KBox _ _ _ msg => msg = zeros 32 | _ => False end)
         (seal_sender_events c v sender_sk eph_sk pkey rs).
Proof.
  unfold seal_sender_events. apply kt_mapi_from_Forall. intros; reflexivity.
Qed.

Hypothesis Hsha : forall x, length (sha512 c x) = 64%nat.

Lemma kt_attached_sig_input_shape v hh chunk n final m :
  attached_sig_input c v hh chunk n final = Some m ->
  exists rest, m = sig_attached_prefix ++ sha512 c (hh ++ rest).
Proof.
  unfold attached_sig_input.
  destruct (vmaj v =? 1)%Z.
  - intros H; inversion H. eexists; reflexivity.
  - destruct (vmaj v =? 2)%Z; [|discriminate].
    intros H; inversion H. eexists; reflexivity.
Qed.

Lemma kt_attached_sign_inputs_shape v hh ps : forall n,
  Forall (fun m => exists rest, m = sig_attached_prefix ++ sha512 c (hh ++ rest))
         (attached_sign_inputs c v hh n ps).
Proof.
  induction ps as [|[chunk final] t IH]; intros n; simpl; [constructor|].
  destruct (attached_sig_input c v hh chunk n final) as [m|] eqn:E; [|constructor].
  constructor; [|apply IH].
  eapply kt_attached_sig_input_shape; exact E.
Qed.

Lemma kt_read_full_fst k r x r' : read_full k r = Some (x, r') -> x = firstn k r.
Proof.
  unfold read_full. destruct (Nat.leb k (length r)); [|discriminate].
  intros H; inversion H; reflexivity.
Qed.

(* (TARGET) signers: every string handed to Sign starts with one of the three
   domain-separation strings followed by fixed-length hash material *)
Lemma sign_attached_events_ok (v : version) (sk : bytes) (pieces : list bytes) (r : rng) :
  Forall (fun e => match e with KSign _ m => sign_input_ok m | _ => False end)
         (sign_attached_events c v sk pieces r).
Proof.
  unfold sign_attached_events.
  destruct (negb (known_version v)); [constructor|].
  destruct (read_full 16 r) as [[nonce r']|]; [|constructor].
  apply Forall_forall. intros e He. apply in_map_iff in He.
  destruct He as [m [<- Hm]].
  pose proof (kt_attached_sign_inputs_shape v
    (sha512 c (sig_header_bytes v mt_attached (ed_pub c sk) nonce))
    (cw_session v sig_block_size [] pieces) 0) as HF.
  rewrite Forall_forall in HF. destruct (HF m Hm) as [rest ->].
  left. eexists; split; [reflexivity|apply Hsha].
Qed.

Lemma sign_detached_events_ok (v : version) (sk msg : bytes) (r : rng) :
  Forall (fun e => match e with KSign _ m => sign_input_ok m | _ => False end)
         (sign_detached_events c v sk msg r).
Proof.
  unfold sign_detached_events.
  destruct (negb (known_version v)); [constructor|].
  destruct (read_full 16 r) as [[nonce r']|]; [|constructor].
  constructor; [|constructor].
  right; left. unfold detached_sig_input, detached_sig_input_from_hash.
  eexists; split; [reflexivity|apply Hsha].
Qed.

Lemma signcrypt_sign_inputs_ok (hdr : bytes) (n : N) (ps : list (bytes * bool)) :
  Forall sign_input_ok (signcrypt_sign_inputs c (sha512 c hdr) n ps).
Proof.
  revert n. induction ps as [|[chunk final] t IH]; intros n; simpl; [constructor|].
  constructor; [|apply IH].
  right; right. unfold signcrypt_sig_input.
  eexists; split; [reflexivity|].
  unfold nonce_chunk_signcryption, hash16_flag_index, final_byte.
  rewrite !app_length, firstn_length, !Hsha, kt_be64_length. simpl. reflexivity.
Qed.

(* (TARGET) the hash material of an attached/detached signature is bound to a header
   that contains the 16 bytes of fresh randomness drawn for this message *)
Lemma sign_attached_inputs_bound (v : version) (sk : bytes) (pieces : list bytes) (r : rng) :
  Forall (fun e => match e with
                   | KSign _ m => exists rest,
                       m = sig_attached_prefix ++
                           sha512 c (sha512 c (sig_header_bytes v mt_attached (ed_pub c sk) (firstn 16 r)) ++ rest)
                   | _ => False
                   end) (sign_attached_events c v sk pieces r).
Proof.
  unfold sign_attached_events.
  destruct (negb (known_version v)); [constructor|].
  destruct (read_full 16 r) as [[nonce r']|] eqn:Er; [|constructor].
  apply kt_read_full_fst in Er. subst nonce.
  apply Forall_forall. intros e He. apply in_map_iff in He.
  destruct He as [m [<- Hm]].
  pose proof (kt_attached_sign_inputs_shape v
    (sha512 c (sig_header_bytes v mt_attached (ed_pub c sk) (firstn 16 r)))
    (cw_session v sig_block_size [] pieces) 0) as HF.
  rewrite Forall_forall in HF. exact (HF m Hm).
Qed.

End T.
