(* StreamProofs.v — C13/C14: the streaming adaptors compute their denotation under
   EVERY read fragmentation (underlying segments, data-with-error) and EVERY
   sequence of caller buffer sizes, the stream encoders under every split of the
   input across Write calls, with bounded buffers; an error of the underlying
   reader is what ends the adaptor's stream (never swallowed, never a clean end).
   Statements marked (TARGET) are used verbatim by props/. *)
From Coq Require Import List NArith ZArith Bool Lia ZifyN ZifyNat ZifyBool.
From Coq.Strings Require Import Byte.
From SP Require Import Bytes Consts Params Errors BaseX Encodings Armor Streams.
Import ListNotations.

Definition pos_sizes (sizes : list nat) : Prop := Forall (fun n => (0 < n)%nat) sizes.

(* ---------- general list / byte utilities ---------- *)

Lemma sp_split_at_acc (n : nat) : forall (l acc : bytes),
  split_at_acc n l acc = (rev acc ++ firstn n l, skipn n l).
Proof.
  induction n as [|n IH]; intros l acc; destruct l as [|b t];
    cbn [split_at_acc firstn skipn]; rewrite ?rev_append_rev, ?app_nil_r; try reflexivity.
  rewrite IH. cbn [rev]. rewrite <- app_assoc. reflexivity.
Qed.

Lemma sp_split_at (n : nat) (l : bytes) : split_at n l = (firstn n l, skipn n l).
Proof. unfold split_at. rewrite sp_split_at_acc. reflexivity. Qed.

Lemma byte_eqb_refl (b : byte) : Byte.eqb b b = true.
Proof. apply Byte.byte_dec_lb. reflexivity. Qed.

Lemma is_prefix_app (a b : bytes) : is_prefix a (a ++ b) = true.
Proof.
  induction a as [|x a IH]; cbn [is_prefix app]; [reflexivity|].
  rewrite byte_eqb_refl, IH. reflexivity.
Qed.

Lemma skipn_nil_firstn {A} (n : nat) (l : list A) : skipn n l = [] -> firstn n l = l.
Proof.
  intro H. rewrite <- (firstn_skipn n l) at 2. rewrite H, app_nil_r. reflexivity.
Qed.

(* ---------- chunkReader ---------- *)

(* the chunker's results: no (empty chunk, no error) result; the list ends with an error *)
Definition chunks_wf (l : list (bytes * option err)) : Prop :=
  Forall (fun r => fst r <> [] \/ snd r <> None) l /\
  exists init ch e, l = init ++ [(ch, Some e)] /\ Forall (fun r => snd r = None) init.

(* what is needed of the pending results: no "empty chunk, nil error" and an error somewhere *)
Definition pend_wf (l : list (bytes * option err)) : Prop :=
  Forall (fun r => fst r <> [] \/ snd r <> None) l /\ snd (chunks_denote l) <> None.

Lemma chunks_wf_pend (l : list (bytes * option err)) : chunks_wf l -> pend_wf l.
Proof.
  intros [HF (init & ch & e & -> & Hi)]. split; [exact HF|]. clear HF.
  induction init as [|[c oe] t IH]; cbn [app chunks_denote].
  - cbn [snd]. discriminate.
  - inversion Hi as [|x y Hx Hy]; subst. cbn [snd] in Hx. subst oe.
    specialize (IH Hy). destruct (chunks_denote (t ++ [(ch, Some e)])). exact IH.
Qed.

Lemma pend_wf_tail (ch : bytes) (t : list (bytes * option err)) :
  pend_wf ((ch, None) :: t) -> pend_wf t.
Proof.
  intros [HF He]. split; [inversion HF; assumption|].
  cbn [chunks_denote] in He. destruct (chunks_denote t). exact He.
Qed.

(* what remains to be delivered by a chunkReader state *)
Definition cr_rem (st : cr_state) : bytes * option err :=
  match cr_err st with
  | Some e => (cr_prev st, Some e)
  | None => let (d, e) := chunks_denote (cr_pending st) in (cr_prev st ++ d, e)
  end.

Definition cr_inv (st : cr_state) : Prop := cr_err st = None -> pend_wf (cr_pending st).

Lemma cr_rem_pop (ch : bytes) (e : option err) (t : list (bytes * option err)) :
  cr_rem (mkCr ch e t) = chunks_denote ((ch, e) :: t).
Proof.
  unfold cr_rem. cbn [cr_err cr_prev cr_pending chunks_denote]. destruct e; reflexivity.
Qed.

Lemma cr_read_spec (n : nat) : forall (fuel : nat) (st : cr_state) (out : bytes),
  cr_inv st -> (length (cr_pending st) < fuel)%nat -> (length out <= n)%nat ->
  let '((out', oe), st') := cr_read fuel n st out in
  match oe with
  | None => exists d, out' = out ++ d /\ length out' = n /\ cr_inv st' /\
                      fst (cr_rem st) = d ++ fst (cr_rem st') /\ snd (cr_rem st) = snd (cr_rem st')
  | Some e => out' = out ++ fst (cr_rem st) /\ Some e = snd (cr_rem st)
  end.
Proof.
  induction fuel as [|f IH]; intros st out Hinv Hf Hout; [lia|].
  cbn [cr_read].
  set (room := (n - length out)%nat).
  destruct (skipn room (cr_prev st)) as [|x r] eqn:Hsk.
  - pose proof (skipn_nil_firstn _ _ Hsk) as Hfi. rewrite Hfi.
    destruct (cr_err st) as [e|] eqn:He.
    + unfold cr_rem. rewrite He. cbn [fst snd]. split; reflexivity.
    + specialize (Hinv He).
      destruct (cr_pending st) as [|[ch e] t] eqn:Hp.
      * exfalso. destruct Hinv as [_ H]. apply H. reflexivity.
      * assert (Hrem : cr_rem st = (cr_prev st ++ fst (chunks_denote ((ch, e) :: t)),
                                   snd (chunks_denote ((ch, e) :: t)))).
        { unfold cr_rem. rewrite He, Hp. destruct (chunks_denote ((ch, e) :: t)). reflexivity. }
        assert (Hlen : (length (out ++ cr_prev st) <= n)%nat).
        { rewrite app_length. rewrite <- Hfi, firstn_length. lia. }
        assert (Hinv' : cr_inv (mkCr ch e t)).
        { unfold cr_inv. cbn [cr_err cr_pending]. intros ->. apply (pend_wf_tail ch t Hinv). }
        assert (Hf' : (length (cr_pending (mkCr ch e t)) < f)%nat).
        { cbn [cr_pending]. cbn [length] in Hf. lia. }
        assert (Hgoal :
          let '(out', oe, st') := cr_read f n (mkCr ch e t) (out ++ cr_prev st) in
          match oe with
          | Some e0 => out' = out ++ fst (cr_rem st) /\ Some e0 = snd (cr_rem st)
          | None => exists d : list byte, out' = out ++ d /\ length out' = n /\ cr_inv st' /\
                      fst (cr_rem st) = d ++ fst (cr_rem st') /\ snd (cr_rem st) = snd (cr_rem st')
          end).
        { specialize (IH (mkCr ch e t) (out ++ cr_prev st) Hinv' Hf' Hlen).
          destruct (cr_read f n (mkCr ch e t) (out ++ cr_prev st)) as [[out' oe] st'].
          rewrite cr_rem_pop in IH. rewrite Hrem. cbn [fst snd].
          destruct oe as [e0|].
          - destruct IH as [-> IH2]. split; [rewrite app_assoc; reflexivity|exact IH2].
          - destruct IH as (d & -> & Hl & Hi & H1 & H2). exists (cr_prev st ++ d).
            split; [rewrite app_assoc; reflexivity|]. split; [exact Hl|]. split; [exact Hi|].
            split; [rewrite H1, app_assoc; reflexivity|exact H2]. }
        destruct ch as [|c ch'].
        -- destruct e as [e|].
           ++ exact Hgoal.
           ++ exfalso. destruct Hinv as [HF _]. inversion HF as [|? ? Hh]; subst.
              cbn [fst snd] in Hh. destruct Hh; congruence.
        -- exact Hgoal.
  - exists (firstn room (cr_prev st)). split; [reflexivity|]. split.
    + rewrite app_length, firstn_length.
      assert (length (skipn room (cr_prev st)) <> 0)%nat by (rewrite Hsk; discriminate).
      rewrite skipn_length in H. lia.
    + split.
      * unfold cr_inv. cbn [cr_err cr_pending]. exact Hinv.
      * unfold cr_rem. cbn [cr_err cr_prev cr_pending].
        destruct (cr_err st); cbn [fst snd].
        -- rewrite <- Hsk, firstn_skipn. split; reflexivity.
        -- destruct (chunks_denote (cr_pending st)). cbn [fst snd].
           rewrite app_assoc, <- Hsk, firstn_skipn. split; reflexivity.
Qed.

Lemma cr_drain_gen (D : bytes) (E : option err) : forall (sizes : list nat) (st : cr_state) (acc : bytes),
  pos_sizes sizes -> cr_inv st -> acc ++ fst (cr_rem st) = D -> snd (cr_rem st) = E ->
  match snd (cr_drain sizes st acc) with
  | Some e => fst (cr_drain sizes st acc) = D /\ Some e = E
  | None => is_prefix (fst (cr_drain sizes st acc)) D = true /\
            (length sizes <= length (fst (cr_rem st)))%nat
  end.
Proof.
  induction sizes as [|n t IH]; intros st acc Hpos Hinv HD HE; subst D E; cbn [cr_drain].
  - cbn [fst snd]. split; [apply is_prefix_app|cbn [length]; lia].
  - inversion Hpos as [|? ? Hn Ht]; subst.
    pose proof (cr_read_spec n (S (S (length (cr_pending st)))) st [] Hinv ltac:(lia)
                  ltac:(cbn [length]; lia)) as Hr.
    destruct (cr_read (S (S (length (cr_pending st)))) n st []) as [[d oe] st'].
    destruct oe as [e|].
    + cbn [fst snd]. destruct Hr as [-> Hr2]. cbn [app]. split; [reflexivity|exact Hr2].
    + destruct Hr as (d' & -> & Hl & Hi & H1 & H2). cbn [app] in *.
      specialize (IH st' (acc ++ d') Ht Hi).
      assert (HD' : (acc ++ d') ++ fst (cr_rem st') = acc ++ fst (cr_rem st))
        by (rewrite H1, app_assoc; reflexivity).
      specialize (IH HD' (eq_sym H2)).
      destruct (snd (cr_drain t st' (acc ++ d'))).
      * exact IH.
      * destruct IH as [IH1 IH2]. split; [exact IH1|].
        rewrite H1, app_length. cbn [length]. lia.
Qed.

Lemma cr_init_rem (l : list (bytes * option err)) : cr_rem (mkCr [] None l) = chunks_denote l.
Proof. unfold cr_rem. cbn [cr_err cr_prev cr_pending app]. destruct (chunks_denote l); reflexivity. Qed.

(* (TARGET) whatever buffer sizes the caller uses, what chunkReader has delivered so far
   is a prefix of the chunks' concatenation, and once it reports an error it has
   delivered all of it and the error is the chunker's *)
Lemma cr_drain_sound (l : list (bytes * option err)) (sizes : list nat) :
  chunks_wf l -> pos_sizes sizes ->
  let '(d, oe) := cr_drain sizes (mkCr [] None l) [] in
  let '(D, E) := chunks_denote l in
  match oe with
  | Some e => d = D /\ Some e = E
  | None => is_prefix d D = true
  end.
Proof.
  intros Hwf Hpos.
  assert (Hinv : cr_inv (mkCr [] None l)).
  { intros _. apply chunks_wf_pend. exact Hwf. }
  pose proof (cr_drain_gen (fst (chunks_denote l)) (snd (chunks_denote l)) sizes (mkCr [] None l) []
                Hpos Hinv) as H.
  rewrite cr_init_rem in H. specialize (H eq_refl eq_refl).
  destruct (cr_drain sizes (mkCr [] None l) []) as [d oe].
  destruct (chunks_denote l) as [D E]. cbn [fst snd] in H.
  destruct oe; [exact H|apply H].
Qed.

(* (TARGET) ... and it gets there: enough reads of any positive sizes end with the error *)
Lemma cr_drain_complete (l : list (bytes * option err)) (sizes : list nat) :
  chunks_wf l -> pos_sizes sizes ->
  (length (fst (chunks_denote l)) + length l + 1 <= length sizes)%nat ->
  snd (cr_drain sizes (mkCr [] None l) []) <> None.
Proof.
  intros Hwf Hpos Hlen.
  assert (Hinv : cr_inv (mkCr [] None l)).
  { intros _. apply chunks_wf_pend. exact Hwf. }
  pose proof (cr_drain_gen (fst (chunks_denote l)) (snd (chunks_denote l)) sizes (mkCr [] None l) []
                Hpos Hinv) as H.
  rewrite cr_init_rem in H. specialize (H eq_refl eq_refl).
  destruct (snd (cr_drain sizes (mkCr [] None l) [])); [discriminate|].
  destruct H as [_ H]. lia.
Qed.

(* ---------- punctuatedReader ---------- *)

Definition nodot (l : bytes) : Prop := ~ In dot l.
Definition flatten (done : list bytes) (cur : bytes) : bytes :=
  concat (map (fun p => p ++ [dot]) done) ++ cur.

(* a source that never returns (0 bytes, no error) *)
Definition src_wf (s : source) : Prop :=
  Forall (fun sg => seg_data sg <> [] \/ seg_err sg <> None) (src_segs s).

Lemma nodot_nil : nodot [].
Proof. intros []. Qed.

Lemma nodot_app (a b : bytes) : nodot a -> nodot b -> nodot (a ++ b).
Proof. unfold nodot. intros Ha Hb H. apply in_app_or in H. tauto. Qed.

Lemma nodot_app_l (a b : bytes) : nodot (a ++ b) -> nodot a.
Proof. unfold nodot. intros H Ha. apply H, in_or_app. tauto. Qed.

Lemma nodot_app_r (a b : bytes) : nodot (a ++ b) -> nodot b.
Proof. unfold nodot. intros H Ha. apply H, in_or_app. tauto. Qed.

Lemma nodot_firstn (n : nat) (a : bytes) : nodot a -> nodot (firstn n a).
Proof. intro H. rewrite <- (firstn_skipn n a) in H. exact (nodot_app_l _ _ H). Qed.

Lemma nodot_skipn (n : nat) (a : bytes) : nodot a -> nodot (skipn n a).
Proof. intro H. rewrite <- (firstn_skipn n a) in H. exact (nodot_app_r _ _ H). Qed.

(* split_dot *)
Lemma split_dot_acc_spec (l : bytes) : forall acc,
  match split_dot_acc l acc with
  | Some (a, r) => exists a', a = rev acc ++ a' /\ l = a' ++ dot :: r /\ nodot a'
  | None => nodot l
  end.
Proof.
  induction l as [|b t IH]; intros acc; cbn [split_dot_acc].
  - exact nodot_nil.
  - destruct (Byte.eqb b dot) eqn:E.
    + apply Byte.byte_dec_bl in E. subst b. exists [].
      rewrite rev_append_rev, !app_nil_r. repeat split. exact nodot_nil.
    + specialize (IH (b :: acc)). destruct (split_dot_acc t (b :: acc)) as [[a r]|].
      * destruct IH as (a' & -> & -> & Hn). exists (b :: a'). cbn [rev].
        rewrite <- app_assoc. repeat split.
        intros [Hb|H]; [|exact (Hn H)]. rewrite Hb, byte_eqb_refl in E. discriminate.
      * intros [Hb|H]; [|exact (IH H)]. rewrite Hb, byte_eqb_refl in E. discriminate.
Qed.

Lemma split_dot_some (l a r : bytes) : split_dot l = Some (a, r) -> l = a ++ dot :: r /\ nodot a.
Proof.
  unfold split_dot. intro H. pose proof (split_dot_acc_spec l []) as S. rewrite H in S.
  destruct S as (a' & -> & -> & Hn). cbn [rev app]. split; [reflexivity|exact Hn].
Qed.

Lemma split_dot_none (l : bytes) : split_dot l = None -> nodot l.
Proof.
  unfold split_dot. intro H. pose proof (split_dot_acc_spec l []) as S. rewrite H in S. exact S.
Qed.

Lemma split_dot_acc_nodot (l : bytes) : forall acc, nodot l -> split_dot_acc l acc = None.
Proof.
  induction l as [|b t IH]; intros acc Hn; cbn [split_dot_acc]; [reflexivity|].
  destruct (Byte.eqb b dot) eqn:E.
  - apply Byte.byte_dec_bl in E. exfalso. apply Hn. left. exact E.
  - apply IH. intro H. apply Hn. right. exact H.
Qed.

Lemma split_dot_acc_at (a r : bytes) : forall acc, nodot a ->
  split_dot_acc (a ++ dot :: r) acc = Some (rev acc ++ a, r).
Proof.
  induction a as [|b t IH]; intros acc Hn; cbn [split_dot_acc app].
  - rewrite byte_eqb_refl, rev_append_rev, !app_nil_r. reflexivity.
  - destruct (Byte.eqb b dot) eqn:E.
    + apply Byte.byte_dec_bl in E. exfalso. apply Hn. left. exact E.
    + rewrite IH by (intro H; apply Hn; right; exact H).
      cbn [rev]. rewrite <- app_assoc. reflexivity.
Qed.

Lemma split_dot_at (a r : bytes) : nodot a -> split_dot (a ++ dot :: r) = Some (a, r).
Proof. intro Hn. unfold split_dot. rewrite split_dot_acc_at by exact Hn. reflexivity. Qed.

Lemma split_dot_nodot (l : bytes) : nodot l -> split_dot l = None.
Proof. intro Hn. apply split_dot_acc_nodot. exact Hn. Qed.

(* the underlying reader *)
Lemma src_read_spec (n : nat) (s : source) :
  let '((data, oe), s') := src_read n s in
  fst (src_denote s) = data ++ fst (src_denote s') /\
  snd (src_denote s) = snd (src_denote s') /\
  (forall e, oe = Some e -> src_segs s' = [] /\ src_final s' = e) /\
  ((0 < n)%nat -> src_wf s -> src_wf s' /\ (oe = None -> data <> [])).
Proof.
  destruct s as [segs fin]. unfold src_read. cbn [src_segs src_final].
  destruct segs as [|[sd se] t].
  - unfold src_denote. cbn [src_segs src_final src_bytes fst snd app].
    split; [reflexivity|]. split; [reflexivity|]. split.
    + intros e [= <-]. split; reflexivity.
    + intros _ H. split; [exact H|discriminate].
  - cbn [seg_data seg_err]. destruct (Nat.leb (length sd) n) eqn:L.
    + destruct se as [e|].
      * unfold src_denote. cbn [src_segs src_final src_bytes seg_err seg_data fst snd].
        rewrite app_nil_r. split; [reflexivity|]. split; [reflexivity|]. split.
        -- intros e0 [= <-]. split; reflexivity.
        -- intros _ _. split; [constructor|discriminate].
      * unfold src_denote. cbn [src_segs src_final src_bytes seg_err seg_data].
        destruct (src_bytes t) as [d oe]. cbn [fst snd].
        split; [reflexivity|]. split; [reflexivity|]. split; [discriminate|].
        intros _ Hwf. inversion Hwf as [|? ? Hh Ht]; subst. cbn [seg_data seg_err] in Hh.
        split; [exact Ht|]. intros _ Hd. destruct Hh; congruence.
    + apply Nat.leb_gt in L.
      assert (Hf : firstn n sd <> [] \/ n = 0%nat).
      { destruct n; [right; reflexivity|left]. destruct sd; [cbn in L; lia|discriminate]. }
      assert (Hs : skipn n sd <> []).
      { intro Hd. apply (f_equal (@length byte)) in Hd. rewrite skipn_length in Hd.
        cbn [length] in Hd. lia. }
      unfold src_denote. cbn [src_segs src_final src_bytes seg_err seg_data].
      destruct se as [e|].
      * cbn [fst snd]. rewrite firstn_skipn.
        split; [reflexivity|]. split; [reflexivity|]. split; [discriminate|].
        intros Hpos Hwf. inversion Hwf as [|? ? Hh Ht]; subst. split.
        -- constructor; [|exact Ht]. cbn [seg_data seg_err]. right. discriminate.
        -- intros _. destruct Hf; [assumption|lia].
      * destruct (src_bytes t) as [d oe]. cbn [fst snd].
        rewrite app_assoc, firstn_skipn.
        split; [reflexivity|]. split; [reflexivity|]. split; [discriminate|].
        intros Hpos Hwf. inversion Hwf as [|? ? Hh Ht]; subst. split.
        -- constructor; [|exact Ht]. cbn [seg_data seg_err]. left. exact Hs.
        -- intros _. destruct Hf; [assumption|lia].
Qed.

(* the unread remainder of the reader's input, and its invariant *)
Definition pr_rem (st : pr_state) : bytes :=
  pr_this st ++ (if pr_this_punct st then [dot] else []) ++ pr_next st ++ fst (src_denote (pr_src st)).

Definition pr_E (st : pr_state) : err := snd (src_denote (pr_src st)).

Definition pr_inv (st : pr_state) : Prop :=
  nodot (pr_this st) /\ (pr_this st = [] -> pr_this_punct st = false) /\
  (forall e, pr_err st = Some e -> src_segs (pr_src st) = [] /\ src_final (pr_src st) = e).

(* hand out what fits of the scanned piece [a] *)
Definition pr_deliver (n : nat) (src : source) (er : option err) (a : bytes) (punct : bool) (nxt : bytes)
  : pr_result * pr_state :=
  match skipn n a with
  | [] => ((if punct then PrPunct (firstn n a) else PrData (firstn n a)), mkPr src nxt [] false er)
  | _ :: _ => (PrData (firstn n a), mkPr src nxt (skipn n a) punct er)
  end.

Lemma pr_deliver_spec (n : nat) (src : source) (er : option err) (a : bytes) (punct : bool) (nxt : bytes) :
  nodot a -> (forall e, er = Some e -> src_segs src = [] /\ src_final src = e) ->
  match pr_deliver n src er a punct nxt with
  | (PrData d, st') =>
      a ++ (if punct then [dot] else []) ++ nxt ++ fst (src_denote src) = d ++ pr_rem st' /\
      nodot d /\ pr_inv st' /\ pr_src st' = src /\
      ((0 < n)%nat -> (a = [] -> punct = true) -> d <> [])
  | (PrPunct d, st') =>
      a ++ (if punct then [dot] else []) ++ nxt ++ fst (src_denote src) = d ++ dot :: pr_rem st' /\
      nodot d /\ pr_inv st' /\ pr_src st' = src
  | (PrErr _ _, _) => False
  end.
Proof.
  intros Hn He. unfold pr_deliver.
  destruct (skipn n a) as [|x r] eqn:Hsk.
  - pose proof (skipn_nil_firstn _ _ Hsk) as Hfi. rewrite Hfi.
    assert (Hinv : pr_inv (mkPr src nxt [] false er)).
    { split; [exact nodot_nil|]. split; [reflexivity|exact He]. }
    destruct punct.
    + unfold pr_rem. cbn [pr_this pr_this_punct pr_next pr_src pr_err app].
      split; [reflexivity|]. split; [exact Hn|]. split; [exact Hinv|reflexivity].
    + unfold pr_rem. cbn [pr_this pr_this_punct pr_next pr_src pr_err app].
      split; [reflexivity|]. split; [exact Hn|]. split; [exact Hinv|]. split; [reflexivity|].
      intros _ H Ha. specialize (H Ha). discriminate.
  - rewrite <- Hsk.
    assert (Hinv : pr_inv (mkPr src nxt (skipn n a) punct er)).
    { split; [apply nodot_skipn; exact Hn|]. split; [|exact He].
      cbn [pr_this]. rewrite Hsk. discriminate. }
    unfold pr_rem. cbn [pr_this pr_this_punct pr_next pr_src pr_err].
    split; [rewrite (app_assoc (firstn n a)), firstn_skipn; reflexivity|].
    split; [apply nodot_firstn; exact Hn|]. split; [exact Hinv|]. split; [reflexivity|].
    intros Hpos _ Hd. apply (f_equal (@length byte)) in Hd. rewrite firstn_length in Hd.
    assert (length (skipn n a) <> 0)%nat by (rewrite Hsk; discriminate).
    rewrite skipn_length in H. cbn [length] in Hd. lia.
Qed.

Lemma pr_read_this (n : nat) (st : pr_state) : pr_this st <> [] ->
  pr_read n st = pr_deliver n (pr_src st) (pr_err st) (pr_this st) (pr_this_punct st) (pr_next st).
Proof.
  intro H. unfold pr_read, pr_deliver. destruct (pr_this st) as [|b t] eqn:Ht; [congruence|].
  cbv zeta. destruct (skipn n (b :: t)); reflexivity.
Qed.

Lemma pr_read_next (n : nat) (st : pr_state) : pr_this st = [] -> pr_next st <> [] ->
  pr_read n st =
  pr_deliver n (pr_src st) (pr_err st) (fst (pr_scan (pr_next st)))
    (match snd (pr_scan (pr_next st)) with Some _ => true | None => false end)
    (match snd (pr_scan (pr_next st)) with Some r => r | None => [] end).
Proof.
  intros Ht H. unfold pr_read, pr_deliver. rewrite Ht.
  destruct (pr_next st) as [|b t] eqn:Hn; [congruence|].
  destruct (pr_scan (b :: t)) as [a rest]. cbv zeta. cbn [fst snd].
  destruct (skipn n a); reflexivity.
Qed.

Lemma pr_scan_spec (l : bytes) :
  nodot (fst (pr_scan l)) /\
  l = fst (pr_scan l) ++ match snd (pr_scan l) with Some r => dot :: r | None => [] end.
Proof.
  unfold pr_scan. destruct (split_dot l) as [[a r]|] eqn:Hs; cbn [fst snd].
  - apply split_dot_some in Hs. destruct Hs as [-> Hn]. split; [exact Hn|reflexivity].
  - apply split_dot_none in Hs. split; [exact Hs|]. rewrite app_nil_r. reflexivity.
Qed.

(* one Read: what it hands out comes off the front of the remainder *)
Definition pr_step_spec (n : nat) (st : pr_state) (res : pr_result * pr_state) : Prop :=
  match res with
  | (PrData d, st') =>
      pr_rem st = d ++ pr_rem st' /\ nodot d /\ pr_inv st' /\ pr_E st' = pr_E st /\
      ((0 < n)%nat -> src_wf (pr_src st) -> src_wf (pr_src st') /\ d <> [])
  | (PrPunct d, st') =>
      pr_rem st = d ++ dot :: pr_rem st' /\ nodot d /\ pr_inv st' /\ pr_E st' = pr_E st /\
      ((0 < n)%nat -> src_wf (pr_src st) -> src_wf (pr_src st'))
  | (PrErr d e, _) => d = [] /\ pr_rem st = [] /\ e = pr_E st
  end.

Lemma pr_read_spec (n : nat) (st : pr_state) : pr_inv st -> pr_step_spec n st (pr_read n st).
Proof.
  intros (Hth & Hpu & Her).
  assert (Hcase : pr_this st <> [] \/ (pr_this st = [] /\ pr_next st <> []) \/
                  (pr_this st = [] /\ pr_next st = [])).
  { destruct (pr_this st); [right|left; discriminate].
    destruct (pr_next st); [right; split; reflexivity|left; split; [reflexivity|discriminate]]. }
  destruct Hcase as [H1|[[H1 H2]|[H1 H2]]].
  - (* the rest of the current segment *)
    rewrite pr_read_this by exact H1.
    pose proof (pr_deliver_spec n (pr_src st) (pr_err st) (pr_this st) (pr_this_punct st) (pr_next st)
                  Hth Her) as S.
    destruct (pr_deliver n (pr_src st) (pr_err st) (pr_this st) (pr_this_punct st) (pr_next st))
      as [[d|d|d e] st']; unfold pr_step_spec.
    + destruct S as (S1 & S2 & S3 & S4 & S5).
      split; [exact S1|]. split; [exact S2|]. split; [exact S3|].
      split; [unfold pr_E; rewrite S4; reflexivity|].
      intros Hpos Hwf. rewrite S4. split; [exact Hwf|]. apply S5; [exact Hpos|].
      intro Ha. contradiction.
    + destruct S as (S1 & S2 & S3 & S4).
      split; [exact S1|]. split; [exact S2|]. split; [exact S3|].
      split; [unfold pr_E; rewrite S4; reflexivity|].
      intros Hpos Hwf. rewrite S4. exact Hwf.
    + destruct S.
  - (* a buffered segment *)
    rewrite pr_read_next by assumption.
    destruct (pr_scan_spec (pr_next st)) as [Sc1 Sc2].
    remember (pr_scan (pr_next st)) as sc eqn:Hsc. destruct sc as [a rest]. cbn [fst snd] in *.
    pose proof (pr_deliver_spec n (pr_src st) (pr_err st) a
        (match rest with Some _ => true | None => false end)
        (match rest with Some r => r | None => [] end) Sc1 Her) as S.
    assert (Hrem : pr_rem st =
        a ++ (if match rest with Some _ => true | None => false end then [dot] else []) ++
        match rest with Some r => r | None => [] end ++ fst (src_denote (pr_src st))).
    { unfold pr_rem. rewrite H1, (Hpu H1), Sc2. cbn [app].
      destruct rest; cbn [app]; rewrite <- app_assoc; reflexivity. }
    assert (Hane : a = [] -> match rest with Some _ => true | None => false end = true).
    { intros ->. destruct rest; [reflexivity|]. cbn [app] in Sc2. contradiction. }
    destruct (pr_deliver n (pr_src st) (pr_err st) a
        (match rest with Some _ => true | None => false end)
        (match rest with Some r => r | None => [] end)) as [[d|d|d e] st']; unfold pr_step_spec.
    + destruct S as (S1 & S2 & S3 & S4 & S5). rewrite Hrem.
      split; [exact S1|]. split; [exact S2|]. split; [exact S3|].
      split; [unfold pr_E; rewrite S4; reflexivity|].
      intros Hpos Hwf. rewrite S4. split; [exact Hwf|]. apply S5; assumption.
    + destruct S as (S1 & S2 & S3 & S4). rewrite Hrem.
      split; [exact S1|]. split; [exact S2|]. split; [exact S3|].
      split; [unfold pr_E; rewrite S4; reflexivity|].
      intros Hpos Hwf. rewrite S4. exact Hwf.
    + destruct S.
  - (* nothing buffered *)
    assert (Hrem : pr_rem st = fst (src_denote (pr_src st))).
    { unfold pr_rem. rewrite H1, H2, (Hpu H1). reflexivity. }
    unfold pr_read. rewrite H1, H2.
    destruct (pr_err st) as [e|] eqn:He.
    + unfold pr_step_spec. destruct (Her e eq_refl) as [Hs Hf].
      split; [reflexivity|]. rewrite Hrem. unfold pr_E, src_denote. rewrite Hs.
      cbn [src_bytes fst snd]. split; [reflexivity|symmetry; exact Hf].
    + pose proof (src_read_spec n (pr_src st)) as R.
      destruct (src_read n (pr_src st)) as [[data oe] s']. destruct R as (R1 & R2 & R3 & R4).
      assert (Hfresh : (data = [] -> oe = None) ->
        pr_step_spec n st
          (let (a, rest) := pr_scan data in
           let nxt := match rest with Some r => r | None => [] end in
           ((match rest with Some _ => PrPunct a | None => PrData a end), mkPr s' nxt [] false oe))).
      { intro Hd. destruct (pr_scan_spec data) as [Sc1 Sc2].
        destruct (pr_scan data) as [a rest]. cbn [fst snd] in Sc1, Sc2. cbv zeta.
        assert (Hinv : forall nx, pr_inv (mkPr s' nx [] false oe)).
        { intro nx. split; [exact nodot_nil|]. split; [reflexivity|exact R3]. }
        destruct rest as [r|]; unfold pr_step_spec.
        - rewrite Hrem, R1, Sc2. unfold pr_rem. cbn [pr_this pr_this_punct pr_next pr_src app].
          split; [rewrite <- app_assoc; reflexivity|]. split; [exact Sc1|]. split; [apply Hinv|].
          split; [unfold pr_E; cbn [pr_src]; symmetry; exact R2|].
          intros Hpos Hwf. cbn [pr_src]. apply (R4 Hpos Hwf).
        - rewrite app_nil_r in Sc2. subst a.
          rewrite Hrem, R1. unfold pr_rem. cbn [pr_this pr_this_punct pr_next pr_src app].
          split; [reflexivity|]. split; [exact Sc1|]. split; [apply Hinv|].
          split; [unfold pr_E; cbn [pr_src]; symmetry; exact R2|].
          intros Hpos Hwf. cbn [pr_src]. destruct (R4 Hpos Hwf) as [W1 W2]. split; [exact W1|].
          destruct oe as [e'|]; [|apply W2; reflexivity].
          intro Hdn. specialize (Hd Hdn). discriminate. }
      destruct data as [|x data'].
      * destruct oe as [e'|].
        -- unfold pr_step_spec. destruct (R3 e' eq_refl) as [Hs Hf].
           split; [reflexivity|]. rewrite Hrem, R1. unfold pr_E. rewrite R2. unfold src_denote. rewrite Hs.
           cbn [src_bytes fst snd app]. split; [reflexivity|symmetry; exact Hf].
        -- apply Hfresh. reflexivity.
      * apply Hfresh. discriminate.
Qed.

Lemma flatten_snoc (done : list bytes) (x : bytes) :
  flatten (rev (x :: done)) [] = flatten (rev done) x ++ [dot].
Proof.
  unfold flatten. cbn [rev]. rewrite map_app, concat_app. cbn [map concat].
  rewrite !app_nil_r, <- app_assoc. reflexivity.
Qed.

Lemma pr_drain_gen (D : bytes) : forall (sizes : list nat) (st : pr_state) (cur : bytes) (done : list bytes),
  pr_inv st -> Forall nodot done -> nodot cur ->
  flatten (rev done) cur ++ pr_rem st = D ->
  let '(done', cur', oe) := pr_drain sizes st cur done in
  Forall nodot done' /\ nodot cur' /\
  match oe with
  | Some e => flatten done' cur' = D /\ e = pr_E st
  | None => is_prefix (flatten done' cur') D = true
  end.
Proof.
  induction sizes as [|n t IH]; intros st cur done Hinv Hdone Hcur HD; cbn [pr_drain].
  - split; [apply Forall_rev; exact Hdone|]. split; [exact Hcur|].
    rewrite <- HD. apply is_prefix_app.
  - pose proof (pr_read_spec n st Hinv) as S.
    destruct (pr_read n st) as [[d|d|d e] st']; unfold pr_step_spec in S.
    + destruct S as (S1 & S2 & S3 & S4 & _).
      specialize (IH st' (cur ++ d) done S3 Hdone (nodot_app _ _ Hcur S2)).
      rewrite <- S4. apply IH. rewrite <- HD, S1. unfold flatten. rewrite <- !app_assoc. reflexivity.
    + destruct S as (S1 & S2 & S3 & S4 & _).
      specialize (IH st' [] ((cur ++ d) :: done) S3
                    (Forall_cons _ (nodot_app _ _ Hcur S2) Hdone) nodot_nil).
      rewrite <- S4. apply IH. rewrite <- HD, S1, flatten_snoc. unfold flatten.
      rewrite <- !app_assoc. reflexivity.
    + destruct S as (-> & S2 & ->). rewrite app_nil_r.
      split; [apply Forall_rev; exact Hdone|]. split; [exact Hcur|].
      split; [|reflexivity]. rewrite <- HD, S2, app_nil_r. reflexivity.
Qed.

Lemma pr_init_inv (s : source) : pr_inv (pr_init s).
Proof. split; [exact nodot_nil|]. split; [reflexivity|]. cbn [pr_init pr_err]. discriminate. Qed.

Lemma pr_init_rem (s : source) : pr_rem (pr_init s) = fst (src_denote s).
Proof. reflexivity. Qed.

(* (TARGET) for every fragmentation of the underlying reader (including data
   delivered together with EOF or another error) and every sequence of caller
   buffer sizes: the pieces delivered are exactly the input cut at the punctuation
   marks — so far as read; and when the reader reports an error it has delivered
   ALL the source's bytes and the error is the source's own *)
Lemma pr_drain_sound (s : source) (sizes : list nat) :
  pos_sizes sizes ->
  let '(done, cur, oe) := pr_drain sizes (pr_init s) [] [] in
  let '(D, E) := src_denote s in
  Forall nodot done /\ nodot cur /\
  match oe with
  | Some e => flatten done cur = D /\ e = E
  | None => is_prefix (flatten done cur) D = true
  end.
Proof.
  intros _.
  pose proof (pr_drain_gen (fst (src_denote s)) sizes (pr_init s) [] [] (pr_init_inv s)
                (Forall_nil _) nodot_nil eq_refl) as H.
  destruct (pr_drain sizes (pr_init s) [] []) as [[done cur] oe].
  unfold pr_E in H. cbn [pr_init pr_src] in H.
  destruct (src_denote s) as [D E]. cbn [fst snd] in H. exact H.
Qed.

(* the sentence up to the first punctuation mark, as a function of the source's bytes only *)
Definition sentence_denote (lim : nat) (D : bytes) (E : err) : result bytes :=
  match split_dot D with
  | Some (a, _) => if Nat.leb lim (length a) then Err ErrOverflow else Ok a
  | None => if Nat.leb lim (length D) then Err ErrOverflow
            else Err (match E with EOF => ErrUnexpectedEOF | e => e end)
  end.

Lemma sd_punct (lim : nat) (a r : bytes) (E : err) : nodot a ->
  sentence_denote lim (a ++ dot :: r) E = if Nat.leb lim (length a) then Err ErrOverflow else Ok a.
Proof. intro Hn. unfold sentence_denote. rewrite split_dot_at by exact Hn. reflexivity. Qed.

Lemma sd_overflow (lim : nat) (a r : bytes) (E : err) : nodot a -> (lim <= length a)%nat ->
  sentence_denote lim (a ++ r) E = Err ErrOverflow.
Proof.
  intros Hn Hl. unfold sentence_denote.
  destruct (split_dot r) as [[a' r']|] eqn:Hs.
  - apply split_dot_some in Hs. destruct Hs as [-> Hn'].
    rewrite app_assoc, split_dot_at by (apply nodot_app; assumption).
    assert (L : Nat.leb lim (length (a ++ a')) = true) by (apply Nat.leb_le; rewrite app_length; lia).
    rewrite L. reflexivity.
  - apply split_dot_none in Hs. rewrite split_dot_nodot by (apply nodot_app; assumption).
    assert (L : Nat.leb lim (length (a ++ r)) = true) by (apply Nat.leb_le; rewrite app_length; lia).
    rewrite L. reflexivity.
Qed.

Lemma sd_end (lim : nat) (a : bytes) (E : err) : nodot a -> (length a < lim)%nat ->
  sentence_denote lim a E = Err (match E with EOF => ErrUnexpectedEOF | e => e end).
Proof.
  intros Hn Hl. unfold sentence_denote. rewrite split_dot_nodot by exact Hn.
  assert (L : Nat.leb lim (length a) = false) by (apply Nat.leb_gt; exact Hl).
  rewrite L. reflexivity.
Qed.

Lemma pr_read_until_gen (lim : nat) : forall (fuel : nat) (st : pr_state) (acc : bytes),
  pr_inv st -> src_wf (pr_src st) -> nodot acc -> (length acc < lim)%nat ->
  (length (pr_rem st) < fuel)%nat ->
  fst (pr_read_until fuel lim st acc) = sentence_denote lim (acc ++ pr_rem st) (pr_E st).
Proof.
  induction fuel as [|f IH]; intros st acc Hinv Hwf Hacc Hlen Hf; [lia|].
  cbn [pr_read_until].
  pose proof (pr_read_spec 4096 st Hinv) as S.
  destruct (pr_read 4096 st) as [[d|d|d e] st']; unfold pr_step_spec in S.
  - destruct S as (S1 & S2 & S3 & S4 & S5).
    destruct (S5 ltac:(lia) Hwf) as [Hwf' Hne].
    destruct (Nat.leb lim (length (acc ++ d))) eqn:L.
    + apply Nat.leb_le in L. cbn [fst]. rewrite S1, app_assoc. symmetry.
      apply sd_overflow; [apply nodot_app; assumption|exact L].
    + apply Nat.leb_gt in L. destruct d as [|x d']; [congruence|].
      rewrite IH; try assumption.
      * rewrite S1, S4, app_assoc. reflexivity.
      * apply nodot_app; assumption.
      * rewrite S1, app_length in Hf. cbn [length] in Hf. lia.
  - destruct S as (S1 & S2 & S3 & S4 & _).
    rewrite S1, app_assoc, sd_punct by (apply nodot_app; assumption).
    destruct (Nat.leb lim (length (acc ++ d))); reflexivity.
  - destruct S as (-> & S2 & ->). cbn [fst]. rewrite S2, app_nil_r. symmetry.
    apply sd_end; assumption.
Qed.

(* (TARGET) ReadUntilPunctuation depends only on the bytes, not on their fragmentation *)
Lemma pr_read_until_denote (s : source) (lim fuel : nat) :
  src_wf s -> (0 < lim)%nat ->
  (length (fst (src_denote s)) + length (src_segs s) + 2 <= fuel)%nat ->
  fst (pr_read_until fuel lim (pr_init s) []) = sentence_denote lim (fst (src_denote s)) (snd (src_denote s)).
Proof.
  intros Hwf Hlim Hfuel.
  rewrite (pr_read_until_gen lim fuel (pr_init s) [] (pr_init_inv s) Hwf nodot_nil Hlim).
  - reflexivity.
  - rewrite pr_init_rem. lia.
Qed.

(* ---------- basex stream encoder ---------- *)

(* structural facts about the one-shot encoder: they need only a positive block length *)
Lemma enc_fuel_irrel (e : encoding) : (0 < enc_ibl e)%N -> forall f1 f2 src,
  (length src <= f1)%nat -> (length src <= f2)%nat ->
  encode_fuel e f1 src = encode_fuel e f2 src.
Proof.
  intros Hibl. induction f1 as [|f1 IH]; intros f2 src H1 H2.
  - destruct src; [|cbn in H1; lia]. destruct f2; reflexivity.
  - destruct src as [|b t]; [destruct f2; reflexivity|].
    destruct f2 as [|f2]; [cbn in H2; lia|]. cbn [encode_fuel].
    rewrite sp_split_at. f_equal.
    cbn [length] in H1, H2. unfold ibl.
    apply IH; rewrite skipn_length; cbn [length]; lia.
Qed.

Lemma enc_nil (e : encoding) : BaseX.encode e [] = [].
Proof. reflexivity. Qed.

Lemma enc_cons (e : encoding) (src : bytes) : (0 < enc_ibl e)%N -> src <> [] ->
  BaseX.encode e src = encode_block e (firstn (N.to_nat (enc_ibl e)) src) ++
                       BaseX.encode e (skipn (N.to_nat (enc_ibl e)) src).
Proof.
  intros Hibl Hne. unfold BaseX.encode. destruct src as [|b t]; [congruence|].
  cbn [length encode_fuel]. rewrite sp_split_at. unfold ibl. f_equal.
  apply enc_fuel_irrel; [assumption| |]; rewrite ?skipn_length; cbn [length]; lia.
Qed.

Lemma encode_app_aligned (e : encoding) : (0 < enc_ibl e)%N -> forall (k : nat) (a b : bytes),
  length a = (k * N.to_nat (enc_ibl e))%nat ->
  BaseX.encode e (a ++ b) = BaseX.encode e a ++ BaseX.encode e b.
Proof.
  intros Hibl. induction k as [|k IH]; intros a b Hl.
  - destruct a; [reflexivity|cbn in Hl; lia].
  - set (I := N.to_nat (enc_ibl e)) in *.
    assert (HI : (0 < I)%nat) by (unfold I; lia).
    assert (Hge : (I <= length a)%nat) by (cbn in Hl; lia).
    assert (Hne : a <> []) by (intros ->; cbn in Hge; lia).
    assert (Hne2 : a ++ b <> []) by (destruct a; [congruence|discriminate]).
    rewrite (enc_cons e (a ++ b)) by assumption.
    rewrite (enc_cons e a) by assumption. fold I.
    rewrite firstn_app, skipn_app.
    replace (I - length a)%nat with 0%nat by lia. cbn [firstn skipn].
    rewrite app_nil_r, <- app_assoc. f_equal.
    apply IH. rewrite skipn_length. cbn in Hl. lia.
Qed.

(* the second half of Write: emit the whole blocks of p1, keep the remainder *)
Definition bx_stage2 (e : encoding) (w1 : list bytes) (p1 : bytes) : list bytes * bytes :=
  let I := N.to_nat (enc_ibl e) in
  match ((length p1 / I) * I)%nat with
  | O => (w1, p1)
  | _ => (w1 ++ [BaseX.encode e (firstn ((length p1 / I) * I) p1)], skipn ((length p1 / I) * I) p1)
  end.

Lemma bx_stage2_spec (e : encoding) (w1 : list bytes) (p1 : bytes) : (0 < enc_ibl e)%N ->
  (length (snd (bx_stage2 e w1 p1)) < N.to_nat (enc_ibl e))%nat /\
  forall rest, concat w1 ++ BaseX.encode e (p1 ++ rest) =
               concat (fst (bx_stage2 e w1 p1)) ++ BaseX.encode e (snd (bx_stage2 e w1 p1) ++ rest).
Proof.
  intros Hibl. unfold bx_stage2. cbv zeta.
  set (I := N.to_nat (enc_ibl e)).
  assert (HI : (0 < I)%nat) by (unfold I; lia).
  pose proof (Nat.div_mod (length p1) I ltac:(lia)) as Hdm.
  pose proof (Nat.mod_upper_bound (length p1) I ltac:(lia)) as Hmod.
  set (q := (length p1 / I)%nat) in *.
  destruct (q * I)%nat as [|w] eqn:Hw.
  - cbn [fst snd]. split; [|reflexivity].
    assert (q = 0)%nat by nia. nia.
  - cbn [fst snd]. rewrite <- Hw. split.
    + rewrite skipn_length. nia.
    + intro rest. rewrite concat_app. cbn [concat]. rewrite app_nil_r, <- app_assoc. f_equal.
      rewrite <- (firstn_skipn (q * I) p1) at 1. rewrite <- app_assoc.
      apply (encode_app_aligned e Hibl q). fold I.
      rewrite firstn_length. nia.
Qed.

Lemma bxe_write_nil (e : encoding) (p : bytes) : bxe_write e [] p = bx_stage2 e [] p.
Proof. reflexivity. Qed.

Lemma bxe_write_cons (e : encoding) (b : byte) (buf p : bytes) :
  bxe_write e (b :: buf) p =
  let I := N.to_nat (enc_ibl e) in
  let need := (I - length (b :: buf))%nat in
  let filled := (b :: buf) ++ firstn need p in
  if Nat.ltb (length filled) I then ([], filled)
  else bx_stage2 e [BaseX.encode e filled] (skipn need p).
Proof.
  unfold bxe_write. cbv zeta.
  destruct (Nat.ltb _ _); reflexivity.
Qed.

Lemma bxe_write_spec (e : encoding) (buf p : bytes) :
  (0 < enc_ibl e)%N -> (length buf < N.to_nat (enc_ibl e))%nat ->
  (length (snd (bxe_write e buf p)) < N.to_nat (enc_ibl e))%nat /\
  forall rest, BaseX.encode e (buf ++ p ++ rest) =
               concat (fst (bxe_write e buf p)) ++ BaseX.encode e (snd (bxe_write e buf p) ++ rest).
Proof.
  intros Hibl Hb. destruct buf as [|b buf].
  - rewrite bxe_write_nil. destruct (bx_stage2_spec e [] p Hibl) as [H1 H2].
    split; [exact H1|]. intro rest. rewrite <- H2. reflexivity.
  - rewrite bxe_write_cons. cbv zeta.
    set (I := N.to_nat (enc_ibl e)) in *.
    set (need := (I - length (b :: buf))%nat).
    set (filled := (b :: buf) ++ firstn need p).
    assert (Hfl : length filled = (length (b :: buf) + Nat.min need (length p))%nat).
    { unfold filled. rewrite app_length, firstn_length. reflexivity. }
    destruct (Nat.ltb (length filled) I) eqn:L.
    + apply Nat.ltb_lt in L. cbn [fst snd]. split; [exact L|].
      intro rest. cbn [concat app].
      assert (Hp : firstn need p = p) by (apply firstn_all2; lia).
      unfold filled. rewrite Hp, <- app_assoc. reflexivity.
    + apply Nat.ltb_ge in L.
      destruct (bx_stage2_spec e [BaseX.encode e filled] (skipn need p) Hibl) as [H1 H2].
      split; [exact H1|]. intro rest. rewrite <- H2. cbn [concat]. rewrite app_nil_r.
      rewrite <- (firstn_skipn need p) at 1.
      rewrite <- app_assoc, app_assoc. fold filled.
      apply (encode_app_aligned e Hibl 1). fold I. lia.
Qed.

Lemma bxe_session_gen (e : encoding) : (0 < enc_ibl e)%N -> forall (pieces : list bytes) (buf : bytes),
  (length buf < N.to_nat (enc_ibl e))%nat ->
  concat (bxe_session e buf pieces) = BaseX.encode e (buf ++ concat pieces).
Proof.
  intros Hibl. induction pieces as [|p t IH]; intros buf Hb.
  - cbn [bxe_session concat]. rewrite app_nil_r. unfold bxe_close.
    destruct buf; [reflexivity|]. cbn [concat]. apply app_nil_r.
  - cbn [bxe_session concat].
    destruct (bxe_write_spec e buf p Hibl Hb) as [H1 H2].
    destruct (bxe_write e buf p) as [ws buf']. cbn [fst snd] in *.
    rewrite concat_app, IH by exact H1. symmetry. apply H2.
Qed.

(* (TARGET) any split of the input across Write calls (including empty writes):
   the bytes written downstream are the one-shot encoding *)
Lemma bxe_session_encode (e : encoding) (pieces : list bytes) :
  (0 < enc_ibl e)%N ->
  concat (bxe_session e [] pieces) = BaseX.encode e (concat pieces).
Proof.
  intro Hibl. apply (bxe_session_gen e Hibl pieces []). cbn [length]. lia.
Qed.

(* (TARGET) bounded buffering: fewer than one input block stays buffered after every Write *)
Lemma bxe_write_bounded (e : encoding) (buf p : bytes) :
  (0 < enc_ibl e)%N -> (length buf < N.to_nat (enc_ibl e))%nat ->
  (length (snd (bxe_write e buf p)) < N.to_nat (enc_ibl e))%nat.
Proof. intros Hibl Hb. apply (bxe_write_spec e buf p Hibl Hb). Qed.

(* ---------- armor stream encoder ---------- *)

Lemma bpw_pos : (0 < bytes_per_word)%nat.
Proof. vm_compute. lia. Qed.

Lemma space_words_irrel : forall (f1 f2 : nat) (chars : bytes) (k : N),
  (length chars < f1)%nat -> (length chars < f2)%nat ->
  space_words f1 chars k = space_words f2 chars k.
Proof.
  induction f1 as [|f1 IH]; intros f2 chars k H1 H2; [lia|].
  destruct f2 as [|f2]; [lia|]. cbn [space_words].
  destruct (Nat.ltb bytes_per_word (length chars)) eqn:L; [|reflexivity].
  apply Nat.ltb_lt in L. rewrite sp_split_at. f_equal. f_equal.
  pose proof bpw_pos.
  apply IH; rewrite skipn_length; lia.
Qed.

(* one-shot spacing with the canonical fuel *)
Definition sw (chars : bytes) (k : N) : bytes := space_words (S (length chars)) chars k.

Lemma sw_big (chars : bytes) (k : N) : (bytes_per_word < length chars)%nat ->
  sw chars k = firstn bytes_per_word chars ++ ae_sep (k + 1) :: sw (skipn bytes_per_word chars) (k + 1).
Proof.
  intro L. unfold sw at 1. cbn [space_words].
  apply Nat.ltb_lt in L. rewrite L. apply Nat.ltb_lt in L. rewrite sp_split_at.
  f_equal. unfold ae_sep. f_equal.
  pose proof bpw_pos. apply space_words_irrel; rewrite skipn_length; lia.
Qed.

Lemma sw_small (chars : bytes) (k : N) : (length chars <= bytes_per_word)%nat ->
  sw chars k = chars ++ (if Nat.eqb (length chars) bytes_per_word then [ae_sep (k + 1)] else []).
Proof.
  intro L. unfold sw. cbn [space_words].
  apply Nat.ltb_ge in L. rewrite L. reflexivity.
Qed.

(* spacing is insensitive to how the character stream is cut *)
Lemma ae_space_stream : forall (f : nat) (chars : bytes) (k : N) (acc out rest : bytes) (k' : N),
  ae_space f chars k acc = (out, rest, k') ->
  forall more, acc ++ sw (chars ++ more) k = out ++ sw (rest ++ more) k'.
Proof.
  induction f as [|f IH]; intros chars k acc out rest k' H more; cbn [ae_space] in H.
  - injection H as <- <- <-. reflexivity.
  - destruct (Nat.ltb bytes_per_word (length chars)) eqn:L.
    + rewrite sp_split_at in H. apply Nat.ltb_lt in L.
      rewrite <- (IH _ _ _ _ _ _ H more).
      rewrite sw_big by (rewrite app_length; lia).
      rewrite firstn_app, skipn_app.
      replace (bytes_per_word - length chars)%nat with 0%nat by lia.
      cbn [firstn skipn]. rewrite app_nil_r, <- !app_assoc. reflexivity.
    + injection H as <- <- <-. reflexivity.
Qed.

Lemma ae_space_bounded : forall (f : nat) (chars : bytes) (k : N) (acc out rest : bytes) (k' : N),
  ae_space f chars k acc = (out, rest, k') -> (length chars <= f)%nat ->
  (length rest <= bytes_per_word)%nat.
Proof.
  induction f as [|f IH]; intros chars k acc out rest k' H Hf; cbn [ae_space] in H.
  - injection H as <- <- <-. lia.
  - destruct (Nat.ltb bytes_per_word (length chars)) eqn:L.
    + rewrite sp_split_at in H. apply Nat.ltb_lt in L. pose proof bpw_pos.
      apply (IH _ _ _ _ _ _ H). rewrite skipn_length. lia.
    + injection H as <- <- <-. apply Nat.ltb_ge in L. exact L.
Qed.

Definition ae_tail (footer : bytes) : bytes := [dot; sp] ++ footer ++ [dot; x0a].

Lemma ibl62 : N.to_nat (enc_ibl base62) = 32%nat.
Proof. reflexivity. Qed.

Lemma ibl62_pos : (0 < enc_ibl base62)%N.
Proof. reflexivity. Qed.

Lemma ae_session_gen (footer : bytes) : forall (pieces : list bytes) (st : ae_state),
  (length (ae_bx st) < 32)%nat ->
  ae_session st pieces footer =
  sw (ae_chars st ++ BaseX.encode base62 (ae_bx st ++ concat pieces)) (ae_words st) ++ ae_tail footer.
Proof.
  induction pieces as [|p t IH]; intros st Hb.
  - cbn [ae_session concat]. rewrite app_nil_r. unfold ae_close.
    assert (Hc : concat (bxe_close base62 (ae_bx st)) = BaseX.encode base62 (ae_bx st)).
    { unfold bxe_close. destruct (ae_bx st); [reflexivity|]. cbn [concat]. apply app_nil_r. }
    rewrite Hc. set (chars := ae_chars st ++ BaseX.encode base62 (ae_bx st)).
    destruct (ae_space (length chars) chars (ae_words st) []) as [[out lst] k] eqn:Hs.
    pose proof (ae_space_stream _ _ _ _ _ _ _ Hs []) as H1.
    pose proof (ae_space_bounded _ _ _ _ _ _ _ Hs (Nat.le_refl _)) as H2.
    rewrite !app_nil_r in H1. cbn [app] in H1. rewrite H1.
    rewrite (sw_small lst k H2). unfold ae_tail. rewrite <- !app_assoc. reflexivity.
  - cbn [ae_session concat]. unfold ae_write.
    pose proof (bxe_write_spec base62 (ae_bx st) p ibl62_pos) as Hw.
    rewrite ibl62 in Hw. destruct (Hw Hb) as [Hw1 Hw2]. clear Hw.
    destruct (bxe_write base62 (ae_bx st) p) as [ws bx']. cbn [fst snd] in Hw1, Hw2.
    set (chars := ae_chars st ++ concat ws).
    destruct (ae_space (length chars) chars (ae_words st) []) as [[out rest] k] eqn:Hs.
    rewrite (IH (mkAe bx' rest k)) by exact Hw1. cbn [ae_bx ae_chars ae_words].
    rewrite app_assoc. f_equal.
    pose proof (ae_space_stream _ _ _ _ _ _ _ Hs (BaseX.encode base62 (bx' ++ concat t))) as H1.
    cbn [app] in H1. rewrite <- H1. unfold chars. rewrite <- app_assoc, <- Hw2. reflexivity.
Qed.

(* (TARGET) any split of the payload across Write calls gives exactly Armor62Seal's text *)
Lemma armor_stream_seal (header footer : bytes) (pieces : list bytes) :
  armor_stream header footer pieces = armor_seal (concat pieces) header footer.
Proof.
  unfold armor_stream, armor_seal. cbv zeta.
  rewrite (ae_session_gen footer pieces (mkAe [] [] 0)) by (cbn [ae_bx length]; lia).
  cbn [ae_bx ae_chars ae_words app]. reflexivity.
Qed.

(* (TARGET) bounded buffering: at most one word of encoded characters and less than one
   input block stay buffered after every Write *)
Lemma ae_write_bounded (st : ae_state) (p : bytes) :
  (length (ae_bx st) < 32)%nat ->
  (length (ae_chars (snd (ae_write st p))) <= 15)%nat /\ (length (ae_bx (snd (ae_write st p))) < 32)%nat.
Proof.
  intro Hb. unfold ae_write.
  pose proof (bxe_write_bounded base62 (ae_bx st) p ibl62_pos) as Hw.
  rewrite ibl62 in Hw. specialize (Hw Hb).
  destruct (bxe_write base62 (ae_bx st) p) as [ws bx']. cbn [snd] in Hw.
  set (chars := ae_chars st ++ concat ws).
  destruct (ae_space (length chars) chars (ae_words st) []) as [[out rest] k] eqn:Hs.
  cbn [snd ae_chars ae_bx]. split; [|exact Hw].
  apply (ae_space_bounded _ _ _ _ _ _ _ Hs (Nat.le_refl _)).
Qed.
