(* RandProofs.v — lemmas about model/Rand.v (Lemire bounded draw, Fisher-Yates).
   The statements marked (TARGET) are used verbatim by props/C19.v. *)
From Coq Require Import List Arith NArith Bool Lia ZifyN ZifyNat ZifyBool Permutation.
From Coq.Strings Require Import Byte.
From SP Require Import Bytes Rand.
Import ListNotations.
Open Scope N_scope.


Definition cdiv (a b : N) : N := (a + b - 1) / b.

(* (TARGET) the two-stage test of the code equals the single test low < thresh *)
Lemma lemire_two_stage (n v : N) :
  0 < n -> lem_reject n v = (lem_low n v <? lem_thresh n).
Proof.
  intros Hn. unfold lem_reject.
  assert (Ht : lem_thresh n < n) by (unfold lem_thresh; apply N.mod_lt; lia).
  destruct (lem_low n v <? lem_thresh n) eqn:E1;
  destruct (lem_low n v <? n) eqn:E2; try reflexivity.
  apply N.ltb_lt in E1. apply N.ltb_ge in E2. lia.
Qed.

Lemma two32_pos : 0 < two32.
Proof. reflexivity. Qed.

Lemma lem_thresh_eq (n : N) : 0 < n -> n < two32 -> lem_thresh n = two32 mod n.
Proof.
  intros Hn Hlt. unfold lem_thresh.
  generalize two32_pos. generalize dependent two32. intros W Hlt HW.
  rewrite (N.mod_small (W - n) W) by lia.
  pose proof (N.div_mod W n ltac:(lia)) as Hdm.
  pose proof (N.mod_lt W n ltac:(lia)) as Hr.
  set (q := W / n) in *. set (r := W mod n) in *.
  symmetry. apply (N.mod_unique _ _ (q - 1)); [lia|].
  assert (1 <= q) by nia.
  nia.
Qed.

(* generic arithmetic core, W abstract *)
Lemma lemire_onto_core (W n k t : N) :
  0 < n -> n < W -> k < n -> t < W / n ->
  let T := W mod n in
  let v := (k * W + T + n - 1) / n + t in
  v < W /\ (v * n) / W = k /\ T <= (v * n) mod W.
Proof.
  intros Hn HW Hk Ht T v.
  pose proof (N.div_mod W n ltac:(lia)) as Hdm.
  pose proof (N.mod_lt W n ltac:(lia)) as Hr.
  fold T in Hdm, Hr.
  set (q := W / n) in *.
  pose proof (N.div_mod (k * W + T + n - 1) n ltac:(lia)) as Hdm2.
  pose proof (N.mod_lt (k * W + T + n - 1) n ltac:(lia)) as Hr2.
  set (m0 := (k * W + T + n - 1) / n) in *.
  set (rem := (k * W + T + n - 1) mod n) in *.
  assert (Hlo : k * W + T <= v * n) by (unfold v; nia).
  assert (Hhi : v * n < (k + 1) * W) by (unfold v; nia).
  clearbody v m0 rem q T.
  assert (Hd : (v * n) / W = k).
  { symmetry. apply (N.div_unique _ _ _ (v * n - k * W)); nia. }
  assert (Hm : (v * n) mod W = v * n - k * W).
  { symmetry. apply (N.mod_unique _ _ k); nia. }
  split; [nia|]. split; [exact Hd|]. rewrite Hm. lia.
Qed.

(* (TARGET) every result k in [0,n) has exactly floor(2^32/n) accepted pre-images:
   (k,t) |-> cdiv (k*2^32 + thresh) n + t is a bijection from
   [0,n) x [0, 2^32/n) onto the accepted 32-bit values, and the output of an
   accepted v is its first component. *)
Lemma lemire_uniform_onto (n k t : N) :
  0 < n -> n < two32 -> k < n -> t < two32 / n ->
  let v := cdiv (k * two32 + lem_thresh n) n + t in
  v < two32 /\ lem_reject n v = false /\ lem_out n v = k.
Proof.
  intros Hn HW Hk Ht v.
  rewrite lemire_two_stage by assumption.
  unfold v, cdiv, lem_out, lem_low. rewrite lem_thresh_eq by assumption.
  pose proof (lemire_onto_core two32 n k t Hn HW Hk Ht) as H. cbv zeta in H.
  destruct H as (H1 & H2 & H3).
  split; [exact H1|]. split; [|exact H2].
  apply N.ltb_ge. exact H3.
Qed.

Lemma lemire_into_core (W n v : N) :
  0 < n -> n < W -> v < W ->
  let T := W mod n in
  T <= (v * n) mod W ->
  (v * n) / W < n /\
  exists t, t < W / n /\ v = ((v * n) / W * W + T + n - 1) / n + t.
Proof.
  intros Hn HW Hv T HT.
  pose proof (N.div_mod W n ltac:(lia)) as Hdm.
  pose proof (N.mod_lt W n ltac:(lia)) as Hr.
  fold T in Hdm, Hr.
  set (q := W / n) in *.
  pose proof (N.div_mod (v * n) W ltac:(lia)) as Hdm1.
  pose proof (N.mod_lt (v * n) W ltac:(lia)) as Hr1.
  set (k := (v * n) / W) in *. set (low := (v * n) mod W) in *.
  pose proof (N.div_mod (k * W + T + n - 1) n ltac:(lia)) as Hdm2.
  pose proof (N.mod_lt (k * W + T + n - 1) n ltac:(lia)) as Hr2.
  set (m0 := (k * W + T + n - 1) / n) in *.
  set (rem := (k * W + T + n - 1) mod n) in *.
  clearbody k low m0 rem q T.
  assert (Hk : k < n) by nia.
  split; [exact Hk|].
  assert (Hm : m0 <= v) by nia.
  exists (v - m0). split; [nia|lia].
Qed.

Lemma lemire_uniform_into (n v : N) :
  0 < n -> n < two32 -> v < two32 -> lem_reject n v = false ->
  lem_out n v < n /\
  exists t, t < two32 / n /\ v = cdiv (lem_out n v * two32 + lem_thresh n) n + t.
Proof.
  intros Hn HW Hv Hrej.
  rewrite lemire_two_stage in Hrej by assumption.
  apply N.ltb_ge in Hrej. unfold lem_low in Hrej.
  rewrite lem_thresh_eq in * by assumption.
  unfold cdiv, lem_out.
  exact (lemire_into_core two32 n v Hn HW Hv Hrej).
Qed.


Lemma b2n_lt (b : byte) : b2n b < 256.
Proof. unfold b2n. pose proof (Byte.to_N_bounded b). lia. Qed.

Lemma n2b_step (x : N) (b : byte) : n2b (x * 256 + b2n b) = b.
Proof.
  unfold n2b. pose proof (b2n_lt b).
  rewrite N.add_comm, N.mod_add by lia.
  rewrite N.mod_small by assumption.
  unfold b2n. rewrite Byte.of_to_N. reflexivity.
Qed.

Lemma div_step (x : N) (b : byte) : (x * 256 + b2n b) / 256 = x.
Proof.
  pose proof (b2n_lt b).
  rewrite N.add_comm, N.div_add by lia.
  rewrite N.div_small by assumption. reflexivity.
Qed.

Lemma be32_be_val (b : bytes) : length b = 4%nat -> be32 (be_val b) = b /\ be_val b < two32.
Proof.
  intros H.
  destruct b as [|b0 [|b1 [|b2 [|b3 [|? ?]]]]]; try discriminate H.
  unfold be32, be_bytes, be_val.
  cbn [be_val_acc be_bytes_acc].
  split.
  - repeat (rewrite ?n2b_step, ?div_step).
    reflexivity.
  - pose proof (b2n_lt b0). pose proof (b2n_lt b1).
    pose proof (b2n_lt b2). pose proof (b2n_lt b3).
    unfold two32. lia.
Qed.

Lemma uint32_spec (r r1 : rng) (v : N) :
  uint32 r = Some (v, r1) -> r = be32 v ++ r1 /\ v < two32.
Proof.
  unfold uint32, read_full.
  destruct (Nat.leb 4 (length r)) eqn:E; [|discriminate].
  intros H.
  assert (Hv : v = be_val (firstn 4 r)) by congruence.
  assert (Hr : r1 = skipn 4 r) by congruence. clear H. subst v r1.
  apply Nat.leb_le in E.
  assert (Hl : length (firstn 4 r) = 4%nat) by (rewrite firstn_length; lia).
  destruct (be32_be_val _ Hl) as [H1 H2].
  split; [|exact H2].
  rewrite H1. symmetry. apply firstn_skipn.
Qed.

Lemma uint32n_loop_first_accept (n : N) (fuel : nat) : forall (r r' : rng) (k : N),
  uint32n_loop fuel n r = Some (k, r') ->
  exists (rejected : list N) (v : N),
    r = concat (map be32 rejected) ++ be32 v ++ r' /\
    Forall (fun w => w < two32 /\ lem_reject n w = true) rejected /\
    v < two32 /\ lem_reject n v = false /\ k = lem_out n v.
Proof.
  induction fuel as [|f IH]; intros r r' k H; [discriminate|].
  cbn [uint32n_loop] in H.
  destruct (uint32 r) as [[v r1]|] eqn:Eu; [|discriminate].
  apply uint32_spec in Eu. destruct Eu as [Hr Hv].
  destruct (lem_reject n v) eqn:Erej.
  - apply IH in H. destruct H as (rej & v' & Hr1 & Hall & Hv' & Hrej' & Hk).
    exists (v :: rej), v'. split.
    + cbn [map concat]. rewrite <- app_assoc, <- Hr1. exact Hr.
    + split; [constructor; auto|]. auto.
  - injection H as Hk Hr'. subst r1 k.
    exists [], v. cbn [map concat app]. auto.
Qed.

(* (TARGET) csprngUint32n returns the output of the first accepted draw and
   consumes exactly the draws up to it *)
Lemma uint32n_first_accept (n : N) (r r' : rng) (k : N) :
  0 < n ->
  uint32n n r = Some (k, r') ->
  exists (rejected : list N) (v : N),
    r = concat (map be32 rejected) ++ be32 v ++ r' /\
    Forall (fun w => w < two32 /\ lem_reject n w = true) rejected /\
    v < two32 /\ lem_reject n v = false /\ k = lem_out n v.
Proof.
  intros _. unfold uint32n. apply uint32n_loop_first_accept.
Qed.


Section FY.
Context {A : Type}.

(* draws j_{n-1}, ..., j_1 with j_i <= i *)
Fixpoint valid_draws (i : nat) (js : list nat) : Prop :=
  match i, js with
  | O, [] => True
  | S i', j :: js' => (j <= i)%nat /\ valid_draws i' js'
  | _, _ => False
  end.

Lemma set_nth_length (i : nat) (x : A) (l : list A) :
  length (set_nth i x l) = length l.
Proof.
  revert i; induction l as [|y t IH]; intros [|i]; cbn [set_nth length]; auto.
Qed.

Lemma nth_error_set_nth_eq (i : nat) (x : A) (l : list A) :
  (i < length l)%nat -> nth_error (set_nth i x l) i = Some x.
Proof.
  revert i; induction l as [|y t IH]; intros [|i] H; cbn [length] in H;
    cbn [set_nth nth_error]; try lia; auto.
  apply IH. lia.
Qed.

Lemma nth_error_set_nth_neq (i j : nat) (x : A) (l : list A) :
  i <> j -> nth_error (set_nth i x l) j = nth_error l j.
Proof.
  revert i j; induction l as [|y t IH]; intros [|i] [|j] H;
    cbn [set_nth nth_error]; try reflexivity; try congruence.
  apply IH. congruence.
Qed.

Lemma set_nth_perm (i : nat) (a b : A) (l : list A) :
  nth_error l i = Some a -> Permutation (b :: l) (a :: set_nth i b l).
Proof.
  revert i; induction l as [|y t IH]; intros [|i] H; cbn [nth_error] in H;
    try discriminate; cbn [set_nth].
  - injection H as ->. apply perm_swap.
  - apply perm_trans with (y :: b :: t); [apply perm_swap|].
    apply perm_trans with (y :: a :: set_nth i b t); [|apply perm_swap].
    apply perm_skip. apply IH. exact H.
Qed.

Lemma set_nth_app (i : nat) (x : A) (a rest : list A) :
  (i < length a)%nat -> set_nth i x (a ++ rest) = set_nth i x a ++ rest.
Proof.
  revert i; induction a as [|y t IH]; intros [|i] H; cbn [length] in H;
    try lia; cbn [set_nth app]; auto.
  f_equal. apply IH. lia.
Qed.

Lemma swap_length (i j : nat) (l : list A) : length (swap i j l) = length l.
Proof.
  unfold swap. destruct (nth_error l i); [|reflexivity].
  destruct (nth_error l j); [|reflexivity].
  rewrite !set_nth_length. reflexivity.
Qed.

Lemma nth_error_set_nth_j (i j : nat) (a b : A) (l : list A) :
  nth_error l j = Some b -> (i < length l)%nat ->
  nth_error (set_nth i b l) j = Some b.
Proof.
  intros Hj Hi. destruct (Nat.eq_dec i j) as [->|Hne].
  - apply nth_error_set_nth_eq. exact Hi.
  - rewrite nth_error_set_nth_neq by exact Hne. exact Hj.
Qed.

Lemma swap_perm (i j : nat) (l : list A) : Permutation l (swap i j l).
Proof.
  unfold swap.
  destruct (nth_error l i) as [a|] eqn:Ei; [|reflexivity].
  destruct (nth_error l j) as [b|] eqn:Ej; [|reflexivity].
  assert (Hi : (i < length l)%nat) by (apply nth_error_Some; congruence).
  apply (Permutation_cons_inv (a := b)).
  apply perm_trans with (a :: set_nth i b l).
  - apply set_nth_perm. exact Ei.
  - apply set_nth_perm. apply (nth_error_set_nth_j i j a b l Ej Hi).
Qed.

Lemma swap_app (i j : nat) (a rest : list A) :
  (i < length a)%nat -> (j < length a)%nat ->
  swap i j (a ++ rest) = swap i j a ++ rest.
Proof.
  intros Hi Hj. unfold swap.
  rewrite !nth_error_app1 by assumption.
  destruct (nth_error a i) as [x|] eqn:Ei; [|reflexivity].
  destruct (nth_error a j) as [y|] eqn:Ej; [|reflexivity].
  rewrite set_nth_app by assumption.
  rewrite set_nth_app by (rewrite set_nth_length; assumption).
  reflexivity.
Qed.

(* the element drawn ends up at position i *)
Lemma nth_error_swap_i (i j : nat) (b : A) (l : list A) :
  (i < length l)%nat -> nth_error l j = Some b ->
  nth_error (swap i j l) i = Some b.
Proof.
  intros Hi Ej. unfold swap.
  destruct (nth_error l i) as [a|] eqn:Ei.
  2:{ apply nth_error_None in Ei. lia. }
  rewrite Ej.
  destruct (Nat.eq_dec j i) as [->|Hne].
  - assert (a = b) by congruence. subst a.
    apply nth_error_set_nth_eq. rewrite set_nth_length. exact Hi.
  - rewrite nth_error_set_nth_neq by exact Hne.
    apply nth_error_set_nth_eq. exact Hi.
Qed.

Lemma last_decomp (l : list A) (i : nat) :
  length l = S i -> exists l1 x, l = l1 ++ [x] /\ length l1 = i.
Proof.
  intros Hl. destruct (exists_last (l := l)) as (l1 & x & E).
  - intros ->. discriminate.
  - exists l1, x. split; [exact E|]. subst l. rewrite app_length in Hl.
    cbn [length] in Hl. lia.
Qed.

Lemma swap_last (i j : nat) (x : A) (l : list A) :
  length l = S i -> nth_error l j = Some x ->
  exists l1, swap i j l = l1 ++ [x] /\ length l1 = i.
Proof.
  intros Hl Ej.
  assert (Hi : (i < length l)%nat) by lia.
  pose proof (nth_error_swap_i i j x l Hi Ej) as Hn.
  pose proof (swap_length i j l) as Hsl.
  destruct (last_decomp (swap i j l) i ltac:(lia)) as (l0 & h & Es & Hlen).
  exists l0. split; [|exact Hlen].
  rewrite Es in Hn |- *.
  rewrite nth_error_app2 in Hn by lia.
  replace (i - length l0)%nat with 0%nat in Hn by lia.
  cbn [nth_error] in Hn. congruence.
Qed.

Lemma fy_loop_perm (i : nat) : forall (l : list A) (js : list nat),
  Permutation l (fy_loop i l js).
Proof.
  induction i as [|i IH]; intros l js; cbn [fy_loop]; [reflexivity|].
  destruct js as [|j js]; [reflexivity|].
  apply perm_trans with (swap (S i) j l); [apply swap_perm|apply IH].
Qed.

(* (TARGET) *)
Lemma fisher_yates_perm (l : list A) (js : list nat) :
  Permutation l (fisher_yates l js).
Proof. apply fy_loop_perm. Qed.

Lemma fy_loop_length (i : nat) (l : list A) (js : list nat) :
  length (fy_loop i l js) = length l.
Proof.
  symmetry. apply Permutation_length. apply fy_loop_perm.
Qed.

Lemma fy_loop_app (i : nat) : forall (a rest : list A) (js : list nat),
  (i < length a)%nat -> valid_draws i js ->
  fy_loop i (a ++ rest) js = fy_loop i a js ++ rest.
Proof.
  induction i as [|i IH]; intros a rest js Hi Hv.
  - destruct js; reflexivity.
  - destruct js as [|j js]; [reflexivity|].
    cbn [valid_draws] in Hv. destruct Hv as [Hj Hv].
    cbn [fy_loop].
    rewrite swap_app by lia.
    apply IH; [rewrite swap_length; lia|exact Hv].
Qed.

Lemma fy_loop_surj (n : nat) : forall (l p : list A),
  length l = S n -> Permutation l p ->
  exists js, valid_draws n js /\ fy_loop n l js = p.
Proof.
  induction n as [|n IH]; intros l p Hl Hp.
  - destruct l as [|x [|? ?]]; try discriminate Hl.
    apply Permutation_length_1_inv in Hp. subst p.
    exists []. split; [exact I|reflexivity].
  - pose proof (Permutation_length Hp) as Hlp.
    destruct (last_decomp p (S n) ltac:(lia)) as (p' & x & -> & Hlp').
    assert (Hin : In x l).
    { apply (Permutation_in x (Permutation_sym Hp)). apply in_or_app. right. left. reflexivity. }
    apply In_nth_error in Hin. destruct Hin as [j Ej].
    assert (Hj : (j < length l)%nat) by (apply nth_error_Some; congruence).
    destruct (swap_last (S n) j x l Hl Ej) as (l1 & Hs & Hl1).
    assert (Hp1 : Permutation l1 p').
    { apply Permutation_app_inv_r with (l := [x]).
      rewrite <- Hs. apply perm_trans with l; [apply Permutation_sym, swap_perm|exact Hp]. }
    destruct (IH l1 p' Hl1 Hp1) as (js & Hv & Hf).
    exists (j :: js). split.
    + cbn [valid_draws]. split; [lia|exact Hv].
    + cbn [fy_loop]. rewrite Hs.
      rewrite fy_loop_app by (try lia; exact Hv).
      rewrite Hf. reflexivity.
Qed.

(* (TARGET) every arrangement is reached ... *)
Lemma fisher_yates_surj (l p : list A) :
  Permutation l p ->
  exists js, valid_draws (pred (length l)) js /\ fisher_yates l js = p.
Proof.
  intros Hp. unfold fisher_yates.
  destruct l as [|x l].
  - apply Permutation_nil in Hp. subst p. exists []. split; [exact I|reflexivity].
  - apply fy_loop_surj; [reflexivity|exact Hp].
Qed.

Lemma fy_loop_inj (n : nat) : forall (l : list A) (js js' : list nat),
  length l = S n -> NoDup l ->
  valid_draws n js -> valid_draws n js' ->
  fy_loop n l js = fy_loop n l js' -> js = js'.
Proof.
  induction n as [|n IH]; intros l js js' Hl Hnd Hv Hv' He.
  - destruct js; [|contradiction]. destruct js'; [|contradiction]. reflexivity.
  - destruct js as [|j js]; [contradiction|].
    destruct js' as [|j' js']; [contradiction|].
    cbn [valid_draws] in Hv, Hv'. destruct Hv as [Hj Hv]. destruct Hv' as [Hj' Hv'].
    cbn [fy_loop] in He.
    destruct (nth_error l j) as [x|] eqn:Ej.
    2:{ apply nth_error_None in Ej. lia. }
    destruct (nth_error l j') as [x'|] eqn:Ej'.
    2:{ apply nth_error_None in Ej'. lia. }
    destruct (swap_last (S n) j x l Hl Ej) as (l1 & Hs & Hl1).
    destruct (swap_last (S n) j' x' l Hl Ej') as (l1' & Hs' & Hl1').
    rewrite Hs, Hs' in He.
    rewrite !fy_loop_app in He by (try lia; assumption).
    apply app_inj_tail in He. destruct He as [He Hx]. subst x'.
    assert (j = j').
    { apply (proj1 (NoDup_nth_error l) Hnd); [lia|congruence]. }
    subst j'. rewrite Hs in Hs'. apply app_inj_tail in Hs'. destruct Hs' as [<- _].
    f_equal. apply (IH l1); try assumption.
    assert (Hnd1 : NoDup (l1 ++ [x])).
    { rewrite <- Hs. apply (Permutation_NoDup (swap_perm (S n) j l)). exact Hnd. }
    apply NoDup_remove_1 in Hnd1. rewrite app_nil_r in Hnd1. exact Hnd1.
Qed.

(* (TARGET) ... by exactly one draw sequence *)
Lemma fisher_yates_inj (l : list A) (js js' : list nat) :
  NoDup l ->
  valid_draws (pred (length l)) js -> valid_draws (pred (length l)) js' ->
  fisher_yates l js = fisher_yates l js' -> js = js'.
Proof.
  intros Hnd Hv Hv' He. unfold fisher_yates in He.
  destruct l as [|x l].
  - cbn [length pred] in Hv, Hv'.
    destruct js; [|contradiction]. destruct js'; [|contradiction]. reflexivity.
  - cbn [length pred] in *. apply (fy_loop_inj (length l) (x :: l)); auto.
Qed.

Lemma uint32n_bound (n j : N) (r r' : rng) :
  0 < n -> n < two32 -> uint32n n r = Some (j, r') -> j < n.
Proof.
  intros Hn HW H.
  destruct (uint32n_first_accept n r r' j Hn H) as (rej & v & _ & _ & Hv & Hrej & ->).
  apply (lemire_uniform_into n v Hn HW Hv Hrej).
Qed.

Lemma shuffle_loop_fy (i : nat) : forall (l l' : list A) (r r' : rng),
  N.of_nat (S i) < two32 ->
  shuffle_loop i l r = Some (l', r') ->
  exists js, valid_draws i js /\ l' = fy_loop i l js.
Proof.
  induction i as [|i IH]; intros l l' r r' HW H.
  - cbn [shuffle_loop] in H. exists []. split; [exact I|]. cbn [fy_loop]. congruence.
  - cbn [shuffle_loop] in H.
    destruct (uint32n (N.of_nat (S (S i))) r) as [[j r1]|] eqn:Eu; [|discriminate].
    apply uint32n_bound in Eu; [|lia|exact HW].
    apply IH in H; [|lia].
    destruct H as (js & Hv & Hl').
    exists (N.to_nat j :: js). split.
    + cbn [valid_draws]. split; [lia|exact Hv].
    + cbn [fy_loop]. exact Hl'.
Qed.

(* (TARGET) the rng-driven loop is the draw-driven loop on the accepted draws *)
Lemma shuffle_is_fisher_yates (l l' : list A) (r r' : rng) :
  (N.of_nat (length l) < two32) ->
  shuffle l r = Some (l', r') ->
  exists js, valid_draws (pred (length l)) js /\ l' = fisher_yates l js.
Proof.
  intros HW H. unfold shuffle in H. unfold fisher_yates.
  apply (shuffle_loop_fy _ l l' r r'); [|exact H].
  destruct l as [|x l]; [reflexivity|exact HW].
Qed.

End FY.
