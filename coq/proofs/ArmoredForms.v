(* ArmoredForms.v — the armored all-at-once entry points are the binary ones composed with
   dearmoring (armor62_decrypt.go, armor62_verify.go, armor62_signcrypt.go: Dearmor62* =
   Armor62 decoder + the binary receiver), so on the armored form of ANY binary message —
   genuine or not, also after re-flowing — they return exactly what the binary entry point
   returns on that message, and the brand.  Together with the binary round-trip theorems this
   gives the "binary and armored forms agree" clause of C01, C03, C05, C07. *)
From Coq Require Import List NArith ZArith Bool.
From Coq.Strings Require Import Byte.
From SP Require Import Bytes Params Msgpack Crypto Errors Packets Verify Decrypt Signcrypt BaseX Encodings Armor ArmorProofs.
Import ListNotations.

Section A.
Variable c : crypto.

(* Dearmor62DecryptOpen, Dearmor62Verify, Dearmor62VerifyDetached, Dearmor62SigncryptOpen *)
Definition dearmor62_decrypt_open (vd : validator) (kr : keyring) (txt : bytes) : result (mki * bytes * bytes) :=
  bind (dearmor (Some mt_encryption) txt) (fun d =>
  bind (open_all c vd kr (da_payload d)) (fun r => Ok (fst r, snd r, da_brand d))).
Definition dearmor62_verify (vd : validator) (kr : sigring) (txt : bytes) : result (bytes * bytes * bytes) :=
  bind (dearmor (Some mt_attached) txt) (fun d =>
  bind (verify_all c vd kr (da_payload d)) (fun r => Ok (fst r, snd r, da_brand d))).
Definition dearmor62_verify_detached (vd : validator) (kr : sigring) (msg txt : bytes) : result (bytes * bytes) :=
  bind (dearmor (Some mt_detached) txt) (fun d =>
  bind (verify_detached c vd kr msg (da_payload d)) (fun pk => Ok (pk, da_brand d))).
Definition dearmor62_signcrypt_open (kr : keyring) (signers : sigring) (rv : resolver) (txt : bytes)
  : result (option bytes * bytes * bytes) :=
  bind (dearmor (Some mt_encryption) txt) (fun d =>
  bind (signcrypt_open_all c kr signers rv (da_payload d)) (fun r => Ok (fst r, snd r, da_brand d))).

Lemma enc_armorable : armorable mt_encryption. Proof. left. reflexivity. Qed.
Lemma att_armorable : armorable mt_attached. Proof. right. left. reflexivity. Qed.
Lemma det_armorable : armorable mt_detached. Proof. right. right. reflexivity. Qed.

(* (TARGET) on the armored form of any byte string the armored entry point = the binary one *)
Lemma armored_decrypt_agrees (vd : validator) (kr : keyring) (wire brand : bytes) :
  brand_ok brand ->
  dearmor62_decrypt_open vd kr (armor62_seal wire mt_encryption brand) =
  bind (open_all c vd kr wire) (fun r => Ok (fst r, snd r, brand)).
Proof.
  intro Hb. unfold dearmor62_decrypt_open.
  rewrite (dearmor_armor wire mt_encryption brand enc_armorable Hb). reflexivity.
Qed.

Lemma armored_verify_agrees (vd : validator) (kr : sigring) (wire brand : bytes) :
  brand_ok brand ->
  dearmor62_verify vd kr (armor62_seal wire mt_attached brand) =
  bind (verify_all c vd kr wire) (fun r => Ok (fst r, snd r, brand)).
Proof.
  intro Hb. unfold dearmor62_verify.
  rewrite (dearmor_armor wire mt_attached brand att_armorable Hb). reflexivity.
Qed.

Lemma armored_verify_detached_agrees (vd : validator) (kr : sigring) (msg sigfile brand : bytes) :
  brand_ok brand ->
  dearmor62_verify_detached vd kr msg (armor62_seal sigfile mt_detached brand) =
  bind (verify_detached c vd kr msg sigfile) (fun pk => Ok (pk, brand)).
Proof.
  intro Hb. unfold dearmor62_verify_detached.
  rewrite (dearmor_armor sigfile mt_detached brand det_armorable Hb). reflexivity.
Qed.

Lemma armored_signcrypt_agrees (kr : keyring) (signers : sigring) (rv : resolver) (wire brand : bytes) :
  brand_ok brand ->
  dearmor62_signcrypt_open kr signers rv (armor62_seal wire mt_encryption brand) =
  bind (signcrypt_open_all c kr signers rv wire) (fun r => Ok (fst r, snd r, brand)).
Proof.
  intro Hb. unfold dearmor62_signcrypt_open.
  rewrite (dearmor_armor wire mt_encryption brand enc_armorable Hb). reflexivity.
Qed.

(* (TARGET) ... also after the armored text was re-flowed (runs of space, tab, CR, LF, '>' between
   payload characters, between frame words and around the frame) *)
Lemma armored_decrypt_agrees_reflow (vd : validator) (kr : keyring) (wire brand H' B' F' T' : bytes) :
  brand_ok brand ->
  let chars := BaseX.encode base62 wire in
  frame_reflow (make_frame header_marker mt_encryption brand) H' ->
  ws_ins (space_words (S (length chars)) chars 0) B' ->
  frame_reflow (make_frame footer_marker mt_encryption brand) F' ->
  forallb is_frame_ws T' = true ->
  dearmor62_decrypt_open vd kr (H' ++ [dot] ++ B' ++ [dot] ++ F' ++ [dot] ++ T') =
  bind (open_all c vd kr wire) (fun r => Ok (fst r, snd r, brand)).
Proof.
  intros Hb chars HH HB HF HT. unfold dearmor62_decrypt_open.
  rewrite (dearmor_reflow wire mt_encryption brand H' B' F' T' enc_armorable Hb HH HB HF HT). reflexivity.
Qed.

End A.
