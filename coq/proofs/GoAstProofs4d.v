(* GoAstProofs4d.v -- source tie for punctuatedReader.ReadUntilPunctuation (/repo/punctuated_reader.go):
   the method body as translated on this run (gen/GoAstStreams.v; the `fallthrough` of its io.EOF case
   desugared by the translator), run by the extended evaluator of model/GoLang2.v on the encoded
   receiver object of GoAstProofs4c.v, computes exactly pr_read_until of model/Streams.v: the returned
   sentence or error, AND the state left in the receiver.

   The inner call p.Read(p.buf[:]) is the extern [ext_rup]: it reads the receiver back (read_pr),
   requires the window to be the whole of p.buf, and answers with pr_read -- the meaning that
   go_punctuatedReader_Read (GoAstProofs4c.v) proves of the translated Read; read_call_sound below
   states that link.  What that theorem leaves open about one Read (nil or empty representation of
   an empty slice in the new receiver, the bytes of the buffer beyond the returned count) is supplied
   by an oracle O; every statement holds for EVERY oracle that keeps the buffer's length.

   TARGETS
   - go_punctuatedReader_ReadUntilPunctuation (and ..._300, the same at the fixed fuel of run_func2):
       for every oracle, every state st, every lim : Z (Go's int; a non-positive lim behaves as 0) and
       the internal buffer of its real length 4096, ReadUntilPunctuation(lim) on [g_pr z1 z2 buf st]
       returns [g_rup_result] of the model's result: (sentence, nil) for Ok, (nil, ErrOverflow),
       (nil, io.ErrUnexpectedEOF) or (nil, the source's error) for Err; and it leaves
       [g_pr z1' z2' buf' st'] in the receiver, st' the model's final state, buf' of length 4096.
       The model is run with fuel S (rup_need lim st []), where
         rup_need lim st [] = min lim (pr_size st),
         pr_size st = bytes buffered in thisSegment/nextSegment + bytes of the source's planned segments:
       every turn of the loop that does not return adds at least one byte to the sentence, which must
       stay shorter than lim, and takes it off what remains to be delivered.
       Hypotheses:
       (1) oracle_ok O: the oracle keeps the length of the buffer (Read does: go_punctuatedReader_Read);
       (2) length buf = 4096: the real length of p.buf (the model reads with 4096);
       (3) pr_this st = [] -> pr_this_punct st = false: the invariant of GoAstProofs4c.v, under which the
           meaning given to the inner call is the proved one (established by pr_init, kept by every Read
           and by this loop: pr_read_until_wf); the proof itself does not use it;
       (4) pr_clean st: neither the pending error nor any error planned in the source is ErrPunctuated.
           NEEDED FOR TRUTH: ErrPunctuated is the reader's own marker; were the underlying io.Reader to
           return that very value, Read passes it on (PrErr _ ErrPunctuated) and the Go loop takes it
           for the end of a sentence (returns (res, nil) or ErrOverflow) while pr_read_until reports
           it as the source's error.  Kept by every Read (pr_read_clean);
       (5) 12 <= F and rup_need lim st [] < F, S F the fuel of the evaluator (one loop turn per unit;
           299 for F in the _300 form): bounds on the EVALUATOR, not on the Go code.
   - pr_read_until_fuel: for any two model fuels above rup_need lim st acc the model returns the same
       result, i.e. under that bound the out-of-fuel value (Err Unmodelled, st) is never what is returned.
   Auxiliary, also closed: read_call_sound, pr_read_until_wf, pr_read_size, pr_read_data_len. *)
From Coq Require Import List String NArith ZArith Bool Lia.
From Coq.Strings Require Import Byte.
From SP Require Import Bytes Consts Params Errors Armor Streams StreamProofs GoLang GoLang2 GoAst GoAstStreams
                       GoAstProofs GoAstProofs2 GoAstProofs3 GoAstProofs4c.
Import ListNotations.
Local Open Scope string_scope.

(* ---------- reading a punctuatedReader object back ---------- *)
Definition read_slice (v : gval) : option bytes :=
  match v with VNil => Some [] | VBytes l => Some l | _ => None end.
Definition read_punct_flag (v : gval) : option bool :=
  match v with
  | VNil => Some false
  | VErr n [] => if String.eqb n "ErrPunctuated" then Some true else None
  | _ => None
  end.
Definition read_pr (v : gval) : option (bytes * pr_state) :=
  match v with
  | VStruct [("r", rv); ("punctuation", VBytes [c]); ("nextSegment", nv); ("thisSegment", tv);
             ("errThisSegment", ev); ("errRead", rev); ("buf", VBytes buf)] =>
    if Byte.eqb c dot then
      match as_source rv, read_slice nv, read_slice tv, read_punct_flag ev, err_opt_of_g rev with
      | Some s, Some nx, Some th, Some tp, Some er => Some (buf, mkPr s nx th tp er)
      | _, _, _, _, _ => None
      end
    else None
  | _ => None
  end.
Lemma read_slice_g (z : bool) (l : bytes) : read_slice (g_slice z l) = Some l.
Proof. destruct l; destruct z; reflexivity. Qed.
Lemma read_pr_g (z1 z2 : bool) (buf : bytes) (st : pr_state) : read_pr (g_pr z1 z2 buf st) = Some (buf, st).
Proof.
  destruct st as [s nx th tp er]. unfold read_pr, g_pr. cbn [pr_src pr_next pr_this pr_this_punct pr_err].
  rewrite byte_eqb_refl, as_source_g, !read_slice_g, err_opt_of_g_err. destruct tp; reflexivity.
Qed.

(* ---------- the inner call p.Read(p.buf[:]) ---------- *)
(* What go_punctuatedReader_Read leaves open about one Read — which of the two representations of
   an empty slice the new receiver uses, and the bytes of the buffer beyond the returned count — is
   supplied by an oracle [O] (pre-state, buffer |-> flags, raw buffer image); the theorems below hold
   for EVERY oracle that keeps the length of the buffer. *)
Definition read_oracle := pr_state -> bytes -> (bool * bool) * bytes.
Definition oracle_ok (O : read_oracle) : Prop := forall st out, List.length (snd (O st out)) = List.length out.

Definition read_call (O : read_oracle) (st : pr_state) (out : bytes) : list gval :=
  let d := pr_data (fst (pr_read (List.length out) st)) in
  [VInt (Z.of_nat (List.length d)); pr_res_err (fst (pr_read (List.length out) st));
   g_pr (fst (fst (O st out))) (snd (fst (O st out))) (d ++ skipn (List.length d) (snd (O st out)))%list
        (snd (pr_read (List.length out) st))].

(* punctuatedReader.Read(p, window) where the window is the whole of p.buf: results n, err, then the
   receiver after the call (its buf field holding what Read left in the window) *)
Definition ext_rup (O : read_oracle) : externs := fun fn args =>
  if String.eqb fn "punctuatedReader.Read" then
    match args with
    | [pv; VBytes out] =>
      match read_pr pv with
      | Some (buf, st) => if bytes_eqb out buf then Some (read_call O st out) else None
      | None => None
      end
    | _ => None
    end
  else None.

(* result of ReadUntilPunctuation *)
Definition g_rup_result (r : result bytes) : list gval :=
  match r with Ok s => [VBytes s; VNil] | Err e => [VNil; g_err e] end.


(* ---------- small facts ---------- *)
Lemma rup_bytes_eqb_refl (a : bytes) : bytes_eqb a a = true.
Proof. induction a as [|x a IH]; [reflexivity|]. cbn [bytes_eqb]. rewrite byte_eqb_refl, IH. reflexivity. Qed.
Lemma read_punct_flag_g (tp : bool) : read_punct_flag (if tp then VErr "ErrPunctuated" [] else VNil) = Some tp.
Proof. destruct tp; reflexivity. Qed.

Definition is_eof (e : err) : bool := match e with EOF => true | _ => false end.
Lemma veq_nil (e : err) : val_eqb 8 (g_err e) VNil = Some false.
Proof. destruct e; reflexivity. Qed.
Definition is_punct_err (e : err) : bool := match e with ErrPunctuated => true | _ => false end.
Lemma veq_punct (e : err) : val_eqb 8 (g_err e) (VErr "ErrPunctuated" []) = Some (is_punct_err e).
Proof. destruct e; reflexivity. Qed.
Lemma is_punct_err_true (e : err) : is_punct_err e = true -> e = ErrPunctuated.
Proof. destruct e; cbn; congruence. Qed.
Lemma veq_eof (e : err) : val_eqb 8 (g_err e) (VErr "io.EOF" []) = Some (is_eof e).
Proof. destruct e; reflexivity. Qed.
Lemma leb_nat_Z (lim : Z) (n : nat) : Nat.leb (Z.to_nat lim) n = (lim <=? Z.of_nat n)%Z.
Proof. destruct (Nat.leb (Z.to_nat lim) n) eqn:E; [apply Nat.leb_le in E|apply Nat.leb_gt in E]; lia. Qed.
Lemma firstn_front {A} (d t : list A) : firstn (Z.to_nat (Z.of_nat (List.length d) - 0)) (d ++ t) = d.
Proof. rewrite Z.sub_0_r, Nat2Z.id. apply firstn_app_len. Qed.
Lemma ltb_app_front {A} (d t : list A) : (Z.of_nat (List.length (d ++ t)) <? Z.of_nat (List.length d))%Z = false.
Proof. rewrite app_length. lia. Qed.

(* ---------- stepping: as in GoAstProofs4c, with the comparisons of error values kept symbolic ---------- *)
Ltac ev_in4 h ::=
  eval cbv -[Z.eqb Z.ltb Z.leb Z.add Z.sub Z.mul Z.modulo Z.rem Z.quot Z.shiftr Z.shiftl Z.opp
             Z.land Z.lor Z.lxor Z.lnot Z.of_nat Z.of_N Z.to_nat Z.to_N List.length nth_error
             firstn skipn bytes_eqb' bytes_eqb Byte.to_N Byte.of_N Byte.eqb N.mul N.ltb N.eqb N.add N.leb Nat.eqb Nat.leb Nat.ltb
             Nat.min Nat.sub Nat.add nth map repeat app
             err_name err_args g_chunk g_seg g_source as_source src_read read_result bytes_index index_Z split_dot pr_scan dot
             val_eqb g_err g_err_opt g_slice read_slice read_punct_flag err_opt_of_g read_call pr_read is_eof is_punct_err
             for_loop2 range_loop2 exec2] in h.
Ltac veq_step :=
  lazymatch goal with
  | |- ?G =>
    let L := lazymatch G with (?L = _ -> _) => L | ?L = _ => L | _ => G end in
    let h := head_scrut3 L in
    lazymatch h with
    | val_eqb _ (g_err _) VNil => rewrite veq_nil
    | val_eqb _ (g_err _) (VErr "ErrPunctuated" []) => rewrite veq_punct
    | val_eqb _ (g_err _) (VErr "io.EOF" []) => rewrite veq_eof
    | val_eqb _ _ _ => let h' := eval cbv in h in change h with h'
    end
  end; cbv beta iota.
Ltac decode_step :=
  progress (rewrite ?byte_eqb_refl, ?as_source_g, ?read_slice_g, ?read_punct_flag_g, ?err_opt_of_g_err, ?rup_bytes_eqb_refl,
                    ?firstn_front, ?ltb_app_front); cbv beta iota.
Ltac steps5 X := repeat first [veq_step | step4 X | use_head_hyp4 | lits1 | lits2 | lits3 | slice1 | arith4 | decode_step].

Ltac rup_run O Epr EO :=
  steps5 (ext_rup O); unfold read_call; rewrite Epr, EO; cbn [fst snd pr_data pr_res_err]; steps5 (ext_rup O).

Definition rup_body : list gstmt :=
  Eval cbv in match f_body f_saltpack_punctuatedReader_ReadUntilPunctuation with [SFor _ b] => b | _ => [] end.
Definition envR (P : gval) (lim : Z) (res : gval) (tl : env) : env :=
  ([("p", P); ("lim", VInt lim); ("res", res); ("err", VNil)] ++ tl)%list.
Definition rup_tail (tl : env) : Prop := tl = [] \/ exists x, tl = [("n", x)].
(* the accumulated sentence: nil until the first append *)
Definition rup_res (v : gval) (acc : bytes) : Prop := (v = VNil /\ acc = []) \/ v = VBytes acc.

Definition new_p (O : read_oracle) (st : pr_state) (buf : bytes) : gval := nth 2 (read_call O st buf) VNil.

Lemma is_eof_true (e : err) : is_eof e = true -> e = EOF.
Proof. destruct e; cbn; congruence. Qed.
Lemma is_eof_false (e : err) : is_eof e = false -> match e with EOF => ErrUnexpectedEOF | e' => e' end = e.
Proof. destruct e; cbn; congruence. Qed.

(* `var n int` at the head of the loop body *)
Lemma rup_var_n (X : externs) (f : nat) (rest : list gstmt) (P : gval) (lim : Z) (resv : gval) (tl : env) :
  rup_tail tl ->
  exec2 X (S f) (envR P lim resv tl) (SVar "n" "int" :: rest)
  = exec2 X f (envR P lim resv [("n", VInt 0)]) rest.
Proof. intros [->|(x & ->)]; reflexivity. Qed.

Lemma rup_body_step (O : read_oracle) (f : nat) (z1 z2 : bool) (buf : bytes) (st : pr_state) (lim : Z)
      (resv : gval) (acc : bytes) (tl : env) :
  rup_tail tl -> rup_res resv acc ->
  (forall d0, fst (pr_read (List.length buf) st) <> PrErr d0 ErrPunctuated) ->
  let res := fst (pr_read (List.length buf) st) in
  let d := pr_data res in
  let acc' := (acc ++ d)%list in
  exists E,
  exec2 (ext_rup O) (S (S (S (S (S (S (S (S (S (S (S (S f))))))))))))
        (envR (g_pr z1 z2 buf st) lim resv tl) rup_body
  = match res with
    | PrData _ =>
      if (lim <=? Z.of_nat (List.length acc'))%Z then CRet [VNil; g_err ErrOverflow] E
      else match d with
           | [] => CRet [VNil; g_err ErrUnexpectedEOF] E
           | _ => CNorm (envR (new_p O st buf) lim (VBytes acc') [("n", VInt (Z.of_nat (List.length d)))])
           end
    | PrPunct _ =>
      if (lim <=? Z.of_nat (List.length acc'))%Z then CRet [VNil; g_err ErrOverflow] E
      else CRet [VBytes acc'; VNil] E
    | PrErr _ e => CRet [VNil; g_err (match e with EOF => ErrUnexpectedEOF | e' => e' end)] E
    end /\ lookup "p" E = Some (new_p O st buf).
Proof.
  intros Htl Hres Hnp. cbv zeta. unfold new_p, read_call. cbn [nth].
  destruct st as [s nx th tp er].
  destruct (pr_read (List.length buf) (mkPr s nx th tp er)) as [res st1] eqn:Epr.
  destruct (O (mkPr s nx th tp er) buf) as [[a b] raw] eqn:EO. cbn [fst snd].
  change rup_body with (SVar "n" "int" :: List.tl rup_body). rewrite (rup_var_n _ _ _ _ _ _ _ Htl). clear Htl tl.
  unfold rup_body, envR, g_pr. cbn [List.tl app pr_src pr_next pr_this pr_this_punct pr_err].
  destruct res as [d|d|d e]; cbn [pr_data].
  - destruct (lim <=? Z.of_nat (List.length (acc ++ d)))%Z eqn:Eov.
    + destruct Hres as [[-> ->]| ->]; cbn [app] in *; eexists; (split; [rup_run O Epr EO|]); reflexivity.
    + destruct (Z.of_nat (List.length d) =? 0)%Z eqn:Ez.
      * assert (Hm : forall (T : Type) (X Y : T), match d with [] => X | _ :: _ => Y end = X)
          by (intros; destruct d; [reflexivity|cbn [List.length] in Ez; lia]).
        destruct Hres as [[-> ->]| ->]; cbn [app] in *; eexists; rewrite Hm; (split; [rup_run O Epr EO|]); reflexivity.
      * assert (Hm : forall (T : Type) (X Y : T), match d with [] => X | _ :: _ => Y end = Y)
          by (intros; destruct d; [discriminate|reflexivity]).
        destruct Hres as [[-> ->]| ->]; cbn [app] in *; exists [("p", new_p O (mkPr s nx th tp er) buf)]; rewrite Hm;
          (split; [rup_run O Epr EO; reflexivity
                  |unfold new_p, read_call; rewrite Epr, EO; reflexivity]).
  - destruct (lim <=? Z.of_nat (List.length (acc ++ d)))%Z eqn:Eov;
      destruct Hres as [[-> ->]| ->]; cbn [app] in *; eexists; (split; [rup_run O Epr EO|]); reflexivity.
  - assert (Hpe : is_punct_err e = false).
    { destruct (is_punct_err e) eqn:Ep; [|reflexivity]. apply is_punct_err_true in Ep. subst e.
      exfalso. apply (Hnp d). reflexivity. }
    clear Hnp. destruct (is_eof e) eqn:Ee.
    + apply is_eof_true in Ee. subst e.
      destruct Hres as [[-> ->]| ->]; eexists; (split; [rup_run O Epr EO|]); reflexivity.
    + rewrite (is_eof_false e Ee).
      destruct Hres as [[-> ->]| ->]; eexists; (split; [rup_run O Epr EO|]); reflexivity.
Qed.

(* ---------- how long the loop can run ---------- *)
(* bytes still to be delivered: buffered ones and those of the source's planned segments *)
Fixpoint segs_size (l : list seg) : nat :=
  match l with [] => 0%nat | sg :: t => (List.length (seg_data sg) + segs_size t)%nat end.
Definition pr_size (st : pr_state) : nat :=
  (List.length (pr_this st) + List.length (pr_next st) + segs_size (src_segs (pr_src st)))%nat.

Lemma src_read_size (n : nat) (s : source) :
  (List.length (fst (fst (src_read n s))) + segs_size (src_segs (snd (src_read n s))) <= segs_size (src_segs s))%nat.
Proof.
  destruct s as [segs fin]. unfold src_read. cbn [src_segs src_final].
  destruct segs as [|sg t]; cbn [fst snd src_segs segs_size List.length]; [lia|].
  destruct (Nat.leb (List.length (seg_data sg)) n).
  - destruct (seg_err sg); cbn [fst snd src_segs segs_size]; lia.
  - cbn [fst snd src_segs segs_size seg_data]. rewrite firstn_length, skipn_length. lia.
Qed.

Lemma pr_scan_len (s : bytes) :
  match pr_scan s with
  | (a, Some r) => List.length s = (List.length a + S (List.length r))%nat
  | (a, None) => a = s
  end.
Proof.
  pose proof (index_scan s) as H. destruct (pr_scan s) as [a [r|]].
  - destruct H as [_ ->]. rewrite app_length. reflexivity.
  - destruct H as [_ ->]. reflexivity.
Qed.

(* a Read that hands out data without punctuation takes it off what remains *)
Lemma pr_read_size (n : nat) (st : pr_state) :
  match pr_read n st with
  | (PrData d, st') => (List.length d + pr_size st' <= pr_size st)%nat
  | _ => True
  end.
Proof.
  destruct st as [src nxt this tp perr]. unfold pr_read, pr_size. cbn [pr_src pr_next pr_this pr_this_punct pr_err].
  destruct this as [|t0 this'].
  - destruct nxt as [|n0 nxt'].
    + destruct perr as [e|]; [exact I|].
      pose proof (src_read_size n src) as Hs.
      destruct (src_read n src) as [[data e] s']. cbn [fst snd] in Hs.
      assert (Hgen : match (let (a, rest) := pr_scan data in
                            (match rest with Some _ => PrPunct a | None => PrData a end,
                             mkPr s' (match rest with Some r => r | None => [] end) [] false e)) with
                     | (PrData d, st') => (List.length d + (List.length (pr_this st') + List.length (pr_next st') + segs_size (src_segs (pr_src st')))
                                           <= 0 + 0 + segs_size (src_segs src))%nat
                     | _ => True
                     end).
      { pose proof (pr_scan_len data) as Hl. destruct (pr_scan data) as [a [r|]]; [exact I|].
        subst a. cbn [pr_this pr_next pr_src List.length]. lia. }
      destruct data as [|d0 data']; [destruct e as [e|]; [exact I|exact Hgen]|exact Hgen].
    + pose proof (pr_scan_len (n0 :: nxt')) as Hl.
      destruct (pr_scan (n0 :: nxt')) as [a rest].
      assert (Ha : (List.length (firstn n a) + List.length (skipn n a) = List.length a)%nat)
        by (rewrite <- (firstn_skipn n a) at 3; rewrite app_length; reflexivity).
      assert (Hr : (List.length a + List.length (match rest with Some r => r | None => [] end) <= List.length (n0 :: nxt'))%nat)
        by (destruct rest as [r|]; [lia|subst a; cbn [List.length]; lia]).
      destruct (skipn n a) as [|r0 rr] eqn:Esk.
      * destruct rest as [r|]; [exact I|]. cbn [pr_this pr_next pr_src List.length] in *. lia.
      * cbn [pr_this pr_next pr_src] in *. destruct rest; lia.
  - assert (Ha : (List.length (firstn n (t0 :: this')) + List.length (skipn n (t0 :: this')) = List.length (t0 :: this'))%nat)
      by (rewrite <- (firstn_skipn n (t0 :: this')) at 3; rewrite app_length; reflexivity).
    destruct (skipn n (t0 :: this')) as [|r0 rr] eqn:Esk.
    + destruct tp; [exact I|]. cbn [pr_this pr_next pr_src List.length] in *. lia.
    + cbn [pr_this pr_next pr_src] in *. lia.
Qed.

(* a Read hands out at most as many bytes as the buffer holds *)
Lemma pr_read_data_len (n : nat) (st : pr_state) : (List.length (pr_data (fst (pr_read n st))) <= n)%nat.
Proof.
  destruct st as [src nxt this tp perr]. unfold pr_read. cbn [pr_src pr_next pr_this pr_this_punct pr_err].
  destruct this as [|t0 this'].
  - destruct nxt as [|n0 nxt'].
    + destruct perr as [e|]; [cbn; lia|].
      pose proof (src_read_len n src) as Hs.
      destruct (src_read n src) as [[data e] s']. cbn [fst snd] in Hs.
      assert (Hgen : (List.length (pr_data (fst (let (a, rest) := pr_scan data in
                            (match rest with Some _ => PrPunct a | None => PrData a end,
                             mkPr s' (match rest with Some r => r | None => [] end) [] false e)))) <= n)%nat).
      { pose proof (pr_scan_len data) as Hl. destruct (pr_scan data) as [a [r|]]; cbn [fst pr_data]; [lia|subst a; exact Hs]. }
      destruct data as [|d0 data']; [destruct e as [e|]; [cbn; lia|exact Hgen]|exact Hgen].
    + destruct (pr_scan (n0 :: nxt')) as [a rest].
      destruct (skipn n a); [destruct rest|]; cbn [fst pr_data]; rewrite firstn_length; lia.
  - destruct (skipn n (t0 :: this')); [destruct tp|]; cbn [fst pr_data]; rewrite firstn_length; lia.
Qed.

(* ---------- the underlying reader does not itself return the punctuation marker ---------- *)
(* ErrPunctuated is the punctuated reader's own signal; were the underlying reader to return that very
   value, ReadUntilPunctuation would take it for the end of a sentence, while the model reports it as
   the source's error *)
Definition src_clean (s : source) : Prop :=
  Forall (fun sg => seg_err sg <> Some ErrPunctuated) (src_segs s) /\ src_final s <> ErrPunctuated.
Definition pr_clean (st : pr_state) : Prop := src_clean (pr_src st) /\ pr_err st <> Some ErrPunctuated.

Lemma src_read_clean (n : nat) (s : source) : src_clean s ->
  snd (fst (src_read n s)) <> Some ErrPunctuated /\ src_clean (snd (src_read n s)).
Proof.
  destruct s as [segs fin]. unfold src_clean, src_read. cbn [src_segs src_final]. intros [Hs Hf].
  destruct segs as [|sg t]; cbn [fst snd src_segs src_final].
  - split; [congruence|]. split; assumption.
  - inversion Hs as [|? ? Hh Ht]; subst.
    destruct (Nat.leb (List.length (seg_data sg)) n).
    + destruct (seg_err sg) as [e|] eqn:Ee; cbn [fst snd src_segs src_final].
      * split; [exact Hh|]. split; [constructor|congruence].
      * split; [discriminate|]. split; assumption.
    + cbn [fst snd src_segs src_final]. split; [discriminate|]. split; [|assumption].
      constructor; [exact Hh|exact Ht].
Qed.

Lemma pr_read_clean (n : nat) (st : pr_state) : pr_clean st ->
  (forall d, fst (pr_read n st) <> PrErr d ErrPunctuated) /\ pr_clean (snd (pr_read n st)).
Proof.
  destruct st as [src nxt this tp perr]. unfold pr_clean, pr_read. cbn [pr_src pr_next pr_this pr_this_punct pr_err].
  intros [Hs He].
  destruct this as [|t0 this'].
  - destruct nxt as [|n0 nxt'].
    + destruct perr as [e|].
      * cbn [fst snd pr_src pr_err]. split; [intros d H; injection H as _ ->; congruence|split; assumption].
      * destruct (src_read_clean n src Hs) as [He' Hs'].
        destruct (src_read n src) as [[data e] s']. cbn [fst snd] in He', Hs'.
        assert (Hgen : (forall d, fst (let (a, rest) := pr_scan data in
                            (match rest with Some _ => PrPunct a | None => PrData a end,
                             mkPr s' (match rest with Some r => r | None => [] end) [] false e)) <> PrErr d ErrPunctuated) /\
                       pr_clean (snd (let (a, rest) := pr_scan data in
                            (match rest with Some _ => PrPunct a | None => PrData a end,
                             mkPr s' (match rest with Some r => r | None => [] end) [] false e)))).
        { destruct (pr_scan data) as [a [r|]]; cbn [fst snd]; (split; [intros d; discriminate|split; assumption]). }
        destruct data as [|d0 data']; [destruct e as [e|]|]; try exact Hgen.
        cbn [fst snd]. split; [intros d H; injection H as _ ->; congruence|]. split; [exact Hs'|discriminate].
    + destruct (pr_scan (n0 :: nxt')) as [a rest].
      destruct (skipn n a); [destruct rest|]; cbn [fst snd]; (split; [intros d; discriminate|split; assumption]).
  - destruct (skipn n (t0 :: this')); [destruct tp|]; cbn [fst snd]; (split; [intros d; discriminate|split; assumption]).
Qed.

(* turns of the loop still possible: each turn that does not return adds at least one byte to the
   sentence (which must stay below lim) and takes it off what remains to be delivered *)
Definition rup_need (lim : nat) (st : pr_state) (acc : bytes) : nat :=
  Nat.min (lim - List.length acc) (pr_size st).

Lemma pr_read_until_S (f lim : nat) (st : pr_state) (acc : bytes) :
  pr_read_until (S f) lim st acc =
    match pr_read 4096 st with
    | (PrData d, st') =>
      let acc' := (acc ++ d)%list in
      if Nat.leb lim (List.length acc') then (Err ErrOverflow, st')
      else match d with
           | [] => (Err ErrUnexpectedEOF, st')
           | _ => pr_read_until f lim st' acc'
           end
    | (PrPunct d, st') =>
      let acc' := (acc ++ d)%list in
      if Nat.leb lim (List.length acc') then (Err ErrOverflow, st') else (Ok acc', st')
    | (PrErr _ e, st') => (Err (match e with EOF => ErrUnexpectedEOF | e' => e' end), st')
    end.
Proof. reflexivity. Qed.

Lemma rup_need_step (lim : nat) (st st' : pr_state) (acc d : bytes) :
  pr_read 4096 st = (PrData d, st') -> d <> [] -> Nat.leb lim (List.length (acc ++ d)%list) = false ->
  (rup_need lim st' (acc ++ d)%list < rup_need lim st acc)%nat.
Proof.
  intros Hr Hd Hl. pose proof (pr_read_size 4096 st) as Hs. rewrite Hr in Hs.
  apply Nat.leb_gt in Hl. rewrite app_length in *. unfold rup_need. rewrite app_length.
  assert (1 <= List.length d)%nat by (destruct d; [congruence|cbn; lia]). lia.
Qed.

(* (TARGET) above that many turns the model's fuel is immaterial: the out-of-fuel value is not reached *)
Lemma pr_read_until_fuel (k1 : nat) : forall (k2 lim : nat) (st : pr_state) (acc : bytes),
  (rup_need lim st acc < k1)%nat -> (rup_need lim st acc < k2)%nat ->
  pr_read_until k1 lim st acc = pr_read_until k2 lim st acc.
Proof.
  induction k1 as [|k1 IH]; intros k2 lim st acc H1 H2; [lia|].
  destruct k2 as [|k2]; [lia|]. rewrite !pr_read_until_S.
  destruct (pr_read 4096 st) as [[d|d|d e] st'] eqn:Er; [|reflexivity|reflexivity]. cbv zeta.
  destruct (Nat.leb lim (List.length (acc ++ d)%list)) eqn:El; [reflexivity|].
  destruct d as [|d0 d']; [reflexivity|].
  pose proof (rup_need_step lim st st' acc (d0 :: d') Er ltac:(discriminate) El) as Hn.
  apply IH; lia.
Qed.


(* ---------- the loop ---------- *)
Definition F12 (f : nat) : nat := S (S (S (S (S (S (S (S (S (S (S (S f))))))))))).

Lemma new_p_shape (O : read_oracle) (st : pr_state) (buf : bytes) :
  oracle_ok O -> List.length buf = 4096%nat ->
  exists z1' z2' buf', new_p O st buf = g_pr z1' z2' buf' (snd (pr_read 4096 st)) /\ List.length buf' = 4096%nat.
Proof.
  intros HO Hb. unfold new_p, read_call. cbn [nth]. rewrite Hb.
  do 3 eexists. split; [reflexivity|].
  pose proof (pr_read_data_len 4096 st) as Hd. pose proof (HO st buf) as Hr.
  rewrite app_length, skipn_length. lia.
Qed.

Lemma rup_loop (O : read_oracle) (f : nat) (lim : Z) (k : nat) : oracle_ok O ->
  forall (st : pr_state) (acc : bytes) (z1 z2 : bool) (buf : bytes) (resv : gval) (tl : env),
  List.length buf = 4096%nat -> rup_tail tl -> rup_res resv acc -> pr_clean st ->
  (rup_need (Z.to_nat lim) st acc < k)%nat ->
  exists E z1' z2' buf',
    for_loop2 (ext_rup O) (F12 f) (EBool true) rup_body [] k (envR (g_pr z1 z2 buf st) lim resv tl)
    = CRet (g_rup_result (fst (pr_read_until k (Z.to_nat lim) st acc))) E /\
    lookup "p" E = Some (g_pr z1' z2' buf' (snd (pr_read_until k (Z.to_nat lim) st acc))) /\
    List.length buf' = 4096%nat.
Proof.
  intros HO. induction k as [|k IH]; intros st acc z1 z2 buf resv tl Hb Htl Hres Hcl Hk; [lia|].
  rewrite for_loop2_S, pr_read_until_S.
  change (eval (ext_rup O) 64 (envR (g_pr z1 z2 buf st) lim resv tl) (EBool true)) with (Some (VBool true)).
  cbv beta iota.
  destruct (pr_read_clean 4096 st Hcl) as [Hne Hcl'].
  destruct (rup_body_step O f z1 z2 buf st lim resv acc tl Htl Hres ltac:(rewrite Hb; exact Hne)) as (E & Hstep & HE).
  cbv zeta in Hstep. rewrite Hb in Hstep. unfold F12. rewrite Hstep. clear Hstep.
  destruct (new_p_shape O st buf HO Hb) as (a & b & buf1 & Hnp & Hb1).
  destruct (pr_read 4096 st) as [[d|d|d e] st'] eqn:Er; cbn [fst snd pr_data] in *; cbv zeta.
  - rewrite leb_nat_Z.
    destruct (lim <=? Z.of_nat (List.length (acc ++ d)))%Z eqn:Eov.
    + exists E, a, b, buf1. cbn [fst snd g_rup_result]. rewrite HE, Hnp. repeat split; assumption.
    + destruct d as [|d0 d'].
      * exists E, a, b, buf1. cbn [fst snd g_rup_result]. rewrite HE, Hnp. repeat split; assumption.
      * rewrite Hnp.
        assert (Hn : (rup_need (Z.to_nat lim) st' (acc ++ d0 :: d')%list < k)%nat).
        { pose proof (rup_need_step (Z.to_nat lim) st st' acc (d0 :: d') Er ltac:(discriminate)) as Hn.
          rewrite leb_nat_Z in Hn. specialize (Hn Eov). lia. }
        apply (IH st' (acc ++ d0 :: d')%list a b buf1 (VBytes (acc ++ d0 :: d')%list) _ Hb1).
        -- right. eexists. reflexivity.
        -- right. reflexivity.
        -- exact Hcl'.
        -- exact Hn.
  - rewrite leb_nat_Z.
    destruct (lim <=? Z.of_nat (List.length (acc ++ d)))%Z eqn:Eov;
      exists E, a, b, buf1; cbn [fst snd g_rup_result]; rewrite HE, Hnp; repeat split; assumption.
  - exists E, a, b, buf1. cbn [fst snd g_rup_result]. rewrite HE, Hnp. repeat split; assumption.
Qed.

(* (TARGET) *)
Theorem go_punctuatedReader_ReadUntilPunctuation (O : read_oracle) (F : nat) (z1 z2 : bool) (buf : bytes)
        (st : pr_state) (lim : Z) :
  oracle_ok O -> List.length buf = 4096%nat ->
  (pr_this st = [] -> pr_this_punct st = false) -> pr_clean st ->
  (12 <= F)%nat -> (rup_need (Z.to_nat lim) st [] < F)%nat ->
  let r := run_func2_at (S F) (ext_rup O) f_saltpack_punctuatedReader_ReadUntilPunctuation [g_pr z1 z2 buf st; VInt lim] in
  let m := pr_read_until (S (rup_need (Z.to_nat lim) st [])) (Z.to_nat lim) st [] in
  fst r = ORet (g_rup_result (fst m)) /\
  exists z1' z2' buf', lookup "p" (snd r) = Some (g_pr z1' z2' buf' (snd m)) /\ List.length buf' = 4096%nat.
Proof.
  intros HO Hb _ Hcl HF Hk. cbv zeta.
  rewrite (pr_read_until_fuel _ F) by lia.
  assert (HF' : exists f, F = F12 f) by (exists (F - 12)%nat; unfold F12; lia).
  destruct HF' as [f ->].
  destruct (rup_loop O f lim (F12 f) HO st [] z1 z2 buf VNil [] Hb (or_introl eq_refl)
                     (or_introl (conj eq_refl eq_refl)) Hcl Hk) as (E & a & b & buf1 & Hl & HE & Hb1).
  unfold run_func2_at.
  cbn [f_params f_results f_body f_saltpack_punctuatedReader_ReadUntilPunctuation bind_params map app fst snd].
  change (zero_of "[]byte") with VNil. change (zero_of "error") with VNil.
  fold rup_body. rewrite exec2_for.
  change [("p", g_pr z1 z2 buf st); ("lim", VInt lim); ("res", VNil); ("err", VNil)]
    with (envR (g_pr z1 z2 buf st) lim VNil []).
  rewrite Hl. cbn [fst snd]. split; [reflexivity|].
  exists a, b, buf1. split; assumption.
Qed.

(* (TARGET) the same at the fuel of run_func2 *)
Corollary go_punctuatedReader_ReadUntilPunctuation_300 (O : read_oracle) (z1 z2 : bool) (buf : bytes)
        (st : pr_state) (lim : Z) :
  oracle_ok O -> List.length buf = 4096%nat ->
  (pr_this st = [] -> pr_this_punct st = false) -> pr_clean st ->
  (rup_need (Z.to_nat lim) st [] < 299)%nat ->
  let r := run_func2 (ext_rup O) f_saltpack_punctuatedReader_ReadUntilPunctuation [g_pr z1 z2 buf st; VInt lim] in
  let m := pr_read_until (S (rup_need (Z.to_nat lim) st [])) (Z.to_nat lim) st [] in
  fst r = ORet (g_rup_result (fst m)) /\
  exists z1' z2' buf', lookup "p" (snd r) = Some (g_pr z1' z2' buf' (snd m)) /\ List.length buf' = 4096%nat.
Proof.
  intros HO Hb Hwf Hcl Hk. rewrite run_func2_at_300.
  apply (go_punctuatedReader_ReadUntilPunctuation O 299 z1 z2 buf st lim HO Hb Hwf Hcl); [lia|exact Hk].
Qed.

(* ---------- the extern is what go_punctuatedReader_Read proves of the translated Read ---------- *)
(* For a state satisfying the invariant, the translated punctuatedReader.Read run on the receiver and a
   window [out] returns the first two results of [read_call], leaves the receiver [read_call] gives
   (but for the buf field) and leaves in the window what [read_call] puts into the buf field — for
   some value of the oracle that keeps the length.  The only thing [ext_rup] adds is the aliasing of
   the window p.buf[:] with the field p.buf, which the evaluator cannot express by itself. *)
Lemma read_call_sound (z1 z2 : bool) (buf : bytes) (st : pr_state) (out : bytes) :
  (pr_this st = [] -> pr_this_punct st = false) ->
  let r := run_func2 ext_pr f_saltpack_punctuatedReader_Read [g_pr z1 z2 buf st; VBytes out] in
  exists (fl : bool * bool) (raw : bytes), List.length raw = List.length out /\
    let O : read_oracle := fun _ _ => (fl, raw) in
    let d := pr_data (fst (pr_read (List.length out) st)) in
    fst r = ORet (firstn 2 (read_call O st out)) /\
    lookup "p" (snd r) = Some (g_pr (fst fl) (snd fl) buf (snd (pr_read (List.length out) st))) /\
    lookup "out" (snd r) = Some (VBytes (d ++ skipn (List.length d) raw)%list) /\
    nth 2 (read_call O st out) VNil = g_pr (fst fl) (snd fl) (d ++ skipn (List.length d) raw)%list (snd (pr_read (List.length out) st)).
Proof.
  intros Hwf. cbv zeta.
  pose proof (go_punctuatedReader_Read z1 z2 buf st out Hwf) as H. cbv zeta in H.
  unfold read_call.
  destruct (pr_read (List.length out) st) as [res st'].
  destruct H as (Hret & (z1' & z2' & Hp) & (out' & Hout & Hlen & Hfirst)).
  exists (z1', z2'), out'. split; [exact Hlen|]. cbn [fst snd firstn nth].
  assert (Hw : (pr_data res ++ skipn (List.length (pr_data res)) out')%list = out').
  { rewrite <- Hfirst at 1. apply firstn_skipn. }
  rewrite Hw. repeat split; assumption.
Qed.

(* the invariant is kept along the loop, so that every inner call is covered by read_call_sound *)
Lemma pr_read_until_wf (k lim : nat) : forall (st : pr_state) (acc : bytes),
  (pr_this st = [] -> pr_this_punct st = false) ->
  let st' := snd (pr_read_until k lim st acc) in pr_this st' = [] -> pr_this_punct st' = false.
Proof.
  induction k as [|k IH]; intros st acc Hwf; [exact Hwf|]. cbv zeta. rewrite pr_read_until_S.
  pose proof (pr_punct_wf_read 4096 st Hwf) as H1.
  destruct (pr_read 4096 st) as [[d|d|d e] st1]; cbn [snd] in H1; cbv zeta.
  - destruct (Nat.leb lim (List.length (acc ++ d)%list)); [exact H1|]. destruct d; [exact H1|]. apply IH. exact H1.
  - destruct (Nat.leb lim (List.length (acc ++ d)%list)); exact H1.
  - exact H1.
Qed.

(* ---------- the statement on concrete inputs ---------- *)
Definition rup_ex_O : read_oracle := fun st out => ((true, false), out).
Definition rup_ex_run (src : source) (lim : Z) :=
  let st := pr_init src in
  let r := run_func2 (ext_rup rup_ex_O) f_saltpack_punctuatedReader_ReadUntilPunctuation
                     [g_pr true true (repeat x00 4096) st; VInt lim] in
  let m := pr_read_until 299 (Z.to_nat lim) st [] in
  (fst r, match lookup "p" (snd r) with Some v => option_map snd (read_pr v) | None => None end,
   ORet (g_rup_result (fst m)), Some (snd m)).
Definition rup_ex_agree (x : outcome * option pr_state * outcome * option pr_state) (o : outcome) : Prop :=
  let '(a, b, c, d) := x in a = o /\ c = o /\ b = d.
Definition rup_ex_src : source := mkSource [mkSeg [x61; x62] None; mkSeg [x63] None; mkSeg [x64; dot; x65] None] EOF.
(* a sentence in the first read; one spanning several reads; overflow at exactly lim; EOF before a
   period; a deferred error; another error of the source *)
Example rup_ex_first : rup_ex_agree (rup_ex_run (mkSource [mkSeg [x61; x62; dot; x63] None] EOF) 10) (ORet [VBytes [x61; x62]; VNil]).
Proof. vm_compute. repeat split. Qed.
Example rup_ex_span : rup_ex_agree (rup_ex_run rup_ex_src 5) (ORet [VBytes [x61; x62; x63; x64]; VNil]).
Proof. vm_compute. repeat split. Qed.
Example rup_ex_overflow : rup_ex_agree (rup_ex_run rup_ex_src 4) (ORet [VNil; g_err ErrOverflow]).
Proof. vm_compute. repeat split. Qed.
Example rup_ex_eof : rup_ex_agree (rup_ex_run (mkSource [mkSeg [x61; x62] None] EOF) 10) (ORet [VNil; g_err ErrUnexpectedEOF]).
Proof. vm_compute. repeat split. Qed.
Example rup_ex_deferred : rup_ex_agree (rup_ex_run (mkSource [mkSeg [x61; x62] (Some EOF)] EOF) 10) (ORet [VNil; g_err ErrUnexpectedEOF]).
Proof. vm_compute. repeat split. Qed.
Example rup_ex_ioerr : rup_ex_agree (rup_ex_run (mkSource [mkSeg [x61; x62] (Some ErrIO)] ErrIO) 10) (ORet [VNil; g_err ErrIO]).
Proof. vm_compute. repeat split. Qed.
(* why pr_clean is needed: an underlying reader whose error is the marker itself *)
Example rup_ex_marker :
  fst (run_func2 (ext_rup rup_ex_O) f_saltpack_punctuatedReader_ReadUntilPunctuation
                 [g_pr true true (repeat x00 4096) (pr_init (mkSource [] ErrPunctuated)); VInt 10]) = ORet [VBytes []; VNil]
  /\ fst (pr_read_until 299 10 (pr_init (mkSource [] ErrPunctuated)) []) = Err ErrPunctuated.
Proof. split; vm_compute; reflexivity. Qed.
