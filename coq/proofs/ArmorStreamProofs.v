(* ArmorStreamProofs.v — the composed armored read stack (model/ArmorStream.v: punctuatedReader under
   framedDecoderStream under the base-X stream decoder, compared call by call with
   saltpack.NewArmor62DecoderStream by the C13 campaign) denotes the one-shot form Armor.dearmor:
   whatever way the underlying reader fragments its data and delivers its terminating error, and
   whatever buffer sizes the caller uses, the bytes delivered are a prefix of the payload the text
   dearmors to; a clean end (EOF) is reported exactly when the source ended with EOF and the text
   dearmors, and then the WHOLE payload has been delivered.
   Statements marked (TARGET) are used verbatim by props/.

   Proof architecture.
   Part A: at the instance "reader = source" the generic decoder gbd_* is BxStream's bd_* (same fuel-
     independent results; needs no assumption on the encoding: obl <= 8*ibl+1 <= 8192*ibl always).
   Part B: BxStreamProofs' invariant/step/drain development redone for the generic decoder over an
     ABSTRACT well-behaved reader: a denotation den : R -> bytes * bool (the bytes still to come and
     whether the error ending them is EOF), an invariant, a measure that decreases with every read
     returning no error, and a step law (rread_spec).  On an error other than EOF the law promises
     nothing about the data delivered with it (framedDecoderStream drops the last body piece when the
     footer is bad) - the decoder discards everything on such an error anyway.
   Part C: framedDecoderStream over the punctuated reader (fds_read chk fuel) is such a reader.  Its
     denotation (fds_den) is a function of the remaining BYTES only: the body text up to the next
     punctuation mark, and "clean" iff the footer sentence is acceptable, the trailing text is valid
     and the source ends with EOF.  Which non-EOF error ends a bad stream may depend on the
     fragmentation (ErrTrailingGarbage vs ErrPunctuated); whether it is EOF does not.
   Part D: that denotation against Armor.dearmor (armor_parts).
   Part E: the TARGETs.

   Two statements had to be adjusted (marked STATEMENT ADJUSTED below, with counterexamples):
   ad_drain_clean_end (with no checkers the stream does not validate the characters of the frame
   sentences, armorOpen does, through Frame.GetHeader/GetFooter) and ad_drain_modelled (a source may
   itself end with the error value Unmodelled). *)
From Coq Require Import List NArith ZArith Bool Lia.
From Coq Require Import PeanoNat ZifyN ZifyNat ZifyBool.
From Coq.Strings Require Import Byte.
From SP Require Import Bytes Consts Params Errors BaseX Encodings Armor Streams BxStream ArmorStream
                       BaseXProofs StreamProofs BxStreamProofs ArmorProofs.
Import ListNotations.

(* ====================================================================== *)
(* Part A: the generic decoder at the instance "reader = source"           *)
(* ====================================================================== *)

(* fuel facts of the explicit source, free of any assumption on the encoding *)
Lemma as_src_fuel_ge (s : source) : (2 <= src_fuel s)%nat.
Proof. unfold src_fuel. lia. Qed.

Lemma as_src_read_fuel_lt (n : nat) (s : source) (data : bytes) (s' : source) : (0 < n)%nat ->
  src_read n s = ((data, None), s') -> (src_fuel s' < src_fuel s)%nat.
Proof.
  intros Hn H. destruct s as [segs fi]. unfold src_read in H. cbn [src_segs src_final] in H.
  destruct segs as [|[sd se] t]; [discriminate|]. cbn [seg_data seg_err] in H.
  unfold src_fuel. cbn [src_segs map concat seg_data length].
  destruct (Nat.leb (length sd) n) eqn:L.
  - destruct se; [discriminate|]. injection H as _ <-. cbn [src_segs]. rewrite app_length. lia.
  - apply Nat.leb_gt in L. injection H as _ <-. cbn [src_segs map concat seg_data length].
    rewrite !app_length, skipn_length. lia.
Qed.

Lemma as_src_read_fuel_le (n : nat) (s : source) : (src_fuel (snd (src_read n s)) <= src_fuel s)%nat.
Proof.
  destruct s as [segs fi]. unfold src_read. cbn [src_segs src_final].
  destruct segs as [|[sd se] t]; [cbn [snd]; lia|]. cbn [seg_data seg_err].
  unfold src_fuel. destruct (Nat.leb (length sd) n) eqn:L.
  - destruct se; cbn [snd src_segs map concat seg_data length]; rewrite ?app_length; lia.
  - cbn [snd src_segs map concat seg_data length]. rewrite !app_length, skipn_length. lia.
Qed.

Lemma as_src_read_0 (s : source) : fst (fst (src_read 0 s)) = [].
Proof.
  destruct s as [segs fi]. unfold src_read. cbn [src_segs src_final].
  destruct segs as [|[sd se] t]; [reflexivity|]. cbn [seg_data seg_err].
  destruct (Nat.leb (length sd) 0) eqn:L.
  - apply Nat.leb_le in L. destruct sd; [|cbn in L; lia]. destruct se; reflexivity.
  - reflexivity.
Qed.

Section Agree.
Variable e : encoding.
Local Notation obln := (N.to_nat (obl e)).
Local Notation ibln := (N.to_nat (ibl e)).

Lemma as_min_chars_aux_le : forall (fuel : nat) (c pw t : N),
  (min_chars_aux e fuel c pw t <= c + N.of_nat fuel)%N.
Proof.
  induction fuel as [|f IH]; intros c pw t; cbn [min_chars_aux]; [lia|].
  destruct (t <=? pw)%N; [lia|]. specialize (IH (c + 1)%N (pw * base e)%N t). lia.
Qed.

(* the decoder's input buffer always holds at least one block *)
Lemma as_obl_le_k (k : nat) : (9 <= k)%nat -> (obln <= k * ibln)%nat.
Proof.
  intro Hk. unfold obl, ibl. destruct (enc_ibl e) as [|p] eqn:Hi.
  - assert (H0 : min_chars e 0 = 0%N) by reflexivity. rewrite H0. lia.
  - pose proof (as_min_chars_aux_le (N.to_nat (8 * N.pos p + 1)) 0 1 (256 ^ N.pos p)) as H.
    unfold min_chars. nia.
Qed.

Lemma as_obl_le_cap : (obln <= 8192 * ibln)%nat.
Proof. apply as_obl_le_k. apply Nat.leb_le. vm_compute. reflexivity. Qed.

Definition g2f (r : gfr_state source) : fr_state := mkFr (gfr_r source r) (gfr_nread source r).
Definition f2g (r : fr_state) : gfr_state source := mkGfr source (fr_src r) (fr_nread r).
Definition g2b (st : gbd_state source) : bd_state :=
  mkBd (gbd_err source st) (gbd_out source st) (gbd_buf source st) (g2f (gbd_r source st)).
Definition b2g (st : bd_state) : gbd_state source :=
  mkGbd source (bd_err st) (bd_out st) (bd_buf st) (f2g (bd_r st)).
Definition on_snd {A B C} (f : B -> C) (p : A * B) : A * C := (fst p, f (snd p)).

Lemma f2g_g2f r : f2g (g2f r) = r.
Proof. destruct r; reflexivity. Qed.
Lemma g2f_f2g r : g2f (f2g r) = r.
Proof. destruct r; reflexivity. Qed.
Lemma g2b_b2g st : g2b (b2g st) = st.
Proof. destruct st as [a b c [s n]]; reflexivity. Qed.

Lemma gfr_fr : forall (f n : nat) (r : fr_state),
  gfr_read e source src_read f n (f2g r) = on_snd f2g (fr_read e f n r).
Proof.
  induction f as [|f IH]; intros n [s nr]; [reflexivity|].
  change (f2g {| fr_src := s; fr_nread := nr |}) with (mkGfr source s nr).
  cbn [gfr_read fr_read gfr_r gfr_nread fr_src fr_nread].
  destruct (src_read n s) as [[data er] s'].
  destruct data as [|b0 data']; [reflexivity|].
  destruct (fr_filter e (b0 :: data') nr []) as [[kept nr']|off]; [|reflexivity].
  destruct kept as [|k0 kept']; [|reflexivity].
  destruct er as [x|]; [reflexivity|].
  apply (IH n (mkFr s' nr')).
Qed.

Lemma fr_read_fuel_le : forall (f n : nat) (r : fr_state),
  (src_fuel (fr_src (snd (fr_read e f n r))) <= src_fuel (fr_src r))%nat.
Proof.
  induction f as [|f IH]; intros n r; [cbn [fr_read snd]; lia|].
  cbn [fr_read]. pose proof (as_src_read_fuel_le n (fr_src r)) as Hle.
  destruct (src_read n (fr_src r)) as [[data er] s']. cbn [snd] in Hle.
  destruct data as [|b0 data']; [exact Hle|].
  destruct (fr_filter e (b0 :: data') (fr_nread r) []) as [[kept nr]|off]; [|exact Hle].
  destruct kept as [|k0 kept']; [|exact Hle].
  destruct er as [x|]; [exact Hle|].
  specialize (IH n (mkFr s' nr)). cbn [fr_src] in IH. lia.
Qed.

Lemma fr_read_fuel_lt : forall (f n : nat) (r : fr_state) data r', (0 < n)%nat ->
  fr_read e f n r = ((data, None), r') -> (src_fuel (fr_src r') < src_fuel (fr_src r))%nat.
Proof.
  induction f as [|f IH]; intros n r data r' Hn H; [discriminate|].
  cbn [fr_read] in H. pose proof (as_src_read_fuel_lt n (fr_src r)) as Hlt.
  destruct (src_read n (fr_src r)) as [[dat er] s'].
  destruct dat as [|b0 dat'].
  { injection H as _ -> <-. cbn [fr_src]. apply (Hlt _ _ Hn eq_refl). }
  destruct (fr_filter e (b0 :: dat') (fr_nread r) []) as [[kept nr]|off]; [|discriminate].
  destruct kept as [|k0 kept'].
  - destruct er as [x|]; [discriminate|].
    specialize (IH n (mkFr s' nr) data r' Hn H). cbn [fr_src] in IH.
    specialize (Hlt _ _ Hn eq_refl). lia.
  - injection H as _ -> <-. cbn [fr_src]. apply (Hlt _ _ Hn eq_refl).
Qed.

Lemma fr_read_fuel_irrel : forall (f1 f2 n : nat) (r : fr_state),
  (src_fuel (fr_src r) <= f1)%nat -> (src_fuel (fr_src r) <= f2)%nat ->
  fr_read e f1 n r = fr_read e f2 n r.
Proof.
  induction f1 as [|f1 IH]; intros f2 n r H1 H2.
  { pose proof (as_src_fuel_ge (fr_src r)). lia. }
  destruct f2 as [|f2]. { pose proof (as_src_fuel_ge (fr_src r)). lia. }
  cbn [fr_read].
  pose proof (as_src_read_fuel_lt n (fr_src r)) as Hlt.
  pose proof (as_src_read_0 (fr_src r)) as H0.
  destruct (src_read n (fr_src r)) as [[data er] s'] eqn:Hr.
  destruct data as [|b0 data']; [reflexivity|].
  destruct (fr_filter e (b0 :: data') (fr_nread r) []) as [[kept nr]|off]; [|reflexivity].
  destruct kept as [|k0 kept']; [|reflexivity].
  destruct er as [x|]; [reflexivity|].
  assert (Hn : (0 < n)%nat).
  { destruct n; [|lia]. rewrite Hr in H0. cbn [fst] in H0. discriminate. }
  specialize (Hlt _ _ Hn eq_refl).
  apply IH; cbn [fr_src]; lia.
Qed.

Lemma g_under_agree (rf n : nat) (r : fr_state) : (src_fuel (fr_src r) <= rf)%nat ->
  g_under_read e source src_read rf n (f2g r) = on_snd f2g (under_read e n r).
Proof.
  intro Hf. unfold g_under_read, under_read. destruct (enc_skip e) as [|k0 ks].
  - destruct r as [s nr]. change (f2g {| fr_src := s; fr_nread := nr |}) with (mkGfr source s nr).
    cbn [gfr_r gfr_nread fr_src fr_nread]. destruct (src_read n s) as [res s']. reflexivity.
  - rewrite gfr_fr. f_equal. apply fr_read_fuel_irrel; [exact Hf|apply le_n].
Qed.

Lemma under_read_fuel_le (n : nat) (r : fr_state) :
  (src_fuel (fr_src (snd (under_read e n r))) <= src_fuel (fr_src r))%nat.
Proof.
  unfold under_read. destruct (enc_skip e) as [|k0 ks].
  - pose proof (as_src_read_fuel_le n (fr_src r)) as H.
    destruct (src_read n (fr_src r)) as [res s']. exact H.
  - apply fr_read_fuel_le.
Qed.

Lemma under_read_fuel_lt (n : nat) (r : fr_state) data r' : (0 < n)%nat ->
  under_read e n r = ((data, None), r') -> (src_fuel (fr_src r') < src_fuel (fr_src r))%nat.
Proof.
  intros Hn. unfold under_read. destruct (enc_skip e) as [|k0 ks].
  - pose proof (as_src_read_fuel_lt n (fr_src r)) as Hlt.
    destruct (src_read n (fr_src r)) as [[dat er] s']. intro H. injection H as _ -> <-.
    cbn [fr_src]. apply (Hlt _ _ Hn eq_refl).
  - apply fr_read_fuel_lt. exact Hn.
Qed.

Lemma gbd_fill_agree : forall (f1 f2 rf nn : nat) (buf : bytes) (r : fr_state),
  (src_fuel (fr_src r) <= f1)%nat -> (src_fuel (fr_src r) <= f2)%nat -> (src_fuel (fr_src r) <= rf)%nat ->
  (obln <= nn)%nat ->
  gbd_fill e source src_read f1 rf nn buf (f2g r) = on_snd f2g (bd_fill e f2 nn buf r).
Proof.
  induction f1 as [|f1 IH]; intros f2 rf nn buf r H1 H2 H3 Hnn.
  { pose proof (as_src_fuel_ge (fr_src r)). lia. }
  destruct f2 as [|f2]. { pose proof (as_src_fuel_ge (fr_src r)). lia. }
  cbn [gbd_fill bd_fill]. destruct (Nat.ltb (length buf) obln) eqn:L; [|reflexivity].
  apply Nat.ltb_lt in L.
  rewrite (g_under_agree rf _ r H3).
  pose proof (under_read_fuel_lt (nn - length buf) r) as Hlt.
  destruct (under_read e (nn - length buf) r) as [[data er] r']. unfold on_snd at 1. cbn [fst snd].
  destruct er as [x|]; [reflexivity|].
  specialize (Hlt data r' ltac:(lia) eq_refl).
  apply IH; lia.
Qed.

Lemma bd_fill_fuel_le : forall (f nn : nat) (buf : bytes) (r : fr_state),
  (src_fuel (fr_src (snd (bd_fill e f nn buf r))) <= src_fuel (fr_src r))%nat.
Proof.
  induction f as [|f IH]; intros nn buf r; [cbn [bd_fill snd]; lia|].
  cbn [bd_fill]. destruct (Nat.ltb (length buf) obln); [|cbn [snd]; lia].
  pose proof (under_read_fuel_le (nn - length buf) r) as Hle.
  destruct (under_read e (nn - length buf) r) as [[data er] r']. cbn [snd] in Hle.
  destruct er as [x|]; [exact Hle|].
  specialize (IH nn (buf ++ data) r'). lia.
Qed.

Lemma as_nn_ge (np : nat) : (obln <= bd_nn e np)%nat.
Proof. apply bd_nn_ge. exact as_obl_le_cap. Qed.

Lemma gbd_read_agree (f1 f2 np : nat) (st : bd_state) :
  (src_fuel (fr_src (bd_r st)) <= f1)%nat -> (src_fuel (fr_src (bd_r st)) <= f2)%nat ->
  gbd_read e source src_read f1 np (b2g st) = on_snd b2g (bd_read e f2 np st).
Proof.
  destruct st as [a b c r]. cbn [bd_r]. intros H1 H2.
  unfold gbd_read, bd_read.
  change (b2g {| bd_err := a; bd_out := b; bd_buf := c; bd_r := r |}) with (mkGbd source a b c (f2g r)).
  cbn [gbd_err gbd_out gbd_buf gbd_r bd_err bd_out bd_buf bd_r].
  destruct a as [x|]; [reflexivity|].
  destruct b as [|o0 ot]; [|reflexivity].
  cbv zeta. fold (input_cap e). fold (bd_nn e np).
  rewrite (gbd_fill_agree f1 f2 f1 (bd_nn e np) c r H1 H2 H1 (as_nn_ge np)).
  destruct (bd_fill e f2 (bd_nn e np) c r) as [[buf er] r'].
  unfold on_snd at 1. cbn [fst snd].
  destruct er as [x|].
  - destruct x; try reflexivity.
    destruct buf as [|b0 bt]; [reflexivity|].
    destruct (decode e (firstn (length (b0 :: bt)) (b0 :: bt))) as [dec derr].
    destruct (Nat.ltb np _).
    + destruct (firstn np dec); destruct derr; reflexivity.
    + destruct dec; destruct derr; reflexivity.
  - destruct (decode e (firstn (length buf / obln * obln) buf)) as [dec derr].
    destruct (Nat.ltb np _).
    + destruct (firstn np dec); destruct derr; reflexivity.
    + destruct dec; destruct derr; reflexivity.
Qed.

Lemma bd_read_fuel_le (f np : nat) (st : bd_state) :
  (src_fuel (fr_src (bd_r (snd (bd_read e f np st)))) <= src_fuel (fr_src (bd_r st)))%nat.
Proof.
  unfold bd_read. destruct (bd_err st) as [x|]; [cbn [snd]; lia|].
  destruct (bd_out st) as [|o0 ot]; [|cbn [snd bd_r]; lia].
  cbv zeta.
  match goal with |- context [bd_fill e f ?nn (bd_buf st) (bd_r st)] =>
    pose proof (bd_fill_fuel_le f nn (bd_buf st) (bd_r st)) as Hle;
    destruct (bd_fill e f nn (bd_buf st) (bd_r st)) as [[buf er] r'] end.
  cbn [snd] in Hle.
  destruct er as [x|].
  - destruct x; try exact Hle.
    destruct buf as [|b0 bt]; [exact Hle|].
    destruct (decode e (firstn (length (b0 :: bt)) (b0 :: bt))) as [dec derr].
    destruct (Nat.ltb np _).
    + destruct (firstn np dec); destruct derr; exact Hle.
    + destruct dec; destruct derr; exact Hle.
  - destruct (decode e (firstn (length buf / obln * obln) buf)) as [dec derr].
    destruct (Nat.ltb np _).
    + destruct (firstn np dec); destruct derr; exact Hle.
    + destruct dec; destruct derr; exact Hle.
Qed.

Lemma gbd_trace_agree (fuel : nat) : forall (sizes : list nat) (st : bd_state),
  (src_fuel (fr_src (bd_r st)) <= fuel)%nat ->
  gbd_trace e source src_read fuel sizes (b2g st) = bd_trace e sizes st.
Proof.
  induction sizes as [|n t IH]; intros st Hf; [reflexivity|].
  cbn [gbd_trace bd_trace].
  rewrite (gbd_read_agree fuel (src_fuel (fr_src (bd_r st))) n st Hf (le_n _)).
  pose proof (bd_read_fuel_le (src_fuel (fr_src (bd_r st))) n st) as Hle.
  destruct (bd_read e (src_fuel (fr_src (bd_r st))) n st) as [res st']. unfold on_snd. cbn [fst snd] in *.
  f_equal. apply IH. lia.
Qed.
End Agree.

(* (TARGET) the generic decoder at the instance "reader = source" is BxStream's decoder: same per-call
   results (fuel: any value at least src_fuel of the source) *)
Lemma gbd_source_agrees (e : encoding) (sizes : list nat) (s : source) (fuel : nat) :
  src_wf s -> (src_fuel s <= fuel)%nat ->
  gbd_trace e source src_read fuel sizes (gbd_init source s) = bd_trace e sizes (bd_init s).
Proof.
  intros _ Hf. exact (gbd_trace_agree e fuel sizes (bd_init s) Hf).
Qed.

(* ====================================================================== *)
(* Part B: the generic decoder over a well-behaved abstract reader         *)
(* ====================================================================== *)
Section Gen.
Variable e : encoding.
Hypothesis Hbase_lo : (2 <= base e)%N.
Hypothesis Hbase_hi : (base e <= 256)%N.
Hypothesis Hnodup : NoDup (enc_alphabet e).
Hypothesis Hibl : (0 < enc_ibl e)%N.
Hypothesis Hcap : (N.to_nat (obl e) <= 8192 * N.to_nat (ibl e))%nat.
Hypothesis Hskip : forall b, is_skip e b = true -> digit_of e b = None.

(* the abstract reader: a state type, Read, what a state still denotes (the bytes it will deliver and
   whether the error that ends them is EOF), an invariant and a measure bounding the remaining reads *)
Variable R : Type.
Variable rread : nat -> R -> (bytes * option err) * R.
Variable den : R -> bytes * bool.
Variable wfR : R -> Prop.
Variable mR : R -> nat.
Variable NU : Prop.            (* "the reader never fails with Unmodelled" *)
Hypothesis rread_spec : forall n r, (0 < n)%nat -> wfR r ->
  let '((d, oe), r') := rread n r in
  match oe with
  | None => wfR r' /\ (mR r' < mR r)%nat /\ fst (den r) = d ++ fst (den r') /\ snd (den r) = snd (den r')
  | Some x => (NU -> x <> Unmodelled) /\ (x = EOF <-> snd (den r) = true) /\
              (x = EOF -> fst (den r) = d /\ wfR r' /\ (mR r' <= mR r)%nat /\ den r' = ([], true))
  end.

Local Notation obln := (N.to_nat (obl e)).
Local Notation ibln := (N.to_nat (ibl e)).
Local Notation run := (BxStreamProofs.run e).
Local Notation afin := (BxStreamProofs.afin e).
Local Notation nsk := (BxStreamProofs.nsk e).
Local Notation gfrS := (gfr_state R).
Local Notation gbdS := (gbd_state R).
Local Notation g_r := (gfr_r R).
Local Notation g_nread := (gfr_nread R).

Let L_afin_fresh := afin_fresh e Hbase_lo Hbase_hi Hnodup Hibl.
Let L_obln_pos := obln_pos e Hbase_lo Hbase_hi Hnodup Hibl Hcap.
Let L_decode_run := decode_run e Hbase_lo Hbase_hi Hnodup Hibl Hcap Hskip.
Let L_run_blocks := run_blocks e Hbase_lo Hbase_hi Hnodup Hibl Hcap Hskip.
Let L_fin_nil := fin_nil e Hbase_lo Hbase_hi Hnodup Hibl.

Definition grem (r : gfrS) : bytes := fst (den (g_r r)).
Definition gend (r : gfrS) : bool := snd (den (g_r r)).
Definition gwf (r : gfrS) : Prop := wfR (g_r r).
Definition gm (r : gfrS) : nat := mR (g_r r).

(* a clean end of the reader: the state it leaves denotes "nothing more, EOF" *)
Definition rd_eof (r r' : gfrS) : Prop :=
  gend r = true /\ gwf r' /\ (gm r' <= gm r)%nat /\ den (g_r r') = ([], true).

(* what a read of the underlying reader (direct or filtered) guarantees *)
Definition gur_spec (r : gfrS) (kept : bytes) (oe : option err) (r' : gfrS) : Prop :=
  match oe with
  | None => gwf r' /\ (gm r' < gm r)%nat /\ gend r' = gend r /\ nsk kept /\
            forall st, run (grem r) st = run (kept ++ grem r') st
  | Some x =>
    (x = EOF /\ nsk kept /\ (forall st, run (grem r) st = run kept st) /\ rd_eof r r')
    \/ (x <> EOF /\ (NU -> x <> Unmodelled) /\
        (gend r = false \/ forall st, snd (afin (run (grem r) st)) = false))
  end.

(* a delivery of the reader together with an error, its characters accepted as [kept] *)
Lemma gur_err (r : gfrS) (data kept : bytes) (x : err) (s' : R) (nr : N) :
  (NU -> x <> Unmodelled) -> (x = EOF <-> snd (den (g_r r)) = true) ->
  (x = EOF -> fst (den (g_r r)) = data /\ wfR s' /\ (mR s' <= mR (g_r r))%nat /\ den s' = ([], true)) ->
  nsk kept -> (forall st, run data st = run kept st) ->
  gur_spec r kept (Some x) (mkGfr R s' nr).
Proof.
  intros S1 S2 S3 Hk Hr. unfold gur_spec. destruct (is_eof x) eqn:Hx.
  - apply is_eof_true in Hx. left. destruct (S3 Hx) as (T1 & T2 & T3 & T4).
    split; [exact Hx|]. split; [exact Hk|]. split; [intro st; unfold grem; rewrite T1; apply Hr|].
    unfold rd_eof, gend, gwf, gm. cbn [gfr_r]. split; [apply S2; exact Hx|]. split; [exact T2|].
    split; [exact T3|exact T4].
  - apply is_eof_false in Hx. right. split; [exact Hx|]. split; [exact S1|]. left.
    unfold gend. destruct (snd (den (g_r r))); [|reflexivity]. exfalso. apply Hx. apply S2. reflexivity.
Qed.

Lemma gfr_read_spec : forall fuel n r, (0 < n)%nat -> gwf r -> (gm r < fuel)%nat ->
  let '((kept, oe), r') := gfr_read e R rread fuel n r in gur_spec r kept oe r'.
Proof.
  induction fuel as [|f IH]; intros n r Hn Hwf Hf; [lia|].
  cbn [gfr_read].
  pose proof (rread_spec n (g_r r) Hn Hwf) as Hs.
  destruct (rread n (g_r r)) as [[data er] s'].
  destruct data as [|b0 data'].
  - destruct er as [x|].
    + destruct Hs as (S1 & S2 & S3). apply (gur_err r [] [] x s' (g_nread r) S1 S2 S3 (nsk_nil e)). reflexivity.
    + destruct Hs as (S1 & S2 & S3 & S4). unfold gur_spec, gwf, gm, gend, grem. cbn [gfr_r].
      split; [exact S1|]. split; [exact S2|]. split; [symmetry; exact S4|]. split; [exact (nsk_nil e)|].
      intro st. rewrite S3. reflexivity.
  - pose proof (fr_filter_spec e (b0 :: data') (g_nread r) []) as Hfl.
    set (data := b0 :: data') in *.
    destruct (fr_filter e data (g_nread r) []) as [[kept nr]|off].
    + destruct Hfl as (k & Hk & Hd & Hr). cbn [rev app] in Hk. subst k.
      assert (Hdirect : gur_spec r kept er (mkGfr R s' nr)).
      { destruct er as [x|].
        - destruct Hs as (S1 & S2 & S3).
          apply (gur_err r data kept x s' nr S1 S2 S3); [apply digits_nsk; exact Hd|exact Hr].
        - destruct Hs as (S1 & S2 & S3 & S4). unfold gur_spec, gwf, gm, gend, grem. cbn [gfr_r].
          split; [exact S1|]. split; [exact S2|]. split; [symmetry; exact S4|].
          split; [apply digits_nsk; exact Hd|].
          intro st. rewrite S3, !run_app, Hr. reflexivity. }
      destruct kept as [|k0 kept']; [|exact Hdirect].
      destruct er as [x|]; [exact Hdirect|].
      destruct Hs as (S1 & S2 & S3 & S4).
      specialize (IH n (mkGfr R s' nr) Hn S1 ltac:(unfold gm in *; cbn [gfr_r]; lia)).
      destruct (gfr_read e R rread f n (mkGfr R s' nr)) as [[kept2 oe2] r2].
      assert (Hrun : forall st, run (grem r) st = run (grem (mkGfr R s' nr)) st).
      { intro st. unfold grem. cbn [gfr_r]. rewrite S3, run_app, Hr. reflexivity. }
      unfold gur_spec in IH |- *. destruct oe2 as [x|].
      * destruct IH as [(J1 & J2 & J3 & J4)|(J1 & J2 & J3)].
        -- left. split; [exact J1|]. split; [exact J2|]. split; [intro st; rewrite Hrun; apply J3|].
           unfold rd_eof, gend, gm in *. cbn [gfr_r] in *. destruct J4 as (K0 & K1 & K2 & K3).
           split; [rewrite S4; exact K0|]. split; [exact K1|]. split; [lia|exact K3].
        -- right. split; [exact J1|]. split; [exact J2|]. unfold gend in *. cbn [gfr_r] in *.
           destruct J3 as [J3|J3]; [left; rewrite S4; exact J3|right; intro st; rewrite Hrun; apply J3].
      * destruct IH as (J1 & J2 & J3 & J4 & J5). unfold gm, gend in *. cbn [gfr_r] in *.
        split; [exact J1|]. split; [lia|]. split; [rewrite J3; symmetry; exact S4|]. split; [exact J4|].
        intro st. rewrite Hrun. apply J5.
    + unfold gur_spec. right. split; [discriminate|]. split; [discriminate|].
      destruct er as [x|].
      * destruct Hs as (S1 & S2 & S3). destruct (is_eof x) eqn:Hx.
        -- apply is_eof_true in Hx. destruct (S3 Hx) as (T1 & _). right. intro st. unfold grem. rewrite T1.
           rewrite (afin_bad e _ (Hfl st)). reflexivity.
        -- apply is_eof_false in Hx. left. unfold gend. destruct (snd (den (g_r r))); [|reflexivity].
           exfalso. apply Hx. apply S2. reflexivity.
      * destruct Hs as (_ & _ & S3 & _). right. intro st. unfold grem. rewrite S3, run_app.
        apply afin_run_bad. apply Hfl.
Qed.

Lemma g_under_read_spec fuel n r : (0 < n)%nat -> gwf r -> (gm r < fuel)%nat ->
  let '((kept, oe), r') := g_under_read e R rread fuel n r in gur_spec r kept oe r'.
Proof.
  intros Hn Hwf Hf. unfold g_under_read. destruct (enc_skip e) as [|k0 ks] eqn:Hsk.
  - pose proof (rread_spec n (g_r r) Hn Hwf) as Hs.
    destruct (rread n (g_r r)) as [[data er] s'].
    assert (Hnsk : nsk data).
    { intros b _. right. unfold is_skip. rewrite Hsk. reflexivity. }
    destruct er as [x|].
    + destruct Hs as (S1 & S2 & S3). apply (gur_err r data data x s' (g_nread r) S1 S2 S3 Hnsk). reflexivity.
    + destruct Hs as (S1 & S2 & S3 & S4). unfold gur_spec, gwf, gm, gend, grem. cbn [gfr_r].
      split; [exact S1|]. split; [exact S2|]. split; [symmetry; exact S4|]. split; [exact Hnsk|].
      intro st. rewrite S3. reflexivity.
  - apply gfr_read_spec; assumption.
Qed.

(* ---------- gbd_fill ---------- *)
Definition gfill_post (buf : bytes) (r : gfrS) (res : bytes * option err * gfrS) : Prop :=
  let '(buf', oe, r') := res in
  match oe with
  | None => gwf r' /\ (gm r' <= gm r)%nat /\ gend r' = gend r /\ nsk buf' /\ (obln <= length buf')%nat /\
            forall st, run (buf ++ grem r) st = run (buf' ++ grem r') st
  | Some x =>
    (x = EOF /\ nsk buf' /\ (forall st, run (buf ++ grem r) st = run buf' st) /\ rd_eof r r')
    \/ (x <> EOF /\ (NU -> x <> Unmodelled) /\
        (gend r = false \/ forall st, snd (afin (run (buf ++ grem r) st)) = false))
  end.

Lemma gbd_fill_spec : forall fuel rf nn buf r, gwf r -> (gm r < fuel)%nat -> (gm r < rf)%nat ->
  (obln <= nn)%nat -> nsk buf ->
  gfill_post buf r (gbd_fill e R rread fuel rf nn buf r).
Proof.
  induction fuel as [|f IH]; intros rf nn buf r Hwf Hf Hrf Hnn Hb; [lia|].
  cbn [gbd_fill]. destruct (Nat.ltb (length buf) obln) eqn:L.
  - apply Nat.ltb_lt in L.
    pose proof (g_under_read_spec rf (nn - length buf) r ltac:(lia) Hwf Hrf) as Hu.
    destruct (g_under_read e R rread rf (nn - length buf) r) as [[data er] r'].
    unfold gur_spec in Hu. destruct er as [x|].
    + unfold gfill_post. destruct Hu as [(J1 & J2 & J3 & J4)|(J1 & J2 & J3)].
      * left. split; [exact J1|]. split; [apply nsk_app; assumption|]. split; [|exact J4].
        intro st. rewrite !run_app, J3. reflexivity.
      * right. split; [exact J1|]. split; [exact J2|].
        destruct J3 as [J3|J3]; [left; exact J3|right; intro st; rewrite run_app; apply J3].
    + destruct Hu as (J1 & J2 & J3 & J4 & J5).
      specialize (IH rf nn (buf ++ data) r' J1 ltac:(lia) ltac:(lia) Hnn (nsk_app e _ _ Hb J4)).
      destruct (gbd_fill e R rread f rf nn (buf ++ data) r') as [[buf' oe] r''].
      assert (Hrun : forall st, run (buf ++ grem r) st = run ((buf ++ data) ++ grem r') st).
      { intro st. rewrite run_app, J5, <- run_app, app_assoc. reflexivity. }
      unfold gfill_post in IH |- *. destruct oe as [x|].
      * destruct IH as [(K1 & K2 & K3 & K4)|(K1 & K2 & K3)].
        -- left. split; [exact K1|]. split; [exact K2|]. split; [intro st; rewrite Hrun; apply K3|].
           unfold rd_eof in K4 |- *. destruct K4 as (M0 & M1 & M2 & M3). split; [rewrite <- J3; exact M0|].
           split; [exact M1|]. split; [lia|exact M3].
        -- right. split; [exact K1|]. split; [exact K2|].
           destruct K3 as [K3|K3]; [left; rewrite <- J3; exact K3|right; intro st; rewrite Hrun; apply K3].
      * destruct IH as (K1 & K2 & K3 & K4 & K5 & K6).
        split; [exact K1|]. split; [lia|]. split; [rewrite K3; exact J3|]. split; [exact K4|].
        split; [exact K5|]. intro st. rewrite Hrun. apply K6.
  - apply Nat.ltb_ge in L. unfold gfill_post. split; [exact Hwf|]. split; [lia|]. split; [reflexivity|].
    split; [exact Hb|]. split; [exact L|reflexivity].
Qed.

(* ---------- gbd_read, restructured ---------- *)
Definition g_emit (ret out rest : bytes) (r' : gfrS) (derr' : option err) : bd_result * gbdS :=
  match ret, derr' with
  | [], None => (BdErr [] EOF, mkGbd R None out rest r')
  | _, None => (BdData ret, mkGbd R None out rest r')
  | _, Some x => (BdErr ret x, mkGbd R (Some x) out rest r')
  end.

Definition g_after (np : nat) (buf : bytes) (r' : gfrS) (eof : bool) : bd_result * gbdS :=
  let num := if eof then length buf else (length buf / obln * obln)%nat in
  let nout := N.to_nat (BaseX.decoded_len e (N.of_nat num)) in
  let (dec, derr) := BaseX.decode e (firstn num buf) in
  let derr' := match derr with Some b => Some (bx_to_err b) | None => None end in
  let rest := skipn num buf in
  if Nat.ltb np nout then g_emit (firstn np dec) (skipn np dec) rest r' derr'
  else g_emit dec [] rest r' derr'.

Definition gbd_read2 (fuel np : nat) (st : gbdS) : bd_result * gbdS :=
  match gbd_err R st with
  | Some x => (BdErr [] x, st)
  | None =>
    match gbd_out R st with
    | _ :: _ => (BdData (firstn np (gbd_out R st)),
                 mkGbd R None (skipn np (gbd_out R st)) (gbd_buf R st) (gbd_r R st))
    | [] =>
      let '(buf, er, r') := gbd_fill e R rread fuel fuel (bd_nn e np) (gbd_buf R st) (gbd_r R st) in
      match er with
      | Some x =>
        if is_eof x then
          match buf with
          | [] => (BdErr [] EOF, mkGbd R (Some EOF) [] [] r')
          | _ => g_after np buf r' true
          end
        else (BdErr [] x, mkGbd R (Some x) [] buf r')
      | None => g_after np buf r' false
      end
    end
  end.

Lemma gbd_read_eq fuel np st : gbd_read e R rread fuel np st = gbd_read2 fuel np st.
Proof.
  unfold gbd_read, gbd_read2. cbv zeta.
  destruct (gbd_err R st); [reflexivity|]. destruct (gbd_out R st); [|reflexivity].
  fold (input_cap e). fold (bd_nn e np).
  destruct (gbd_fill e R rread fuel fuel (bd_nn e np) (gbd_buf R st) (gbd_r R st)) as [[buf er] r'].
  destruct er as [x|]; [|reflexivity].
  destruct x; reflexivity.
Qed.

(* ---------- the invariant of the decoder and one Read ---------- *)
Definition GInv (fuel : nat) (Fin : bytes * bool) (EE : bool) (st : gbdS) (del : bytes) : Prop :=
  gbd_err R st = None /\ gwf (gbd_r R st) /\ (gm (gbd_r R st) < fuel)%nat /\ gend (gbd_r R st) = EE /\
  nsk (gbd_buf R st) /\
  Fin = afin (run (gbd_buf R st ++ grem (gbd_r R st)) (mkA [] (del ++ gbd_out R st) true)).

Definition gstep_post (fuel : nat) (Fin : bytes * bool) (EE : bool) (del : bytes) (res : bd_result * gbdS) : Prop :=
  match res with
  | (BdData d, st') => d <> [] /\ GInv fuel Fin EE st' (del ++ d)
  | (BdErr d x, _) =>
    bprefix (del ++ d) (fst Fin) /\ (x = EOF -> EE = true /\ Fin = (del ++ d, true)) /\
    (EE = true -> snd Fin = true -> x = EOF) /\ (NU -> x <> Unmodelled)
  end.

Lemma g_emit_spec fuel Fin EE del ret out rest r' derr' :
  gwf r' -> (gm r' < fuel)%nat -> gend r' = EE -> nsk rest ->
  ((derr' = None /\ Fin = afin (run (rest ++ grem r') (mkA [] (del ++ ret ++ out) true)) /\
    (ret = [] -> EE = true /\ Fin = (del, true)))
   \/ (exists x, derr' = Some x /\ x <> EOF /\ x <> Unmodelled /\ bprefix (del ++ ret) (fst Fin) /\ snd Fin = false)) ->
  gstep_post fuel Fin EE del (g_emit ret out rest r' derr').
Proof.
  intros Hwf Hm HE Hn [(-> & HF & Hnil)|(x & -> & Hx & Hu & Hp & Hs)].
  - destruct ret as [|b t].
    + destruct (Hnil eq_refl) as [H1 H2]. unfold g_emit, gstep_post. rewrite app_nil_r.
      split; [exists []; rewrite H2, app_nil_r; reflexivity|]. split; [intros _; split; assumption|].
      split; [reflexivity|discriminate].
    + unfold g_emit, gstep_post. split; [discriminate|].
      unfold GInv. cbn [gbd_err gbd_r gbd_buf gbd_out]. split; [reflexivity|]. split; [exact Hwf|].
      split; [exact Hm|]. split; [exact HE|]. split; [exact Hn|]. rewrite <- app_assoc. exact HF.
  - assert (G : gstep_post fuel Fin EE del (BdErr ret x, mkGbd R (Some x) out rest r')).
    { unfold gstep_post. split; [exact Hp|]. split; [intro; contradiction|].
      split; [|intros _; exact Hu]. intros _ H. rewrite Hs in H. discriminate. }
    unfold g_emit. destruct ret; exact G.
Qed.

Lemma bx_to_err_modelled b : bx_to_err b <> Unmodelled.
Proof. destruct b; discriminate. Qed.

Lemma as_firstn_nil_inv (np : nat) (l : bytes) : (0 < np)%nat -> firstn np l = [] -> l = [].
Proof. intros Hn H. destruct np; [lia|]. destruct l; [reflexivity|discriminate]. Qed.

Lemma g_after_spec fuel Fin EE del np buf r' (eof : bool) :
  (0 < np)%nat -> nsk buf -> gwf r' -> (gm r' < fuel)%nat -> gend r' = EE ->
  Fin = afin (run (buf ++ grem r') (mkA [] del true)) ->
  (if eof then grem r' = [] /\ EE = true else (obln <= length buf)%nat) ->
  gstep_post fuel Fin EE del (g_after np buf r' eof).
Proof.
  intros Hnp Hn Hwf Hm HE HF Heof. unfold g_after. cbv zeta.
  pose proof L_obln_pos as Hop.
  set (num := if eof then length buf else (length buf / obln * obln)%nat).
  set (chunk := firstn num buf). set (rest := skipn num buf).
  assert (Hbuf : buf = chunk ++ rest) by (symmetry; apply firstn_skipn).
  pose proof (L_decode_run chunk) as [D1 D2].
  destruct (decode e chunk) as [dec derr]. cbn [fst snd] in D1, D2.
  set (S := run chunk a0) in *.
  assert (HF2 : Fin = afin (run (rest ++ grem r') (shift del S))).
  { rewrite HF. rewrite Hbuf at 1. rewrite <- app_assoc, run_app, mkA_shift, run_shift. reflexivity. }
  assert (Hblocks : eof = false -> a_ok S = true -> a_cur S = [] /\ a_out S <> []).
  { intros -> Hok. apply (L_run_blocks chunk (length buf / obln)%nat).
    - apply nsk_firstn. exact Hn.
    - unfold chunk. rewrite firstn_length. apply Nat.min_l. unfold num.
      rewrite Nat.mul_comm. apply Nat.mul_div_le. lia.
    - apply Nat.div_str_pos. lia.
    - exact Hok. }
  assert (Heofr : eof = true -> rest = [] /\ grem r' = [] /\ EE = true).
  { intros ->. destruct Heof as [H1 H2]. split; [|split; assumption].
    unfold rest, num. apply skipn_all. }
  assert (Key :
    (derr = None /\ Fin = afin (run (rest ++ grem r') (mkA [] (del ++ dec) true)) /\
     (dec = [] -> EE = true /\ Fin = (del, true)))
    \/ (derr <> None /\ fst Fin = del ++ dec /\ snd Fin = false)).
  { destruct derr as [b|].
    - right. split; [discriminate|].
      assert (Hs : snd (afin S) = false).
      { destruct (snd (afin S)); [|reflexivity]. destruct D2 as [_ D2]. specialize (D2 eq_refl). discriminate. }
      destruct eof.
      + destruct (Heofr eq_refl) as (R1 & R2 & R3). rewrite R1, R2 in HF2. cbn [app] in HF2.
        rewrite run_nil, afin_shift in HF2. rewrite HF2. cbn [fst snd]. rewrite D1. split; [reflexivity|exact Hs].
      + destruct (a_ok S) eqn:Hok.
        * exfalso. destruct (Hblocks eq_refl eq_refl) as [C1 C2].
          unfold BxStreamProofs.afin in Hs. rewrite Hok, C1 in Hs. cbn [rev] in Hs. rewrite L_fin_nil in Hs. discriminate.
        * rewrite HF2, run_bad, afin_bad by (unfold shift; cbn [a_ok]; exact Hok).
          unfold shift. cbn [a_out fst snd]. rewrite D1, afin_bad by exact Hok. split; reflexivity.
    - left. split; [reflexivity|].
      assert (Hs : snd (afin S) = true) by (apply D2; reflexivity).
      pose proof (afin_ok_inv e _ Hs) as Hok.
      destruct eof.
      + destruct (Heofr eq_refl) as (R1 & R2 & R3). rewrite R1, R2 in HF2 |- *. cbn [app] in HF2 |- *.
        rewrite run_nil, afin_shift, Hs, <- D1 in HF2. rewrite run_nil, L_afin_fresh.
        split; [exact HF2|]. intros ->. rewrite app_nil_r in HF2. split; assumption.
      + destruct (Hblocks eq_refl Hok) as [C1 C2].
        assert (Hd : dec = a_out S).
        { rewrite D1. unfold BxStreamProofs.afin. rewrite Hok, C1. cbn [rev]. rewrite L_fin_nil, app_nil_r. reflexivity. }
        rewrite (shift_fresh del S C1 Hok), <- Hd in HF2. split; [exact HF2|].
        intros Hdn. rewrite Hd in Hdn. contradiction. }
  assert (Hnr : nsk rest) by (apply nsk_skipn; exact Hn).
  destruct (Nat.ltb np (N.to_nat (decoded_len e (N.of_nat num)))).
  - apply g_emit_spec; [exact Hwf|exact Hm|exact HE|exact Hnr|].
    destruct Key as [(-> & K2 & K3)|(K1 & K2 & K3)].
    + left. split; [reflexivity|]. rewrite firstn_skipn. split; [exact K2|].
      intro H. apply K3. apply (as_firstn_nil_inv np dec Hnp H).
    + right. destruct derr as [b|]; [|congruence]. exists (bx_to_err b). split; [reflexivity|].
      split; [apply bx_to_err_not_eof|]. split; [apply bx_to_err_modelled|]. split; [|exact K3].
      exists (skipn np dec). rewrite K2, <- app_assoc, firstn_skipn. reflexivity.
  - apply g_emit_spec; [exact Hwf|exact Hm|exact HE|exact Hnr|].
    destruct Key as [(-> & K2 & K3)|(K1 & K2 & K3)].
    + left. split; [reflexivity|]. rewrite app_nil_r. split; [exact K2|exact K3].
    + right. destruct derr as [b|]; [|congruence]. exists (bx_to_err b). split; [reflexivity|].
      split; [apply bx_to_err_not_eof|]. split; [apply bx_to_err_modelled|]. split; [|exact K3].
      exists []. rewrite K2, app_nil_r. reflexivity.
Qed.

Lemma gbd_read_spec fuel Fin EE st del np :
  GInv fuel Fin EE st del -> (0 < np)%nat ->
  gstep_post fuel Fin EE del (gbd_read e R rread fuel np st).
Proof.
  intros (I1 & I2 & Im & I3 & I4 & I5) Hnp. rewrite gbd_read_eq. unfold gbd_read2. rewrite I1.
  destruct (gbd_out R st) as [|b0 o0] eqn:Ho.
  - rewrite app_nil_r in I5.
    pose proof (gbd_fill_spec fuel fuel (bd_nn e np) (gbd_buf R st) (gbd_r R st) I2 Im Im
                  (bd_nn_ge e Hcap np) I4) as HB.
    destruct (gbd_fill e R rread fuel fuel (bd_nn e np) (gbd_buf R st) (gbd_r R st)) as [[buf er] r'].
    unfold gfill_post in HB.
    destruct er as [x|].
    + destruct HB as [(K0 & K1 & K2 & K3)|(K0 & K1 & K2)].
      * subst x. cbn [is_eof]. destruct K3 as (M0 & N1 & N2 & N3).
        pose proof M0 as HEE. rewrite I3 in HEE.
        assert (Hrem : grem r' = []) by (unfold grem; rewrite N3; reflexivity).
        assert (Hend : gend r' = EE) by (unfold gend; rewrite N3; symmetry; exact HEE).
        rewrite K2 in I5.
        destruct buf as [|b1 buf'].
        -- rewrite run_nil, L_afin_fresh in I5.
           unfold gstep_post. rewrite app_nil_r. split; [exists []; rewrite I5, app_nil_r; reflexivity|].
           split; [intros _; split; assumption|]. split; [reflexivity|discriminate].
        -- apply g_after_spec; try assumption.
           ++ lia.
           ++ rewrite Hrem, app_nil_r. exact I5.
           ++ split; assumption.
      * assert (Hx : is_eof x = false) by (destruct x; try reflexivity; congruence). rewrite Hx.
        unfold gstep_post. rewrite app_nil_r. split.
        { rewrite I5. apply (afin_run_out e _ (mkA [] del true)). }
        split; [intro; contradiction|]. split; [|exact K1].
        intros HEE HFs. exfalso. destruct K2 as [K2|K2].
        -- rewrite I3 in K2. congruence.
        -- rewrite I5, K2 in HFs. discriminate.
    + destruct HB as (K1 & K2 & K3 & K4 & K5 & K6).
      rewrite K6 in I5. apply g_after_spec; try assumption; [lia|rewrite K3; exact I3].
  - unfold gstep_post. split.
    { destruct np; [lia|discriminate]. }
    unfold GInv. cbn [gbd_err gbd_r gbd_buf gbd_out]. split; [reflexivity|]. split; [exact I2|].
    split; [exact Im|]. split; [exact I3|]. split; [exact I4|]. rewrite <- app_assoc, firstn_skipn. exact I5.
Qed.

(* ---------- draining ---------- *)
Lemma gbd_drain_gen fuel Fin EE : forall sizes st acc, pos_sizes sizes -> GInv fuel Fin EE st acc ->
  let res := gbd_drain e R rread fuel sizes st acc in
  bprefix (fst res) (fst Fin) /\
  (snd res = Some EOF -> EE = true /\ Fin = (fst res, true)) /\
  (forall x, snd res = Some x -> EE = true -> snd Fin = true -> x = EOF) /\
  (snd res = None -> (length acc + length sizes <= length (fst res))%nat) /\
  (forall x, snd res = Some x -> NU -> x <> Unmodelled).
Proof using All.
  induction sizes as [|n t IH]; intros st acc Hpos HI; cbv zeta.
  - cbn [gbd_drain fst snd]. split.
    { destruct HI as (_ & _ & _ & _ & _ & I5). rewrite I5.
      destruct (afin_run_out e (gbd_buf R st ++ grem (gbd_r R st)) (mkA [] (acc ++ gbd_out R st) true)) as [u Hu].
      cbn [a_out] in Hu. exists (gbd_out R st ++ u). rewrite Hu, app_assoc. reflexivity. }
    split; [discriminate|]. split; [discriminate|]. split; [|discriminate]. intros _. cbn [length]. lia.
  - inversion Hpos as [|? ? Hn Ht]; subst. cbn [gbd_drain].
    pose proof (gbd_read_spec fuel Fin EE st acc n HI Hn) as HS.
    destruct (gbd_read e R rread fuel n st) as [[d|d x] st'].
    + destruct HS as [Hd HI']. specialize (IH st' (acc ++ d) Ht HI'). cbv zeta in IH.
      destruct IH as (A1 & A2 & A3 & A4 & A5). split; [exact A1|]. split; [exact A2|]. split; [exact A3|].
      split; [|exact A5].
      intro Hnone. specialize (A4 Hnone). rewrite app_length in A4. cbn [length].
      assert (1 <= length d)%nat by (destruct d; [congruence|cbn [length]; lia]). lia.
    + destruct HS as (S1 & S2 & S3 & S4). cbn [fst snd]. split; [exact S1|].
      split; [intros [= ->]; apply S2; reflexivity|].
      split; [intros y [= <-]; exact S3|]. split; [discriminate|]. intros y [= <-]. exact S4.
Qed.

Lemma GInv_init fuel r : wfR r -> (mR r < fuel)%nat ->
  GInv fuel (afin (run (fst (den r)) a0)) (snd (den r)) (gbd_init R r) [].
Proof using All.
  intros Hwf Hm. unfold GInv, gbd_init, gend, grem, gwf, gm. cbn [gbd_err gbd_r gbd_buf gbd_out gfr_r app].
  split; [reflexivity|]. split; [exact Hwf|]. split; [exact Hm|]. split; [reflexivity|].
  split; [exact (nsk_nil e)|reflexivity].
Qed.
End Gen.

(* ====================================================================== *)
(* Part C: framedDecoderStream over the punctuated reader is a well-behaved reader *)
(* ====================================================================== *)

(* ---------- more about the punctuated reader ---------- *)
Lemma pr_deliver_not_err n src er a punct nxt d x st' :
  pr_deliver n src er a punct nxt = (PrErr d x, st') -> False.
Proof. unfold pr_deliver. destruct (skipn n a); [destruct punct|]; discriminate. Qed.

(* the state an error leaves behind *)
Lemma pr_read_err_state (n : nat) (st : pr_state) d x st' :
  pr_inv st -> src_wf (pr_src st) -> pr_read n st = (PrErr d x, st') ->
  pr_inv st' /\ src_wf (pr_src st') /\ pr_rem st' = [] /\ pr_E st' = pr_E st.
Proof.
  intros Hinv Hwf H. pose proof (pr_read_spec n st Hinv) as S. rewrite H in S. unfold pr_step_spec in S.
  destruct S as (-> & Hrem & ->).
  pose proof Hinv as Hinv0.
  destruct Hinv as (Hth & Hpu & Her).
  destruct (pr_this st) as [|t0 tt] eqn:Ht.
  2:{ rewrite pr_read_this in H by (rewrite Ht; discriminate). exfalso. exact (pr_deliver_not_err _ _ _ _ _ _ _ _ _ H). }
  destruct (pr_next st) as [|n0 nt] eqn:Hn.
  2:{ rewrite (pr_read_next n st Ht) in H by (rewrite Hn; discriminate).
      exfalso. exact (pr_deliver_not_err _ _ _ _ _ _ _ _ _ H). }
  unfold pr_read in H. rewrite Ht, Hn in H.
  destruct (pr_err st) as [e0|] eqn:He.
  - injection H as _ <-. split; [exact Hinv0|].
    split; [exact Hwf|]. split; [exact Hrem|reflexivity].
  - pose proof (src_read_spec n (pr_src st)) as R.
    destruct (src_read n (pr_src st)) as [[data oe] s']. destruct R as (R1 & R2 & R3 & R4).
    destruct data as [|x0 data'].
    + destruct oe as [e'|].
      * injection H as _ <-. destruct (R3 e' eq_refl) as [Hs Hf].
        split; [split; [exact nodot_nil|split; [reflexivity|discriminate]]|].
        cbn [pr_src]. split; [unfold src_wf; rewrite Hs; constructor|].
        split.
        { unfold pr_rem. cbn [pr_this pr_this_punct pr_next pr_src app]. unfold src_denote. rewrite Hs. reflexivity. }
        unfold pr_E. cbn [pr_src]. symmetry. exact R2.
      * exfalso. destruct (pr_scan []) as [a rest]. destruct rest; discriminate.
    + exfalso. destruct oe; destruct (pr_scan (x0 :: data')) as [a rest]; destruct rest; discriminate.
Qed.

(* ReadUntilPunctuation: the state after a successful call *)
Lemma pru_state (lim : nat) : forall (fuel : nat) (st : pr_state) (acc s : bytes) (st' : pr_state),
  pr_inv st -> src_wf (pr_src st) ->
  pr_read_until fuel lim st acc = (Ok s, st') ->
  exists d, s = acc ++ d /\ nodot d /\ pr_rem st = d ++ dot :: pr_rem st' /\
            pr_inv st' /\ src_wf (pr_src st') /\ pr_E st' = pr_E st.
Proof.
  induction fuel as [|f IH]; intros st acc s st' Hinv Hwf H; [discriminate|].
  cbn [pr_read_until] in H.
  pose proof (pr_read_spec 4096 st Hinv) as S.
  destruct (pr_read 4096 st) as [[d|d|d x] st1]; unfold pr_step_spec in S.
  - destruct S as (S1 & S2 & S3 & S4 & S5). destruct (S5 ltac:(lia) Hwf) as [Hwf1 Hne].
    destruct (Nat.leb lim (length (acc ++ d))); [discriminate|].
    destruct d as [|x0 d']; [discriminate|].
    destruct (IH st1 (acc ++ x0 :: d') s st' S3 Hwf1 H) as (d2 & E1 & E2 & E3 & E4 & E5 & E6).
    exists ((x0 :: d') ++ d2). split; [rewrite E1, app_assoc; reflexivity|].
    split; [apply nodot_app; assumption|]. split; [rewrite S1, E3, <- app_assoc; reflexivity|].
    split; [exact E4|]. split; [exact E5|]. rewrite E6. exact S4.
  - destruct S as (S1 & S2 & S3 & S4 & S5).
    destruct (Nat.leb lim (length (acc ++ d))); [discriminate|].
    injection H as <- <-. exists d. split; [reflexivity|]. split; [exact S2|]. split; [exact S1|].
    split; [exact S3|]. split; [apply S5; [lia|exact Hwf]|exact S4].
  - discriminate.
Qed.

(* a sentence is acceptable: it ends with a punctuation mark before the limit *)
Definition sent_ok (lim : nat) (t : bytes) : bool :=
  match split_dot t with
  | Some (a, _) => Nat.ltb (length a) lim
  | None => false
  end.

Lemma sd_err_class lim t E x : sentence_denote lim t E = Err x ->
  x <> EOF /\ (E <> Unmodelled -> x <> Unmodelled) /\ sent_ok lim t = false.
Proof.
  unfold sentence_denote, sent_ok. destruct (split_dot t) as [[a r]|].
  - destruct (Nat.leb lim (length a)) eqn:L; [|discriminate]. intros [= <-].
    split; [discriminate|]. split; [discriminate|]. apply Nat.leb_le in L. apply Nat.ltb_ge. exact L.
  - destruct (Nat.leb lim (length t)).
    + intros [= <-]. split; [discriminate|]. split; [discriminate|reflexivity].
    + intros [= <-]. split; [destruct E; discriminate|]. split; [|reflexivity].
      intro HE. destruct E; try discriminate. congruence.
Qed.

Lemma sd_ok_inv lim t E s : sentence_denote lim t E = Ok s ->
  exists r, split_dot t = Some (s, r) /\ (length s < lim)%nat.
Proof.
  unfold sentence_denote. destruct (split_dot t) as [[a r]|].
  - destruct (Nat.leb lim (length a)) eqn:L; [discriminate|]. intros [= <-].
    exists r. split; [reflexivity|]. apply Nat.leb_gt. exact L.
  - destruct (Nat.leb lim (length t)); discriminate.
Qed.

(* ---------- consumeUntilEOF ---------- *)
Definition cons_ok (r3 : bytes) (E : err) : bool := forallb valid_armor_byte r3 && is_eof E.

Lemma valid_dot : valid_armor_byte dot = false.
Proof. vm_compute. reflexivity. Qed.

Lemma fds_consume_spec : forall (fuel : nat) (pr : pr_state),
  pr_inv pr -> src_wf (pr_src pr) -> (length (pr_rem pr) < fuel)%nat ->
  let '(x, pr') := fds_consume fuel pr in
  (x = EOF <-> cons_ok (pr_rem pr) (pr_E pr) = true) /\
  (pr_E pr <> Unmodelled -> x <> Unmodelled) /\
  (x = EOF -> pr_inv pr' /\ src_wf (pr_src pr') /\ pr_rem pr' = [] /\ pr_E pr' = pr_E pr).
Proof.
  induction fuel as [|f IH]; intros pr Hinv Hwf Hf; [lia|].
  cbn [fds_consume].
  pose proof (pr_read_spec 4096 pr Hinv) as S.
  pose proof (pr_read_err_state 4096 pr) as SE.
  destruct (pr_read 4096 pr) as [[d|d|d x] pr1]; unfold pr_step_spec in S.
  - destruct S as (S1 & S2 & S3 & S4 & S5). destruct (S5 ltac:(lia) Hwf) as [Hwf1 Hne].
    destruct d as [|x0 d']; [congruence|].
    destruct (forallb valid_armor_byte (x0 :: d')) eqn:V.
    + specialize (IH pr1 S3 Hwf1 ltac:(rewrite S1, app_length in Hf; cbn [length] in Hf; lia)).
      destruct (fds_consume f pr1) as [x pr']. destruct IH as (I1 & I2 & I3).
      unfold cons_ok in *. rewrite S1, forallb_app, V, S4 in *. cbn [andb].
      split; [exact I1|]. split; [exact I2|exact I3].
    + unfold cons_ok. rewrite S1, forallb_app, V. cbn [andb].
      split; [split; discriminate|]. split; [discriminate|discriminate].
  - destruct S as (S1 & _). unfold cons_ok. rewrite S1, forallb_app. cbn [forallb]. rewrite valid_dot.
    rewrite andb_false_r. cbn [andb].
    split; [split; discriminate|]. split; [discriminate|discriminate].
  - destruct S as (-> & S2 & ->). destruct (SE [] (pr_E pr) pr1 Hinv Hwf eq_refl) as (E1 & E2 & E3 & E4).
    unfold cons_ok. rewrite S2. cbn [forallb andb].
    split; [split; [intros ->; reflexivity|apply is_eof_true]|].
    split; [exact (fun H => H)|]. intros _. split; [exact E1|]. split; [exact E2|]. split; [exact E3|exact E4].
Qed.

(* ---------- the frame checkers only fail with ErrBadFrame ---------- *)
Lemma parse_frame_err m typ mk x : parse_frame m typ mk = Err x -> x = ErrBadFrame.
Proof.
  unfold parse_frame. cbv zeta.
  destruct (max_frame_length <? len m)%N; [congruence|].
  destruct (type_string typ); [congruence|].
  repeat match goal with |- (if ?c then _ else _) = _ -> _ => destruct c end; congruence.
Qed.

Lemma to_ascii_err l x : to_ascii l = Err x -> x = ErrBadFrame.
Proof. unfold to_ascii. destruct (forallb valid_armor_byte l); congruence. Qed.

Lemma hdr_chk_err h typ x :
  bind (to_ascii h) (fun hs => parse_frame hs typ header_marker) = Err x -> x = ErrBadFrame.
Proof.
  destruct (to_ascii h) as [hs|y] eqn:A; cbn [bind].
  - apply parse_frame_err.
  - intros [= <-]. exact (to_ascii_err _ _ A).
Qed.

Lemma ftr_chk_err h f typ x :
  bind (to_ascii h) (fun hs => bind (to_ascii f) (fun fs => check_armor62 hs fs typ)) = Err x -> x = ErrBadFrame.
Proof.
  destruct (to_ascii h) as [hs|y] eqn:A; cbn [bind]; [|intros [= <-]; exact (to_ascii_err _ _ A)].
  destruct (to_ascii f) as [fs|y] eqn:B; cbn [bind]; [|intros [= <-]; exact (to_ascii_err _ _ B)].
  unfold check_armor62.
  destruct (parse_frame hs typ header_marker) as [b1|y] eqn:P1; cbn [bind]; [|intros [= <-]; exact (parse_frame_err _ _ _ _ P1)].
  destruct (parse_frame fs typ footer_marker) as [b2|y] eqn:P2; cbn [bind]; [|intros [= <-]; exact (parse_frame_err _ _ _ _ P2)].
  destruct (bytes_eqb b1 b2); congruence.
Qed.

Lemma fds_lim_pos : (0 < fds_lim)%nat.
Proof. apply Nat.ltb_lt. vm_compute. reflexivity. Qed.

Section FdsR.
Variable chk : option Z.
Variable fuel : nat.
Variable E0 : err.

Definition hdr_ok (h : bytes) : bool :=
  match chk with
  | None => true
  | Some typ => match bind (to_ascii h) (fun hs => parse_frame hs typ header_marker) with Ok _ => true | Err _ => false end
  end.

Definition ftr_ok (h f : bytes) : bool :=
  match chk with
  | None => true
  | Some typ =>
    match bind (to_ascii h) (fun hs => bind (to_ascii f) (fun fs => check_armor62 hs fs typ)) with
    | Ok _ => true | Err _ => false
    end
  end.

(* everything after the body's punctuation mark is acceptable and the source ends with EOF *)
Definition ftail_ok (h r2 : bytes) (E : err) : bool :=
  match split_dot r2 with
  | None => false
  | Some (f, r3) => Nat.ltb (length f) fds_lim && ftr_ok h f && cons_ok r3 E
  end.

Definition body_den (h t : bytes) (E : err) : bytes * bool :=
  match split_dot t with
  | Some (body, r2) => (body, ftail_ok h r2 E)
  | None => (t, false)
  end.

Definition text_den (t : bytes) (E : err) : bytes * bool :=
  match split_dot t with
  | None => ([], false)
  | Some (h, r1) => if Nat.ltb (length h) fds_lim && hdr_ok h then body_den h r1 E else ([], false)
  end.

(* what a framedDecoderStream state still denotes: the body text it will deliver, and whether
   the error that ends it is EOF *)
Definition fds_den (st : fds_state) : bytes * bool :=
  let t := pr_rem (fds_pr st) in
  let E := pr_E (fds_pr st) in
  match fds_ph st with
  | FdsHeader => text_den t E
  | FdsBody => body_den (fds_hdr st) t E
  | FdsFooter => ([], ftail_ok (fds_hdr st) t E)
  | FdsEnd => ([], cons_ok t E)
  end.

Definition fds_m (st : fds_state) : nat := length (pr_rem (fds_pr st)).

Definition fds_wf (st : fds_state) : Prop :=
  pr_inv (fds_pr st) /\ src_wf (pr_src (fds_pr st)) /\ pr_E (fds_pr st) = E0 /\
  fds_ph st <> FdsFooter /\ (fds_m st < fuel)%nat.

(* the stages of Read *)
Definition fds_end (d : bytes) (st3 : fds_state) : (bytes * option err) * fds_state :=
  match fds_ph st3 with
  | FdsEnd =>
    let '(x, pr') := fds_consume fuel (fds_pr st3) in
    let st4 := mkFds pr' FdsEnd (fds_hdr st3) (fds_ftr st3) (fds_brand st3) in
    match x, d with
    | EOF, _ :: _ => ((d, None), st4)
    | _, _ => ((d, Some x), st4)
    end
  | _ => ((d, None), st3)
  end.

Definition fds_foot (d : bytes) (st2 : fds_state) : (bytes * option err) * fds_state :=
  let '(ferr, st3) :=
    match fds_ph st2 with
    | FdsFooter =>
      match pr_read_until fuel fds_lim (fds_pr st2) [] with
      | (Err x, pr') => (Some x, mkFds pr' FdsFooter (fds_hdr st2) [] (fds_brand st2))
      | (Ok f, pr') =>
        match chk with
        | None => (None, mkFds pr' FdsEnd (fds_hdr st2) f (fds_brand st2))
        | Some typ =>
          match bind (to_ascii (fds_hdr st2)) (fun hs => bind (to_ascii f) (fun fs => check_armor62 hs fs typ)) with
          | Ok _ => (None, mkFds pr' FdsEnd (fds_hdr st2) f (fds_brand st2))
          | Err x => (Some x, mkFds pr' FdsFooter (fds_hdr st2) f (fds_brand st2))
          end
        end
      end
    | _ => (None, st2)
    end in
  match ferr with
  | Some x => (([], Some x), st3)
  | None => fds_end d st3
  end.

Definition fds_body (n : nat) (st1 : fds_state) : (bytes * option err) * fds_state :=
  let '(res2, st2) :=
    match fds_ph st1 with
    | FdsBody =>
      match pr_read n (fds_pr st1) with
      | (PrData d, pr') => (inl d, mkFds pr' FdsBody (fds_hdr st1) (fds_ftr st1) (fds_brand st1))
      | (PrPunct d, pr') => (inl d, mkFds pr' FdsFooter (fds_hdr st1) (fds_ftr st1) (fds_brand st1))
      | (PrErr _ x, pr') =>
        (inr (match x with EOF => ErrUnexpectedEOF | x' => x' end),
         mkFds pr' FdsBody (fds_hdr st1) (fds_ftr st1) (fds_brand st1))
      end
    | _ => (inl [], st1)
    end in
  match res2 with
  | inr x => (([], Some x), st2)
  | inl d => fds_foot d st2
  end.

Lemma fds_read_eq n st :
  fds_read chk fuel n st =
  let '(herr, st1) := match fds_ph st with FdsHeader => fds_load_header chk fuel st | _ => (None, st) end in
  match herr with
  | Some x => (([], Some x), st1)
  | None => fds_body n st1
  end.
Proof. reflexivity. Qed.

(* the postcondition of a Read (or of a stage of it) of a state denoting D *)
Definition rpost (D : bytes * bool) (m0 : nat) (res : (bytes * option err) * fds_state) : Prop :=
  let '((d, oe), st') := res in
  match oe with
  | None => fds_wf st' /\ (fds_m st' < m0)%nat /\ fst D = d ++ fst (fds_den st') /\ snd D = snd (fds_den st')
  | Some x => (E0 <> Unmodelled -> x <> Unmodelled) /\ (x = EOF <-> snd D = true) /\
              (x = EOF -> fst D = d /\ fds_wf st' /\ (fds_m st' <= m0)%nat /\ fds_den st' = ([], true))
  end.

Lemma rpost_fail D m0 d x st' : x <> EOF -> (E0 <> Unmodelled -> x <> Unmodelled) -> snd D = false ->
  rpost D m0 ((d, Some x), st').
Proof.
  intros Hx Hu HD. unfold rpost. split; [exact Hu|]. split.
  - split; [intro; contradiction|rewrite HD; discriminate].
  - intro; contradiction.
Qed.

Lemma end_sel {T : Type} (x : err) (d : bytes) (A B : T) :
  match x, d with | EOF, _ :: _ => A | _, _ => B end =
  if is_eof x then match d with [] => B | _ :: _ => A end else B.
Proof. destruct x; reflexivity. Qed.

Lemma fds_end_spec (d : bytes) (st3 : fds_state) (m0 : nat) :
  fds_ph st3 = FdsEnd -> pr_inv (fds_pr st3) -> src_wf (pr_src (fds_pr st3)) -> pr_E (fds_pr st3) = E0 ->
  (fds_m st3 <= m0)%nat -> (d <> [] -> (0 < m0)%nat) -> (m0 < fuel)%nat ->
  rpost (d, cons_ok (pr_rem (fds_pr st3)) E0) m0 (fds_end d st3).
Proof.
  intros Hph Hinv Hwf HE Hm Hm0 Hfu. unfold fds_end. rewrite Hph.
  pose proof (fds_consume_spec fuel (fds_pr st3) Hinv Hwf ltac:(unfold fds_m in Hm; lia)) as C.
  destruct (fds_consume fuel (fds_pr st3)) as [x pr']. destruct C as (C1 & C2 & C3). rewrite HE in C1, C2.
  cbv zeta. rewrite end_sel.
  assert (Hst4 : x = EOF -> forall st4, st4 = mkFds pr' FdsEnd (fds_hdr st3) (fds_ftr st3) (fds_brand st3) ->
                 fds_wf st4 /\ fds_m st4 = 0%nat /\ fds_den st4 = ([], true)).
  { intros Hx st4 ->. destruct (C3 Hx) as (D1 & D2 & D3 & D4).
    assert (HE0 : E0 = EOF).
    { apply proj1 in C1. specialize (C1 Hx). unfold cons_ok in C1. apply andb_prop in C1. apply is_eof_true, C1. }
    unfold fds_wf, fds_m, fds_den. cbn [fds_pr fds_ph fds_hdr]. rewrite D3, D4, HE. cbn [length].
    split; [|split; [reflexivity|rewrite HE0; reflexivity]].
    split; [exact D1|]. split; [exact D2|]. split; [reflexivity|]. split; [discriminate|lia]. }
  destruct (is_eof x) eqn:Hx.
  - apply is_eof_true in Hx. destruct (Hst4 Hx _ eq_refl) as (W1 & W2 & W3).
    pose proof (proj1 C1 Hx) as Hc.
    destruct d as [|d0 dt].
    + unfold rpost. cbn [fst snd]. split; [intros _; rewrite Hx; discriminate|].
      split; [split; [intros _; exact Hc|intros _; exact Hx]|].
      intros _. split; [reflexivity|]. split; [exact W1|]. split; [lia|exact W3].
    + unfold rpost. cbn [fst snd]. split; [exact W1|]. specialize (Hm0 ltac:(discriminate)).
      split; [lia|]. rewrite W3. cbn [fst snd].
      split; [rewrite app_nil_r; reflexivity|exact Hc].
  - apply is_eof_false in Hx. apply rpost_fail; [exact Hx|exact C2|]. cbn [snd].
    destruct (cons_ok (pr_rem (fds_pr st3)) E0); [|reflexivity]. exfalso. apply Hx. apply C1. reflexivity.
Qed.

Lemma fds_foot_spec (d : bytes) (st2 : fds_state) (m0 : nat) :
  fds_ph st2 = FdsFooter -> pr_inv (fds_pr st2) -> src_wf (pr_src (fds_pr st2)) -> pr_E (fds_pr st2) = E0 ->
  (fds_m st2 < m0)%nat -> (m0 < fuel)%nat ->
  rpost (d, ftail_ok (fds_hdr st2) (pr_rem (fds_pr st2)) E0) m0 (fds_foot d st2).
Proof.
  intros Hph Hinv Hwf HE Hm Hfu. unfold fds_foot. rewrite Hph.
  pose proof (pr_read_until_gen fds_lim fuel (fds_pr st2) [] Hinv Hwf nodot_nil fds_lim_pos
                ltac:(unfold fds_m in Hm; lia)) as V.
  pose proof (pru_state fds_lim fuel (fds_pr st2) []) as P.
  destruct (pr_read_until fuel fds_lim (fds_pr st2) []) as [[f|x] pr']; cbn [fst app] in V.
  - destruct (P f pr' Hinv Hwf eq_refl) as (d2 & E1 & E2 & E3 & E4 & E5 & E6). cbn [app] in E1. subst d2.
    symmetry in V. apply sd_ok_inv in V. destruct V as (r & V1 & V2).
    assert (Htail : ftail_ok (fds_hdr st2) (pr_rem (fds_pr st2)) E0 =
                    ftr_ok (fds_hdr st2) f && cons_ok (pr_rem pr') E0).
    { unfold ftail_ok. rewrite E3, split_dot_at by exact E2.
      apply Nat.ltb_lt in V2. rewrite V2. reflexivity. }
    assert (Hm' : (length (pr_rem pr') < m0)%nat).
    { unfold fds_m in Hm. rewrite E3, app_length in Hm. cbn [length] in Hm. lia. }
    assert (Hgo : ftr_ok (fds_hdr st2) f = true ->
                  rpost (d, ftail_ok (fds_hdr st2) (pr_rem (fds_pr st2)) E0) m0
                        (fds_end d (mkFds pr' FdsEnd (fds_hdr st2) f (fds_brand st2)))).
    { intro Hok. rewrite Htail, Hok. cbn [andb].
      apply (fds_end_spec d (mkFds pr' FdsEnd (fds_hdr st2) f (fds_brand st2)) m0); cbn [fds_ph fds_pr];
        try assumption; [reflexivity|rewrite E6; exact HE|unfold fds_m; cbn [fds_pr]; lia|intros _; lia]. }
    unfold ftr_ok in Hgo, Htail. destruct chk as [typ|].
    + destruct (bind (to_ascii (fds_hdr st2)) (fun hs => bind (to_ascii f) (fun fs => check_armor62 hs fs typ)))
        as [b|x] eqn:Hc.
      * apply Hgo. reflexivity.
      * pose proof (ftr_chk_err _ _ _ _ Hc) as ->.
        apply rpost_fail; [discriminate|discriminate|]. cbn [snd]. rewrite Htail. reflexivity.
    + apply Hgo. reflexivity.
  - symmetry in V. apply sd_err_class in V. destruct V as (V1 & V2 & V3). rewrite HE in V2.
    apply rpost_fail; [exact V1|exact V2|]. cbn [snd]. unfold ftail_ok. unfold sent_ok in V3.
    destruct (split_dot (pr_rem (fds_pr st2))) as [[a r]|]; [|reflexivity]. rewrite V3. reflexivity.
Qed.

Lemma body_den_app (h d t : bytes) (E : err) : nodot d ->
  body_den h (d ++ t) E = (d ++ fst (body_den h t E), snd (body_den h t E)).
Proof.
  intro Hd. unfold body_den. destruct (split_dot t) as [[a r]|] eqn:Hs.
  - apply split_dot_some in Hs. destruct Hs as [-> Ha].
    rewrite app_assoc, split_dot_at by (apply nodot_app; assumption). reflexivity.
  - apply split_dot_none in Hs. rewrite split_dot_nodot by (apply nodot_app; assumption). reflexivity.
Qed.

Lemma fds_body_spec (n : nat) (st1 : fds_state) (m0 : nat) : (0 < n)%nat ->
  fds_ph st1 = FdsBody -> pr_inv (fds_pr st1) -> src_wf (pr_src (fds_pr st1)) -> pr_E (fds_pr st1) = E0 ->
  (fds_m st1 <= m0)%nat -> (m0 < fuel)%nat ->
  rpost (body_den (fds_hdr st1) (pr_rem (fds_pr st1)) E0) m0 (fds_body n st1).
Proof.
  intros Hn Hph Hinv Hwf HE Hm Hfu. unfold fds_body. rewrite Hph.
  pose proof (pr_read_spec n (fds_pr st1) Hinv) as S.
  destruct (pr_read n (fds_pr st1)) as [[d|d|d x] pr']; unfold pr_step_spec in S.
  - destruct S as (S1 & S2 & S3 & S4 & S5). destruct (S5 Hn Hwf) as [Hwf' Hne].
    unfold fds_foot. cbn [fds_ph]. unfold fds_end. cbn [fds_ph].
    rewrite S1, body_den_app by exact S2. unfold rpost. cbn [fst snd].
    assert (Hlen : (length (pr_rem pr') < m0)%nat).
    { unfold fds_m in Hm. rewrite S1, app_length in Hm. destruct d; [congruence|cbn [length] in Hm; lia]. }
    split.
    { unfold fds_wf, fds_m. cbn [fds_pr fds_ph]. split; [exact S3|]. split; [exact Hwf'|].
      split; [rewrite S4; exact HE|]. split; [discriminate|lia]. }
    split; [unfold fds_m; cbn [fds_pr]; exact Hlen|].
    unfold fds_den. cbn [fds_ph fds_pr fds_hdr]. rewrite S4, HE. split; reflexivity.
  - destruct S as (S1 & S2 & S3 & S4 & S5). specialize (S5 Hn Hwf).
    assert (Hden : body_den (fds_hdr st1) (pr_rem (fds_pr st1)) E0 = (d, ftail_ok (fds_hdr st1) (pr_rem pr') E0)).
    { unfold body_den. rewrite S1, split_dot_at by exact S2. reflexivity. }
    rewrite Hden.
    apply (fds_foot_spec d (mkFds pr' FdsFooter (fds_hdr st1) (fds_ftr st1) (fds_brand st1)) m0);
      cbn [fds_ph fds_pr]; try assumption; [reflexivity|rewrite S4; exact HE|].
    unfold fds_m in *. cbn [fds_pr]. rewrite S1, app_length in Hm. cbn [length] in Hm. lia.
  - destruct S as (-> & S2 & ->). rewrite HE.
    apply rpost_fail.
    + destruct E0; discriminate.
    + intro HU. destruct E0; try discriminate. congruence.
    + rewrite S2. reflexivity.
Qed.

Lemma fds_read_spec (n : nat) (st : fds_state) : (0 < n)%nat -> fds_wf st ->
  rpost (fds_den st) (fds_m st) (fds_read chk fuel n st).
Proof.
  intros Hn (Hinv & Hwf & HE & Hph & Hfu). rewrite fds_read_eq.
  destruct (fds_ph st) eqn:Hp; [| | congruence |].
  - (* header *)
    unfold fds_load_header.
    pose proof (pr_read_until_gen fds_lim fuel (fds_pr st) [] Hinv Hwf nodot_nil fds_lim_pos
                  ltac:(unfold fds_m in Hfu; lia)) as V.
    pose proof (pru_state fds_lim fuel (fds_pr st) []) as P.
    destruct (pr_read_until fuel fds_lim (fds_pr st) []) as [[h|x] pr']; cbn [fst app] in V.
    + destruct (P h pr' Hinv Hwf eq_refl) as (d2 & E1 & E2 & E3 & E4 & E5 & E6). cbn [app] in E1. subst d2.
      symmetry in V. apply sd_ok_inv in V. destruct V as (r & V1 & V2).
      assert (Hden : fds_den st = if hdr_ok h then body_den h (pr_rem pr') E0 else ([], false)).
      { unfold fds_den. rewrite Hp. cbv zeta. unfold text_den. rewrite E3, split_dot_at by exact E2.
        apply Nat.ltb_lt in V2. rewrite V2, HE. reflexivity. }
      assert (Hgo : forall brand, hdr_ok h = true ->
                rpost (fds_den st) (fds_m st) (fds_body n (mkFds pr' FdsBody h (fds_ftr st) brand))).
      { intros brand Hok. rewrite Hden, Hok.
        apply (fds_body_spec n (mkFds pr' FdsBody h (fds_ftr st) brand) (fds_m st) Hn); cbn [fds_ph fds_pr];
          try assumption; [reflexivity|rewrite E6; exact HE|].
        unfold fds_m. cbn [fds_pr]. rewrite E3, app_length. cbn [length]. lia. }
      unfold hdr_ok in Hgo, Hden. destruct chk as [typ|].
      * destruct (bind (to_ascii h) (fun hs => parse_frame hs typ header_marker)) as [b|x] eqn:Hc.
        -- apply Hgo. reflexivity.
        -- pose proof (hdr_chk_err _ _ _ Hc) as ->.
           apply rpost_fail; [discriminate|discriminate|]. rewrite Hden. reflexivity.
      * apply Hgo. reflexivity.
    + symmetry in V. apply sd_err_class in V. destruct V as (V1 & V2 & V3). rewrite HE in V2.
      apply rpost_fail; [exact V1|exact V2|].
      unfold fds_den. rewrite Hp. cbv zeta. unfold text_den. unfold sent_ok in V3.
      destruct (split_dot (pr_rem (fds_pr st))) as [[a r]|]; [|reflexivity]. rewrite V3. reflexivity.
  - (* body *)
    assert (Hden : fds_den st = body_den (fds_hdr st) (pr_rem (fds_pr st)) E0).
    { unfold fds_den. rewrite Hp, HE. reflexivity. }
    rewrite Hden. apply fds_body_spec; try assumption. lia.
  - (* end of stream *)
    unfold fds_body. rewrite Hp. unfold fds_foot. rewrite Hp.
    assert (Hden : fds_den st = ([], cons_ok (pr_rem (fds_pr st)) E0)).
    { unfold fds_den. rewrite Hp, HE. reflexivity. }
    rewrite Hden.
    apply (fds_end_spec [] st (fds_m st) Hp Hinv Hwf HE (le_n _)); [intro H; congruence|exact Hfu].
Qed.
End FdsR.

(* ====================================================================== *)
(* Part D: the denotation of the framed reader and Armor.dearmor           *)
(* ====================================================================== *)
Lemma b62_cap : (N.to_nat (obl base62) <= 8192 * N.to_nat (ibl base62))%nat.
Proof. exact (as_obl_le_cap base62). Qed.

Lemma b62_skip : forall b, is_skip base62 b = true -> digit_of base62 b = None.
Proof. intro b. destruct b; vm_compute; intro H; try reflexivity; discriminate H. Qed.

Local Notation run62 := (BxStreamProofs.run base62).
Local Notation afin62 := (BxStreamProofs.afin base62).

Lemma b62_decode_run (s : bytes) :
  fst (decode base62 s) = fst (afin62 (run62 s a0)) /\
  (snd (decode base62 s) = None <-> snd (afin62 (run62 s a0)) = true).
Proof. exact (decode_run base62 b62_lo b62_hi b62_nodup b62_ibl b62_cap b62_skip s). Qed.

Lemma valid_cases b : valid_armor_byte b = true ->
  is_dig base62 b = true \/ (is_dig base62 b = false /\ is_skip base62 b = true).
Proof.
  unfold valid_armor_byte, is_dig. destruct (digit_of base62 b); [left; reflexivity|right; split; [reflexivity|assumption]].
Qed.

Lemma body_digits_eq l : body_digits l = filter (is_dig base62) l.
Proof. reflexivity. Qed.

(* skip characters of a valid body are invisible to the automaton *)
Lemma run_valid (body : bytes) : forall st, forallb valid_armor_byte body = true ->
  run62 body st = run62 (body_digits body) st.
Proof.
  induction body as [|b t IH]; intros st H; [reflexivity|].
  cbn [forallb] in H. apply andb_prop in H. destruct H as [Hb Ht].
  rewrite body_digits_eq. cbn [filter]. rewrite <- body_digits_eq.
  destruct (valid_cases b Hb) as [Hd|[Hd Hs]]; rewrite Hd.
  - rewrite !run_cons. apply IH. exact Ht.
  - rewrite run_cons, (astep_skip base62 st b Hd Hs). apply IH. exact Ht.
Qed.

(* a text the automaton accepts has only valid characters *)
Lemma afin_ok_valid (s : bytes) : forall st, snd (afin62 (run62 s st)) = true ->
  forallb valid_armor_byte s = true.
Proof.
  induction s as [|b t IH]; intros st H; [reflexivity|].
  rewrite run_cons in H. cbn [forallb].
  destruct (valid_armor_byte b) eqn:Hv.
  - cbn [andb]. exact (IH _ H).
  - exfalso. unfold valid_armor_byte in Hv.
    assert (Hd : is_dig base62 b = false) by (unfold is_dig; destruct (digit_of base62 b); [discriminate|reflexivity]).
    assert (Hs : is_skip base62 b = false) by (destruct (digit_of base62 b); [discriminate|exact Hv]).
    rewrite (afin_run_bad base62 t _ (astep_foreign base62 st b Hd Hs)) in H. discriminate.
Qed.

Lemma lim_conv (s : bytes) : (frame_read_limit <=? len s)%N = negb (Nat.ltb (length s) fds_lim).
Proof.
  unfold fds_lim, len.
  destruct (N.leb_spec frame_read_limit (N.of_nat (length s)));
    destruct (Nat.ltb_spec (length s) (N.to_nat frame_read_limit)); try reflexivity; lia.
Qed.

(* the parts of a text that the streaming stack accepts (frame sentences not necessarily ASCII) *)
Definition armor_parts (chk : option Z) (t h r1 body r2 f r3 : bytes) : Prop :=
  split_dot t = Some (h, r1) /\ Nat.ltb (length h) fds_lim = true /\ hdr_ok chk h = true /\
  split_dot r1 = Some (body, r2) /\
  split_dot r2 = Some (f, r3) /\ Nat.ltb (length f) fds_lim = true /\ ftr_ok chk h f = true /\
  forallb valid_armor_byte r3 = true.

Lemma text_den_parts chk t h r1 body r2 f r3 E : armor_parts chk t h r1 body r2 f r3 ->
  text_den chk t E = (body, is_eof E).
Proof.
  intros (P1 & P2 & P3 & P4 & P5 & P6 & P7 & P8).
  unfold text_den. rewrite P1, P2, P3. cbn [andb]. unfold body_den. rewrite P4.
  unfold ftail_ok. rewrite P5, P6, P7. unfold cons_ok. rewrite P8. reflexivity.
Qed.

Lemma text_den_true_inv chk t E : snd (text_den chk t E) = true ->
  E = EOF /\ exists h r1 body r2 f r3, armor_parts chk t h r1 body r2 f r3 /\ fst (text_den chk t E) = body.
Proof.
  unfold text_den. destruct (split_dot t) as [[h r1]|] eqn:P1; [|discriminate].
  destruct (Nat.ltb (length h) fds_lim) eqn:P2; [|discriminate].
  destruct (hdr_ok chk h) eqn:P3; [|discriminate]. cbn [andb].
  unfold body_den. destruct (split_dot r1) as [[body r2]|] eqn:P4; [|discriminate]. cbn [fst snd].
  unfold ftail_ok. destruct (split_dot r2) as [[f r3]|] eqn:P5; [|discriminate].
  destruct (Nat.ltb (length f) fds_lim) eqn:P6; [|discriminate].
  destruct (ftr_ok chk h f) eqn:P7; [|discriminate]. cbn [andb].
  unfold cons_ok. destruct (forallb valid_armor_byte r3) eqn:P8; [|discriminate]. cbn [andb].
  intro HE. apply is_eof_true in HE. split; [exact HE|].
  exists h, r1, body, r2, f, r3. split; [unfold armor_parts; repeat apply conj; assumption|reflexivity].
Qed.

Lemma dearmor_ok_inv chk t d : dearmor chk t = Ok d ->
  exists h r1 body r2 f r3, armor_parts chk t h r1 body r2 f r3 /\
    forallb valid_armor_byte body = true /\
    decode base62 (body_digits body) = (da_payload d, None).
Proof.
  unfold dearmor, read_sentence.
  destruct (split_dot t) as [[h r1]|] eqn:P1; [|destruct (frame_read_limit <=? len t)%N; discriminate].
  rewrite lim_conv. destruct (Nat.ltb (length h) fds_lim) eqn:P2; [|discriminate]. cbn [negb bind].
  assert (Hh : forall (A : Type) (k : bytes -> result A) (v : A),
             bind (match chk with
                   | None => Ok []
                   | Some typ => bind (to_ascii h) (fun hstr => parse_frame hstr typ header_marker)
                   end) k = Ok v -> hdr_ok chk h = true /\ exists brand, k brand = Ok v).
  { intros A k v. unfold hdr_ok. destruct chk as [typ|].
    - destruct (bind (to_ascii h) (fun hstr => parse_frame hstr typ header_marker)) as [b|x]; [|discriminate].
      cbn [bind]. intro H. split; [reflexivity|]. exists b. exact H.
    - cbn [bind]. intro H. split; [reflexivity|]. exists []. exact H. }
  intro H. apply Hh in H. destruct H as [P3 [brand H]].
  destruct (split_dot r1) as [[body r2]|] eqn:P4; [|destruct (forallb valid_armor_byte r1); discriminate].
  destruct (forallb valid_armor_byte body) eqn:Pv; [|discriminate]. cbn [negb] in H.
  destruct (split_dot r2) as [[f r3]|] eqn:P5; [|destruct (frame_read_limit <=? len r2)%N; discriminate].
  rewrite lim_conv in H. destruct (Nat.ltb (length f) fds_lim) eqn:P6; [|discriminate]. cbn [negb bind] in H.
  assert (Hf : forall (A : Type) (k : bytes -> result A) (v : A),
             bind (match chk with
                   | None => Ok brand
                   | Some typ => bind (to_ascii h) (fun hstr => bind (to_ascii f) (fun fstr => check_armor62 hstr fstr typ))
                   end) k = Ok v -> ftr_ok chk h f = true /\ exists b, k b = Ok v).
  { intros A k v. unfold ftr_ok. destruct chk as [typ|].
    - destruct (bind (to_ascii h) (fun hstr => bind (to_ascii f) (fun fstr => check_armor62 hstr fstr typ))) as [b|x];
        [|discriminate].
      cbn [bind]. intro H0. split; [reflexivity|]. exists b. exact H0.
    - cbn [bind]. intro H0. split; [reflexivity|]. exists brand. exact H0. }
  apply Hf in H. destruct H as [P7 [b0 H]].
  destruct (forallb valid_armor_byte r3) eqn:P8; [|discriminate]. cbn [negb] in H.
  destruct (decode base62 (body_digits body)) as [payload [er|]] eqn:Hd; [discriminate|].
  destruct (to_ascii h) as [hs|]; [|discriminate]. cbn [bind] in H.
  destruct (to_ascii f) as [fs|]; [|discriminate]. cbn [bind] in H.
  injection H as <-. cbn [da_payload].
  exists h, r1, body, r2, f, r3. split; [unfold armor_parts; repeat apply conj; assumption|].
  split; [exact Pv|exact Hd].
Qed.

Lemma dearmor_of_parts chk t h r1 body r2 f r3 out : armor_parts chk t h r1 body r2 f r3 ->
  forallb valid_armor_byte body = true ->
  decode base62 (body_digits body) = (out, None) ->
  (exists d, dearmor chk t = Ok d /\ da_payload d = out) \/
  (chk = None /\ dearmor None t = Err ErrBadFrame).
Proof.
  intros (P1 & P2 & P3 & P4 & P5 & P6 & P7 & P8) Pv Hd.
  unfold dearmor, read_sentence. rewrite P1, lim_conv, P2. cbn [negb bind].
  unfold hdr_ok in P3. unfold ftr_ok in P7.
  destruct chk as [typ|].
  - left.
    destruct (bind (to_ascii h) (fun hs => parse_frame hs typ header_marker)) as [brand|x] eqn:Hc; [|discriminate].
    cbn [bind]. rewrite P4, Pv. cbn [negb]. rewrite P5, lim_conv, P6. cbn [negb bind].
    destruct (bind (to_ascii h) (fun hs => bind (to_ascii f) (fun fs => check_armor62 hs fs typ))) as [b|x] eqn:Hc2;
      [|discriminate].
    cbn [bind]. rewrite P8. cbn [negb]. rewrite Hd.
    destruct (to_ascii h) as [hs|x]; [|discriminate]. cbn [bind] in Hc2 |- *.
    destruct (to_ascii f) as [fs|x]; [|discriminate]. cbn [bind].
    eexists. split; reflexivity.
  - cbn [bind]. rewrite P4, Pv. cbn [negb]. rewrite P5, lim_conv, P6. cbn [negb bind].
    rewrite P8. cbn [negb]. rewrite Hd.
    destruct (to_ascii h) as [hs|x] eqn:A1; cbn [bind].
    + destruct (to_ascii f) as [fs|x] eqn:A2; cbn [bind].
      * left. eexists. split; reflexivity.
      * right. split; [reflexivity|]. rewrite (to_ascii_err _ _ A2). reflexivity.
    + right. split; [reflexivity|]. rewrite (to_ascii_err _ _ A1). reflexivity.
Qed.

(* ====================================================================== *)
(* Part E: the composed stack                                              *)
(* ====================================================================== *)
Lemma src_bytes_len (l : list seg) : (length (fst (src_bytes l)) <= length (concat (map seg_data l)))%nat.
Proof.
  induction l as [|sg t IH]; [cbn; lia|].
  cbn [src_bytes map concat]. rewrite app_length. destruct (seg_err sg); [cbn [fst]; lia|].
  destruct (src_bytes t) as [d oe]. cbn [fst] in *. rewrite app_length. lia.
Qed.

Lemma src_denote_len (s : source) : (length (fst (src_denote s)) < ad_fuel s)%nat.
Proof.
  unfold ad_fuel, src_fuel, src_denote. pose proof (src_bytes_len (src_segs s)) as H.
  destruct (src_bytes (src_segs s)) as [d oe]. cbn [fst] in *. lia.
Qed.

Section A.
Variable chk : option Z.

Lemma fds_init_wf (s : source) : src_wf s -> fds_wf (ad_fuel s) (snd (src_denote s)) (fds_init s).
Proof.
  intro Hwf. unfold fds_wf, fds_init, fds_m. cbn [fds_pr fds_ph].
  split; [apply pr_init_inv|]. split; [exact Hwf|]. split; [reflexivity|]. split; [discriminate|].
  rewrite pr_init_rem. apply src_denote_len.
Qed.

Lemma fds_init_den (s : source) :
  fds_den chk (fds_init s) = text_den chk (fst (src_denote s)) (snd (src_denote s)).
Proof. reflexivity. Qed.

(* everything the generic development says about the composed stack *)
Lemma ad_drain_gen (s : source) (sizes : list nat) : src_wf s -> pos_sizes sizes ->
  let D := text_den chk (fst (src_denote s)) (snd (src_denote s)) in
  let Fin := afin62 (run62 (fst D) a0) in
  let res := ad_drain chk sizes s in
  bprefix (fst res) (fst Fin) /\
  (snd res = Some EOF -> snd D = true /\ Fin = (fst res, true)) /\
  (forall x, snd res = Some x -> snd D = true -> snd Fin = true -> x = EOF) /\
  (snd res = None -> (length sizes <= length (fst res))%nat) /\
  (forall x, snd res = Some x -> snd (src_denote s) <> Unmodelled -> x <> Unmodelled).
Proof.
  intros Hwf Hpos. cbv zeta. rewrite <- fds_init_den.
  set (F := ad_fuel s). set (E0 := snd (src_denote s)).
  assert (Hspec : forall n r, (0 < n)%nat -> fds_wf F E0 r ->
    let '((d, oe), r') := fds_read chk F n r in
    match oe with
    | None => fds_wf F E0 r' /\ (fds_m r' < fds_m r)%nat /\ fst (fds_den chk r) = d ++ fst (fds_den chk r') /\
              snd (fds_den chk r) = snd (fds_den chk r')
    | Some x => (E0 <> Unmodelled -> x <> Unmodelled) /\ (x = EOF <-> snd (fds_den chk r) = true) /\
                (x = EOF -> fst (fds_den chk r) = d /\ fds_wf F E0 r' /\ (fds_m r' <= fds_m r)%nat /\
                            fds_den chk r' = ([], true))
    end).
  { intros n r Hn Hr. exact (fds_read_spec chk F E0 n r Hn Hr). }
  pose proof (fds_init_wf s Hwf) as Hiw. fold F E0 in Hiw.
  assert (Him : (fds_m (fds_init s) < F)%nat) by (destruct Hiw as (_ & _ & _ & _ & H); exact H).
  pose proof (GInv_init base62 b62_lo b62_hi b62_nodup b62_ibl b62_cap b62_skip fds_state (fds_read chk F)
                (fds_den chk) (fds_wf F E0) fds_m (E0 <> Unmodelled) Hspec F (fds_init s) Hiw Him) as HI.
  pose proof (gbd_drain_gen base62 b62_lo b62_hi b62_nodup b62_ibl b62_cap b62_skip fds_state (fds_read chk F)
                (fds_den chk) (fds_wf F E0) fds_m (E0 <> Unmodelled) Hspec F _ _ sizes _ [] Hpos HI) as G.
  cbv zeta in G. exact G.
Qed.

(* (TARGET) safety: under every fragmentation and every caller buffer sizes the stack never delivers
   anything but a prefix of the payload the text dearmors to *)
Lemma ad_drain_prefix (s : source) (sizes : list nat) (d : dearmored) :
  src_wf s -> pos_sizes sizes ->
  dearmor chk (fst (src_denote s)) = Ok d ->
  bprefix (fst (ad_drain chk sizes s)) (da_payload d).
Proof.
  intros Hwf Hpos Hd.
  destruct (ad_drain_gen s sizes Hwf Hpos) as (A1 & _).
  destruct (dearmor_ok_inv chk _ d Hd) as (h & r1 & body & r2 & f & r3 & Hp & Hv & Hdec).
  rewrite (text_den_parts chk _ _ _ _ _ _ _ (snd (src_denote s)) Hp) in A1. cbn [fst] in A1.
  rewrite (run_valid body a0 Hv) in A1.
  destruct (b62_decode_run (body_digits body)) as [D1 _]. rewrite Hdec in D1. cbn [fst] in D1.
  rewrite <- D1 in A1. exact A1.
Qed.

(* what a clean end of the stack means for the text, whatever the checkers: it has the three-sentence
   shape, acceptable frames (not necessarily ASCII ones when there are no checkers), a valid body that
   decodes to exactly what was delivered, valid trailing text, and the source ended with EOF *)
Lemma ad_drain_clean_end_parts (s : source) (sizes : list nat) (out : bytes) :
  src_wf s -> pos_sizes sizes ->
  ad_drain chk sizes s = (out, Some EOF) ->
  snd (src_denote s) = EOF /\
  exists h r1 body r2 f r3, armor_parts chk (fst (src_denote s)) h r1 body r2 f r3 /\
    forallb valid_armor_byte body = true /\
    decode base62 (body_digits body) = (out, None).
Proof.
  intros Hwf Hpos H.
  destruct (ad_drain_gen s sizes Hwf Hpos) as (_ & A2 & _).
  rewrite H in A2. cbn [fst snd] in A2. destruct (A2 eq_refl) as [B1 B2].
  destruct (text_den_true_inv chk _ _ B1) as (HE & h & r1 & body & r2 & f & r3 & Hp & Hb).
  split; [exact HE|]. exists h, r1, body, r2, f, r3. split; [exact Hp|].
  rewrite Hb in B2.
  assert (Hv : forallb valid_armor_byte body = true).
  { apply (afin_ok_valid body a0). rewrite B2. reflexivity. }
  split; [exact Hv|].
  rewrite (run_valid body a0 Hv) in B2.
  destruct (b62_decode_run (body_digits body)) as [D1 D2]. rewrite B2 in D1, D2. cbn [fst snd] in D1, D2.
  destruct (decode base62 (body_digits body)) as [a b]. cbn [fst snd] in D1, D2.
  rewrite D1, (proj2 D2 eq_refl). reflexivity.
Qed.

(* (TARGET) a clean end only on good input, completely delivered *)
(* STATEMENT ADJUSTED: with no checkers (chk = None) the stream never looks at the characters of the
   header and footer sentences, while the one-shot form (armorOpen) calls Frame.GetHeader/GetFooter
   after reading, whose toASCII rejects a sentence containing a byte that is neither a base-62 digit
   nor a skip character.  Counterexample: text = "!" ++ armor62_seal payload mt_encryption [] (any
   payload, e.g. bytes 1..70), one segment, final error EOF, sizes = 100 x 50, chk = None: the stack
   delivers the whole payload and ends with EOF, dearmor None text = Err ErrBadFrame.  Same with the
   "!" inside the footer sentence.  The conclusion therefore allows, for chk = None only, the case
   that dearmor fails with ErrBadFrame; ad_drain_clean_end_parts above says exactly what the text
   looks like in either case. *)
Lemma ad_drain_clean_end (s : source) (sizes : list nat) (out : bytes) :
  src_wf s -> pos_sizes sizes ->
  ad_drain chk sizes s = (out, Some EOF) ->
  snd (src_denote s) = EOF /\
  ((exists d, dearmor chk (fst (src_denote s)) = Ok d /\ da_payload d = out) \/
   (chk = None /\ dearmor None (fst (src_denote s)) = Err ErrBadFrame)).
Proof.
  intros Hwf Hpos H.
  destruct (ad_drain_clean_end_parts s sizes out Hwf Hpos H) as (HE & h & r1 & body & r2 & f & r3 & Hp & Hv & Hd).
  split; [exact HE|]. exact (dearmor_of_parts chk _ _ _ _ _ _ _ out Hp Hv Hd).
Qed.

(* (TARGET) completeness: a text that dearmors, read to the end, is decoded completely and ends with
   EOF, for every fragmentation and buffer sizes, given enough Read calls *)
Lemma ad_drain_complete (s : source) (sizes : list nat) (d : dearmored) :
  src_wf s -> pos_sizes sizes ->
  snd (src_denote s) = EOF ->
  dearmor chk (fst (src_denote s)) = Ok d ->
  (length (da_payload d) + length (fst (src_denote s)) + length (src_segs s) + 8 <= length sizes)%nat ->
  ad_drain chk sizes s = (da_payload d, Some EOF).
Proof.
  intros Hwf Hpos HE Hd Hlen.
  destruct (ad_drain_gen s sizes Hwf Hpos) as (A1 & A2 & A3 & A4 & _).
  destruct (dearmor_ok_inv chk _ d Hd) as (h & r1 & body & r2 & f & r3 & Hp & Hv & Hdec).
  rewrite (text_den_parts chk _ _ _ _ _ _ _ (snd (src_denote s)) Hp) in A1, A2, A3. cbn [fst snd] in A1, A2, A3.
  rewrite (run_valid body a0 Hv) in A1, A2, A3.
  destruct (b62_decode_run (body_digits body)) as [D1 D2]. rewrite Hdec in D1, D2. cbn [fst snd] in D1, D2.
  pose proof (proj1 D2 eq_refl) as D3. rewrite HE in A2, A3. cbn [is_eof] in A2, A3.
  destruct (ad_drain chk sizes s) as [o oe]. cbn [fst snd] in A1, A2, A3, A4.
  destruct A1 as [u Hu]. rewrite <- D1 in Hu.
  destruct oe as [x|].
  - pose proof (A3 x eq_refl eq_refl D3) as ->. destruct (A2 eq_refl) as [_ B2].
    rewrite B2 in D1. cbn [fst] in D1. rewrite D1. reflexivity.
  - specialize (A4 eq_refl). apply (f_equal (@length byte)) in Hu. rewrite app_length in Hu. lia.
Qed.

(* (TARGET) a failing source never looks like a clean end *)
Lemma ad_drain_source_error (s : source) (sizes : list nat) (out : bytes) (x : err) :
  src_wf s -> pos_sizes sizes ->
  snd (src_denote s) <> EOF ->
  ad_drain chk sizes s = (out, Some x) ->
  x <> EOF.
Proof.
  intros Hwf Hpos HE H Hx. subst x.
  destruct (ad_drain_clean_end_parts s sizes out Hwf Hpos H) as (HE' & _). exact (HE HE').
Qed.

(* (TARGET) the out-of-fuel value of the model is never reached *)
(* STATEMENT ADJUSTED: [Unmodelled] is an ordinary value of type err, so a source may itself fail with
   it and the stack hands that error through.  Counterexample: s = mkSource [mkSeg text None] Unmodelled
   (text any armored text, also any prefix of one), sizes = 100 x 50:
   ad_drain None sizes s = ([], Some Unmodelled).  Hypothesis added: the source does not end with
   Unmodelled; then Unmodelled (the out-of-fuel value of every loop of the model) never comes out. *)
Lemma ad_drain_modelled (s : source) (sizes : list nat) (out : bytes) (x : err) :
  src_wf s -> pos_sizes sizes ->
  snd (src_denote s) <> Unmodelled ->
  ad_drain chk sizes s = (out, Some x) ->
  x <> Unmodelled.
Proof.
  intros Hwf Hpos HU H.
  destruct (ad_drain_gen s sizes Hwf Hpos) as (_ & _ & _ & _ & A5).
  rewrite H in A5. cbn [snd] in A5. exact (A5 x eq_refl HU).
Qed.
End A.

(* with checkers the clean-end statement holds in its original, unadjusted form *)
Lemma ad_drain_clean_end_checked (typ : Z) (s : source) (sizes : list nat) (out : bytes) :
  src_wf s -> pos_sizes sizes ->
  ad_drain (Some typ) sizes s = (out, Some EOF) ->
  snd (src_denote s) = EOF /\
  exists d, dearmor (Some typ) (fst (src_denote s)) = Ok d /\ da_payload d = out.
Proof.
  intros Hwf Hpos H.
  destruct (ad_drain_clean_end (Some typ) s sizes out Hwf Hpos H) as [HE [Hd|[Hc _]]]; [|discriminate Hc].
  split; [exact HE|exact Hd].
Qed.
