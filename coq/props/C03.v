(* C03 — Signcryption round trip for box-key and symmetric-key recipients.
   Only property theorems, each closed by `exact` of a lemma from proofs/. *)
From Coq Require Import List NArith ZArith Permutation.
From Coq.Strings Require Import Byte.
From SP Require Import Bytes Params Msgpack Crypto Errors Packets Chunker Rand Verify Encrypt Decrypt Signcrypt SigncryptProofs.
From SP Require Import BaseX Encodings Armor ArmorProofs ArmoredForms.
From SP Require Import GoLang GoLang2 GoAst GoAstProofs GoAstProofs2 GoAstProofs3 GoAstProofs4a.
From SP Require Import GoAstRecv.
From Coq Require String.
Import String.StringSyntax.
Import ListNotations.
Open Scope N_scope.

Section C03.
Variable c : crypto.
Hypothesis Hc : crypto_ok c.        (* functional correctness of NaCl (trusted base) *)

(* The sender is: recipient checks, then the draws (shuffle of box and symmetric
   recipients together, 32-byte ephemeral secret, 32-byte payload key) and
   [signcrypt_core] on a permutation of the recipients. *)
Theorem C03_sender_structure (signer : option bytes) (boxes : list bytes) (syms : list (bytes * bytes))
        (pieces : list bytes) (r r' : rng) (out : bytes) :
  signcrypt_seal_stream c signer boxes syms pieces r = Ok (out, r') ->
  let all := map BoxRcpt boxes ++ map (fun s => SymRcpt (fst s) (snd s)) syms in
  all <> [] /\ N.of_nat (length all) < 4294967296 /\
  exists rs r1 eph_sk pkey,
    shuffle all r = Some (rs, r1) /\ Permutation all rs /\
    eph_sk = firstn 32 r1 /\ pkey = firstn 32 (skipn 32 r1) /\ r' = skipn 64 r1 /\
    (64 <= length r1)%nat /\
    signcrypt_core c signer eph_sk pkey rs pieces = Ok out.
Proof. exact (signcrypt_seal_stream_core c signer boxes syms pieces r r' out). Qed.

(* Box-key recipients: for every plaintext and Write split, named or anonymous
   sender, any mix and order of recipients, the holder of the box secret key at
   ANY position recovers exactly the plaintext and the signer's public key (None
   for an anonymous sender), streaming and all-at-once — unless an identifier at
   another position collides with this key's HMAC-derived identifier there
   (HMAC collision, or an application-chosen symmetric identifier crafted to
   collide).  Side condition: encoded header below 4 GiB, see [C03_header_fits]. *)
Theorem C03_roundtrip_box (signer : option bytes) (eph_sk pkey : bytes) (rs : list sc_rcpt)
        (pieces : list bytes) (out : bytes) (sk : bytes) (i : nat) (signers : sigring) (rv : resolver) :
  length pkey = 32%nat -> N.of_nat (length rs) < 4294967296 ->
  header_fits c signer eph_sk pkey rs ->
  signcrypt_core c signer eph_sk pkey rs pieces = Ok out ->
  nth_error rs i = Some (BoxRcpt (dh_pub c sk)) ->
  (forall s, signer = Some s -> In (ed_pub c s) signers /\ all_zero (ed_pub c s) = false) ->
  let kr := mkRing [(sk, dh_pub c sk)] None in
  (exists chunks,
      signcrypt_open_stream c kr signers rv out = Ok (option_map (ed_pub c) signer, mkOut chunks EOF) /\
      concat chunks = concat pieces /\
      signcrypt_open_all c kr signers rv out = Ok (option_map (ed_pub c) signer, concat pieces))
  \/ IdentifierCollision c eph_sk pkey rs sk i.
Proof. exact (signcrypt_core_open_box c Hc signer eph_sk pkey rs pieces out sk i signers rv). Qed.

(* Symmetric-key recipients: a holder of no box key whose resolver resolves ANY
   subset of the identifiers containing at least one, each to its genuine key. *)
Theorem C03_roundtrip_sym (signer : option bytes) (eph_sk pkey : bytes) (rs : list sc_rcpt)
        (pieces : list bytes) (out : bytes) (rsl : list (bytes * bytes)) (i : nat) (key ident : bytes)
        (signers : sigring) :
  length pkey = 32%nat -> N.of_nat (length rs) < 4294967296 ->
  header_fits c signer eph_sk pkey rs ->
  signcrypt_core c signer eph_sk pkey rs pieces = Ok out ->
  nth_error rs i = Some (SymRcpt key ident) -> resolve rsl ident = Some key ->
  resolver_genuine c rsl eph_sk pkey rs ->
  (forall s, signer = Some s -> In (ed_pub c s) signers /\ all_zero (ed_pub c s) = false) ->
  let kr := mkRing [] None in
  exists chunks,
      signcrypt_open_stream c kr signers (Some rsl) out = Ok (option_map (ed_pub c) signer, mkOut chunks EOF) /\
      concat chunks = concat pieces /\
      signcrypt_open_all c kr signers (Some rsl) out = Ok (option_map (ed_pub c) signer, concat pieces).
Proof. exact (signcrypt_core_open_sym c Hc signer eph_sk pkey rs pieces out rsl i key ident signers). Qed.

(* Holders of no recipient key get the no-decryption-key error and no plaintext. *)
Theorem C03_no_key (signer : option bytes) (eph_sk pkey : bytes) (rs : list sc_rcpt)
        (pieces : list bytes) (out : bytes) (sk : bytes) (rsl : list (bytes * bytes)) (signers : sigring) :
  N.of_nat (length rs) < 4294967296 ->
  header_fits c signer eph_sk pkey rs ->
  signcrypt_core c signer eph_sk pkey rs pieces = Ok out ->
  (forall kid, In kid (sc_header_kids c eph_sk pkey rs) -> resolve rsl kid = None) ->
  (forall j kid, nth_error (sc_header_kids c eph_sk pkey rs) j = Some kid ->
     box_key_identifier c (derived_box_key c sk (dh_pub c eph_sk)) (N.of_nat j) <> kid) ->
  let kr := mkRing [(sk, dh_pub c sk)] None in
  signcrypt_open_stream c kr signers (Some rsl) out = Err ErrNoDecryptionKey /\
  signcrypt_open_all c kr signers (Some rsl) out = Err ErrNoDecryptionKey.
Proof. exact (signcrypt_core_open_stranger c Hc signer eph_sk pkey rs pieces out sk rsl signers). Qed.

Theorem C03_header_fits (signer : option bytes) (eph_sk pkey : bytes) (rs : list sc_rcpt) (m : nat) :
  length pkey = 32%nat -> (32 <= m)%nat ->
  (forall key ident, In (SymRcpt key ident) rs -> (length ident <= m)%nat) ->
  N.of_nat (length rs) * (N.of_nat m + 63) + 113 < 4294967296 ->
  header_fits c signer eph_sk pkey rs.
Proof. exact (header_fits_bound c Hc signer eph_sk pkey rs m). Qed.

Theorem C03_forms_agree (signer : option bytes) boxes syms (pieces : list bytes) (r : rng) :
  signcrypt_seal_stream c signer boxes syms pieces r =
  signcrypt_seal_stream c signer boxes syms [concat pieces] r.
Proof. exact (signcrypt_stream_oneshot c signer boxes syms pieces r). Qed.
End C03.

(* BINARY AND ARMORED FORMS AGREE: the armored all-at-once entry point is the binary one composed
   with dearmoring; on the armored form of ANY binary message (genuine or not) it returns exactly
   what the binary entry point returns on that message, plus the brand. *)
Theorem C03_armored_form_agrees (c : crypto) (kr : keyring) (signers : sigring) (rv : resolver) (wire brand : bytes) :
  brand_ok brand ->
  dearmor62_signcrypt_open c kr signers rv (armor62_seal wire mt_encryption brand) =
  bind (signcrypt_open_all c kr signers rv wire) (fun r => Ok (fst r, snd r, brand)).
Proof. exact (armored_signcrypt_agrees c kr signers rv wire brand). Qed.

(* SOURCE TIE (stateful functions): the terms f_saltpack_signcryptOpenStream_* are generated on every run
   from the Go syntax trees of /repo's signcryptOpenStream.processHeader, tryBoxSecretKeys and
   trySharedSymmetricKeys.  Under the Go semantics of model/GoLang2.v, with the keyring, resolver and
   primitives interpreted over the crypto record and the model's keyring/resolver, they compute exactly
   what the model's signcryption receiver does with a header, for ALL headers, keyrings, signer rings and
   resolvers: the same error class, and on success the payload key and the signer (or anonymity) left in
   the receiver object; the two key searches return the model's sc_try_box / sc_try_sym and leave the
   receiver object unchanged. *)
Theorem C03_source_processHeader (c : crypto) (kr : keyring) (signers : sigring) (rv : resolver) (hh : bytes) (h : header) :
  let r := run_func2 (ext_sc_process c kr signers rv) f_saltpack_signcryptOpenStream_processHeader
                     [g_sos0 hh rv; g_enc_header h] in
  match process_sc_header c kr signers rv h with
  | Err e => g_sc_hdr_err (fst r) = Some e
  | Ok (pkey, signer) =>
    fst r = ORet [VNil] /\ lookup "sos" (snd r) = Some (g_sos pkey hh signer rv)
  end.
Proof. exact (go_signcrypt_processHeader c kr signers rv hh h). Qed.

Theorem C03_source_tryBoxSecretKeys (c : crypto) (kr : keyring) (rv : resolver) (hh : bytes) (h : header) (eph : bytes) :
  (N.of_nat (List.length (h_rcvs h)) < 9223372036854775808)%N ->
  let r := run_func2 (ext_sc_try c kr rv) f_saltpack_signcryptOpenStream_tryBoxSecretKeys
                     [g_sos0 hh rv; g_enc_header h; VBytes eph] in
  option_map ORet (g_of_sc_try (sc_try_box c (sc_derived_keys c kr eph) (h_rcvs h) 0)) = Some (fst r) /\
  lookup "sos" (snd r) = Some (g_sos0 hh rv).
Proof. exact (go_tryBoxSecretKeys c kr rv hh h eph). Qed.

Theorem C03_source_trySharedSymmetricKeys (c : crypto) (kr : keyring) (rv : resolver) (hh : bytes) (h : header) (eph : bytes) :
  (forall k x, (32 <= List.length (hmac512 c k x))%nat) ->
  resolver_ok rv ->
  (N.of_nat (List.length (h_rcvs h)) < 9223372036854775808)%N ->
  let r := run_func2 (ext_sc_try c kr rv) f_saltpack_signcryptOpenStream_trySharedSymmetricKeys
                     [g_sos0 hh rv; g_enc_header h; VBytes eph] in
  option_map ORet (g_of_sc_try (sc_try_sym_rv c rv eph (h_rcvs h))) = Some (fst r) /\
  lookup "sos" (snd r) = Some (g_sos0 hh rv).
Proof. exact (go_trySharedSymmetricKeys c kr rv hh h eph). Qed.

(* the meaning processHeader's externs give the two key searches IS the outcome of the translated methods *)
Local Open Scope string_scope.
Theorem C03_source_processHeader_composes (c : crypto) (kr : keyring) (signers : sigring) (rv : resolver) (hh : bytes) (h : header) (eph : bytes) :
  (forall k x, (32 <= List.length (hmac512 c k x))%nat) ->
  resolver_ok rv ->
  (N.of_nat (List.length (h_rcvs h)) < 9223372036854775808)%N ->
  option_map ORet (ext_sc_process c kr signers rv "signcryptOpenStream.tryBoxSecretKeys" [g_sos0 hh rv; g_enc_header h; VBytes eph])
  = Some (fst (run_func2 (ext_sc_try c kr rv) f_saltpack_signcryptOpenStream_tryBoxSecretKeys [g_sos0 hh rv; g_enc_header h; VBytes eph])) /\
  option_map ORet (ext_sc_process c kr signers rv "signcryptOpenStream.trySharedSymmetricKeys" [g_sos0 hh rv; g_enc_header h; VBytes eph])
  = Some (fst (run_func2 (ext_sc_try c kr rv) f_saltpack_signcryptOpenStream_trySharedSymmetricKeys [g_sos0 hh rv; g_enc_header h; VBytes eph])).
Proof.
  intros Hh Hr Hl. split.
  - exact (ext_sc_process_tryBox c kr signers rv hh h eph Hl).
  - exact (ext_sc_process_trySym c kr signers rv hh h eph Hh Hr Hl).
Qed.
Local Close Scope string_scope.

Print Assumptions C03_source_processHeader.
Print Assumptions C03_source_tryBoxSecretKeys.
Print Assumptions C03_source_trySharedSymmetricKeys.
Print Assumptions C03_source_processHeader_composes.
Print Assumptions C03_armored_form_agrees.
Print Assumptions C03_sender_structure.
Print Assumptions C03_roundtrip_box.
Print Assumptions C03_roundtrip_sym.
Print Assumptions C03_no_key.
Print Assumptions C03_header_fits.
Print Assumptions C03_forms_agree.

From SP Require Import ToyCrypto ToyCryptoProofs.
Example C03_ex_roundtrip :
  let sk := repeat x11 32 in
  let rs := [SymRcpt (repeat x09 32) [x69; x64]; BoxRcpt (dh_pub toy_crypto sk)] in
  match signcrypt_core toy_crypto None (repeat x44 32) (repeat x55 32) rs [[x68; x69]] with
  | Ok out =>
    match signcrypt_open_all toy_crypto (mkRing [] None) [] (Some [([x69; x64], repeat x09 32)]) out with
    | Ok (s, pt) => Some (s, pt)
    | Err _ => None
    end
  | Err _ => None
  end = Some (None, [x68; x69]).
Proof. vm_compute. reflexivity. Qed.
